/-!
# Array lemmas for the framing proofs of C06 (core Lean only)

Everything a history hand-over proof needs, for an arbitrary element type (no arithmetic):

* `hand d a` — the history a block processor keeps after it consumed the frame `a` with history `d`
  (the last `d.size` cells of the work buffer `d ++ a`);
* `getElem?_prefix` — the work buffer of the whole stream `d ++ (a ++ b)` agrees with the work buffer of the first
  frame `d ++ a` on the cells the first frame's outputs read;
* `getElem?_shift` — and, shifted by the length of the first frame, with the work buffer of the second frame
  `hand d a ++ b` EVERYWHERE;
* `hand_hand` — the history after `a ++ b` is the history after `a`, then `b`;
* `tabF_add` — an output array given by its index map splits at any point;
* `fold_split` — a sample loop that only appends to its output splits at any point.
-/
namespace Dsp.C06A
variable {β : Type}

/-- the history a processor keeps after consuming `a` with history `d`: the last `d.size` cells of `d ++ a` -/
def hand (d a : Array β) : Array β := (d ++ a).extract a.size (a.size + d.size)

theorem size_hand (d a : Array β) : (hand d a).size = d.size := by
  simp [hand]; omega

theorem getElem?_hand (d a : Array β) (t : Nat) :
    (hand d a)[t]? = if t < d.size then (d ++ a)[a.size + t]? else none := by
  unfold hand
  rw [Array.getElem?_extract, Array.size_append]
  by_cases h : t < d.size
  · rw [if_pos (by omega), if_pos h]
  · rw [if_neg (by omega), if_neg h]

theorem getElem?_prefix (d a b : Array β) (t : Nat) (h : t < d.size + a.size) :
    (d ++ (a ++ b))[t]? = (d ++ a)[t]? := by
  rw [← Array.append_assoc, Array.getElem?_append, Array.size_append, if_pos h]

theorem getElem?_shift (d a b : Array β) (t : Nat) :
    (d ++ (a ++ b))[a.size + t]? = (hand d a ++ b)[t]? := by
  rw [Array.getElem?_append (xs := hand d a), size_hand, getElem?_hand]
  by_cases h1 : t < d.size
  · rw [if_pos h1, if_pos h1, getElem?_prefix _ _ _ _ (by omega)]
  · rw [if_neg h1, ← Array.append_assoc, Array.getElem?_append, Array.size_append, if_neg (by omega)]
    congr 1; omega

theorem getD_prefix (d a b : Array β) (t : Nat) (z : β) (h : t < d.size + a.size) :
    (d ++ (a ++ b)).getD t z = (d ++ a).getD t z := by
  rw [Array.getD_eq_getD_getElem?, Array.getD_eq_getD_getElem?, getElem?_prefix _ _ _ _ h]

theorem getD_shift (d a b : Array β) (t : Nat) (z : β) :
    (d ++ (a ++ b)).getD (a.size + t) z = (hand d a ++ b).getD t z := by
  rw [Array.getD_eq_getD_getElem?, Array.getD_eq_getD_getElem?, getElem?_shift]

theorem hand_hand (d a b : Array β) : hand d (a ++ b) = hand (hand d a) b := by
  apply Array.ext_getElem?
  intro i
  rw [getElem?_hand, getElem?_hand, size_hand, Array.size_append]
  by_cases hi : i < d.size
  · rw [if_pos hi, if_pos hi]
    have e : a.size + b.size + i = a.size + (b.size + i) := by omega
    rw [e, getElem?_shift]
  · rw [if_neg hi, if_neg hi]

theorem hand_empty (d : Array β) : hand d #[] = d := by
  apply Array.ext_getElem?
  intro i
  rw [getElem?_hand]
  by_cases hi : i < d.size
  · rw [if_pos hi]; simp
  · rw [if_neg hi]; simp at hi; simp [hi]

/-- array given by its index map -/
def tabF {γ : Type} (n : Nat) (f : Nat → γ) : Array γ := Array.ofFn (n := n) fun i => f i.val

theorem size_tabF {γ : Type} (n : Nat) (f : Nat → γ) : (tabF n f).size = n := by simp [tabF]

theorem tabF_congr {γ : Type} (n : Nat) (f g : Nat → γ) (h : ∀ i, i < n → f i = g i) : tabF n f = tabF n g := by
  unfold tabF
  congr 1
  funext i
  exact h i.val i.isLt

theorem tabF_zero {γ : Type} (f : Nat → γ) : tabF 0 f = #[] := by simp [tabF]

theorem tabF_add {γ : Type} (m n : Nat) (f : Nat → γ) :
    tabF (m + n) f = tabF m f ++ tabF n (fun i => f (m + i)) := by
  apply Array.ext_getElem?
  intro i
  simp only [tabF, Array.getElem?_append, Array.size_ofFn, Array.getElem?_ofFn]
  by_cases h1 : i < m
  · simp [h1, show i < m + n by omega]
  · by_cases h2 : i < m + n
    · simp [h1, h2, show i - m < n by omega, show m + (i - m) = i by omega]
    · simp [h1, h2, show ¬ (i - m < n) by omega]

/-! ## sample loops that only append to their output -/

/-- a left fold whose step extends the output by something that does not depend on the output so far: moving the
accumulated output out of the loop -/
theorem foldl_shift {σ X O : Type} (app : O → O → O) (e : O) (hassoc : ∀ a b c, app (app a b) c = app a (app b c))
    (hid : ∀ a, app a e = a) (step : σ × O → X → σ × O)
    (hstep : ∀ s acc x, step (s, acc) x = ((step (s, e) x).1, app acc (step (s, e) x).2)) :
    ∀ (l : List X) (s : σ) (acc : O),
      l.foldl step (s, acc) = ((l.foldl step (s, e)).1, app acc (l.foldl step (s, e)).2) := by
  intro l
  induction l with
  | nil => intro s acc; simp only [List.foldl_nil]; rw [hid]
  | cons x t ih =>
    intro s acc
    simp only [List.foldl_cons]
    rw [hstep s acc x, ih, ih (step (s, e) x).1 (step (s, e) x).2, hassoc]

/-- **split law of a fold.**  A sample loop `xs.foldl step (s, e)` whose step only appends to the output gives, on
`a ++ b`, the state after `a` then `b`, and the output of `a` followed by the output of `b` from the state `a` left. -/
theorem fold_split {σ X O : Type} (app : O → O → O) (e : O) (hassoc : ∀ a b c, app (app a b) c = app a (app b c))
    (hid : ∀ a, app a e = a) (step : σ × O → X → σ × O)
    (hstep : ∀ s acc x, step (s, acc) x = ((step (s, e) x).1, app acc (step (s, e) x).2))
    (s : σ) (a b : Array X) :
    (a ++ b).foldl step (s, e) =
      ((b.foldl step ((a.foldl step (s, e)).1, e)).1,
        app (a.foldl step (s, e)).2 (b.foldl step ((a.foldl step (s, e)).1, e)).2) := by
  rw [Array.foldl_append]
  rw [← Array.foldl_toList (xs := b), ← Array.foldl_toList (xs := b)]
  exact foldl_shift app e hassoc hid step hstep b.toList _ _

/-- `fold_split` for one output array -/
theorem fold_split_array {σ X Y : Type} (step : σ × Array Y → X → σ × Array Y)
    (hstep : ∀ s acc x, step (s, acc) x = ((step (s, #[]) x).1, acc ++ (step (s, #[]) x).2))
    (s : σ) (a b : Array X) :
    (a ++ b).foldl step (s, #[]) =
      ((b.foldl step ((a.foldl step (s, #[])).1, #[])).1,
        (a.foldl step (s, #[])).2 ++ (b.foldl step ((a.foldl step (s, #[])).1, #[])).2) :=
  fold_split (fun p q => p ++ q) #[] (fun _ _ _ => Array.append_assoc) (fun _ => Array.append_empty) step hstep s a b

/-- `fold_split` for two output arrays (`gain`, `out`) -/
theorem fold_split_pair {σ X A B : Type} (step : σ × Array A × Array B → X → σ × Array A × Array B)
    (hstep : ∀ s acc x, step (s, acc) x =
      ((step (s, #[], #[]) x).1, acc.1 ++ (step (s, #[], #[]) x).2.1, acc.2 ++ (step (s, #[], #[]) x).2.2))
    (s : σ) (a b : Array X) :
    (a ++ b).foldl step (s, #[], #[]) =
      ((b.foldl step ((a.foldl step (s, #[], #[])).1, #[], #[])).1,
        (a.foldl step (s, #[], #[])).2.1 ++ (b.foldl step ((a.foldl step (s, #[], #[])).1, #[], #[])).2.1,
        (a.foldl step (s, #[], #[])).2.2 ++ (b.foldl step ((a.foldl step (s, #[], #[])).1, #[], #[])).2.2) :=
  fold_split (fun (p q : Array A × Array B) => (p.1 ++ q.1, p.2 ++ q.2)) (#[], #[])
    (fun _ _ _ => by simp [Array.append_assoc]) (fun _ => by simp) step hstep s a b

end Dsp.C06A
