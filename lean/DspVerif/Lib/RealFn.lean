import DspVerif.Gen.Cmplx
import Mathlib.Analysis.SpecialFunctions.Trigonometric.Arctan
import Mathlib.Analysis.SpecialFunctions.Pow.Real
import Mathlib.Analysis.SpecialFunctions.Log.Basic
import Mathlib.Analysis.SpecialFunctions.Trigonometric.DerivHyp
import Mathlib.Analysis.Complex.Basic
import Mathlib.Tactic.Ring
import Mathlib.Tactic.FieldSimp
/-!
# The exact-arithmetic instantiation of the scalar layer

`Fn ℝ`: the model definitions that are run at `Float` by the driver are reasoned about at `ℝ`.
`toC : Cx ℝ → ℂ` and its homomorphism lemmas for the REGENERATED `cmplx_t` operators.
-/
namespace Dsp

noncomputable instance : Fn ℝ where
  ofNat n := (n : ℝ)
  ofInt i := (i : ℝ)
  pi      := Real.pi
  sqrt    := Real.sqrt
  abs     := fun x => |x|
  cos     := Real.cos
  sin     := Real.sin
  exp     := Real.exp
  log     := Real.log
  log10   := fun x => Real.log x / Real.log 10
  atan    := Real.arctan
  pow     := fun x y => x ^ y
  floor   := fun x => (⌊x⌋ : ℝ)
  round   := fun x => if 0 ≤ x then (⌊x + 1 / 2⌋ : ℝ) else (⌈x - 1 / 2⌉ : ℝ)   -- C `round`: half away from zero
  tanh    := Real.tanh

@[simp] theorem fn_ofNat (n : Nat) : (Fn.ofNat n : ℝ) = n := rfl
@[simp] theorem fn_ofInt (i : Int) : (Fn.ofInt i : ℝ) = i := rfl
@[simp] theorem fn_pi : (Fn.pi : ℝ) = Real.pi := rfl
@[simp] theorem fn_sqrt (x : ℝ) : Fn.sqrt x = Real.sqrt x := rfl
@[simp] theorem fn_abs (x : ℝ) : Fn.abs x = |x| := rfl
@[simp] theorem fn_cos (x : ℝ) : Fn.cos x = Real.cos x := rfl
@[simp] theorem fn_sin (x : ℝ) : Fn.sin x = Real.sin x := rfl
@[simp] theorem fn_exp (x : ℝ) : Fn.exp x = Real.exp x := rfl
@[simp] theorem fn_log (x : ℝ) : Fn.log x = Real.log x := rfl
@[simp] theorem fn_log10 (x : ℝ) : Fn.log10 x = Real.log x / Real.log 10 := rfl
@[simp] theorem fn_atan (x : ℝ) : Fn.atan x = Real.arctan x := rfl
@[simp] theorem fn_pow (x y : ℝ) : Fn.pow x y = x ^ y := rfl
theorem fn_round (x : ℝ) : Fn.round x = if 0 ≤ x then (⌊x + 1 / 2⌋ : ℝ) else (⌈x - 1 / 2⌉ : ℝ) := rfl
theorem fn_floor (x : ℝ) : Fn.floor x = (⌊x⌋ : ℝ) := rfl

namespace Cx

/-- the complex number a `cmplx_t` value denotes -/
def toC (z : Cx ℝ) : ℂ := ⟨z.re, z.im⟩

@[simp] theorem toC_re (z : Cx ℝ) : (toC z).re = z.re := rfl
@[simp] theorem toC_im (z : Cx ℝ) : (toC z).im = z.im := rfl

@[simp] theorem add_re (a b : Cx ℝ) : (a + b).re = a.re + b.re := rfl
@[simp] theorem add_im (a b : Cx ℝ) : (a + b).im = a.im + b.im := rfl
@[simp] theorem sub_re (a b : Cx ℝ) : (a - b).re = a.re - b.re := rfl
@[simp] theorem sub_im (a b : Cx ℝ) : (a - b).im = a.im - b.im := rfl
@[simp] theorem mul_re (a b : Cx ℝ) : (a * b).re = a.re * b.re - a.im * b.im := rfl
@[simp] theorem mul_im (a b : Cx ℝ) : (a * b).im = a.re * b.im + a.im * b.re := rfl
@[simp] theorem neg_re (a : Cx ℝ) : (-a).re = -a.re := rfl
@[simp] theorem neg_im (a : Cx ℝ) : (-a).im = -a.im := rfl

theorem toC_add (a b : Cx ℝ) : toC (a + b) = toC a + toC b := by apply Complex.ext <;> simp
theorem toC_sub (a b : Cx ℝ) : toC (a - b) = toC a - toC b := by apply Complex.ext <;> simp
theorem toC_mul (a b : Cx ℝ) : toC (a * b) = toC a * toC b := by apply Complex.ext <;> simp
theorem toC_neg (a : Cx ℝ) : toC (-a) = -toC a := by apply Complex.ext <;> simp
theorem toC_conj (a : Cx ℝ) : toC (conj a) = (starRingEnd ℂ) (toC a) := by apply Complex.ext <;> simp [conj]
theorem abs2_eq (a : Cx ℝ) : abs2 a = Complex.normSq (toC a) := by simp [abs2, Complex.normSq_apply]

theorem toC_injective : Function.Injective toC := by
  intro a b h
  have h1 := congrArg Complex.re h
  have h2 := congrArg Complex.im h
  simp at h1 h2
  exact Cx.ext' h1 h2

end Cx
end Dsp
