import DspVerif.Model.Ifft
import DspVerif.Lib.RealFn
import DspVerif.Lib.Dft
import DspVerif.Lib.C07Dft
import Mathlib.Tactic.Linarith
import Mathlib.Tactic.NormNum
import Mathlib.Tactic.LinearCombination

/-!
# C02 support: the array layer of `Model/Ifft.lean` (`rd`/`mk`/`rdR`/`mkR`), the denotation of a vector as a
complex sequence, and the inversion of the DFT (`idft_dft`, `dft_idft`) from the orthogonality of the roots of unity
(`C07.ω_sum`, imported from `Lib/C07Dft.lean`).
-/
open Finset Complex

namespace Dsp
namespace Ifft
open Dsp.C07

section generic
variable {α : Type}

@[simp] theorem size_mk (n : Nat) (f : Nat → Cx α) : (mk n f).size = n := by simp [mk]
@[simp] theorem size_mkR (n : Nat) (f : Nat → α) : (mkR n f).size = n := by simp [mkR]

variable [Fn α]

theorem rd_mk (n : Nat) (f : Nat → Cx α) (i : Nat) : rd (mk n f) i = if i < n then f i else zero := by
  unfold rd mk
  by_cases h : i < n <;> simp [h, Array.getD]

theorem rd_mk_lt (n : Nat) (f : Nat → Cx α) (i : Nat) (h : i < n) : rd (mk n f) i = f i := by
  rw [rd_mk, if_pos h]

theorem rdR_mkR (n : Nat) (f : Nat → α) (i : Nat) : rdR (mkR n f) i = if i < n then f i else Fn.ofNat 0 := by
  unfold rdR mkR
  by_cases h : i < n <;> simp [h, Array.getD]

theorem rdR_mkR_lt (n : Nat) (f : Nat → α) (i : Nat) (h : i < n) : rdR (mkR n f) i = f i := by
  rw [rdR_mkR, if_pos h]

theorem rd_eq_getElem (a : Vec α) (i : Nat) (h : i < a.size) : rd a i = a[i] := by
  unfold rd; simp [Array.getD, h]

theorem rdR_eq_getElem (a : Array α) (i : Nat) (h : i < a.size) : rdR a i = a[i] := by
  unfold rdR; simp [Array.getD, h]

/-- two complex arrays with the same size and the same cells are equal -/
theorem vec_ext (a b : Vec α) (hs : a.size = b.size) (h : ∀ i < a.size, rd a i = rd b i) : a = b := by
  apply Array.ext hs
  intro i h1 h2
  have := h i h1
  rwa [rd_eq_getElem a i h1, rd_eq_getElem b i h2] at this

theorem arr_ext (a b : Array α) (hs : a.size = b.size) (h : ∀ i < a.size, rdR a i = rdR b i) : a = b := by
  apply Array.ext hs
  intro i h1 h2
  have := h i h1
  rwa [rdR_eq_getElem a i h1, rdR_eq_getElem b i h2] at this

theorem mk_congr (n : Nat) (f g : Nat → Cx α) (h : ∀ i < n, f i = g i) : mk n f = mk n g := by
  apply vec_ext _ _ (by simp)
  intro i hi
  simp at hi
  rw [rd_mk_lt _ _ _ hi, rd_mk_lt _ _ _ hi, h i hi]

theorem mkR_congr (n : Nat) (f g : Nat → α) (h : ∀ i < n, f i = g i) : mkR n f = mkR n g := by
  apply arr_ext _ _ (by simp)
  intro i hi
  simp at hi
  rw [rdR_mkR_lt _ _ _ hi, rdR_mkR_lt _ _ _ hi, h i hi]

end generic

/-- the complex sequence a vector denotes (zero outside the array) -/
noncomputable def seq (x : Vec ℝ) : ℕ → ℂ := fun i => Cx.toC (rd x i)

/-- a real array as a complex sequence -/
noncomputable def seqR (x : Array ℝ) : ℕ → ℂ := fun i => ((rdR x i : ℝ) : ℂ)

@[simp] theorem toC_zero : Cx.toC (Ifft.zero : Cx ℝ) = 0 := by
  apply Complex.ext <;> simp [Ifft.zero]

theorem toC_mulr (z : Cx ℝ) (r : ℝ) : Cx.toC (Cx.mulr z r) = Cx.toC z * (r : ℂ) := by
  apply Complex.ext <;> simp [Cx.mulr]

/-! ## inversion of the DFT -/

theorem ω_ne_zero (N j : ℕ) : ω N j ≠ 0 := by
  unfold ω; exact Complex.exp_ne_zero _

/-- `ω^a · ω^b = 1` when `N ∣ a + b` -/
theorem ω_mul_eq_one (N a b : ℕ) (hN : 0 < N) (h : N ∣ a + b) : ω N a * ω N b = 1 := by
  obtain ⟨c, hc⟩ := h
  rw [← ω_add, hc, ω_self_mul _ _ hN]

theorem ω_inv_of_dvd (N a b : ℕ) (hN : 0 < N) (h : N ∣ a + b) : (ω N a)⁻¹ = ω N b :=
  inv_eq_of_mul_eq_one_right (ω_mul_eq_one N a b hN h)

/-- orthogonality in the form both inversion directions use -/
theorem ortho (N a b : ℕ) (hN : 0 < N) (ha : a < N) (hb : b < N) :
    ∑ t ∈ range N, ω N (t * a) * (ω N (b * t))⁻¹ = if a = b then (N : ℂ) else 0 := by
  have e : ∀ t ∈ range N, ω N (t * a) * (ω N (b * t))⁻¹ = ω N (t * (a + (N - b))) := by
    intro t _
    rw [ω_inv_of_dvd N (b * t) (t * (N - b)) hN ⟨t, by rw [mul_comm b t, ← Nat.mul_add, Nat.add_sub_cancel' hb.le, mul_comm]⟩,
      ← ω_add, ← Nat.mul_add]
  rw [Finset.sum_congr rfl e, ω_sum N _ hN]
  by_cases hab : a = b
  · subst hab
    rw [if_pos rfl, if_pos ⟨1, by omega⟩]
  · rw [if_neg hab, if_neg]
    rintro ⟨c, hc⟩
    have hc2 : c < 2 := by
      by_contra hh
      have : 2 * N ≤ N * c := by nlinarith
      omega
    interval_cases c <;> omega

theorem idft_dft (N : ℕ) (hN : 0 < N) (x : ℕ → ℂ) (t : ℕ) (ht : t < N) : idft N (dft N x) t = x t := by
  have hN' : (N : ℂ) ≠ 0 := by exact_mod_cast hN.ne'
  unfold idft dft
  have step : ∀ k ∈ range N, (∑ m ∈ range N, x m * ω N (m * k)) * (ω N (k * t))⁻¹ =
      ∑ m ∈ range N, x m * (ω N (k * m) * (ω N (t * k))⁻¹) := by
    intro k _
    rw [Finset.sum_mul]
    apply Finset.sum_congr rfl; intro m _
    rw [mul_comm m k, mul_comm k t]; ring
  rw [Finset.sum_congr rfl step, Finset.sum_comm]
  have step2 : ∀ m ∈ range N, ∑ k ∈ range N, x m * (ω N (k * m) * (ω N (t * k))⁻¹) = if m = t then (N : ℂ) * x m else 0 := by
    intro m hm
    rw [← Finset.mul_sum, ortho N m t hN (mem_range.mp hm) ht]
    split_ifs <;> ring
  rw [Finset.sum_congr rfl step2, Finset.sum_ite_eq' , if_pos (mem_range.mpr ht), ← mul_assoc, inv_mul_cancel₀ hN', one_mul]

theorem dft_idft (N : ℕ) (hN : 0 < N) (X : ℕ → ℂ) (k : ℕ) (hk : k < N) : dft N (idft N X) k = X k := by
  have hN' : (N : ℂ) ≠ 0 := by exact_mod_cast hN.ne'
  unfold idft dft
  have step : ∀ t ∈ range N, ((N : ℂ)⁻¹ * ∑ j ∈ range N, X j * (ω N (j * t))⁻¹) * ω N (t * k) =
      ∑ j ∈ range N, (N : ℂ)⁻¹ * X j * (ω N (t * k) * (ω N (j * t))⁻¹) := by
    intro t _
    rw [Finset.mul_sum, Finset.sum_mul]
    apply Finset.sum_congr rfl; intro j _
    ring
  rw [Finset.sum_congr rfl step, Finset.sum_comm]
  have step2 : ∀ j ∈ range N, ∑ t ∈ range N, (N : ℂ)⁻¹ * X j * (ω N (t * k) * (ω N (j * t))⁻¹) = if j = k then X j else 0 := by
    intro j hj
    rw [← Finset.mul_sum, ortho N k j hN hk (mem_range.mp hj)]
    by_cases h : j = k
    · rw [if_pos h, if_pos h.symm]; field_simp
    · rw [if_neg h, if_neg (fun e => h e.symm), mul_zero]
  rw [Finset.sum_congr rfl step2, Finset.sum_ite_eq', if_pos (mem_range.mpr hk)]

/-! ## the identities behind `IfftPlanR::solve` -/

theorem ω_half (h : ℕ) (hh : 0 < h) : ω (h * 2) h = -1 := by
  have : ω (h * 2) (1 * h) = ω 2 1 := by rw [Nat.mul_comm h 2]; exact ω_scale 2 h 1 hh
  rw [Nat.one_mul] at this
  rw [this]
  unfold ω
  have e : -(((2 * Real.pi * ((1 : ℕ) : ℝ) / ((2 : ℕ) : ℝ)) : ℝ) : ℂ) * I = -((Real.pi : ℂ) * I) := by
    push_cast; ring
  rw [e, Complex.exp_neg, Complex.exp_pi_mul_I]; norm_num

/-- even/odd split of the inverse transform of a spectrum whose upper half is the conjugate mirror of the lower half:
the identity behind the packing of `IfftPlanR::solve` -/
theorem idft_even_odd (h : ℕ) (hh : 0 < h) (X : ℕ → ℂ) (m : ℕ)
    (hsym : ∀ k < h, X (h + k) = (starRingEnd ℂ) (X (h - k))) :
    ∑ k ∈ range h, ((X k + (starRingEnd ℂ) (X (h - k))) * ((h * 2 : ℕ) : ℂ)⁻¹
        + I * ((X k - (starRingEnd ℂ) (X (h - k))) * ((h * 2 : ℕ) : ℂ)⁻¹ * (ω (h * 2) k)⁻¹)) * (ω h (k * m))⁻¹
      = idft (h * 2) X (2 * m) + I * idft (h * 2) X (2 * m + 1) := by
  have hn : 0 < h * 2 := by omega
  have key : ∀ k ∈ range h,
      ((X k + (starRingEnd ℂ) (X (h - k))) * ((h * 2 : ℕ) : ℂ)⁻¹
        + I * ((X k - (starRingEnd ℂ) (X (h - k))) * ((h * 2 : ℕ) : ℂ)⁻¹ * (ω (h * 2) k)⁻¹)) * (ω h (k * m))⁻¹
      = ((h * 2 : ℕ) : ℂ)⁻¹ * (X k * (ω (h * 2) (k * (2 * m)))⁻¹ + X (h + k) * (ω (h * 2) ((h + k) * (2 * m)))⁻¹)
        + I * (((h * 2 : ℕ) : ℂ)⁻¹ * (X k * (ω (h * 2) (k * (2 * m + 1)))⁻¹ + X (h + k) * (ω (h * 2) ((h + k) * (2 * m + 1)))⁻¹)) := by
    intro k hk
    have hk' := mem_range.mp hk
    have e1 : ω (h * 2) (k * (2 * m)) = ω h (k * m) := by
      rw [show k * (2 * m) = (k * m) * 2 by ring]; exact ω_scale h 2 _ (by norm_num)
    have e2 : ω (h * 2) ((h + k) * (2 * m)) = ω h (k * m) := by
      rw [show (h + k) * (2 * m) = (h * 2) * m + (k * m) * 2 by ring, ω_add, ω_self_mul _ _ hn, one_mul]
      exact ω_scale h 2 _ (by norm_num)
    have e3 : ω (h * 2) (k * (2 * m + 1)) = ω h (k * m) * ω (h * 2) k := by
      rw [show k * (2 * m + 1) = (k * m) * 2 + k by ring, ω_add, ω_scale h 2 _ (by norm_num)]
    have e4 : ω (h * 2) ((h + k) * (2 * m + 1)) = -(ω h (k * m) * ω (h * 2) k) := by
      rw [show (h + k) * (2 * m + 1) = (h * 2) * m + ((k * m) * 2 + (h + k)) by ring, ω_add, ω_self_mul _ _ hn, one_mul, ω_add,
        ω_scale h 2 _ (by norm_num), ω_add, ω_half h hh]
      ring
    rw [e1, e2, e3, e4, hsym k hk']
    have ha := ω_ne_zero h (k * m)
    have hb := ω_ne_zero (h * 2) k
    field_simp
    ring
  rw [Finset.sum_congr rfl key, Finset.sum_add_distrib, ← Finset.mul_sum, ← Finset.mul_sum, ← Finset.mul_sum,
    Finset.sum_add_distrib, Finset.sum_add_distrib]
  unfold idft
  rw [show h * 2 = h + h by ring, Finset.sum_range_add, Finset.sum_range_add]

/-- a Hermitian spectrum has a real inverse transform -/
theorem idft_conj (n : ℕ) (hn : 0 < n) (X : ℕ → ℂ) (hsym : ∀ k < n, X ((n - k) % n) = (starRingEnd ℂ) (X k)) (t : ℕ) :
    (starRingEnd ℂ) (idft n X t) = idft n X t := by
  unfold idft
  rw [map_mul, map_inv₀, Complex.conj_natCast, map_sum]
  congr 1
  apply Finset.sum_nbij' (fun k => (n - k) % n) (fun k => (n - k) % n)
  · intro k _; exact mem_range.mpr (Nat.mod_lt _ hn)
  · intro k _; exact mem_range.mpr (Nat.mod_lt _ hn)
  · intro k hk
    have hk' := mem_range.mp hk
    rcases Nat.eq_zero_or_pos k with h0 | h0
    · subst h0; simp [Nat.mod_self]
    · rw [Nat.mod_eq_of_lt (by omega : n - k < n), Nat.mod_eq_of_lt (by omega : n - (n - k) < n)]; omega
  · intro k hk
    have hk' := mem_range.mp hk
    rcases Nat.eq_zero_or_pos k with h0 | h0
    · subst h0; simp [Nat.mod_self]
    · rw [Nat.mod_eq_of_lt (by omega : n - k < n), Nat.mod_eq_of_lt (by omega : n - (n - k) < n)]; omega
  · intro k hk
    have hk' := mem_range.mp hk
    rw [map_mul, map_inv₀, ω_conj, inv_inv, hsym k hk']
    congr 1
    symm
    apply ω_inv_of_dvd n _ _ hn
    rw [← Nat.add_mul]
    apply Dvd.dvd.mul_right
    rcases Nat.eq_zero_or_pos k with h0 | h0
    · subst h0; simp
    · rw [Nat.mod_eq_of_lt (by omega : n - k < n)]; exact ⟨1, by omega⟩

theorem dft_congr (n : ℕ) (x y : ℕ → ℂ) (h : ∀ i < n, x i = y i) (k : ℕ) : dft n x k = dft n y k := by
  unfold dft
  apply Finset.sum_congr rfl
  intro m hm
  rw [h m (Finset.mem_range.mp hm)]

theorem idft_congr (n : ℕ) (x y : ℕ → ℂ) (h : ∀ i < n, x i = y i) (k : ℕ) : idft n x k = idft n y k := by
  unfold idft
  congr 1
  apply Finset.sum_congr rfl
  intro m hm
  rw [h m (Finset.mem_range.mp hm)]

/-- the transform of a real sequence is Hermitian -/
theorem dft_conj_symm (n : ℕ) (hn : 0 < n) (r : ℕ → ℝ) (k : ℕ) (hk : k < n) :
    dft n (fun m => ((r m : ℝ) : ℂ)) ((n - k) % n) = (starRingEnd ℂ) (dft n (fun m => ((r m : ℝ) : ℂ)) k) := by
  unfold dft
  rw [map_sum]
  apply Finset.sum_congr rfl
  intro m _
  rw [map_mul, Complex.conj_ofReal, ω_conj]
  congr 1
  symm
  apply ω_inv_of_dvd n _ _ hn
  rw [← Nat.mul_add]
  apply Dvd.dvd.mul_left
  rcases Nat.eq_zero_or_pos k with h0 | h0
  · subst h0; simp
  · rw [Nat.mod_eq_of_lt (by omega : n - k < n)]; exact ⟨1, by omega⟩


end Ifft
end Dsp
