import DspVerif.Model.Spectrum
import DspVerif.Lib.C01Fft
import DspVerif.Lib.C07Dft
import Mathlib.Algebra.Order.Chebyshev
import Mathlib.Algebra.BigOperators.Intervals
import Mathlib.Tactic.Linarith
import Mathlib.Tactic.Ring
import Mathlib.Algebra.BigOperators.Field
import Mathlib.Tactic.Positivity
import Mathlib.Tactic.FieldSimp
/-!
# C13 support

* DFT facts: Parseval (from the orthogonality of `Lib/C07Dft`), folding a symmetric two-sided sequence onto one side keeps the
  sum, Cauchy–Schwarz for complex sequences, the transform of a windowed complex exponential.
* the array layer of `Model/Spectrum.lean`: what a cell of `accum` / `calcspec` / `oneSided` / `cohAccum` holds, as `Finset` sums.
* the guards: what an accepted `plan` has established; inside the property's domain the segment count is `(N-L)/hop + 1 ≥ 1`
  and every segment lies inside the signal.
-/
open Finset Complex

namespace Dsp.C13
open Dsp.C07 Dsp.Fft Dsp.Spectrum Dsp.Primes

/-! ## DFT facts -/

/-- Parseval for the `N`-point DFT -/
theorem parseval (N : ℕ) (hN : 0 < N) (a : ℕ → ℂ) :
    ∑ k ∈ range N, normSq (dft N a k) = (N : ℝ) * ∑ m ∈ range N, normSq (a m) := by
  have h := circ_corr_dft N hN a a 0 hN
  have hN' : (N : ℂ) ≠ 0 := by exact_mod_cast hN.ne'
  unfold idft at h
  simp only [Nat.mul_zero, ω_zero, inv_one, mul_one, Nat.add_zero] at h
  have e1 : ∀ k ∈ range N, (starRingEnd ℂ) (dft N a k) * dft N a k = ((normSq (dft N a k) : ℝ) : ℂ) := by
    intro k _; rw [mul_comm, Complex.mul_conj]
  have e2 : ∀ n ∈ range N, a n * (starRingEnd ℂ) (a (n % N)) = ((normSq (a n) : ℝ) : ℂ) := by
    intro n hn; rw [Nat.mod_eq_of_lt (mem_range.mp hn), Complex.mul_conj]
  rw [Finset.sum_congr rfl e1, Finset.sum_congr rfl e2, ← Complex.ofReal_sum, ← Complex.ofReal_sum, map_mul, map_inv₀,
    Complex.conj_natCast, Complex.conj_ofReal] at h
  have h2 : ((∑ k ∈ range N, normSq (dft N a k) : ℝ) : ℂ) = (N : ℂ) * ((∑ m ∈ range N, normSq (a m) : ℝ) : ℂ) := by
    rw [← h, ← mul_assoc, mul_inv_cancel₀ hN', one_mul]
  exact_mod_cast h2

/-- folding a symmetric two-sided sequence of even length `2h` onto `0..h` keeps the sum -/
theorem fold_sum (h : ℕ) (hh : 0 < h) (p : ℕ → ℝ) (sym : ∀ k, 0 < k → k < h → p (2 * h - k) = p k) :
    ∑ k ∈ range (h + 1), (if k = 0 ∨ k = h then p k else 2 * p k) = ∑ k ∈ range (2 * h), p k := by
  have hr : ∑ j ∈ Ico 1 h, p (2 * h - j) = ∑ j ∈ Ico (h + 1) (2 * h), p j := by
    have := Finset.sum_Ico_reflect p 1 (m := h) (n := 2 * h) (by omega)
    rw [this]
    congr 2; omega
  have hsym : ∑ j ∈ Ico 1 h, p (2 * h - j) = ∑ j ∈ Ico 1 h, p j := by
    apply Finset.sum_congr rfl
    intro j hj
    rw [Finset.mem_Ico] at hj
    exact sym j (by omega) hj.2
  have hmid : ∀ g : ℕ → ℝ, ∑ k ∈ range (h + 1), g k = g 0 + ∑ k ∈ Ico 1 h, g k + g h := by
    intro g
    rw [Finset.sum_range_succ, Finset.range_eq_Ico, Finset.sum_eq_sum_Ico_succ_bot hh]
  have hg : ∑ k ∈ Ico 1 h, (if k = 0 ∨ k = h then p k else 2 * p k) = ∑ k ∈ Ico 1 h, 2 * p k := by
    apply Finset.sum_congr rfl
    intro k hk
    rw [Finset.mem_Ico] at hk
    rw [if_neg (by omega)]
  have hsplit : ∑ k ∈ range (2 * h), p k = ∑ k ∈ range (h + 1), p k + ∑ k ∈ Ico (h + 1) (2 * h), p k := by
    rw [Finset.range_eq_Ico, Finset.range_eq_Ico]
    exact (Finset.sum_Ico_consecutive p (by omega) (by omega)).symm
  rw [hsplit, hmid p, hmid, hg, ← hr, hsym, ← Finset.mul_sum]
  rw [if_pos (Or.inl rfl), if_pos (Or.inr rfl)]
  ring

/-- Cauchy–Schwarz for complex sequences over a finite index set -/
theorem cauchy_schwarz {ι : Type} (s : Finset ι) (X Y : ι → ℂ) :
    normSq (∑ i ∈ s, X i * (starRingEnd ℂ) (Y i)) ≤ (∑ i ∈ s, normSq (X i)) * (∑ i ∈ s, normSq (Y i)) := by
  have h1 : ‖∑ i ∈ s, X i * (starRingEnd ℂ) (Y i)‖ ≤ ∑ i ∈ s, ‖X i‖ * ‖Y i‖ := by
    refine (norm_sum_le _ _).trans (le_of_eq ?_)
    apply Finset.sum_congr rfl
    intro i _
    rw [norm_mul, Complex.norm_conj]
  have h2 := Finset.sum_mul_sq_le_sq_mul_sq s (fun i => ‖X i‖) (fun i => ‖Y i‖)
  have h3 : ∀ z : ℂ, normSq z = ‖z‖ ^ 2 := fun z => Complex.normSq_eq_norm_sq z
  simp only [h3]
  calc ‖∑ i ∈ s, X i * (starRingEnd ℂ) (Y i)‖ ^ 2 ≤ (∑ i ∈ s, ‖X i‖ * ‖Y i‖) ^ 2 :=
        pow_le_pow_left₀ (norm_nonneg _) h1 2
    _ ≤ _ := h2

theorem dft_smul (n : ℕ) (c : ℂ) (s : ℕ → ℂ) (k : ℕ) : dft n (fun m => c * s m) k = c * dft n s k := by
  unfold dft
  rw [Finset.mul_sum]
  apply Finset.sum_congr rfl
  intro m _
  ring

/-- a sequence supported on `[0, L)`, `L ≤ n`: the transform sums over the support only -/
theorem dft_support (n L : ℕ) (hL : L ≤ n) (g : ℕ → ℂ) (k : ℕ) :
    dft n (fun m => if m < L then g m else 0) k = ∑ m ∈ range L, g m * ω n (m * k) := by
  unfold dft
  rw [← Finset.sum_subset (Finset.range_subset_range.2 hL)]
  · apply Finset.sum_congr rfl
    intro m hm
    show (if m < L then g m else 0) * _ = _
    rw [if_pos (mem_range.mp hm)]
  · intro m _ hm
    show (if m < L then g m else 0) * _ = _
    rw [if_neg (by simpa using hm), zero_mul]

theorem normSq_ω (n j : ℕ) : normSq (ω n j) = 1 := by
  rw [Complex.normSq_eq_norm_sq, ω_norm]; norm_num

theorem normSq_ω_inv (n j : ℕ) : normSq (ω n j)⁻¹ = 1 := by
  rw [map_inv₀, normSq_ω, inv_one]

/-- the transform of segment `[t1, t1+L)` of the exponential `a·e^{2πi k0 u/n}` under the window `w`:
`a·e^{2πi k0 t1/n}` times the window's transform shifted to `k0` -/
theorem dft_tone (n L : ℕ) (hL : L ≤ n) (a : ℂ) (k0 t1 : ℕ) (w : ℕ → ℝ) (k : ℕ) :
    dft n (fun m => if m < L then a * (ω n (k0 * (t1 + m)))⁻¹ * (w m : ℂ) else 0) k =
      (a * (ω n (k0 * t1))⁻¹) * ∑ m ∈ range L, (w m : ℂ) * ((ω n (k0 * m))⁻¹ * ω n (m * k)) := by
  rw [dft_support n L hL, Finset.mul_sum]
  apply Finset.sum_congr rfl
  intro m _
  rw [Nat.mul_add, ω_add, mul_inv]
  ring

/-- at the tone's own bin the shifted window transform is the plain sum of the window -/
theorem tone_sum_self (n L k0 : ℕ) (w : ℕ → ℝ) :
    ∑ m ∈ range L, (w m : ℂ) * ((ω n (k0 * m))⁻¹ * ω n (m * k0)) = ((∑ m ∈ range L, w m : ℝ) : ℂ) := by
  rw [Complex.ofReal_sum]
  apply Finset.sum_congr rfl
  intro m _
  have hne : ω n (k0 * m) ≠ 0 := by
    intro h0
    have := ω_norm n (k0 * m)
    rw [h0, norm_zero] at this
    exact zero_ne_one this
  rw [Nat.mul_comm m k0, inv_mul_cancel₀ hne, mul_one]

/-- a non-negative window: no bin exceeds the window sum -/
theorem tone_sum_le (n L k0 k : ℕ) (w : ℕ → ℝ) (hw : ∀ m < L, 0 ≤ w m) :
    normSq (∑ m ∈ range L, (w m : ℂ) * ((ω n (k0 * m))⁻¹ * ω n (m * k))) ≤ (∑ m ∈ range L, w m) ^ 2 := by
  rw [Complex.normSq_eq_norm_sq]
  have h1 : ‖∑ m ∈ range L, (w m : ℂ) * ((ω n (k0 * m))⁻¹ * ω n (m * k))‖ ≤ ∑ m ∈ range L, w m := by
    refine (norm_sum_le _ _).trans (le_of_eq ?_)
    apply Finset.sum_congr rfl
    intro m hm
    rw [norm_mul, norm_mul, norm_inv, ω_norm, ω_norm, inv_one, mul_one, mul_one, Complex.norm_real,
      Real.norm_of_nonneg (hw m (mem_range.mp hm))]
  exact pow_le_pow_left₀ (norm_nonneg _) h1 2

/-! ## array layer -/

theorem rdR_ofFn (n : ℕ) (f : Fin n → ℝ) (k : ℕ) (hk : k < n) : rdR (Array.ofFn f) k = f ⟨k, hk⟩ := by
  unfold rdR; simp [Array.getD, hk]

theorem rdR_replicate (n k : ℕ) : rdR (Array.replicate n (Fn.ofNat 0 : ℝ)) k = 0 := by
  unfold rdR
  by_cases h : k < n <;> simp [Array.getD, h]

theorem foldl_range_succ {β : Type} (g : β → ℕ → β) (b : β) (n : ℕ) :
    (List.range (n + 1)).foldl g b = g ((List.range n).foldl g b) n := by
  rw [List.range_succ, List.foldl_append]; rfl

theorem sumTo_eq (n : ℕ) (f : ℕ → ℝ) : sumTo n f = ∑ i ∈ range n, f i := by
  unfold sumTo
  induction n with
  | zero => simp
  | succ n ih => rw [foldl_range_succ, ih, Finset.sum_range_succ]

theorem dotWW_eq (w : Array ℝ) : dotWW w = ∑ i ∈ range w.size, rdR w i * rdR w i := sumTo_eq _ _
theorem sumW_eq (w : Array ℝ) : sumW w = ∑ i ∈ range w.size, rdR w i := sumTo_eq _ _

theorem dotWW_nonneg (w : Array ℝ) : 0 ≤ dotWW w := by
  rw [dotWW_eq]
  exact Finset.sum_nonneg (fun i _ => mul_self_nonneg _)

theorem winpow_nonneg (psd : Bool) (w : Array ℝ) : 0 ≤ winpow psd w := by
  unfold winpow
  cases psd
  · simp only [Bool.false_eq_true, if_false]; exact mul_self_nonneg _
  · simp only [if_true]; exact dotWW_nonneg w

theorem rdR_accum (nfft : ℕ) (wp : ℝ) (spec : ℕ → Vec ℝ) (nseg k : ℕ) (hk : k < nfft) :
    rdR (accum nfft wp spec nseg) k = ∑ i ∈ range nseg, Cx.abs2 (rd (spec i) k) / wp := by
  unfold accum
  induction nseg with
  | zero => simpa using rdR_replicate nfft k
  | succ n ih =>
    rw [foldl_range_succ, Finset.sum_range_succ, ← ih]
    unfold step
    rw [rdR_ofFn _ _ _ hk]

/-- cell `k` of what `_calcspec` returns: the mean over the segments of `|X_i[k]|² / winpow` -/
theorem rdR_calcspec (pl : Spectrum.Plan) (wp : ℝ) (spec : ℕ → Vec ℝ) (k : ℕ) (hk : k < pl.nfft) :
    rdR (calcspec pl wp spec) k = (∑ i ∈ range pl.nseg.toNat, Cx.abs2 (rd (spec i) k) / wp) / (pl.nseg : ℝ) := by
  unfold calcspec
  simp only []
  rw [rdR_ofFn _ _ _ hk, rdR_accum _ _ _ _ _ hk]
  rfl

theorem size_calcspec (pl : Spectrum.Plan) (wp : ℝ) (spec : ℕ → Vec ℝ) : (calcspec pl wp spec).size = pl.nfft := by
  simp [calcspec]

/-- cell `k` of the one-sided spectrum (`nfft ≥ 2` even): both ends kept, the rest doubled -/
theorem rdR_oneSided (n : ℕ) (hn : 2 ≤ n) (p : Array ℝ) (k : ℕ) (hk : k < n / 2 + 1) :
    rdR (oneSided n p) k = if k = 0 ∨ k = n / 2 then rdR p k else 2 * rdR p k := by
  unfold oneSided
  simp only []
  rw [rdR_ofFn _ _ _ hk]
  have h2 : 1 ≤ n / 2 := by omega
  simp only [Nat.add_sub_cancel, fn_ofNat]
  by_cases h0 : k = 0
  · subst h0
    rw [if_pos rfl, if_neg (by omega), if_pos (Or.inl rfl)]
    push_cast; ring
  · rw [if_neg h0]
    by_cases hh : k = n / 2
    · rw [if_pos hh, if_pos (Or.inr hh)]; push_cast; ring
    · rw [if_neg hh, if_neg (by tauto)]; push_cast; ring

theorem size_oneSided (n : ℕ) (p : Array ℝ) : (oneSided n p).size = n / 2 + 1 := by simp [oneSided]

theorem rdR_arangeDiv (s e : ℤ) (n i : ℕ) (hi : i < (e - s).toNat) :
    rdR (arangeDiv (α := ℝ) s e n) i = ((s + (i : ℤ) : ℤ) : ℝ) / n := by
  unfold arangeDiv
  rw [rdR_ofFn _ _ _ hi]
  simp

theorem rdR_freqR (n k : ℕ) (hk : k < n / 2 + 1) : rdR (freqR (α := ℝ) n) k = (k : ℝ) / n := by
  unfold freqR
  rw [rdR_arangeDiv _ _ _ _ (by omega)]
  simp

theorem size_freqR (n : ℕ) : (freqR (α := ℝ) n).size = n / 2 + 1 := by
  unfold freqR arangeDiv
  rw [Array.size_ofFn]
  omega

theorem tdiv_neg_two (h : ℕ) : Int.tdiv (-((2 * h : ℕ) : ℤ)) 2 = -(h : ℤ) := by
  rw [Int.neg_tdiv, Int.tdiv_eq_ediv_of_nonneg (by positivity)]; push_cast; omega

theorem tdiv_two (h : ℕ) : Int.tdiv ((2 * h : ℕ) : ℤ) 2 = (h : ℤ) := by
  rw [Int.tdiv_eq_ediv_of_nonneg (by positivity)]; push_cast; omega

/-- the centred axis the complex overload returns (`n` even): entry `j` is `(j - n/2 + 1) / n` -/
theorem rdR_freqC (n j : ℕ) (hn : 2 ∣ n) (hj : j < n) : rdR (freqC (α := ℝ) n) j = ((j : ℝ) - (n : ℝ) / 2 + 1) / n := by
  obtain ⟨h, rfl⟩ := hn
  unfold freqC
  rw [rdR_arangeDiv _ _ _ _ (by rw [tdiv_neg_two, tdiv_two]; omega), tdiv_neg_two]
  push_cast
  ring

theorem size_freqC (n : ℕ) (hn : 2 ∣ n) : (freqC (α := ℝ) n).size = n := by
  obtain ⟨h, rfl⟩ := hn
  unfold freqC arangeDiv
  rw [Array.size_ofFn, tdiv_neg_two, tdiv_two]
  omega

/-! ## segments as sequences -/

theorem seq_segC (x : Vec ℝ) (win : Array ℝ) (t1 m : ℕ) :
    seq (segC x win t1) m = if m < win.size then Cx.toC (rd x (t1 + m)) * ((rdR win m : ℝ) : ℂ) else 0 := by
  unfold seq segC
  rw [rd_mk]
  by_cases h : m < win.size
  · rw [if_pos h, if_pos h, toC_mulr]
  · rw [if_neg h, if_neg h, toC_zero]

theorem seqR_segR (x win : Array ℝ) (t1 m : ℕ) :
    seqR (segR x win t1) m = if m < win.size then ((rdR x (t1 + m) * rdR win m : ℝ) : ℂ) else 0 := by
  unfold seqR segR
  by_cases h : m < win.size
  · rw [if_pos h, rdR_ofFn _ _ _ h]
  · rw [if_neg h]
    have : rdR (Array.ofFn (n := win.size) fun i => rdR x (t1 + i.val) * rdR win i.val) m = 0 := by
      unfold rdR; simp [Array.getD, h]
    rw [this]; simp

theorem seqR_conj (y : Array ℝ) (m : ℕ) : (starRingEnd ℂ) (seqR y m) = seqR y m := by
  unfold seqR; exact Complex.conj_ofReal _

/-- the bins of a real segment's transform are conjugate-symmetric, so their powers are symmetric -/
theorem normSq_dft_symm (n : ℕ) (hn : 0 < n) (y : Array ℝ) (k : ℕ) (hk : k ≤ n) :
    normSq (dft n (seqR y) (n - k)) = normSq (dft n (seqR y) k) := by
  have := dft_conj_symm n hn (fun m => rdR y m) k hk
  change (starRingEnd ℂ) (dft n (seqR y) (n - k)) = dft n (seqR y) k at this
  rw [← this, Complex.normSq_conj]

/-! ## guards -/

/-- what an accepted call has established (the guards of `_calcspec` / `_mscohere`) -/
theorem plan_ok {N L : ℕ} {nov nfft : ℤ} {pl : Spectrum.Plan} (h : plan N L nov nfft = .ok pl) :
    0 < nfft ∧ ispow2 nfft.toNat = true ∧ nov < (L : ℤ) ∧ pl.nfft = nfft.toNat ∧ (pl.stride : ℤ) = (L : ℤ) - nov ∧
      pl.nseg = Int.tdiv ((N : ℤ) - L) ((L : ℤ) - nov) + 1 ∧ ¬ (N < L ∧ 0 < pl.nseg) := by
  unfold plan at h
  split at h
  · cases h
  split at h
  · cases h
  split at h
  · cases h
  simp only [] at h
  split at h
  · cases h
  rename_i h1 h2 h3 h4
  injection h with h
  subst h
  refine ⟨by omega, by simpa using h2, by omega, rfl, ?_, rfl, h4⟩
  simp only []
  omega

/-- hop between segment starts, `winlen - noverlap` -/
def hop (L : ℕ) (nov : ℤ) : ℕ := ((L : ℤ) - nov).toNat

/-- number of segments of a signal of `N ≥ L` samples: `⌊(N - L) / hop⌋ + 1` -/
def nsegs (N L : ℕ) (nov : ℤ) : ℕ := (N - L) / hop L nov + 1

/-- inside the property's domain (signal at least as long as the window): the hop and the segment count of an accepted call,
at least one segment, and every segment lies inside the signal -/
theorem plan_domain {N L : ℕ} {nov nfft : ℤ} {pl : Spectrum.Plan} (h : plan N L nov nfft = .ok pl) (hNL : L ≤ N) :
    pl.stride = hop L nov ∧ 0 < hop L nov ∧ pl.nseg = (nsegs N L nov : ℤ) ∧ pl.nseg.toNat = nsegs N L nov ∧
      ∀ i, i < nsegs N L nov → i * hop L nov + L ≤ N := by
  obtain ⟨_, _, hnov, _, hs, hn, _⟩ := plan_ok h
  have hst : pl.stride = hop L nov := by unfold hop; omega
  have hs0 : 0 < pl.stride := by omega
  have ha : (0 : ℤ) ≤ (N : ℤ) - L := by omega
  rw [Int.tdiv_eq_ediv_of_nonneg ha, ← hs] at hn
  have hcast : ((N : ℤ) - L) / (pl.stride : ℤ) = (((N - L) / pl.stride : ℕ) : ℤ) := by
    rw [Int.natCast_ediv, Nat.cast_sub hNL]
  have hnseg : pl.nseg = (nsegs N L nov : ℤ) := by
    rw [hn, hcast]; unfold nsegs; rw [← hst]; push_cast; ring
  refine ⟨hst, hst ▸ hs0, hnseg, by rw [hnseg]; simp, ?_⟩
  intro i hi
  unfold nsegs at hi
  rw [← hst] at hi ⊢
  have hi' : i ≤ (N - L) / pl.stride := by omega
  have hm : (N - L) / pl.stride * pl.stride ≤ N - L := Nat.div_mul_le_self _ _
  have : i * pl.stride ≤ N - L := le_trans (Nat.mul_le_mul_right _ hi') hm
  omega

/-! ## coherence accumulators -/

theorem cohAccum_cells (m : ℕ) (sx sy : ℕ → Vec ℝ) (nseg k : ℕ) (hk : k < m) :
    rdR (cohAccum m sx sy nseg).pxx k = ∑ i ∈ range nseg, Cx.abs2 (rd (sx i) k) ∧
    rdR (cohAccum m sx sy nseg).pyy k = ∑ i ∈ range nseg, Cx.abs2 (rd (sy i) k) ∧
    Cx.toC (rd (cohAccum m sx sy nseg).pxy k) =
      ∑ i ∈ range nseg, Cx.toC (rd (sx i) k) * (starRingEnd ℂ) (Cx.toC (rd (sy i) k)) := by
  unfold cohAccum
  induction nseg with
  | zero =>
    refine ⟨?_, ?_, ?_⟩
    · simpa [cohInit] using rdR_replicate m k
    · simpa [cohInit] using rdR_replicate m k
    · simp [cohInit, rd_mk_lt _ _ _ hk]
  | succ n ih =>
    obtain ⟨i1, i2, i3⟩ := ih
    rw [foldl_range_succ]
    refine ⟨?_, ?_, ?_⟩
    · rw [Finset.sum_range_succ, ← i1]; unfold cohStep; simp only []; rw [rdR_ofFn _ _ _ hk]
    · rw [Finset.sum_range_succ, ← i2]; unfold cohStep; simp only []; rw [rdR_ofFn _ _ _ hk]
    · rw [Finset.sum_range_succ, ← i3]; unfold cohStep; simp only []
      rw [rd_mk_lt _ _ _ hk, Cx.toC_add, Cx.toC_mul, Cx.toC_conj]

/-! ## small analytic facts used by `Props/C13.lean` -/

theorem sum_support (n L : ℕ) (hL : L ≤ n) (g : ℕ → ℝ) :
    ∑ m ∈ range n, (if m < L then g m else 0) = ∑ m ∈ range L, g m := by
  rw [← Finset.sum_subset (Finset.range_subset_range.2 hL)]
  · apply Finset.sum_congr rfl
    intro m hm
    rw [if_pos (mem_range.mp hm)]
  · intro m _ hm
    rw [if_neg (by simpa using hm)]

/-- Parseval applied to the averaged two-sided periodogram -/
theorem two_sided_sum (n M : ℕ) (hn : 0 < n) (wp : ℝ) (s : ℕ → ℕ → ℂ) :
    ∑ j ∈ range n, (∑ i ∈ range M, normSq (dft n (s i) j) / wp) / (M : ℝ) =
      (n : ℝ) * ((∑ i ∈ range M, ∑ m ∈ range n, normSq (s i m)) / (M : ℝ)) / wp := by
  rw [← Finset.sum_div, Finset.sum_comm]
  have : ∀ i ∈ range M, ∑ j ∈ range n, normSq (dft n (s i) j) / wp = (n : ℝ) * (∑ m ∈ range n, normSq (s i m)) / wp := by
    intro i _
    rw [← Finset.sum_div, parseval n hn]
  rw [Finset.sum_congr rfl this, ← Finset.sum_div, ← Finset.mul_sum]
  ring

theorem normSq_add_sub_le (u v : ℂ) : |normSq (u + v) - normSq u| ≤ 2 * ‖u‖ * ‖v‖ + ‖v‖ ^ 2 := by
  rw [Complex.normSq_add]
  have h1 : |(u * (starRingEnd ℂ) v).re| ≤ ‖u‖ * ‖v‖ := by
    refine (Complex.abs_re_le_norm _).trans (le_of_eq ?_)
    rw [norm_mul, Complex.norm_conj]
  have h2 : normSq v = ‖v‖ ^ 2 := Complex.normSq_eq_norm_sq v
  have : normSq u + normSq v + 2 * (u * (starRingEnd ℂ) v).re - normSq u = normSq v + 2 * (u * (starRingEnd ℂ) v).re := by ring
  rw [this, h2]
  have h3 : 0 ≤ ‖v‖ ^ 2 := by positivity
  rw [abs_le] at h1 ⊢
  constructor <;> nlinarith [h1.1, h1.2]

theorem mean_close (M : ℕ) (hM : 0 < M) (g : ℕ → ℝ) (c e : ℝ) (h : ∀ i < M, |g i - c| ≤ e) :
    |(∑ i ∈ range M, g i) / (M : ℝ) - c| ≤ e := by
  have hM' : (0 : ℝ) < (M : ℝ) := by exact_mod_cast hM
  have e1 : (∑ i ∈ range M, g i) / (M : ℝ) - c = (∑ i ∈ range M, (g i - c)) / (M : ℝ) := by
    rw [Finset.sum_sub_distrib, Finset.sum_const, card_range, nsmul_eq_mul]
    field_simp
  rw [e1, abs_div, abs_of_pos hM', div_le_iff₀ hM']
  calc |∑ i ∈ range M, (g i - c)| ≤ ∑ i ∈ range M, |g i - c| := Finset.abs_sum_le_sum_abs _ _
    _ ≤ ∑ _i ∈ range M, e := Finset.sum_le_sum (fun i hi => h i (mem_range.mp hi))
    _ = e * M := by rw [Finset.sum_const, card_range, nsmul_eq_mul]; ring

/-- the transform of segment `[t1, t1+L)` of the real sinusoid `a·e^{2πi k0 u/n} + conj(a)·e^{-2πi k0 u/n}` under the window `w`,
at the tone's own bin: the tone's term carries the window sum, the negative-frequency image carries `S(2k0)` -/
theorem dft_real_tone (n L : ℕ) (hL : L ≤ n) (a : ℂ) (k0 t1 : ℕ) (w : ℕ → ℝ) :
    dft n (fun m => if m < L then (a * (ω n (k0 * (t1 + m)))⁻¹ + (starRingEnd ℂ) a * ω n (k0 * (t1 + m))) * (w m : ℂ) else 0) k0 =
      a * (ω n (k0 * t1))⁻¹ * ((∑ m ∈ range L, w m : ℝ) : ℂ) +
      (starRingEnd ℂ) a * ω n (k0 * t1) * ∑ m ∈ range L, (w m : ℂ) * (ω n (k0 * m) * ω n (m * k0)) := by
  rw [dft_support n L hL, ← tone_sum_self n L k0 w, Finset.mul_sum, Finset.mul_sum, ← Finset.sum_add_distrib]
  apply Finset.sum_congr rfl
  intro m _
  rw [Nat.mul_add, ω_add, mul_inv]
  ring

/-- the complex amplitude of `A·cos(θ + φ)`: `a = (A/2)·e^{iφ}`, with `2|a|² = A²/2` -/
noncomputable def cosAmp (A φ : ℝ) : ℂ := ((A / 2 : ℝ) : ℂ) * exp ((φ : ℂ) * I)

theorem cosAmp_power (A φ : ℝ) : 2 * normSq (cosAmp A φ) = A ^ 2 / 2 := by
  unfold cosAmp
  rw [map_mul, Complex.normSq_ofReal, Complex.normSq_eq_norm_sq, Complex.norm_exp_ofReal_mul_I]
  ring

theorem cos_exp (A θ φ : ℝ) :
    ((A * Real.cos (θ + φ) : ℝ) : ℂ) =
      cosAmp A φ * exp ((θ : ℂ) * I) + (starRingEnd ℂ) (cosAmp A φ) * exp (-((θ : ℂ) * I)) := by
  unfold cosAmp
  rw [map_mul, Complex.conj_ofReal, ← Complex.exp_conj, map_mul, Complex.conj_ofReal, Complex.conj_I,
    mul_assoc, mul_assoc, ← Complex.exp_add, ← Complex.exp_add, Complex.ofReal_mul, Complex.ofReal_cos, Complex.cos]
  have e1 : (φ : ℂ) * I + (θ : ℂ) * I = ((θ + φ : ℝ) : ℂ) * I := by push_cast; ring
  have e2 : (φ : ℂ) * -I + -((θ : ℂ) * I) = -(((θ + φ : ℝ) : ℂ)) * I := by push_cast; ring
  rw [e1, e2]
  push_cast
  ring

/-- a real sinusoid at a bin frequency is the sum of the two exponentials `welchR_tone_bound` speaks about -/
theorem cos_as_exponentials (n k0 u : ℕ) (A φ : ℝ) :
    ((A * Real.cos (2 * Real.pi * ((k0 * u : ℕ) : ℝ) / (n : ℝ) + φ) : ℝ) : ℂ) =
      cosAmp A φ * (ω n (k0 * u))⁻¹ + (starRingEnd ℂ) (cosAmp A φ) * ω n (k0 * u) := by
  rw [cos_exp]
  unfold ω
  rw [← Complex.exp_neg]
  congr 3
  · ring
  · ring

end Dsp.C13
