import DspVerif.Model.Fft
import DspVerif.Lib.RealFn
import DspVerif.Lib.Dft
import Mathlib.Tactic.Linarith
import Mathlib.Tactic.NormNum
import Mathlib.Tactic.LinearCombination
/-!
# C01 support: the array layer of `Model/Fft.lean` (`rd`/`mk`), the denotation of a vector as a
complex sequence, and the root-of-unity facts the plan-level theorems need.
-/
open Finset Complex

namespace Dsp

/-- `std::atan2(y, x)` on the reals: the argument of `x + iy` (range `(-π, π]`) -/
noncomputable instance : Atan2 ℝ := ⟨fun y x => Complex.arg ⟨x, y⟩⟩

namespace Fft

section generic
variable {α : Type} [Fn α]

@[simp] theorem size_mk (n : Nat) (f : Nat → Cx α) : (mk n f).size = n := by simp [mk]

theorem rd_mk (n : Nat) (f : Nat → Cx α) (i : Nat) : rd (mk n f) i = if i < n then f i else zero := by
  unfold rd mk
  by_cases h : i < n
  · simp [h, Array.getD]
  · simp [h, Array.getD]

theorem rd_mk_lt (n : Nat) (f : Nat → Cx α) (i : Nat) (h : i < n) : rd (mk n f) i = f i := by
  rw [rd_mk, if_pos h]

theorem rd2_mkRows (R : Nat) (g : Nat → Vec α) (r c : Nat) (h : r < R) : rd2 (mkRows R g) r c = rd (g r) c := by
  unfold rd2 mkRows
  simp [h, Array.getD]

end generic

/-- the complex sequence a vector denotes (zero outside the array) -/
noncomputable def seq (x : Vec ℝ) : ℕ → ℂ := fun i => Cx.toC (rd x i)

/-- a real array as a complex sequence -/
noncomputable def seqR (x : Array ℝ) : ℕ → ℂ := fun i => ((rdR x i : ℝ) : ℂ)

@[simp] theorem toC_zero : Cx.toC (zero : Cx ℝ) = 0 := by
  apply Complex.ext <;> simp [zero]

theorem dft_congr (n : ℕ) (x y : ℕ → ℂ) (h : ∀ i < n, x i = y i) (k : ℕ) : dft n x k = dft n y k := by
  unfold dft
  apply Finset.sum_congr rfl
  intro m hm
  rw [h m (Finset.mem_range.mp hm)]

theorem ω_mod (n j : ℕ) (hn : 0 < n) : ω n (j % n) = ω n j := by
  conv_rhs => rw [← Nat.div_add_mod j n]
  rw [ω_add, ω_self_mul _ _ hn, one_mul]

theorem ω_conj_self (n a : ℕ) : (starRingEnd ℂ) (ω n a) * ω n a = 1 := by
  unfold ω
  rw [← Complex.exp_conj, map_mul, map_neg, Complex.conj_ofReal, Complex.conj_I, ← Complex.exp_add]
  have : -(((2 * Real.pi * (a : ℝ) / (n : ℝ)) : ℝ) : ℂ) * -I + -(((2 * Real.pi * (a : ℝ) / (n : ℝ)) : ℝ) : ℂ) * I = 0 := by ring
  rw [this, Complex.exp_zero]

/-- `conj ω^a = ω^b` when `a + b` is a multiple of `n` -/
theorem ω_conj_of_dvd (n a b : ℕ) (hn : 0 < n) (h : n ∣ a + b) : (starRingEnd ℂ) (ω n a) = ω n b := by
  obtain ⟨c, hc⟩ := h
  have h1 : ω n a * ω n b = 1 := by rw [← ω_add, hc, ω_self_mul _ _ hn]
  calc (starRingEnd ℂ) (ω n a) = (starRingEnd ℂ) (ω n a) * (ω n a * ω n b) := by rw [h1, mul_one]
    _ = ((starRingEnd ℂ) (ω n a) * ω n a) * ω n b := by ring
    _ = ω n b := by rw [ω_conj_self, one_mul]

/-- the transform of a real sequence is conjugate-symmetric -/
theorem dft_conj_symm (n : ℕ) (hn : 0 < n) (r : ℕ → ℝ) (k : ℕ) (hk : k ≤ n) :
    (starRingEnd ℂ) (dft n (fun m => ((r m : ℝ) : ℂ)) (n - k)) = dft n (fun m => ((r m : ℝ) : ℂ)) k := by
  unfold dft
  rw [map_sum]
  apply Finset.sum_congr rfl
  intro m _
  rw [map_mul, Complex.conj_ofReal, ω_conj_of_dvd n (m * (n - k)) (m * k) hn]
  rw [← Nat.mul_add, Nat.sub_add_cancel hk]
  exact Dvd.intro_left _ rfl

theorem toC_mulr (z : Cx ℝ) (r : ℝ) : Cx.toC (Cx.mulr z r) = Cx.toC z * (r : ℂ) := by
  apply Complex.ext <;> simp [Cx.mulr]

theorem toC_untangle (a b : Cx ℝ) : Cx.toC ⟨a.re - b.im, a.im + b.re⟩ = Cx.toC a + I * Cx.toC b := by
  apply Complex.ext <;> simp <;> ring

theorem toC_ofReal (v : ℝ) : Cx.toC (Fft.ofReal v) = (v : ℂ) := by
  apply Complex.ext <;> simp [Fft.ofReal]

theorem ω_half (h : ℕ) (hh : 0 < h) : ω (h * 2) h = -1 := by
  have : ω (h * 2) (1 * h) = ω 2 1 := by rw [Nat.mul_comm h 2]; exact ω_scale 2 h 1 hh
  rw [Nat.one_mul] at this
  rw [this]
  unfold ω
  have e : -(((2 * Real.pi * ((1 : ℕ) : ℝ) / ((2 : ℕ) : ℝ)) : ℝ) : ℂ) * I = -((Real.pi : ℂ) * I) := by
    push_cast; ring
  rw [e, Complex.exp_neg, Complex.exp_pi_mul_I]; norm_num


theorem toC_expj (t : ℝ) : Cx.toC (expj t) = Complex.exp ((t : ℂ) * I) := by
  apply Complex.ext
  · rw [Complex.exp_ofReal_mul_I_re]; rfl
  · rw [Complex.exp_ofReal_mul_I_im]; rfl

/-- entry `i` of `expj(-2 * pi * arange(·) / n)` denotes `ω n i` -/
theorem toC_twiddle (n i : ℕ) : Cx.toC (twiddle (α := ℝ) n i) = ω n i := by
  unfold twiddle ω
  rw [toC_expj]
  congr 2
  simp only [fn_ofInt, fn_ofNat, fn_pi]
  push_cast
  ring

end Fft
end Dsp
