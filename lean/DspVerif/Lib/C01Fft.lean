import DspVerif.Model.Fft
import DspVerif.Lib.RealFn
import DspVerif.Lib.Dft
import Mathlib.Tactic.Linarith
import Mathlib.Tactic.NormNum
import Mathlib.Tactic.LinearCombination
/-!
# C01 support: the array layer of `Model/Fft.lean` (`rd`/`mk`), the denotation of a vector as a
complex sequence, and the root-of-unity facts the plan-level theorems need.
-/
open Finset Complex

namespace Dsp

/-- `std::atan2(y, x)` on the reals: the argument of `x + iy` (range `(-π, π]`) -/
noncomputable instance : Atan2 ℝ := ⟨fun y x => Complex.arg ⟨x, y⟩⟩

namespace Fft

section generic
variable {α : Type} [Fn α]

@[simp] theorem size_mk (n : Nat) (f : Nat → Cx α) : (mk n f).size = n := by simp [mk]

theorem rd_mk (n : Nat) (f : Nat → Cx α) (i : Nat) : rd (mk n f) i = if i < n then f i else zero := by
  unfold rd mk
  by_cases h : i < n
  · simp [h, Array.getD]
  · simp [h, Array.getD]

theorem rd_mk_lt (n : Nat) (f : Nat → Cx α) (i : Nat) (h : i < n) : rd (mk n f) i = f i := by
  rw [rd_mk, if_pos h]

theorem rd2_mkRows (R : Nat) (g : Nat → Vec α) (r c : Nat) (h : r < R) : rd2 (mkRows R g) r c = rd (g r) c := by
  unfold rd2 mkRows
  simp [h, Array.getD]

end generic

/-- the complex sequence a vector denotes (zero outside the array) -/
noncomputable def seq (x : Vec ℝ) : ℕ → ℂ := fun i => Cx.toC (rd x i)

/-- a real array as a complex sequence -/
noncomputable def seqR (x : Array ℝ) : ℕ → ℂ := fun i => ((rdR x i : ℝ) : ℂ)

@[simp] theorem toC_zero : Cx.toC (zero : Cx ℝ) = 0 := by
  apply Complex.ext <;> simp [zero]

theorem dft_congr (n : ℕ) (x y : ℕ → ℂ) (h : ∀ i < n, x i = y i) (k : ℕ) : dft n x k = dft n y k := by
  unfold dft
  apply Finset.sum_congr rfl
  intro m hm
  rw [h m (Finset.mem_range.mp hm)]

end Fft
end Dsp
