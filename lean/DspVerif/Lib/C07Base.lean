import DspVerif.Model.Fir
import DspVerif.Lib.RealFn
import Mathlib.Algebra.Ring.InjSurj
import Mathlib.Algebra.BigOperators.Intervals
import Mathlib.Tactic.Linarith
import Mathlib.Tactic.Abel
/-!
# Helper lemmas for C07

* `Array.getD` of `++`, `extract`, `replicate`, `ofFn`, `setIfInBounds`, `reverse`, `map` (the models of `Model/Fir.lean`
  read arrays with `getD`; every theorem of `Props/C07.lean` uses it only at indices it proves to be in range, or
  states the out-of-range value explicitly);
* `acc = Σ` (the `r = 0; r += …` loop is a `Finset.range` sum in any commutative monoid);
* the commutative-ring structure of `Cx ℝ` (transported along `toC`, on top of the REGENERATED `+ - * neg` of `Gen/Cmplx`),
  so that the scalar-generic theorems apply verbatim to the complex instantiation of the models.
-/
open Finset

namespace Dsp.C07
variable {R : Type}

theorem acc_eq_sum [AddCommMonoid R] (n : ℕ) (f : ℕ → R) : Fir.acc (0 : R) n f = ∑ k ∈ range n, f k := by
  induction n with
  | zero => simp [Fir.acc]
  | succ n ih => simp [Fir.acc, ih, Finset.sum_range_succ]

theorem getD_append (a b : Array R) (i : ℕ) (z : R) :
    (a ++ b).getD i z = if i < a.size then a.getD i z else b.getD (i - a.size) z := by
  simp only [Array.getD_eq_getD_getElem?, Array.getElem?_append]
  split <;> rfl

theorem getD_of_ge (a : Array R) (i : ℕ) (z : R) (h : a.size ≤ i) : a.getD i z = z := by
  simp [Array.getD_eq_getD_getElem?, Array.getElem?_eq_none h]

theorem getD_replicate (n i : ℕ) (z : R) : (Array.replicate n z).getD i z = z := by
  simp only [Array.getD_eq_getD_getElem?, Array.getElem?_replicate]
  split <;> rfl

theorem getD_extract (a : Array R) (s e i : ℕ) (z : R) (he : e ≤ a.size) :
    (a.extract s e).getD i z = if i < e - s then a.getD (s + i) z else z := by
  simp only [Array.getD_eq_getD_getElem?, Array.getElem?_extract]
  have : min e a.size = e := by omega
  rw [this]
  split <;> rfl

theorem getD_ofFn {n : ℕ} (f : Fin n → R) (i : ℕ) (z : R) :
    (Array.ofFn f).getD i z = if h : i < n then f ⟨i, h⟩ else z := by
  simp only [Array.getD_eq_getD_getElem?, Array.getElem?_ofFn]
  split <;> rfl

theorem getD_setIfInBounds (a : Array R) (i j : ℕ) (v z : R) (hi : i < a.size) :
    (a.setIfInBounds i v).getD j z = if j = i then v else a.getD j z := by
  simp only [Array.getD_eq_getD_getElem?, Array.getElem?_setIfInBounds]
  by_cases h : i = j
  · subst h; simp [hi]
  · have : ¬ j = i := fun e => h e.symm
    simp [h, this]

theorem getD_map (f : R → R) (a : Array R) (i : ℕ) (z : R) (hz : f z = z) :
    (a.map f).getD i z = f (a.getD i z) := by
  simp only [Array.getD_eq_getD_getElem?, Array.getElem?_map]
  cases a[i]? <;> simp [hz]

theorem getD_reverse (a : Array R) (i : ℕ) (z : R) (hi : i < a.size) :
    a.reverse.getD i z = a.getD (a.size - 1 - i) z := by
  simp only [Array.getD_eq_getD_getElem?]
  rw [Array.getElem?_reverse hi]

/-- two arrays are equal when their sizes and all in-range `getD`s agree -/
theorem ext_getD (a b : Array R) (z : R) (hs : a.size = b.size) (h : ∀ i, i < a.size → a.getD i z = b.getD i z) : a = b := by
  apply Array.ext hs
  intro i h1 h2
  have := h i h1
  simpa [Array.getD_eq_getD_getElem?, h1, h2] using this

/-- the sample `back+1` positions before the end of the stream `X` (zero before the start) -/
def past [Zero R] (X : Array R) (back : ℕ) : R := if back < X.size then X.getD (X.size - 1 - back) 0 else 0

theorem past_empty [Zero R] (b : ℕ) : past (#[] : Array R) b = 0 := by simp [past]

theorem past_append [Zero R] (X x : Array R) (b : ℕ) :
    past (X ++ x) b = if b < x.size then x.getD (x.size - 1 - b) 0 else past X (b - x.size) := by
  unfold past
  rw [getD_append, Array.size_append]
  by_cases h : b < x.size
  · have h1 : b < X.size + x.size := by omega
    have h2 : ¬ (X.size + x.size - 1 - b < X.size) := by omega
    have h3 : X.size + x.size - 1 - b - X.size = x.size - 1 - b := by omega
    simp only [h, h1, h2, h3, if_true, if_false]
  · by_cases h2 : b - x.size < X.size
    · have h1 : b < X.size + x.size := by omega
      have h3 : (X.size + x.size - 1 - b < X.size) := by omega
      have h4 : X.size + x.size - 1 - b = X.size - 1 - (b - x.size) := by omega
      simp only [h, h1, h2, if_true, if_false]
      rw [if_pos h3, h4]
    · have h1 : ¬ b < X.size + x.size := by omega
      simp only [h, h1, h2, if_false]

/-- `nextpow2 m` is large enough: `m ≤ 2^nextpow2 m` -/
theorem le_two_pow_nextpow2 (m : ℕ) : m ≤ 2 ^ Fir.nextpow2 m := by
  unfold Fir.nextpow2
  by_cases h : m ≤ 1
  · simp [h]
  · simp only [h, if_false]
    by_cases h2 : 2 ^ m.log2 = m
    · simp [h2]
    · simp only [h2, if_false]
      exact Nat.le_of_lt Nat.lt_log2_self

end Dsp.C07

/-! ### `Cx ℝ` is a commutative ring (with the generated operators) and `toC` a ring homomorphism -/
namespace Dsp.Cx

instance : Zero (Cx ℝ) := ⟨⟨0, 0⟩⟩
instance : One (Cx ℝ) := ⟨⟨1, 0⟩⟩
instance : NatCast (Cx ℝ) := ⟨fun n => ⟨n, 0⟩⟩
instance : IntCast (Cx ℝ) := ⟨fun n => ⟨n, 0⟩⟩
instance : SMul ℕ (Cx ℝ) := ⟨fun n z => ⟨n * z.re, n * z.im⟩⟩
instance : SMul ℤ (Cx ℝ) := ⟨fun n z => ⟨n * z.re, n * z.im⟩⟩
instance : Pow (Cx ℝ) ℕ := ⟨fun z n => npowRec n z⟩

@[simp] theorem zero_re : (0 : Cx ℝ).re = 0 := rfl
@[simp] theorem zero_im : (0 : Cx ℝ).im = 0 := rfl
@[simp] theorem one_re : (1 : Cx ℝ).re = 1 := rfl
@[simp] theorem one_im : (1 : Cx ℝ).im = 0 := rfl
@[simp] theorem nsmul_re (n : ℕ) (z : Cx ℝ) : (n • z).re = n * z.re := rfl
@[simp] theorem nsmul_im (n : ℕ) (z : Cx ℝ) : (n • z).im = n * z.im := rfl
@[simp] theorem zsmul_re (n : ℤ) (z : Cx ℝ) : (n • z).re = n * z.re := rfl
@[simp] theorem zsmul_im (n : ℤ) (z : Cx ℝ) : (n • z).im = n * z.im := rfl
@[simp] theorem natCast_re (n : ℕ) : ((n : Cx ℝ)).re = n := rfl
@[simp] theorem natCast_im (n : ℕ) : ((n : Cx ℝ)).im = 0 := rfl
@[simp] theorem intCast_re (n : ℤ) : ((n : Cx ℝ)).re = n := rfl
@[simp] theorem intCast_im (n : ℤ) : ((n : Cx ℝ)).im = 0 := rfl

theorem toC_zero : toC 0 = 0 := by apply Complex.ext <;> simp
theorem toC_one : toC 1 = 1 := by apply Complex.ext <;> simp

theorem toC_pow (z : Cx ℝ) (n : ℕ) : toC (z ^ n) = toC z ^ n := by
  show toC (npowRec n z) = _
  induction n with
  | zero => simp [npowRec, toC_one]
  | succ n ih => simp [npowRec, toC_mul, ih, pow_succ]

noncomputable instance : CommRing (Cx ℝ) :=
  Function.Injective.commRing toC toC_injective toC_zero toC_one toC_add toC_mul toC_neg toC_sub
    (fun n z => by rw [nsmul_eq_mul]; apply Complex.ext <;> simp)
    (fun n z => by rw [zsmul_eq_mul]; apply Complex.ext <;> simp)
    toC_pow
    (fun n => by apply Complex.ext <;> simp)
    (fun n => by apply Complex.ext <;> simp)

/-- `toC` as a ring homomorphism -/
noncomputable def toCHom : Cx ℝ →+* ℂ where
  toFun := toC
  map_one' := toC_one
  map_mul' := toC_mul
  map_zero' := toC_zero
  map_add' := toC_add

@[simp] theorem toCHom_apply (z : Cx ℝ) : toCHom z = toC z := rfl

/-- the ring operations ARE the generated `cmplx_t` operators -/
example (a b : Cx ℝ) : a + b = Cx.add a b ∧ a * b = Cx.mul a b ∧ a - b = Cx.sub a b ∧ -a = Cx.neg a := ⟨rfl, rfl, rfl, rfl⟩

theorem zeroC_eq : (Fir.zeroC : Cx ℝ) = 0 := by apply Cx.ext' <;> simp [Fir.zeroC]
theorem zeroR_eq : (Fir.zeroR : ℝ) = 0 := by simp [Fir.zeroR]

end Dsp.Cx
