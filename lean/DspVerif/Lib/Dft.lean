import Mathlib.Analysis.SpecialFunctions.Complex.Log
import Mathlib.Analysis.SpecialFunctions.Trigonometric.Basic
import Mathlib.Algebra.BigOperators.Intervals
import Mathlib.Tactic.Ring
import Mathlib.Tactic.FieldSimp
import Mathlib.Tactic.Push
/-!
# Discrete Fourier transform: definitions and the identities the FFT family is proved against

`ω n j = exp(-2πi j/n)`;  `dft n x k = ∑_{m<n} x m · ω n (m·k)` over `ℕ → ℂ` (range sums).
-/
open Finset Complex

namespace Dsp

noncomputable def ω (n : ℕ) (j : ℕ) : ℂ := exp (-(2 * Real.pi * j / n : ℝ) * I)

noncomputable def dft (n : ℕ) (x : ℕ → ℂ) (k : ℕ) : ℂ := ∑ m ∈ range n, x m * ω n (m * k)

theorem ω_zero (n : ℕ) : ω n 0 = 1 := by simp [ω]

theorem ω_add (n a b : ℕ) : ω n (a + b) = ω n a * ω n b := by
  unfold ω; rw [← Complex.exp_add]; congr 1; push_cast; ring

theorem ω_self_mul (n a : ℕ) (hn : 0 < n) : ω n (n * a) = 1 := by
  unfold ω
  have : (-(2 * Real.pi * ((n * a : ℕ) : ℝ) / n : ℝ) : ℂ) * I = ((-(a : ℤ) : ℤ) : ℂ) * (2 * Real.pi * I) := by
    have hn' : (n : ℂ) ≠ 0 := by exact_mod_cast hn.ne'
    push_cast; field_simp
  rw [this]; exact Complex.exp_int_mul_two_pi_mul_I _

theorem ω_scale (n c j : ℕ) (hc : 0 < c) : ω (n * c) (j * c) = ω n j := by
  unfold ω
  have hc' : (c : ℝ) ≠ 0 := by exact_mod_cast hc.ne'
  have : (2 * Real.pi * ((j * c : ℕ) : ℝ) / ((n * c : ℕ) : ℝ)) = 2 * Real.pi * (j : ℝ) / (n : ℝ) := by
    push_cast
    rw [← mul_assoc, mul_div_mul_right _ _ hc']
  rw [this]

theorem sum_range_mul (P Q : ℕ) (f : ℕ → ℂ) :
    ∑ m ∈ range (P * Q), f m = ∑ j ∈ range Q, ∑ i ∈ range P, f (i * Q + j) := by
  rw [Finset.sum_comm]
  induction P with
  | zero => simp
  | succ P ih =>
    rw [Nat.succ_mul, Finset.sum_range_add, ih, Finset.sum_range_succ]

/-- general Cooley–Tukey step: the index arithmetic of `_facfft` -/
theorem cooley_tukey (P Q : ℕ) (hP : 0 < P) (hQ : 0 < Q) (x : ℕ → ℂ) (s p : ℕ) :
    dft (P * Q) x (s * P + p) =
      ∑ j ∈ range Q, (ω (P * Q) (j * p) * ∑ i ∈ range P, x (i * Q + j) * ω P (i * p)) * ω Q (j * s) := by
  unfold dft
  rw [sum_range_mul]
  apply Finset.sum_congr rfl; intro j _
  rw [Finset.mul_sum, Finset.sum_mul]
  apply Finset.sum_congr rfl; intro i _
  have e : (i * Q + j) * (s * P + p) = (P * Q) * (i * s) + ((i * p) * Q + ((j * s) * P + j * p)) := by ring
  rw [e, ω_add, ω_add, ω_add, ω_self_mul _ _ (Nat.mul_pos hP hQ), ω_scale P Q _ hQ]
  have : ω (P * Q) (j * s * P) = ω Q (j * s) := by rw [mul_comm P Q]; exact ω_scale Q P _ hP
  rw [this]; ring

end Dsp
