import DspVerif.Lib.C02Dft
import Mathlib.Tactic.Linarith
import Mathlib.Tactic.NormNum
import Mathlib.Tactic.Ring
import Mathlib.Tactic.FieldSimp
/-!
# C02 support: what the pieces of `Model/Ifft.lean` denote

* the coefficient table of `IfftPlanR` (`irfftCoeff_eq`, both fill paths),
* the frequency-range conversions as index permutations (every scalar type),
* `IfftPlan::solve` = inverse DFT, `IfftPlanR::solve` = real inverse DFT of a Hermitian spectrum, given that the
  forward plan computes the DFT (`IsDft`, the statement of `Props/C01`).
-/
open Finset Complex
namespace Dsp
namespace Ifft
open Dsp.C07

/-! ## T02.2 the coefficient table of `IfftPlanR` -/

theorem cosTab_real (n i : ℕ) : cosTab (α := ℝ) n i = Real.cos (2 * Real.pi * i / n) := by
  simp [cosTab]

theorem sinTab_real (n i : ℕ) : sinTab (α := ℝ) n i = Real.sin (2 * Real.pi * i / n) := by
  simp [sinTab]

/-- every cell of `_irfft_coeffs(n)` (both fill paths: direct loop for `4 ∤ n`, quarter-wave loop for `4 ∣ n`) -/
theorem irfftCoeff_re_im (n i : ℕ) (hn : n % 2 = 0) (hi : i < n / 2) :
    (irfftCoeff (α := ℝ) n i).re = Real.cos (2 * Real.pi * i / n) ∧
    (irfftCoeff (α := ℝ) n i).im = Real.sin (2 * Real.pi * i / n) := by
  by_cases h4 : n % 4 ≠ 0
  · simp only [irfftCoeff, if_pos h4, cosTab_real, sinTab_real]
    exact ⟨trivial, trivial⟩
  · obtain ⟨q, rfl⟩ : ∃ q, n = 4 * q := ⟨n / 4, by omega⟩
    have e4 : 4 * q / 4 = q := by omega
    have e2 : 4 * q / 2 = 2 * q := by omega
    have hq : 0 < q := by omega
    have hqR : (q : ℝ) ≠ 0 := by positivity
    rw [e2] at hi
    simp only [irfftCoeff, if_neg h4, e4, e2, cosTab_real]
    by_cases h0 : i = 0
    · subst h0; simp
    · rw [if_neg h0]
      by_cases hiq : i = q
      · subst hiq
        rw [if_pos rfl]
        have : 2 * Real.pi * (i : ℝ) / ((4 * i : ℕ) : ℝ) = Real.pi / 2 := by
          push_cast; field_simp; ring
        rw [this]; simp
      · rw [if_neg hiq]
        by_cases hlt : i < q
        · rw [if_pos hlt]
          refine ⟨rfl, ?_⟩
          show Real.cos _ = _
          have : 2 * Real.pi * ((q - i : ℕ) : ℝ) / ((4 * q : ℕ) : ℝ)
              = Real.pi / 2 - 2 * Real.pi * i / ((4 * q : ℕ) : ℝ) := by
            rw [Nat.cast_sub hlt.le]; push_cast; field_simp; ring
          rw [this, Real.cos_pi_div_two_sub]
        · rw [if_neg hlt]
          have hqi : q ≤ i := by omega
          have hi2 : i ≤ 2 * q := by omega
          constructor
          · show -Real.cos _ = _
            have : 2 * Real.pi * ((2 * q - i : ℕ) : ℝ) / ((4 * q : ℕ) : ℝ)
                = Real.pi - 2 * Real.pi * i / ((4 * q : ℕ) : ℝ) := by
              rw [Nat.cast_sub hi2]; push_cast; field_simp; ring
            rw [this, Real.cos_pi_sub, neg_neg]
          · show Real.cos _ = _
            have : 2 * Real.pi * ((i - q : ℕ) : ℝ) / ((4 * q : ℕ) : ℝ)
                = 2 * Real.pi * i / ((4 * q : ℕ) : ℝ) - Real.pi / 2 := by
              rw [Nat.cast_sub hqi]; push_cast; field_simp; ring
            rw [this, Real.cos_sub_pi_div_two]

/-- … i.e. the table holds `exp(+2πi·i/n) = (ω n i)⁻¹` -/
theorem irfftCoeff_eq (n i : ℕ) (hn : n % 2 = 0) (hi : i < n / 2) :
    Cx.toC (irfftCoeff (α := ℝ) n i) = (ω n i)⁻¹ := by
  obtain ⟨hre, him⟩ := irfftCoeff_re_im n i hn hi
  have hω : (ω n i)⁻¹ = Complex.exp ((2 * Real.pi * i / n : ℝ) * I) := by
    unfold ω
    rw [← Complex.exp_neg]
    congr 1
    push_cast; ring
  rw [hω]
  apply Complex.ext
  · rw [Complex.exp_ofReal_mul_I_re, Cx.toC_re, hre]
  · rw [Complex.exp_ofReal_mul_I_im, Cx.toC_im, him]

/-! ## T02.5 the frequency-range conversions are inverse index permutations (every scalar type) -/
section ranges
variable {α : Type} [Neg α] [Fn α]

omit [Neg α] in
/-- `(convertRangeStft X n r).size = frameLen n r` -/
theorem size_convertRangeStft (X : Vec α) (n r : ℕ) (hX : X.size = n) :
    (convertRangeStft X n r).size = frameLen n r := by
  unfold convertRangeStft frameLen
  by_cases h2 : r = 2
  · simp [h2]
  · by_cases h0 : r = 0
    · simp [h0]
    · simp [h2, h0, hX]

theorem convertRangeIstft_stft (X : Vec α) (n r : ℕ) (hX : X.size = n) :
    convertRangeIstft (convertRangeStft X n r) n r
      = .ok (convertRangeIstftCore (convertRangeStft X n r) n r) := by
  unfold convertRangeIstft
  rw [if_neg (by rw [size_convertRangeStft X n r hX]; simp)]

/-- size of the round trip -/
theorem size_core_stft (X : Vec α) (n r : ℕ) (hn : n % 2 = 0) (h2 : 2 ≤ n) (hX : X.size = n) :
    (convertRangeIstftCore (convertRangeStft X n r) n r).size = n := by
  unfold convertRangeIstftCore
  by_cases hr2 : r = 2
  · simp only [hr2, if_true, size_mk]; omega
  · by_cases hr0 : r = 0
    · simp [hr0]
    · simp [hr2, hr0, convertRangeStft, hX]

/-- cells of the centered round trip -/
theorem rd_core_stft_centered (X : Vec α) (n : ℕ) (hn : n % 2 = 0) (h2 : 2 ≤ n) (i : ℕ) (hi : i < n) :
    rd (convertRangeIstftCore (convertRangeStft X n 0) n 0) i = rd X i := by
  obtain ⟨h, rfl⟩ : ∃ h, n = 2 * h := ⟨n / 2, by omega⟩
  have eh : 2 * h / 2 = h := by omega
  simp only [convertRangeIstftCore, convertRangeStft, eh, if_true,
    show ((0 : ℕ) = 2) = False from by simp, if_false]
  rw [rd_mk_lt _ _ _ hi]
  split_ifs with h1
  · rw [rd_mk_lt _ _ _ (by omega), if_neg (by omega)]
    congr 1; omega
  · rw [rd_mk_lt _ _ _ (by omega), if_pos (by omega)]
    congr 1; omega

/-- low cells of the one-sided round trip -/
theorem rd_core_stft_onesided_low (X : Vec α) (n : ℕ) (hn : n % 2 = 0) (h2 : 2 ≤ n) (i : ℕ)
    (hi : i ≤ n / 2) :
    rd (convertRangeIstftCore (convertRangeStft X n 2) n 2) i = rd X i := by
  obtain ⟨h, rfl⟩ : ∃ h, n = 2 * h := ⟨n / 2, by omega⟩
  have eh : 2 * h / 2 = h := by omega
  rw [eh] at hi
  simp only [convertRangeIstftCore, convertRangeStft, eh, if_true]
  rw [rd_mk_lt _ _ _ (by omega), if_pos (by omega), rd_mk_lt _ _ _ (by omega)]

/-- high cells of the one-sided round trip: rebuilt by conjugate symmetry -/
theorem rd_core_stft_onesided_high (X : Vec α) (n : ℕ) (hn : n % 2 = 0) (h2 : 2 ≤ n) (i : ℕ)
    (hi : n / 2 < i) (hi' : i < n) :
    rd (convertRangeIstftCore (convertRangeStft X n 2) n 2) i = Cx.conj (rd X (n - i)) := by
  obtain ⟨h, rfl⟩ : ∃ h, n = 2 * h := ⟨n / 2, by omega⟩
  have eh : 2 * h / 2 = h := by omega
  rw [eh] at hi
  simp only [convertRangeIstftCore, convertRangeStft, eh, if_true]
  rw [rd_mk_lt _ _ _ (by omega), if_neg (by omega), rd_mk_lt _ _ _ (by omega)]
  congr 2; omega

theorem range_roundtrip_twosided (X : Vec α) (n : ℕ) (hX : X.size = n) :
    convertRangeIstft (convertRangeStft X n 1) n 1 = .ok X := by
  rw [convertRangeIstft_stft X n 1 hX]
  simp [convertRangeIstftCore, convertRangeStft]

theorem range_roundtrip_centered (X : Vec α) (n : ℕ) (hn : n % 2 = 0) (h2 : 2 ≤ n) (hX : X.size = n) :
    convertRangeIstft (convertRangeStft X n 0) n 0 = .ok X := by
  rw [convertRangeIstft_stft X n 0 hX]
  congr 1
  have hs := size_core_stft X n 0 hn h2 hX
  apply vec_ext _ _ (by rw [hs, hX])
  intro i hi
  rw [hs] at hi
  exact rd_core_stft_centered X n hn h2 i hi

/-- one-sided: the upper bins are rebuilt by conjugate symmetry, so the round trip is the identity on Hermitian frames -/
theorem range_roundtrip_onesided (X : Vec α) (n : ℕ) (hn : n % 2 = 0) (h2 : 2 ≤ n) (hX : X.size = n)
    (hsym : ∀ j, n / 2 < j → j < n → rd X j = Cx.conj (rd X (n - j))) :
    convertRangeIstft (convertRangeStft X n 2) n 2 = .ok X := by
  rw [convertRangeIstft_stft X n 2 hX]
  congr 1
  have hs := size_core_stft X n 2 hn h2 hX
  apply vec_ext _ _ (by rw [hs, hX])
  intro i hi
  rw [hs] at hi
  by_cases hlow : i ≤ n / 2
  · exact rd_core_stft_onesided_low X n hn h2 i hlow
  · rw [rd_core_stft_onesided_high X n hn h2 i (by omega) hi, hsym i (by omega) hi]

/-- for EVERY frame (no symmetry assumed) and every range `r ∈ {0,1,2}` the round trip succeeds, has `n` bins and
    agrees with `X` on the bins `0 … n/2` (the only ones `IfftPlanR::solve` reads) -/
theorem range_roundtrip_low (X : Vec α) (n r : ℕ) (hn : n % 2 = 0) (h2 : 2 ≤ n) (hX : X.size = n) (hr : r ≤ 2) :
    convertRangeIstft (convertRangeStft X n r) n r = .ok (convertRangeIstftCore (convertRangeStft X n r) n r) ∧
    (convertRangeIstftCore (convertRangeStft X n r) n r).size = n ∧
    ∀ i, i ≤ n / 2 → rd (convertRangeIstftCore (convertRangeStft X n r) n r) i = rd X i := by
  refine ⟨convertRangeIstft_stft X n r hX, size_core_stft X n r hn h2 hX, ?_⟩
  intro i hi
  have hr' : r = 0 ∨ r = 1 ∨ r = 2 := by omega
  rcases hr' with rfl | rfl | rfl
  · exact rd_core_stft_centered X n hn h2 i (by omega)
  · simp [convertRangeIstftCore, convertRangeStft]
  · exact rd_core_stft_onesided_low X n hn h2 i hi

end ranges

/-- non-vacuity: the centered round trip on a concrete 4-bin frame over `ℝ` -/
example :
    convertRangeIstft (convertRangeStft (#[⟨1, 0⟩, ⟨2, 3⟩, ⟨5, 0⟩, ⟨2, -3⟩] : Vec ℝ) 4 0) 4 0
      = .ok #[⟨1, 0⟩, ⟨2, 3⟩, ⟨5, 0⟩, ⟨2, -3⟩] :=
  range_roundtrip_centered _ 4 (by norm_num) (by norm_num) (by simp)

/-- non-vacuity of the one-sided statement: the same frame is Hermitian -/
example :
    convertRangeIstft (convertRangeStft (#[⟨1, 0⟩, ⟨2, 3⟩, ⟨5, 0⟩, ⟨2, -3⟩] : Vec ℝ) 4 2) 4 2
      = .ok #[⟨1, 0⟩, ⟨2, 3⟩, ⟨5, 0⟩, ⟨2, -3⟩] := by
  apply range_roundtrip_onesided _ 4 (by norm_num) (by norm_num) (by simp)
  intro j h1 h2
  have hj : j = 3 := by omega
  subst hj
  simp [rd, Cx.conj]

/-! ## `ifft` -/

/-- `fwd n` computes the `n`-point DFT of every `n`-vector (what `Props/C01` proves of `Fft.fftC lit`) -/
def IsDft (fwd : Nat → Vec ℝ → Vec ℝ) : Prop :=
  ∀ n (x : Vec ℝ), x.size = n → (fwd n x).size = n ∧ ∀ k < n, Cx.toC (rd (fwd n x) k) = dft n (seq x) k

theorem ifftCore_size (fwd : Nat → Vec ℝ → Vec ℝ) (x : Vec ℝ) : (ifftCore fwd x).size = x.size := by
  simp [ifftCore]

/-- `IfftPlan::solve` computes the inverse DFT -/
theorem ifftCore_eq_idft (fwd : Nat → Vec ℝ → Vec ℝ) (hF : IsDft fwd) (x : Vec ℝ) (t : ℕ) (ht : t < x.size) :
    seq (ifftCore fwd x) t = idft x.size (seq x) t := by
  have hn : 0 < x.size := by omega
  have hn' : ((x.size : ℕ) : ℂ) ≠ 0 := by exact_mod_cast hn.ne'
  unfold ifftCore seq
  simp only []
  rw [rd_mk_lt _ _ _ ht, Cx.toC_conj]
  obtain ⟨_, h2⟩ := hF x.size (mk x.size (fun i => Cx.conj (Cx.mulr (rd x i) (Fn.ofNat 1 / Fn.ofNat x.size)))) (by simp)
  rw [h2 t ht]
  unfold dft idft
  rw [map_sum, Finset.mul_sum]
  apply Finset.sum_congr rfl
  intro m hm
  have hm' := Finset.mem_range.mp hm
  unfold seq
  rw [rd_mk_lt _ _ _ hm', Cx.toC_conj, map_mul, Complex.conj_conj, toC_mulr, ω_conj]
  simp only [fn_ofNat]
  push_cast
  ring

/-- T02.1 (first half): `ifft(fft(x)) = x` for every length `n ≥ 1` (exact arithmetic, as arrays) -/
theorem ifft_fft (fwd : Nat → Vec ℝ → Vec ℝ) (hF : IsDft fwd) (x : Vec ℝ) (hx : 1 ≤ x.size) :
    ifftWith fwd (fwd x.size x) = .ok x := by
  obtain ⟨hs, hv⟩ := hF x.size x rfl
  unfold ifftWith
  rw [if_neg (by omega)]
  congr 1
  apply vec_ext _ _ (by rw [ifftCore_size, hs])
  intro i hi
  rw [ifftCore_size, hs] at hi
  apply Cx.toC_injective
  have h1 := ifftCore_eq_idft fwd hF (fwd x.size x) i (by omega)
  unfold seq at h1
  rw [h1, hs, idft_congr x.size _ (dft x.size (seq x)) (fun k hk => hv k hk), idft_dft _ (by omega) _ _ hi]
  rfl

/-- T02.1 (second half): `fft(ifft(X)) = X` for every length `n ≥ 1` -/
theorem fft_ifft (fwd : Nat → Vec ℝ → Vec ℝ) (hF : IsDft fwd) (X : Vec ℝ) (hX : 1 ≤ X.size) :
    ∃ y, ifftWith fwd X = .ok y ∧ y.size = X.size ∧ fwd X.size y = X := by
  refine ⟨ifftCore fwd X, ?_, ifftCore_size fwd X, ?_⟩
  · unfold ifftWith; rw [if_neg (by omega)]
  · obtain ⟨hs, hv⟩ := hF X.size (ifftCore fwd X) (ifftCore_size fwd X)
    apply vec_ext _ _ hs
    intro i hi
    rw [hs] at hi
    apply Cx.toC_injective
    rw [hv i hi, dft_congr X.size _ (idft X.size (seq X)) (fun k hk => ifftCore_eq_idft fwd hF X k hk), dft_idft _ (by omega) _ _ hi]
    rfl

/-- the empty input is rejected (`FftPlan(0)` throws) -/
theorem ifft_empty (fwd : Nat → Vec ℝ → Vec ℝ) : ∃ e, ifftWith fwd #[] = .error e := ⟨_, rfl⟩

/-! ## `irfft` -/

theorem toC_pack (a b : Cx ℝ) : Cx.toC ⟨a.re - b.im, -a.im - b.re⟩ = (starRingEnd ℂ) (Cx.toC a + I * Cx.toC b) := by
  apply Complex.ext <;> simp <;> ring

theorem size_irfftZ (n : ℕ) (x : Vec ℝ) : (irfftZ n x).size = n / 2 := by simp [irfftZ]

/-- cell `i` of the vector `IfftPlanR::solve` hands to the half-size plan -/
theorem toC_irfftZ (h : ℕ) (x : Vec ℝ) (i : ℕ) (hi : i < h) :
    Cx.toC (rd (irfftZ (h * 2) x) i) =
      (starRingEnd ℂ) ((seq x i + (starRingEnd ℂ) (seq x (h - i))) * ((h * 2 : ℕ) : ℂ)⁻¹
        + I * ((seq x i - (starRingEnd ℂ) (seq x (h - i))) * ((h * 2 : ℕ) : ℂ)⁻¹ * (ω (h * 2) i)⁻¹)) := by
  have hd : h * 2 / 2 = h := Nat.mul_div_cancel _ (by norm_num)
  unfold irfftZ
  simp only [hd]
  rw [rd_mk_lt _ _ _ hi, toC_pack, Cx.toC_mul, toC_mulr, toC_mulr, Cx.toC_add, Cx.toC_sub, Cx.toC_conj,
    irfftCoeff_eq (h * 2) i (by omega) (by omega)]
  unfold seq
  simp only [fn_ofNat]
  push_cast
  simp only [one_div]

/-- the two output samples `2m`, `2m+1` of `IfftPlanR::solve` for a Hermitian spectrum -/
theorem irfftCore_pair (fwd : Nat → Vec ℝ → Vec ℝ) (hF : IsDft fwd) (h : ℕ) (hh : 0 < h) (x : Vec ℝ)
    (hsym : ∀ k < h * 2, seq x ((h * 2 - k) % (h * 2)) = (starRingEnd ℂ) (seq x k)) (m : ℕ) (hm : m < h) :
    ((rdR (irfftCore fwd (h * 2) x) (2 * m) : ℝ) : ℂ) = idft (h * 2) (seq x) (2 * m) ∧
    ((rdR (irfftCore fwd (h * 2) x) (2 * m + 1) : ℝ) : ℂ) = idft (h * 2) (seq x) (2 * m + 1) := by
  have hd : h * 2 / 2 = h := Nat.mul_div_cancel _ (by norm_num)
  have hsym' : ∀ k < h, seq x (h + k) = (starRingEnd ℂ) (seq x (h - k)) := by
    intro k hk
    have := hsym (h + k) (by omega)
    rw [show h * 2 - (h + k) = h - k by omega, Nat.mod_eq_of_lt (by omega)] at this
    rw [this, Complex.conj_conj]
  obtain ⟨_, hv⟩ := hF h (irfftZ (h * 2) x) (by rw [size_irfftZ, hd])
  -- the half-size transform, conjugated, is the packed pair of output samples
  have hD : (starRingEnd ℂ) (Cx.toC (rd (fwd h (irfftZ (h * 2) x)) m)) =
      idft (h * 2) (seq x) (2 * m) + I * idft (h * 2) (seq x) (2 * m + 1) := by
    rw [hv _ hm, ← idft_even_odd h hh (seq x) m hsym']
    unfold dft
    rw [map_sum]
    apply Finset.sum_congr rfl
    intro k hk
    have hk' := mem_range.mp hk
    rw [map_mul, ω_conj]
    unfold seq
    rw [toC_irfftZ h x k hk', Complex.conj_conj]
    rfl
  have hre0 := idft_conj (h * 2) (by omega) (seq x) hsym (2 * m)
  have hre1 := idft_conj (h * 2) (by omega) (seq x) hsym (2 * m + 1)
  have him0 : (idft (h * 2) (seq x) (2 * m)).im = 0 := by
    have := congrArg Complex.im hre0; simp at this; linarith
  have him1 : (idft (h * 2) (seq x) (2 * m + 1)).im = 0 := by
    have := congrArg Complex.im hre1; simp at this; linarith
  have hDre := congrArg Complex.re hD
  have hDim := congrArg Complex.im hD
  simp at hDre hDim
  unfold irfftCore
  rw [rdR_mkR_lt _ _ _ (by omega), rdR_mkR_lt _ _ _ (by omega), hd, if_pos (by omega), if_neg (by omega),
    show 2 * m / 2 = m by omega, show (2 * m + 1) / 2 = m by omega]
  constructor
  · apply Complex.ext
    · simp; rw [hDre, him1]; ring
    · simp; exact him0.symm
  · apply Complex.ext
    · simp; rw [hDim, him0]; ring
    · simp; exact him1.symm

/-- T02.3 (core): for a Hermitian spectrum `IfftPlanR::solve` returns the (real) inverse DFT -/
theorem irfftCore_eq (fwd : Nat → Vec ℝ → Vec ℝ) (hF : IsDft fwd) (h : ℕ) (hh : 0 < h) (x : Vec ℝ)
    (hsym : ∀ k < h * 2, seq x ((h * 2 - k) % (h * 2)) = (starRingEnd ℂ) (seq x k)) (t : ℕ) (ht : t < h * 2) :
    ((rdR (irfftCore fwd (h * 2) x) t : ℝ) : ℂ) = idft (h * 2) (seq x) t := by
  have hp := irfftCore_pair fwd hF h hh x hsym (t / 2) (by omega)
  rcases Nat.mod_two_eq_zero_or_one t with hpar | hpar
  · have et : 2 * (t / 2) = t := by omega
    rw [et] at hp; exact hp.1
  · have et : 2 * (t / 2) + 1 = t := by omega
    rw [et] at hp; exact hp.2

end Ifft
end Dsp
