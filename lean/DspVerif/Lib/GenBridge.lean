import DspVerif.Gen.StepsArray
import Mathlib.Tactic.Ring
import Mathlib.Tactic.Linarith
/-!
# Lemmas shared by the bridge files `Props/C??Gen.lean`

Facts about the array primitives of the GENERATED `Gen/StepsBase.lean` / `Gen/StepsArray.lean` (`arrGet`, `arrSet`, `ptrGet`,
`ptrSet`, `arrMove`, `arrFill`, `arrNew`) at natural-number arguments, and about `Array.getD` — the form in which the bridge
proofs compare a generated loop body with a hand-written model, index by index.  No statement about the library here.
-/
namespace Dsp.GenBridge
open Dsp

theorem getD_setIfInBounds {β : Type} (a : Array β) (i j : Nat) (v d : β) :
    (a.setIfInBounds i v).getD j d = if i = j ∧ i < a.size then v else a.getD j d := by
  simp only [Array.getD_eq_getD_getElem?, Array.getElem?_setIfInBounds]
  by_cases h : i = j
  · subst h
    by_cases h2 : i < a.size
    · simp [h2]
    · simp [h2]
  · simp [h]

theorem getD_of_lt {β : Type} (a : Array β) (j : Nat) (d : β) (h : j < a.size) : a.getD j d = a[j] := by
  simp [Array.getD_eq_getD_getElem?, h]

theorem getD_of_ge {β : Type} (a : Array β) (j : Nat) (d : β) (h : a.size ≤ j) : a.getD j d = d := by
  simp [Array.getD_eq_getD_getElem?, h]

theorem ext_getD {β : Type} (d : β) (a b : Array β) (h1 : a.size = b.size) (h2 : ∀ j, j < a.size → a.getD j d = b.getD j d) :
    a = b := by
  apply Array.ext h1
  intro j hj1 hj2
  have := h2 j hj1
  simpa [Array.getD_eq_getD_getElem?, hj1, hj2] using this

theorem getD_ofFn {β : Type} (d : β) (n : Nat) (f : Fin n → β) (j : Nat) :
    (Array.ofFn f).getD j d = if h : j < n then f ⟨j, h⟩ else d := by
  simp only [Array.getD_eq_getD_getElem?]
  by_cases h : j < n
  · simp [h]
  · simp [h]

theorem getD_replicate {β : Type} (d v : β) (n j : Nat) : (Array.replicate n v).getD j d = if j < n then v else d := by
  simp only [Array.getD_eq_getD_getElem?]
  by_cases h : j < n
  · simp [h]
  · simp [h]

theorem getD_toList {β : Type} (a : Array β) (j : Nat) (d : β) : a.toList.getD j d = a.getD j d := by
  simp [Array.getD_eq_getD_getElem?, List.getD_eq_getElem?_getD]

/-! ## the generated accessors at natural-number indices -/

theorem arrGet_natCast {β : Type} (d : β) (a : Array β) (k : ℕ) : Gen.arrGet d a (k : Int) = a.getD k d := by
  simp [Gen.arrGet, Gen.arrIdx]

theorem arrSet_natCast {β : Type} (a : Array β) (k : ℕ) (v : β) : Gen.arrSet a (k : Int) v = a.setIfInBounds k v := by
  simp [Gen.arrSet, Gen.arrIdx]

theorem ptrGet_natCast {β : Type} (d : β) (a : Array β) (k : ℕ) : Gen.ptrGet d a (k : Int) = a.getD k d := by
  simp [Gen.ptrGet]

theorem ptrSet_natCast {β : Type} (a : Array β) (k : ℕ) (v : β) : Gen.ptrSet a (k : Int) v = a.setIfInBounds k v := by
  simp [Gen.ptrSet]

/-- an index expression that denotes the natural number `n`, however it is spelled -/
theorem ptrGet_eq {β : Type} (d : β) (a : Array β) (idx : Int) (n : ℕ) (h : idx = (n : Int)) : Gen.ptrGet d a idx = a.getD n d := by
  rw [h, ptrGet_natCast]

theorem ptrSet_eq {β : Type} (a : Array β) (idx : Int) (n : ℕ) (v : β) (h : idx = (n : Int)) :
    Gen.ptrSet a idx v = a.setIfInBounds n v := by
  rw [h, ptrSet_natCast]

theorem arrGet_eq {β : Type} (d : β) (a : Array β) (idx : Int) (n : ℕ) (h : idx = (n : Int)) : Gen.arrGet d a idx = a.getD n d := by
  rw [h, arrGet_natCast]

theorem arrSet_eq {β : Type} (a : Array β) (idx : Int) (n : ℕ) (v : β) (h : idx = (n : Int)) :
    Gen.arrSet a idx v = a.setIfInBounds n v := by
  rw [h, arrSet_natCast]

@[simp] theorem arrMove_size {β : Type} (a : Array β) (dst src cnt : Int) : (Gen.arrMove a dst src cnt).size = a.size := by
  simp [Gen.arrMove]

/-- `memmove` inside one array, cell by cell -/
theorem arrMove_getD {β : Type} (a : Array β) (dst src : ℕ) (cnt : Int) (j : ℕ) (d : β) (hj : j < a.size) :
    (Gen.arrMove a (dst : Int) (src : Int) cnt).getD j d =
      if dst ≤ j ∧ (j : Int) < (dst : Int) + cnt then a.getD (j - dst + src) (a.getD j d) else a.getD j d := by
  unfold Gen.arrMove
  rw [getD_ofFn, dif_pos hj]
  simp only [Int.ofNat_eq_natCast]
  by_cases h : dst ≤ j ∧ (j : Int) < (dst : Int) + cnt
  · have h' : (dst : Int) ≤ (j : Int) ∧ (j : Int) < (dst : Int) + cnt := ⟨by exact_mod_cast h.1, h.2⟩
    rw [if_pos h, if_pos h']
    have : ((j : Int) - (dst : Int) + (src : Int)).toNat = j - dst + src := by omega
    rw [this, getD_of_lt a j d hj]
    rfl
  · have h' : ¬ ((dst : Int) ≤ (j : Int) ∧ (j : Int) < (dst : Int) + cnt) := by
      intro hh; exact h ⟨by exact_mod_cast hh.1, hh.2⟩
    rw [if_neg h, if_neg h', getD_of_lt a j d hj]
    rfl

theorem arrFill_eq {β : Type} (a : Array β) (v : β) : Gen.arrFill a v = Array.replicate a.size v := rfl

/-! ## folds that write cells of an array -/

theorem foldl_set_inv {β : Type} (d : β) (F : β → Nat → β) (n : Nat) (w : Array β) (hw : w.size = n) :
    ∀ m, m ≤ n →
      ((List.range m).foldl (fun (a : Array β) i => a.setIfInBounds i (F (a.getD i d) i)) w).size = n ∧
      ∀ j, ((List.range m).foldl (fun (a : Array β) i => a.setIfInBounds i (F (a.getD i d) i)) w).getD j d =
        if j < m then F (w.getD j d) j else w.getD j d := by
  intro m
  induction m with
  | zero => intro _; simp [hw]
  | succ m ih =>
    intro hm
    obtain ⟨h1, h2⟩ := ih (by omega)
    rw [List.range_succ, List.foldl_append]
    simp only [List.foldl_cons, List.foldl_nil]
    refine ⟨by rw [Array.size_setIfInBounds]; exact h1, fun j => ?_⟩
    rw [getD_setIfInBounds, h2 m, h1]
    by_cases hj : m = j
    · subst hj
      simp; omega
    · rw [if_neg (by tauto), h2 j]
      by_cases hjm : j < m
      · simp [hjm]; omega
      · have : ¬ j < m + 1 := by omega
        simp [hjm, this]

/-- `for (i < n) a[i] = F(a[i], i);` on an array of length `n` -/
theorem foldl_set_eq_ofFn {β : Type} (d : β) (F : β → Nat → β) (n : Nat) (w : Array β) (hw : w.size = n) :
    (List.range n).foldl (fun (a : Array β) i => a.setIfInBounds i (F (a.getD i d) i)) w =
      Array.ofFn (n := n) fun i => F (w.getD i.val d) i.val := by
  obtain ⟨h1, h2⟩ := foldl_set_inv d F n w hw n (le_refl n)
  apply Array.ext
  · rw [h1, Array.size_ofFn]
  · intro i hi1 hi2
    have h3 := h2 i
    rw [Array.size_ofFn] at hi2
    rw [if_pos hi2, Array.getD_eq_getD_getElem?, Array.getElem?_eq_getElem hi1, Option.getD_some] at h3
    rw [h3, Array.getElem_ofFn]

/-- accumulating into ONE cell over an inner loop = writing the accumulated value once -/
theorem foldl_acc_cell {β : Type} (d : β) (g : β → Nat → β) (i : Nat) :
    ∀ (l : List Nat) (a : Array β),
      l.foldl (fun (a : Array β) k => a.setIfInBounds i (g (a.getD i d) k)) a =
        a.setIfInBounds i (l.foldl g (a.getD i d)) := by
  intro l
  induction l with
  | nil =>
    intro a
    simp only [List.foldl_nil]
    apply ext_getD d
    · simp
    · intro j _
      rw [getD_setIfInBounds]
      by_cases h : i = j ∧ i < a.size
      · rw [if_pos h, h.1]
      · rw [if_neg h]
  | cons x l ih =>
    intro a
    simp only [List.foldl_cons]
    rw [ih]
    by_cases hi : i < a.size
    · have : (a.setIfInBounds i (g (a.getD i d) x)).getD i d = g (a.getD i d) x := by
        rw [getD_setIfInBounds]; simp [hi]
      rw [this, Array.setIfInBounds_setIfInBounds]
    · simp only [Array.setIfInBounds_eq_of_size_le (Nat.le_of_not_lt hi)]

/-- a fold whose step rewrites ONE component (`upd` / `get`) of the state -/
theorem foldl_upd {S A ι : Type} (upd : S → A → S) (get : S → A) (step : S → ι → S) (G : S → A → ι → A)
    (h1 : ∀ s i, step s i = upd s (G s (get s) i)) (h2 : ∀ s a, get (upd s a) = a)
    (h3 : ∀ s a b, upd (upd s a) b = upd s b) (h4 : ∀ s a, G (upd s a) = G s) (h5 : ∀ s, upd s (get s) = s) :
    ∀ (l : List ι) (s : S), l.foldl step s = upd s (l.foldl (G s) (get s)) := by
  intro l
  induction l with
  | nil => intro s; simp [h5]
  | cons x l ih =>
    intro s
    simp only [List.foldl_cons]
    rw [ih, h1, h2, h3, h4]

/-- two loop bodies that agree on the counter values `k < n` give the same loop -/
theorem foldl_range_congr {β : Type} (f g : β → Nat → β) (n : Nat) (h : ∀ v k, k < n → f v k = g v k) (z : β) :
    (List.range n).foldl f z = (List.range n).foldl g z := by
  induction n generalizing z with
  | zero => rfl
  | succ n ih =>
    rw [List.range_succ, List.foldl_append, List.foldl_append]
    simp only [List.foldl_cons, List.foldl_nil]
    rw [ih (fun v k hk => h v k (by omega)), h _ n (by omega)]

@[simp] theorem arrCopy_size {β : Type} (dst : Array β) (d : Int) (src : Array β) (s cnt : Int) :
    (Gen.arrCopy dst d src s cnt).size = dst.size := by
  simp [Gen.arrCopy]

/-- `memcpy` between two arrays, cell by cell -/
theorem arrCopy_getD {β : Type} (dst src : Array β) (d s : ℕ) (cnt : Int) (j : ℕ) (z : β) (hj : j < dst.size) :
    (Gen.arrCopy dst (d : Int) src (s : Int) cnt).getD j z =
      if d ≤ j ∧ (j : Int) < (d : Int) + cnt then src.getD (j - d + s) (dst.getD j z) else dst.getD j z := by
  unfold Gen.arrCopy
  rw [getD_ofFn, dif_pos hj]
  simp only [Int.ofNat_eq_natCast]
  by_cases h : d ≤ j ∧ (j : Int) < (d : Int) + cnt
  · have h' : (d : Int) ≤ (j : Int) ∧ (j : Int) < (d : Int) + cnt := ⟨by exact_mod_cast h.1, h.2⟩
    rw [if_pos h, if_pos h']
    have : ((j : Int) - (d : Int) + (s : Int)).toNat = j - d + s := by omega
    rw [this, getD_of_lt dst j z hj]
    rfl
  · have h' : ¬ ((d : Int) ≤ (j : Int) ∧ (j : Int) < (d : Int) + cnt) := by
      intro hh; exact h ⟨by exact_mod_cast hh.1, hh.2⟩
    rw [if_neg h, if_neg h', getD_of_lt dst j z hj]
    rfl

/-- `arrCopy_getD` with the offsets given as integer expressions that denote natural numbers -/
theorem arrCopy_getD_eq {β : Type} (dst src : Array β) (di si : Int) (d s : ℕ) (cnt : Int) (j : ℕ) (z : β) (hj : j < dst.size)
    (hd : di = (d : Int)) (hs : si = (s : Int)) :
    (Gen.arrCopy dst di src si cnt).getD j z =
      if d ≤ j ∧ (j : Int) < (d : Int) + cnt then src.getD (j - d + s) (dst.getD j z) else dst.getD j z := by
  rw [hd, hs]; exact arrCopy_getD dst src d s cnt j z hj

theorem arrNew_nat {β : Type} (z : β) (n : ℕ) (i : Int) (h : i = (n : Int)) : Gen.arrNew z i = Array.replicate n z := by
  rw [h]; simp [Gen.arrNew]

/-- a loop that carries, beside its state, a position advanced by a constant: the position is an arithmetic progression -/
theorem foldl_pair_counter {A : Type} (F : A → Int → Nat → A) (c : Int) :
    ∀ (n : Nat) (a : A) (b : Int),
      (List.range n).foldl (fun (acc : A × Int) j => (F acc.1 acc.2 j, acc.2 + c)) (a, b) =
        ((List.range n).foldl (fun (a : A) (j : Nat) => F a (b + (j : Int) * c) j) a, b + (n : Int) * c) := by
  intro n
  induction n with
  | zero => intro a b; simp
  | succ n ih =>
    intro a b
    rw [List.range_succ, List.foldl_append, List.foldl_append, ih]
    simp only [List.foldl_cons, List.foldl_nil, Prod.mk.injEq, true_and]
    push_cast; ring

/-- one row of cell updates `a[base + k] = F k (a[base + k])`, `k < m` -/
theorem foldl_cell_row {β : Type} (d : β) (F : Nat → β → β) (base : Nat) (a : Array β) :
    ∀ m, ((List.range m).foldl (fun (a : Array β) k => a.setIfInBounds (base + k) (F k (a.getD (base + k) d))) a).size = a.size ∧
      ∀ j, ((List.range m).foldl (fun (a : Array β) k => a.setIfInBounds (base + k) (F k (a.getD (base + k) d))) a).getD j d =
        if base ≤ j ∧ j < base + m ∧ j < a.size then F (j - base) (a.getD j d) else a.getD j d := by
  intro m
  induction m with
  | zero =>
    refine ⟨rfl, fun j => ?_⟩
    simp only [List.range_zero, List.foldl_nil]
    rw [if_neg (by omega)]
  | succ m ih =>
    obtain ⟨h1, h2⟩ := ih
    rw [List.range_succ, List.foldl_append]
    simp only [List.foldl_cons, List.foldl_nil]
    refine ⟨by rw [Array.size_setIfInBounds]; exact h1, fun j => ?_⟩
    rw [getD_setIfInBounds, h2 j, h2 (base + m), h1]
    by_cases hj : base + m = j
    · subst hj
      by_cases hs : base + m < a.size
      · rw [if_pos ⟨rfl, hs⟩, if_neg (by omega), if_pos ⟨by omega, by omega, hs⟩]
        congr 1; omega
      · rw [if_neg (by tauto), if_neg (by omega), if_neg (by omega)]
    · rw [if_neg (by tauto)]
      by_cases hc : base ≤ j ∧ j < base + m ∧ j < a.size
      · rw [if_pos hc, if_pos ⟨hc.1, by omega, hc.2.2⟩]
      · rw [if_neg hc, if_neg (by omega)]

/-- the flat `m × n` grid of cell updates `a[i * n + k] = F i k (a[i * n + k])`: every cell is visited once -/
theorem foldl_cell_grid {β : Type} (d : β) (F : Nat → Nat → β → β) (n : Nat) (a : Array β) :
    ∀ m, ((List.range m).foldl (fun (a : Array β) i =>
            (List.range n).foldl (fun (a : Array β) k => a.setIfInBounds (i * n + k) (F i k (a.getD (i * n + k) d))) a) a).size = a.size ∧
      ∀ j, ((List.range m).foldl (fun (a : Array β) i =>
            (List.range n).foldl (fun (a : Array β) k => a.setIfInBounds (i * n + k) (F i k (a.getD (i * n + k) d))) a) a).getD j d =
        if j < m * n ∧ j < a.size then F (j / n) (j % n) (a.getD j d) else a.getD j d := by
  intro m
  induction m with
  | zero =>
    refine ⟨rfl, fun j => ?_⟩
    simp only [List.range_zero, List.foldl_nil]
    rw [if_neg (by omega)]
  | succ m ih =>
    obtain ⟨h1, h2⟩ := ih
    rw [List.range_succ, List.foldl_append]
    simp only [List.foldl_cons, List.foldl_nil]
    obtain ⟨r1, r2⟩ := foldl_cell_row d (F m) (m * n)
      ((List.range m).foldl (fun (a : Array β) i =>
            (List.range n).foldl (fun (a : Array β) k => a.setIfInBounds (i * n + k) (F i k (a.getD (i * n + k) d))) a) a) n
    refine ⟨by rw [r1, h1], fun j => ?_⟩
    rw [r2 j, h2 j, h1]
    have hsm : (m + 1) * n = m * n + n := Nat.succ_mul m n
    by_cases hc : m * n ≤ j ∧ j < m * n + n ∧ j < a.size
    · rw [if_pos hc, if_neg (by omega), if_pos ⟨by omega, hc.2.2⟩]
      have hn : 0 < n := by omega
      have hdiv : j / n = m := by
        apply Nat.div_eq_of_lt_le
        · exact hc.1
        · omega
      have hmod : j % n = j - m * n := by
        rw [Nat.mod_def, hdiv, Nat.mul_comm]
      rw [hdiv, hmod]
    · rw [if_neg hc]
      by_cases hc2 : j < m * n ∧ j < a.size
      · rw [if_pos hc2, if_pos ⟨by omega, hc2.2⟩]
      · rw [if_neg hc2, if_neg (by omega)]

end Dsp.GenBridge
