import DspVerif.Driver.Loop
import DspVerif.Driver.H14
/-! `dspdriver_c14`: model driver of property C14 -/
def main : IO Unit := Dsp.Driver.runDriver [Dsp.Driver.h14]
