import DspVerif.Driver.Loop
import DspVerif.Driver.H18
/-! `dspdriver_c18`: model driver of property C18 -/
def main : IO Unit := Dsp.Driver.runDriver [Dsp.Driver.h18]
