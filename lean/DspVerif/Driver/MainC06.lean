import DspVerif.Driver.Loop
import DspVerif.Driver.H06
/-! `dspdriver_c06`: model driver of property C06 -/
def main : IO Unit := Dsp.Driver.runDriver [Dsp.Driver.h06]
