import DspVerif.Driver.Proto
import DspVerif.Model.Window
/-! driver handlers for C11: window vectors, `fir1` impulse responses, `firtype` -/
namespace Dsp.Driver
open Dsp.Proto Dsp.Window

def winByName (fam : String) (n : Nat) (sym : Bool) (p : Float) : Option (List Float) :=
  match fam with
  | "hann" => some (hann n sym)
  | "hamming" => some (hamming n sym)
  | "blackman" => some (blackman n sym)
  | "blackmanharris" => some (blackmanharris n sym)
  | "gauss" => some (gauss n p sym)
  | "cosine" => some (cosine n sym)
  | "tukey" => some (tukey n p)
  | "kaiser" => some (kaiser n p)
  | _ => none

/-- the digest the harness prints for long windows -/
def winDigest (w : Array Float) : String :=
  let n := w.size
  let m := n / 2
  let nf := Float.ofNat n
  let (s, wm, _) := w.foldl (fun (acc : Float × Float × Nat) x =>
    (acc.1 + x, acc.2.1 + x * (Float.ofNat (acc.2.2 + 1) / nf), acc.2.2 + 1)) (0.0, 0.0, 0)
  let g (i : Nat) : Float := w[i]!
  toString n ++ " " ++ fmtFloats [g 0, g 1, g (m - 1), g m, g (n - 2), g (n - 1), g (n / 3), g ((2 * n) / 3 + 1), s / nf, wm / nf]

def h11 : List String → Option String
  | ["win", fam, n, sym, p] => do
    let w ← winByName fam (← n.toNat?) (sym == "1") (← parseF p)
    some (fmtFloatArr w.toArray)
  | ["wind", fam, n, sym, p] => do
    let w ← winByName fam (← n.toNat?) (sym == "1") (← parseF p)
    some (winDigest w.toArray)
  | "fir" :: ftype :: n :: w1 :: w2 :: haswin :: rest => do
    let ftype ← ftype.toNat?; let n ← n.toNat?; let w1 ← parseF w1; let w2 ← parseF w2
    let r ← if haswin == "1" then do
        let (win, _) ← takeFloats rest
        pure (fir1 ftype n w1 w2 win.toList)
      else pure (fir1Default ftype n w1 w2)
    match r with
    | .ok h => some (fmtFloatArr h.toArray)
    | .error _ => some "ERR"
  | "firtype" :: rest => do
    let (h, _) ← takeFloats rest
    some (toString (firtype h.toList))
  | _ => none

end Dsp.Driver
