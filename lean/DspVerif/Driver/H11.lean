import DspVerif.Driver.Proto
/-! driver handlers for C11 (stub: no correspondence cases handled yet) -/
namespace Dsp.Driver
open Dsp.Proto

def h11 : List String → Option String
  | _ => none

end Dsp.Driver
