import DspVerif.Driver.Proto
import DspVerif.Model.Slice
/-! driver handlers for C04 -/
namespace Dsp.Driver
open Dsp.Proto Dsp.Gen Dsp.Slice

def digest (l : List Int) : String :=
  let cs := (l.zipIdx.foldl (fun (acc : Nat) (p : Int × Nat) => (acc + (p.1 + 1).toNat * (p.2 + 1)) % 1000000007) 0)
  s!"{l.length} {l.headD 0} {l.getLastD 0} {cs}"

def dumpArr (a : List Int) : String := fmtIntList a

def copyArgs (which : Int) (s : BaseSlice) : Int × Int × Int × Int :=
  if which == 0 then copyArgs_const_from_const s
  else if which == 1 then copyArgs_mut_from_mut s
  else copyArgs_const_from_mut s


/-! ### value-carrying cases (`asgX`, `asgXL`, `asgvX`, `asgvXL`): array cells are IEEE bit patterns
(`UInt64`, complex = pair), moved by the model as opaque values; compared bit for bit (NaNs canonicalised
on both sides: payload-agnostic).  Contents are generated from `(mode, seed, which, i)` exactly as in
`harness/c04.cpp` (`content<T>`). -/

def pool : Array UInt64 := #[
  0x0000000000000000, 0x8000000000000000, 0x0000000000000001, 0x8000000000000001,
  0x000fffffffffffff, 0x800fffffffffffff, 0x0010000000000000, 0x8010000000000000,
  0x7fefffffffffffff, 0xffefffffffffffff, 0x7ff0000000000000, 0xfff0000000000000,
  0x7ff8000000000000, 0xfff8000000000001, 0x7ff0000000000001, 0x7ff4000000abcdef,
  0x3ff0000000000000, 0xbff0000000000000, 0x3ff0000000000001, 0x3fefffffffffffff,
  0x01a56e1fc2f8f359, 0x3c670ef54646d497, 0x3e45798ee2308c3a, 0x4197d78400000000,
  0x54b249ad2594c37d, 0xd4b249ad2594c37d, 0x4330000000000000, 0x4340000000000001,
  0x3fb999999999999a, 0x401e000000000000, 0xc059000000000000, 0x0008000000000000]

def mix64 (z : UInt64) : UInt64 :=
  let z := (z ^^^ (z >>> 30)) * 0xbf58476d1ce4e5b9
  let z := (z ^^^ (z >>> 27)) * 0x94d049bb133111eb
  z ^^^ (z >>> 31)

def hash2 (seed i : UInt64) : UInt64 :=
  mix64 (seed * 0x9e3779b97f4a7c15 + i * 0xd1b54a32d192ed03 + 0x632be59bd9b4e019)

/-- 1/4 special values of the pool, 3/4 arbitrary 64-bit patterns -/
def valbits (seed i : UInt64) : UInt64 :=
  let h := hash2 seed i
  if h &&& 3 == 0 then pool.getD ((h >>> 2) % pool.size.toUInt64).toNat 0 else h

/-- long runs of +0 / -0 (37 cells each) with 1/16 other values sprinkled in -/
def zerorun (seed i : UInt64) : UInt64 :=
  let h := hash2 seed i
  if h &&& 15 == 0 then valbits (seed + 77) i
  else if (i / 37 + seed) &&& 1 == 1 then 0x8000000000000000 else 0

def cell (mode : Int) (seed i : UInt64) : UInt64 := if mode == 2 then zerorun seed i else valbits seed i

/-- one array cell: the bit patterns of its (real, imaginary) parts; `im = 0` for real arrays -/
structure Elt where
  re : UInt64
  im : UInt64
deriving Inhabited

def fbits (i : Int) : UInt64 := (Float.ofInt i).toBits

def content (cplx : Bool) (mode : Int) (seed : UInt64) (which : UInt64) (i : Nat) : Elt :=
  if mode == 0 then
    if which == 0 then ⟨fbits i, if cplx then fbits (-(i : Int)) else 0⟩
    else ⟨fbits (-1 - (i : Int)), if cplx then fbits (1 + (i : Int)) else 0⟩
  else
    let s := seed * 2 + which
    if cplx then ⟨cell mode s (2 * i.toUInt64), cell mode s (2 * i.toUInt64 + 1)⟩ else ⟨cell mode s i.toUInt64, 0⟩

def mkArr (cplx : Bool) (mode : Int) (seed which : UInt64) (n : Nat) : Array Elt :=
  (Array.range n).map (content cplx mode seed which)

def canonB (b : UInt64) : UInt64 :=
  if (b &&& 0x7ff0000000000000 == 0x7ff0000000000000) && (b &&& 0x000fffffffffffff != 0) then 0x7ff8000000000000 else b

def fmtB (b : UInt64) : String :=
  let b := canonB b
  "b" ++ String.ofList ((List.range 16).map (fun i => hexChar ((b >>> (4 * (15 - i)).toUInt64) &&& 0xF)))

def parseB (s : String) : Option UInt64 :=
  match s.toList with
  | 'b' :: ds => if ds.length ≠ 16 then none else ds.foldlM (fun (acc : UInt64) c => (hexDigit c).map (fun d => acc * 16 + d)) 0
  | _ => none

def fmtElts (cplx : Bool) (a : Array Elt) : String :=
  a.foldl (fun s e => s ++ " " ++ fmtB e.re ++ (if cplx then " " ++ fmtB e.im else "")) (toString a.size)

def digestElts (cplx : Bool) (a : Array Elt) : String :=
  let cs := a.foldl (fun (cs : UInt64) e =>
    let cs := cs * 0x100000001b3 + canonB e.re + 1
    if cplx then cs * 0x100000001b3 + canonB e.im + 1 else cs) 0xcbf29ce484222325
  s!"{a.size} {cs}"

def outElts (big cplx : Bool) (r : Except String (Array Elt)) : String :=
  match r with
  | .ok a => if big then digestElts cplx a else fmtElts cplx a
  | .error _ => "ERR"

def asgX (big : Bool) (args : List String) : Option String :=
  match args with
  | [cplx, mode, seed, n, d1, d2, dm, same, n2, s1, s2, sm, _via] => do
    let cplx := (← parseI cplx) == 1; let mode ← parseI mode; let seed := (← seed.toNat?).toUInt64
    let n ← parseI n; let n2 ← parseI n2; let same ← parseI same
    let x := mkArr cplx mode seed 0 n.toNat
    let other := mkArr cplx mode seed 1 n2.toNat
    let srcArr := if same == 1 then x else other
    let ns := if same == 1 then n else n2
    match BaseSlice.ctor n (← parseI d1) (← parseI d2) (← parseI dm), BaseSlice.ctor ns (← parseI s1) (← parseI s2) (← parseI sm) with
    | .ok d, .ok s => some (outElts big cplx (assignSliceA x srcArr d s))
    | _, _ => some "ERR"
  | _ => none

def asgvX (big : Bool) (args : List String) : Option String :=
  match args with
  | [cplx, mode, seed, n, d1, d2, dm, kind, len, sre, sim] => do
    let cplx := (← parseI cplx) == 1; let mode ← parseI mode; let seed := (← seed.toNat?).toUInt64
    let n ← parseI n; let kind ← parseI kind; let len ← parseI len
    let sc : Elt := ⟨← parseB sre, ← parseB sim⟩
    let x := mkArr cplx mode seed 0 n.toNat
    match BaseSlice.ctor n (← parseI d1) (← parseI d2) (← parseI dm) with
    | .error _ => some "ERR"
    | .ok d =>
      if kind == 0 then some (outElts big cplx (.ok (fillA x d sc)))
      else
        let rhs := mkArr cplx mode seed 1 len.toNat
        some (outElts big cplx (if kind == 2 then assignListA x d rhs.toList else assignArrayA x d rhs))
  | _ => none

def h04 : List String → Option String
  | ["slice", n, i1, i2, m] => do
    let r := slice (← parseI n) (← parseI i1) (← parseI i2) (← parseI m)
    match r with
    | .ok l => some (fmtIntList l)
    | .error _ => some "ERR"
  | ["sliceL", n, i1, i2, m] => do
    let r := slice (← parseI n) (← parseI i1) (← parseI i2) (← parseI m)
    match r with
    | .ok l => some (digest l)
    | .error _ => some "ERR"
  | ["copy", w, n, i1, i2, m] => do
    match BaseSlice.ctor (← parseI n) (← parseI i1) (← parseI i2) (← parseI m) with
    | .error _ => some "ERR"
    | .ok s =>
      let (a, b, c, d) := copyArgs (← parseI w) s
      match BaseSlice.ctor a b c d with
      | .ok s' => some (fmtIntList (indices s'))
      | .error _ => some "ERR"
  | ["asg", n, d1, d2, dm, same, n2, s1, s2, sm] => do
    let n ← parseI n; let n2 ← parseI n2; let same ← parseI same
    let x : List Int := (List.range n.toNat).map (fun (i : Nat) => (i : Int))
    let other : List Int := (List.range n2.toNat).map (fun (i : Nat) => (100 + i : Int))
    let srcArr := if same == 1 then x else other
    let ns := if same == 1 then n else n2
    match BaseSlice.ctor n (← parseI d1) (← parseI d2) (← parseI dm), BaseSlice.ctor ns (← parseI s1) (← parseI s2) (← parseI sm) with
    | .ok d, .ok s =>
      match assignSlice x srcArr d s with
      | .ok r => some (dumpArr r)
      | .error _ => some "ERR"
    | _, _ => some "ERR"
  | ["asgv", n, d1, d2, dm, kind, len] => do
    let n ← parseI n; let kind ← parseI kind; let len ← parseI len
    let x : List Int := (List.range n.toNat).map (fun (i : Nat) => (i : Int))
    match BaseSlice.ctor n (← parseI d1) (← parseI d2) (← parseI dm) with
    | .error _ => some "ERR"
    | .ok d =>
      if kind == 0 then some (dumpArr (fill x d 200))
      else
        let vals : List Int := (List.range len.toNat).map (fun (i : Nat) => (200 + i : Int))
        let r := if kind == 1 then assignArray x d vals else assignList x d vals
        match r with
        | .ok r => some (dumpArr r)
        | .error _ => some "ERR"
  | "asgX" :: args => asgX false args
  | "asgXL" :: args => asgX true args
  | "asgvX" :: args => asgvX false args
  | "asgvXL" :: args => asgvX true args
  | _ => none

end Dsp.Driver
