import DspVerif.Driver.Proto
import DspVerif.Model.Slice
/-! driver handlers for C04 -/
namespace Dsp.Driver
open Dsp.Proto Dsp.Gen Dsp.Slice

def digest (l : List Int) : String :=
  let cs := (l.zipIdx.foldl (fun (acc : Nat) (p : Int × Nat) => (acc + (p.1 + 1).toNat * (p.2 + 1)) % 1000000007) 0)
  s!"{l.length} {l.headD 0} {l.getLastD 0} {cs}"

def dumpArr (a : List Int) : String := fmtIntList a

def copyArgs (which : Int) (s : BaseSlice) : Int × Int × Int × Int :=
  if which == 0 then copyArgs_const_from_const s
  else if which == 1 then copyArgs_mut_from_mut s
  else copyArgs_const_from_mut s

def h04 : List String → Option String
  | ["slice", n, i1, i2, m] => do
    let r := slice (← parseI n) (← parseI i1) (← parseI i2) (← parseI m)
    match r with
    | .ok l => some (fmtIntList l)
    | .error _ => some "ERR"
  | ["sliceL", n, i1, i2, m] => do
    let r := slice (← parseI n) (← parseI i1) (← parseI i2) (← parseI m)
    match r with
    | .ok l => some (digest l)
    | .error _ => some "ERR"
  | ["copy", w, n, i1, i2, m] => do
    match BaseSlice.ctor (← parseI n) (← parseI i1) (← parseI i2) (← parseI m) with
    | .error _ => some "ERR"
    | .ok s =>
      let (a, b, c, d) := copyArgs (← parseI w) s
      match BaseSlice.ctor a b c d with
      | .ok s' => some (fmtIntList (indices s'))
      | .error _ => some "ERR"
  | ["asg", n, d1, d2, dm, same, n2, s1, s2, sm] => do
    let n ← parseI n; let n2 ← parseI n2; let same ← parseI same
    let x : List Int := (List.range n.toNat).map (fun (i : Nat) => (i : Int))
    let other : List Int := (List.range n2.toNat).map (fun (i : Nat) => (100 + i : Int))
    let srcArr := if same == 1 then x else other
    let ns := if same == 1 then n else n2
    match BaseSlice.ctor n (← parseI d1) (← parseI d2) (← parseI dm), BaseSlice.ctor ns (← parseI s1) (← parseI s2) (← parseI sm) with
    | .ok d, .ok s =>
      match assignSlice x srcArr d s with
      | .ok r => some (dumpArr r)
      | .error _ => some "ERR"
    | _, _ => some "ERR"
  | ["asgv", n, d1, d2, dm, kind, len] => do
    let n ← parseI n; let kind ← parseI kind; let len ← parseI len
    let x : List Int := (List.range n.toNat).map (fun (i : Nat) => (i : Int))
    match BaseSlice.ctor n (← parseI d1) (← parseI d2) (← parseI dm) with
    | .error _ => some "ERR"
    | .ok d =>
      if kind == 0 then some (dumpArr (fill x d 200))
      else
        let vals : List Int := (List.range len.toNat).map (fun (i : Nat) => (200 + i : Int))
        let r := if kind == 1 then assignArray x d vals else assignList x d vals
        match r with
        | .ok r => some (dumpArr r)
        | .error _ => some "ERR"
  | _ => none

end Dsp.Driver
