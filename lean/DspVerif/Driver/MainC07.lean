import DspVerif.Driver.Loop
import DspVerif.Driver.H07
/-! `dspdriver_c07`: model driver of property C07 -/
def main : IO Unit := Dsp.Driver.runDriver [Dsp.Driver.h07]
