import DspVerif.Driver.Proto
import DspVerif.Model.Spectrum
/-! driver handlers for C13: `welch` (real / complex, both scalings, explicit and default overloads), the two frequency axes,
`mscohere` — the models of `Model/Spectrum.lean` run at `Float` on top of C01's transform model -/
namespace Dsp.Driver
open Dsp.Proto Dsp.Fft Dsp.Spectrum

/-- the literals of the small kernels as written in the source (regenerated) -/
def lits13 : Lits Float := ⟨Gen.fft8_c0, Gen.rfft8_c0, Gen.dft3_c0⟩

def fftR13 (n : Nat) (x : Array Float) : Array (Cx Float) := fftRN lits13 n x
def fftC13 (n : Nat) (x : Array (Cx Float)) : Array (Cx Float) := fftCN lits13 n x

def outArr : Except String (Array Float) → String
  | .ok a => fmtFloatArr a
  | .error _ => "ERR"

def h13 : List String → Option String
  | "wR" :: psd :: nov :: nfft :: rest => do
    let psd ← psd.toNat?
    let nov ← parseI nov
    let nfft ← parseI nfft
    let (x, rest) ← takeFloats rest
    let (w, _) ← takeFloats rest
    some (outArr ((welchR fftR13 x w nov nfft (psd == 1)).map (·.1)))
  | "wC" :: psd :: nov :: nfft :: rest => do
    let psd ← psd.toNat?
    let nov ← parseI nov
    let nfft ← parseI nfft
    let (x, rest) ← takeCxs rest
    let (w, _) ← takeFloats rest
    some (outArr ((welchC fftC13 x w nov nfft (psd == 1)).map (·.1)))
  | "wRd" :: psd :: rest => do
    let psd ← psd.toNat?
    let (x, rest) ← takeFloats rest
    let (w, _) ← takeFloats rest
    some (outArr ((welchRDefault fftR13 x w (psd == 1)).map (·.1)))
  | "wCd" :: psd :: rest => do
    let psd ← psd.toNat?
    let (x, rest) ← takeCxs rest
    let (w, _) ← takeFloats rest
    some (outArr ((welchCDefault fftC13 x w (psd == 1)).map (·.1)))
  | "fR" :: nfft :: _ => do
    let nfft ← nfft.toNat?
    some (fmtFloatArr (freqR nfft))
  | "fC" :: nfft :: _ => do
    let nfft ← nfft.toNat?
    some (fmtFloatArr (freqC nfft))
  | "coh" :: nov :: nfft :: rest => do
    let nov ← parseI nov
    let nfft ← parseI nfft
    let (x, rest) ← takeFloats rest
    let (y, rest) ← takeFloats rest
    let (w, _) ← takeFloats rest
    some (outArr (mscohere fftR13 x y w nov nfft))
  | "cohd" :: rest => do
    let (x, rest) ← takeFloats rest
    let (y, rest) ← takeFloats rest
    let (w, _) ← takeFloats rest
    some (outArr (mscohereDefault fftR13 x y w))
  | _ => none

end Dsp.Driver
