import DspVerif.Driver.Proto
/-! driver handlers for C12 (stub: no correspondence cases handled yet) -/
namespace Dsp.Driver
open Dsp.Proto

def h12 : List String → Option String
  | _ => none

end Dsp.Driver
