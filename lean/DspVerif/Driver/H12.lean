import DspVerif.Driver.Proto
import DspVerif.Model.Adaptive
/-! driver handlers for C12: `LmsFilter<T>` / `RlsFilter<T>` models at `Float`.

Case layout
* `lms <cx> <nlms> <len> <mu> <leak> <mode> <nframes> { <lock> <x> <d> }*`
* `rls <cx> <len> <forget> <diag_load> <mode> <nframes> { <lock> <x> <d> }*`

`<x>`, `<d>`: `k v1 … vk` (real) or `k re1 im1 …` (complex).  One filter object is constructed; per frame
`set_lock_coeffs(lock)` then `process(x, d)` (state persists).
Output, `mode = 0`: per frame `y e coeffs()` — or `ERR coeffs()` when `process` throws (`len(x) != len(d)`);
`mode = 1`: `coeffs()` after the last frame only;
`mode = 2` (long single calls): per frame the digest `pick y`, `pick e` (every 4093rd and the last element) — or `ERR` —
and `coeffs()` after the last frame. -/
namespace Dsp.Driver
open Dsp.Proto Dsp.Adaptive

/-- `nframes` frames `lock x d` -/
def takeAFrames {τ : Type} (take : List String → Option (Array τ × List String)) :
    Nat → List String → Option (List (Bool × Array τ × Array τ))
  | 0, [] => some []
  | 0, _ => none
  | n + 1, lk :: toks => do
    let (x, r1) ← take toks
    let (d, r2) ← take r1
    let t ← takeAFrames take n r2
    pure ((lk == "1", x, d) :: t)
  | _ + 1, [] => none

/-- indices of the digest of an array of size `n`: `0, 4093, 2·4093, …` and `n - 1` -/
def digestIdx (n : Nat) : List Nat :=
  let base := (List.range ((n + 4092) / 4093)).map (· * 4093)
  if n > 0 ∧ (n - 1) % 4093 ≠ 0 then base ++ [n - 1] else base

def pick {τ : Type} (a : Array τ) : Array τ := ((digestIdx a.size).filterMap (a[·]?)).toArray

/-- run the frames through `step : state → lock → x → d → Except (state × y × e)`; `co` = `coeffs()` -/
def runAFrames {σ τ : Type} (fmt : Array τ → String) (mode : Nat)
    (step : σ → Bool → Array τ → Array τ → Except String (σ × Array τ × Array τ)) (co : σ → Array τ)
    (s0 : σ) (frames : List (Bool × Array τ × Array τ)) : String :=
  let (sN, outs) := frames.foldl (fun (acc : σ × List String) f =>
    match step acc.1 f.1 f.2.1 f.2.2 with
    | .ok (s', y, e) =>
      (s', if mode = 2 then fmt (pick e) :: fmt (pick y) :: acc.2 else fmt (co s') :: fmt e :: fmt y :: acc.2)
    | .error _ => (acc.1, if mode = 2 then "ERR" :: acc.2 else fmt (co acc.1) :: "ERR" :: acc.2)) (s0, [])
  if mode = 1 then fmt (co sN)
  else if mode = 2 then String.intercalate " " (outs.reverse ++ [fmt (co sN)])
  else String.intercalate " " outs.reverse

def h12 : List String → Option String
  | "lms" :: cx :: nlms :: len :: mu :: leak :: mode :: nf :: rest => do
    let len ← len.toNat?; let mu ← parseF mu; let leak ← parseF leak; let mode ← mode.toNat?; let nf ← nf.toNat?
    let p : LmsP Float := ⟨len, mu, nlms == "1", leak⟩
    if cx == "1" then
      let frames ← takeAFrames takeCxs nf rest
      some (runAFrames fmtCxArr mode (fun (s : LmsState (Cx Float)) lk x d => lmsProcess p (s.setLock lk) x d)
        (fun s => s.coeffs) (lmsInit p) frames)
    else
      let frames ← takeAFrames takeFloats nf rest
      some (runAFrames fmtFloatArr mode (fun (s : LmsState Float) lk x d => lmsProcess p (s.setLock lk) x d)
        (fun s => s.coeffs) (lmsInit p) frames)
  | "rls" :: cx :: len :: lam :: dl :: mode :: nf :: rest => do
    let len ← len.toNat?; let lam ← parseF lam; let dl ← parseF dl; let mode ← mode.toNat?; let nf ← nf.toNat?
    let P : RlsP Float := ⟨len, lam⟩
    if cx == "1" then
      let frames ← takeAFrames takeCxs nf rest
      some (runAFrames fmtCxArr mode (fun (s : RlsState (Cx Float)) lk x d => rlsProcess P (s.setLock lk) x d)
        (fun s => s.coeffs) (rlsInit P dl) frames)
    else
      let frames ← takeAFrames takeFloats nf rest
      some (runAFrames fmtFloatArr mode (fun (s : RlsState Float) lk x d => rlsProcess P (s.setLock lk) x d)
        (fun s => s.coeffs) (rlsInit P dl) frames)
  | _ => none

end Dsp.Driver
