import DspVerif.Driver.Proto
import DspVerif.Model.Fft
import DspVerif.Model.Hilbert
/-! driver handlers for C14: `hilbert`, `HilbertFilter`, `Delay`, `Tuner` models at `Float`.

The transform parameters of `hilbert` / `design_fir` are instantiated with the C01 model of the library's plans
(`Fft.fftR`, `Fft.ifftWith (Fft.fftC …)` = `IfftPlan::solve`). -/
namespace Dsp.Driver.C14
open Dsp.Proto Dsp.Hilbert

/-- the literals of the small kernels as written in the source (regenerated) -/
def lits : Fft.Lits Float := ⟨Gen.fft8_c0, Gen.rfft8_c0, Gen.dft3_c0⟩

/-- `fft(const arr_real&)` -/
def fftF (x : Array Float) : Array (Cx Float) := Fft.fftR lits x.size x
/-- `ifft(const arr_cmplx&)` = `IfftPlan(n).solve` -/
def ifftF (X : Array (Cx Float)) : Array (Cx Float) := Fft.ifftWith (Fft.fftC lits X.size) X.size X

/-- generator shared with `harness/c14.cpp` (`mix`, `gen_re`, `gen_im`) -/
def mix (m s : UInt64) : UInt64 :=
  let z := (m + 1) * 0x9e3779b97f4a7c15 + s * 0xbf58476d1ce4e5b9
  let z := z ^^^ (z >>> 29)
  let z := z * 0x94d049bb133111eb
  z ^^^ (z >>> 32)

def genRe (m s : UInt64) : Float := (Float.ofNat ((mix m s) % 4001).toNat - 2000.0) / 2048.0
def genIm (m s : UInt64) : Float := (Float.ofNat (((mix m s) >>> 20) % 4001).toNat - 2000.0) / 2048.0

/-- `digest` of `harness/c14.cpp`: 8 bins + 4 weighted sums -/
def digest (y : Array (Cx Float)) : String :=
  let n := y.size
  let z : Cx Float := ⟨0.0, 0.0⟩
  let bins := (List.range 8).map (fun i =>
    let k := ((i * n) / 8 + (i % 3)) % n
    let v := y.getD k z
    fmtF v.re ++ " " ++ fmtF v.im)
  let init : Array Float := #[0.0, 0.0, 0.0, 0.0, 0.0, 0.0, 0.0, 0.0]
  let acc := (List.range n).foldl (fun (a : Array Float) k =>
    let v := y.getD k z
    let g0 : Float := 1.0
    let g1 : Float := if k % 2 == 1 then -1.0 else 1.0
    let g2 : Float := Float.ofNat (k % 7) - 3.0
    let g3 : Float := Float.ofNat ((k * k) % 5) - 2.0
    #[a[0]! + v.re * g0, a[1]! + v.im * g0, a[2]! + v.re * g1, a[3]! + v.im * g1,
      a[4]! + v.re * g2, a[5]! + v.im * g2, a[6]! + v.re * g3, a[7]! + v.im * g3]) init
  toString n ++ " " ++ String.intercalate " " bins ++ " " ++ fmtFloats acc.toList

def takeFramesF : Nat → List String → Option (List (Array Float) × List String)
  | 0, r => some ([], r)
  | n + 1, r => do
    let (x, r) ← takeFloats r
    let (xs, r) ← takeFramesF n r
    pure (x :: xs, r)

def takeFramesC : Nat → List String → Option (List (Array (Cx Float)) × List String)
  | 0, r => some ([], r)
  | n + 1, r => do
    let (x, r) ← takeCxs r
    let (xs, r) ← takeFramesC n r
    pure (x :: xs, r)

/-- thread a processor state through the frames of one case, formatting every frame's output; `none` = exception -/
def runFrames {σ γ : Type} (step : σ → γ → Option (σ × String)) (s : σ) (frames : List γ) : String :=
  let r := frames.foldl (fun (acc : Option (σ × List String)) fr =>
    match acc with
    | none => none
    | some a => match step a.1 fr with
      | none => none
      | some q => some (q.1, q.2 :: a.2)) (some (s, []))
  match r with
  | none => "ERR"
  | some a => String.intercalate " " a.2.reverse

def fmtE (r : Except String (Array (Cx Float))) : String :=
  match r with
  | .ok y => fmtCxArr y
  | .error _ => "ERR"

/-- indices of a long tuner stream whose outputs are compared (`tun_sel` of the harness) -/
def tunSel (k total fs stride : Nat) : Bool :=
  let m := k % fs
  k % stride == 0 || m == 0 || m == 1 || m == fs - 1 || k + 2 ≥ total

def h14 : List String → Option String
  | "hilb" :: rest => do
    let (x, _) ← takeFloats rest
    some (fmtE (hilbert fftF ifftF x))
  | "hilbg" :: n :: s :: _ => do
    let n ← n.toNat?
    let s ← s.toNat?
    let x : Array Float := Array.ofFn (n := n) (fun i => genRe i.val.toUInt64 s.toUInt64)
    match hilbert fftF ifftF x with
    | .ok y => some (digest y)
    | .error _ => some "ERR"
  | "hilbn" :: np :: rest => do
    let np ← np.toNat?
    let (x, _) ← takeFloats rest
    some (fmtE (hilbertN fftF ifftF x np))
  | "hfd" :: flen :: tw :: _ => do
    let flen ← flen.toNat?
    let tw ← parseF tw
    match hfNew ifftF flen tw with
    | .ok s => some (fmtFloatArr (hfImpz s))
    | .error _ => some "ERR"
  | "hfp" :: rest => do
    let (h, rest) ← takeFloats rest
    let nf ← (← rest.head?).toNat?
    let (frames, _) ← takeFramesF nf rest.tail
    match hfInit h with
    | .ok s => some (runFrames (fun s x => let r := hfProcess s x; some (r.1, fmtCxArr r.2)) s frames)
    | .error _ => some "ERR"
  | "dlyR" :: nd :: rest => do
    let nd ← nd.toNat?
    let nf ← (← rest.head?).toNat?
    let (frames, _) ← takeFramesF nf rest.tail
    some (runFrames (fun s x => match delayProcessE s x with
      | .ok r => some (r.1, fmtFloatArr r.2)
      | .error _ => none) (delayInit (0.0 : Float) nd) frames)
  | "dlyC" :: nd :: rest => do
    let nd ← nd.toNat?
    let nf ← (← rest.head?).toNat?
    let (frames, _) ← takeFramesC nf rest.tail
    some (runFrames (fun s x => match delayProcessE s x with
      | .ok r => some (r.1, fmtCxArr r.2)
      | .error _ => none) (delayInit (⟨0.0, 0.0⟩ : Cx Float) nd) frames)
  | "dlyI" :: rest => do
    let (ini, rest) ← takeFloats rest
    let nf ← (← rest.head?).toNat?
    let (frames, _) ← takeFramesF nf rest.tail
    some (runFrames (fun s x => match delayProcessE s x with
      | .ok r => some (r.1, fmtFloatArr r.2)
      | .error _ => none) (delayInitWith ini) frames)
  | "dlyJ" :: rest => do
    let (ini, rest) ← takeCxs rest
    let nf ← (← rest.head?).toNat?
    let (frames, _) ← takeFramesC nf rest.tail
    some (runFrames (fun s x => match delayProcessE s x with
      | .ok r => some (r.1, fmtCxArr r.2)
      | .error _ => none) (delayInitWith ini) frames)
  | "tunx" :: fs :: f :: rest => do
    let fs ← fs.toNat?
    let f ← parseF f
    let nf ← (← rest.head?).toNat?
    let (frames, _) ← takeFramesC nf rest.tail
    match tunerInit fs f with
    | .ok s => some (runFrames (fun s x => let r := tunerProcess s x; some (r.1, fmtCxArr r.2)) s frames)
    | .error _ => some "ERR"
  | "tun" :: fs :: f :: sd :: stride :: nf :: rest => do
    let fs ← fs.toNat?
    let f ← parseF f
    let sd ← sd.toNat?
    let stride ← stride.toNat?
    let nf ← nf.toNat?
    let lens ← (rest.take nf).mapM (fun t => t.toNat?)
    match tunerInit fs f with
    | .error _ => some "ERR"
    | .ok s0 =>
      let total := lens.foldl (· + ·) 0
      -- frames of the generated stream x[k] = (genRe k sd, genIm k sd)
      let r := lens.foldl (fun (acc : TunerState Float × Nat × Array String) l =>
        let s := acc.1
        let p := acc.2.1
        let x : Array (Cx Float) := Array.ofFn (n := l) (fun i => ⟨genRe (p + i.val).toUInt64 sd.toUInt64, genIm (p + i.val).toUInt64 sd.toUInt64⟩)
        let q := tunerProcess s x
        let toks := (List.range l).foldl (fun (t : Array String) i =>
          if tunSel (p + i) total fs stride then
            let v := q.2.getD i ⟨0.0, 0.0⟩
            t.push (fmtF v.re ++ " " ++ fmtF v.im)
          else t) acc.2.2
        (q.1, p + l, toks)) (s0, 0, #[])
      let toks := r.2.2
      some (if toks.isEmpty then "0" else toString toks.size ++ " " ++ String.intercalate " " toks.toList)
  | "tunk" :: fs :: f :: sd :: per :: k0 :: n :: _ => do
    -- 64 (= n) consecutive outputs of a long stream, from the counter value itself: after `k0` samples the 64-bit counter is
    -- `k0` (fractional f: never reset) resp. `k0 mod fs` (integral f: reset at every multiple of fs); input x[k] = gen(k mod per, sd)
    let fs ← fs.toNat?
    let f ← parseF f
    let sd ← sd.toNat?
    let per ← per.toNat?
    let k0 ← k0.toNat?
    let n ← n.toNat?
    match tunerInit fs f with
    | .error _ => some "ERR"
    | .ok s0 =>
      let s : TunerState Float := { s0 with phase := if s0.periodic then k0 % fs else k0 }
      let x : Array (Cx Float) := Array.ofFn (n := n) (fun i =>
        let j := ((k0 + i.val) % per).toUInt64
        ⟨genRe j sd.toUInt64, genIm j sd.toUInt64⟩)
      some (fmtCxArr (tunerProcess s x).2)
  | "hfg" :: rest => do
    -- HilbertFilter(taps) on the generated stream x[k] = genRe k sd * sc cut into the given frames; digest of the concatenated output
    let (h, rest) ← takeFloats rest
    match rest with
    | sc :: sd :: nf :: rest =>
      let sc ← parseF sc
      let sd ← sd.toNat?
      let nf ← nf.toNat?
      let lens ← (rest.take nf).mapM (fun t => t.toNat?)
      match hfInit h with
      | .error _ => some "ERR"
      | .ok s0 =>
        let r := lens.foldl (fun (acc : HfState Float × Nat × Array (Cx Float)) l =>
          let p := acc.2.1
          let x : Array Float := Array.ofFn (n := l) (fun i => genRe (p + i.val).toUInt64 sd.toUInt64 * sc)
          let q := hfProcess acc.1 x
          (q.1, p + l, acc.2.2 ++ q.2)) (s0, 0, #[])
        some (digest r.2.2)
    | _ => none
  | "dlygR" :: nd :: sc :: sd :: nf :: rest => do
    let nd ← nd.toNat?
    let sc ← parseF sc
    let sd ← sd.toNat?
    let nf ← nf.toNat?
    let lens ← (rest.take nf).mapM (fun t => t.toNat?)
    let r := lens.foldl (fun (acc : Option (DelayState Float × Nat × Array (Cx Float))) l =>
      match acc with
      | none => none
      | some a =>
        let p := a.2.1
        let x : Array Float := Array.ofFn (n := l) (fun i => genRe (p + i.val).toUInt64 sd.toUInt64 * sc)
        match delayProcessE a.1 x with
        | .error _ => none
        | .ok q => some (q.1, p + l, a.2.2 ++ q.2.map (fun v => (⟨v, 0.0⟩ : Cx Float)))) (some (delayInit (0.0 : Float) nd, 0, #[]))
    match r with
    | none => some "ERR"
    | some a => some (digest a.2.2)
  | "dlygC" :: nd :: sc :: sd :: nf :: rest => do
    let nd ← nd.toNat?
    let sc ← parseF sc
    let sd ← sd.toNat?
    let nf ← nf.toNat?
    let lens ← (rest.take nf).mapM (fun t => t.toNat?)
    let r := lens.foldl (fun (acc : Option (DelayState (Cx Float) × Nat × Array (Cx Float))) l =>
      match acc with
      | none => none
      | some a =>
        let p := a.2.1
        let x : Array (Cx Float) := Array.ofFn (n := l) (fun i =>
          ⟨genRe (p + i.val).toUInt64 sd.toUInt64 * sc, genIm (p + i.val).toUInt64 sd.toUInt64 * sc⟩)
        match delayProcessE a.1 x with
        | .error _ => none
        | .ok q => some (q.1, p + l, a.2.2 ++ q.2)) (some (delayInit (⟨0.0, 0.0⟩ : Cx Float) nd, 0, #[]))
    match r with
    | none => some "ERR"
    | some a => some (digest a.2.2)
  | _ => none

end Dsp.Driver.C14

namespace Dsp.Driver
def h14 : List String → Option String := Dsp.Driver.C14.h14
end Dsp.Driver
