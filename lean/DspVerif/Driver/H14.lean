import DspVerif.Driver.Proto
/-! driver handlers for C14 (stub: no correspondence cases handled yet) -/
namespace Dsp.Driver
open Dsp.Proto

def h14 : List String → Option String
  | _ => none

end Dsp.Driver
