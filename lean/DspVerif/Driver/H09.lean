import DspVerif.Driver.Proto
import DspVerif.Model.Conc
import DspVerif.Model.Lru
/-! driver handlers for C09:
* `footprint <kind>`  — the lists of the model's footprint table (Model/Conc.lean), sorted
* `rng <threads> <n> <t:kS | t:uN | t:vN>…` — an interleaving of rng(S) / N draws of rand() over per-thread mt19937 engines
* `keys <cap> <n> <op>…` — final plan-cache keys of ONE thread, computed from its own calls only (Model/Lru.lean);
  the ops include calls that throw (`e`/`m` irfft with odd n / wrong spectrum size, `T`/`Q` const solve with a wrong-size input)
  and single calls with lengths above 2^16
* `fpenv <kind> <calls>` — how many calls of this kind change the caller's floating-point environment (table `writesFpEnv`: none)
* `scenario <threads> (<n> <op>…)…` — is the sharing pattern of the scenario admitted by the table (`exclusive`)? -/
namespace Dsp.Driver
open Dsp.Proto Dsp.Conc

def insertStr (a : String) : List String → List String
  | [] => [a]
  | b :: l => if a < b || a == b then a :: b :: l else b :: insertStr a l

def sortStr (l : List String) : List String := l.foldr insertStr []

def fmtStrList (l : List String) : String :=
  let l := sortStr l
  if l.isEmpty then "0" else toString l.length ++ " " ++ String.intercalate " " l

/-- `t:kS`, `t:uN`, `t:vN` -/
def parseRngEv (s : String) : Option (List (Nat × RngOp)) :=
  match s.splitOn ":" with
  | [t, r] => do
    let t ← t.toNat?
    match r.toList with
    | 'k' :: a => do let k ← (String.ofList a).toInt?; pure [(t, RngOp.seed k)]
    | 'u' :: a => do let n ← (String.ofList a).toNat?; pure (List.replicate n (t, RngOp.draw))
    | 'v' :: a => do let n ← (String.ofList a).toNat?; pure (List.replicate n (t, RngOp.draw))
    | _ => none
  | _ => none

/-- harness op `<kind><a>[:<b>]` -/
def parseMixOp (s : String) : Option (Char × Nat × Nat) :=
  match s.toList with
  | [] => none
  | k :: r =>
    match (String.ofList r).splitOn ":" with
    | [a] => do pure (k, ← a.toNat?, 0)
    | [a, b] => do pure (k, ← a.toNat?, ← b.toNat?)
    | _ => none

def pow2ge (n : Nat) : Nat := Id.run do
  let mut p := 1
  for _ in [0:40] do
    if p < n then p := 2 * p
  return p

/-- plan-factory requests of one harness operation (the FFT lengths it asks for, in order) -/
def lruOps (k : Char) (a b : Nat) : List Dsp.Lru.Op :=
  match k with
  | 'c' | 'f' | 'P' => [.fftC a]
  | 'r' => [.fftR a]
  | 'i' => [.fftR a, .irfft a]
  | 'z' => [.czt a b]
  | 'x' => let m := pow2ge (a + b - 1); [.fftC m, .fftC m, .fftC m]                -- fft, fft, ifft of length 2^nextpow2(n1+n2-1)
  | 'w' => [.fftR (pow2ge b)]                                                    -- every segment: real fft of length 2^nextpow2(winlen)
  | 'F' => [.fftC (pow2ge (2 * a))]                                              -- FftFilter(h): fft(conj(h), fft_len)
  -- calls that THROW.  `irfft(x, n)` with odd n / with a wrong number of bins: `IfftPlanR(n)` has already requested
  -- `FftPlan(n/2)` (member initialiser) when the size check fails, so the failed call leaves the same cache state as a valid one
  | 'e' | 'm' => [.irfft a]
  | _ => []                                                                      -- s g u j k q S: no factory request; T Q: const solve rejects the input before anything else; p: see below

def fmtKeys9 (s : Dsp.Lru.FftState Nat) : String :=
  let kc := s.cC.keys.map (fun (k : Nat) => (k : Int))
  let kr := s.cR.keys.map (fun (k : Nat) => (k : Int))
  s!"C {fmtIntList kc} R {fmtIntList kr}"

/-- parses `<n> op…` groups -/
def takeProgram : List String → Option (List (Char × Nat × Nat) × List String)
  | [] => none
  | n :: rest => do
    let n ← n.toNat?
    if rest.length < n then none else
    let ops ← (rest.take n).mapM parseMixOp
    pure (ops, rest.drop n)

def takePrograms : Nat → List String → Option (List (List (Char × Nat × Nat)))
  | 0, _ => some []
  | k + 1, toks => do
    let (p, rest) ← takeProgram toks
    let ps ← takePrograms k rest
    pure (p :: ps)

def h09 : List String → Option String
  | ["footprint", "mutable"] => some (fmtStrList (varsOf .mutableMember))
  | ["footprint", "thread_local"] => some (fmtStrList (varsOf .threadLocal))
  | ["footprint", "shared_mutable"] => some (fmtStrList (varsOf .sharedMutable))
  | ["footprint", "shared_const"] => some (fmtStrList (varsOf .sharedConst))
  | ["footprint", "const_cast"] => some (fmtStrList constCasts)
  | ["footprint", "plan_members"] => some (fmtStrList (planMembers.map (·.1)))
  | ["footprint", "plan_nonconst_methods"] => some (fmtStrList planNonconstMethods)
  | "rng" :: _nt :: _n :: evs => do
    let ops ← evs.mapM parseRngEv
    let vals := rngRun mtSpec (fun _ => mtSpec.fresh) ops.flatten
    if vals.isEmpty then some "-" else some (fmtFloats (vals.map (·.2)))
  | "keys" :: cap :: _n :: ops => do
    let cap ← cap.toNat?
    let ops ← ops.mapM parseMixOp
    -- the FftFilter's block length is state of the program: `p n` runs fft+ifft of the filter's length once per completed block
    let (s, _) := ops.foldl (fun (acc : Dsp.Lru.FftState Nat × (Nat × Nat × Nat)) (o : Char × Nat × Nat) =>
      let (s, (flen, blk, fill)) := acc
      let (k, a, b) := o
      let s := (lruOps k a b).foldl (Dsp.Lru.step id id) s
      if k == 'F' then
        let fl := pow2ge (2 * a)
        (s, (fl, fl - a + 1, 0))
      else if k == 'p' && flen > 0 then
        let blocks := (fill + a) / blk
        let s := (List.replicate (2 * blocks) (Dsp.Lru.Op.fftC flen)).foldl (Dsp.Lru.step id id) s
        (s, (flen, blk, (fill + a) % blk))
      else (s, (flen, blk, fill))) (Dsp.Lru.FftState.init cap, (0, 0, 0))
    some (fmtKeys9 s)
  | ["fpenv", kind, _calls] =>
    match kind.toList with
    | [k] => some (if (apisOfKind k).any writesFpEnv then "some" else "0")
    | _ => none
  | "scenario" :: nt :: rest => do
    let nt ← nt.toNat?
    let ps ← takePrograms nt rest
    let sc : Scenario := ps.zipIdx.map (fun pt => (pt.1.map (fun o => callsOfOp pt.2 o.1 o.2.1)).flatten)
    some (if exclusive sc then "1" else "0")
  | _ => none

end Dsp.Driver
