import DspVerif.Driver.Proto
/-! driver handlers for C09 (stub: no correspondence cases handled yet) -/
namespace Dsp.Driver
open Dsp.Proto

def h09 : List String → Option String
  | _ => none

end Dsp.Driver
