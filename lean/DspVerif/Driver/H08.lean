import DspVerif.Driver.Proto
import DspVerif.Model.Resample
/-! driver handlers for C08: the model of `Model/Resample.lean` at `Float` -/
namespace Dsp.Driver
open Dsp.Proto Dsp.Resample

/-- `nf` length-prefixed arrays -/
def takeFrames : Nat → List String → Option (List (Array Float))
  | 0, _ => some []
  | n + 1, toks => do
    let (a, rest) ← takeFloats toks
    let t ← takeFrames n rest
    pure (a :: t)

def runFrames (c : Rs Float) : List (Array Float) → List String
  | [] => []
  | x :: t =>
    match c.process x with
    | .ok (c', y) => fmtFloatArr y :: runFrames c' t
    | .error _ => "ERR" :: runFrames c t     -- exception: the object is unchanged

/-- the four classes behind the interface of `Rs` -/
def conv (kind : String) (L M : Nat) (h : Array Float) : Option (Rs Float) :=
  match kind with
  | "interp" => some (.int (Interp.init L h))
  | "decim" => some (.dec (Decim.init M h))
  | "rateconv" => some (.rc (RateConv.init L M h))
  | "resampler" => some (Rs.init L M h)
  | _ => none

/-- input the harness generates for the large cases (`xgen` in `harness/c08.cpp`): integer values in -9..9 times a
scale, with alternating runs of `zrun` exact zeros when `zrun > 0` -/
def xgen (a zrun : Nat) (scale : Float) (i : Nat) : Float :=
  let v : Int := Int.ofNat ((i * i + 3 * i + a) % 19) - 9
  let z : Int := if zrun > 0 ∧ (i / zrun) % 2 = 1 then 0 else v
  Float.ofInt z * scale

/-- digest of an output frame: length, first and last (up to) 8 samples, left-to-right sum -/
def digest (y : Array Float) : String :=
  let n := y.size
  let k := min n 8
  let sum := y.foldl (· + ·) (Float.ofNat 0)
  String.intercalate " "
    ([toString n, toString k] ++ ((y.extract 0 k).toList.map fmtF) ++ ((y.extract (n - k) n).toList.map fmtF) ++ [fmtF sum])

/-- a history of generated frames: rejected frames neither consume input nor change the object -/
def runBig (gen : Nat → Float) : Rs Float → Nat → List Nat → List String
  | _, _, [] => []
  | c, pos, n :: t =>
    let x : Array Float := Array.ofFn (n := n) fun i => gen (pos + i.val)
    match c.process x with
    | .ok (c', y) => digest y :: runBig gen c' (pos + n) t
    | .error _ => "ERR" :: runBig gen c pos t

def h08 : List String → Option String
  | "big" :: kind :: l :: m :: rest => do
    let L ← l.toNat?; let M ← m.toNat?
    let (h, rest) ← takeFloats rest
    match rest with
    | a :: zrun :: scale :: nf :: lens =>
      let a ← a.toNat?; let zrun ← zrun.toNat?; let scale ← parseF scale; let nf ← nf.toNat?
      let lens ← lens.mapM String.toNat?
      if lens.length ≠ nf then none else
      let c ← conv kind L M h
      some (String.intercalate " " (s!"{c.delay} {c.interpRate} {c.decimRate}" :: runBig (xgen a zrun scale) c 0 lens))
    | _ => none
  | "bigres" :: p :: q :: rest => do
    let p ← p.toNat?; let q ← q.toNat?
    let (h, rest) ← takeFloats rest
    match rest with
    | [a, zrun, scale, len] =>
      let a ← a.toNat?; let zrun ← zrun.toNat?; let scale ← parseF scale; let len ← len.toNat?
      let x : Array Float := Array.ofFn (n := len) fun i => xgen a zrun scale i.val
      match resample x p q h with
      | .ok y => some (digest y)
      | .error _ => some "ERR"
    | _ => none
  | "poly" :: m :: fl :: gain :: rest => do
    let m ← m.toNat?
    let g ← parseF gain
    let (h, _) ← takeFloats rest
    let r := polyphase h m g (fl == "1")
    let n := (row r 0).size
    some (s!"{r.size} {n} " ++ fmtFloats (r.toList.flatMap Array.toList))
  | "sizes" :: [s, p, q] => do
    let s ← s.toNat?; let p ← p.toNat?; let q ← q.toNat?
    let pq := simplify p q
    some s!"{nextSize s p q} {prevSize s p q} {pq.1} {pq.2}"
  | "resample" :: p :: q :: rest => do
    let p ← p.toNat?; let q ← q.toNat?
    let (h, rest) ← takeFloats rest
    let (x, _) ← takeFloats rest
    match resample x p q h with
    | .ok y => some (fmtFloatArr y)
    | .error _ => some "ERR"
  | kind :: l :: m :: rest => do
    let L ← l.toNat?; let M ← m.toNat?
    let (h, rest) ← takeFloats rest
    match rest with
    | nf :: rest =>
      let nf ← nf.toNat?
      let frames ← takeFrames nf rest
      let c ← conv kind L M h
      some (String.intercalate " " (s!"{c.delay} {c.interpRate} {c.decimRate}" :: runFrames c frames))
    | [] => none
  | _ => none

end Dsp.Driver
