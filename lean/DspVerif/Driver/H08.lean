import DspVerif.Driver.Proto
import DspVerif.Model.Resample
/-! driver handlers for C08: the model of `Model/Resample.lean` at `Float` -/
namespace Dsp.Driver
open Dsp.Proto Dsp.Resample

/-- `nf` length-prefixed arrays -/
def takeFrames : Nat → List String → Option (List (Array Float))
  | 0, _ => some []
  | n + 1, toks => do
    let (a, rest) ← takeFloats toks
    let t ← takeFrames n rest
    pure (a :: t)

def runFrames (c : Rs Float) : List (Array Float) → List String
  | [] => []
  | x :: t =>
    match c.process x with
    | .ok (c', y) => fmtFloatArr y :: runFrames c' t
    | .error _ => "ERR" :: runFrames c t     -- exception: the object is unchanged

/-- the four classes behind the interface of `Rs` -/
def conv (kind : String) (L M : Nat) (h : Array Float) : Option (Rs Float) :=
  match kind with
  | "interp" => some (.int (Interp.init L h))
  | "decim" => some (.dec (Decim.init M h))
  | "rateconv" => some (.rc (RateConv.init L M h))
  | "resampler" => some (Rs.init L M h)
  | _ => none

def h08 : List String → Option String
  | "poly" :: m :: fl :: gain :: rest => do
    let m ← m.toNat?
    let g ← parseF gain
    let (h, _) ← takeFloats rest
    let r := polyphase h m g (fl == "1")
    let n := (row r 0).size
    some (s!"{r.size} {n} " ++ fmtFloats (r.toList.flatMap Array.toList))
  | "sizes" :: [s, p, q] => do
    let s ← s.toNat?; let p ← p.toNat?; let q ← q.toNat?
    let pq := simplify p q
    some s!"{nextSize s p q} {prevSize s p q} {pq.1} {pq.2}"
  | "resample" :: p :: q :: rest => do
    let p ← p.toNat?; let q ← q.toNat?
    let (h, rest) ← takeFloats rest
    let (x, _) ← takeFloats rest
    match resample x p q h with
    | .ok y => some (fmtFloatArr y)
    | .error _ => some "ERR"
  | kind :: l :: m :: rest => do
    let L ← l.toNat?; let M ← m.toNat?
    let (h, rest) ← takeFloats rest
    match rest with
    | nf :: rest =>
      let nf ← nf.toNat?
      let frames ← takeFrames nf rest
      let c ← conv kind L M h
      some (String.intercalate " " (s!"{c.delay} {c.interpRate} {c.decimRate}" :: runFrames c frames))
    | [] => none
  | _ => none

end Dsp.Driver
