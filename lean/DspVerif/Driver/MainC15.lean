import DspVerif.Driver.Loop
import DspVerif.Driver.H15
/-! `dspdriver_c15`: model driver of property C15 -/
def main : IO Unit := Dsp.Driver.runDriver [Dsp.Driver.h15]
