import DspVerif.Driver.H04
import DspVerif.Driver.H10
import DspVerif.Driver.H15
/-! `dspdriver`: reads `C <tag> <args…> | …` lines on stdin, prints the model's outputs,
one line per case, in order.  Unknown tags print `UNSUPPORTED`. -/
open Dsp.Driver

def handlers : List (List String → Option String) := [h04, h10, h15]

def handle (toks : List String) : String :=
  match handlers.findSome? (fun h => h toks) with
  | some s => s
  | none => "UNSUPPORTED"

partial def loop (h : IO.FS.Stream) (out : IO.FS.Stream) : IO Unit := do
  let line ← h.getLine
  if line.isEmpty then return ()
  if line.startsWith "C " && (line.splitOn " | ").length > 1 then
    let body := (line.drop 2).toString
    let lhs := (body.splitOn " | ").headD ""
    let toks := (lhs.trimAscii.toString.splitOn " ").filter (· ≠ "")
    out.putStrLn (handle toks)
  loop h out

def main : IO Unit := do
  let out ← IO.getStdout
  loop (← IO.getStdin) out
  out.flush
