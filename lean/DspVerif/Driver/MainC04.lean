import DspVerif.Driver.Loop
import DspVerif.Driver.H04
/-! `dspdriver_c04`: model driver of property C04 -/
def main : IO Unit := Dsp.Driver.runDriver [Dsp.Driver.h04]
