import DspVerif.Driver.Proto
import DspVerif.Model.MathFns
/-! driver handlers for C17: runs `Model/MathFns` at `Float` on one correspondence case; the dB conversions and
`abs2(real_t)` are the machine-generated `Gen.*` of `Gen/Dynamics.lean` (imported through `Model/MathFns`) -/
namespace Dsp.Driver
open Dsp.Proto Dsp.MathFns

namespace H17

abbrev F := Float
abbrev Z := Cx Float

def fmtC (z : Z) : String := fmtF z.re ++ " " ++ fmtF z.im

def fmtE {β : Type} (f : β → String) : Except String β → String
  | .ok v => f v
  | .error _ => "ERR"

/-- real → real -/
def rr (f : F → F) : List String → Option String
  | [x] => do let x ← parseF x; some (fmtF (f x))
  | _ => none
/-- real → complex -/
def rc (f : F → Z) : List String → Option String
  | [x] => do let x ← parseF x; some (fmtC (f x))
  | _ => none
/-- complex → real -/
def cr (f : Z → F) : List String → Option String
  | [a, b] => do let a ← parseF a; let b ← parseF b; some (fmtF (f ⟨a, b⟩))
  | _ => none
/-- complex → complex -/
def cc (f : Z → Z) : List String → Option String
  | [a, b] => do let a ← parseF a; let b ← parseF b; some (fmtC (f ⟨a, b⟩))
  | _ => none
/-- arrays -/
def vrr (f : F → F) (args : List String) : Option String := do
  let (x, _) ← takeFloats args; some (fmtFloatArr (x.map f))
def vrc (f : F → Z) (args : List String) : Option String := do
  let (x, _) ← takeFloats args; some (fmtCxArr (x.map f))
def vcr (f : Z → F) (args : List String) : Option String := do
  let (x, _) ← takeCxs args; some (fmtFloatArr (x.map f))
def vcc (f : Z → Z) (args : List String) : Option String := do
  let (x, _) ← takeCxs args; some (fmtCxArr (x.map f))
/-- real array → real / complex array → complex|real -/
def redR (f : Array F → F) (args : List String) : Option String := do
  let (x, _) ← takeFloats args; some (fmtF (f x))
def redC (f : Array Z → Z) (args : List String) : Option String := do
  let (x, _) ← takeCxs args; some (fmtC (f x))
def redCR (f : Array Z → F) (args : List String) : Option String := do
  let (x, _) ← takeCxs args; some (fmtF (f x))

def zeroF : F := 0.0
def zeroZ : Z := ⟨0.0, 0.0⟩

def toNatF (c : F) : Nat := c.toUInt64.toNat

end H17
open H17

def h17 : List String → Option String
  -- real-argument elementary functions
  | "abs" :: a => rr Fn.abs a
  | "round" :: a => rr Fn.round a
  | "expj" :: a => rc expj a
  | "tanh" :: a => rr Fn.tanh a
  | "deg2rad" :: a => rr deg2rad a
  | "rad2deg" :: a => rr rad2deg a
  | "rabs2" :: a => rr Gen.abs2r a
  | "exp" :: a => rr Fn.exp a
  | "log" :: a => rr Fn.log a
  | "log2" :: a => rr MathFns.log2 a
  | "log10" :: a => rr Fn.log10 a
  | "pow2db" :: a => rr Gen.pow2db a
  | "mag2db" :: a => rr Gen.mag2db a
  | "db2pow" :: a => rr Gen.db2pow a
  | "db2mag" :: a => rr Gen.db2mag a
  | "v.abs" :: a => vrr Fn.abs a
  | "v.round" :: a => vrr Fn.round a
  | "v.expj" :: a => vrc expj a
  | "v.tanh" :: a => vrr Fn.tanh a
  | "v.deg2rad" :: a => vrr deg2rad a
  | "v.rad2deg" :: a => vrr rad2deg a
  | "v.rabs2" :: a => do let (x, _) ← takeFloats a; some (fmtFloatArr (rpowiArr x 2))
  | "v.exp" :: a => vrr Fn.exp a
  | "v.log" :: a => vrr Fn.log a
  | "v.log2" :: a => vrr MathFns.log2 a
  | "v.log10" :: a => vrr Fn.log10 a
  | "v.pow2db" :: a => vrr Gen.pow2db a
  | "v.mag2db" :: a => vrr Gen.mag2db a
  | "v.db2pow" :: a => vrr Gen.db2pow a
  | "v.db2mag" :: a => vrr Gen.db2mag a
  -- complex-argument functions
  | "cabs" :: a => cr cabs a
  | "abs2" :: a => cr Cx.abs2 a
  | "angle" :: a => cr angle a
  | "cround" :: a => cc cround a
  | "conj" :: a => cc Cx.conj a
  | "cexp" :: a => cc cexp a
  | "ctanh" :: a => cc ctanh a
  | "v.cabs" :: a => vcr cabs a
  | "v.abs2" :: a => vcr Cx.abs2 a
  | "v.angle" :: a => vcr angle a
  | "v.cround" :: a => vcc cround a
  | "v.conj" :: a => vcc Cx.conj a
  | "v.cexp" :: a => vcc cexp a
  | "v.real" :: a => do let (x, _) ← takeCxs a; some (fmtFloatArr (realArr x))
  | "v.imag" :: a => do let (x, _) ← takeCxs a; some (fmtFloatArr (imagArr x))
  | "v.complex" :: a => do
    let (re, rest) ← takeFloats a
    let (im, _) ← takeFloats rest
    some (fmtE fmtCxArr (complexArr re im))
  -- power overloads
  | ["rpow", x, n] => do let x ← parseF x; let n ← parseF n; some (fmtF (rpow x n))
  | "v.rpow_sv" :: x :: a => do let x ← parseF x; let (n, _) ← takeFloats a; some (fmtFloatArr (n.map (rpow x)))
  | "v.rpow_vs" :: n :: a => do let n ← parseF n; let (x, _) ← takeFloats a; some (fmtFloatArr (x.map (fun v => rpow v n)))
  | "v.rpow_vv" :: a => do
    let (x, rest) ← takeFloats a
    let (n, _) ← takeFloats rest
    if x.size != n.size then some "ERR" else some (fmtFloatArr ((x.zip n).map (fun p => rpow p.1 p.2)))
  | ["rpowi", x, n] => do let x ← parseF x; let n ← parseI n; some (fmtF (rpowi x n))
  | "v.rpowi" :: n :: a => do let n ← parseI n; let (x, _) ← takeFloats a; some (fmtFloatArr (rpowiArr x n))
  | ["cpow", a, b, n] => do let a ← parseF a; let b ← parseF b; let n ← parseF n; some (fmtC (cpow ⟨a, b⟩ n))
  | ["cpowi", a, b, n] => do let a ← parseF a; let b ← parseF b; let n ← parseI n; some (fmtC (cpowi ⟨a, b⟩ n))
  | "v.cpowi" :: n :: a => do let n ← parseI n; let (x, _) ← takeCxs a; some (fmtCxArr (cpowiArr x n))
  -- reductions
  | "sum" :: a => redR sum a
  | "csum" :: a => redC csum a
  | "mean" :: a => redR mean a
  | "cmean" :: a => redC cmean a
  | "rms" :: a => redR rms a
  | "crms" :: a => redCR crms a
  | "stddev" :: a => redR stddev a
  | "cstddev" :: a => redCR cstddev a
  | "cumsum" :: rev :: a => do let (x, _) ← takeFloats a; some (fmtFloatArr (cumsum x (rev == "1")))
  | "ccumsum" :: rev :: a => do let (x, _) ← takeCxs a; some (fmtCxArr (cumsum x (rev == "1")))
  | "dot" :: a => do
    let (x, rest) ← takeFloats a
    let (y, _) ← takeFloats rest
    some (fmtE fmtF (dot x y))
  | "cdot" :: a => do
    let (x, rest) ← takeCxs a
    let (y, _) ← takeCxs rest
    some (fmtE fmtC (cdot x y))
  | "norm" :: p :: a => do let p ← parseI p; let (x, _) ← takeFloats a; some (fmtF (norm x p))
  | "cnorm" :: p :: a => do let p ← parseI p; let (x, _) ← takeCxs a; some (fmtF (cnorm x p))
  | "max" :: a => redR maxR a
  | "min" :: a => redR minR a
  | "peak2peak" :: a => redR peak2peakR a
  | "argmax" :: a => do let (x, _) ← takeFloats a; some (toString (argmax rlt x.toList))
  | "argmin" :: a => do let (x, _) ← takeFloats a; some (toString (argmin rlt x.toList))
  | "cmax" :: a => redC maxC a
  | "cmin" :: a => redC minC a
  | "cpeak2peak" :: a => redC peak2peakC a
  | "cargmax" :: a => do let (x, _) ← takeCxs a; some (toString (argmax clt x.toList))
  | "cargmin" :: a => do let (x, _) ← takeCxs a; some (toString (argmin clt x.toList))
  -- shape / index functions
  | "upsample" :: f :: ph :: a => do
    let f ← parseI f; let ph ← parseI ph; let (x, _) ← takeFloats a
    some (fmtE fmtFloatArr (upsample zeroF x f ph))
  | "cupsample" :: f :: ph :: a => do
    let f ← parseI f; let ph ← parseI ph; let (x, _) ← takeCxs a
    some (fmtE fmtCxArr (upsample zeroZ x f ph))
  | "downsample" :: f :: ph :: a => do
    let f ← parseI f; let ph ← parseI ph; let (x, _) ← takeFloats a
    some (fmtE fmtFloatArr (downsample zeroF x f ph))
  | "cdownsample" :: f :: ph :: a => do
    let f ← parseI f; let ph ← parseI ph; let (x, _) ← takeCxs a
    some (fmtE fmtCxArr (downsample zeroZ x f ph))
  | "repelem" :: k :: a => do let k ← k.toNat?; let (x, _) ← takeFloats a; some (fmtFloatArr (repelem x k))
  | "crepelem" :: k :: a => do let k ← k.toNat?; let (x, _) ← takeCxs a; some (fmtCxArr (repelem x k))
  | "flip" :: a => do let (x, _) ← takeFloats a; some (fmtFloatArr (flip x))
  | "cflip" :: a => do let (x, _) ← takeCxs a; some (fmtCxArr (flip x))
  | "zeropad" :: m :: a => do let m ← parseI m; let (x, _) ← takeFloats a; some (fmtE fmtFloatArr (zeropad zeroF x m))
  | "czeropad" :: m :: a => do let m ← parseI m; let (x, _) ← takeCxs a; some (fmtE fmtCxArr (zeropad zeroZ x m))
  | "delayseq" :: d :: a => do let d ← parseI d; let (x, _) ← takeFloats a; some (fmtFloatArr (delayseq zeroF x d))
  | ["arange", a, b, s] => do
    let a ← parseI a; let b ← parseI b; let s ← parseI s
    some (fmtE (fun (r : Array Int) => fmtFloatArr (r.map (fun i => (Fn.ofInt i : Float)))) (arangeInt a b s))
  | ["farange", a, b, s] => do
    let a ← parseF a; let b ← parseF b; let s ← parseF s
    let c := arangeFCount a b s
    if c < 0 then some "ERR" else some (fmtFloatArr (arangeF a s (toNatF c)))
  | ["linspace", x1, x2, n] => do
    let x1 ← parseF x1; let x2 ← parseF x2; let n ← n.toNat?
    some (fmtE fmtFloatArr (linspace x1 x2 n))
  | _ => none

end Dsp.Driver
