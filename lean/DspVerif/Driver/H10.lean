import DspVerif.Driver.Proto
import DspVerif.Model.Lru
/-! driver handlers for C10 (plan-cache histories) -/
namespace Dsp.Driver
open Dsp.Proto Dsp.Lru

/-- one harness operation = the plan requests its API calls make, in order.  REJECTED calls are histories too: what they
    request before they throw is part of the model (`IfftPlanR(n)` builds `FftPlan(n/2)` in its member initialisers and
    checks `n` afterwards; a plan applied to the wrong length has been requested already; `create_fft_plan(0)` throws inside
    the plan constructor, before `put`). -/
def parseOp (s : String) : Option (List Op) :=
  let num (r : List Char) : Option Nat := (String.ofList r).toNat?
  let irfftReq (n : Nat) : List Op := if n / 2 == 0 then [] else [Op.irfft n]
  -- `<n>:<m>`
  let two (r : List Char) : Option (Nat × Nat) :=
    match (String.ofList r).splitOn ":" with
    | [a, b] => do pure (← a.toNat?, ← b.toNat?)
    | _ => none
  let p2 (k : Nat) : Nat := 2 ^ Dsp.Primes.nextpow2 k          -- `1 << nextpow2(k)`
  match s.toList with
  -- the n-point overloads `fft(x, n)` / `rfft(x, n)`: pad, pass on or truncate, then ONE plan request for n whatever the input length m
  | 'a' :: r => (two r).map (fun (n, _) => [Op.fftC n])
  | 'b' :: r => (two r).map (fun (n, _) => [Op.fftR n])
  | 'B' :: r => (two r).map (fun (n, _) => [Op.fftR n])
  -- built on them: one `fft(segment, nfft)` per segment (the first may miss, the others hit the front entry: same state)
  | 'W' :: r => (two r).map (fun (n, _) => [Op.fftR n])           -- welch, real input
  | 'V' :: r => (two r).map (fun (n, _) => [Op.fftC n])           -- welch, complex input
  | 'M' :: r => (two r).map (fun (n, _) => [Op.fftR n])           -- mscohere
  | 'P' :: r => (num r).map (fun n => [Op.fftR (p2 n)])           -- sinad -> periodogram: fft(real, 2^nextpow2 n)
  | 'H' :: r => (two r).map (fun (n, _) => [Op.fftR n, Op.fftC n])   -- hilbert(x, n): fft(real n), ifft(n)
  | 'G' :: r => (two r).map (fun (n, _) => [Op.fftR n, Op.irfft n])  -- stft(x, win(m), m/2, nfft = n) then istft: FftPlanR(n), IfftPlanR(n)
  | 'x' :: r => (two r).map (fun (n, m) => [Op.fftC (p2 (n + m - 1))])   -- xcorr: fft, fft, ifft at 2^nextpow2(n+m-1)
  | 'X' :: r => (two r).map (fun (n, m) => [Op.fftC (p2 (n + m - 1))])
  | 'L' :: r => (two r).map (fun (_, m) => [Op.fftC (p2 (2 * m))])       -- FftFilter(m taps): fft(conj h, 2^nextpow2(2m)); process: fft / ifft of that length
  | 'd' :: r => (two r).map (fun (n, m) => [Op.fftR (p2 (max n m)), Op.fftC (p2 (max n m))])   -- finddelay: fft(real) twice, ifft
  | 'y' :: r => (two r).map (fun _ => [])                         -- resample: no transform
  | 'I' :: r => (two r).map (fun (n, _) => [Op.fftR n, Op.irfft n])   -- fft(x_real), then m times irfft(X, n)
  | 'Q' :: r => (two r).map (fun _ => [])                         -- welch with nfft not a power of two: rejected before any plan
  | 'c' :: r => (num r).map (fun n => [Op.fftC n])
  | 'f' :: r => (num r).map (fun n => [Op.fftC n])          -- ifft(n): IfftPlan(n) -> FftPlan(n)
  | 'r' :: r => (num r).map (fun n => [Op.fftR n])
  | 'i' :: r => (num r).map (fun n => [Op.fftR n, Op.irfft n])   -- irfft(fft(x_real), n)
  | 'h' :: r => (num r).map (fun n => [Op.fftR n, Op.irfft n])   -- irfft(first n/2+1 bins of fft(x_real), n)
  | 's' :: r => (num r).map (fun n => [Op.fftR n, Op.irfft n])   -- istft(stft(x, nfft = n)): FftPlanR(n), then IfftPlanR(n)
  | 'k' :: r => (num r).map (fun n => [Op.irfft n, Op.fftR n])   -- IfftPlanR(n) object (one rejected call), then rfft, then the object again
  | 'K' :: r => (num r).map (fun n => [Op.fftC n])               -- FftPlan(n) object (one rejected call, one valid call)
  -- rejected calls
  | 'o' :: r => (num r).map irfftReq                             -- irfft(X, odd n): FftPlan(n/2) is requested before the check
  | 'O' :: r => (num r).map irfftReq                             -- IfftPlanR(odd n)
  | 'S' :: r => (num r).map irfftReq                             -- istft with odd nfft: IfftPlanR(nfft)
  | 'w' :: r => (num r).map irfftReq                             -- irfft(wrong bin count, n): the plan exists, solve throws
  | 'U' :: r => (num r).map irfftReq                             -- istft, frame of the wrong length: IfftPlanR(nfft) exists already
  | 'p' :: r => (num r).map (fun n => [Op.fftC n])               -- FftPlan(n)(n+1 samples)
  | 'j' :: r => (num r).map (fun n => [Op.fftC n])               -- IfftPlan(n)(n+1 samples)
  | 'q' :: r => (num r).map (fun n => [Op.fftR n])               -- FftPlanR(n)(n+1 samples)
  | 'T' :: r => (num r).map (fun _ => [])                        -- stft with overlap = nwin: rejected before any plan
  | 'E' :: r => (num r).map (fun _ => [])                        -- empty inputs: create_*_plan(0) throws before `put`
  | 'z' :: r =>
    match (String.ofList r).splitOn ":" with
    | [a, b] => do pure [Op.czt (← a.toNat?) (← b.toNat?)]
    | _ => none
  | 'Z' :: r =>                                                  -- CztPlan(n, m)(n+1 samples)
    match (String.ofList r).splitOn ":" with
    | [a, b] => do pure [Op.czt (← a.toNat?) (← b.toNat?)]
    | _ => none
  | _ => none

def fmtKeys (s : FftState Nat) : String :=
  let kc := s.cC.keys.map (fun (k : Nat) => (k : Int))
  let kr := s.cR.keys.map (fun (k : Nat) => (k : Int))
  s!"C {fmtIntList kc} R {fmtIntList kr}"

/-- `k v1 … vk` of naturals from the front of a token list -/
def takeNats : List String → Option (List Nat × List String)
  | [] => none
  | k :: rest => do
    let n ← k.toNat?
    if rest.length < n then none else
    let xs ← (rest.take n).mapM String.toNat?
    pure (xs, rest.drop n)

/-- a cache holding the given keys (most recently used first); the values are the keys -/
def cacheOf (cap : Nat) (ks : List Nat) : Cache Nat := ⟨cap, ks.map (fun k => (k, k))⟩

def runOps (s0 : FftState Nat) (ops : List (List Op)) : Option String :=
  let (_, outs) := ops.foldl (fun (acc : FftState Nat × List String) (o : List Op) =>
    let s := o.foldl (step id id) acc.1
    (s, fmtKeys s :: acc.2)) (s0, [])
  if outs.isEmpty then some "-" else some (String.intercalate " " outs.reverse)

def h10 : List String → Option String
  | "hist" :: cap :: ll :: _k :: ops => do
    let cap ← cap.toNat?
    let ops ← ops.mapM parseOp
    let s0 : FftState Nat := FftState.init cap
    let s0 := if ll == "1" then [Op.fftC 60, Op.fftC 47, Op.fftR 90].foldl (step id id) s0 else s0
    runOps s0 ops
  -- a window of a long history: the state at its start is given (keys of both caches), then lock-step as in `hist`
  | "win" :: cap :: "C" :: rest => do
    let cap ← cap.toNat?
    let (kc, rest) ← takeNats rest
    match rest with
    | "R" :: rest => do
      let (kr, rest) ← takeNats rest
      match rest with
      | _k :: ops => do
        let ops ← ops.mapM parseOp
        runOps ⟨cacheOf cap kc, cacheOf cap kr⟩ ops
      | _ => none
    | _ => none
  -- the container alone: `lookup-or-create` (exists ? get : put) of each key, from a given state; key list after every operation
  | "lru" :: cap :: rest => do
    let cap ← cap.toNat?
    let (ks, ops) ← takeNats rest
    let ops ← ops.mapM String.toNat?
    let (_, outs) := ops.foldl (fun (acc : Cache Nat × List String) (k : Nat) =>
      let c := if acc.1.has k then (acc.1.get k).1 else acc.1.put k k
      (c, fmtIntList (c.keys.map (fun (k : Nat) => (k : Int))) :: acc.2)) (cacheOf cap ks, [])
    if outs.isEmpty then some "-" else some (String.intercalate " " outs.reverse)
  | _ => none

end Dsp.Driver
