import DspVerif.Driver.Proto
import DspVerif.Model.Lru
/-! driver handlers for C10 (plan-cache histories) -/
namespace Dsp.Driver
open Dsp.Proto Dsp.Lru

/-- one harness operation = the API calls it makes, in order -/
def parseOp (s : String) : Option (List Op) :=
  match s.toList with
  | 'c' :: r => (String.ofList r).toNat?.map (fun n => [Op.fftC n])
  | 'f' :: r => (String.ofList r).toNat?.map (fun n => [Op.fftC n])          -- ifft(n): IfftPlan(n) -> FftPlan(n)
  | 'r' :: r => (String.ofList r).toNat?.map (fun n => [Op.fftR n])
  | 'i' :: r => (String.ofList r).toNat?.map (fun n => [Op.fftR n, Op.irfft n])   -- irfft(fft(x_real), n)
  | 'h' :: r => (String.ofList r).toNat?.map (fun n => [Op.fftR n, Op.irfft n])   -- irfft(first n/2+1 bins of fft(x_real), n)
  | 'z' :: r =>
    match (String.ofList r).splitOn ":" with
    | [a, b] => do pure [Op.czt (← a.toNat?) (← b.toNat?)]
    | _ => none
  | _ => none

def fmtKeys (s : FftState Nat) : String :=
  let kc := s.cC.keys.map (fun (k : Nat) => (k : Int))
  let kr := s.cR.keys.map (fun (k : Nat) => (k : Int))
  s!"C {fmtIntList kc} R {fmtIntList kr}"

def h10 : List String → Option String
  | "hist" :: cap :: ll :: _k :: ops => do
    let cap ← cap.toNat?
    let ops ← ops.mapM parseOp
    let s0 : FftState Nat := FftState.init cap
    let s0 := if ll == "1" then [Op.fftC 60, Op.fftC 47, Op.fftR 90].foldl (step id id) s0 else s0
    let (_, outs) := ops.foldl (fun (acc : FftState Nat × List String) (o : List Op) =>
      let s := o.foldl (step id id) acc.1
      (s, fmtKeys s :: acc.2)) (s0, [])
    if outs.isEmpty then some "-" else some (String.intercalate " " outs.reverse)
  | _ => none

end Dsp.Driver
