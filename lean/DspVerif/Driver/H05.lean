import DspVerif.Driver.Proto
import DspVerif.Model.Guards
/-! driver handlers for C05: `guard <entry> <sizes…>` → the outcome predicted by `Model/Guards.lean`
(`ok <shape…>` / `ERR` / `UB:<reason>`; the last never matches the harness, which prints `ok`, `ERR` or `DIED`) -/
namespace Dsp.Driver
open Dsp.Proto Dsp.Guards

def parseCall (entry : String) (a : List Int) : Option Call :=
  match entry, a with
  | "binop", [x, y] => some (.binop x y)
  | "cmp", [x, y] => some (.cmp x y)
  | "samelen", [x, y] => some (.samelen x y)
  | "idxlist", n :: k :: es => if es.length = k.toNat then some (.idxlist n es) else none
  | "mask", n :: k :: bs => if bs.length = k.toNat then some (.mask n bs) else none
  | "slice", [n, i1, i2, m] => some (.slice n i1 i2 m)
  | "sasg_arr", [n, i1, i2, m, l] => some (.sasgArr n i1 i2 m l)
  | "sasg_list", [n, i1, i2, m, l] => some (.sasgList n i1 i2 m l)
  | "sasg_slice", [n, d1, d2, dm, n2, s1, s2, sm] => some (.sasgSlice n d1 d2 dm n2 s1 s2 sm)
  | "fftplan", [n, l] => some (.plan n l)
  | "rfftplan", [n, l] => some (.plan n l)
  | "ifftplan", [n, l] => some (.plan n l)
  | "fft", [l] => some (.fft l)
  | "fftn", [l, n] => some (.fftn l n)
  | "irfft", [l, n] => some (.irfft l n)
  | "cztplan", [n, m, l] => some (.czt n m l)
  | "firconv", [x, h] => some (.firconv x h)
  | "fir", [h, x] => some (.fir h x)
  | "fftfilt", h :: k :: fr => if fr.length = k.toNat then some (.fftfilt h fr) else none
  | "polyphase", [h, m] => some (.polyphase h m)
  | "decim", [d, h, x] => some (.decim d h x)
  | "interp", [l, h, x] => some (.interp l h x)
  | "rateconv", [l, m, h, x] => some (.rateconv l m h x)
  | "resample", [x, p, q, h] => some (.resample x p q h)
  | "zeropad", [x, n] => some (.zeropad x n)
  | "repelem", [x, n] => some (.repelem x n)
  | "delayseq", [n, d] => some (.delayseq n d)
  | "downsample", [x, n, p] => some (.downsample x n p)
  | "upsample", [x, n, p] => some (.upsample x n p)
  | "finddelay", [x, y] => some (.finddelay x y)
  | "linspace", [n] => some (.linspace n)
  | "arange", [x, y, s] => some (.arange x y s)
  | "to_complex", [n] => some (.toComplex n)
  | "window", [n, s] => some (.window n (s != 0))
  | "tukey", [n, rn, rd] => some (.tukey n rn rd)
  | "kaiser", [n] => some (.kaiser n)
  | "medianfilter", [n, x] => some (.medianfilter n x)
  | "medfilt", [x, n] => some (.medfilt x n)
  | "iscola", [w, o] => some (.iscola w o)
  | "stft", [x, w, o, f, r] => some (.stft x w o f r)
  | "istft", [s, l, w, o, f, r] => some (.istft s l w o f r)
  | "welch", [x, w, o, f, c] => some (.welch x w o f c)
  | "mscohere", [x, y, w, o, f] => some (.mscohere x y w o f)
  | "lms", [n, x, d] => some (.lms n x d)
  | "rls", [n, x, d] => some (.rls n x d)
  | "delay", [n, x] => some (.delay n x)
  | "xcorr", [x, y] => some (.xcorr x y)
  | "hilbert", [n] => some (.hilbert n)
  | _, _ => none

def fmtOutcome : Outcome → String
  | .ok [] => "ok"
  | .ok s => "ok " ++ fmtInts s
  | .throws => "ERR"
  | .ub r => "UB:" ++ r.replace " " "_"

def h05 : List String → Option String
  | "guard" :: entry :: args => do
    let a ← args.mapM parseI
    let c ← parseCall entry a
    some (fmtOutcome c.outcome)
  | _ => none

end Dsp.Driver
