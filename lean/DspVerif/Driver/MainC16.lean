import DspVerif.Driver.Loop
import DspVerif.Driver.H16
/-! `dspdriver_c16`: model driver of property C16 -/
def main : IO Unit := Dsp.Driver.runDriver [Dsp.Driver.h16]
