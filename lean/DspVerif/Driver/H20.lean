import DspVerif.Driver.Proto
import DspVerif.Model.Dynamics
/-! driver handlers for C20: Compressor / Limiter / NoiseGate / Agc models at `Float`.

Case layout (all tags): `<tag> <ctor args…> <dec> <sel> <nframes> <frame_1> … <frame_nframes>`, a frame being
`k v1 … vk` (real) or `k re1 im1 …` (complex).  One processor object is constructed and fed the frames
one `process` call after the other (state persists).  Output per frame: ONE vector selected by `sel`
(0 = `gain`, 1 = `out`, 2 = the gain in the log domain: `20·log10` for comp/lim/gate, `ln` for agc — so that
errors on tiny gains are visible at the line scale), decimated: samples `i` with `i % dec = 0` plus the last
one.  A throwing constructor prints `ERR`. -/
namespace Dsp.Driver
open Dsp.Proto Dsp.Dynamics

def decim (dec : Nat) (a : Array Float) : Array Float := Id.run do
  if dec ≤ 1 then return a
  let mut r : Array Float := #[]
  for i in [0:a.size] do
    if i % dec == 0 || i + 1 == a.size then r := r.push a[i]!
  return r

def decimC (dec : Nat) (a : Array (Cx Float)) : Array (Cx Float) := Id.run do
  if dec ≤ 1 then return a
  let mut r : Array (Cx Float) := #[]
  for i in [0:a.size] do
    if i % dec == 0 || i + 1 == a.size then r := r.push a[i]!
  return r

def takeFrames : Nat → List String → Option (List (Array Float))
  | 0, [] => some []
  | 0, _ => none
  | n + 1, toks => do
    let (a, rest) ← takeFloats toks
    let t ← takeFrames n rest
    pure (a :: t)

def takeFramesC : Nat → List String → Option (List (Array (Cx Float)))
  | 0, [] => some []
  | 0, _ => none
  | n + 1, toks => do
    let (a, rest) ← takeCxs toks
    let t ← takeFramesC n rest
    pure (a :: t)

/-- run frames through a `state → frame → state × gain × out` processor -/
def runFrames {σ : Type} (dec sel : Nat) (db : Bool) (proc : σ → Array Float → σ × Array Float × Array Float)
    (s : σ) (frames : List (Array Float)) : String :=
  let (_, outs) := frames.foldl (fun (acc : σ × List String) f =>
    let r := proc acc.1 f
    let v := if sel == 0 then r.2.1 else if sel == 1 then r.2.2
             else r.2.1.map (fun g => if db then 20 * Float.log10 g else Float.log g)
    (r.1, (fmtFloatArr (decim dec v)) :: acc.2)) (s, [])
  String.intercalate " " outs.reverse

def h20 : List String → Option String
  | "comp" :: fs :: t :: ratio :: w :: ta :: tr :: dec :: sel :: nf :: rest => do
    let fs ← fs.toNat?; let t ← parseF t; let ratio ← parseI ratio; let w ← parseF w
    let ta ← parseF ta; let tr ← parseF tr; let dec ← dec.toNat?; let sel ← sel.toNat?; let nf ← nf.toNat?
    let frames ← takeFrames nf rest
    match Comp.init fs t ratio w ta tr with
    | .error _ => some "ERR"
    | .ok p => some (runFrames dec sel true (fun g x => processWith (Comp.step p) g x) (0.0 : Float) frames)
  | "lim" :: fs :: t :: w :: ta :: tr :: dec :: sel :: nf :: rest => do
    let fs ← fs.toNat?; let t ← parseF t; let w ← parseF w
    let ta ← parseF ta; let tr ← parseF tr; let dec ← dec.toNat?; let sel ← sel.toNat?; let nf ← nf.toNat?
    let frames ← takeFrames nf rest
    match Lim.init fs t w ta tr with
    | .error _ => some "ERR"
    | .ok p => some (runFrames dec sel true (fun g x => processWith (Lim.step p) g x) (0.0 : Float) frames)
  | "gate" :: fs :: t :: ta :: tr :: th :: dec :: sel :: nf :: rest => do
    let fs ← fs.toNat?; let t ← parseF t
    let ta ← parseF ta; let tr ← parseF tr; let th ← parseF th; let dec ← dec.toNat?; let sel ← sel.toNat?; let nf ← nf.toNat?
    let frames ← takeFrames nf rest
    match Gate.init fs t ta tr th with
    | .error _ => some "ERR"
    | .ok p => some (runFrames dec sel true (fun s x => Gate.process p s x) (Gate.init0 : GateState Float) frames)
  | "agcr" :: tg :: mg :: n :: tri :: tfa :: dec :: sel :: nf :: rest => do
    let tg ← parseF tg; let mg ← parseF mg; let n ← parseI n
    let tri ← parseF tri; let tfa ← parseF tfa; let dec ← dec.toNat?; let sel ← sel.toNat?; let nf ← nf.toNat?
    let frames ← takeFrames nf rest
    match Agc.init tg mg n tri tfa with
    | .error _ => some "ERR"
    | .ok (p, s) => some (runFrames dec sel false (fun s x => Agc.processR p s x) s frames)
  | "agcc" :: tg :: mg :: n :: tri :: tfa :: dec :: sel :: nf :: rest => do
    let tg ← parseF tg; let mg ← parseF mg; let n ← parseI n
    let tri ← parseF tri; let tfa ← parseF tfa; let dec ← dec.toNat?; let sel ← sel.toNat?; let nf ← nf.toNat?
    let frames ← takeFramesC nf rest
    match Agc.init tg mg n tri tfa with
    | .error _ => some "ERR"
    | .ok (p, s) =>
      let (_, outs) := frames.foldl (fun (acc : AgcState Float × List String) f =>
        let r := Agc.processC p acc.1 f
        let o := if sel == 0 then fmtFloatArr (decim dec r.2.1) else if sel == 1 then fmtCxArr (decimC dec r.2.2)
                 else fmtFloatArr (decim dec (r.2.1.map Float.log))
        (r.1, o :: acc.2)) (s, [])
      some (String.intercalate " " outs.reverse)
  | _ => none

end Dsp.Driver
