import DspVerif.Driver.Loop
import DspVerif.Driver.H13
/-! `dspdriver_c13`: model driver of property C13 -/
def main : IO Unit := Dsp.Driver.runDriver [Dsp.Driver.h13]
