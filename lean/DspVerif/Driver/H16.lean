import DspVerif.Driver.Proto
import DspVerif.Model.Order
/-! driver handlers for C16: the models of `Model/Order.lean` run at `Float` -/
namespace Dsp.Driver
open Dsp.Proto Dsp.Order

private def avgF : Float → Float → Float := avg2

/-- `k v1 … vk` of optional values; an out-of-bounds read of the model prints `OOB` -/
private def fmtOpts (l : List (Option Float)) : String :=
  if l.isEmpty then "0" else
    toString l.length ++ " " ++ String.intercalate " " (l.map fun o => match o with | some v => fmtF v | none => "OOB")

/-- split a sample list into frames of the given lengths -/
private def splitFrames (xs : List Float) : List Nat → List (List Float)
  | [] => []
  | l :: ls => xs.take l :: splitFrames (xs.drop l) ls

def h16 : List String → Option String
  | "sort" :: asc :: rest => do
    let (x, _) ← takeFloats rest
    let r := Order.sort x (asc == "1")
    some (fmtFloatArr r.1.toArray)
  | "median" :: rest => do
    let (x, _) ← takeFloats rest
    some (match Order.median avgF x.toList with | some v => fmtF v | none => "OOB")
  | "mf" :: n :: init :: rest => do
    let n ← parseI n
    let v ← parseF init
    let (ls, rest) ← takeInts rest
    let (x, _) ← takeFloats rest
    match MF.init n v with
    | .error _ => some "ERR"
    | .ok st => some (fmtOpts (st.processFrames avgF (splitFrames x.toList (ls.map Int.toNat))).2)
  | "medfilt" :: n :: rest => do
    let n ← parseI n
    let (x, _) ← takeFloats rest
    match Order.medfilt avgF (0.0 : Float) x.toList n with
    | .error _ => some "ERR"
    | .ok y => some (fmtOpts y)
  | "corr" :: k :: rest => do
    let k ← k.toNat?
    let (x, rest) ← takeFloats rest
    let (y, _) ← takeFloats rest
    match Order.corr x y k with
    | .error _ => some "ERR"
    | .ok r => some (fmtF r)
  | _ => none

end Dsp.Driver
