import DspVerif.Driver.Loop
import DspVerif.Driver.H03
/-! `dspdriver_c03`: model driver of property C03 -/
def main : IO Unit := Dsp.Driver.runDriver [Dsp.Driver.h03]
