import DspVerif.Driver.Loop
import DspVerif.Driver.H11
/-! `dspdriver_c11`: model driver of property C11 -/
def main : IO Unit := Dsp.Driver.runDriver [Dsp.Driver.h11]
