import DspVerif.Driver.Loop
import DspVerif.Driver.H19
/-! `dspdriver_c19`: model driver of property C19 -/
def main : IO Unit := Dsp.Driver.runDriver [Dsp.Driver.h19]
