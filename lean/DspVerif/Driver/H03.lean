import DspVerif.Driver.Proto
import DspVerif.Model.ArrayOps
/-! driver handlers for C03: parses the token language of `harness/c03.cpp` (`prog`, `form`, `sc`, `zpad`,
`concat`, `mcplx`, `mre`, `mim`, `mconj`, `mcast`), runs `Model/ArrayOps` at `Float`. -/
namespace Dsp.Driver
open Dsp.Proto Dsp.ArrayOps

namespace C03

def parseOp : String → Option Op
  | "add" => some .add
  | "sub" => some .sub
  | "mul" => some .mul
  | "div" => some .div
  | _ => none

/-- `R n x…` / `C n re im …` -/
def takeVal : List String → Option (Val Float × List String)
  | "R" :: rest => do
    let (a, rest) ← takeFloats rest
    pure (.r a.toList, rest)
  | "C" :: rest => do
    let (a, rest) ← takeCxs rest
    pure (.c a.toList, rest)
  | _ => none

/-- `r x` / `i n` / `c re im` / `z re im` (std::complex: converted field by field) -/
def takeSc : List String → Option (Sc Float × List String)
  | "r" :: x :: rest => do pure (.r (← parseF x), rest)
  | "i" :: n :: rest => do pure (.i (← parseI n), rest)
  | "c" :: re :: im :: rest => do pure (.c ⟨← parseF re, ← parseF im⟩, rest)
  | "z" :: re :: im :: rest => do pure (.c ⟨← parseF re, ← parseF im⟩, rest)
  | _ => none

partial def takeExpr : List String → Option (Expr Float × List String)
  | "v" :: k :: rest => do pure (.var (← k.toNat?), rest)
  | "l" :: rest => do
    let (v, rest) ← takeVal rest
    pure (.lit v, rest)
  | "neg" :: rest => do
    let (e, rest) ← takeExpr rest
    pure (.neg e, rest)
  | "pos" :: rest => do
    let (e, rest) ← takeExpr rest
    pure (.pos e, rest)
  | "aa" :: o :: rest => do
    let o ← parseOp o
    let (a, rest) ← takeExpr rest
    let (b, rest) ← takeExpr rest
    pure (.aa o a b, rest)
  | "as" :: o :: rest => do
    let o ← parseOp o
    let (s, rest) ← takeSc rest
    let (a, rest) ← takeExpr rest
    pure (.as o a s, rest)
  | "sa" :: o :: rest => do
    let o ← parseOp o
    let (s, rest) ← takeSc rest
    let (a, rest) ← takeExpr rest
    pure (.sa o s a, rest)
  | "cat" :: rest => do
    let (a, rest) ← takeExpr rest
    let (b, rest) ← takeExpr rest
    pure (.cat a b, rest)
  | "mask" :: rest => do
    let (m, rest) ← takeInts rest
    let (a, rest) ← takeExpr rest
    pure (.mask a (m.map (· != 0)), rest)
  | "idx" :: rest => do
    let (l, rest) ← takeInts rest
    let (a, rest) ← takeExpr rest
    pure (.idx a l, rest)
  | _ => none

def takeStmt : List String → Option (Stmt Float × List String)
  | "E" :: rest => do
    let (e, rest) ← takeExpr rest
    pure (.expr e, rest)
  | "SET" :: k :: rest => do
    let (e, rest) ← takeExpr rest
    pure (.set (← k.toNat?) e, rest)
  | "COPY" :: k :: j :: rest => do pure (.copy (← k.toNat?) (← j.toNat?), rest)
  | "CA" :: o :: k :: rest => do
    let (e, rest) ← takeExpr rest
    pure (.ca (← parseOp o) (← k.toNat?) e, rest)
  | "CS" :: o :: k :: rest => do
    let (s, rest) ← takeSc rest
    pure (.cs (← parseOp o) (← k.toNat?) s, rest)
  | "CATA" :: k :: rest => do
    let (e, rest) ← takeExpr rest
    pure (.cata (← k.toNat?) e, rest)
  | _ => none

def takeMany {β : Type} (f : List String → Option (β × List String)) : Nat → List String → Option (List β × List String)
  | 0, rest => some ([], rest)
  | n + 1, rest => do
    let (x, rest) ← f rest
    let (xs, rest) ← takeMany f n rest
    pure (x :: xs, rest)

def fmtVal : Val Float → String
  | .r a => "R " ++ fmtFloatArr a.toArray
  | .c a => "C " ++ fmtCxArr a.toArray

def fmtRes : Except String (Val Float) → String
  | .ok v => fmtVal v
  | .error _ => "ERR"

/-- sign-of-zero token of one component: `+` for +0, `-` for -0, `.` for anything else. check.py compares float
tokens numerically (so -0 = +0 there); this token is a non-float token and is compared exactly. -/
def zChar (x : Float) : Char :=
  if x == 0.0 then (if (x.toBits >>> 63) == 1 then '-' else '+') else '.'

def fmtZ : Val Float → String
  | .r a => "z:" ++ String.ofList (a.map zChar)
  | .c a => "z:" ++ String.ofList (a.foldr (fun w acc => zChar w.re :: zChar w.im :: acc) [])

/-- value followed by its sign-of-zero token (tags `prog`, `form`) -/
def fmtValZ (v : Val Float) : String := fmtVal v ++ " " ++ fmtZ v

def fmtResZ : Except String (Val Float) → String
  | .ok v => fmtValZ v
  | .error _ => "ERR"

/-- `nv env… ns stmts…` → results of the statements, `ENV`, final environment (all with sign-of-zero tokens) -/
def runProg : List String → Option String
  | nv :: rest => do
    let (env, rest) ← takeMany takeVal (← nv.toNat?) rest
    match rest with
    | ns :: rest =>
      let (stmts, rest) ← takeMany takeStmt (← ns.toNat?) rest
      if !rest.isEmpty then none else
      let (rs, env') := run env stmts
      some (String.intercalate " " (rs.map fmtResZ ++ ["ENV"] ++ env'.map fmtValZ))
    | [] => none
  | [] => none

def fmtCx (z : Cx Float) : String := fmtF z.re ++ " " ++ fmtF z.im

def cxBin (o : Op) (a b : Cx Float) : Cx Float :=
  match o with
  | .add => a + b
  | .sub => a - b
  | .mul => a * b
  | .div => a / b

def cxLeft (o : Op) (x : Float) (b : Cx Float) : Cx Float :=
  match o with
  | .add => Cx.radd x b
  | .sub => Cx.rsub x b
  | .mul => Cx.rmul x b
  | .div => Cx.rdiv x b

end C03
open C03

def h03 : List String → Option String
  | "prog" :: rest => runProg rest
  -- compiled C++ expression form with temporaries (`form <name> <kinds> <probe info…>` is documentation; the model
  -- evaluates the same expression tree, value categories do not exist in it)
  | "form" :: _name :: _kinds :: rest => runProg rest
  | ["sc", "cc", o, ar, ai, br, bi] => do
    some (fmtCx (cxBin (← parseOp o) ⟨← parseF ar, ← parseF ai⟩ ⟨← parseF br, ← parseF bi⟩))
  | ["sc", "cca", o, ar, ai, br, bi] => do
    some (fmtCx (opC (← parseOp o) ⟨← parseF ar, ← parseF ai⟩ ⟨← parseF br, ← parseF bi⟩))
  | ["sc", "cr", o, ar, ai, x] => do
    some (fmtCx (opCRn (← parseOp o) ⟨← parseF ar, ← parseF ai⟩ (← parseF x)))
  | ["sc", "cra", o, ar, ai, x] => do
    some (fmtCx (opCR (← parseOp o) ⟨← parseF ar, ← parseF ai⟩ (← parseF x)))
  | ["sc", "rc", o, x, br, bi] => do
    some (fmtCx (cxLeft (← parseOp o) (← parseF x) ⟨← parseF br, ← parseF bi⟩))
  | ["sc", "ic", o, n, br, bi] => do
    some (fmtCx (cxLeft (← parseOp o) (Float.ofInt (← parseI n)) ⟨← parseF br, ← parseF bi⟩))
  | ["sc", "neg", ar, ai] => do some (fmtCx (-(⟨← parseF ar, ← parseF ai⟩ : Cx Float)))
  | ["sc", "conj", ar, ai] => do some (fmtCx (Cx.conj ⟨← parseF ar, ← parseF ai⟩))
  | ["sc", "abs2", ar, ai] => do some (fmtF (Cx.abs2 ⟨← parseF ar, ← parseF ai⟩))
  | "zpad" :: rest => do
    let (v, rest) ← takeVal rest
    match rest with
    | [n] => some (fmtRes (zeropad v (← parseI n)))
    | _ => none
  | "concat" :: k :: rest => do
    let (vs, rest) ← takeMany takeVal (← k.toNat?) rest
    if !rest.isEmpty then none else
    match vs with
    | .r a1 :: _ =>
      let ls ← vs.mapM (fun v => match v with | .r a => some a | _ => none)
      some (fmtVal (.r (concatenate5 a1 (ls.getD 1 []) (ls.getD 2 []) (ls.getD 3 []) (ls.getD 4 []))))
    | .c a1 :: _ =>
      let ls ← vs.mapM (fun v => match v with | .c a => some a | _ => none)
      some (fmtVal (.c (concatenate5 a1 (ls.getD 1 []) (ls.getD 2 []) (ls.getD 3 []) (ls.getD 4 []))))
    | [] => none
  | "mcplx" :: rest => do
    let (re, rest) ← takeVal rest
    let (im, rest) ← takeVal rest
    if !rest.isEmpty then none else
    match re, im with
    | .r a, .r b => some (fmtRes ((complexOf a b).map .c))
    | _, _ => none
  | "mre" :: rest => do
    match ← takeVal rest with
    | (.c z, []) => some (fmtVal (.r (realOf z)))
    | _ => none
  | "mim" :: rest => do
    match ← takeVal rest with
    | (.c z, []) => some (fmtVal (.r (imagOf z)))
    | _ => none
  | "mconj" :: rest => do
    match ← takeVal rest with
    | (.c z, []) => some (fmtVal (.c (conjOf z)))
    | _ => none
  | "mcast" :: rest => do
    match ← takeVal rest with
    | (.r x, []) => some (fmtVal (.c (castOf x)))
    | _ => none
  | _ => none

end Dsp.Driver
