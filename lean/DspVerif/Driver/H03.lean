import DspVerif.Driver.Proto
/-! driver handlers for C03 (stub: no correspondence cases handled yet) -/
namespace Dsp.Driver
open Dsp.Proto

def h03 : List String → Option String
  | _ => none

end Dsp.Driver
