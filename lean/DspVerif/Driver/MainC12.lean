import DspVerif.Driver.Loop
import DspVerif.Driver.H12
/-! `dspdriver_c12`: model driver of property C12 -/
def main : IO Unit := Dsp.Driver.runDriver [Dsp.Driver.h12]
