import DspVerif.Driver.Loop
import DspVerif.Driver.H10
/-! `dspdriver_c10`: model driver of property C10 -/
def main : IO Unit := Dsp.Driver.runDriver [Dsp.Driver.h10]
