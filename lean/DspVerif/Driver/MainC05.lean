import DspVerif.Driver.Loop
import DspVerif.Driver.H05
/-! `dspdriver_c05`: model driver of property C05 -/
def main : IO Unit := Dsp.Driver.runDriver [Dsp.Driver.h05]
