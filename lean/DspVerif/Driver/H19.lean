import DspVerif.Driver.Proto
import DspVerif.Model.Noise
/-! driver handlers for C19 -/
namespace Dsp.Driver
open Dsp.Proto Dsp.Noise

/-- `(int)std::round(x)` (NaN → 0 after the clamp, as on x86-64) -/
def rndF (x : Float) : Int := (Float.round x).toInt64.toInt

def fmtThd (r : ThdRes Float) : String :=
  fmtF r.value ++ " " ++ fmtFloatArr r.harmpow.toArray ++ " " ++ fmtFloatArr r.harmfreq.toArray

def specFn (a : Array Float) : Nat → Float := fun i => a[i]!

def cmdOf (kind n : Nat) (lo hi : Int) (a b snr : Float) : Option (Cmd Float) :=
  let xr : List Float := (List.range n).map (fun i => a + Float.cos (0.7 * Float.ofNat i))
  let xc : List (Cx Float) := (List.range n).map (fun i => ⟨a + Float.cos (0.7 * Float.ofNat i), Float.sin (0.3 * Float.ofNat i)⟩)
  match kind with
  | 0 => some .rand
  | 1 => some (.randArr n)
  | 2 => some (.randRange a b n)
  | 3 => some .randn
  | 4 => some (.randnArr n)
  | 5 => some (.randi1 hi)
  | 6 => some (.randi1Arr hi n)
  | 7 => some (.randi lo hi)
  | 8 => some (.randiArr lo hi n)
  | 9 => some (.awgnR xr snr)
  | 10 => some (.awgnC xc snr)
  | _ => none

def parseOps : Nat → List String → Option (List (Cmd Float))
  | 0, _ => some []
  | k + 1, kind :: n :: lo :: hi :: a :: b :: snr :: rest => do
    let c ← cmdOf (← kind.toNat?) (← n.toNat?) (← parseI lo) (← parseI hi) (← parseF a) (← parseF b) (← parseF snr)
    let cs ← parseOps k rest
    some (c :: cs)
  | _, _ => none

def outTokens : Out Float → List String
  | .unit => []
  | .real v => [fmtF v]
  | .reals v => v.map fmtF
  | .int v => [toString v]
  | .ints v => v.map toString
  | .cmplxs v => v.flatMap (fun z => [fmtF z.re, fmtF z.im])

/-- the 64-bit pattern of an `int` as the harness stores it: `uint64_t(int64_t(v))` -/
def intWord (v : Int) : UInt64 := (v % 18446744073709551616).toNat.toUInt64

def outWords : Out Float → List UInt64
  | .unit => []
  | .real v => [v.toBits]
  | .reals v => v.map Float.toBits
  | .int v => [intWord v]
  | .ints v => v.map intWord
  | .cmplxs v => v.flatMap (fun z => [z.re.toBits, z.im.toBits])

/-- FNV-1a over 64-bit words (the digest of a long stream: `streamD`) -/
def fnvStep (h : UInt64) (u : UInt64) : UInt64 := (h ^^^ u) * 0x100000001b3

/-- count, digest, first and last word of the values a program returns -/
def digestOuts (outs : List (Out Float)) : String :=
  let (cnt, h, first, last) := outs.foldl (fun (acc : Nat × UInt64 × UInt64 × UInt64) o =>
    (outWords o).foldl (fun (a : Nat × UInt64 × UInt64 × UInt64) u =>
      let (c, h, f, _) := a
      (c + 1, fnvStep h u, if c == 0 then u else f, u)) acc) (0, 0xcbf29ce484222325, 0, 0)
  s!"{cnt} {h.toNat} {first.toNat} {last.toNat}"

def h19 : List String → Option String
  | "awgnR" :: snr :: rest => do
    let snr ← parseF snr
    let (x, rest) ← takeFloats rest
    let (z, _) ← takeFloats rest
    some (fmtFloatArr (awgnR x.toList z.toList snr).toArray)
  | "awgnC" :: snr :: rest => do
    let snr ← parseF snr
    let (x, rest) ← takeCxs rest
    let (zre, rest) ← takeFloats rest
    let (zim, _) ← takeFloats rest
    some (fmtCxArr (awgnC x.toList zre.toList zim.toList snr).toArray)
  | "harm" :: nharm :: al :: rest => do
    let nharm ← nharm.toNat?
    let al := al == "1"
    let (sp, _) ← takeFloats rest
    let s := specFn sp
    let n := sp.size
    let t := if nharm > 1 then fmtThd (thdPsd rndF n s nharm al) else "ERR"
    some (t ++ " " ++ fmtF (snrPsd rndF n s nharm al) ++ " " ++ fmtF (sinadPsd rndF n s))
  | "pgram" :: rest => do
    let (x, rest) ← takeFloats rest
    let (w, _) ← takeFloats rest
    some (fmtFloatArr (periodogram w.toList x.toList).toArray)
  | "measT" :: nharm :: al :: rest => do
    let nharm ← nharm.toNat?
    let al := al == "1"
    let (x, rest) ← takeFloats rest
    let (w, _) ← takeFloats rest
    let p := (periodogram w.toList x.toList).toArray
    let s := specFn p
    let r := thdPsd rndF p.size s nharm al
    some (fmtF r.value ++ " " ++ fmtFloatArr r.harmfreq.toArray ++ " " ++ fmtF (snrPsd rndF p.size s nharm al) ++ " " ++
      fmtF (sinadPsd rndF p.size s))
  | "stream" :: seed :: imf :: len :: rest => do
    let seed ← parseI seed
    let prog ← parseOps (← len.toNat?) rest
    let (outs, _) := run stdMT (imf == "1") prog (rng stdMT seed (MT.seed 0))
    let toks := outs.flatMap outTokens
    some (String.intercalate " " (toString toks.length :: toks))
  | "streamD" :: seed :: imf :: len :: rest => do
    let seed ← parseI seed
    let prog ← parseOps (← len.toNat?) rest
    let (outs, _) := run stdMT (imf == "1") prog (rng stdMT seed (MT.seed 0))
    some (digestOuts outs)
  | _ => none

end Dsp.Driver
