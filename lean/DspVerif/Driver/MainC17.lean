import DspVerif.Driver.Loop
import DspVerif.Driver.H17
/-! `dspdriver_c17`: model driver of property C17 -/
def main : IO Unit := Dsp.Driver.runDriver [Dsp.Driver.h17]
