import DspVerif.Driver.Loop
import DspVerif.Driver.H20
/-! `dspdriver_c20`: model driver of property C20 -/
def main : IO Unit := Dsp.Driver.runDriver [Dsp.Driver.h20]
