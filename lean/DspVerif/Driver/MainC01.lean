import DspVerif.Driver.Loop
import DspVerif.Driver.H01
/-! `dspdriver_c01`: model driver of property C01 -/
def main : IO Unit := Dsp.Driver.runDriver [Dsp.Driver.h01]
