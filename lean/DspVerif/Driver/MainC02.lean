import DspVerif.Driver.Loop
import DspVerif.Driver.H02
/-! `dspdriver_c02`: model driver of property C02 -/
def main : IO Unit := Dsp.Driver.runDriver [Dsp.Driver.h02]
