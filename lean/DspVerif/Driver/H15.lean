import DspVerif.Driver.Proto
import DspVerif.Model.Primes
/-! driver handlers for C15 -/
namespace Dsp.Driver
open Dsp.Proto Dsp.Primes

def h15 : List String → Option String
  | ["isprime", n] => do let n ← n.toNat?; some (if isprime n then "1" else "0")
  | ["factor", n] => do let n ← n.toNat?; some (fmtIntList (factorInt n))
  | ["nextprime", n] => do let n ← n.toNat?; some (toString (nextprime n))
  | ["primes", n] => do
    let n ← n.toNat?
    let p := primes n
    let cs := p.foldl (fun (acc : Nat) q => (acc * 31 + q) % 1000000007) 0
    some s!"{p.length} {cs}"
  | ["pow2", m] => do let m ← m.toNat?; some s!"{nextpow2 m} {if ispow2 m then 1 else 0}"
  | _ => none

end Dsp.Driver
