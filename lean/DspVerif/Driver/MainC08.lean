import DspVerif.Driver.Loop
import DspVerif.Driver.H08
/-! `dspdriver_c08`: model driver of property C08 -/
def main : IO Unit := Dsp.Driver.runDriver [Dsp.Driver.h08]
