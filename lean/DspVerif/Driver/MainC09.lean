import DspVerif.Driver.Loop
import DspVerif.Driver.H09
/-! `dspdriver_c09`: model driver of property C09 -/
def main : IO Unit := Dsp.Driver.runDriver [Dsp.Driver.h09]
