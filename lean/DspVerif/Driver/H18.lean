import DspVerif.Driver.Proto
import DspVerif.Model.Fft
import DspVerif.Model.Detect
/-! driver handlers for C18: `delayseq`, `peakloc`, `finddelay`, `gccphat`, `PreambleDetector` models at `Float`.

The transform parameters of the models are instantiated with the C01 model of the library's own plan family
(`Model/Fft.lean`: `fftR` / `fftC` select the plan exactly as `create_rfft_plan` / `create_fft_plan` do, `ifftWith` is
`IfftPlan::solve`), so the correlation arrays agree with the library's to rounding noise of the same algorithm. -/
namespace Dsp.Driver
open Dsp.Proto Dsp.Detect

/-- the literals of the small FFT kernels as written in the source (regenerated) -/
def lits18 : Fft.Lits Float := ⟨Gen.fft8_c0, Gen.rfft8_c0, Gen.dft3_c0⟩

/-- `fft(const arr_real&)` -/
def fftr18 (x : Array Float) : Array (Cx Float) := Fft.fftR lits18 x.size x
/-- `fft(const arr_cmplx&)` -/
def fftc18 (x : Array (Cx Float)) : Array (Cx Float) := Fft.fftC lits18 x.size x
/-- `ifft(const arr_cmplx&)` -/
def ifft18 (x : Array (Cx Float)) : Array (Cx Float) := Fft.ifftWith (Fft.fftC lits18 x.size) x.size x

def takeArrsF : Nat → List String → Option (List (Array Float) × List String)
  | 0, r => some ([], r)
  | n + 1, r => do
    let (x, r) ← takeFloats r
    let (xs, r) ← takeArrsF n r
    pure (x :: xs, r)

def takeNats : Nat → List String → Option (List Nat × List String)
  | 0, r => some ([], r)
  | n + 1, r => do
    let v ← (← r.head?).toNat?
    let (vs, r) ← takeNats n r.tail
    pure (v :: vs, r)

/-- run the calls of one detector case: `fpc` = frames per call -/
def runDet (s : DetState Float) (x : Array (Cx Float)) : List Nat → Nat → List String → String
  | [], _, acc => String.intercalate " " acc.reverse
  | fc :: rest, pos, acc =>
    let len := fc * s.frameLen
    match detProcess fftc18 ifft18 s (x.extract pos (pos + len)) with
    | .error _ => String.intercalate " " ("ERR" :: acc).reverse
    | .ok (s', none) => runDet s' x rest (pos + len) ("0" :: acc)
    | .ok (s', some r) =>
      runDet s' x rest (pos + len) (("1 " ++ toString r.offset ++ " " ++ fmtF r.score ++ " " ++ fmtCxArr r.preamble) :: acc)

/-! ### `det2`: call HISTORIES of one detector (process / rejected process / empty process / reset) on explicit or generated streams -/

/-- splitmix64 finaliser (the harness's `mix64`) -/
def mix64 (z : UInt64) : UInt64 :=
  let z := (z ^^^ (z >>> 30)) * 0xbf58476d1ce4e5b9
  let z := (z ^^^ (z >>> 27)) * 0x94d049bb133111eb
  z ^^^ (z >>> 31)

/-- the harness's `bg_val`: kind 0 `+0`, kind 2 `-0`, kind 1 `((z >> 11) - 2^52) * 2^(k-52)` (exact in double) -/
def bgVal (kind : Nat) (seed : UInt64) (k : Int) (idx : Nat) : Float :=
  if kind == 0 then 0.0
  else if kind == 2 then -0.0
  else
    let z := mix64 (seed + (UInt64.ofNat (idx + 1)) * 0x9e3779b97f4a7c15)
    Float.scaleB ((z >>> 11).toFloat - 4503599627370496.0) (k - 52)

/-- overwrite `v.size` samples ending at index `e` -/
def insertAt (x : Array (Cx Float)) (e : Nat) (v : Array (Cx Float)) : Array (Cx Float) :=
  (List.range v.size).foldl (fun (x : Array (Cx Float)) j => x.setIfInBounds (e + 1 - v.size + j) (v.getD j ⟨0.0, 0.0⟩)) x

def takeInsertions : Nat → List String → Option (List (Nat × Array (Cx Float)) × List String)
  | 0, r => some ([], r)
  | n + 1, r => do
    let e ← (← r.head?).toNat?
    let (v, r) ← takeCxs r.tail
    let (vs, r) ← takeInsertions n r
    pure ((e, v) :: vs, r)

/-- `X <cxarr>` or `G kind seed k n nins (e <cxarr>)*` -/
def takeStream : List String → Option (Array (Cx Float) × List String)
  | "X" :: rest => takeCxs rest
  | "G" :: kind :: seed :: k :: n :: nins :: rest => do
    let kind ← kind.toNat?
    let seed ← seed.toNat?
    let k ← parseI k
    let n ← n.toNat?
    let nins ← nins.toNat?
    let (ins, rest) ← takeInsertions nins rest
    let sd := UInt64.ofNat seed
    let x : Array (Cx Float) := Array.ofFn (n := n) fun i => ⟨bgVal kind sd k (2 * i.val), bgVal kind sd k (2 * i.val + 1)⟩
    pure (ins.foldl (fun x (ev : Nat × Array (Cx Float)) => insertAt x ev.1 ev.2) x, rest)
  | _ => none

/-- `nrun (cnt L)*` → the expanded list of operations -/
def takeOps : Nat → List String → Option (List Int)
  | 0, _ => some []
  | n + 1, c :: l :: rest => do
    let c ← c.toNat?
    let l ← parseI l
    let tl ← takeOps n rest
    pure (List.replicate c l ++ tl)
  | _, _ => none

/-- run a script: `L > 0` process the next `L` samples (a rejected length prints `ERR` and leaves the state untouched), `0` an empty call, `-1` `reset()` -/
def runOps (s : DetState Float) (x : Array (Cx Float)) : List Int → Nat → Nat → List String → String
  | [], _, k, acc => String.intercalate " " (("END " ++ toString k) :: acc).reverse
  | op :: rest, pos, k, acc =>
    if op < 0 then runOps (detReset fftc18 ifft18 s) x rest pos (k + 1) acc
    else
      let len := op.toNat
      match detProcess fftc18 ifft18 s (x.extract pos (pos + len)) with
      | .error _ => runOps s x rest (pos + len) (k + 1) ((toString k ++ " ERR") :: acc)
      | .ok (s', none) => runOps s' x rest (pos + len) (k + 1) acc
      | .ok (s', some r) =>
        runOps s' x rest (pos + len) (k + 1) ((toString k ++ " D " ++ toString r.offset ++ " " ++ fmtF r.score ++ " " ++ fmtCxArr r.preamble) :: acc)

def fmtGcc (fs : Int) (r : Float × Array (Cx Float)) : String :=
  toString (MathFns.argmax MathFns.clt r.2.toList) ++ " " ++ fmtF (r.1 * Float.ofInt fs)

def h18 : List String → Option String
  | "dsR" :: d :: rest => do
    let d ← parseI d
    let (x, _) ← takeFloats rest
    some (fmtFloatArr (MathFns.delayseq 0.0 x d))
  | "dsC" :: d :: rest => do
    let d ← parseI d
    let (x, _) ← takeCxs rest
    some (fmtCxArr (MathFns.delayseq ⟨0.0, 0.0⟩ x d))
  | "plR" :: idx :: cyc :: rest => do
    let idx ← idx.toNat?
    let (x, _) ← takeFloats rest
    some (fmtF (peaklocR x idx (cyc == "1")))
  | "plC" :: idx :: cyc :: rest => do
    let idx ← idx.toNat?
    let (x, _) ← takeCxs rest
    some (fmtF (peaklocC x idx (cyc == "1")))
  | "fdR" :: rest => do
    let (a, rest) ← takeFloats rest
    let (b, _) ← takeFloats rest
    some (toString (finddelayR fftr18 ifft18 a b))
  | "fdC" :: rest => do
    let (a, rest) ← takeCxs rest
    let (b, _) ← takeCxs rest
    some (toString (finddelayC fftc18 ifft18 a b))
  | "gcc" :: fs :: rest => do
    let fs ← parseI fs
    let (sig, rest) ← takeFloats rest
    let (ref, _) ← takeFloats rest
    match gccphat fftr18 ifft18 sig ref fs with
    | .error _ => some "ERR"
    | .ok r => some (fmtGcc fs r)
  | "gccm" :: fs :: nch :: rest => do
    let fs ← parseI fs
    let nch ← nch.toNat?
    let (sigs, rest) ← takeArrsF nch rest
    let (ref, _) ← takeFloats rest
    match gccphatMulti fftr18 ifft18 sigs ref fs with
    | .error _ => some "ERR"
    | .ok rs => some (String.intercalate " " (rs.map (fmtGcc fs)))
  | "det" :: thr :: rest => do
    let thr ← parseF thr
    let (h, rest) ← takeCxs rest
    let nc ← (← rest.head?).toNat?
    let (fpc, rest) ← takeNats nc rest.tail
    let (x, _) ← takeCxs rest
    let s0 := detInit fftc18 h thr
    some (toString s0.frameLen ++ " " ++ runDet s0 x fpc 0 [])
  | "det2" :: thr :: rest => do
    let thr ← parseF thr
    let (h, rest) ← takeCxs rest
    let (x, rest) ← takeStream rest
    let nrun ← (← rest.head?).toNat?
    let ops ← takeOps nrun rest.tail
    let s0 := detInit fftc18 h thr
    some (toString s0.frameLen ++ " " ++ runOps s0 x ops 0 0 [])
  | _ => none

end Dsp.Driver
