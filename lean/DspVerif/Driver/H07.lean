import DspVerif.Driver.Proto
import DspVerif.Model.Fir
/-! driver handlers for C07: `FirFilter`, `FftFilter`, `xcorr`, `MAFilter` models at `Float`.

The models of `FftFilter` and `xcorr` take the transform as a parameter; the driver instantiates it with the
plain radix-2 decimation-in-time FFT below (all lengths used by these two kernels are powers of two).  It is a
*different* algorithm from the library's plan tree, so the FFT based tags are compared with a tolerance. -/
namespace Dsp.Driver
open Dsp.Proto Dsp.Fir

/-- radix-2 DIT FFT of length `2^lg`; `sgn = -1` forward, `+1` inverse (unnormalised) -/
def fftPow2 (sgn : Float) : Nat → Array (Cx Float) → Array (Cx Float)
  | 0, a => a
  | lg + 1, a =>
    let half := 2 ^ lg
    let e := fftPow2 sgn lg (Array.ofFn (n := half) fun i => a.getD (2 * i.val) ⟨0, 0⟩)
    let o := fftPow2 sgn lg (Array.ofFn (n := half) fun i => a.getD (2 * i.val + 1) ⟨0, 0⟩)
    Array.ofFn (n := 2 * half) fun k =>
      let j := k.val % half
      let th := 2.0 * 3.141592653589793238463 * j.toFloat / (2 * half).toFloat
      let w : Cx Float := ⟨Float.cos th, sgn * Float.sin th⟩
      let t := w * o.getD j ⟨0, 0⟩
      if k.val < half then e.getD j ⟨0, 0⟩ + t else e.getD j ⟨0, 0⟩ - t

def fftF (a : Array (Cx Float)) : Array (Cx Float) := fftPow2 (-1.0) (Nat.log2 a.size) a
def ifftF (a : Array (Cx Float)) : Array (Cx Float) :=
  (fftPow2 1.0 (Nat.log2 a.size) a).map fun z => Cx.divr z a.size.toFloat

/-- every `stride`-th element (index 0, stride, 2·stride, …) -/
def decim {γ : Type} [Inhabited γ] (a : Array γ) (stride : Nat) : Array γ :=
  Array.ofFn (n := (a.size + stride - 1) / stride) fun i => a[i.val * stride]!

def takeFramesF : Nat → List String → Option (List (Array Float) × List String)
  | 0, r => some ([], r)
  | n + 1, r => do
    let (x, r) ← takeFloats r
    let (xs, r) ← takeFramesF n r
    pure (x :: xs, r)

def takeFramesC : Nat → List String → Option (List (Array (Cx Float)) × List String)
  | 0, r => some ([], r)
  | n + 1, r => do
    let (x, r) ← takeCxs r
    let (xs, r) ← takeFramesC n r
    pure (x :: xs, r)

/-- `‖h‖₂·‖x‖₂` over all frames: the scale token of the FFT based tags -/
def scaleR (h : Array Float) (frames : List (Array Float)) : Float :=
  let ss (a : Array Float) := a.foldl (fun s v => s + v * v) 0.0
  Float.sqrt (ss h) * Float.sqrt (frames.foldl (fun s f => s + ss f) 0.0)
def scaleC (h : Array (Cx Float)) (frames : List (Array (Cx Float))) : Float :=
  let ss (a : Array (Cx Float)) := a.foldl (fun s v => s + (v.re * v.re + v.im * v.im)) 0.0
  Float.sqrt (ss h) * Float.sqrt (frames.foldl (fun s f => s + ss f) 0.0)

/-- thread a processor state through the frames of one case, formatting every frame's output -/
def runFrames {σ γ : Type} (step : σ → γ → σ × String) (s : σ) (frames : List γ) : String :=
  let r := frames.foldl (fun (acc : σ × List String) fr => let q := step acc.1 fr; (q.1, q.2 :: acc.2)) (s, [])
  String.intercalate " " r.2.reverse

def h07 : List String → Option String
  | "firR" :: stride :: rest => do
    let stride ← stride.toNat?
    let (h, rest) ← takeFloats rest
    let nf ← (← rest.head?).toNat?
    let (frames, _) ← takeFramesF nf rest.tail
    some (runFrames (fun s x => let r := firProcessR s x; (r.1, fmtFloatArr (decim r.2 stride))) (firInitR h) frames)
  | "firC" :: stride :: rest => do
    let stride ← stride.toNat?
    let (h, rest) ← takeCxs rest
    let nf ← (← rest.head?).toNat?
    let (frames, _) ← takeFramesC nf rest.tail
    some (runFrames (fun s x => let r := firProcessC s x; (r.1, fmtCxArr (decim r.2 stride))) (firInitC h) frames)
  | "fftR" :: stride :: rest => do
    let stride ← stride.toNat?
    let (h, rest) ← takeFloats rest
    let nf ← (← rest.head?).toNat?
    let (frames, _) ← takeFramesF nf rest.tail
    let s0 := fftInitR fftF h
    some (toString s0.n ++ " " ++ fmtF (scaleR h frames) ++ " " ++
      runFrames (fun s x => let r := fftProcessR fftF ifftF s x; (r.1, fmtFloatArr (decim r.2 stride))) s0 frames)
  | "fftC" :: stride :: rest => do
    let stride ← stride.toNat?
    let (h, rest) ← takeCxs rest
    let nf ← (← rest.head?).toNat?
    let (frames, _) ← takeFramesC nf rest.tail
    let s0 := fftInitC fftF h
    some (toString s0.n ++ " " ++ fmtF (scaleC h frames) ++ " " ++
      runFrames (fun s x => let r := fftProcessC fftF ifftF s x; (r.1, fmtCxArr (decim r.2 stride))) s0 frames)
  | "xcR" :: rest => do
    let (a, rest) ← takeFloats rest
    let (b, _) ← takeFloats rest
    some (fmtFloatArr (xcorrR fftF ifftF a b))
  | "xcC" :: rest => do
    let (a, rest) ← takeCxs rest
    let (b, _) ← takeCxs rest
    some (fmtCxArr (xcorrC fftF ifftF a b))
  | "maR" :: n :: nf :: rest => do
    let n ← n.toNat?
    let nf ← nf.toNat?
    let (frames, _) ← takeFramesF nf rest
    some (runFrames (fun s x => let r := maProcessR s x; (r.1, fmtFloatArr r.2)) (maInitR n) frames)
  | "maC" :: n :: nf :: rest => do
    let n ← n.toNat?
    let nf ← nf.toNat?
    let (frames, _) ← takeFramesC nf rest
    some (runFrames (fun s x => let r := maProcessC s x; (r.1, fmtCxArr r.2)) (maInitC n) frames)
  | _ => none

end Dsp.Driver
