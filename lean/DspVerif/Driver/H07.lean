import DspVerif.Driver.Proto
import DspVerif.Model.Fir
import DspVerif.Model.Fft
/-! driver handlers for C07: `FirFilter`, `FftFilter`, `xcorr`, `MAFilter` models at `Float`.

The models of `FftFilter` and `xcorr` take the transform pair as parameters; the driver instantiates them with the C01
model of the library's plans at `Float` -- `fft(x)` = `FftPlan(x.size())(x)` = `Fft.fftC lits x.size x` and `ifft(X)` =
`IfftPlan(X.size())(X)` = `Fft.ifftWith (Fft.fftC lits X.size) X.size X` -- i.e. exactly the instantiation
(`libFft` / `libIfft`) the theorems of `Props/C07Total.lean` are about, with the literals regenerated from the source. -/
namespace Dsp.Driver
open Dsp.Proto Dsp.Fir

/-- the literals of the small kernels as written in the source (regenerated) -/
def lits : Fft.Lits Float := ⟨Gen.fft8_c0, Gen.rfft8_c0, Gen.dft3_c0⟩

/-- `fft(const arr_cmplx&)` = `FftPlan(n).solve` (`C07.libFft` at `Float`) -/
def fftF (x : Array (Cx Float)) : Array (Cx Float) := Fft.fftC lits x.size x
/-- `ifft(const arr_cmplx&)` = `IfftPlan(n).solve` (`C07.libIfft` at `Float`) -/
def ifftF (X : Array (Cx Float)) : Array (Cx Float) := Fft.ifftWith (Fft.fftC lits X.size) X.size X

/-- every `stride`-th element (index 0, stride, 2·stride, …) -/
def decim {γ : Type} [Inhabited γ] (a : Array γ) (stride : Nat) : Array γ :=
  Array.ofFn (n := (a.size + stride - 1) / stride) fun i => a[i.val * stride]!

def takeFramesF : Nat → List String → Option (List (Array Float) × List String)
  | 0, r => some ([], r)
  | n + 1, r => do
    let (x, r) ← takeFloats r
    let (xs, r) ← takeFramesF n r
    pure (x :: xs, r)

def takeFramesC : Nat → List String → Option (List (Array (Cx Float)) × List String)
  | 0, r => some ([], r)
  | n + 1, r => do
    let (x, r) ← takeCxs r
    let (xs, r) ← takeFramesC n r
    pure (x :: xs, r)

/-- thread a processor state through the frames of one case, formatting every frame's output -/
def runFrames {σ γ : Type} (step : σ → γ → σ × String) (s : σ) (frames : List γ) : String :=
  let r := frames.foldl (fun (acc : σ × List String) fr => let q := step acc.1 fr; (q.1, q.2 :: acc.2)) (s, [])
  String.intercalate " " r.2.reverse

def h07 : List String → Option String
  | "firR" :: stride :: rest => do
    let stride ← stride.toNat?
    let (h, rest) ← takeFloats rest
    let nf ← (← rest.head?).toNat?
    let (frames, _) ← takeFramesF nf rest.tail
    some (runFrames (fun s x => let r := firProcessR s x; (r.1, fmtFloatArr (decim r.2 stride))) (firInitR h) frames)
  | "firC" :: stride :: rest => do
    let stride ← stride.toNat?
    let (h, rest) ← takeCxs rest
    let nf ← (← rest.head?).toNat?
    let (frames, _) ← takeFramesC nf rest.tail
    some (runFrames (fun s x => let r := firProcessC s x; (r.1, fmtCxArr (decim r.2 stride))) (firInitC h) frames)
  | "fftR" :: stride :: rest => do
    let stride ← stride.toNat?
    let (h, rest) ← takeFloats rest
    let nf ← (← rest.head?).toNat?
    let (frames, _) ← takeFramesF nf rest.tail
    let s0 := fftInitR fftF h
    some (toString s0.n ++ " " ++
      runFrames (fun s x => let r := fftProcessR fftF ifftF s x; (r.1, fmtFloatArr (decim r.2 stride))) s0 frames)
  | "fftC" :: stride :: rest => do
    let stride ← stride.toNat?
    let (h, rest) ← takeCxs rest
    let nf ← (← rest.head?).toNat?
    let (frames, _) ← takeFramesC nf rest.tail
    let s0 := fftInitC fftF h
    some (toString s0.n ++ " " ++
      runFrames (fun s x => let r := fftProcessC fftF ifftF s x; (r.1, fmtCxArr (decim r.2 stride))) s0 frames)
  | "xcR" :: rest => do
    let (a, rest) ← takeFloats rest
    let (b, _) ← takeFloats rest
    some (fmtFloatArr (xcorrR fftF ifftF a b))
  | "xcC" :: rest => do
    let (a, rest) ← takeCxs rest
    let (b, _) ← takeCxs rest
    some (fmtCxArr (xcorrC fftF ifftF a b))
  | "maR" :: n :: nf :: rest => do
    let n ← n.toNat?
    let nf ← nf.toNat?
    let (frames, _) ← takeFramesF nf rest
    some (runFrames (fun s x => let r := maProcessR s x; (r.1, fmtFloatArr r.2)) (maInitR n) frames)
  | "maC" :: n :: nf :: rest => do
    let n ← n.toNat?
    let nf ← nf.toNat?
    let (frames, _) ← takeFramesC nf rest
    some (runFrames (fun s x => let r := maProcessC s x; (r.1, fmtCxArr r.2)) (maInitC n) frames)
  | _ => none

end Dsp.Driver
