import DspVerif.Scalar
/-! Line-protocol helpers for the model driver (core only). -/
namespace Dsp.Proto

def hexDigit (c : Char) : Option UInt64 :=
  if '0' ≤ c ∧ c ≤ '9' then some (c.toNat - '0'.toNat).toUInt64
  else if 'a' ≤ c ∧ c ≤ 'f' then some (c.toNat - 'a'.toNat + 10).toUInt64
  else none

/-- `x%016llx` → Float -/
def parseF (s : String) : Option Float :=
  match s.toList with
  | 'x' :: ds =>
    if ds.length ≠ 16 then none else
    (ds.foldlM (fun (acc : UInt64) c => (hexDigit c).map (fun d => acc * 16 + d)) 0).map Float.ofBits
  | _ => none

def hexChar (d : UInt64) : Char :=
  if d < 10 then Char.ofNat ('0'.toNat + d.toNat) else Char.ofNat ('a'.toNat + d.toNat - 10)

def fmtF (f : Float) : String :=
  let b := f.toBits
  let ds := (List.range 16).map (fun i => hexChar ((b >>> (4 * (15 - i)).toUInt64) &&& 0xF))
  "x" ++ String.ofList ds

def parseI (s : String) : Option Int := s.toInt?

def fmtInts (l : List Int) : String := String.intercalate " " (l.map toString)

/-- `k v1 … vk` -/
def fmtIntList (l : List Int) : String :=
  if l.isEmpty then "0" else toString l.length ++ " " ++ fmtInts l

def fmtFloats (l : List Float) : String := String.intercalate " " (l.map fmtF)

def fmtFloatArr (a : Array Float) : String :=
  if a.isEmpty then "0" else toString a.size ++ " " ++ fmtFloats a.toList

def fmtCxArr (a : Array (Cx Float)) : String :=
  if a.isEmpty then "0" else
    toString a.size ++ " " ++ String.intercalate " " (a.toList.map (fun z => fmtF z.re ++ " " ++ fmtF z.im))

/-- parse `k v1 … vk` from the front of a token list -/
def takeFloats : List String → Option (Array Float × List String)
  | [] => none
  | k :: rest => do
    let n ← k.toNat?
    if rest.length < n then none else
    let xs ← (rest.take n).mapM parseF
    pure (xs.toArray, rest.drop n)

def takeCxs : List String → Option (Array (Cx Float) × List String)
  | [] => none
  | k :: rest => do
    let n ← k.toNat?
    if rest.length < 2 * n then none else
    let xs ← (rest.take (2 * n)).mapM parseF
    let rec pair : List Float → List (Cx Float)
      | a :: b :: t => ⟨a, b⟩ :: pair t
      | _ => []
    pure ((pair xs).toArray, rest.drop (2 * n))

def takeInts : List String → Option (List Int × List String)
  | [] => none
  | k :: rest => do
    let n ← k.toNat?
    if rest.length < n then none else
    let xs ← (rest.take n).mapM parseI
    pure (xs, rest.drop n)

end Dsp.Proto
