import DspVerif.Driver.Proto
/-! shared stdin/stdout loop of the per-property model drivers: reads `C <tag> <args…> | …` lines,
prints the model's outputs, one line per case, in order.  Unknown tags print `UNSUPPORTED`. -/
namespace Dsp.Driver

def handleWith (handlers : List (List String → Option String)) (toks : List String) : String :=
  match handlers.findSome? (fun h => h toks) with
  | some s => s
  | none => "UNSUPPORTED"

partial def loop (handlers : List (List String → Option String)) (h : IO.FS.Stream) (out : IO.FS.Stream) : IO Unit := do
  let line ← h.getLine
  if line.isEmpty then return ()
  if line.startsWith "C " && (line.splitOn " | ").length > 1 then
    let body := (line.drop 2).toString
    let lhs := (body.splitOn " | ").headD ""
    let toks := (lhs.trimAscii.toString.splitOn " ").filter (· ≠ "")
    out.putStrLn (handleWith handlers toks)
  loop handlers h out

def runDriver (handlers : List (List String → Option String)) : IO Unit := do
  let out ← IO.getStdout
  loop handlers (← IO.getStdin) out
  out.flush

end Dsp.Driver
