import DspVerif.Driver.Proto
import DspVerif.Model.Ifft
/-! driver handlers for C02: `ifft`, `irfft`, `iscola`, `stft`, `istft` of `Model/Ifft.lean` run at `Float` -/
namespace Dsp.Driver
open Dsp.Proto Dsp.Ifft

/-- the literals of the small forward kernels as written in the source (regenerated) -/
def lits02 : Fft.Lits Float := ⟨Gen.fft8_c0, Gen.rfft8_c0, Gen.dft3_c0⟩

/-- splitmix-style generator shared with `harness/c02.cpp` (`mix`, `gen_re`, `gen_im`) -/
def mix02 (m s : UInt64) : UInt64 :=
  let z := (m + 1) * 0x9e3779b97f4a7c15 + s * 0xbf58476d1ce4e5b9
  let z := z ^^^ (z >>> 29)
  let z := z * 0x94d049bb133111eb
  z ^^^ (z >>> 32)

def genRe02 (m s : UInt64) : Float := (Float.ofNat ((mix02 m s) % 4001).toNat - 2000.0) / 2048.0
def genIm02 (m s : UInt64) : Float := (Float.ofNat (((mix02 m s) >>> 20) % 4001).toNat - 2000.0) / 2048.0

/-- `digest(arr_cmplx)` of `harness/c02.cpp`: 8 cells + 2 weighted sums -/
def digestC02 (y : Array (Cx Float)) : String :=
  let n := y.size
  let z : Cx Float := ⟨0.0, 0.0⟩
  let cells := (List.range 8).map (fun i =>
    let k := ((i * n) / 8 + (i % 3)) % n
    let v := y.getD k z
    fmtF v.re ++ " " ++ fmtF v.im)
  let acc := (List.range n).foldl (fun (a : Float × Float × Float × Float) k =>
    let v := y.getD k z
    let g0 : Float := if k % 2 == 1 then -1.0 else 1.0
    let g1 : Float := Float.ofNat (k % 7) - 3.0
    (a.1 + v.re * g0, a.2.1 + v.im * g0, a.2.2.1 + v.re * g1, a.2.2.2 + v.im * g1)) (0.0, 0.0, 0.0, 0.0)
  toString n ++ " " ++ String.intercalate " " cells ++ " " ++ fmtFloats [acc.1, acc.2.1, acc.2.2.1, acc.2.2.2]

/-- `digest(arr_real)` -/
def digestR02 (y : Array Float) : String :=
  let n := y.size
  let cells := (List.range 8).map (fun i => fmtF (y.getD (((i * n) / 8 + (i % 3)) % n) 0.0))
  let acc := (List.range n).foldl (fun (a : Float × Float) k =>
    let v := y.getD k 0.0
    (a.1 + v * (if k % 2 == 1 then -1.0 else 1.0), a.2 + v * (Float.ofNat (k % 7) - 3.0))) (0.0, 0.0)
  toString n ++ " " ++ String.intercalate " " cells ++ " " ++ fmtFloats [acc.1, acc.2]

/-- `nseg flen v…` → frames -/
def takeFrames : List String → Option (Array (Array (Cx Float)) × List String)
  | ns :: fl :: rest => do
    let nseg ← ns.toNat?
    let flen ← fl.toNat?
    if rest.length < 2 * nseg * flen then none else
    let xs ← (rest.take (2 * nseg * flen)).mapM parseF
    let arr := xs.toArray
    let frames := Array.ofFn (n := nseg) (fun i =>
      Array.ofFn (n := flen) (fun k => (⟨arr.getD (2 * (i.val * flen + k.val)) 0.0, arr.getD (2 * (i.val * flen + k.val) + 1) 0.0⟩ : Cx Float)))
    pure (frames, rest.drop (2 * nseg * flen))
  | _ => none

def fmtFrames (s : Array (Array (Cx Float))) : String :=
  let flen := (s.getD 0 #[]).size
  let body := s.toList.flatMap (fun f => f.toList.flatMap (fun z => [fmtF z.re, fmtF z.im]))
  String.intercalate " " ([toString s.size, toString flen] ++ body)

def h02 : List String → Option String
  | "ifft" :: rest => do
    let (x, _) ← takeCxs rest
    match ifft lits02 x with
    | .ok y => some (fmtCxArr y)
    | .error _ => some "ERR"
  | "ifftg" :: n :: s :: _ => do
    let n ← n.toNat?
    let s ← s.toNat?
    let x : Array (Cx Float) := Array.ofFn (n := n) (fun i => ⟨genRe02 i.val.toUInt64 s.toUInt64, genIm02 i.val.toUInt64 s.toUInt64⟩)
    match ifft lits02 x with
    | .ok y => some (digestC02 y)
    | .error _ => some "ERR"
  | "irfft" :: n :: rest => do
    let n ← n.toNat?
    let (x, _) ← takeCxs rest
    match irfft lits02 n x with
    | .ok y => some (fmtFloatArr y)
    | .error _ => some "ERR"
  | "irfftg" :: n :: sz :: s :: _ => do
    let n ← n.toNat?
    let sz ← sz.toNat?
    let s ← s.toNat?
    let x : Array (Cx Float) := Array.ofFn (n := sz) (fun i => ⟨genRe02 i.val.toUInt64 s.toUInt64, genIm02 i.val.toUInt64 s.toUInt64⟩)
    match irfft lits02 n x with
    | .ok y => some (digestR02 y)
    | .error _ => some "ERR"
  | "iscola" :: m :: ov :: rest => do
    let m ← m.toNat?
    let ov ← ov.toNat?
    let (w, _) ← takeFloats rest
    match iscola w ov (if m = 0 then 1 else 2) with
    | .ok b => some (if b then "1" else "0")
    | .error _ => some "ERR"
  | "stft" :: r :: nfft :: ov :: rest => do
    let r ← r.toNat?
    let nfft ← nfft.toNat?
    let ov ← ov.toNat?
    let (w, rest) ← takeFloats rest
    let (x, _) ← takeFloats rest
    match stft lits02 x w ov nfft r with
    | .ok s => some (fmtFrames s)
    | .error _ => some "ERR"
  | "istft" :: r :: m :: nfft :: ov :: rest => do
    let r ← r.toNat?
    let m ← m.toNat?
    let nfft ← nfft.toNat?
    let ov ← ov.toNat?
    let (w, rest) ← takeFloats rest
    let (fr, _) ← takeFrames rest
    match istft lits02 fr w ov nfft r m with
    | .ok y => some (fmtFloatArr y)
    | .error _ => some "ERR"
  | _ => none

end Dsp.Driver
