import DspVerif.Driver.Proto
/-! driver handlers for C02 (stub: no correspondence cases handled yet) -/
namespace Dsp.Driver
open Dsp.Proto

def h02 : List String → Option String
  | _ => none

end Dsp.Driver
