import DspVerif.Driver.Proto
import DspVerif.Model.Fft
/-! driver handlers for C01: the forward transform family run at `Float` -/
namespace Dsp.Driver
open Dsp.Proto Dsp.Fft

/-- the literals as written in the source (regenerated) -/
def lits : Lits Float := ⟨Gen.fft8_c0, Gen.rfft8_c0, Gen.dft3_c0⟩

/-- splitmix-style generator shared with `harness/c01.cpp` (`mix`, `gen_re`, `gen_im`) -/
def mix (m s : UInt64) : UInt64 :=
  let z := (m + 1) * 0x9e3779b97f4a7c15 + s * 0xbf58476d1ce4e5b9
  let z := z ^^^ (z >>> 29)
  let z := z * 0x94d049bb133111eb
  z ^^^ (z >>> 32)

def genRe (m s : UInt64) : Float := (Float.ofNat ((mix m s) % 4001).toNat - 2000.0) / 2048.0
def genIm (m s : UInt64) : Float := (Float.ofNat (((mix m s) >>> 20) % 4001).toNat - 2000.0) / 2048.0

/-- `digest` of `harness/c01.cpp`: 8 bins + 4 weighted sums -/
def digest (y : Array (Cx Float)) : String :=
  let n := y.size
  let z : Cx Float := ⟨0.0, 0.0⟩
  let bins := (List.range 8).map (fun i =>
    let k := ((i * n) / 8 + (i % 3)) % n
    let v := y.getD k z
    fmtF v.re ++ " " ++ fmtF v.im)
  let init : Array Float := #[0.0, 0.0, 0.0, 0.0, 0.0, 0.0, 0.0, 0.0]
  let acc := (List.range n).foldl (fun (a : Array Float) k =>
    let v := y.getD k z
    let g0 : Float := 1.0
    let g1 : Float := if k % 2 == 1 then -1.0 else 1.0
    let g2 : Float := Float.ofNat (k % 7) - 3.0
    let g3 : Float := Float.ofNat ((k * k) % 5) - 2.0
    #[a[0]! + v.re * g0, a[1]! + v.im * g0, a[2]! + v.re * g1, a[3]! + v.im * g1,
      a[4]! + v.re * g2, a[5]! + v.im * g2, a[6]! + v.re * g3, a[7]! + v.im * g3]) init
  toString n ++ " " ++ String.intercalate " " bins ++ " " ++ fmtFloats acc.toList

/-- `eps(v)`: distance to the next double towards +inf -/
def epsOf (v : Float) : Float :=
  let b := v.toBits
  let nx : Float := if v == 0.0 then Float.ofBits 1 else if v > 0.0 then Float.ofBits (b + 1) else Float.ofBits (b - 1)
  nx - v

def h01 : List String → Option String
  | "fft" :: rest => do
    let (x, _) ← takeCxs rest
    some (fmtCxArr (fftC lits x.size x))
  | "rfft" :: rest => do
    let (x, _) ← takeFloats rest
    some (fmtCxArr (fftR lits x.size x))
  | "fftn" :: np :: rest => do
    let np ← np.toNat?
    let (x, _) ← takeCxs rest
    some (fmtCxArr (fftCN lits np x))
  | "rfftn" :: np :: rest => do
    let np ← np.toNat?
    let (x, _) ← takeFloats rest
    some (fmtCxArr (fftRN lits np x))
  | "fftg" :: n :: s :: _ => do
    let n ← n.toNat?
    let s ← s.toNat?
    let x : Array (Cx Float) := Array.ofFn (n := n) (fun i => ⟨genRe i.val.toUInt64 s.toUInt64, genIm i.val.toUInt64 s.toUInt64⟩)
    some (digest (fftC lits n x))
  | "rfftg" :: n :: s :: _ => do
    let n ← n.toNat?
    let s ← s.toNat?
    let x : Array Float := Array.ofFn (n := n) (fun i => genRe i.val.toUInt64 s.toUInt64)
    some (digest (fftR lits n x))
  | "czt" :: m :: wr :: wi :: ar :: ai :: rest => do
    let m ← m.toNat?
    let w : Cx Float := ⟨← parseF wr, ← parseF wi⟩
    let a : Cx Float := ⟨← parseF ar, ← parseF ai⟩
    let (x, _) ← takeCxs rest
    let d : Cx Float := ⟨a.re - 1.0, a.im⟩
    let skipA := !(Float.sqrt (d.re * d.re + d.im * d.im) > epsOf a.re)
    some (fmtCxArr (czt (fftPow2 lits) x.size m w a skipA x))
  | _ => none

end Dsp.Driver
