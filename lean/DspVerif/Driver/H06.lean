import DspVerif.Driver.Proto
import DspVerif.Model.Framing
import DspVerif.Model.Fft
import DspVerif.Model.Resample
import DspVerif.Model.Dynamics
import DspVerif.Model.Adaptive
import DspVerif.Model.Order
/-! driver handlers for C06: every correspondence case is

`<tag> <proc> <params…> <k> <size_1 … size_k> <N> <input: N doubles>`   (`tag` = `frame` | `frameF` | `frameR`)

One processor object is built from the parameters with the MODEL's `init`; the input is cut into the `k` frames (sizes in
input ITEMS: 1 double for real, 2 for complex samples, an `(x, d)` pair for the adaptive filters), the model's `process` is
called once per frame through `Framing.runFrames(E)`, and the concatenated output is printed as `<N'> <doubles…>` in the
layout of `harness/c06.cpp` (complex: re im; dynamics / AGC: out gain per sample; adaptive: y e per sample, then `coeffs()`). -/
namespace Dsp.Driver.H06
open Dsp.Proto Dsp.Framing

/-! the transform pair handed to the `FftFilter` model: the C01 model of the library's plans at `Float`, `fft(x)` =
`FftPlan(x.size())(x)` and `ifft(X)` = `IfftPlan(X.size())(X)` (the `libFft` / `libIfft` of `Props/C07Total.lean`) -/
/-- the literals of the small kernels as written in the source (regenerated) -/
def lits : Fft.Lits Float := ⟨Gen.fft8_c0, Gen.rfft8_c0, Gen.dft3_c0⟩
def fftF (x : Array (Cx Float)) : Array (Cx Float) := Fft.fftC lits x.size x
def ifftF (X : Array (Cx Float)) : Array (Cx Float) := Fft.ifftWith (Fft.fftC lits X.size) X.size X

/-! input items -/
def toCx (a : Array Float) : Array (Cx Float) :=
  Array.ofFn (n := a.size / 2) fun i => ⟨a.getD (2 * i.val) 0, a.getD (2 * i.val + 1) 0⟩
def ofCx (a : Array (Cx Float)) : Array Float :=
  a.foldl (fun r z => (r.push z.re).push z.im) #[]
/-- column `off .. off+w` of items of `2w` doubles -/
def col (a : Array Float) (w off : Nat) : Array Float :=
  Array.ofFn (n := a.size / (2 * w) * w) fun i => a.getD (i.val / w * (2 * w) + off + i.val % w) 0

/-- `<k> <sizes…> <N> <doubles…>` → frames of `size_i * win` doubles -/
def takeFrames (win : Nat) (toks : List String) : Option (List (Array Float)) := do
  let (sizes, rest) ← takeInts toks
  let (x, _) ← takeFloats rest
  let rec cut (pos : Nat) : List Int → List (Array Float)
    | [] => []
    | s :: t => x.extract pos (pos + s.toNat * win) :: cut (pos + s.toNat * win) t
  pure (cut 0 sizes)

def okOut (r : Except String (Array Float)) : String :=
  match r with
  | .ok y => fmtFloatArr y
  | .error _ => "ERR"

/-- interleave `out gain` per sample -/
def zip2 (a b : Array Float) : Array Float :=
  Array.ofFn (n := 2 * a.size) fun i => if i.val % 2 = 0 then a.getD (i.val / 2) 0 else b.getD (i.val / 2) 0
/-- `out.re out.im gain` per sample -/
def zip3 (a : Array (Cx Float)) (g : Array Float) : Array Float :=
  Array.ofFn (n := 3 * a.size) fun i =>
    if i.val % 3 = 0 then (a.getD (i.val / 3) ⟨0, 0⟩).re else if i.val % 3 = 1 then (a.getD (i.val / 3) ⟨0, 0⟩).im else g.getD (i.val / 3) 0
/-- `y e` per sample (real) -/
def yeR (y e : Array Float) : Array Float := zip2 y e
/-- `y.re y.im e.re e.im` per sample -/
def yeC (y e : Array (Cx Float)) : Array Float :=
  Array.ofFn (n := 4 * y.size) fun i =>
    let k := i.val / 4
    match i.val % 4 with
    | 0 => (y.getD k ⟨0, 0⟩).re
    | 1 => (y.getD k ⟨0, 0⟩).im
    | 2 => (e.getD k ⟨0, 0⟩).re
    | _ => (e.getD k ⟨0, 0⟩).im

open Dsp.Fir Dsp.Resample Dsp.Dynamics Dsp.Adaptive Dsp.Order in
def handle : List String → Option String
  | "firR" :: rest => do
    let (h, rest) ← takeFloats rest
    let fr ← takeFrames 1 rest
    some (fmtFloatArr (runFrames #[] firProcessR (firInitR h) fr).2)
  | "firC" :: rest => do
    let (h, rest) ← takeCxs rest
    let fr ← takeFrames 2 rest
    some (fmtFloatArr (runFrames #[] (fun s x => let r := firProcessC s (toCx x); (r.1, ofCx r.2)) (firInitC h) fr).2)
  | "fftR" :: rest => do
    let (h, rest) ← takeFloats rest
    let fr ← takeFrames 1 rest
    some (fmtFloatArr (runFrames #[] (fftProcessR fftF ifftF) (fftInitR fftF h) fr).2)
  | "fftC" :: rest => do
    let (h, rest) ← takeCxs rest
    let fr ← takeFrames 2 rest
    some (fmtFloatArr (runFrames #[] (fun s x => let r := fftProcessC fftF ifftF s (toCx x); (r.1, ofCx r.2)) (fftInitC fftF h) fr).2)
  | "maR" :: n :: rest => do
    let n ← n.toNat?
    let fr ← takeFrames 1 rest
    some (fmtFloatArr (runFrames #[] maProcessR (maInitR n) fr).2)
  | "maC" :: n :: rest => do
    let n ← n.toNat?
    let fr ← takeFrames 2 rest
    some (fmtFloatArr (runFrames #[] (fun s x => let r := maProcessC s (toCx x); (r.1, ofCx r.2)) (maInitC n) fr).2)
  | "delayR" :: rest => do
    let (b, rest) ← takeFloats rest
    let fr ← takeFrames 1 rest
    some (fmtFloatArr (runFrames #[] delayProcess b fr).2)
  | "delayC" :: rest => do
    let (b, rest) ← takeCxs rest
    let fr ← takeFrames 2 rest
    some (fmtFloatArr (runFrames #[] (fun s x => let r := delayProcess s (toCx x); (r.1, ofCx r.2)) b fr).2)
  | "median" :: n :: v :: rest => do
    let n ← parseI n
    let v ← parseF v
    let fr ← takeFrames 1 rest
    match MF.init n v with
    | .error _ => some "ERR"
    | .ok st =>
      let y := (runFrames [] (fun s (x : Array Float) => MF.process (avg2 : Float → Float → Float) s x.toList) st fr).2
      some (if y.isEmpty then "0" else
        toString y.length ++ " " ++ String.intercalate " " (y.map fun o => match o with | some v => fmtF v | none => "OOB"))
  | "hilb" :: rest => do
    let (h, rest) ← takeFloats rest
    let fr ← takeFrames 1 rest
    some (fmtFloatArr (runFrames #[] (fun s x => let r := Hilbert.process s x; (r.1, ofCx r.2)) (Hilbert.init h) fr).2)
  | "tuner" :: fs :: f :: rest => do
    let fs ← fs.toNat?
    let f ← parseF f
    let fr ← takeFrames 2 rest
    match Tuner.init fs f with
    | .error _ => some "ERR"
    | .ok p => some (fmtFloatArr (runFrames #[] (fun s x => let r := p.process s (toCx x); (r.1, ofCx r.2)) 0 fr).2)
  | kind :: l :: m :: rest =>
    if kind == "interp" || kind == "decim" || kind == "rateconv" || kind == "resampler" then do
      let L ← l.toNat?; let M ← m.toNat?
      let (h, rest) ← takeFloats rest
      let fr ← takeFrames 1 rest
      let c : Rs Float ←
        (if kind == "interp" then some (.int (Interp.init L h)) else if kind == "decim" then some (.dec (Decim.init M h))
         else if kind == "rateconv" then some (.rc (RateConv.init L M h)) else some (Rs.init L M h))
      some (okOut ((runFramesE #[] Rs.process c fr).map (·.2)))
    else if kind == "agcr" || kind == "agcc" then do
      let tg ← parseF l; let mg ← parseF m
      match rest with
      | n :: tri :: tfa :: rest => do
        let n ← parseI n; let tri ← parseF tri; let tfa ← parseF tfa
        match Agc.init tg mg n tri tfa with
        | .error _ => some "ERR"
        | .ok (p, s) =>
          if kind == "agcr" then do
            let fr ← takeFrames 1 rest
            some (fmtFloatArr (runFrames #[] (fun s x => let r := Agc.processR p s x; (r.1, zip2 r.2.2 r.2.1)) s fr).2)
          else do
            let fr ← takeFrames 2 rest
            some (fmtFloatArr (runFrames #[] (fun s x => let r := Agc.processC p s (toCx x); (r.1, zip3 r.2.2 r.2.1)) s fr).2)
      | _ => none
    else if kind == "comp" then do
      let fs ← l.toNat?; let t ← parseF m
      match rest with
      | ratio :: w :: ta :: tr :: rest => do
        let ratio ← parseI ratio; let w ← parseF w; let ta ← parseF ta; let tr ← parseF tr
        let fr ← takeFrames 1 rest
        match Comp.init fs t ratio w ta tr with
        | .error _ => some "ERR"
        | .ok p => some (fmtFloatArr (runFrames #[] (fun g x => let r := processWith (Comp.step p) g x; (r.1, zip2 r.2.2 r.2.1)) (0.0 : Float) fr).2)
      | _ => none
    else if kind == "lim" then do
      let fs ← l.toNat?; let t ← parseF m
      match rest with
      | w :: ta :: tr :: rest => do
        let w ← parseF w; let ta ← parseF ta; let tr ← parseF tr
        let fr ← takeFrames 1 rest
        match Lim.init fs t w ta tr with
        | .error _ => some "ERR"
        | .ok p => some (fmtFloatArr (runFrames #[] (fun g x => let r := processWith (Lim.step p) g x; (r.1, zip2 r.2.2 r.2.1)) (0.0 : Float) fr).2)
      | _ => none
    else if kind == "gate" then do
      let fs ← l.toNat?; let t ← parseF m
      match rest with
      | ta :: tr :: th :: rest => do
        let ta ← parseF ta; let tr ← parseF tr; let th ← parseF th
        let fr ← takeFrames 1 rest
        match Gate.init fs t ta tr th with
        | .error _ => some "ERR"
        | .ok p => some (fmtFloatArr (runFrames #[] (fun s x => let r := Gate.process p s x; (r.1, zip2 r.2.2 r.2.1)) (Gate.init0 : GateState Float) fr).2)
      | _ => none
    else if kind == "lms" then do
      -- lms <cx> <nlms> <len> <mu> <leak>
      match rest with
      | len :: mu :: leak :: rest => do
        let len ← len.toNat?; let mu ← parseF mu; let leak ← parseF leak
        let p : LmsP Float := ⟨len, mu, m == "1", leak⟩
        if l == "1" then do
          let fr ← takeFrames 4 rest
          match runFramesE (#[] : Array Float)
              (fun (s : LmsState (Cx Float)) x => (lmsProcess p s (toCx (col x 2 0)) (toCx (col x 2 2))).map fun r => (r.1, yeC r.2.1 r.2.2))
              (lmsInit p) fr with
          | .error _ => some "ERR"
          | .ok (s, y) => some (fmtFloatArr (y ++ ofCx s.coeffs))
        else do
          let fr ← takeFrames 2 rest
          match runFramesE (#[] : Array Float)
              (fun (s : LmsState Float) x => (lmsProcess p s (col x 1 0) (col x 1 1)).map fun r => (r.1, yeR r.2.1 r.2.2))
              (lmsInit p) fr with
          | .error _ => some "ERR"
          | .ok (s, y) => some (fmtFloatArr (y ++ s.coeffs))
      | _ => none
    else if kind == "rls" then do
      -- rls <cx> <len> <lam> <dl>
      let len ← m.toNat?
      match rest with
      | lam :: dl :: rest => do
        let lam ← parseF lam; let dl ← parseF dl
        let P : RlsP Float := ⟨len, lam⟩
        if l == "1" then do
          let fr ← takeFrames 4 rest
          match runFramesE (#[] : Array Float)
              (fun (s : RlsState (Cx Float)) x => (rlsProcess P s (toCx (col x 2 0)) (toCx (col x 2 2))).map fun r => (r.1, yeC r.2.1 r.2.2))
              (rlsInit P dl) fr with
          | .error _ => some "ERR"
          | .ok (s, y) => some (fmtFloatArr (y ++ ofCx s.coeffs))
        else do
          let fr ← takeFrames 2 rest
          match runFramesE (#[] : Array Float)
              (fun (s : RlsState Float) x => (rlsProcess P s (col x 1 0) (col x 1 1)).map fun r => (r.1, yeR r.2.1 r.2.2))
              (rlsInit P dl) fr with
          | .error _ => some "ERR"
          | .ok (s, y) => some (fmtFloatArr (y ++ s.coeffs))
      | _ => none
    else none
  | _ => none

end Dsp.Driver.H06

namespace Dsp.Driver

def h06 : List String → Option String
  | "frame" :: rest => H06.handle rest
  | "frameF" :: rest => H06.handle rest
  | "frameR" :: rest => H06.handle rest
  | _ => none

end Dsp.Driver
