import DspVerif.Driver.Proto
/-! driver handlers for C06 (stub: no correspondence cases handled yet) -/
namespace Dsp.Driver
open Dsp.Proto

def h06 : List String → Option String
  | _ => none

end Dsp.Driver
