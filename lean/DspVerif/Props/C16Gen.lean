import DspVerif.Props.C16
import DspVerif.Gen.StepsMedian
import DspVerif.Gen.CtorMedian
import DspVerif.Lib.RealFn
import DspVerif.Lib.GenBridge
/-!
# C16 — bridge: the hand-written median-filter model IS the regenerated code of `lib/medfilt.cpp`

`Gen/StepsMedian.lean` is written by `tools/cxx2lean.py` on every check run from the C++ AST of `lib/medfilt.cpp`:
* `static void _update_sort(real_t* x, int nx, real_t v_new, real_t v_old)` as `Gen.medianUpdateSort` — the pointer
  parameter is the array it works on in place (result = the array afterwards), its two `while` loops are *bounded walks*
  (`while (… && pos < nx - 1) ++pos;`: the body only steps `pos`, a conjunct of the condition bounds it by an expression
  the loop cannot change) and become the fuel-bounded recursions `Gen.medianUpdateSort_while1/2` called with exactly the
  fuel `nx - 1 - pos` that the bound allows; the two `std::memmove`s are `arrMove` of `Gen/StepsArray.lean` (index
  arithmetic explicit), `x[pos]` on the raw pointer is `ptrGet` / `ptrSet`;
* the body of the sample loop of `MedianFilter::process` as `Gen.medianStep` (`_i = (_i + 1) % _n` with C's `%`, the call
  `_update_sort(_s.data(), _n, x[i], _d[_i])`, the store into the ring buffer, the middle of the sorted window with the
  even-order `(_s[_n / 2] + _s[_n / 2 - 1]) / 2`); members `_d _s _i` (written) and `_n` (read), C++ types checked.
The declaration `auto y = zeros(x.size())` and `return y` are not translated (the output array is as long as the input).

This file proves, over ℝ: `updateSort_eq` — for every array of length `nx ≥ 1` the generated `_update_sort` yields the
model's `updateSort` (`insertNew v_new ∘ eraseOld v_old`, `Model/Order.lean`, about which T16.3 of `Props/C16.lean` is
stated); `medianStep_eq` — the generated loop body is the model's `MF.step` (with `avg2`), for every order `n > 0`, every
state with `n`-cell buffers and every sample, and the model's output is never `none`; `median_run_eq` — `MF.process` is the
generated body iterated over the frame; and transports T16.3 (`gen_medianFilter_spec`): the generated run outputs, for
sample `k`, the median of the last `n` samples.
-/
namespace Dsp.C16Gen
open Dsp Dsp.Order Dsp.GenBridge

set_option linter.unusedSectionVars false
set_option linter.unusedSimpArgs false

section lists
variable {α : Type} [LinearOrder α]

theorem eraseOld_eq (v : α) (s : List α) :
    eraseOld v s = s.eraseIdx ((s.take (s.length - 1)).findIdx (fun y => y == v)) := by
  induction s with
  | nil => simp [eraseOld]
  | cons a t ih =>
    cases t with
    | nil => simp [eraseOld]
    | cons b t =>
      unfold eraseOld
      by_cases h : a = v
      · subst h
        simp [List.findIdx_cons]
      · have : (a != v) = true := by simp [h]
        have hb : (a == v) = false := by simp [h]
        have ht : List.take ((a :: b :: t).length - 1) (a :: b :: t) = a :: List.take ((b :: t).length - 1) (b :: t) := by simp
        rw [if_pos this, ih, ht, List.findIdx_cons, hb]
        simp

theorem insertNew_eq (v : α) (l : List α) :
    insertNew v l = l.insertIdx (l.findIdx (fun y => !decide (y < v))) v := by
  induction l with
  | nil => simp [insertNew]
  | cons a t ih =>
    unfold insertNew
    by_cases h : a < v
    · rw [if_pos h, ih]
      simp [List.findIdx_cons, h]
    · rw [if_neg h]
      simp [List.findIdx_cons, h]

end lists

noncomputable section

/-- the first `while` of `_update_sort` (generated): from `pos`, with exactly the fuel the translator passes, the walk stops at
the first cell equal to `v_old` among the cells `pos … nx-2`, else at `nx-1` -/
theorem while1_spec (a : Array ℝ) (v : ℝ) (n : ℕ) (ha : n ≤ a.size) : ∀ (fuel pos : ℕ), pos + fuel + 1 = n →
    Gen.medianUpdateSort_while1 a (n : Int) v fuel (pos : Int) =
      ((pos + ((a.toList.drop pos).take fuel).findIdx (fun y => y == v) : ℕ) : Int) := by
  intro fuel
  induction fuel with
  | zero => intro pos _; simp [Gen.medianUpdateSort_while1]
  | succ fuel ih =>
    intro pos hp
    have hpos : pos < a.size := by omega
    have hdrop : a.toList.drop pos = a[pos] :: a.toList.drop (pos + 1) := by
      rw [List.drop_eq_getElem_cons (by simpa using hpos)]; simp
    unfold Gen.medianUpdateSort_while1
    have hlt : ((pos : Int) < (n : Int) - (1 : Int)) := by omega
    rw [hdrop, List.take_succ_cons, List.findIdx_cons]
    simp only [Gen.zeroR, ptrGet_natCast, getD_of_lt a pos _ hpos, hlt, and_true, true_and]
    by_cases h : a[pos] = v
    · have : ¬ ¬ (a[pos] ≤ v ∧ v ≤ a[pos]) := by rw [h]; simp
      rw [if_neg this]
      simp [h]
    · have : ¬ (a[pos] ≤ v ∧ v ≤ a[pos]) := fun hh => h (le_antisymm hh.1 hh.2)
      rw [if_pos this]
      have hc : ((pos : Int) + (1 : Int)) = ((pos + 1 : ℕ) : Int) := by push_cast; rfl
      rw [hc, ih (pos + 1) (by omega)]
      have hb : (a[pos] == v) = false := by simp [h]
      rw [hb]
      simp only [cond_false]
      congr 1
      omega

/-- the second `while`: stops at the first cell that is not `< v_new` among the cells `pos … nx-2`, else at `nx-1` -/
theorem while2_spec (a : Array ℝ) (v : ℝ) (n : ℕ) (ha : n ≤ a.size) : ∀ (fuel pos : ℕ), pos + fuel + 1 = n →
    Gen.medianUpdateSort_while2 a (n : Int) v fuel (pos : Int) =
      ((pos + ((a.toList.drop pos).take fuel).findIdx (fun y => !decide (y < v)) : ℕ) : Int) := by
  intro fuel
  induction fuel with
  | zero => intro pos _; simp [Gen.medianUpdateSort_while2]
  | succ fuel ih =>
    intro pos hp
    have hpos : pos < a.size := by omega
    have hdrop : a.toList.drop pos = a[pos] :: a.toList.drop (pos + 1) := by
      rw [List.drop_eq_getElem_cons (by simpa using hpos)]; simp
    unfold Gen.medianUpdateSort_while2
    have hlt : ((pos : Int) < (n : Int) - (1 : Int)) := by omega
    rw [hdrop, List.take_succ_cons, List.findIdx_cons]
    simp only [Gen.zeroR, ptrGet_natCast, getD_of_lt a pos _ hpos, hlt, and_true, true_and]
    by_cases h : a[pos] < v
    · rw [if_pos h]
      have hc : ((pos : Int) + (1 : Int)) = ((pos + 1 : ℕ) : Int) := by push_cast; rfl
      rw [hc, ih (pos + 1) (by omega)]
      simp only [h, decide_true, Bool.not_true, cond_false]
      congr 1
      omega
    · rw [if_neg h]
      simp [h]

theorem findIdx_le_length' {β : Type} (p : β → Bool) (l : List β) : l.findIdx p ≤ l.length := List.findIdx_le_length

/-- **`_update_sort`, generated = model.**  For every array of length `nx ≥ 1` and every pair of values: the generated
translation of `_update_sort` (two bounded walks, two `memmove`s, one store) yields the model's `updateSort`
(`insertNew v_new (eraseOld v_old ·)`) of the array's contents, and keeps the length. -/
theorem updateSort_eq (a : Array ℝ) (n : ℕ) (hn : 0 < n) (ha : a.size = n) (vNew vOld : ℝ) :
    (Gen.medianUpdateSort a (n : Int) vNew vOld).toList = Order.updateSort a.toList vNew vOld ∧
    (Gen.medianUpdateSort a (n : Int) vNew vOld).size = n := by
  unfold Gen.medianUpdateSort Order.updateSort
  extract_lets -merge pos0 p1 m1 a1 pos0' p2 m2 a2 a3
  -- the first walk
  set L := a.toList with hL
  have hLlen : L.length = n := by simp [hL, ha]
  set k1 := (L.take (n - 1)).findIdx (fun y => y == vOld) with hk1
  have hk1le : k1 ≤ n - 1 := by
    have := findIdx_le_length' (fun y => y == vOld) (L.take (n - 1))
    simp only [List.length_take, hLlen] at this
    omega
  have hp1 : p1 = (k1 : Int) := by
    have h := while1_spec a vOld n (by omega) (n - 1) 0 (by omega)
    simp only [p1, pos0]
    have hf : Int.toNat (((n : Int) - (1 : Int)) - (0 : Int)) = n - 1 := by omega
    rw [hf]
    have h0 : ((0 : ℕ) : Int) = (0 : Int) := rfl
    rw [← h0, h]
    simp [hk1, hL]
  -- erase
  have he : eraseOld vOld L = L.eraseIdx k1 := by
    rw [eraseOld_eq, hLlen]
  set e := eraseOld vOld L with hedef
  have helen : e.length = n - 1 := by
    rw [he, List.length_eraseIdx, hLlen]
    rw [if_pos (by omega)]
  have ha1size : a1.size = n := by
    simp only [a1, m1]
    split <;> simp [ha]
  have ha1 : ∀ j, j < n - 1 → a1.getD j 0 = e[j]?.getD 0 := by
    intro j hj
    rw [he, List.getElem?_eraseIdx]
    simp only [a1, m1, hp1]
    have hcnt : (((n : Int) - (k1 : Int)) - (1 : Int)) = ((n - k1 - 1 : ℕ) : Int) := by omega
    have hsrc : ((k1 : Int) + (1 : Int)) = ((k1 + 1 : ℕ) : Int) := by push_cast; rfl
    by_cases hc : (k1 : Int) ≠ (n : Int) - (1 : Int)
    · rw [if_pos hc, hsrc, arrMove_getD a k1 (k1 + 1) _ j 0 (by omega)]
      by_cases hjk : j < k1
      · rw [if_neg (by omega), if_pos hjk]
        simp [hL, Array.getD_eq_getD_getElem?]
      · rw [if_pos ⟨by omega, by omega⟩, if_neg hjk]
        have : j - k1 + (k1 + 1) = j + 1 := by omega
        rw [this, getD_of_lt a (j + 1) _ (by omega)]
        simp [hL, show j + 1 < a.size by omega]
    · rw [if_neg hc]
      have : k1 = n - 1 := by omega
      rw [if_pos (by omega)]
      simp [hL, Array.getD_eq_getD_getElem?]
  have htake : a1.toList.take (n - 1) = e := by
    apply List.ext_getElem?
    intro j
    by_cases hj : j < n - 1
    · have h1 := ha1 j hj
      rw [List.getElem?_take, if_pos hj]
      have hj1 : j < a1.size := by omega
      have hj2 : j < e.length := by omega
      rw [getD_of_lt a1 j _ hj1] at h1
      simp only [Array.getElem?_toList, Array.getElem?_eq_getElem hj1, List.getElem?_eq_getElem hj2, Option.getD_some] at h1 ⊢
      rw [h1]
    · rw [List.getElem?_take, if_neg hj, List.getElem?_eq_none (by omega)]
  -- the second walk
  set k2 := e.findIdx (fun y => !decide (y < vNew)) with hk2
  have hk2le : k2 ≤ n - 1 := by
    have := findIdx_le_length' (fun y => !decide (y < vNew)) e
    omega
  have hp2 : p2 = (k2 : Int) := by
    have h := while2_spec a1 vNew n (by omega) (n - 1) 0 (by omega)
    simp only [p2, pos0']
    have hf : Int.toNat (((n : Int) - (1 : Int)) - (0 : Int)) = n - 1 := by omega
    rw [hf]
    have h0 : ((0 : ℕ) : Int) = (0 : Int) := rfl
    rw [← h0, h]
    simp only [List.drop_zero, htake, Nat.zero_add]
    rfl
  have hins : insertNew vNew e = e.insertIdx k2 vNew := insertNew_eq vNew e
  have ha2size : a2.size = n := by
    simp only [a2, m2]
    split <;> simp [ha1size]
  have ha3size : a3.size = n := by
    simp only [a3, hp2, ptrSet_natCast, Array.size_setIfInBounds, ha2size]
  refine ⟨?_, ha3size⟩
  rw [hins]
  have hrl : (e.insertIdx k2 vNew).length = n := by
    rw [List.length_insertIdx, if_pos (by omega), helen]; omega
  have : a3 = (e.insertIdx k2 vNew).toArray := by
    apply ext_getD (0 : ℝ)
    · simp [ha3size, hrl]
    · intro j hj
      rw [ha3size] at hj
      have hr : (e.insertIdx k2 vNew).toArray.getD j 0 = (e.insertIdx k2 vNew)[j]?.getD 0 := by
        simp [Array.getD_eq_getD_getElem?]
      rw [hr, List.getElem?_insertIdx]
      simp only [a3, hp2, ptrSet_natCast, getD_setIfInBounds, ha2size]
      by_cases hjk : k2 = j
      · subst hjk
        rw [if_pos ⟨rfl, hj⟩, if_neg (by omega), if_pos rfl, if_pos (by omega)]
        rfl
      · rw [if_neg (by tauto)]
        simp only [a2, m2, hp2]
        have hcnt : (((n : Int) - (k2 : Int)) - (1 : Int)) = ((n - k2 - 1 : ℕ) : Int) := by omega
        have hdst : ((k2 : Int) + (1 : Int)) = ((k2 + 1 : ℕ) : Int) := by push_cast; rfl
        by_cases hc : (k2 : Int) ≠ (n : Int) - (1 : Int)
        · rw [if_pos hc, hdst, arrMove_getD a1 (k2 + 1) k2 _ j 0 (by omega)]
          by_cases hlt : j < k2
          · rw [if_neg (by omega), if_pos hlt]
            exact ha1 j (by omega)
          · rw [if_pos ⟨by omega, by omega⟩, if_neg hlt, if_neg (by omega)]
            have : j - (k2 + 1) + k2 = j - 1 := by omega
            rw [this, getD_of_lt a1 (j - 1) _ (by omega), ← getD_of_lt a1 (j - 1) 0 (by omega)]
            exact ha1 (j - 1) (by omega)
        · rw [if_neg hc]
          have hk : k2 = n - 1 := by omega
          rw [if_pos (by omega)]
          exact ha1 j (by omega)
  rw [this]

/-! ## the loop body of `MedianFilter::process` -/

/-- the model state a generated state stands for (`_n` from the parameters) -/
def toMF (n : ℕ) (g : Gen.MedianFilterStepState ℝ) : MF ℝ := ⟨n, g.i.toNat, g.d.toList, g.s.toList⟩

/-- both buffers have `_n` cells and the ring index is not negative -/
def MedInv (n : ℕ) (g : Gen.MedianFilterStepState ℝ) : Prop := g.d.size = n ∧ g.s.size = n ∧ 0 ≤ g.i

theorem tmod_nat (a b : ℕ) : Int.tmod (a : Int) (b : Int) = ((a % b : ℕ) : Int) := by
  rw [Int.tmod_eq_emod_of_nonneg (by omega)]; simp

theorem tdiv_nat (a b : ℕ) : Int.tdiv (a : Int) (b : Int) = ((a / b : ℕ) : Int) := by
  rw [Int.tdiv_eq_ediv_of_nonneg (by omega)]; simp

/-- **bridge, `MedianFilter::process`, one sample.**  For every order `n > 0`, every state with `n`-cell buffers and every
input sample: the GENERATED loop body (ring index advance with C's `%`, `_update_sort` in place on `_s`, store into `_d`,
middle of `_s` with the even-order `(a + b) / 2`) is the model's `MF.step` with `avg2`; the model's output is never `none`. -/
theorem medianStep_eq (n : ℕ) (hn : 0 < n) (g : Gen.MedianFilterStepState ℝ) (h : MedInv n g) (x : ℝ) :
    MF.step avg2 (toMF n g) x =
      (toMF n (Gen.medianStep ⟨(n : Int)⟩ g x).1, some (Gen.medianStep ⟨(n : Int)⟩ g x).2) ∧
    MedInv n (Gen.medianStep ⟨(n : Int)⟩ g x).1 := by
  obtain ⟨d, s, i⟩ := g
  obtain ⟨hd, hs, hi⟩ := h
  simp only at hd hs hi
  obtain ⟨k, rfl⟩ := Int.eq_ofNat_of_zero_le hi
  unfold Gen.medianStep
  extract_lets -merge s1 s2 s3 y
  have hi' : s1.i = (((k + 1) % n : ℕ) : Int) := by
    simp only [s1]
    have : ((k : Int) + (1 : Int)) = ((k + 1 : ℕ) : Int) := by push_cast; rfl
    rw [this, tmod_nat]
  have hlt : (k + 1) % n < n := Nat.mod_lt _ hn
  have hs2 : s2.s.toList = Order.updateSort s.toList x (d.getD ((k + 1) % n) 0) ∧ s2.s.size = n := by
    simp only [s2, hi', Gen.zeroR, arrGet_natCast, fn_ofInt, Int.cast_zero]
    exact updateSort_eq s n hn hs x _
  have hd3 : s3.d = d.setIfInBounds ((k + 1) % n) x := by
    simp only [s3, s2, hi', arrSet_natCast]
    rfl
  have hs3 : s3.s = s2.s := rfl
  have hi3 : s3.i = (((k + 1) % n : ℕ) : Int) := hi'
  refine ⟨?_, ⟨by rw [hd3]; simpa using hd, by rw [hs3]; exact hs2.2, by rw [hi3]; omega⟩⟩
  unfold MF.step toMF
  simp only [Int.toNat_natCast]
  have hget : d.toList[(k + 1) % n]? = some (d.getD ((k + 1) % n) 0) := by
    rw [getD_of_lt d _ _ (by omega)]
    simp [show (k + 1) % n < d.size by omega]
  rw [hget]
  simp only
  have hmid : middle avg2 n (Order.updateSort s.toList x (d.getD ((k + 1) % n) 0)) = some y := by
    rw [← hs2.1]
    have hsz := hs2.2
    unfold middle
    simp only [y, Gen.zeroR, fn_ofInt, Int.cast_zero]
    have h2 : ((2 : Int)) = ((2 : ℕ) : Int) := rfl
    rw [h2, tmod_nat, tdiv_nat]
    have hhalf : n / 2 < s3.s.size := by rw [hs3, hsz]; omega
    by_cases hodd : n % 2 = 1
    · have : (((n % 2 : ℕ) : Int) = (1 : Int)) := by omega
      rw [if_pos hodd, if_pos this, arrGet_natCast, getD_of_lt _ _ _ hhalf]
      simp [hs3, show n / 2 < s2.s.size by rw [hsz]; omega]
    · have : ¬ (((n % 2 : ℕ) : Int) = (1 : Int)) := by omega
      rw [if_neg hodd, if_neg this]
      have hge : 1 ≤ n / 2 := by omega
      have hm1 : (((n / 2 : ℕ) : Int) - (1 : Int)) = ((n / 2 - 1 : ℕ) : Int) := by omega
      rw [hm1, arrGet_natCast, arrGet_natCast, getD_of_lt _ _ _ hhalf, getD_of_lt _ _ _ (show n / 2 - 1 < s3.s.size by omega)]
      have e1 : s2.s.toList[n / 2]? = some s3.s[n / 2] := by
        simp [hs3, show n / 2 < s2.s.size by rw [hsz]; omega]
      have e2 : s2.s.toList[n / 2 - 1]? = some (s3.s[n / 2 - 1]'(by omega)) := by
        simp [hs3, show n / 2 - 1 < s2.s.size by rw [hsz]; omega]
      rw [e1, e2]
      simp [avg2, add_comm]
  rw [hmid]
  simp only [Prod.mk.injEq, and_true]
  rw [hd3, hs3, hi3]
  simp [hs2.1]
  have hcast : ((k : Int) + 1) % (n : Int) = (((k + 1) % n : ℕ) : Int) := by push_cast; rfl
  rw [hcast, Int.toNat_natCast]

/-! ## the sample loop: the generated body iterated over a frame -/

/-- `for (i < x.size()) BODY` with `BODY` = the generated loop body: final members and the output samples -/
def genMedianRun (n : ℕ) : Gen.MedianFilterStepState ℝ → List ℝ → Gen.MedianFilterStepState ℝ × List ℝ
  | g, [] => (g, [])
  | g, x :: t =>
    ((genMedianRun n (Gen.medianStep ⟨(n : Int)⟩ g x).1 t).1,
      (Gen.medianStep ⟨(n : Int)⟩ g x).2 :: (genMedianRun n (Gen.medianStep ⟨(n : Int)⟩ g x).1 t).2)

/-- the same as a left fold of the generated step over the samples -/
theorem genMedianRun_foldl (n : ℕ) (xs : List ℝ) : ∀ (g : Gen.MedianFilterStepState ℝ) (acc : List ℝ),
    xs.foldl (fun (a : Gen.MedianFilterStepState ℝ × List ℝ) x =>
        ((Gen.medianStep ⟨(n : Int)⟩ a.1 x).1, a.2 ++ [(Gen.medianStep ⟨(n : Int)⟩ a.1 x).2])) (g, acc) =
      ((genMedianRun n g xs).1, acc ++ (genMedianRun n g xs).2) := by
  induction xs with
  | nil => intro g acc; simp [genMedianRun]
  | cons x t ih => intro g acc; simp [genMedianRun, ih]

/-- **whole frame:** the model's `process` is the generated loop body iterated over the frame (outputs never `none`) -/
theorem median_run_eq (n : ℕ) (hn : 0 < n) (xs : List ℝ) : ∀ (g : Gen.MedianFilterStepState ℝ), MedInv n g →
    MF.process avg2 (toMF n g) xs = (toMF n (genMedianRun n g xs).1, (genMedianRun n g xs).2.map some) ∧
    MedInv n (genMedianRun n g xs).1 := by
  induction xs with
  | nil => intro g h; exact ⟨by simp [MF.process, genMedianRun], h⟩
  | cons x t ih =>
    intro g h
    obtain ⟨h1, h2⟩ := medianStep_eq n hn g h x
    obtain ⟨h3, h4⟩ := ih _ h2
    refine ⟨?_, h4⟩
    simp only [MF.process, h1, h3, genMedianRun, List.map_cons]

/-- the state the constructor `MedianFilter(n, init_value)` leaves (`_i{0}`, both buffers filled with `init_value`) -/
def genMedianInit (n : ℕ) (v : ℝ) : Gen.MedianFilterStepState ℝ := ⟨Array.replicate n v, Array.replicate n v, 0⟩

theorem genMedianInit_inv (n : ℕ) (v : ℝ) : MedInv n (genMedianInit n v) := by
  simp [MedInv, genMedianInit]

theorem init_toMF (n : ℕ) (hn : 3 ≤ n) (v : ℝ) : MF.init (n : Int) v = .ok (toMF n (genMedianInit n v)) := by
  unfold MF.init
  rw [if_neg (by omega)]
  simp [toMF, genMedianInit]

/-- **T16.3 transported to the regenerated loop.**  A `MedianFilter` of any accepted order `n ≥ 3` and initial value `v`:
the GENERATED loop body iterated over a stream `xs` outputs for sample `k` the median (`Order.median`: the middle order
statistic for odd `n`, the mean of the two middle ones for even `n`) of the last `n` samples of `v^n ++ xs` up to and
including sample `k`. -/
theorem gen_medianFilter_spec (n : ℕ) (hn : 3 ≤ n) (v : ℝ) (xs : List ℝ) :
    (genMedianRun n (genMedianInit n v) xs).2.map some =
      (List.range xs.length).map (fun k => median avg2 (C16.window (List.replicate n v) xs k)) := by
  obtain ⟨h1, _⟩ := median_run_eq n (by omega) xs _ (genMedianInit_inv n v)
  have h2 := (C16.process_spec avg2 xs (C16.init_inv (init_toMF n hn v))).1
  rw [h1] at h2
  simpa using h2

/-- framing: the generated run over `a ++ b` is the run over `a` followed by the run over `b` from the state reached -/
theorem genMedianRun_append (n : ℕ) (a b : List ℝ) : ∀ (g : Gen.MedianFilterStepState ℝ),
    genMedianRun n g (a ++ b) =
      ((genMedianRun n (genMedianRun n g a).1 b).1, (genMedianRun n g a).2 ++ (genMedianRun n (genMedianRun n g a).1 b).2) := by
  induction a with
  | nil => intro g; simp [genMedianRun]
  | cons x t ih => intro g; simp [genMedianRun, ih]

/-- non-vacuity: order 3, initial value 0, samples 5, 1, 4 — windows (0,0,5), (0,5,1), (5,1,4): medians 0, 1, 4 -/
example : (genMedianRun 3 (genMedianInit 3 0) [5, 1, 4]).2.map some =
    [median avg2 [0, 0, 5], median avg2 [0, 5, 1], median avg2 [5, 1, 4]] := by
  rw [gen_medianFilter_spec 3 (by norm_num) 0 [5, 1, 4]]
  simp [C16.window, List.range_succ]

end
/-! BEGIN steps3 constructors -/
/-! ## Constructor `MedianFilter::MedianFilter(int n, real_t init_value)` (regenerated: `Gen/CtorMedian.lean`)

`Gen.medianCtor` is the constructor as lib/medfilt.cpp has it now: `_d`, `_s` default-constructed (empty), `_i{0}`, `_n{n}`, the
order guard `n < 3`, then `_d = zeros(_n)`, `_s = zeros(_n)` and the two `std::fill(…, init_value)`.  It accepts exactly the orders
`MF.init` accepts and leaves `genMedianInit` — the state T16.3 was transported from. -/

noncomputable section

/-- members of a constructed `MedianFilter` that the generated loop body writes / reads -/
def medObjS (o : Gen.MedianFilterObj ℝ) : Gen.MedianFilterStepState ℝ := ⟨o.d, o.s, o.i⟩
def medObjP (o : Gen.MedianFilterObj ℝ) : Gen.MedianFilterStepParams ℝ := ⟨o.n⟩

/-- **bridge, constructor:** the generated constructor, for EVERY `int` order and initial value: rejected exactly for `n < 3`, else the
object `(_d = _s = init_value^n, _i = 0, _n = n)` -/
theorem medianCtor_eq (n : Int) (v : ℝ) :
    Gen.medianCtor n v =
      if n < 3 then .error "The filter order must be greater than or equal to 3"
      else .ok { d := Array.replicate n.toNat v, s := Array.replicate n.toNat v, i := 0, n := n } := by
  unfold Gen.medianCtor
  by_cases h : n < 3
  · simp [h]
  · simp [h, Gen.arrNew, Gen.arrFill]

/-- … which is the model's constructor `MF.init` (same acceptance, same message, same state) -/
theorem medianCtor_init (n : Int) (v : ℝ) :
    (Gen.medianCtor n v).map (fun o => toMF o.n.toNat (medObjS o)) = MF.init n v := by
  rw [medianCtor_eq]
  unfold MF.init
  by_cases h : n < 3
  · simp [h, Except.map]
  · simp [h, Except.map, toMF, medObjS]

theorem medianCtor_ok {n : Int} {v : ℝ} {o : Gen.MedianFilterObj ℝ} (h : Gen.medianCtor n v = .ok o) :
    3 ≤ n ∧ medObjS o = genMedianInit n.toNat v ∧ medObjP o = ⟨((n.toNat : ℕ) : Int)⟩ := by
  rw [medianCtor_eq] at h
  by_cases hn : n < 3
  · rw [if_pos hn] at h; cases h
  · rw [if_neg hn] at h
    injection h with h
    subst h
    refine ⟨by omega, rfl, ?_⟩
    simp only [medObjP]
    congr 1
    omega

/-- **T16.3 from the GENERATED constructor through the GENERATED loop.**  Whatever order and initial value the regenerated
constructor accepts (exactly `n ≥ 3`), the regenerated loop body run from the object it leaves outputs for sample `k` the median of
the last `n` samples of `v^n ++ xs` up to and including sample `k`. -/
theorem gen_medianFilter_from_ctor (n : Int) (v : ℝ) (o : Gen.MedianFilterObj ℝ) (h : Gen.medianCtor n v = .ok o) (xs : List ℝ) :
    3 ≤ n ∧ medObjP o = ⟨((n.toNat : ℕ) : Int)⟩ ∧
    (genMedianRun n.toNat (medObjS o) xs).2.map some =
      (List.range xs.length).map (fun k => median avg2 (C16.window (List.replicate n.toNat v) xs k)) := by
  obtain ⟨h1, h2, h3⟩ := medianCtor_ok h
  refine ⟨h1, h3, ?_⟩
  rw [h2]
  exact gen_medianFilter_spec n.toNat (by omega) v xs

/-- the default arguments `MedianFilter(int n = 3, real_t init_value = 0)` -/
theorem ctor_defaults : (Gen.medianCtorDefault_n, (Gen.medianCtorDefault_init_value : ℝ)) = (3, 0) := by
  simp [Gen.medianCtorDefault_n, Gen.medianCtorDefault_init_value]

/-- non-vacuity: `MedianFilter(3, 0)` is accepted, `MedianFilter(2, 0)` is rejected -/
example : ∃ o, Gen.medianCtor (3 : Int) (0 : ℝ) = .ok o := by rw [medianCtor_eq, if_neg (by norm_num)]; exact ⟨_, rfl⟩
example : ∃ e, Gen.medianCtor (2 : Int) (0 : ℝ) = .error e := by rw [medianCtor_eq, if_pos (by norm_num)]; exact ⟨_, rfl⟩

end
/-! END steps3 constructors -/

end Dsp.C16Gen
