import DspVerif.Props.C01
import DspVerif.Props.C15
/-!
# C01 component: the factor tree of `PlanTree(n)` (`lib/fft/fact-fft.cpp`) is well formed for every length

`mkPlan_wf`: for every `2 ≤ n < 2^31` (every `int` length the constructor can be called with) the tree
`mkPlan 32 n` is well formed, has size `n`, and each of its leaves is a length `2 ≤ m ≤ n` that the library
treats as a power of two or as a prime (`ispow2 m ∨ isprime m`) — which is hypothesis `hfac` of
`fftC_eq_partial` once the leaf solvers are DFTs (`hfac_of_leaves`).

Ingredients (all for the executable model functions of `Model/Lru.lean` / `Model/Primes.lean`):
* `sortNat_perm`       insertion sort permutes its input (sortedness is NOT needed for well-formedness)
* `oddLoop_spec`       the 32-step halving loop of `PlanTree::_factor` leaves the odd part
* `treeFactors_spec`   product `n`, every entry `≥ 2` and a power of two or a prime, length 1 only for `2^k` / primes
* `splitP_spec`        `P = splitP n fac` satisfies `2 ≤ P < n`, `P ∣ n` as soon as `fac` has two entries
  (`P` is the product of a prefix of `fac`; either `P = fac[0]` or `P² ≤ n`, the model's form of `P ≤ √n`)
* `mkPlan_wf_fuel`     fuel `f` suffices for every `n < 2^f` (both children are `≥ 2`, hence `≤ n / 2`)
-/
namespace Dsp.C01
open Dsp Dsp.Fft Dsp.Primes Dsp.Lru

/-! ## insertion sort is a permutation -/

theorem insertSorted_perm (a : ℕ) : ∀ l : List ℕ, (insertSorted a l).Perm (a :: l)
  | [] => by simp [insertSorted]
  | b :: l => by
    unfold insertSorted
    split
    · exact List.Perm.refl _
    · exact ((insertSorted_perm a l).cons b).trans (List.Perm.swap a b l)

theorem sortNat_perm : ∀ l : List ℕ, (sortNat l).Perm l
  | [] => by simp [sortNat]
  | a :: l => by
    have h : sortNat (a :: l) = insertSorted a (sortNat l) := rfl
    rw [h]
    exact (insertSorted_perm a _).trans ((sortNat_perm l).cons a)

/-! ## the halving loop of `PlanTree::_factor` -/

theorem oddLoop_of_odd : ∀ (l : List ℕ) (m : ℕ), m % 2 = 1 →
    l.foldl (fun (m : ℕ) (_ : ℕ) => if m % 2 == 0 ∧ m > 0 then m / 2 else m) m = m
  | [], _, _ => rfl
  | _ :: l, m, h => by
    rw [List.foldl_cons]
    have : ¬ ((m % 2 == 0) = true ∧ m > 0) := by
      rintro ⟨h1, _⟩
      rw [beq_iff_eq] at h1
      omega
    rw [if_neg this]
    exact oddLoop_of_odd l m h

/-- as long as the step count covers the bit length, the loop ends on the odd part of `m` -/
theorem oddLoop_spec : ∀ (l : List ℕ) (m : ℕ), 0 < m → m < 2 ^ l.length →
    (l.foldl (fun (m : ℕ) (_ : ℕ) => if m % 2 == 0 ∧ m > 0 then m / 2 else m) m) % 2 = 1 ∧
    ∃ k, m = 2 ^ k * (l.foldl (fun (m : ℕ) (_ : ℕ) => if m % 2 == 0 ∧ m > 0 then m / 2 else m) m)
  | [], m, h0, h => by simp at h; omega
  | a :: l, m, h0, h => by
    by_cases hodd : m % 2 = 1
    · rw [oddLoop_of_odd _ m hodd]
      exact ⟨hodd, 0, by simp⟩
    · rw [List.foldl_cons]
      have hc : (m % 2 == 0) = true ∧ m > 0 := ⟨by rw [beq_iff_eq]; omega, h0⟩
      rw [if_pos hc]
      have hlen : m / 2 < 2 ^ l.length := by
        rw [List.length_cons, pow_succ] at h
        omega
      obtain ⟨h1, k, hk⟩ := oddLoop_spec l (m / 2) (by omega) hlen
      refine ⟨h1, k + 1, ?_⟩
      have hm : m = 2 * (m / 2) := by omega
      rw [pow_succ, Nat.mul_assoc, Nat.mul_comm 2, ← Nat.mul_assoc, ← hk]
      omega

/-! ## `PlanTree::_factor` -/

/-- `treeFactors n` for every `int` length `n ≥ 2`: the entries multiply to `n`, each is `≥ 2` and is a power of two
    or a prime, and there is a single entry only when `n` itself is a power of two or a prime -/
theorem treeFactors_spec_math (n : ℕ) (h2 : 2 ≤ n) (hlt : n < 2 ^ 31) :
    (treeFactors n).prod = n ∧
    (∀ f ∈ treeFactors n, 2 ≤ f ∧ ((∃ k, f = 2 ^ k) ∨ Nat.Prime f)) ∧
    ((treeFactors n).length = 1 → (∃ k, n = 2 ^ k) ∨ Nat.Prime n) := by
  obtain ⟨hodd, k, hk⟩ := oddLoop_spec (List.range 32) n (by omega)
    (by rw [List.length_range]; exact lt_trans hlt (by norm_num))
  have hp := sortNat_perm
    ((if ((List.range 32).foldl (fun (m : ℕ) (_ : ℕ) => if m % 2 == 0 ∧ m > 0 then m / 2 else m) n) != n
        then [n / ((List.range 32).foldl (fun (m : ℕ) (_ : ℕ) => if m % 2 == 0 ∧ m > 0 then m / 2 else m) n)] else []) ++
     (if ((List.range 32).foldl (fun (m : ℕ) (_ : ℕ) => if m % 2 == 0 ∧ m > 0 then m / 2 else m) n) == 1
        then [] else factor ((List.range 32).foldl (fun (m : ℕ) (_ : ℕ) => if m % 2 == 0 ∧ m > 0 then m / 2 else m) n)))
  have hdef : treeFactors n = sortNat
    ((if ((List.range 32).foldl (fun (m : ℕ) (_ : ℕ) => if m % 2 == 0 ∧ m > 0 then m / 2 else m) n) != n
        then [n / ((List.range 32).foldl (fun (m : ℕ) (_ : ℕ) => if m % 2 == 0 ∧ m > 0 then m / 2 else m) n)] else []) ++
     (if ((List.range 32).foldl (fun (m : ℕ) (_ : ℕ) => if m % 2 == 0 ∧ m > 0 then m / 2 else m) n) == 1
        then [] else factor ((List.range 32).foldl (fun (m : ℕ) (_ : ℕ) => if m % 2 == 0 ∧ m > 0 then m / 2 else m) n))) := rfl
  rw [hdef]
  generalize (List.range 32).foldl (fun (m : ℕ) (_ : ℕ) => if m % 2 == 0 ∧ m > 0 then m / 2 else m) n = odd at *
  have hopos : 0 < odd := by omega
  have hole : odd ≤ n := by
    rw [hk]; exact Nat.le_mul_of_pos_left _ (Nat.two_pow_pos k)
  have hdiv : n / odd = 2 ^ k := by rw [hk]; exact Nat.mul_div_cancel _ hopos
  rw [hp.prod_eq, hp.length_eq]
  simp only [hp.mem_iff]
  -- the two components
  by_cases hk0 : k = 0
  · -- `n` is odd: the list is `factor n`
    subst hk0
    have hon : odd = n := by rw [hk]; simp
    subst hon
    have h1 : (odd != odd) = false := by simp
    have h3 : (odd == 1) = false := by rw [beq_eq_false_iff_ne]; omega
    rw [h1, h3]
    simp only [Bool.false_eq_true, if_false, List.nil_append]
    obtain ⟨fp, _, fprod⟩ := C15.factor_spec odd h2 (lt_trans hlt (by norm_num))
    refine ⟨fprod, fun f hf => ⟨(fp f hf).two_le, Or.inr (fp f hf)⟩, ?_⟩
    intro hl
    obtain ⟨p, hpeq⟩ := List.length_eq_one_iff.mp hl
    rw [hpeq] at fprod fp
    simp only [List.prod_cons, List.prod_nil, Nat.mul_one] at fprod
    rw [← fprod]
    exact Or.inr (fp p (by simp))
  · have hkpos : 0 < k := Nat.pos_of_ne_zero hk0
    have h2k : 2 ≤ 2 ^ k := by
      calc 2 = 2 ^ 1 := by norm_num
        _ ≤ 2 ^ k := Nat.pow_le_pow_right (by norm_num) hkpos
    have hne : odd ≠ n := by
      intro h
      have : 2 * odd ≤ 2 ^ k * odd := Nat.mul_le_mul_right _ h2k
      omega
    have h1 : (odd != n) = true := by rw [bne_iff_ne]; exact hne
    rw [h1, hdiv]
    simp only [if_true]
    by_cases ho1 : odd = 1
    · -- `n = 2^k`
      subst ho1
      simp only [beq_self_eq_true, if_true, List.append_nil, List.prod_cons, List.prod_nil, Nat.mul_one,
        List.mem_singleton, List.length_singleton]
      refine ⟨by rw [hk]; simp, ?_, fun _ => Or.inl ⟨k, by rw [hk]; simp⟩⟩
      intro f hf
      subst hf
      exact ⟨h2k, Or.inl ⟨k, rfl⟩⟩
    · have h3 : (odd == 1) = false := by rw [beq_eq_false_iff_ne]; exact ho1
      rw [h3]
      simp only [Bool.false_eq_true, if_false]
      have ho3 : 2 ≤ odd := by omega
      obtain ⟨fp, _, fprod⟩ := C15.factor_spec odd ho3 (lt_of_le_of_lt hole (lt_trans hlt (by norm_num)))
      refine ⟨?_, ?_, ?_⟩
      · rw [List.prod_append, fprod]; simp [hk]
      · intro f hf
        rw [List.mem_append, List.mem_singleton] at hf
        rcases hf with hf | hf
        · subst hf; exact ⟨h2k, Or.inl ⟨k, rfl⟩⟩
        · exact ⟨(fp f hf).two_le, Or.inr (fp f hf)⟩
      · intro hl
        exfalso
        rw [List.length_append, List.length_singleton] at hl
        have : (factor odd).length = 0 := by omega
        rw [List.length_eq_zero_iff.mp this] at fprod
        simp at fprod
        omega

/-- the same in terms of the library's own tests `ispow2` / `isprime` (C15: they are exact below `2^31`) -/
theorem treeFactors_spec (n : ℕ) (h2 : 2 ≤ n) (hlt : n < 2 ^ 31) :
    (treeFactors n).prod = n ∧
    (∀ f ∈ treeFactors n, 2 ≤ f ∧ f ≤ n ∧ (ispow2 f = true ∨ isprime f = true)) ∧
    ((treeFactors n).length = 1 → ispow2 n = true ∨ isprime n = true) := by
  obtain ⟨hprod, hmem, hlen⟩ := treeFactors_spec_math n h2 hlt
  have conv : ∀ f, 2 ≤ f → f ≤ n → ((∃ k, f = 2 ^ k) ∨ Nat.Prime f) → (ispow2 f = true ∨ isprime f = true) := by
    intro f hf2 hfn h
    rcases h with h | h
    · exact Or.inl ((C15.ispow2_iff f (by omega) (by omega)).mpr h)
    · exact Or.inr ((C15.isprime_iff f (lt_of_le_of_lt hfn (lt_trans hlt (by norm_num)))).mpr h)
  refine ⟨hprod, ?_, fun hl => conv n h2 le_rfl (hlen hl)⟩
  intro f hf
  obtain ⟨hf2, hfk⟩ := hmem f hf
  have hfn : f ≤ n := by
    have : f ∣ n := by rw [← hprod]; exact List.dvd_prod hf
    exact Nat.le_of_dvd (by omega) this
  exact ⟨hf2, hfn, conv f hf2 hfn hfk⟩

/-! ## the split `P` -/

/-- the accumulation loop of `PlanTree(n)`: the result is a multiple of the start value, divides the product of
    everything offered, and either is the start value or passed the test `P² ≤ n` -/
theorem splitLoop_spec (n : ℕ) : ∀ (rest : List ℕ) (P : ℕ) (b : Bool),
    P ∣ (rest.foldl (fun (acc : ℕ × Bool) f =>
      if acc.2 then acc else if (acc.1 * f) * (acc.1 * f) > n then (acc.1, true) else (acc.1 * f, false)) (P, b)).1 ∧
    (rest.foldl (fun (acc : ℕ × Bool) f =>
      if acc.2 then acc else if (acc.1 * f) * (acc.1 * f) > n then (acc.1, true) else (acc.1 * f, false)) (P, b)).1
      ∣ P * rest.prod ∧
    ((rest.foldl (fun (acc : ℕ × Bool) f =>
      if acc.2 then acc else if (acc.1 * f) * (acc.1 * f) > n then (acc.1, true) else (acc.1 * f, false)) (P, b)).1 = P ∨
     (rest.foldl (fun (acc : ℕ × Bool) f =>
      if acc.2 then acc else if (acc.1 * f) * (acc.1 * f) > n then (acc.1, true) else (acc.1 * f, false)) (P, b)).1 *
     (rest.foldl (fun (acc : ℕ × Bool) f =>
      if acc.2 then acc else if (acc.1 * f) * (acc.1 * f) > n then (acc.1, true) else (acc.1 * f, false)) (P, b)).1 ≤ n)
  | [], P, b => by simp
  | f :: rest, P, b => by
    rw [List.foldl_cons, List.prod_cons]
    cases b with
    | true =>
      simp only [if_true]
      obtain ⟨a1, a2, a3⟩ := splitLoop_spec n rest P true
      exact ⟨a1, a2.trans ⟨f, by ring⟩, a3⟩
    | false =>
      simp only [Bool.false_eq_true, if_false]
      by_cases hc : (P * f) * (P * f) > n
      · rw [if_pos hc]
        obtain ⟨a1, a2, a3⟩ := splitLoop_spec n rest P true
        exact ⟨a1, a2.trans ⟨f, by ring⟩, a3⟩
      · rw [if_neg hc]
        obtain ⟨a1, a2, a3⟩ := splitLoop_spec n rest (P * f) false
        refine ⟨(Dvd.intro _ rfl).trans a1, by rw [← Nat.mul_assoc]; exact a2, Or.inr ?_⟩
        rcases a3 with a3 | a3
        · rw [a3]; exact Nat.le_of_not_lt hc
        · exact a3

/-- the split of `PlanTree(n)`: whenever the factor list has at least two entries (all `≥ 2`, product `n`),
    `P` is a proper divisor of `n` with `2 ≤ P` -/
theorem splitP_spec (n : ℕ) (fac : List ℕ) (hprod : fac.prod = n) (hge : ∀ f ∈ fac, 2 ≤ f) (hlen : 2 ≤ fac.length) :
    2 ≤ splitP n fac ∧ splitP n fac < n ∧ splitP n fac ∣ n := by
  match fac, hlen with
  | f0 :: f1 :: rest, _ =>
    have hf0 : 2 ≤ f0 := hge f0 (by simp)
    have hf1 : 2 ≤ f1 := hge f1 (by simp)
    have hrest : 0 < rest.prod := List.prod_pos (fun a ha => by have := hge a (by simp [ha]); omega)
    have hn : n = f0 * (f1 * rest.prod) := by rw [← hprod]; simp
    have hr2 : 2 ≤ f1 * rest.prod := by
      calc 2 ≤ f1 := hf1
        _ = f1 * 1 := (Nat.mul_one _).symm
        _ ≤ f1 * rest.prod := Nat.mul_le_mul_left _ hrest
    have hnpos : 0 < n := by rw [hn]; exact Nat.mul_pos (by omega) (by omega)
    have hf0n : f0 < n := by
      rw [hn]
      calc f0 < f0 * 2 := by omega
        _ ≤ f0 * (f1 * rest.prod) := Nat.mul_le_mul_left _ hr2
    obtain ⟨a1, a2, a3⟩ := splitLoop_spec n (f1 :: rest) f0 false
    have hP : splitP n (f0 :: f1 :: rest) = ((f1 :: rest).foldl (fun (acc : ℕ × Bool) f =>
      if acc.2 then acc else if (acc.1 * f) * (acc.1 * f) > n then (acc.1, true) else (acc.1 * f, false)) (f0, false)).1 := rfl
    rw [hP]
    generalize ((f1 :: rest).foldl (fun (acc : ℕ × Bool) f =>
      if acc.2 then acc else if (acc.1 * f) * (acc.1 * f) > n then (acc.1, true) else (acc.1 * f, false)) (f0, false)).1 = P at *
    have hdvd : P ∣ n := by rw [hn]; simpa using a2
    have hPpos : 0 < P := Nat.pos_of_dvd_of_pos hdvd hnpos
    have hP2 : 2 ≤ P := le_trans hf0 (Nat.le_of_dvd hPpos a1)
    refine ⟨hP2, ?_, hdvd⟩
    rcases a3 with a3 | a3
    · rw [a3]; exact hf0n
    · calc P < P * 2 := by omega
        _ ≤ P * P := Nat.mul_le_mul_left _ hP2
        _ ≤ n := a3

/-! ## the tree -/

/-- fuel `f` suffices for every length below `2^f`: a split node has both children `≥ 2`, hence at most half the parent -/
theorem mkPlan_wf_fuel : ∀ (fuel n : ℕ), 2 ≤ n → n < 2 ^ 31 → n < 2 ^ fuel →
    Plan.WF (mkPlan fuel n) ∧ (mkPlan fuel n).size = n ∧
      ∀ m ∈ Plan.leaves (mkPlan fuel n), 2 ≤ m ∧ m ≤ n ∧ (ispow2 m = true ∨ isprime m = true)
  | 0, n, h2, _, hf => by simp at hf; omega
  | fuel + 1, n, h2, hlt, hf => by
    obtain ⟨hprod, hmem, hlen⟩ := treeFactors_spec n h2 hlt
    have leafCase : (ispow2 n = true ∨ isprime n = true) →
        Plan.WF (.leaf n) ∧ (Plan.leaf n).size = n ∧
        ∀ m ∈ Plan.leaves (.leaf n), 2 ≤ m ∧ m ≤ n ∧ (ispow2 m = true ∨ isprime m = true) := by
      intro h
      refine ⟨by simp only [Plan.WF]; omega, rfl, ?_⟩
      intro m hm
      simp only [Plan.leaves, List.mem_singleton] at hm
      subst hm
      exact ⟨h2, le_rfl, h⟩
    rw [mkPlan]
    by_cases hp : ispow2 n = true
    · rw [if_pos hp]; exact leafCase (Or.inl hp)
    · rw [if_neg hp]
      simp only []
      by_cases hl : (treeFactors n).length = 1
      · have : ((treeFactors n).length == 1) = true := by rw [beq_iff_eq]; exact hl
        rw [if_pos this]
        exact leafCase (hlen hl)
      · have : ¬ ((treeFactors n).length == 1) = true := by rw [beq_iff_eq]; exact hl
        rw [if_neg this]
        have hl0 : (treeFactors n).length ≠ 0 := by
          intro h0
          rw [List.length_eq_zero_iff.mp h0] at hprod
          simp at hprod
          omega
        obtain ⟨hP2, hPn, hPd⟩ := splitP_spec n (treeFactors n) hprod (fun f hf => (hmem f hf).1) (by omega)
        generalize splitP n (treeFactors n) = P at *
        have hPQ : P * (n / P) = n := Nat.mul_div_cancel' hPd
        generalize n / P = Q at hPQ ⊢
        have hQ2 : 2 ≤ Q := by
          by_contra hc
          have : Q = 0 ∨ Q = 1 := by omega
          rcases this with h | h <;> rw [h] at hPQ <;> omega
        have hPh : P * 2 ≤ n := by
          calc P * 2 ≤ P * Q := Nat.mul_le_mul_left _ hQ2
            _ = n := hPQ
        have hQh : 2 * Q ≤ n := by
          calc 2 * Q ≤ P * Q := Nat.mul_le_mul_right _ hP2
            _ = n := hPQ
        rw [pow_succ] at hf
        obtain ⟨wp, sp, lp⟩ := mkPlan_wf_fuel fuel P hP2 (by omega) (by omega)
        obtain ⟨wq, sq, lq⟩ := mkPlan_wf_fuel fuel Q hQ2 (by omega) (by omega)
        refine ⟨⟨sp, sq, wp, wq⟩, hPQ, ?_⟩
        intro m hm
        simp only [Plan.leaves, List.mem_append] at hm
        rcases hm with hm | hm
        · obtain ⟨a, b, c⟩ := lp m hm
          exact ⟨a, by omega, c⟩
        · obtain ⟨a, b, c⟩ := lq m hm
          exact ⟨a, by omega, c⟩

/-- **`mkPlan_wf`** — the factor tree built by `PlanTree(n)` is well formed for every length `2 ≤ n < 2^31`
    (every value of the `int` argument): the recorded sizes are the children's sizes, the root has size `n`, and every
    leaf is a length `2 ≤ m ≤ n` that is a power of two or a prime by the library's own tests; in particular the
    recursion depth 32 of the model is never exhausted. -/
theorem mkPlan_wf (n : ℕ) (hn : 2 ≤ n) (hlt : n < 2 ^ 31) :
    Plan.WF (mkPlan 32 n) ∧ (mkPlan 32 n).size = n ∧
    ∀ m ∈ Plan.leaves (mkPlan 32 n), 2 ≤ m ∧ m ≤ n ∧ (ispow2 m = true ∨ isprime m = true) :=
  mkPlan_wf_fuel 32 n hn hlt (lt_trans hlt (by norm_num))

/-- hypothesis `hfac` of `fftC_eq_partial`, from correctness of the leaf solvers on powers of two and primes `≤ n` -/
theorem hfac_of_leaves (lit : Lits ℝ) (n : ℕ) (hn : 2 ≤ n) (hlt : n < 2 ^ 31)
    (hleaf : ∀ m, 2 ≤ m → m ≤ n → (ispow2 m = true ∨ isprime m = true) → IsDft m (fftLeaf lit m)) :
    Plan.WF (mkPlan 32 n) ∧ (mkPlan 32 n).size = n ∧ ∀ m ∈ Plan.leaves (mkPlan 32 n), IsDft m (fftLeaf lit m) := by
  obtain ⟨a, b, c⟩ := mkPlan_wf n hn hlt
  exact ⟨a, b, fun m hm => hleaf m (c m hm).1 (c m hm).2.1 (c m hm).2.2⟩

/-! ## non-vacuity: concrete instances -/

/-- the general theorem at `n = 60` agrees with the tree computed by kernel evaluation (`plan60`):
    a genuine two-level tree `3 · (4 · 5)` -/
example : Plan.WF (.node 3 20 (.leaf 3) (.node 4 5 (.leaf 4) (.leaf 5))) ∧
    (Plan.node 3 20 (.leaf 3) (.node 4 5 (.leaf 4) (.leaf 5))).size = 60 := by
  have h := mkPlan_wf 60 (by norm_num) (by norm_num)
  rw [plan60] at h
  exact ⟨h.1, h.2.1⟩

/-- a prime power splits (`fac = [3, 3]` has two entries): `9 = 3 · 3` -/
example : treeFactors 9 = [3, 3] ∧ splitP 9 [3, 3] = 3 := by decide +kernel

/-- the hypotheses of `splitP_spec` at a concrete list; the accumulation stops at `P = 3` because `(3·4)² > 60` -/
example : treeFactors 60 = [3, 4, 5] ∧ splitP 60 [3, 4, 5] = 3 := by decide +kernel

end Dsp.C01
