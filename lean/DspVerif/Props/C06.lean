import DspVerif.Lib.C06Array
import DspVerif.Model.Framing
import DspVerif.Model.Resample
import DspVerif.Model.Dynamics
import DspVerif.Props.C08
import DspVerif.Props.C12
import DspVerif.Props.C16
/-!
# C06 — Streaming processors are invariant to how the stream is framed

Theorems about the executable models of the stateful block processors (`Model/Fir.lean`: FirFilter, FftFilter, MAFilter;
`Model/Resample.lean`: FIRInterpolator, FIRDecimator, FIRRateConverter, FIRResampler; `Model/Dynamics.lean`: Compressor,
Limiter, NoiseGate, Agc; `Model/Adaptive.lean`: LMS / NLMS / RLS; `Model/Order.lean`: MedianFilter; `Model/Framing.lean`:
Delay, Tuner, HilbertFilter), tied to the C++ by the correspondence run of `harness/c06.cpp`, which executes exactly
`Framing.runFrames` / `runFramesE` — the function the theorems below speak about.

* **T06.all** `framing_invariant` / `framing_invariant_except`: stated ONCE, abstractly.  If `process` satisfies the split
  law `process s (a ++ b) = (s₂, y₁ ++ y₂)` where `(s₁, y₁) = process s a`, `(s₂, y₂) = process s₁ b` (for frames of the
  documented granularity, from reachable states), then for EVERY partition of EVERY stream into frames — empty frames
  included — running the frames one call after the other gives the final state and the concatenated output of ONE call
  on the whole stream (induction on the partition).  `framing_partition_irrelevant`: any two partitions of the same
  stream give the same result.
* **T06.k** the split law itself, per processor.  Every one of them is STRUCTURAL: it holds for every sample type with
  whatever `+ * …` it carries — no algebraic law is used, only data movement is rearranged — hence also for `Float`
  itself (no rounding caveat).  Sample loops (`FftFilter` with its block buffer / `_nx` / `_olap`, MAFilter, Tuner,
  Compressor, Limiter, NoiseGate, Agc real and complex) are literal folds that only append to their output:
  `fold_split`.  The history hand-over proofs are `fir_split` (FirFilter keeps the last `nh-1` samples), `delay_split`,
  `hilbert_split`, `interp_split` (`sublen-1`), `decim_split` (`decim·(sublen-1)`, frames multiples of `decim`),
  `rate_split` (`sublen-1`, frames multiples of `decim`, needs every schedule offset `< decim`: `rate_init_inv`),
  `rs_split` (the FIRResampler wrapper).  MedianFilter: `C16.process_append`; LMS / NLMS: `C12.lms_framing`;
  RLS: `C12.rls_refines` + `C12.runR_append`.
* per processor `*_framing`: T06.all instantiated, from the constructor's state.
* `instances_independent`: in the (pure) model two objects used interleaved produce what each produces alone; on the
  C++ side this clause is the ORACLE's interleaving runs (no shared mutable statics).

Not modelled: rounding is irrelevant here (the statements are equalities of the same arithmetic in the same order);
`FftFilter`'s transform pair is a parameter (any functions).
-/
open Dsp Dsp.Framing Dsp.C06A

namespace Dsp.C06
set_option linter.unusedSectionVars false
set_option linter.unusedVariables false

/-! ## T06.all — the generic theorem -/
section generic
variable {σ I O ε : Type} [Append I] [Append O]

/-- **T06.all (framing_invariant).**  `process` total.  Hypotheses: `Inv` holds for the start state and is preserved;
`Al` ("frame of the documented granularity") holds for the empty frame and is closed under `++`; an empty call does
nothing; the split law.  Conclusion, for EVERY list of admissible frames: calling `process` frame by frame and
concatenating = ONE call on the concatenation — final state and output. -/
theorem framing_invariant (eI : I) (eO : O) (process : σ → I → σ × O) (Inv : σ → Prop) (Al : I → Prop)
    (hnil : ∀ s, Inv s → process s eI = (s, eO))
    (hAl0 : Al eI) (hAlapp : ∀ a b, Al a → Al b → Al (a ++ b))
    (hInv : ∀ s a, Inv s → Al a → Inv (process s a).1)
    (hsplit : ∀ s a b, Inv s → Al a → Al b →
      process s (a ++ b) = ((process (process s a).1 b).1, (process s a).2 ++ (process (process s a).1 b).2))
    (s : σ) (hs : Inv s) (frames : List I) (hfr : ∀ f ∈ frames, Al f) :
    runFrames eO process s frames = process s (concat eI frames) ∧ Al (concat eI frames) := by
  induction frames generalizing s with
  | nil => exact ⟨by simp [runFrames, concat, hnil s hs], hAl0⟩
  | cons f fs ih =>
    have hf : Al f := hfr f (by simp)
    obtain ⟨h1, h2⟩ := ih (process s f).1 (hInv s f hs hf) (fun g hg => hfr g (by simp [hg]))
    refine ⟨?_, hAlapp _ _ hf h2⟩
    simp only [runFrames, concat]
    rw [h1, hsplit s f _ hs hf h2]

/-- **T06.all, "no gap, repeat or transient at frame boundaries".**  Two partitions of the same stream give the same
final state and the same concatenated output. -/
theorem framing_partition_irrelevant (eI : I) (eO : O) (process : σ → I → σ × O) (Inv : σ → Prop) (Al : I → Prop)
    (hnil : ∀ s, Inv s → process s eI = (s, eO))
    (hAl0 : Al eI) (hAlapp : ∀ a b, Al a → Al b → Al (a ++ b))
    (hInv : ∀ s a, Inv s → Al a → Inv (process s a).1)
    (hsplit : ∀ s a b, Inv s → Al a → Al b →
      process s (a ++ b) = ((process (process s a).1 b).1, (process s a).2 ++ (process (process s a).1 b).2))
    (s : σ) (hs : Inv s) (fr1 fr2 : List I) (h1 : ∀ f ∈ fr1, Al f) (h2 : ∀ f ∈ fr2, Al f)
    (hsame : concat eI fr1 = concat eI fr2) :
    runFrames eO process s fr1 = runFrames eO process s fr2 := by
  rw [(framing_invariant eI eO process Inv Al hnil hAl0 hAlapp hInv hsplit s hs fr1 h1).1,
    (framing_invariant eI eO process Inv Al hnil hAl0 hAlapp hInv hsplit s hs fr2 h2).1, hsame]

/-- the concatenation of admissible frames is admissible -/
theorem concat_al (eI : I) (Al : I → Prop) (hAl0 : Al eI) (hAlapp : ∀ a b, Al a → Al b → Al (a ++ b)) :
    ∀ frames : List I, (∀ f ∈ frames, Al f) → Al (concat eI frames)
  | [], _ => hAl0
  | f :: fs, h => hAlapp _ _ (h f (by simp)) (concat_al eI Al hAl0 hAlapp fs (fun g hg => h g (by simp [hg])))

/-- **T06.all for a `process` that can throw** (the granularity check of the decimating converters, the length check of
the adaptive filters).  With admissible frames nothing throws differently: frame-by-frame = one call, including the
`Except` status. -/
theorem framing_invariant_except (eI : I) (eO : O) (process : σ → I → Except ε (σ × O)) (Inv : σ → Prop) (Al : I → Prop)
    (hnil : ∀ s, Inv s → process s eI = .ok (s, eO))
    (hAl0 : Al eI) (hAlapp : ∀ a b, Al a → Al b → Al (a ++ b))
    (hInv : ∀ s a r, Inv s → Al a → process s a = .ok r → Inv r.1)
    (hsplit : ∀ s a b, Inv s → Al a → Al b →
      process s (a ++ b) = (process s a).bind fun r => (process r.1 b).map fun q => (q.1, r.2 ++ q.2))
    (s : σ) (hs : Inv s) (frames : List I) (hfr : ∀ f ∈ frames, Al f) :
    runFramesE eO process s frames = process s (concat eI frames) := by
  induction frames generalizing s with
  | nil => simp [runFramesE, concat, hnil s hs]
  | cons f fs ih =>
    have hf : Al f := hfr f (by simp)
    have hrest : Al (concat eI fs) := concat_al eI Al hAl0 hAlapp fs (fun g hg => hfr g (by simp [hg]))
    simp only [runFramesE, concat]
    rw [hsplit s f _ hs hf hrest]
    cases h : process s f with
    | error e => rfl
    | ok r =>
      have h1 := ih r.1 (hInv s f r hs hf h) (fun g hg => hfr g (by simp [hg]))
      simp only [h1, Except.bind]
      cases process r.1 (concat eI fs) <;> rfl

/-- the whole stream of a partition of arrays is `Array.flatten` -/
theorem concat_eq_flatten {β : Type} (frames : List (Array β)) : concat #[] frames = frames.toArray.flatten := by
  induction frames with
  | nil => simp [concat]
  | cons f fs ih => simp [concat, ih, Array.flatten_toArray]

end generic

/-! ## instance independence (pure model) -/
section independence
variable {σ₁ σ₂ I₁ I₂ O₁ O₂ : Type} [Append O₁] [Append O₂]

/-- two separately constructed objects, calls arriving in any interleaving (`inl` = a frame for the first object) -/
def runMixed (e₁ : O₁) (e₂ : O₂) (p₁ : σ₁ → I₁ → σ₁ × O₁) (p₂ : σ₂ → I₂ → σ₂ × O₂) (s₁ : σ₁) (s₂ : σ₂) :
    List (I₁ ⊕ I₂) → (σ₁ × O₁) × (σ₂ × O₂)
  | [] => ((s₁, e₁), (s₂, e₂))
  | .inl f :: t =>
    let r := p₁ s₁ f
    let q := runMixed e₁ e₂ p₁ p₂ r.1 s₂ t
    ((q.1.1, r.2 ++ q.1.2), q.2)
  | .inr f :: t =>
    let r := p₂ s₂ f
    let q := runMixed e₁ e₂ p₁ p₂ s₁ r.1 t
    (q.1, (q.2.1, r.2 ++ q.2.2))

/-- **"Separately constructed instances never influence one another" (model side).**  Whatever the interleaving, each
object ends in the state and has produced the output of being fed its own frames alone. -/
theorem instances_independent (e₁ : O₁) (e₂ : O₂) (p₁ : σ₁ → I₁ → σ₁ × O₁) (p₂ : σ₂ → I₂ → σ₂ × O₂) (s₁ : σ₁) (s₂ : σ₂)
    (calls : List (I₁ ⊕ I₂)) :
    (runMixed e₁ e₂ p₁ p₂ s₁ s₂ calls).1 = runFrames e₁ p₁ s₁ (calls.filterMap Sum.getLeft?) ∧
    (runMixed e₁ e₂ p₁ p₂ s₁ s₂ calls).2 = runFrames e₂ p₂ s₂ (calls.filterMap Sum.getRight?) := by
  induction calls generalizing s₁ s₂ with
  | nil => simp [runMixed, runFrames]
  | cons c t ih =>
    cases c with
    | inl f =>
      obtain ⟨h1, h2⟩ := ih (p₁ s₁ f).1 s₂
      simp [runMixed, runFrames, h1, h2, List.filterMap_cons]
    | inr f =>
      obtain ⟨h1, h2⟩ := ih s₁ (p₂ s₂ f).1
      simp [runMixed, runFrames, h1, h2, List.filterMap_cons]

end independence

/-! ## T06.k — sample loops (literal folds) -/
section folds
variable {α : Type} [Add α] [Sub α] [Mul α] [Div α] [Neg α] [LT α] [LE α] [Fn α]
  [DecidableRel (· < · : α → α → Prop)] [DecidableRel (· ≤ · : α → α → Prop)]
open Dsp.Fir Dsp.Dynamics

/-- **T06 MAFilter (split law)**, every sample type (`real_t`, `cmplx_t`), every `T / int`. -/
theorem ma_split {β : Type} [Add β] [Sub β] (zero : β) (divn : β → Nat → β) (s : MaState β) (a b : Array β) :
    maProcess zero divn s (a ++ b) =
      ((maProcess zero divn (maProcess zero divn s a).1 b).1,
        (maProcess zero divn s a).2 ++ (maProcess zero divn (maProcess zero divn s a).1 b).2) := by
  unfold maProcess
  exact fold_split_array _ (by intro s acc x; simp) s a b

/-- **T06 FftFilter (split law)**: arbitrary frame lengths; the (block-wise) outputs are compared as concatenations.
The block buffer `_x`, the fill count `_nx` and the overlap `_olap` are all in the state that is handed over.
Every transform pair `fft`, `ifft` (any functions), every sample type. -/
theorem fft_split {β : Type} [Add β] [Mul β] (zero : β) (fft ifft : Array β → Array β) (s : FftState β) (a b : Array β) :
    fftProcess zero fft ifft s (a ++ b) =
      ((fftProcess zero fft ifft (fftProcess zero fft ifft s a).1 b).1,
        (fftProcess zero fft ifft s a).2 ++ (fftProcess zero fft ifft (fftProcess zero fft ifft s a).1 b).2) := by
  unfold fftProcess
  refine fold_split_array _ ?_ s a b
  intro s acc x
  simp only [fftStep]
  split <;> simp

/-- the real entry point `FftFilter::process(const arr_real&)` = `real(process(complex(x)))` -/
theorem fftR_split (fft ifft : Array (Cx α) → Array (Cx α)) (s : FftState (Cx α)) (a b : Array α) :
    fftProcessR fft ifft s (a ++ b) =
      ((fftProcessR fft ifft (fftProcessR fft ifft s a).1 b).1,
        (fftProcessR fft ifft s a).2 ++ (fftProcessR fft ifft (fftProcessR fft ifft s a).1 b).2) := by
  simp only [fftProcessR, fftProcessC, ofRealV, reV, Array.map_append, fft_split]

/-- **T06 Compressor / Limiter (split law)**: `processWith` is the sample loop of both; state `gs_`. -/
theorem processWith_split (stp : α → α → Step α) (gs : α) (a b : Array α) :
    processWith stp gs (a ++ b) =
      ((processWith stp (processWith stp gs a).1 b).1,
        (processWith stp gs a).2.1 ++ (processWith stp (processWith stp gs a).1 b).2.1,
        (processWith stp gs a).2.2 ++ (processWith stp (processWith stp gs a).1 b).2.2) := by
  unfold processWith
  simp only [Array.mkEmpty_eq]
  refine fold_split_pair _ ?_ gs a b
  rintro s ⟨ga, oa⟩ x
  simp

/-- **T06 NoiseGate (split law)**; state `cA_` (hold counter), `lg_`. -/
theorem gate_split (p : Gate α) (s : GateState α) (a b : Array α) :
    Gate.process p s (a ++ b) =
      ((Gate.process p (Gate.process p s a).1 b).1,
        (Gate.process p s a).2.1 ++ (Gate.process p (Gate.process p s a).1 b).2.1,
        (Gate.process p s a).2.2 ++ (Gate.process p (Gate.process p s a).1 b).2.2) := by
  unfold Gate.process
  simp only [Array.mkEmpty_eq]
  refine fold_split_pair _ ?_ s a b
  rintro s ⟨ga, oa⟩ x
  simp

/-- **T06 Agc, real signals (split law)**; state = log-gain and the moving-average filter of the power. -/
theorem agcR_split (p : Agc α) (s : AgcState α) (a b : Array α) :
    Agc.processR p s (a ++ b) =
      ((Agc.processR p (Agc.processR p s a).1 b).1,
        (Agc.processR p s a).2.1 ++ (Agc.processR p (Agc.processR p s a).1 b).2.1,
        (Agc.processR p s a).2.2 ++ (Agc.processR p (Agc.processR p s a).1 b).2.2) := by
  unfold Agc.processR
  simp only [Array.mkEmpty_eq]
  refine fold_split_pair _ ?_ s a b
  rintro s ⟨ga, oa⟩ x
  simp

/-- **T06 Agc, complex signals (split law).** -/
theorem agcC_split (p : Agc α) (s : AgcState α) (a b : Array (Cx α)) :
    Agc.processC p s (a ++ b) =
      ((Agc.processC p (Agc.processC p s a).1 b).1,
        (Agc.processC p s a).2.1 ++ (Agc.processC p (Agc.processC p s a).1 b).2.1,
        (Agc.processC p s a).2.2 ++ (Agc.processC p (Agc.processC p s a).1 b).2.2) := by
  unfold Agc.processC
  simp only [Array.mkEmpty_eq]
  refine fold_split_pair _ ?_ s a b
  rintro s ⟨ga, oa⟩ x
  simp

/-- **T06 Tuner (split law)**; state `_phase`, including its wrap at `fs` for an integer number of cycles. -/
theorem tuner_split (p : Tuner α) (ph : Nat) (a b : Array (Cx α)) :
    p.process ph (a ++ b) =
      ((p.process (p.process ph a).1 b).1, (p.process ph a).2 ++ (p.process (p.process ph a).1 b).2) := by
  unfold Tuner.process
  exact fold_split_array _ (by intro s acc x; simp) ph a b

end folds

/-! ## T06.k — history hand-over: FirFilter, Delay, HilbertFilter -/

theorem ofFn_eq_tabF {γ : Type} (n m : Nat) (h : n = m) (F : Nat → γ) :
    Array.ofFn (n := n) (fun i => F i.val) = tabF m F := by
  subst h; rfl

section fir
open Dsp.Fir
variable {β : Type} [Add β] [Mul β]

theorem acc_congr (z : β) (n : Nat) (f g : Nat → β) (h : ∀ k, k < n → f k = g k) : acc z n f = acc z n g := by
  induction n with
  | zero => rfl
  | succ n ih =>
    simp only [acc]
    rw [ih (fun k hk => h k (by omega)), h n (by omega)]

/-- the states a `FirFilter` object can be in: at least one tap, `_d` holds `nh - 1` samples -/
def FirInv (s : State β) : Prop := 1 ≤ s.h.size ∧ s.d.size = s.h.size - 1

theorem fir_init_inv (zero : β) (h : Array β) (hh : 1 ≤ h.size) : FirInv (init zero h) := by
  simp [FirInv, init, hh]

/-- one call: the new `_d` is the hand-over of the work buffer, output `i` reads the work buffer at `i .. i + nh - 1` -/
theorem fir_process_eq (zero : β) (cj : β → β) (s : State β) (x : Array β) (hs : FirInv s) :
    process zero cj s x =
      (⟨s.h, hand s.d x⟩,
        tabF x.size fun i => acc zero s.h.size fun k => (s.d ++ x).getD (i + k) zero * cj (s.h.getD (s.h.size - k - 1) zero)) := by
  obtain ⟨h1, h2⟩ := hs
  unfold process conv
  refine Prod.ext ?_ ?_
  · show State.mk s.h ((s.d ++ x).extract ((s.d ++ x).size - (s.h.size - 1)) (s.d ++ x).size) = _
    simp only [hand, Array.size_append]
    congr 2 <;> omega
  · exact ofFn_eq_tabF ((s.d ++ x).size + 1 - s.h.size) x.size (by simp only [Array.size_append]; omega)
      (fun i => acc zero s.h.size fun k => (s.d ++ x).getD (i + k) zero * cj (s.h.getD (s.h.size - k - 1) zero))

theorem fir_inv_step (zero : β) (cj : β → β) (s : State β) (x : Array β) (hs : FirInv s) :
    FirInv (process zero cj s x).1 := by
  rw [fir_process_eq zero cj s x hs]
  exact ⟨hs.1, by simp only [size_hand]; exact hs.2⟩

theorem fir_out_size (zero : β) (cj : β → β) (s : State β) (x : Array β) (hs : FirInv s) :
    (process zero cj s x).2.size = x.size := by
  rw [fir_process_eq zero cj s x hs]; exact size_tabF _ _

/-- **T06 FirFilter (split law).**  For EVERY sample type (`real_t`, `cmplx_t`, `Float`, …: only `+` and `*` exist, no law
is used), every `conj`, every tap vector with at least one tap, every state whose `_d` holds `nh - 1` samples, every pair
of frames — including frames shorter than the history: feeding `a` then `b` = feeding `a ++ b`, final `_d` included. -/
theorem fir_split (zero : β) (cj : β → β) (s : State β) (a b : Array β) (hs : FirInv s) :
    process zero cj s (a ++ b) =
      ((process zero cj (process zero cj s a).1 b).1,
        (process zero cj s a).2 ++ (process zero cj (process zero cj s a).1 b).2) := by
  have hs1 := fir_inv_step zero cj s a hs
  rw [fir_process_eq zero cj _ b hs1]
  rw [fir_process_eq zero cj s a hs, fir_process_eq zero cj s (a ++ b) hs]
  simp only
  refine Prod.ext ?_ ?_
  · simp only [hand_hand]
  · simp only [Array.size_append, tabF_add]
    congr 1
    · apply tabF_congr
      intro i hi
      apply acc_congr
      intro k hk
      rw [getD_prefix _ _ _ _ _ (by have := hs.2; omega)]
    · apply tabF_congr
      intro i _
      apply acc_congr
      intro k _
      rw [Nat.add_assoc, getD_shift]

theorem fir_nil (zero : β) (cj : β → β) (s : State β) (hs : FirInv s) : process zero cj s #[] = (s, #[]) := by
  rw [fir_process_eq zero cj s #[] hs]
  simp [hand_empty, tabF_zero]

/-- **T06 FirFilter, every framing**: from the constructor's state, any list of frames (any lengths, empty included). -/
theorem fir_framing (zero : β) (cj : β → β) (h : Array β) (hh : 1 ≤ h.size) (frames : List (Array β)) :
    runFrames #[] (process zero cj) (init zero h) frames = process zero cj (init zero h) (concat #[] frames) :=
  (framing_invariant #[] #[] (process zero cj) FirInv (fun _ => True) (fir_nil zero cj) trivial (fun _ _ _ _ => trivial)
    (fun s a hs _ => fir_inv_step zero cj s a hs) (fun s a b hs _ _ => fir_split zero cj s a b hs)
    (init zero h) (fir_init_inv zero h hh) frames (fun _ _ => trivial)).1

end fir

section delay
variable {β : Type}

theorem delay_state (buf x : Array β) : (delayProcess buf x).1 = hand buf x := by
  simp only [delayProcess, hand, Array.size_append]
  congr 1 <;> omega

theorem delay_out_getElem? (buf x : Array β) (i : Nat) :
    (delayProcess buf x).2[i]? = if i < x.size then (buf ++ x)[i]? else none := by
  simp only [delayProcess, Array.getElem?_extract, Array.size_append]
  by_cases h : i < x.size
  · rw [if_pos (by omega), if_pos h, Nat.zero_add]
  · rw [if_neg (by omega), if_neg h]

theorem delay_out_size (buf x : Array β) : (delayProcess buf x).2.size = x.size := by
  simp only [delayProcess, Array.size_extract, Array.size_append]; omega

/-- **T06 Delay (split law)**: every element type, every buffer length, every pair of frames (shorter or longer than
the delay). -/
theorem delay_split (buf a b : Array β) :
    delayProcess buf (a ++ b) =
      ((delayProcess (delayProcess buf a).1 b).1, (delayProcess buf a).2 ++ (delayProcess (delayProcess buf a).1 b).2) := by
  refine Prod.ext ?_ ?_
  · simp only [delay_state, hand_hand]
  · simp only [delay_state]
    apply Array.ext_getElem?
    intro i
    rw [delay_out_getElem?, Array.getElem?_append (xs := (delayProcess buf a).2), delay_out_size, delay_out_getElem?,
      delay_out_getElem?, Array.size_append]
    by_cases h1 : i < a.size
    · rw [if_pos (by omega), if_pos h1, if_pos h1, getElem?_prefix _ _ _ _ (by omega)]
    · rw [if_neg h1]
      by_cases h2 : i < a.size + b.size
      · rw [if_pos h2, if_pos (by omega), ← getElem?_shift]
        congr 1; omega
      · rw [if_neg h2, if_neg (by omega)]

theorem delay_nil (buf : Array β) : delayProcess buf #[] = (buf, #[]) := by
  refine Prod.ext ?_ ?_
  · rw [delay_state, hand_empty]
  · apply Array.ext_getElem?; intro i; rw [delay_out_getElem?]; simp

/-- **T06 Delay, every framing.** -/
theorem delay_framing (buf : Array β) (frames : List (Array β)) :
    runFrames #[] delayProcess buf frames = delayProcess buf (concat #[] frames) :=
  (framing_invariant #[] #[] delayProcess (fun _ => True) (fun _ => True) (fun s _ => delay_nil s) trivial
    (fun _ _ _ _ => trivial) (fun _ _ _ _ => trivial) (fun s a b _ _ _ => delay_split s a b) buf trivial frames
    (fun _ _ => trivial)).1

end delay

section hilbert
variable {α : Type} [Add α] [Sub α] [Mul α] [Div α] [Neg α] [LT α] [LE α] [Fn α]
  [DecidableRel (· < · : α → α → Prop)] [DecidableRel (· ≤ · : α → α → Prop)]
open Dsp.Fir

/-- **T06 HilbertFilter (split law)**: the delay line of the real part and the FIR of the imaginary part hand their
histories over independently; the two outputs are zipped sample by sample. -/
theorem hilbert_split (s : Hilbert α) (a b : Array α) (hs : FirInv s.fir) :
    s.process (a ++ b) = (((s.process a).1.process b).1, (s.process a).2 ++ ((s.process a).1.process b).2) := by
  simp only [Hilbert.process, firProcessR]
  rw [fir_split zeroR id s.fir a b hs, delay_split]
  refine Prod.ext rfl ?_
  simp only
  rw [Array.zipWith_append]
  rw [delay_out_size, fir_out_size zeroR id s.fir a hs]

theorem hilbert_nil (s : Hilbert α) (hs : FirInv s.fir) : s.process #[] = (s, #[]) := by
  simp only [Hilbert.process, firProcessR, fir_nil zeroR id s.fir hs, delay_nil]
  simp

theorem hilbert_inv_step (s : Hilbert α) (x : Array α) (hs : FirInv s.fir) : FirInv (s.process x).1.fir :=
  fir_inv_step zeroR id s.fir x hs

/-- **T06 HilbertFilter, every framing** (taps `h` with at least one tap; the constructor's type-3 check is not needed). -/
theorem hilbert_framing (h : Array α) (hh : 1 ≤ h.size) (frames : List (Array α)) :
    runFrames #[] Hilbert.process (Hilbert.init h) frames = (Hilbert.init h).process (concat #[] frames) :=
  (framing_invariant #[] #[] Hilbert.process (fun s => FirInv s.fir) (fun _ => True) hilbert_nil trivial
    (fun _ _ _ _ => trivial) (fun s a hs _ => hilbert_inv_step s a hs) (fun s a b hs _ _ => hilbert_split s a b hs)
    (Hilbert.init h) (fir_init_inv zeroR h hh) frames (fun _ _ => trivial)).1

end hilbert

/-! ## T06.k — polyphase converters -/
section resample
open Dsp.Resample
variable {α : Type} [Add α] [Mul α] [Div α] [Fn α]

theorem tab_eq_tabF {γ : Type} (n : Nat) (f : Nat → γ) : tab n f = tabF n f := rfl

theorem loopN_congr {σ : Type} (n : Nat) (f g : Nat → σ → σ) (h : ∀ k, k < n → ∀ s, f k s = g k s) (s : σ) :
    loopN f n s = loopN g n s := by
  induction n with
  | zero => rfl
  | succ n ih =>
    simp only [loopN]
    rw [ih (fun k hk => h k (by omega)), h n (by omega)]

theorem accN_congr (n : Nat) (f g : Nat → α) (h : ∀ j, j < n → f j = g j) (a : α) : accN f n a = accN g n a := by
  unfold accN
  apply loopN_congr
  intro k hk s
  rw [h k hk]

theorem elem_prefix (d a b : Array α) (t : Nat) (h : t < d.size + a.size) : elem (d ++ (a ++ b)) t = elem (d ++ a) t :=
  getD_prefix d a b t zero h

theorem elem_shift (d a b : Array α) (t : Nat) : elem (d ++ (a ++ b)) (a.size + t) = elem (hand d a ++ b) t :=
  getD_shift d a b t zero

/-! ### FIRInterpolator -/

/-- `d_` holds `sublen - 1` samples -/
def InterpInv (s : Interp α) : Prop := s.d.size = s.sub - 1

theorem interp_init_inv (L : Nat) (h : Array α) : InterpInv (Interp.init L h) := by
  simp [InterpInv, Interp.init, zeros, tab]

theorem interp_state (s : Interp α) (x : Array α) : (s.process x).1 = { s with d := hand s.d x } := rfl

theorem interp_inv_step (s : Interp α) (x : Array α) (hs : InterpInv s) : InterpInv (s.process x).1 := by
  rw [interp_state]; simp only [InterpInv, size_hand]; exact hs

/-- **T06 FIRInterpolator (split law)**: every `L`, every coefficient table, every scalar type. -/
theorem interp_split (s : Interp α) (a b : Array α) (hs : InterpInv s) :
    s.process (a ++ b) = (((s.process a).1.process b).1, (s.process a).2 ++ ((s.process a).1.process b).2) := by
  refine Prod.ext ?_ ?_
  · simp only [interp_state, hand_hand]
  · simp only [interp_state]
    simp only [Interp.process, tab_eq_tabF, Array.size_append, Nat.add_mul, tabF_add]
    congr 1
    · apply tabF_congr
      intro o ho
      apply accN_congr
      intro j hj
      have hL : 0 < s.L := by
        rcases Nat.eq_zero_or_pos s.L with h | h
        · rw [h] at ho; simp at ho
        · exact h
      have h1 : o / s.L < a.size := Nat.div_lt_of_lt_mul (by rw [Nat.mul_comm]; exact ho)
      rw [elem_prefix _ _ _ _ (by have := hs; unfold InterpInv at this; omega)]
    · apply tabF_congr
      intro o ho
      have hL : 0 < s.L := by
        rcases Nat.eq_zero_or_pos s.L with h | h
        · rw [h] at ho; simp at ho
        · exact h
      have e1 : (a.size * s.L + o) / s.L = a.size + o / s.L := by
        rw [Nat.add_comm, Nat.add_mul_div_right _ _ hL, Nat.add_comm]
      have e2 : (a.size * s.L + o) % s.L = o % s.L := by
        rw [Nat.add_comm, Nat.add_mul_mod_self_right]
      rw [e1, e2]
      apply accN_congr
      intro j _
      rw [Nat.add_assoc, elem_shift]

theorem interp_nil (s : Interp α) : s.process #[] = (s, #[]) := by
  refine Prod.ext ?_ ?_
  · rw [interp_state, hand_empty]
  · simp [Interp.process, tab]

/-- **T06 FIRInterpolator, every framing.** -/
theorem interp_framing (L : Nat) (h : Array α) (frames : List (Array α)) :
    runFrames #[] Interp.process (Interp.init L h) frames = (Interp.init L h).process (concat #[] frames) :=
  (framing_invariant #[] #[] Interp.process InterpInv (fun _ => True) (fun s _ => interp_nil s) trivial
    (fun _ _ _ _ => trivial) (fun s a hs _ => interp_inv_step s a hs) (fun s a b hs _ _ => interp_split s a b hs)
    (Interp.init L h) (interp_init_inv L h) frames (fun _ _ => trivial)).1

/-! ### FIRDecimator -/

/-- `decim ≥ 1`, `d_` holds `decim·(sublen - 1)` samples -/
def DecimInv (s : Decim α) : Prop := 0 < s.M ∧ s.d.size = s.M * (s.sub - 1)

theorem decim_init_inv (M : Nat) (h : Array α) (hM : 0 < M) : DecimInv (Decim.init M h) := by
  simp [DecimInv, Decim.init, zeros, tab, hM]

/-- the outputs of one call (frame length a multiple of `decim`) -/
def decimOut (s : Decim α) (x : Array α) : Array α :=
  tabF (x.size / s.M) fun i =>
    loopN (fun k a => accN (fun j => elem (s.d ++ x) (i * s.M + k + j * s.M) * elem (row s.h k) j) s.sub a) s.M zero

theorem decim_process_ok (s : Decim α) (x : Array α) (hx : x.size % s.M = 0) :
    s.process x = .ok ({ s with d := hand s.d x }, decimOut s x) := by
  unfold Decim.process
  rw [if_neg (by simpa using hx)]
  rfl

theorem decim_out_split (s : Decim α) (a b : Array α) (hs : DecimInv s) (ha : a.size % s.M = 0) :
    decimOut s (a ++ b) = decimOut s a ++ decimOut { s with d := hand s.d a } b := by
  obtain ⟨hM, hd⟩ := hs
  have hda : a.size / s.M * s.M = a.size := Nat.div_mul_cancel (Nat.dvd_of_mod_eq_zero ha)
  have hsz : (a.size + b.size) / s.M = a.size / s.M + b.size / s.M := by
    have := Nat.add_mul_div_right b.size (a.size / s.M) hM
    rw [hda, Nat.add_comm] at this
    rw [this, Nat.add_comm]
  unfold decimOut
  simp only [Array.size_append, hsz, tabF_add]
  congr 1
  · apply tabF_congr
    intro i hi
    apply loopN_congr
    intro k hk acc
    apply accN_congr
    intro j hj
    have h1 := Nat.mul_le_mul_right s.M (show i + 1 ≤ a.size / s.M from hi)
    have h2 : j * s.M ≤ (s.sub - 1) * s.M := Nat.mul_le_mul_right s.M (by omega)
    rw [hda, Nat.add_mul, Nat.one_mul] at h1
    rw [Nat.mul_comm s.M] at hd
    rw [elem_prefix _ _ _ _ (by omega)]
  · apply tabF_congr
    intro i _
    apply loopN_congr
    intro k _ acc
    apply accN_congr
    intro j _
    have e : (a.size / s.M + i) * s.M + k + j * s.M = a.size + (i * s.M + k + j * s.M) := by
      rw [Nat.add_mul, hda]; omega
    rw [e, elem_shift]

/-- **T06 FIRDecimator (split law)**: frames whose lengths are multiples of `decim` (the documented granularity; any other
length throws). -/
theorem decim_split (s : Decim α) (a b : Array α) (hs : DecimInv s) (ha : a.size % s.M = 0) (hb : b.size % s.M = 0) :
    s.process (a ++ b) =
      (s.process a).bind fun r => (r.1.process b).map fun q => (q.1, r.2 ++ q.2) := by
  have hab : (a ++ b).size % s.M = 0 := by
    simp [Array.size_append, Nat.add_mod, ha, hb]
  rw [decim_process_ok s a ha, decim_process_ok s (a ++ b) hab]
  simp only [Except.bind]
  rw [decim_process_ok { s with d := hand s.d a } b hb]
  simp only [Except.map, hand_hand, decim_out_split s a b hs ha]

/-- **T06 FIRDecimator, every framing** into frames of `k·M` samples. -/
theorem decim_framing (M : Nat) (h : Array α) (hM : 0 < M) (frames : List (Array α)) (hfr : ∀ f ∈ frames, f.size % M = 0) :
    runFramesE #[] Decim.process (Decim.init M h) frames = (Decim.init M h).process (concat #[] frames) := by
  refine framing_invariant_except #[] #[] Decim.process (fun s => DecimInv s ∧ s.M = M) (fun x => x.size % M = 0)
    ?_ (by simp) ?_ ?_ ?_ (Decim.init M h) ⟨decim_init_inv M h hM, rfl⟩ frames hfr
  · rintro s ⟨_, hm⟩
    rw [decim_process_ok s #[] (by simp)]
    simp [hand_empty, decimOut, tabF_zero]
  · intro a b ha hb; simp [Array.size_append, Nat.add_mod, ha, hb]
  · rintro s a r ⟨hs, hm⟩ ha hr
    rw [decim_process_ok s a (by rw [hm]; exact ha)] at hr
    cases hr
    exact ⟨⟨hs.1, by simp only [size_hand]; exact hs.2⟩, hm⟩
  · rintro s a b ⟨hs, hm⟩ ha hb
    exact decim_split s a b hs (by rw [hm]; exact ha) (by rw [hm]; exact hb)

/-! ### FIRRateConverter -/

/-- `decim ≥ 1`, `d_` holds `sublen - 1` samples, every input offset `xidxs_[k]` is below `decim` -/
def RateInv (s : RateConv α) : Prop :=
  0 < s.M ∧ s.d.size = s.sub - 1 ∧ ∀ r, r < s.L → s.xi.getD r 0 < s.M

/-- the constructor establishes it: the schedule offsets are `((r+1)·M - 1) / L < M` (`C08.rateconv_schedule`) -/
theorem rate_init_inv (L M : Nat) (h : Array α) (hM : 0 < M) : RateInv (RateConv.init L M h) := by
  refine ⟨hM, by simp [RateConv.init, zeros, tab], ?_⟩
  intro r hr
  have hr' : r < L := hr
  have hL : 0 < L := by omega
  show ((schedule L M).map fun p => p.2).toArray.getD r 0 < M
  rw [C08.rateconv_schedule L M hL hM]
  simp [hr']
  exact (C08.phasePair_lt L M r hL hM hr').2

def rateOut (s : RateConv α) (x : Array α) : Array α :=
  tabF (x.size / s.M * s.L) fun o =>
    accN (fun j => elem (s.d ++ x) (o / s.L * s.M + s.xi.getD (o % s.L) 0 + j) * elem (row s.h (o % s.L)) j) s.sub zero

theorem rate_process_ok (s : RateConv α) (x : Array α) (hx : x.size % s.M = 0) :
    s.process x = .ok ({ s with d := hand s.d x }, rateOut s x) := by
  unfold RateConv.process
  rw [if_neg (by simpa using hx)]
  rfl

theorem rate_out_split (s : RateConv α) (a b : Array α) (hs : RateInv s) (ha : a.size % s.M = 0) :
    rateOut s (a ++ b) = rateOut s a ++ rateOut { s with d := hand s.d a } b := by
  obtain ⟨hM, hd, hxi⟩ := hs
  have hda : a.size / s.M * s.M = a.size := Nat.div_mul_cancel (Nat.dvd_of_mod_eq_zero ha)
  have hsz : (a.size + b.size) / s.M = a.size / s.M + b.size / s.M := by
    have := Nat.add_mul_div_right b.size (a.size / s.M) hM
    rw [hda, Nat.add_comm] at this
    rw [this, Nat.add_comm]
  unfold rateOut
  simp only [Array.size_append, hsz, Nat.add_mul, tabF_add]
  congr 1
  · apply tabF_congr
    intro o ho
    have hL : 0 < s.L := by
      rcases Nat.eq_zero_or_pos s.L with h | h
      · rw [h] at ho; simp at ho
      · exact h
    apply accN_congr
    intro j hj
    have h0 : o / s.L < a.size / s.M := Nat.div_lt_of_lt_mul (by rw [Nat.mul_comm]; exact ho)
    have h1 := Nat.mul_le_mul_right s.M (show o / s.L + 1 ≤ a.size / s.M from h0)
    rw [hda, Nat.add_mul, Nat.one_mul] at h1
    have h2 := hxi (o % s.L) (Nat.mod_lt _ hL)
    rw [elem_prefix _ _ _ _ (by omega)]
  · apply tabF_congr
    intro o ho
    have hL : 0 < s.L := by
      rcases Nat.eq_zero_or_pos s.L with h | h
      · rw [h] at ho; simp at ho
      · exact h
    have e1 : (a.size / s.M * s.L + o) / s.L = a.size / s.M + o / s.L := by
      rw [Nat.add_comm, Nat.add_mul_div_right _ _ hL, Nat.add_comm]
    have e2 : (a.size / s.M * s.L + o) % s.L = o % s.L := by
      rw [Nat.add_comm, Nat.add_mul_mod_self_right]
    rw [e1, e2]
    apply accN_congr
    intro j _
    have e : (a.size / s.M + o / s.L) * s.M + s.xi.getD (o % s.L) 0 + j
        = a.size + (o / s.L * s.M + s.xi.getD (o % s.L) 0 + j) := by
      rw [Nat.add_mul, hda]; omega
    rw [e, elem_shift]

/-- **T06 FIRRateConverter (split law)**: frames whose lengths are multiples of `decim`; every `L`, `M ≥ 1` (reduced or
not), every coefficient table, every scalar type. -/
theorem rate_split (s : RateConv α) (a b : Array α) (hs : RateInv s) (ha : a.size % s.M = 0) (hb : b.size % s.M = 0) :
    s.process (a ++ b) =
      (s.process a).bind fun r => (r.1.process b).map fun q => (q.1, r.2 ++ q.2) := by
  have hab : (a ++ b).size % s.M = 0 := by
    simp [Array.size_append, Nat.add_mod, ha, hb]
  rw [rate_process_ok s a ha, rate_process_ok s (a ++ b) hab]
  simp only [Except.bind]
  rw [rate_process_ok { s with d := hand s.d a } b hb]
  simp only [Except.map, hand_hand, rate_out_split s a b hs ha]

/-- **T06 FIRRateConverter, every framing** into frames of `k·M` samples. -/
theorem rate_framing (L M : Nat) (h : Array α) (hM : 0 < M) (frames : List (Array α)) (hfr : ∀ f ∈ frames, f.size % M = 0) :
    runFramesE #[] RateConv.process (RateConv.init L M h) frames = (RateConv.init L M h).process (concat #[] frames) := by
  refine framing_invariant_except #[] #[] RateConv.process (fun s => RateInv s ∧ s.M = M) (fun x => x.size % M = 0)
    ?_ (by simp) ?_ ?_ ?_ (RateConv.init L M h) ⟨rate_init_inv L M h hM, rfl⟩ frames hfr
  · rintro s ⟨_, hm⟩
    rw [rate_process_ok s #[] (by simp)]
    simp [hand_empty, rateOut, tabF_zero]
  · intro a b ha hb; simp [Array.size_append, Nat.add_mod, ha, hb]
  · rintro s a r ⟨hs, hm⟩ ha hr
    rw [rate_process_ok s a (by rw [hm]; exact ha)] at hr
    cases hr
    exact ⟨⟨hs.1, by simp only [size_hand]; exact hs.2.1, hs.2.2⟩, hm⟩
  · rintro s a b ⟨hs, hm⟩ ha hb
    exact rate_split s a b hs (by rw [hm]; exact ha) (by rw [hm]; exact hb)

/-! ### FIRResampler (wrapper) -/

/-- the wrapped converter is in a reachable state -/
def RsInv : Rs α → Prop
  | .bypass => True
  | .dec s => DecimInv s
  | .int s => InterpInv s
  | .rc s => RateInv s

/-- **T06 FIRResampler (split law)**: frames whose lengths are multiples of `decim_rate()`. -/
theorem rs_split (c : Rs α) (a b : Array α) (hc : RsInv c) (ha : a.size % c.decimRate = 0) (hb : b.size % c.decimRate = 0) :
    c.process (a ++ b) = (c.process a).bind fun r => (r.1.process b).map fun q => (q.1, r.2 ++ q.2) := by
  cases c with
  | bypass => rfl
  | dec s =>
    have h := decim_split s a b hc ha hb
    simp only [Rs.process, h, decim_process_ok s a ha, Except.bind, Except.map,
      decim_process_ok { s with d := hand s.d a } b hb]
  | int s =>
    have h := interp_split s a b hc
    simp only [Rs.process, Except.bind, Except.map, h]
  | rc s =>
    have h := rate_split s a b hc ha hb
    simp only [Rs.process, h, rate_process_ok s a ha, Except.bind, Except.map,
      rate_process_ok { s with d := hand s.d a } b hb]

theorem rs_inv_step (c : Rs α) (a : Array α) (r : Rs α × Array α) (hc : RsInv c) (ha : a.size % c.decimRate = 0)
    (hr : c.process a = .ok r) : RsInv r.1 ∧ r.1.decimRate = c.decimRate := by
  cases c with
  | bypass => simp only [Rs.process] at hr; cases hr; exact ⟨trivial, rfl⟩
  | dec s =>
    simp only [Rs.process, decim_process_ok s a ha, Except.map] at hr
    cases hr
    exact ⟨⟨hc.1, by simp only [size_hand]; exact hc.2⟩, rfl⟩
  | int s =>
    simp only [Rs.process] at hr
    cases hr
    exact ⟨interp_inv_step s a hc, rfl⟩
  | rc s =>
    simp only [Rs.process, rate_process_ok s a ha, Except.map] at hr
    cases hr
    exact ⟨⟨hc.1, by simp only [size_hand]; exact hc.2.1, hc.2.2⟩, rfl⟩

theorem rs_nil (c : Rs α) (hc : RsInv c) : c.process #[] = .ok (c, #[]) := by
  cases c with
  | bypass => rfl
  | dec s =>
    simp only [Rs.process, decim_process_ok s #[] (by simp), Except.map]
    simp [hand_empty, decimOut, tabF_zero]
  | int s => simp only [Rs.process, interp_nil]
  | rc s =>
    simp only [Rs.process, rate_process_ok s #[] (by simp), Except.map]
    simp [hand_empty, rateOut, tabF_zero]

/-- the constructor `FIRResampler(out_fs, in_fs, h)` yields a reachable state (`in_fs ≥ 1`) -/
theorem rs_init_inv (outFs inFs : Nat) (h : Array α) (hq : 0 < inFs) : RsInv (Rs.init outFs inFs h) := by
  unfold Rs.init
  simp only []
  split
  · trivial
  · split
    · rename_i h2
      exact decim_init_inv _ h (by omega)
    · split
      · exact interp_init_inv _ h
      · refine rate_init_inv _ _ h ?_
        show 0 < (simplify outFs inFs).2
        unfold simplify
        exact Nat.div_pos (Nat.le_of_dvd hq (Nat.gcd_dvd_right _ _)) (Nat.gcd_pos_of_pos_right _ hq)

/-- **T06 FIRResampler, every framing** into frames of `k · decim_rate()` samples (bypass, decimator, interpolator or
rate converter, whichever the constructor selected). -/
theorem rs_framing (c : Rs α) (hc : RsInv c) (frames : List (Array α)) (hfr : ∀ f ∈ frames, f.size % c.decimRate = 0) :
    runFramesE #[] Rs.process c frames = c.process (concat #[] frames) := by
  refine framing_invariant_except #[] #[] Rs.process (fun s => RsInv s ∧ s.decimRate = c.decimRate)
    (fun x => x.size % c.decimRate = 0) ?_ (by simp) ?_ ?_ ?_ c ⟨hc, rfl⟩ frames hfr
  · rintro s ⟨hs, _⟩; exact rs_nil s hs
  · intro a b ha hb; simp [Array.size_append, Nat.add_mod, ha, hb]
  · rintro s a r ⟨hs, hm⟩ ha hr
    obtain ⟨h1, h2⟩ := rs_inv_step s a r hs (by rw [hm]; exact ha) hr
    exact ⟨h1, by rw [h2, hm]⟩
  · rintro s a b ⟨hs, hm⟩ ha hb
    exact rs_split s a b hs (by rw [hm]; exact ha) (by rw [hm]; exact hb)

end resample

/-! ## T06.k — MedianFilter, LMS / NLMS, RLS (from the owners' theorems) -/
section median
open Dsp.Order
variable {β : Type} [LT β] [DecidableRel (· < · : β → β → Prop)] [BEq β]

/-- **T06 MedianFilter (split law)** = `C16.process_append`: every order, every `avg`, every ordered sample type. -/
theorem median_split (avg : β → β → β) (st : MF β) (a b : List β) :
    st.process avg (a ++ b) =
      (((st.process avg a).1.process avg b).1, (st.process avg a).2 ++ ((st.process avg a).1.process avg b).2) :=
  C16.process_append avg a b st

/-- **T06 MedianFilter, every framing** (T06.all instantiated; cf. `C16.processFrames_eq`). -/
theorem median_framing (avg : β → β → β) (st : MF β) (frames : List (List β)) :
    runFrames [] (MF.process avg) st frames = st.process avg (concat [] frames) :=
  (framing_invariant [] [] (MF.process avg) (fun _ => True) (fun _ => True) (fun s _ => by simp [MF.process]) trivial
    (fun _ _ _ _ => trivial) (fun _ _ _ _ => trivial) (fun s a b _ _ _ => median_split avg s a b) st trivial frames
    (fun _ _ => trivial)).1

end median

section adaptive
open Dsp.Adaptive Dsp.Adaptive.Mixed
variable {ρ τ : Type} [Add ρ] [Div ρ] [Fn ρ] [Add τ] [Sub τ] [Mul τ] [Div τ] [Mixed ρ τ]

/-- a frame of an adaptive filter: input `x` and desired signal `d` (also used for the result: `y`, `e`) -/
structure Pair (τ : Type) where
  x : Array τ
  d : Array τ

instance : Append (Pair τ) := ⟨fun a b => ⟨a.x ++ b.x, a.d ++ b.d⟩⟩
@[simp] theorem pair_append_x (a b : Pair τ) : (a ++ b).x = a.x ++ b.x := rfl
@[simp] theorem pair_append_d (a b : Pair τ) : (a ++ b).d = a.d ++ b.d := rfl

/-- `LmsFilter::process` on a frame `(x, d)`, result `(y, e)` -/
def lmsP (p : LmsP ρ) (s : LmsState τ) (f : Pair τ) : Except String (LmsState τ × Pair τ) :=
  (lmsProcess p s f.x f.d).map fun r => (r.1, ⟨r.2.1, r.2.2⟩)

/-- `len ≥ 1`, `_u` holds `len - 1` samples, `_w` holds `len` coefficients -/
def LmsInv (p : LmsP ρ) (s : LmsState τ) : Prop := 1 ≤ p.len ∧ s.u.size = p.len - 1 ∧ s.w.size = p.len

/-- **T06 LMS / NLMS (split law)** from `C12.lms_framing`: outputs, errors, coefficients and history; locked or not. -/
theorem lms_split (p : LmsP ρ) (s : LmsState τ) (a b : Pair τ) (hs : LmsInv p s)
    (ha : a.x.size = a.d.size) (hb : b.x.size = b.d.size) :
    lmsP p s (a ++ b) = (lmsP p s a).bind fun r => (lmsP p r.1 b).map fun q => (q.1, r.2 ++ q.2) := by
  obtain ⟨h1, h2, h3⟩ := hs
  obtain ⟨s1, y1, e1, r1, _, w1, u1, _⟩ := C12.lms_refines p s a.x a.d h1 h2 h3 ha
  obtain ⟨s2, y2, e2, r2, _⟩ := C12.lms_refines p s1 b.x b.d h1 u1 w1 hb
  have := C12.lms_framing p s s1 s2 a.x a.d y1 e1 b.x b.d y2 e2 h1 h2 h3 r1 r2
  simp only [lmsP, pair_append_x, pair_append_d, this, r1, Except.map, Except.bind, r2]
  rfl

theorem lms_nil (p : LmsP ρ) (s : LmsState τ) (hs : LmsInv p s) : lmsP p s ⟨#[], #[]⟩ = .ok (s, ⟨#[], #[]⟩) := by
  obtain ⟨h1, h2, h3⟩ := hs
  simp only [lmsP, lmsProcess]
  simp [Except.map]
  cases s
  simp at h2 ⊢
  omega

/-- **T06 LMS / NLMS, every framing** of a stream of `(x, d)` pairs (each frame with `len x = len d`). -/
theorem lms_framing_all (p : LmsP ρ) (s : LmsState τ) (hs : LmsInv p s) (frames : List (Pair τ))
    (hfr : ∀ f ∈ frames, f.x.size = f.d.size) :
    runFramesE ⟨#[], #[]⟩ (lmsP p) s frames = lmsP p s (concat ⟨#[], #[]⟩ frames) := by
  refine framing_invariant_except ⟨#[], #[]⟩ ⟨#[], #[]⟩ (lmsP p) (LmsInv p) (fun f => f.x.size = f.d.size)
    (lms_nil p) rfl ?_ ?_ ?_ s hs frames hfr
  · intro a b ha hb; simp [ha, hb]
  · rintro s a r ⟨h1, h2, h3⟩ ha hr
    obtain ⟨s1, y1, e1, r1, _, w1, u1, _⟩ := C12.lms_refines p s a.x a.d h1 h2 h3 ha
    simp only [lmsP, r1, Except.map] at hr
    cases hr
    exact ⟨h1, u1, w1⟩
  · intro s a b hs ha hb; exact lms_split p s a b hs ha hb

/-- `RlsFilter::process` on a frame `(x, d)`, result `(y, e)` -/
def rlsP (P : RlsP ρ) (s : RlsState τ) (f : Pair τ) : Except String (RlsState τ × Pair τ) :=
  (rlsProcess P s f.x f.d).map fun r => (r.1, ⟨r.2.1, r.2.2⟩)

/-- **T06 RLS (split law)** from `C12.rls_refines` + `C12.runR_append`: every order, every state (`_u`, `_w`, `_p`). -/
theorem rls_split (P : RlsP ρ) (s : RlsState τ) (a b : Pair τ)
    (ha : a.x.size = a.d.size) (hb : b.x.size = b.d.size) :
    rlsP P s (a ++ b) = (rlsP P s a).bind fun r => (rlsP P r.1 b).map fun q => (q.1, r.2 ++ q.2) := by
  obtain ⟨s1, y1, e1, r1, hs1, hy1, he1⟩ := C12.rls_refines P s a.x a.d ha
  obtain ⟨s2, y2, e2, r2, hs2, hy2, he2⟩ := C12.rls_refines P s1 b.x b.d hb
  obtain ⟨s3, y3, e3, r3, hs3, hy3, he3⟩ := C12.rls_refines P s (a.x ++ b.x) (a.d ++ b.d) (by simp [ha, hb])
  have hzip : (a.x ++ b.x).toList.zip (a.d ++ b.d).toList = a.x.toList.zip a.d.toList ++ b.x.toList.zip b.d.toList := by
    simp only [Array.toList_append]
    exact List.zip_append (by simpa using ha)
  rw [hzip, C12.runR_append] at hs3 hy3 he3
  rw [← hs1] at hs3 hy3 he3
  have e1' : s3 = s2 := by rw [hs3, hs2]
  have e2' : y3 = y1 ++ y2 := by
    apply Array.toList_inj.mp; rw [hy3, Array.toList_append, hy1, hy2]
  have e3' : e3 = e1 ++ e2 := by
    apply Array.toList_inj.mp; rw [he3, Array.toList_append, he1, he2]
  simp only [rlsP, pair_append_x, pair_append_d, r3, r1, Except.map, Except.bind, r2, e1', e2', e3']
  rfl

theorem rls_nil (P : RlsP ρ) (s : RlsState τ) : rlsP P s ⟨#[], #[]⟩ = .ok (s, ⟨#[], #[]⟩) := by
  simp [rlsP, rlsProcess, Except.map]

/-- **T06 RLS, every framing.** -/
theorem rls_framing_all (P : RlsP ρ) (s : RlsState τ) (frames : List (Pair τ)) (hfr : ∀ f ∈ frames, f.x.size = f.d.size) :
    runFramesE ⟨#[], #[]⟩ (rlsP P) s frames = rlsP P s (concat ⟨#[], #[]⟩ frames) :=
  framing_invariant_except ⟨#[], #[]⟩ ⟨#[], #[]⟩ (rlsP P) (fun _ => True) (fun f => f.x.size = f.d.size)
    (fun s _ => rls_nil P s) rfl (fun a b ha hb => by simp [ha, hb]) (fun _ _ _ _ _ _ => trivial)
    (fun s a b _ ha hb => rls_split P s a b ha hb) s trivial frames hfr

end adaptive

/-! ## every framing — the fold processors -/
section foldframings
variable {α : Type} [Add α] [Sub α] [Mul α] [Div α] [Neg α] [LT α] [LE α] [Fn α]
  [DecidableRel (· < · : α → α → Prop)] [DecidableRel (· ≤ · : α → α → Prop)]
open Dsp.Fir Dsp.Dynamics

/-- **T06 FftFilter, every framing** (any frame lengths, also across block boundaries; from ANY state). -/
theorem fft_framing {β : Type} [Add β] [Mul β] (zero : β) (fft ifft : Array β → Array β) (s : FftState β)
    (frames : List (Array β)) :
    runFrames #[] (fftProcess zero fft ifft) s frames = fftProcess zero fft ifft s (concat #[] frames) :=
  (framing_invariant #[] #[] (fftProcess zero fft ifft) (fun _ => True) (fun _ => True)
    (fun s _ => by simp [fftProcess]) trivial (fun _ _ _ _ => trivial) (fun _ _ _ _ => trivial)
    (fun s a b _ _ _ => fft_split zero fft ifft s a b) s trivial frames (fun _ _ => trivial)).1

/-- **T06 MAFilter, every framing.** -/
theorem ma_framing {β : Type} [Add β] [Sub β] (zero : β) (divn : β → Nat → β) (s : MaState β) (frames : List (Array β)) :
    runFrames #[] (maProcess zero divn) s frames = maProcess zero divn s (concat #[] frames) :=
  (framing_invariant #[] #[] (maProcess zero divn) (fun _ => True) (fun _ => True)
    (fun s _ => by simp [maProcess]) trivial (fun _ _ _ _ => trivial) (fun _ _ _ _ => trivial)
    (fun s a b _ _ _ => ma_split zero divn s a b) s trivial frames (fun _ _ => trivial)).1

/-- **T06 Tuner, every framing.** -/
theorem tuner_framing (p : Tuner α) (ph : Nat) (frames : List (Array (Cx α))) :
    runFrames #[] p.process ph frames = p.process ph (concat #[] frames) :=
  (framing_invariant #[] #[] p.process (fun _ => True) (fun _ => True)
    (fun s _ => by simp [Tuner.process]) trivial (fun _ _ _ _ => trivial) (fun _ _ _ _ => trivial)
    (fun s a b _ _ _ => tuner_split p s a b) ph trivial frames (fun _ _ => trivial)).1

/-- the two output arrays (`gain`, `out`) of the dynamics processors, concatenated component-wise -/
scoped instance instAppendArrayPair {A B : Type} : Append (Array A × Array B) := ⟨fun p q => (p.1 ++ q.1, p.2 ++ q.2)⟩

/-- **T06 Compressor / Limiter, every framing.** -/
theorem processWith_framing (stp : α → α → Step α) (gs : α) (frames : List (Array α)) :
    runFrames (#[], #[]) (processWith stp) gs frames = processWith stp gs (concat #[] frames) :=
  (framing_invariant #[] (#[], #[]) (processWith stp) (fun _ => True) (fun _ => True)
    (fun s _ => by simp [processWith]) trivial (fun _ _ _ _ => trivial) (fun _ _ _ _ => trivial)
    (fun s a b _ _ _ => processWith_split stp s a b) gs trivial frames (fun _ _ => trivial)).1

/-- **T06 NoiseGate, every framing.** -/
theorem gate_framing (p : Gate α) (s : GateState α) (frames : List (Array α)) :
    runFrames (#[], #[]) (Gate.process p) s frames = Gate.process p s (concat #[] frames) :=
  (framing_invariant #[] (#[], #[]) (Gate.process p) (fun _ => True) (fun _ => True)
    (fun s _ => by simp [Gate.process]) trivial (fun _ _ _ _ => trivial) (fun _ _ _ _ => trivial)
    (fun s a b _ _ _ => gate_split p s a b) s trivial frames (fun _ _ => trivial)).1

/-- **T06 Agc (real), every framing.** -/
theorem agcR_framing (p : Agc α) (s : AgcState α) (frames : List (Array α)) :
    runFrames (#[], #[]) (Agc.processR p) s frames = Agc.processR p s (concat #[] frames) :=
  (framing_invariant #[] (#[], #[]) (Agc.processR p) (fun _ => True) (fun _ => True)
    (fun s _ => by simp [Agc.processR]) trivial (fun _ _ _ _ => trivial) (fun _ _ _ _ => trivial)
    (fun s a b _ _ _ => agcR_split p s a b) s trivial frames (fun _ _ => trivial)).1

/-- **T06 Agc (complex), every framing.** -/
theorem agcC_framing (p : Agc α) (s : AgcState α) (frames : List (Array (Cx α))) :
    runFrames (#[], #[]) (Agc.processC p) s frames = Agc.processC p s (concat #[] frames) :=
  (framing_invariant #[] (#[], #[]) (Agc.processC p) (fun _ => True) (fun _ => True)
    (fun s _ => by simp [Agc.processC]) trivial (fun _ _ _ _ => trivial) (fun _ _ _ _ => trivial)
    (fun s a b _ _ _ => agcC_split p s a b) s trivial frames (fun _ _ => trivial)).1

end foldframings

/-! ## non-vacuity: the hypotheses are met by concrete, non-trivial objects -/
section examples
open Dsp.Fir Dsp.Resample

/-- a 3-tap FIR over `Int`, stream `1..5` cut as `[1] [2,3] [] [4,5]`: same as one call -/
example : (runFrames #[] (process (0 : Int) id) (init 0 #[1, 2, 3]) [#[1], #[2, 3], #[], #[4, 5]]).2
    = (process (0 : Int) id (init 0 #[1, 2, 3]) #[1, 2, 3, 4, 5]).2 := by decide

example : (process (0 : Int) id (init 0 #[1, 2, 3]) #[1, 2, 3, 4, 5]).2 = #[1, 4, 10, 16, 22] := by decide

/-- `FirInv` holds for that object -/
example : FirInv (init (0 : Int) #[1, 2, 3]) := fir_init_inv 0 _ (by decide)

/-- a delay line of 2 cells fed `[7] [8, 9]` -/
example : (runFrames #[] delayProcess (#[0, 0] : Array Nat) [#[7], #[8, 9]]).2 = #[0, 0, 7] := by decide

/-- the rate converter's invariant is not vacuous: for `L = 3, M = 5` the offsets are `1, 3, 4`, all `< 5` -/
example : (schedule 3 5).map (·.2) = [1, 3, 4] := by decide

end examples

end Dsp.C06
