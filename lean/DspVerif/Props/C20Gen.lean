import DspVerif.Props.C20
import DspVerif.Gen.StepsDyn
import DspVerif.Gen.CtorDyn
/-!
# C20 — bridge: the hand-written sample-loop models ARE the regenerated loop bodies

`Gen/StepsDyn.lean` is written by `tools/cxx2lean.py` on every check run from the C++ AST of

* the `for (int i = 0; i < n; ++i) { … }` bodies of `Compressor::process`, `Limiter::process`, `NoiseGate::process`
  (with `NoiseGate::_smooth_gain`),
* the loop body of `_process<T>` of `lib/agc.cpp` (`T = real_t` and `T = cmplx_t`),
* `MAFilter<real_t>::process(const real_t&)` of `lib/ma-filter.h`

(the translator also checks that each `process` is nothing but that loop over the whole input, and the C++ types of the
data members).  This file proves that every step function of `Model/Dynamics.lean` — about which all theorems of
`Props/C20.lean` are stated — equals the generated step function, for EVERY parameter set, state and sample, and
transports one headline theorem per processor to the generated step folded over a whole signal.  A change of the
C++ loop body changes the generated term; these proofs then fail (PROOF obligation), whatever the sampled
correspondence run happens to exercise.

Shape of the statements.  The generated structures hold the C++ members with their C++ types (`int` → `Int`);
the model keeps counters as `Nat` and the gain-computer parameters in `Gen.CompressorParams`.  Conversions are
explicit (`toGen` / `ofGen`); where the model's `Nat` cannot represent a negative C++ `int` the hypothesis
`0 ≤ …` is spelled out and shown to be preserved by the step (so it holds on every reachable state).
Literals: the C++ writes `1 - wA_`, `2 * agc.gain` with `int` literals (`Fn.ofInt 1`), the model `Fn.ofNat 1`;
the generic-scalar bridges therefore carry the hypothesis `Fn.ofInt 1 = Fn.ofNat 1` (true at `Float` and at `ℝ`), the
`ℝ` bridges have no hypothesis.
-/
namespace Dsp.C20Gen
open Dsp Dsp.Dynamics

/-! ## Folding a step function over a signal -/

section fold
variable {σ τ X A B : Type}

/-- one loop iteration on the accumulator (state, `gain` so far, `out` so far) -/
def pushStep (f : σ → X → σ × A × B) (acc : σ × Array A × Array B) (xi : X) : σ × Array A × Array B :=
  ((f acc.1 xi).1, acc.2.1.push (f acc.1 xi).2.1, acc.2.2.push (f acc.1 xi).2.2)

/-- `for (int i = 0; i < n; ++i) BODY` with `BODY = f`: final state, all gains, all outputs -/
def run (f : σ → X → σ × A × B) (s : σ) (x : Array X) : σ × Array A × Array B :=
  x.foldl (pushStep f) (s, Array.mkEmpty x.size, Array.mkEmpty x.size)

theorem foldl_pushStep_map (f : σ → X → σ × A × B) (g : τ → X → τ × A × B) (φ : τ → σ)
    (h : ∀ t x, f (φ t) x = (φ (g t x).1, (g t x).2)) :
    ∀ (l : List X) (t : τ) (ga : Array A) (oa : Array B),
      l.foldl (pushStep f) (φ t, ga, oa) =
        (φ (l.foldl (pushStep g) (t, ga, oa)).1, (l.foldl (pushStep g) (t, ga, oa)).2) := by
  intro l
  induction l with
  | nil => intro t ga oa; rfl
  | cons a l ih =>
    intro t ga oa
    simp only [List.foldl_cons]
    have e : pushStep f (φ t, ga, oa) a = (φ (pushStep g (t, ga, oa) a).1, (pushStep g (t, ga, oa) a).2) := by
      simp only [pushStep, h]
    rw [e]
    exact ih _ _ _

/-- two step functions that agree through a state conversion `φ` give the same run -/
theorem run_map (f : σ → X → σ × A × B) (g : τ → X → τ × A × B) (φ : τ → σ)
    (h : ∀ t x, f (φ t) x = (φ (g t x).1, (g t x).2)) (t : τ) (x : Array X) :
    run f (φ t) x = (φ (run g t x).1, (run g t x).2) := by
  unfold run
  rw [← Array.foldl_toList, ← Array.foldl_toList]
  exact foldl_pushStep_map f g φ h _ _ _ _

/-- the same under an invariant `I` of the model-side state (needed where the conversion is faithful only on `I`) -/
theorem foldl_pushStep_map_inv (f : σ → X → σ × A × B) (g : τ → X → τ × A × B) (φ : τ → σ) (I : τ → Prop)
    (hI : ∀ t x, I t → I (g t x).1)
    (h : ∀ t x, I t → f (φ t) x = (φ (g t x).1, (g t x).2)) :
    ∀ (l : List X) (t : τ) (ga : Array A) (oa : Array B), I t →
      l.foldl (pushStep f) (φ t, ga, oa) =
        (φ (l.foldl (pushStep g) (t, ga, oa)).1, (l.foldl (pushStep g) (t, ga, oa)).2) := by
  intro l
  induction l with
  | nil => intro t ga oa _; rfl
  | cons a l ih =>
    intro t ga oa ht
    simp only [List.foldl_cons]
    have e : pushStep f (φ t, ga, oa) a = (φ (pushStep g (t, ga, oa) a).1, (pushStep g (t, ga, oa) a).2) := by
      simp only [pushStep, h t a ht]
    rw [e]
    exact ih _ _ _ (hI t a ht)

theorem run_map_inv (f : σ → X → σ × A × B) (g : τ → X → τ × A × B) (φ : τ → σ) (I : τ → Prop)
    (hI : ∀ t x, I t → I (g t x).1)
    (h : ∀ t x, I t → f (φ t) x = (φ (g t x).1, (g t x).2)) (t : τ) (ht : I t) (x : Array X) :
    run f (φ t) x = (φ (run g t x).1, (run g t x).2) := by
  unfold run
  rw [← Array.foldl_toList, ← Array.foldl_toList]
  exact foldl_pushStep_map_inv f g φ I hI h _ _ _ _ ht

end fold

/-- what the headline theorems say about the two output arrays of a run over the signal `x`: sizes agree, every
emitted gain satisfies `G`, `out[i] = x[i]·gain[i]` and `|out[i]| ≤ |x[i]|` (the processor never amplifies) -/
def GainsIn (G : ℝ → Prop) (x : Array ℝ) (r : Array ℝ × Array ℝ) : Prop :=
  ∃ (_ : r.1.size = x.size) (_ : r.2.size = x.size),
    ∀ i (hi : i < x.size), G (r.1[i]) ∧ r.2[i] = x[i] * r.1[i] ∧ |r.2[i]| ≤ |x[i]|

/-- the model's loops are `run` of the model's steps (definitional) -/
theorem processWith_eq_run {α : Type} (stp : α → α → Step α) (gs : α) (x : Array α) :
    processWith stp gs x = run (fun g xi => ((stp g xi).gs, (stp g xi).gain, (stp g xi).out)) gs x := rfl

/-! ## Compressor -/

section generic
variable {α : Type} [Add α] [Sub α] [Mul α] [Div α] [Neg α] [LT α] [LE α] [Fn α]
  [DecidableRel (· < · : α → α → Prop)] [DecidableRel (· ≤ · : α → α → Prop)]

/-- generated parameter record ↦ the model's (`T_ R_ W_` regrouped as the gain computer's record) -/
def Comp.ofGen (q : Gen.CompressorStepParams α) : Comp α :=
  { gp := { T := q.T, R := q.R, W := q.W }, wA := q.wA, wR := q.wR }

def Comp.toGen (p : Comp α) : Gen.CompressorStepParams α :=
  { T := p.gp.T, R := p.gp.R, W := p.gp.W, wA := p.wA, wR := p.wR }

omit [Add α] [Sub α] [Mul α] [Div α] [Neg α] [LT α] [LE α] [Fn α] [DecidableRel (· < · : α → α → Prop)]
  [DecidableRel (· ≤ · : α → α → Prop)] in
theorem Comp.ofGen_toGen (p : Comp α) : Comp.ofGen (Comp.toGen p) = p := rfl

omit [Add α] [Sub α] [Mul α] [Div α] [Neg α] [LT α] [LE α] [Fn α] [DecidableRel (· < · : α → α → Prop)]
  [DecidableRel (· ≤ · : α → α → Prop)] in
theorem Comp.toGen_ofGen (q : Gen.CompressorStepParams α) : Comp.toGen (Comp.ofGen q) = q := rfl

omit [Neg α] in
/-- **bridge, Compressor, every scalar type:** the generated loop body of `Compressor::process` is the model's
`Comp.step`, for every parameter record, every `gs_`, every sample (`eps()` = the model's `eps`). -/
theorem compressorStep_eq_generic (h1 : (Fn.ofInt (1 : Int) : α) = Fn.ofNat 1)
    (q : Gen.CompressorStepParams α) (s : Gen.CompressorStepState α) (x : α) :
    Gen.compressorStep eps q s x =
      (⟨(Comp.step (Comp.ofGen q) s.gs x).gs⟩, (Comp.step (Comp.ofGen q) s.gs x).gain,
        (Comp.step (Comp.ofGen q) s.gs x).out) := by
  simp only [Gen.compressorStep, Comp.step, smooth, Comp.ofGen, h1]
  split_ifs with h <;> simp only [h, if_true, if_false]

/-! ## Limiter -/

def Lim.ofGen (q : Gen.LimiterStepParams α) : Lim α :=
  { gp := { T := q.T, W := q.W }, wA := q.wA, wR := q.wR }

def Lim.toGen (p : Lim α) : Gen.LimiterStepParams α :=
  { T := p.gp.T, W := p.gp.W, wA := p.wA, wR := p.wR }

omit [Add α] [Sub α] [Mul α] [Div α] [Neg α] [LT α] [LE α] [Fn α] [DecidableRel (· < · : α → α → Prop)]
  [DecidableRel (· ≤ · : α → α → Prop)] in
theorem Lim.ofGen_toGen (p : Lim α) : Lim.ofGen (Lim.toGen p) = p := rfl

omit [Add α] [Sub α] [Mul α] [Div α] [Neg α] [LT α] [LE α] [Fn α] [DecidableRel (· < · : α → α → Prop)]
  [DecidableRel (· ≤ · : α → α → Prop)] in
theorem Lim.toGen_ofGen (q : Gen.LimiterStepParams α) : Lim.toGen (Lim.ofGen q) = q := rfl

omit [Neg α] in
/-- **bridge, Limiter, every scalar type** -/
theorem limiterStep_eq_generic (h1 : (Fn.ofInt (1 : Int) : α) = Fn.ofNat 1)
    (q : Gen.LimiterStepParams α) (s : Gen.LimiterStepState α) (x : α) :
    Gen.limiterStep eps q s x =
      (⟨(Lim.step (Lim.ofGen q) s.gs x).gs⟩, (Lim.step (Lim.ofGen q) s.gs x).gain,
        (Lim.step (Lim.ofGen q) s.gs x).out) := by
  simp only [Gen.limiterStep, Lim.step, smooth, Lim.ofGen, h1]
  split_ifs with h <;> simp only [h, if_true, if_false]

end generic

noncomputable section

/-- **bridge, Compressor, at `ℝ`** (no hypothesis): `Gen.compressorStep = Comp.step` -/
theorem compressorStep_eq (q : Gen.CompressorStepParams ℝ) (s : Gen.CompressorStepState ℝ) (x : ℝ) :
    Gen.compressorStep eps q s x =
      (⟨(Comp.step (Comp.ofGen q) s.gs x).gs⟩, (Comp.step (Comp.ofGen q) s.gs x).gain,
        (Comp.step (Comp.ofGen q) s.gs x).out) :=
  compressorStep_eq_generic (by simp) q s x

/-- the same read from the model's side: every model parameter record and state -/
theorem Comp.step_eq_gen (p : Comp ℝ) (gs x : ℝ) :
    Gen.compressorStep eps (Comp.toGen p) ⟨gs⟩ x =
      (⟨(Comp.step p gs x).gs⟩, (Comp.step p gs x).gain, (Comp.step p gs x).out) :=
  compressorStep_eq (Comp.toGen p) ⟨gs⟩ x

/-- **whole signal:** the generated loop body folded over the input is the model's `processWith (Comp.step …)` -/
theorem compressor_run_eq (q : Gen.CompressorStepParams ℝ) (s : Gen.CompressorStepState ℝ) (x : Array ℝ) :
    run (Gen.compressorStep eps q) s x =
      (⟨(processWith (Comp.step (Comp.ofGen q)) s.gs x).1⟩, (processWith (Comp.step (Comp.ofGen q)) s.gs x).2) := by
  rw [processWith_eq_run]
  exact run_map (Gen.compressorStep eps q) _ (fun g => (⟨g⟩ : Gen.CompressorStepState ℝ))
    (fun g xi => compressorStep_eq q ⟨g⟩ xi) s.gs x

/-- the generated parameter records the `Compressor` constructor can produce -/
def CompressorAdmissible (q : Gen.CompressorStepParams ℝ) : Prop := C20.Comp.Admissible (Comp.ofGen q)

/-- **T20.1 transported to the regenerated code, Compressor.**  For every admitted parameter record, every `gs_ ≤ 0`
(initially `0`) and EVERY input signal, running the GENERATED loop body of `Compressor::process` over the signal keeps
`gs_ ≤ 0`, every emitted gain lies in `(0, 1]`, `out[i] = x[i]·gain[i]` and `|out[i]| ≤ |x[i]|`. -/
theorem compressor_gen_gain_range (q : Gen.CompressorStepParams ℝ) (hq : CompressorAdmissible q)
    (s : Gen.CompressorStepState ℝ) (hs : s.gs ≤ 0) (x : Array ℝ) :
    (run (Gen.compressorStep eps q) s x).1.gs ≤ 0 ∧
      GainsIn (fun g => 0 < g ∧ g ≤ 1) x (run (Gen.compressorStep eps q) s x).2 := by
  rw [compressor_run_eq]
  obtain ⟨hgs, h1, h2, h⟩ := C20.Comp.gain_range hq hs x
  exact ⟨hgs, h1, h2, fun i hi => ⟨⟨(h i hi).1, (h i hi).2.1⟩, (h i hi).2.2.1, (h i hi).2.2.2⟩⟩

/-! ## Limiter at `ℝ` -/

theorem limiterStep_eq (q : Gen.LimiterStepParams ℝ) (s : Gen.LimiterStepState ℝ) (x : ℝ) :
    Gen.limiterStep eps q s x =
      (⟨(Lim.step (Lim.ofGen q) s.gs x).gs⟩, (Lim.step (Lim.ofGen q) s.gs x).gain,
        (Lim.step (Lim.ofGen q) s.gs x).out) :=
  limiterStep_eq_generic (by simp) q s x

theorem Lim.step_eq_gen (p : Lim ℝ) (gs x : ℝ) :
    Gen.limiterStep eps (Lim.toGen p) ⟨gs⟩ x =
      (⟨(Lim.step p gs x).gs⟩, (Lim.step p gs x).gain, (Lim.step p gs x).out) :=
  limiterStep_eq (Lim.toGen p) ⟨gs⟩ x

theorem limiter_run_eq (q : Gen.LimiterStepParams ℝ) (s : Gen.LimiterStepState ℝ) (x : Array ℝ) :
    run (Gen.limiterStep eps q) s x =
      (⟨(processWith (Lim.step (Lim.ofGen q)) s.gs x).1⟩, (processWith (Lim.step (Lim.ofGen q)) s.gs x).2) := by
  rw [processWith_eq_run]
  exact run_map (Gen.limiterStep eps q) _ (fun g => (⟨g⟩ : Gen.LimiterStepState ℝ))
    (fun g xi => limiterStep_eq q ⟨g⟩ xi) s.gs x

def LimiterAdmissible (q : Gen.LimiterStepParams ℝ) : Prop := C20.Lim.Admissible (Lim.ofGen q)

/-- **T20.1 transported to the regenerated code, Limiter** -/
theorem limiter_gen_gain_range (q : Gen.LimiterStepParams ℝ) (hq : LimiterAdmissible q)
    (s : Gen.LimiterStepState ℝ) (hs : s.gs ≤ 0) (x : Array ℝ) :
    (run (Gen.limiterStep eps q) s x).1.gs ≤ 0 ∧
      GainsIn (fun g => 0 < g ∧ g ≤ 1) x (run (Gen.limiterStep eps q) s x).2 := by
  rw [limiter_run_eq]
  obtain ⟨hgs, h1, h2, h⟩ := C20.Lim.gain_range hq hs x
  exact ⟨hgs, h1, h2, fun i hi => ⟨⟨(h i hi).1, (h i hi).2.1⟩, (h i hi).2.2.1, (h i hi).2.2.2⟩⟩

/-- **T20.3 transported (ceiling), Limiter with zero attack coefficient:** the generated loop never lets a sample
above the threshold, `|out[i]| ≤ 10^(T/20)`, for arbitrary signals, release and knee. -/
theorem limiter_gen_ceiling (q : Gen.LimiterStepParams ℝ) (hq : LimiterAdmissible q) (hA : q.wA = 0)
    (s : Gen.LimiterStepState ℝ) (x : Array ℝ) (i : Nat)
    (hi : i < (run (Gen.limiterStep eps q) s x).2.2.size) :
    (run (Gen.limiterStep eps q) s x).2.2.size = x.size ∧
      |(run (Gen.limiterStep eps q) s x).2.2[i]| ≤ Gen.db2mag q.T := by
  obtain ⟨_, h2, h⟩ := C20.Lim.ceiling hq hA s.gs x
  have e : (run (Gen.limiterStep eps q) s x).2.2 = (processWith (Lim.step (Lim.ofGen q)) s.gs x).2.2 := by
    rw [limiter_run_eq]
  simp only [e] at hi ⊢
  exact ⟨h2, h i (h2 ▸ hi)⟩

/-! ## NoiseGate

The C++ keeps `tH_` and `cA_` as `int`; the model keeps the hold time as the scalar it is converted from and the
counter as a `Nat`.  Every model state is a generated state (`GateState.toGen`), and the generated states with
`0 ≤ cA` (all reachable ones: `cA_` starts at 0 and is only incremented or reset) are exactly those. -/

def Gate.ofGen (q : Gen.NoiseGateStepParams ℝ) : Gate ℝ :=
  { tlin := q.tlin, wA := q.wA, wR := q.wR, tH := (q.tH : ℝ) }

def GateState.toGen (t : GateState ℝ) : Gen.NoiseGateStepState ℝ := { cA := (t.cA : Int), lg := t.lg }

def GateState.ofGen (s : Gen.NoiseGateStepState ℝ) : GateState ℝ := { cA := s.cA.toNat, lg := s.lg }

theorem GateState.ofGen_toGen (t : GateState ℝ) : GateState.ofGen (GateState.toGen t) = t := by
  simp [GateState.ofGen, GateState.toGen]

theorem GateState.toGen_ofGen (s : Gen.NoiseGateStepState ℝ) (h : 0 ≤ s.cA) :
    GateState.toGen (GateState.ofGen s) = s := by
  cases s
  simp_all [GateState.ofGen, GateState.toGen]

theorem natCast_lt_intCast (n : ℕ) (z : ℤ) : ((n : ℝ) < (z : ℝ)) ↔ ((n : ℤ) < z) := by
  rw [← Int.cast_natCast, Int.cast_lt]

/-- **bridge, `NoiseGate::_smooth_gain`:** the generated member function is the model's `Gate.smoothGain`
(new members) and returns the new `lg`, for every parameter record, every model state, every `gc` -/
theorem noiseGateSmoothGain_eq (q : Gen.NoiseGateStepParams ℝ) (t : GateState ℝ) (gc : ℝ) :
    Gen.noiseGateSmoothGain q (GateState.toGen t) gc =
      ({ cA := ((Gate.smoothGain (Gate.ofGen q) t gc).cA : Int), lg := t.lg },
        (Gate.smoothGain (Gate.ofGen q) t gc).lg) := by
  simp only [Gen.noiseGateSmoothGain, Gate.smoothGain, Gate.ofGen, GateState.toGen, fn_ofNat, fn_ofInt,
    natCast_lt_intCast, Int.cast_one, Nat.cast_one]
  split_ifs <;> simp

/-- **bridge, NoiseGate, at `ℝ`:** the generated loop body of `NoiseGate::process` is the model's `Gate.step` -/
theorem noiseGateStep_eq (q : Gen.NoiseGateStepParams ℝ) (t : GateState ℝ) (x : ℝ) :
    Gen.noiseGateStep q (GateState.toGen t) x =
      (GateState.toGen (Gate.step (Gate.ofGen q) t x).1, (Gate.step (Gate.ofGen q) t x).2) := by
  simp only [Gen.noiseGateStep, Gate.step, noiseGateSmoothGain_eq, fn_ofNat, fn_ofInt, fn_abs, ge_iff_le,
    Nat.cast_one, Nat.cast_zero]
  by_cases hx : q.tlin ≤ |x| <;> simp [hx, GateState.toGen, Gate.ofGen]

/-- the same for every generated state with a non-negative hold counter; the step keeps it non-negative -/
theorem noiseGateStep_eq_ofGen (q : Gen.NoiseGateStepParams ℝ) (s : Gen.NoiseGateStepState ℝ) (h : 0 ≤ s.cA) (x : ℝ) :
    Gen.noiseGateStep q s x =
      (GateState.toGen (Gate.step (Gate.ofGen q) (GateState.ofGen s) x).1,
        (Gate.step (Gate.ofGen q) (GateState.ofGen s) x).2) ∧
    0 ≤ (Gen.noiseGateStep q s x).1.cA := by
  have e := noiseGateStep_eq q (GateState.ofGen s) x
  rw [GateState.toGen_ofGen s h] at e
  refine ⟨e, ?_⟩
  rw [e]
  simp [GateState.toGen]

theorem gate_run_eq (q : Gen.NoiseGateStepParams ℝ) (t : GateState ℝ) (x : Array ℝ) :
    run (Gen.noiseGateStep q) (GateState.toGen t) x =
      (GateState.toGen (Gate.process (Gate.ofGen q) t x).1, (Gate.process (Gate.ofGen q) t x).2) :=
  run_map (Gen.noiseGateStep q) (Gate.step (Gate.ofGen q)) GateState.toGen (noiseGateStep_eq q) t x

def NoiseGateAdmissible (q : Gen.NoiseGateStepParams ℝ) : Prop := C20.Gate.Admissible (Gate.ofGen q)

/-- **T20.1 transported to the regenerated code, NoiseGate:** for every admitted parameter record, every state with
`lg_ ∈ [0,1]` (initially 0) and every signal, the GENERATED loop body of `NoiseGate::process` run over the signal emits
only gains in `[0, 1]`, `out[i] = x[i]·gain[i]`, `|out[i]| ≤ |x[i]|`, and leaves `lg_ ∈ [0,1]`. -/
theorem noiseGate_gen_gain_range (q : Gen.NoiseGateStepParams ℝ) (hq : NoiseGateAdmissible q)
    (t : GateState ℝ) (ht : 0 ≤ t.lg ∧ t.lg ≤ 1) (x : Array ℝ) :
    (0 ≤ (run (Gen.noiseGateStep q) (GateState.toGen t) x).1.lg ∧
      (run (Gen.noiseGateStep q) (GateState.toGen t) x).1.lg ≤ 1) ∧
      GainsIn (fun g => 0 ≤ g ∧ g ≤ 1) x (run (Gen.noiseGateStep q) (GateState.toGen t) x).2 := by
  rw [gate_run_eq]
  obtain ⟨hlg, h1, h2, h⟩ := C20.Gate.gain_range hq ht x
  exact ⟨hlg, h1, h2, fun i hi => ⟨⟨(h i hi).1, (h i hi).2.1⟩, (h i hi).2.2.1, (h i hi).2.2.2⟩⟩

/-! ## MAFilter (`lib/ma-filter.h`) -/

def MA.toGen (m : MA ℝ) : Gen.MAFilterState ℝ := { buf := m.buf, n := (m.n : Int), pos := (m.pos : Int), accum := m.accum }

def MA.ofGen (m : Gen.MAFilterState ℝ) : MA ℝ := { buf := m.buf, n := m.n.toNat, pos := m.pos.toNat, accum := m.accum }

theorem MA.ofGen_toGen (m : MA ℝ) : MA.ofGen (MA.toGen m) = m := by
  simp [MA.ofGen, MA.toGen]

theorem MA.toGen_ofGen (m : Gen.MAFilterState ℝ) (hn : 0 ≤ m.n) (hp : 0 ≤ m.pos) : MA.toGen (MA.ofGen m) = m := by
  cases m
  simp_all [MA.ofGen, MA.toGen]

/-- `a[k]` through the generated `base_array::operator[](int)` at a non-negative index is plain indexing -/
theorem arrGet_natCast {β : Type} (d : β) (a : Array β) (k : ℕ) : Gen.arrGet d a (k : Int) = a.getD k d := by
  simp [Gen.arrGet, Gen.arrIdx]

theorem arrSet_natCast {β : Type} (a : Array β) (k : ℕ) (v : β) : Gen.arrSet a (k : Int) v = a.setIfInBounds k v := by
  simp [Gen.arrSet, Gen.arrIdx]

/-- the generated `sum(const arr_real&)` is the model's `MA.sum` -/
theorem sumR_eq (a : Array ℝ) : Gen.sumR a = MA.sum a := by
  simp [Gen.sumR, MA.sum]

/-- **bridge, `MAFilter<real_t>::process(const real_t&)`:** the generated function is the model's `MA.step`, for every
model state (= every generated state with `0 ≤ _n`, `0 ≤ _pos`) and every sample -/
theorem maFilterStep_eq (m : MA ℝ) (x : ℝ) :
    Gen.maFilterStep (MA.toGen m) x = (MA.toGen (MA.step m x).1, (MA.step m x).2) := by
  have hc : ((m.pos : Int) + 1 = (m.n : Int)) ↔ (m.pos + 1 = m.n) := by
    constructor <;> intro h <;> omega
  simp only [Gen.maFilterStep, MA.step, MA.toGen, Gen.zeroR, arrGet_natCast, arrSet_natCast, sumR_eq, fn_ofNat, fn_ofInt,
    hc, Nat.cast_zero, Int.cast_zero]
  split_ifs <;> simp

theorem maFilterStep_eq_ofGen (m : Gen.MAFilterState ℝ) (hn : 0 ≤ m.n) (hp : 0 ≤ m.pos) (x : ℝ) :
    Gen.maFilterStep m x = (MA.toGen (MA.step (MA.ofGen m) x).1, (MA.step (MA.ofGen m) x).2) ∧
      0 ≤ (Gen.maFilterStep m x).1.n ∧ 0 ≤ (Gen.maFilterStep m x).1.pos := by
  have e := maFilterStep_eq (MA.ofGen m) x
  rw [MA.toGen_ofGen m hn hp] at e
  refine ⟨e, ?_, ?_⟩ <;> rw [e] <;> simp [MA.toGen]

/-- **a headline MAFilter theorem on the generated function:** once the window holds a constant `c` (and the
accumulator its sum), the generated `process(c)` returns exactly `c` and the window stays steady. -/
theorem maFilter_gen_steady {m : MA ℝ} {c : ℝ} (h : C20.MA.Steady m c) :
    (Gen.maFilterStep (MA.toGen m) c).2 = c ∧ C20.MA.Steady (MA.ofGen (Gen.maFilterStep (MA.toGen m) c).1) c := by
  rw [maFilterStep_eq, MA.ofGen_toGen]
  exact ⟨(C20.MA.step_steady h).2, (C20.MA.step_steady h).1⟩

/-! ## Agc (`lib/agc.cpp`, `_process<T>`) -/

def Agc.ofGen (q : Gen.AgcStepParams ℝ) : Agc ℝ :=
  { trise := q.trise, tfall := q.tfall, maxGain := q.max_gain, target := q.target }

def Agc.toGen (p : Agc ℝ) : Gen.AgcStepParams ℝ :=
  { trise := p.trise, tfall := p.tfall, max_gain := p.maxGain, target := p.target }

theorem Agc.ofGen_toGen (p : Agc ℝ) : Agc.ofGen (Agc.toGen p) = p := rfl
theorem Agc.toGen_ofGen (q : Gen.AgcStepParams ℝ) : Agc.toGen (Agc.ofGen q) = q := rfl

def AgcState.toGen (t : AgcState ℝ) : Gen.AgcStepState ℝ := { gain := t.gain, maflt := MA.toGen t.ma }

def AgcState.ofGen (s : Gen.AgcStepState ℝ) : AgcState ℝ := { gain := s.gain, ma := MA.ofGen s.maflt }

theorem AgcState.ofGen_toGen (t : AgcState ℝ) : AgcState.ofGen (AgcState.toGen t) = t := by
  simp [AgcState.ofGen, AgcState.toGen, MA.ofGen_toGen]

theorem AgcState.toGen_ofGen (s : Gen.AgcStepState ℝ) (hn : 0 ≤ s.maflt.n) (hp : 0 ≤ s.maflt.pos) :
    AgcState.toGen (AgcState.ofGen s) = s := by
  cases s
  simp_all [AgcState.ofGen, AgcState.toGen, MA.toGen_ofGen]

/-- **bridge, Agc, real input, at `ℝ`:** the generated loop body of `_process<real_t>` is the model's `Agc.step` at
power `x²`, with `out = x·gain`; for every parameter record, every model state, every sample -/
theorem agcStepR_eq (q : Gen.AgcStepParams ℝ) (t : AgcState ℝ) (x : ℝ) :
    Gen.agcStepR eps q (AgcState.toGen t) x =
      (AgcState.toGen (Agc.step (Agc.ofGen q) t (x * x)).1, (Agc.step (Agc.ofGen q) t (x * x)).2,
        x * (Agc.step (Agc.ofGen q) t (x * x)).2) := by
  simp only [Gen.agcStepR, Gen.abs2r, Gen.maxRR, AgcState.toGen, maFilterStep_eq, Agc.step, Agc.gainStep,
    Agc.inputPower, Agc.ofGen, fn_ofNat, fn_ofInt, fn_log, fn_exp, Nat.cast_zero, Int.cast_zero, Nat.cast_one,
    Int.cast_one, Nat.cast_ofNat, Int.cast_ofNat, gt_iff_lt]
  split_ifs <;> simp_all

/-- **bridge, Agc, complex input, at `ℝ`:** the generated loop body of `_process<cmplx_t>` is the model's `Agc.step`
at power `|x|²`, with `out = (re·gain, im·gain)` -/
theorem agcStepC_eq (q : Gen.AgcStepParams ℝ) (t : AgcState ℝ) (x : Cx ℝ) :
    Gen.agcStepC eps q (AgcState.toGen t) x =
      (AgcState.toGen (Agc.step (Agc.ofGen q) t (Cx.abs2 x)).1, (Agc.step (Agc.ofGen q) t (Cx.abs2 x)).2,
        (⟨x.re * (Agc.step (Agc.ofGen q) t (Cx.abs2 x)).2, x.im * (Agc.step (Agc.ofGen q) t (Cx.abs2 x)).2⟩ : Cx ℝ)) := by
  simp only [Gen.agcStepC, Gen.abs2c, Gen.maxRR, Cx.mulr, AgcState.toGen, maFilterStep_eq, Agc.step, Agc.gainStep,
    Agc.inputPower, Agc.ofGen, fn_ofNat, fn_ofInt, fn_log, fn_exp, Nat.cast_zero, Int.cast_zero, Nat.cast_one,
    Int.cast_one, Nat.cast_ofNat, Int.cast_ofNat, gt_iff_lt]
  split_ifs <;> simp_all

theorem agc_runR_eq (q : Gen.AgcStepParams ℝ) (t : AgcState ℝ) (x : Array ℝ) :
    run (Gen.agcStepR eps q) (AgcState.toGen t) x =
      (AgcState.toGen (Agc.processR (Agc.ofGen q) t x).1, (Agc.processR (Agc.ofGen q) t x).2) :=
  run_map (Gen.agcStepR eps q)
    (fun st (xi : ℝ) => ((Agc.step (Agc.ofGen q) st (xi * xi)).1, (Agc.step (Agc.ofGen q) st (xi * xi)).2,
      xi * (Agc.step (Agc.ofGen q) st (xi * xi)).2)) AgcState.toGen (agcStepR_eq q) t x

theorem agc_runC_eq (q : Gen.AgcStepParams ℝ) (t : AgcState ℝ) (x : Array (Cx ℝ)) :
    run (Gen.agcStepC eps q) (AgcState.toGen t) x =
      (AgcState.toGen (Agc.processC (Agc.ofGen q) t x).1, (Agc.processC (Agc.ofGen q) t x).2) :=
  run_map (Gen.agcStepC eps q)
    (fun st (xi : Cx ℝ) => ((Agc.step (Agc.ofGen q) st (Cx.abs2 xi)).1, (Agc.step (Agc.ofGen q) st (Cx.abs2 xi)).2,
      (⟨xi.re * (Agc.step (Agc.ofGen q) st (Cx.abs2 xi)).2, xi.im * (Agc.step (Agc.ofGen q) st (Cx.abs2 xi)).2⟩ : Cx ℝ)))
    AgcState.toGen (agcStepC_eq q) t x

/-- **T20.5 transported to the regenerated code, real signals:** for every parameter record, EVERY model state (any
window content, accumulator, log-gain) and every signal, the GENERATED loop body of `_process<real_t>` run over the
signal emits only gains in `(0, exp(max_gain)]` and `out[i] = x[i]·gain[i]`. -/
theorem agc_gen_gain_le_max_real (q : Gen.AgcStepParams ℝ) (t : AgcState ℝ) (x : Array ℝ) :
    ∃ (_ : (run (Gen.agcStepR eps q) (AgcState.toGen t) x).2.1.size = x.size)
      (_ : (run (Gen.agcStepR eps q) (AgcState.toGen t) x).2.2.size = x.size),
      ∀ i (hi : i < x.size),
        0 < (run (Gen.agcStepR eps q) (AgcState.toGen t) x).2.1[i] ∧
        (run (Gen.agcStepR eps q) (AgcState.toGen t) x).2.1[i] ≤ Real.exp q.max_gain ∧
        (run (Gen.agcStepR eps q) (AgcState.toGen t) x).2.2[i] =
          x[i] * (run (Gen.agcStepR eps q) (AgcState.toGen t) x).2.1[i] := by
  simp only [agc_runR_eq]
  exact C20.Agc.gain_le_max_real (Agc.ofGen q) t x

/-- **T20.5 transported, complex signals** -/
theorem agc_gen_gain_le_max_cmplx (q : Gen.AgcStepParams ℝ) (t : AgcState ℝ) (x : Array (Cx ℝ)) :
    ∃ (_ : (run (Gen.agcStepC eps q) (AgcState.toGen t) x).2.1.size = x.size)
      (_ : (run (Gen.agcStepC eps q) (AgcState.toGen t) x).2.2.size = x.size),
      ∀ i (hi : i < x.size),
        0 < (run (Gen.agcStepC eps q) (AgcState.toGen t) x).2.1[i] ∧
        (run (Gen.agcStepC eps q) (AgcState.toGen t) x).2.1[i] ≤ Real.exp q.max_gain ∧
        (run (Gen.agcStepC eps q) (AgcState.toGen t) x).2.2[i] =
          ⟨x[i].re * (run (Gen.agcStepC eps q) (AgcState.toGen t) x).2.1[i],
            x[i].im * (run (Gen.agcStepC eps q) (AgcState.toGen t) x).2.1[i]⟩ := by
  simp only [agc_runC_eq]
  exact C20.Agc.gain_le_max_cmplx (Agc.ofGen q) t x

/-! ## Constructors (regenerated: `Gen/CtorDyn.lean`)

`Gen/CtorDyn.lean` holds the constructors of `Compressor`, `Limiter`, `NoiseGate`, `MAFilter<real_t>` and `Agc` as the C++ AST has
them now: every data member in declaration order (mem-initialiser, else default member initialiser), then the body (assignments,
`DSPLIB_ASSERT`s as `.error`).  The smoothing coefficients are the conditional the code spells out,
`(t > 0) ? std::exp(-std::log(9) / (sample_rate * t)) : 0`; the conversion `int(std::floor(…))` of `NoiseGate` is a parameter
`truncToInt`.  The theorems below identify the generated constructors with the `init` functions of `Model/Dynamics.lean` (acceptance and
constructed object; message texts are not compared; sample rate `fs ≥ 1`, because `sample_rate * t` is a divisor) and start the
transported headline theorems from the GENERATED constructor. -/

theorem toOption_eq_some {ε β : Type} (e : Except ε β) (b : β) : e.toOption = some b ↔ e = .ok b := by
  cases e <;> simp [Except.toOption]

theorem ok_of_toOption_map {ε ε' β γ : Type} {e : Except ε β} {e' : Except ε' γ} {f : γ → β} {b : β}
    (h : e.toOption = e'.toOption.map f) (hb : e = .ok b) : ∃ c, e' = .ok c ∧ b = f c := by
  subst hb
  cases e' with
  | error _ => simp [Except.toOption] at h
  | ok c => exact ⟨c, rfl, by simpa [Except.toOption] using h⟩

/-- for a positive sample rate and an admitted time `t ≥ 0` the model's `coef` is the conditional the constructors now spell out:
`(t > 0) ? std::exp(-std::log(9) / (sample_rate * t)) : 0` -/
theorem coef_ite {fs : ℕ} (hfs : 0 < fs) {t : ℝ} (ht : 0 ≤ t) :
    coef (fs : ℝ) t = if 0 < t then Real.exp (-(Real.log 9) / ((fs : ℝ) * t)) else 0 := by
  have hfs' : (0 : ℝ) < (fs : ℝ) := by exact_mod_cast hfs
  rw [C20.coef_real]
  by_cases h : 0 < t
  · rw [if_pos h, if_neg (mul_pos hfs' h).ne']
  · have : t = 0 := le_antisymm (not_lt.mp h) ht
    subst this; simp

/-! ### Compressor -/

/-- the object the model's constructor describes: the five parameters and `gs_{0}` -/
def Comp.toObj (p : Comp ℝ) : Gen.CompressorObj ℝ :=
  { T := p.gp.T, R := p.gp.R, W := p.gp.W, wA := p.wA, wR := p.wR, gs := 0 }

/-- members of a constructed `Compressor` that the generated loop body reads / writes -/
def compObjP (o : Gen.CompressorObj ℝ) : Gen.CompressorStepParams ℝ := { T := o.T, R := o.R, W := o.W, wA := o.wA, wR := o.wR }
def compObjS (o : Gen.CompressorObj ℝ) : Gen.CompressorStepState ℝ := { gs := o.gs }

set_option linter.unusedSimpArgs false in
/-- **bridge, `Compressor::Compressor`:** for every sample rate `fs ≥ 1` and ALL other arguments, the generated constructor accepts
exactly when `Comp.init` does, and then leaves the object `Comp.init` describes (with `gs_ = 0`).  (Messages are not compared.) -/
theorem compressorCtor_eq (fs : ℕ) (hfs : 0 < fs) (T : ℝ) (R : Int) (W ta tr : ℝ) :
    (Gen.compressorCtor (fs : Int) T R W ta tr).toOption = (Comp.init fs T R W ta tr).toOption.map Comp.toObj := by
  unfold Gen.compressorCtor Comp.init
  by_cases h1 : (-50 ≤ T ∧ T ≤ 0) <;> by_cases h2 : (1 ≤ R ∧ R ≤ 50) <;> by_cases h3 : (0 ≤ W ∧ W ≤ 20) <;>
    by_cases h4 : (0 ≤ ta ∧ ta ≤ 4) <;> by_cases h5 : (0 ≤ tr ∧ tr ≤ 4) <;>
    simp [h1, h2, h3, h4, h5, Except.toOption, Comp.toObj, coef_ite hfs, and_comm (a := T ≤ 0) (b := -50 ≤ T),
      and_comm (a := R ≤ 50) (b := 1 ≤ R), and_comm (a := W ≤ 20) (b := 0 ≤ W), and_comm (a := ta ≤ 4) (b := 0 ≤ ta),
      and_comm (a := tr ≤ 4) (b := 0 ≤ tr)]

/-- **T20.1 from the GENERATED constructor through the GENERATED loop body, Compressor:** whatever the regenerated constructor
accepts (sample rate `fs ≥ 1`), running the regenerated loop body of `process` from the object it leaves emits only gains in `(0, 1]`,
`out[i] = x[i]·gain[i]`, `|out[i]| ≤ |x[i]|`, for every signal. -/
theorem compressor_gen_from_ctor (fs : ℕ) (hfs : 0 < fs) (T : ℝ) (R : Int) (W ta tr : ℝ) (o : Gen.CompressorObj ℝ)
    (h : Gen.compressorCtor (fs : Int) T R W ta tr = .ok o) (x : Array ℝ) :
    (run (Gen.compressorStep eps (compObjP o)) (compObjS o) x).1.gs ≤ 0 ∧
      GainsIn (fun g => 0 < g ∧ g ≤ 1) x (run (Gen.compressorStep eps (compObjP o)) (compObjS o) x).2 := by
  obtain ⟨p, hp, rfl⟩ := ok_of_toOption_map (compressorCtor_eq fs hfs T R W ta tr) h
  exact compressor_gen_gain_range (compObjP (Comp.toObj p)) (C20.Comp.init_ok hfs hp).1 _ (le_refl (0 : ℝ)) x

/-- the coefficients the generated constructor stores: `coef fs t`, in particular `0` for a time of `0` -/
theorem compressorCtor_coefs (fs : ℕ) (hfs : 0 < fs) (T : ℝ) (R : Int) (W ta tr : ℝ) (o : Gen.CompressorObj ℝ)
    (h : Gen.compressorCtor (fs : Int) T R W ta tr = .ok o) :
    o.T = T ∧ o.R = R ∧ o.W = W ∧ o.wA = coef (fs : ℝ) ta ∧ o.wR = coef (fs : ℝ) tr ∧ o.gs = 0 := by
  obtain ⟨p, hp, rfl⟩ := ok_of_toOption_map (compressorCtor_eq fs hfs T R W ta tr) h
  unfold Comp.init at hp
  split_ifs at hp
  cases hp
  exact ⟨rfl, rfl, rfl, rfl, rfl, rfl⟩

/-! ### Limiter -/

def Lim.toObj (p : Lim ℝ) : Gen.LimiterObj ℝ := { T := p.gp.T, W := p.gp.W, wA := p.wA, wR := p.wR, gs := 0 }
def limObjP (o : Gen.LimiterObj ℝ) : Gen.LimiterStepParams ℝ := { T := o.T, W := o.W, wA := o.wA, wR := o.wR }
def limObjS (o : Gen.LimiterObj ℝ) : Gen.LimiterStepState ℝ := { gs := o.gs }

set_option linter.unusedSimpArgs false in
/-- **bridge, `Limiter::Limiter`** -/
theorem limiterCtor_eq (fs : ℕ) (hfs : 0 < fs) (T W ta tr : ℝ) :
    (Gen.limiterCtor (fs : Int) T W ta tr).toOption = (Lim.init fs T W ta tr).toOption.map Lim.toObj := by
  unfold Gen.limiterCtor Lim.init
  by_cases h1 : (-50 ≤ T ∧ T ≤ 0) <;> by_cases h3 : (0 ≤ W ∧ W ≤ 20) <;>
    by_cases h4 : (0 ≤ ta ∧ ta ≤ 4) <;> by_cases h5 : (0 ≤ tr ∧ tr ≤ 4) <;>
    simp [h1, h3, h4, h5, Except.toOption, Lim.toObj, coef_ite hfs, and_comm (a := T ≤ 0) (b := -50 ≤ T),
      and_comm (a := W ≤ 20) (b := 0 ≤ W), and_comm (a := ta ≤ 4) (b := 0 ≤ ta), and_comm (a := tr ≤ 4) (b := 0 ≤ tr)]

theorem limiter_gen_from_ctor (fs : ℕ) (hfs : 0 < fs) (T W ta tr : ℝ) (o : Gen.LimiterObj ℝ)
    (h : Gen.limiterCtor (fs : Int) T W ta tr = .ok o) (x : Array ℝ) :
    (run (Gen.limiterStep eps (limObjP o)) (limObjS o) x).1.gs ≤ 0 ∧
      GainsIn (fun g => 0 < g ∧ g ≤ 1) x (run (Gen.limiterStep eps (limObjP o)) (limObjS o) x).2 := by
  obtain ⟨p, hp, rfl⟩ := ok_of_toOption_map (limiterCtor_eq fs hfs T W ta tr) h
  exact limiter_gen_gain_range (limObjP (Lim.toObj p)) (C20.Lim.init_ok hfs hp).1 _ (le_refl (0 : ℝ)) x

/-- **T20.3 (ceiling) from the GENERATED constructor, attack time 0:** a limiter constructed by the regenerated constructor with
`attack_time = 0` (the coefficient is then the `0` of the constructor's conditional) and run by the regenerated loop body never lets a sample
above its threshold, `|out[i]| ≤ 10^(T/20)`, for arbitrary signals, release time and knee. -/
theorem limiter_gen_ceiling_from_ctor (fs : ℕ) (hfs : 0 < fs) (T W tr : ℝ) (o : Gen.LimiterObj ℝ)
    (h : Gen.limiterCtor (fs : Int) T W 0 tr = .ok o) (x : Array ℝ) (i : Nat)
    (hi : i < (run (Gen.limiterStep eps (limObjP o)) (limObjS o) x).2.2.size) :
    (run (Gen.limiterStep eps (limObjP o)) (limObjS o) x).2.2.size = x.size ∧
      |(run (Gen.limiterStep eps (limObjP o)) (limObjS o) x).2.2[i]| ≤ Gen.db2mag T := by
  obtain ⟨p, hp, rfl⟩ := ok_of_toOption_map (limiterCtor_eq fs hfs T W 0 tr) h
  have hT : p.gp.T = T := (C20.Lim.init_ok hfs hp).2.1
  have := limiter_gen_ceiling (limObjP (Lim.toObj p)) (C20.Lim.init_ok hfs hp).1 (C20.Lim.init_zero_attack hp) _ x i hi
  simpa [limObjP, Lim.toObj, hT] using this

/-! ### NoiseGate -/

/-- the object the model's constructor describes (`tH_` is the `int` the model's scalar hold time was converted from) -/
def Gate.toObj (p : Gate ℝ) : Gen.NoiseGateObj ℝ :=
  { tlin := p.tlin, wA := p.wA, wR := p.wR, tH := ⌊p.tH⌋, cA := 0, lg := 0 }
def gateObjP (o : Gen.NoiseGateObj ℝ) : Gen.NoiseGateStepParams ℝ := { tlin := o.tlin, wA := o.wA, wR := o.wR, tH := o.tH }
def gateObjS (o : Gen.NoiseGateObj ℝ) : Gen.NoiseGateStepState ℝ := { cA := o.cA, lg := o.lg }

set_option linter.unusedSimpArgs false in
/-- **bridge, `NoiseGate::NoiseGate`**, for every conversion `real_t → int` that is the identity on integral values (truncation is) -/
theorem noiseGateCtor_eq (trunc : ℝ → Int) (htrunc : ∀ z : Int, trunc (z : ℝ) = z) (fs : ℕ) (hfs : 0 < fs) (T ta tr th : ℝ) :
    (Gen.noiseGateCtor trunc (fs : Int) T ta tr th).toOption = (Gate.init fs T ta tr th).toOption.map Gate.toObj := by
  unfold Gen.noiseGateCtor Gate.init
  by_cases h1 : (-140 ≤ T ∧ T ≤ 0) <;> by_cases h2 : (0 ≤ ta ∧ ta ≤ 4) <;>
    by_cases h3 : (0 ≤ tr ∧ tr ≤ 4) <;> by_cases h4 : (0 ≤ th ∧ th ≤ 4) <;>
    simp [h1, h2, h3, h4, htrunc, Except.toOption, Gate.toObj, fn_floor, coef_ite hfs, and_comm (a := T ≤ 0) (b := -140 ≤ T),
      and_comm (a := ta ≤ 4) (b := 0 ≤ ta), and_comm (a := tr ≤ 4) (b := 0 ≤ tr), and_comm (a := th ≤ 4) (b := 0 ≤ th)]

theorem noiseGate_gen_from_ctor (trunc : ℝ → Int) (htrunc : ∀ z : Int, trunc (z : ℝ) = z) (fs : ℕ) (hfs : 0 < fs) (T ta tr th : ℝ)
    (o : Gen.NoiseGateObj ℝ) (h : Gen.noiseGateCtor trunc (fs : Int) T ta tr th = .ok o) (x : Array ℝ) :
    (0 ≤ (run (Gen.noiseGateStep (gateObjP o)) (gateObjS o) x).1.lg ∧
      (run (Gen.noiseGateStep (gateObjP o)) (gateObjS o) x).1.lg ≤ 1) ∧
      GainsIn (fun g => 0 ≤ g ∧ g ≤ 1) x (run (Gen.noiseGateStep (gateObjP o)) (gateObjS o) x).2 := by
  obtain ⟨p, hp, rfl⟩ := ok_of_toOption_map (noiseGateCtor_eq trunc htrunc fs hfs T ta tr th) h
  have hq : NoiseGateAdmissible (gateObjP (Gate.toObj p)) := by
    have := C20.Gate.init_ok hfs hp
    exact ⟨this.wA0, this.wA1, this.wR0, this.wR1⟩
  exact noiseGate_gen_gain_range (gateObjP (Gate.toObj p)) hq ⟨0, 0⟩ ⟨le_refl _, zero_le_one⟩ x

/-! ### MAFilter, Agc -/

/-- **bridge, `MAFilter<real_t>::MAFilter(int n)`** for `n ≥ 0` -/
theorem maFilterCtor_eq (n : ℕ) : (Gen.maFilterCtor (n : Int) : Gen.MAFilterState ℝ) = MA.toGen (MA.init n) := by
  simp [Gen.maFilterCtor, MA.toGen, MA.init, Gen.arrNew, Gen.zeroR]

/-- the object `Agc::Agc` leaves, from the model's parameter record and state -/
def Agc.toObj (ps : Agc ℝ × AgcState ℝ) : Gen.AgcObj ℝ :=
  { trise := ps.1.trise, tfall := ps.1.tfall, max_gain := ps.1.maxGain, target := ps.1.target, gain := ps.2.gain,
    maflt := MA.toGen ps.2.ma }
def agcObjP (o : Gen.AgcObj ℝ) : Gen.AgcStepParams ℝ := { trise := o.trise, tfall := o.tfall, max_gain := o.max_gain, target := o.target }
def agcObjS (o : Gen.AgcObj ℝ) : Gen.AgcStepState ℝ := { gain := o.gain, maflt := o.maflt }

/-- **bridge, `Agc::Agc`** (the object is `*_d`: default member initialisers of `AgcImpl`, then the assignments of the body),
for ALL arguments -/
theorem agcCtor_eq (tl mg : ℝ) (n : Int) (tri tfa : ℝ) :
    (Gen.agcCtor tl mg n tri tfa).toOption = (Agc.init tl mg n tri tfa).toOption.map Agc.toObj := by
  unfold Gen.agcCtor Agc.init
  by_cases hn : n > 0
  · obtain ⟨k, rfl⟩ := Int.eq_ofNat_of_zero_le (le_of_lt hn)
    have hk : k ≠ 0 := by rintro rfl; simp at hn
    simp [hk, Except.toOption, Agc.toObj, maFilterCtor_eq]
  · simp [hn, Except.toOption]

theorem agcObj_toObj (ps : Agc ℝ × AgcState ℝ) :
    agcObjP (Agc.toObj ps) = Agc.toGen ps.1 ∧ agcObjS (Agc.toObj ps) = AgcState.toGen ps.2 := ⟨rfl, rfl⟩

/-- **T20.5 from the GENERATED constructor through the GENERATED loop body (real signals):** whatever `Agc::Agc` accepts, the gains
emitted by the regenerated loop are in `(0, 10^(max_gain/20)]` — `exp` of the stored log-domain limit `log(10^(max_gain/20))`. -/
theorem agc_gen_from_ctor_real (tl mg : ℝ) (n : Int) (tri tfa : ℝ) (o : Gen.AgcObj ℝ) (h : Gen.agcCtor tl mg n tri tfa = .ok o)
    (x : Array ℝ) :
    o.max_gain = Real.log ((10 : ℝ) ^ (mg / 20)) ∧
    ∃ (_ : (run (Gen.agcStepR eps (agcObjP o)) (agcObjS o) x).2.1.size = x.size)
      (_ : (run (Gen.agcStepR eps (agcObjP o)) (agcObjS o) x).2.2.size = x.size),
      ∀ i (hi : i < x.size),
        0 < (run (Gen.agcStepR eps (agcObjP o)) (agcObjS o) x).2.1[i] ∧
        (run (Gen.agcStepR eps (agcObjP o)) (agcObjS o) x).2.1[i] ≤ (10 : ℝ) ^ (mg / 20) ∧
        (run (Gen.agcStepR eps (agcObjP o)) (agcObjS o) x).2.2[i] =
          x[i] * (run (Gen.agcStepR eps (agcObjP o)) (agcObjS o) x).2.1[i] := by
  obtain ⟨ps, hp, rfl⟩ := ok_of_toOption_map (agcCtor_eq tl mg n tri tfa) h
  have hmg : ps.1.maxGain = Real.log ((10 : ℝ) ^ (mg / 20)) := by
    unfold Agc.init at hp
    split_ifs at hp
    cases hp
    simp
  refine ⟨hmg, ?_⟩
  obtain ⟨h1, h2, h3⟩ := agc_gen_gain_le_max_real (Agc.toGen ps.1) ps.2 x
  refine ⟨h1, h2, fun i hi => ?_⟩
  obtain ⟨a, b, c⟩ := h3 i hi
  refine ⟨a, ?_, c⟩
  have hpos : (0 : ℝ) < (10 : ℝ) ^ (mg / 20) := Real.rpow_pos_of_pos (by norm_num) _
  have : Real.exp (Agc.toGen ps.1).max_gain = (10 : ℝ) ^ (mg / 20) := by
    show Real.exp ps.1.maxGain = _
    rw [hmg, Real.exp_log hpos]
  rw [← this]; exact b

/-- the default arguments of the four constructors as the headers have them now -/
theorem ctor_defaults :
    (Gen.compressorCtorDefault_sample_rate, (Gen.compressorCtorDefault_threshold : ℝ), Gen.compressorCtorDefault_ratio,
      (Gen.compressorCtorDefault_knee_width : ℝ), (Gen.compressorCtorDefault_attack_time : ℝ),
      (Gen.compressorCtorDefault_release_time : ℝ)) = (44100, -10, 5, 0, 1 / 100, 1 / 5) ∧
    (Gen.limiterCtorDefault_sample_rate, (Gen.limiterCtorDefault_threshold : ℝ), (Gen.limiterCtorDefault_knee_width : ℝ),
      (Gen.limiterCtorDefault_attack_time : ℝ), (Gen.limiterCtorDefault_release_time : ℝ)) = (44100, -10, 0, 0, 1 / 5) ∧
    (Gen.noiseGateCtorDefault_sample_rate, (Gen.noiseGateCtorDefault_threshold : ℝ), (Gen.noiseGateCtorDefault_attack_time : ℝ),
      (Gen.noiseGateCtorDefault_release_time : ℝ), (Gen.noiseGateCtorDefault_hold_time : ℝ)) = (44100, -10, 1 / 20, 1 / 50, 1 / 20) ∧
    ((Gen.agcCtorDefault_target_level : ℝ), (Gen.agcCtorDefault_max_gain : ℝ), Gen.agcCtorDefault_average_len,
      (Gen.agcCtorDefault_t_rise : ℝ), (Gen.agcCtorDefault_t_fall : ℝ)) = (1, 60, 100, 1 / 100, 1 / 100) := by
  refine ⟨?_, ?_, ?_, ?_⟩ <;>
    simp [Gen.compressorCtorDefault_sample_rate, Gen.compressorCtorDefault_threshold, Gen.compressorCtorDefault_ratio,
      Gen.compressorCtorDefault_knee_width, Gen.compressorCtorDefault_attack_time, Gen.compressorCtorDefault_release_time,
      Gen.limiterCtorDefault_sample_rate, Gen.limiterCtorDefault_threshold, Gen.limiterCtorDefault_knee_width,
      Gen.limiterCtorDefault_attack_time, Gen.limiterCtorDefault_release_time,
      Gen.noiseGateCtorDefault_sample_rate, Gen.noiseGateCtorDefault_threshold, Gen.noiseGateCtorDefault_attack_time,
      Gen.noiseGateCtorDefault_release_time, Gen.noiseGateCtorDefault_hold_time,
      Gen.agcCtorDefault_target_level, Gen.agcCtorDefault_max_gain, Gen.agcCtorDefault_average_len, Gen.agcCtorDefault_t_rise,
      Gen.agcCtorDefault_t_fall]

/-- non-vacuity: the generated constructors accept their default arguments (`Limiter()` has attack time 0: the ceiling theorem applies) -/
example : ∃ o, Gen.limiterCtor (44100 : Int) (-10 : ℝ) 0 0 (1 / 5) = .ok o := by
  unfold Gen.limiterCtor; norm_num
example : ∃ o, Gen.compressorCtor (44100 : Int) (-10 : ℝ) 5 0 (1 / 100) (1 / 5) = .ok o := by
  unfold Gen.compressorCtor; norm_num
example : ∃ o, Gen.agcCtor (1 : ℝ) 60 100 (1 / 100) (1 / 100) = .ok o := by
  unfold Gen.agcCtor; norm_num
example : ∃ e, Gen.agcCtor (1 : ℝ) 60 0 (1 / 100) (1 / 100) = .error e := by
  unfold Gen.agcCtor; norm_num

/-! ## Non-vacuity: the admissibility hypotheses of the transported theorems hold at concrete parameter records -/

example : CompressorAdmissible { T := -10, R := 5, W := 4, wA := 1 / 4, wR := 3 / 4 } := by
  constructor <;> norm_num [Comp.ofGen]

example : LimiterAdmissible { T := -10, W := 4, wA := 0, wR := 3 / 4 } := by
  constructor <;> norm_num [Lim.ofGen]

example : NoiseGateAdmissible { tlin := 1 / 10, wA := 1 / 4, wR := 3 / 4, tH := 100 } := by
  constructor <;> norm_num [Gate.ofGen]

end

end Dsp.C20Gen
