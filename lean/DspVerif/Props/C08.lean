import DspVerif.Model.Resample
import DspVerif.Lib.RealFn
import Mathlib.Algebra.BigOperators.Intervals
import Mathlib.Tactic.Linarith
import Mathlib.Tactic.Ring
import Mathlib.Tactic.SplitIfs
import Mathlib.Tactic.FieldSimp
import Mathlib.Tactic.NormNum
/-!
# C08 — multirate converters equal the zero-stuff / filter / decimate definition

Theorems about `Model/Resample.lean` at `α = ℝ` (exact arithmetic; rounding is measured by the oracle of
`harness/c08.cpp`) and about its integer arithmetic.  Streams: `past` are the samples a converter has
consumed since construction (from rest), `x` is the frame of the current call; every statement is for
every `past`, i.e. for every call of every history, not only for the first call.
-/
open Finset

namespace Dsp.C08
open Dsp Dsp.Resample

/-! ## arrays, loops -/

theorem size_tab {β : Type} (n : ℕ) (f : ℕ → β) : (tab n f).size = n := by simp [tab]

theorem getElem?_tab {β : Type} (n : ℕ) (f : ℕ → β) (i : ℕ) :
    (tab n f)[i]? = if i < n then some (f i) else none := by
  unfold tab
  split_ifs with h <;> simp [h]

theorem tab_congr {β : Type} (n : ℕ) (f g : ℕ → β) (h : ∀ i, i < n → f i = g i) : tab n f = tab n g := by
  apply Array.ext_getElem?
  intro i
  rw [getElem?_tab, getElem?_tab]
  split_ifs with hi
  · rw [h i hi]
  · rfl

@[simp] theorem zero_real : (Resample.zero : ℝ) = 0 := by simp [Resample.zero]

theorem elem_def (a : Array ℝ) (i : ℕ) : elem a i = (a[i]?).getD 0 := by simp [elem]

theorem elem_tab (n : ℕ) (f : ℕ → ℝ) (i : ℕ) : elem (tab n f) i = if i < n then f i else 0 := by
  rw [elem_def, getElem?_tab]; split_ifs <;> rfl

theorem elem_of_le (a : Array ℝ) (i : ℕ) (h : a.size ≤ i) : elem a i = 0 := by
  rw [elem_def]; simp [Nat.not_lt.mpr h]

theorem getElem?_eq_elem (a : Array ℝ) (i : ℕ) (h : i < a.size) : a[i]? = some (elem a i) := by
  rw [elem_def]; simp [h]

theorem elem_append (d x : Array ℝ) (t : ℕ) :
    elem (d ++ x) t = if t < d.size then elem d t else elem x (t - d.size) := by
  simp only [elem_def, Array.getElem?_append]
  split_ifs <;> rfl

theorem row_tab {β : Type} (n : ℕ) (f : ℕ → Array β) (i : ℕ) (h : i < n) : (tab n f).getD i #[] = f i := by
  have := getElem?_tab n f i
  simp only [h, if_true] at this
  simp [this]

theorem accN_eq (f : ℕ → ℝ) (n : ℕ) (a : ℝ) : accN f n a = a + ∑ j ∈ range n, f j := by
  induction n with
  | zero => simp [accN, loopN]
  | succ n ih =>
    have : accN f (n+1) a = accN f n a + f n := rfl
    rw [this, ih, Finset.sum_range_succ]; ring

theorem sum_range_mul' {β : Type} [AddCommMonoid β] (n L : ℕ) (f : ℕ → β) :
    ∑ t ∈ range (n * L), f t = ∑ s ∈ range n, ∑ r ∈ range L, f (s * L + r) := by
  induction n with
  | zero => simp
  | succ n ih => rw [Nat.succ_mul, Finset.sum_range_add, ih, Finset.sum_range_succ]

/-! ## zero padding to a multiple of the rate (`polyphase`, `next_size`) -/

theorem paddedLen_spec (n m : ℕ) (hm : 0 < m) :
    n ≤ paddedLen n m ∧ paddedLen n m < n + m ∧ paddedLen n m % m = 0 := by
  unfold paddedLen
  have h1 := Nat.div_add_mod n m
  have h2 := Nat.mod_lt n hm
  split_ifs with h
  · exact ⟨le_refl _, by omega, h⟩
  · refine ⟨?_, ?_, by simp⟩
    · rw [Nat.add_mul, Nat.mul_comm]; omega
    · rw [Nat.add_mul, Nat.mul_comm]; omega

theorem paddedLen_div_mul (n m : ℕ) (hm : 0 < m) : paddedLen n m / m * m = paddedLen n m :=
  Nat.div_mul_cancel (Nat.dvd_of_mod_eq_zero (paddedLen_spec n m hm).2.2)

/-- `paddedLen n m = m·⌈n/m⌉` -/
theorem paddedLen_eq_ceil (n m : ℕ) (hm : 0 < m) : paddedLen n m = m * ((n + m - 1) / m) := by
  obtain ⟨h1, h2, h3⟩ := paddedLen_spec n m hm
  obtain ⟨c, hc⟩ := Nat.dvd_of_mod_eq_zero h3
  rw [hc]
  congr 1
  symm
  apply Nat.div_eq_of_lt_le
  · rw [Nat.mul_comm]; omega
  · rw [Nat.add_mul, Nat.mul_comm]; omega

/-! ## T08.1 — the polyphase decomposition -/

/-- sum of the coefficient vector (the DC gain before normalisation) -/
noncomputable def hsum (h : Array ℝ) : ℝ := ∑ i ∈ range h.size, elem h i

/-- `ĥ`: the zero-padded (`elem` reads 0 past the end), sum-normalised coefficient vector -/
noncomputable def hhat (h : Array ℝ) (t : ℕ) : ℝ := elem h t / hsum h

theorem sum_padded (h : Array ℝ) (m : ℕ) (hm : 0 < m) :
    ∑ i ∈ range (paddedLen h.size m), elem h i = hsum h := by
  obtain ⟨h1, _, _⟩ := paddedLen_spec h.size m hm
  obtain ⟨c, hc⟩ := Nat.exists_eq_add_of_le h1
  rw [hc, Finset.sum_range_add, hsum]
  have : ∑ x ∈ range c, elem h (h.size + x) = 0 := by
    apply Finset.sum_eq_zero; intro i _; exact elem_of_le _ _ (by omega)
  rw [this, add_zero]

/-- `ĥ` has DC gain 1 (so `L·ĥ` has DC gain `L`) — provided the taps do not sum to zero -/
theorem hhat_dc_gain (h : Array ℝ) (m : ℕ) (hm : 0 < m) (hs : hsum h ≠ 0) :
    ∑ t ∈ range (paddedLen h.size m), hhat h t = 1 := by
  unfold hhat
  simp only [div_eq_mul_inv]
  rw [← Finset.sum_mul, sum_padded h m hm, mul_inv_cancel₀ hs]

theorem polyphase_size (h : Array ℝ) (m : ℕ) (gain : ℝ) (flip : Bool) : (polyphase h m gain flip).size = m := by
  simp [polyphase, size_tab]

theorem polyphase_row (h : Array ℝ) (m : ℕ) (gain : ℝ) (flip : Bool) (i : ℕ) (hi : i < m) :
    row (polyphase h m gain flip) i =
      tab (paddedLen h.size m / m) fun k =>
        hhat h (i + (if flip then paddedLen h.size m / m - 1 - k else k) * m) * gain := by
  have hm : 0 < m := by omega
  unfold row polyphase
  simp only []
  rw [row_tab _ _ _ hi]
  apply tab_congr
  intro k _
  rw [accN_eq, zero_real, zero_add, sum_padded h m hm, hhat]

/-- **T08.1 (polyphase_spec).**  `polyphase(h, m, gain, flip)` has `m` branches of `n = ⌈|h|/m⌉` taps; branch `i`,
tap `k` is `gain · ĥ(i + k·m)` (`flip`: tap `n-1-k`), `ĥ` the zero-padded sum-normalised `h`. -/
theorem polyphase_spec (h : Array ℝ) (m : ℕ) (gain : ℝ) (flip : Bool) (i k : ℕ) (hi : i < m)
    (hk : k < paddedLen h.size m / m) :
    (polyphase h m gain flip).size = m ∧
    (row (polyphase h m gain flip) i).size = paddedLen h.size m / m ∧
    paddedLen h.size m / m * m = paddedLen h.size m ∧
    elem (row (polyphase h m gain flip) i) k =
      gain * hhat h (i + (if flip then paddedLen h.size m / m - 1 - k else k) * m) := by
  refine ⟨polyphase_size h m gain flip, ?_, paddedLen_div_mul _ _ (by omega), ?_⟩
  · rw [polyphase_row h m gain flip i hi, size_tab]
  · rw [polyphase_row h m gain flip i hi, elem_tab, if_pos hk, mul_comm]

/-! ## the textbook chain -/

/-- insert `L-1` zeros between the samples -/
def up (L : ℕ) (x : ℕ → ℝ) (n : ℕ) : ℝ := if L ∣ n then x (n / L) else 0

/-- causal FIR filter with taps `g 0 … g (nh-1)` on a signal that starts at 0 (from rest) -/
noncomputable def fir (nh : ℕ) (g : ℕ → ℝ) (u : ℕ → ℝ) (n : ℕ) : ℝ :=
  ∑ t ∈ range nh, if t ≤ n then g t * u (n - t) else 0

theorem fir_up_inner (L : ℕ) (hL : 0 < L) (g x : ℕ → ℝ) (m s : ℕ) :
    (∑ r ∈ range L, if s * L + r ≤ m then g (s * L + r) * up L x (m - (s * L + r)) else 0) =
      if s ≤ m / L then g (m % L + s * L) * x (m / L - s) else 0 := by
  have hdm := Nat.div_add_mod m L
  have hml := Nat.mod_lt m hL
  split_ifs with hs
  · -- s ≤ m / L
    have hsl : s * L ≤ m / L * L := Nat.mul_le_mul_right L hs
    have hq : m / L * L + m % L = m := by rw [Nat.mul_comm]; exact hdm
    rw [Finset.sum_eq_single (m % L)]
    · have h1 : s * L + m % L ≤ m := by omega
      have h2 : m - (s * L + m % L) = (m / L - s) * L := by
        rw [Nat.sub_mul]; omega
      rw [if_pos h1, h2, up, if_pos (Dvd.intro_left _ rfl), Nat.mul_div_cancel _ hL, Nat.add_comm]
    · intro r hr hne
      have hr' : r < L := Finset.mem_range.mp hr
      split_ifs with h1
      · unfold up
        split_ifs with hd
        · exfalso
          obtain ⟨c, hc⟩ := hd
          have : m = r + L * (s + c) := by rw [Nat.mul_add, Nat.mul_comm L s]; omega
          apply hne
          rw [this, Nat.add_mul_mod_self_left, Nat.mod_eq_of_lt hr']
        · ring
      · rfl
    · intro h; exact absurd (Finset.mem_range.mpr hml) h
  · apply Finset.sum_eq_zero
    intro r _
    have : m / L + 1 ≤ s := by omega
    have h3 : (m / L + 1) * L ≤ s * L := Nat.mul_le_mul_right L this
    have h4 : m < (m / L + 1) * L := by rw [Nat.add_mul, Nat.mul_comm]; omega
    rw [if_neg (by omega)]

/-- **polyphase identity of the textbook chain**: the `m`-th sample of "insert `L-1` zeros, filter with the
`n·L` taps `g`" only meets the taps of branch `m % L`, on the input samples `m/L, m/L-1, …`. -/
theorem fir_up (L : ℕ) (hL : 0 < L) (n : ℕ) (g x : ℕ → ℝ) (m : ℕ) :
    fir (n * L) g (up L x) m =
      ∑ s ∈ range n, if s ≤ m / L then g (m % L + s * L) * x (m / L - s) else 0 := by
  unfold fir
  rw [sum_range_mul']
  apply Finset.sum_congr rfl
  intro s _
  exact fir_up_inner L hL g x m s

/-! ## the delay line -/

/-- contents of a delay line of `nd` cells after the samples `past` (from rest): the last `nd` samples,
zeros where the stream had not started yet -/
noncomputable def hist (nd : ℕ) (past : Array ℝ) : Array ℝ :=
  tab nd fun t => if past.size + t < nd then 0 else elem past (past.size + t - nd)

theorem hist_size (nd : ℕ) (past : Array ℝ) : (hist nd past).size = nd := size_tab _ _

/-- the constructor's `zeros(nd)` is the delay line of the empty history -/
theorem hist_empty (nd : ℕ) : hist nd #[] = zeros nd := by
  unfold hist zeros
  apply tab_congr
  intro i hi
  simp [hi]

/-- the work buffer `d_ ++ in` is the stream, shifted by `nd`, zero before its start -/
theorem elem_hist_append (nd : ℕ) (past x : Array ℝ) (t : ℕ) :
    elem (hist nd past ++ x) t =
      if past.size + t < nd then 0 else elem (past ++ x) (past.size + t - nd) := by
  rw [elem_append, hist_size]
  by_cases ht : t < nd
  · rw [if_pos ht, hist, elem_tab, if_pos ht]
    split_ifs with h1
    · rfl
    · rw [elem_append, if_pos (by omega)]
  · rw [if_neg ht, if_neg (by omega), elem_append, if_neg (by omega)]
    congr 1; omega

/-- the third `memcpy` of `process` (`d_ := last nd cells of the buffer`) re-establishes the delay line -/
theorem hist_step (nd : ℕ) (past x : Array ℝ) :
    (hist nd past ++ x).extract x.size (x.size + (hist nd past).size) = hist nd (past ++ x) := by
  rw [hist_size]
  apply Array.ext_getElem?
  intro i
  rw [Array.getElem?_extract, Array.size_append, hist_size]
  have e : min (x.size + nd) (nd + x.size) - x.size = nd := by omega
  rw [e]
  conv_rhs => rw [hist, getElem?_tab]
  by_cases hi : i < nd
  · rw [if_pos hi, if_pos hi,
      getElem?_eq_elem _ _ (by rw [Array.size_append, hist_size]; omega), elem_hist_append,
      Array.size_append]
    have : past.size + (x.size + i) = past.size + x.size + i := by omega
    rw [this]
  · rw [if_neg hi, if_neg hi]

/-- zero taps appended to a filter do not change it -/
theorem fir_extend (n n' : ℕ) (hn : n ≤ n') (g u : ℕ → ℝ) (hg : ∀ t, n ≤ t → g t = 0) (m : ℕ) :
    fir n' g u m = fir n g u m := by
  obtain ⟨c, rfl⟩ := Nat.exists_eq_add_of_le hn
  unfold fir
  rw [Finset.sum_range_add]
  have : (∑ x ∈ range c, if n + x ≤ m then g (n + x) * u (m - (n + x)) else 0) = 0 := by
    apply Finset.sum_eq_zero
    intro i _
    rw [hg (n + i) (by omega)]
    split_ifs <;> simp
  rw [this, add_zero]

/-- **the textbook chain before decimation**: sample `m` of "insert `L-1` zeros between the samples of `X`,
filter with `h` normalised to DC gain `L`" (`X` is zero after its last sample, the filter starts from rest) -/
noncomputable def upfir (L : ℕ) (h X : Array ℝ) (m : ℕ) : ℝ :=
  fir h.size (fun t => (L : ℝ) * hhat h t) (up L (elem X)) m

theorem hhat_of_le (h : Array ℝ) (t : ℕ) (ht : h.size ≤ t) : hhat h t = 0 := by
  rw [hhat, elem_of_le _ _ ht, zero_div]

/-- the chain in polyphase form (taps of branch `m % L` only), over the zero-padded length -/
theorem upfir_polyphase (L : ℕ) (hL : 0 < L) (h X : Array ℝ) (m : ℕ) :
    upfir L h X m =
      ∑ s ∈ range (paddedLen h.size L / L),
        if s ≤ m / L then (L : ℝ) * hhat h (m % L + s * L) * elem X (m / L - s) else 0 := by
  unfold upfir
  rw [← fir_extend h.size (paddedLen h.size L) (paddedLen_spec _ _ hL).1 _ _
        (fun t ht => by rw [hhat_of_le h t ht, mul_zero]),
      ← paddedLen_div_mul h.size L hL, fir_up L hL, paddedLen_div_mul h.size L hL]

theorem sub_pos (h : Array ℝ) (L : ℕ) (hL : 0 < L) (hh : 0 < h.size) : 0 < paddedLen h.size L / L := by
  have h1 := paddedLen_div_mul h.size L hL
  have h2 := (paddedLen_spec h.size L hL).1
  apply Nat.pos_of_ne_zero
  intro h0
  rw [h0, Nat.zero_mul] at h1
  omega

/-! ## T08.2 — FIRInterpolator -/

/-- the interpolator object after it has consumed the samples `past` -/
noncomputable def interpAt (L : ℕ) (h past : Array ℝ) : Interp ℝ :=
  { L := L, sub := paddedLen h.size L / L, h := polyphase h L (L : ℝ) true,
    d := hist (paddedLen h.size L / L - 1) past }

theorem interp_init (L : ℕ) (hL : 0 < L) (h : Array ℝ) : Interp.init L h = interpAt L h #[] := by
  unfold Interp.init interpAt
  simp only [fn_ofNat]
  rw [polyphase_row h L (L : ℝ) true 0 hL, size_tab, hist_empty]

/-- **T08.2 (interp_eq).**  Every call of `FIRInterpolator(L, h)::process`, after any history `past`, returns
`|x|·L` samples: exactly the next samples of the textbook chain (zero-stuff by `L`, filter with `h` normalised to
DC gain `L`) — phase 0, no decimation — and leaves the object in the state "has consumed `past ++ x`". -/
theorem interp_eq (L : ℕ) (hL : 0 < L) (h : Array ℝ) (hh : 0 < h.size) (_hs : hsum h ≠ 0) (past x : Array ℝ) :
    (interpAt L h past).process x =
      (interpAt L h (past ++ x), tab (x.size * L) fun o => upfir L h (past ++ x) (past.size * L + o)) := by
  have hsub : 0 < paddedLen h.size L / L := sub_pos h L hL hh
  unfold Interp.process
  simp only [interpAt]
  refine Prod.ext ?_ ?_
  · simp only [hist_step]
  · simp only []
    apply tab_congr
    intro o _
    rw [accN_eq, zero_real, zero_add, upfir_polyphase L hL,
      polyphase_row h L (L : ℝ) true (o % L) (Nat.mod_lt _ hL)]
    have e1 : (past.size * L + o) / L = past.size + o / L := by
      rw [Nat.add_comm, Nat.add_mul_div_right _ _ hL, Nat.add_comm]
    have e2 : (past.size * L + o) % L = o % L := by
      rw [Nat.add_comm, Nat.add_mul_mod_self_right]
    rw [e1, e2, ← Finset.sum_range_reflect]
    apply Finset.sum_congr rfl
    intro j hj
    have hj' : j < paddedLen h.size L / L := Finset.mem_range.mp hj
    have e3 : paddedLen h.size L / L - 1 - (paddedLen h.size L / L - 1 - j) = j := by omega
    rw [elem_tab, if_pos (by omega), elem_hist_append, if_pos rfl, e3]
    by_cases hc : j ≤ past.size + o / L
    · rw [if_pos hc, if_neg (by omega)]
      have : past.size + (o / L + (paddedLen h.size L / L - 1 - j)) - (paddedLen h.size L / L - 1) = past.size + o / L - j := by omega
      rw [this]; ring
    · rw [if_neg hc, if_pos (by omega)]; ring

/-! ## T08.3 — FIRDecimator -/

theorem loopN_accN (f : ℕ → ℕ → ℝ) (n M : ℕ) (a : ℝ) :
    loopN (fun k acc => accN (f k) n acc) M a = a + ∑ k ∈ range M, ∑ j ∈ range n, f k j := by
  induction M with
  | zero => simp [loopN]
  | succ M ih =>
    have : loopN (fun k acc => accN (f k) n acc) (M + 1) a
        = accN (f M) n (loopN (fun k acc => accN (f k) n acc) M a) := rfl
    rw [this, ih, accN_eq, Finset.sum_range_succ]; ring

/-- the zero-padded, normalised filter read backwards (`ĥᶠ`) -/
noncomputable def hflip (h : Array ℝ) (M : ℕ) (t : ℕ) : ℝ :=
  if t < paddedLen h.size M then hhat h (paddedLen h.size M - 1 - t) else 0

/-- the decimator object after it has consumed the samples `past` -/
noncomputable def decimAt (M : ℕ) (h past : Array ℝ) : Decim ℝ :=
  { M := M, sub := paddedLen h.size M / M, h := polyphase h M 1 false,
    d := hist (M * (paddedLen h.size M / M - 1)) past }

theorem decim_init (M : ℕ) (hM : 0 < M) (h : Array ℝ) : Decim.init M h = decimAt M h #[] := by
  unfold Decim.init decimAt
  simp only [fn_ofNat, Nat.cast_one]
  rw [polyphase_row h M 1 false 0 hM, size_tab, hist_empty]

/-- **T08.3 (decim_eq).**  Every call of `FIRDecimator(M, h)::process` on a frame whose length is a multiple of
`M`, after any history `past`, returns `|x|/M` samples: the samples `|past| + i·M + (M-1)`, i.e. at phase `M-1`, of "filter with `ĥᶠ`, keep every `M`-th sample", `ĥᶠ` the zero-padded filter normalised to
DC gain 1 and read backwards (for a linear-phase `h`: `ĥ` delayed by the padding, `hflip_symmetric`). -/
theorem decim_eq (M : ℕ) (hM : 0 < M) (h : Array ℝ) (hh : 0 < h.size) (_hs : hsum h ≠ 0)
    (past x : Array ℝ) (hx : x.size % M = 0) :
    (decimAt M h past).process x =
      .ok (decimAt M h (past ++ x),
        tab (x.size / M) fun i =>
          fir (paddedLen h.size M) (hflip h M) (elem (past ++ x)) (past.size + i * M + (M - 1))) := by
  have hsub : 0 < paddedLen h.size M / M := sub_pos h M hM hh
  have hnh := paddedLen_div_mul h.size M hM
  unfold Decim.process
  simp only [decimAt, hx, ne_eq, not_true_eq_false, ↓reduceIte]
  congr 1
  refine Prod.ext ?_ ?_
  · simp only [hist_step]
  · simp only []
    apply tab_congr
    intro i _
    generalize hS : paddedLen h.size M / M = S at *
    generalize hN : paddedLen h.size M = nh at *
    have hnd : M * (S - 1) + M = nh := by
      rw [← hnh, Nat.mul_sub, Nat.mul_one, Nat.mul_comm S M]
      have : M ≤ M * S := Nat.le_mul_of_pos_right M hsub
      omega
    generalize hD : M * (S - 1) = nd at *
    rw [loopN_accN, zero_real, zero_add, Finset.sum_comm]
    obtain ⟨F, hF⟩ : ∃ F : ℕ → ℝ, F = fun t =>
        (if past.size + (i * M + t) < nd then 0 else elem (past ++ x) (past.size + (i * M + t) - nd)) * hhat h t :=
      ⟨_, rfl⟩
    have step1 : ∀ j ∈ range S, ∀ k ∈ range M,
        elem (hist nd past ++ x) (i * M + k + j * M) * elem (row (polyphase h M 1 false) k) j = F (j * M + k) := by
      intro j hj k hk
      rw [hF]
      have hj' := Finset.mem_range.mp hj
      have hk' := Finset.mem_range.mp hk
      rw [polyphase_row h M 1 false k hk', hN, hS, elem_tab, if_pos hj', elem_hist_append]
      simp only [Bool.false_eq_true, if_false, mul_one]
      have e1 : i * M + k + j * M = i * M + (j * M + k) := by omega
      have e2 : k + j * M = j * M + k := by omega
      rw [e1, e2]
    rw [Finset.sum_congr rfl (fun j hj => Finset.sum_congr rfl (fun k hk => step1 j hj k hk)),
      ← sum_range_mul' S M F, hnh, hF]
    unfold fir
    rw [← Finset.sum_range_reflect]
    apply Finset.sum_congr rfl
    intro t ht
    have ht' := Finset.mem_range.mp ht
    unfold hflip
    rw [hN, if_pos ht']
    by_cases hc : t ≤ past.size + i * M + (M - 1)
    · rw [if_pos hc, if_neg (by omega)]
      have : past.size + (i * M + (nh - 1 - t)) - nd = past.size + i * M + (M - 1) - t := by omega
      rw [this]; ring
    · rw [if_neg hc, if_pos (by omega)]; ring

/-! ## T08.4 — the branch schedule of FIRRateConverter -/

/-- output phase `r` of a rate converter reads the interpolated stream at position `(r+1)M-1`:
branch `((r+1)M-1) % L`, input offset `((r+1)M-1) / L` -/
def phasePair (L M r : ℕ) : ℕ × ℕ := (((r + 1) * M - 1) % L, ((r + 1) * M - 1) / L)

/-- state of the constructor's double loop after `t` executions of its body -/
def schedState (L M t : ℕ) : ℕ × List (ℕ × ℕ) := (t % M, (List.range (t / M)).map (phasePair L M))

theorem succ_div_mod (t M : ℕ) (hM : 0 < M) :
    (t % M + 1 = M → (t + 1) % M = 0 ∧ (t + 1) / M = t / M + 1 ∧ (t / M + 1) * M - 1 = t) ∧
    (t % M + 1 ≠ M → (t + 1) % M = t % M + 1 ∧ (t + 1) / M = t / M) := by
  have h1 := Nat.div_add_mod t M
  have h2 := Nat.mod_lt t hM
  constructor
  · intro h
    have e : t + 1 = M * (t / M + 1) := by rw [Nat.mul_add, Nat.mul_one]; omega
    refine ⟨?_, ?_, ?_⟩
    · rw [e, Nat.mul_mod_right]
    · rw [e, Nat.mul_div_cancel_left _ hM]
    · rw [Nat.mul_comm, ← e]; omega
  · intro h
    have hlt : t % M + 1 < M := by omega
    have e : t + 1 = M * (t / M) + (t % M + 1) := by omega
    constructor
    · rw [e, Nat.mul_add_mod, Nat.mod_eq_of_lt hlt]
    · rw [e, Nat.mul_add_div hM, Nat.div_eq_of_lt hlt, Nat.add_zero]

theorem schedStep_state (L M : ℕ) (hL : 0 < L) (hM : 0 < M) (i k : ℕ) (hk : k < L) :
    schedStep M k i (schedState L M (i * L + k)) = schedState L M (i * L + k + 1) := by
  obtain ⟨ha, hb⟩ := succ_div_mod (i * L + k) M hM
  unfold schedStep schedState
  simp only []
  split_ifs with h
  · obtain ⟨e1, e2, e3⟩ := ha h
    rw [e1, e2, List.range_succ, List.map_append, List.map_singleton]
    congr 2
    unfold phasePair
    rw [e3, Nat.add_comm (i * L) k, Nat.add_mul_mod_self_right, Nat.mod_eq_of_lt hk,
      Nat.add_mul_div_right _ _ hL, Nat.div_eq_of_lt hk, Nat.zero_add]
  · obtain ⟨e1, e2⟩ := hb h
    rw [e1, e2]

theorem sched_inner (L M : ℕ) (hL : 0 < L) (hM : 0 < M) (i k : ℕ) (hk : k ≤ L) :
    loopN (fun k s => schedStep M k i s) k (schedState L M (i * L)) = schedState L M (i * L + k) := by
  induction k with
  | zero => rfl
  | succ k ih =>
    have : loopN (fun k s => schedStep M k i s) (k + 1) (schedState L M (i * L))
        = schedStep M k i (loopN (fun k s => schedStep M k i s) k (schedState L M (i * L))) := rfl
    rw [this, ih (by omega), schedStep_state L M hL hM i k (by omega)]
    rfl

theorem sched_outer (L M : ℕ) (hL : 0 < L) (hM : 0 < M) (i : ℕ) :
    loopN (fun i s => loopN (fun k s => schedStep M k i s) L s) i (schedState L M 0) = schedState L M (i * L) := by
  induction i with
  | zero => simp [loopN]
  | succ i ih =>
    have : loopN (fun i s => loopN (fun k s => schedStep M k i s) L s) (i + 1) (schedState L M 0)
        = loopN (fun k s => schedStep M k i s) L
            (loopN (fun i s => loopN (fun k s => schedStep M k i s) L s) i (schedState L M 0)) := rfl
    rw [this, ih, sched_inner L M hL hM i L (le_refl _), Nat.succ_mul]

/-- **T08.4 (rateconv_schedule).**  The constructor's double loop pushes, for the output phases `r = 0 … L-1` in
this order, branch `k_r = ((r+1)M-1) mod L` and input offset `i_r = ((r+1)M-1) / L` — for every `L, M ≥ 1`. -/
theorem rateconv_schedule (L M : ℕ) (hL : 0 < L) (hM : 0 < M) :
    schedule L M = (List.range L).map (phasePair L M) := by
  unfold schedule
  have h0 : ((0 : ℕ), ([] : List (ℕ × ℕ))) = schedState L M 0 := by simp [schedState]
  rw [h0, sched_outer L M hL hM M, schedState, Nat.mul_comm, Nat.mul_div_cancel _ hM]

/-- every offset of the schedule is below `M` (so `uint16_t xidxs_` holds it for `M ≤ 65536`, and the
reads of `process` stay inside the buffer: `rateconv_in_bounds`) -/
theorem phasePair_lt (L M r : ℕ) (hL : 0 < L) (hM : 0 < M) (hr : r < L) :
    (phasePair L M r).1 < L ∧ (phasePair L M r).2 < M := by
  refine ⟨Nat.mod_lt _ hL, ?_⟩
  unfold phasePair
  simp only []
  apply Nat.div_lt_of_lt_mul
  have : (r + 1) * M ≤ L * M := Nat.mul_le_mul_right M hr
  have : 0 < (r + 1) * M := Nat.mul_pos (by omega) hM
  omega

example : schedule 3 5 = [(1, 1), (0, 3), (2, 4)] := by decide

/-! ## T08.5 — FIRRateConverter -/

/-- one output of the flipped polyphase branch `k` on the work buffer at offset `c` = the polyphase form of the chain -/
theorem branch_sum (L : ℕ) (hL : 0 < L) (h : Array ℝ) (hh : 0 < h.size) (past x : Array ℝ) (c k : ℕ) (hk : k < L) :
    ∑ j ∈ range (paddedLen h.size L / L),
        elem (hist (paddedLen h.size L / L - 1) past ++ x) (c + j) * elem (row (polyphase h L (L : ℝ) true) k) j =
      ∑ s ∈ range (paddedLen h.size L / L),
        if s ≤ past.size + c then (L : ℝ) * hhat h (k + s * L) * elem (past ++ x) (past.size + c - s) else 0 := by
  have hsub : 0 < paddedLen h.size L / L := sub_pos h L hL hh
  rw [polyphase_row h L (L : ℝ) true k hk, ← Finset.sum_range_reflect]
  apply Finset.sum_congr rfl
  intro j hj
  have hj' : j < paddedLen h.size L / L := Finset.mem_range.mp hj
  have e3 : paddedLen h.size L / L - 1 - (paddedLen h.size L / L - 1 - j) = j := by omega
  rw [elem_tab, if_pos (by omega), elem_hist_append, if_pos rfl, e3]
  by_cases hc : j ≤ past.size + c
  · rw [if_pos hc, if_neg (by omega)]
    have : past.size + (c + (paddedLen h.size L / L - 1 - j)) - (paddedLen h.size L / L - 1) = past.size + c - j := by omega
    rw [this]; ring
  · rw [if_neg hc, if_pos (by omega)]; ring

/-- the rate converter object after it has consumed the samples `past` -/
noncomputable def rateAt (L M : ℕ) (h past : Array ℝ) : RateConv ℝ :=
  { L := L, M := M, sub := paddedLen h.size L / L,
    h := ((schedule L M).map fun p => row (polyphase h L (L : ℝ) true) p.1).toArray,
    xi := ((schedule L M).map fun p => p.2).toArray,
    d := hist (paddedLen h.size L / L - 1) past }

theorem rateconv_init (L M : ℕ) (hL : 0 < L) (h : Array ℝ) : RateConv.init L M h = rateAt L M h #[] := by
  unfold RateConv.init rateAt
  simp only [fn_ofNat]
  rw [polyphase_row h L (L : ℝ) true 0 hL, size_tab, hist_empty]

theorem rateAt_row (L M : ℕ) (hL : 0 < L) (hM : 0 < M) (h past : Array ℝ) (r : ℕ) (hr : r < L) :
    row (rateAt L M h past).h r = row (polyphase h L (L : ℝ) true) (phasePair L M r).1 := by
  unfold rateAt row
  simp only [rateconv_schedule L M hL hM, List.map_map]
  simp [hr]

theorem rateAt_xi (L M : ℕ) (hL : 0 < L) (hM : 0 < M) (h past : Array ℝ) (r : ℕ) (hr : r < L) :
    (rateAt L M h past).xi.getD r 0 = (phasePair L M r).2 := by
  unfold rateAt
  simp only [rateconv_schedule L M hL hM, List.map_map]
  simp [hr]

/-- position `(O+1)M-1` of the interpolated stream, `O = (|past|/M)·L + i·L + r`, in branch / offset form -/
theorem phase_position (L M : ℕ) (hL : 0 < L) (P i r : ℕ) (hP : P % M = 0) :
    ((P / M * L + (i * L + r) + 1) * M - 1) / L = P + (i * M + (phasePair L M r).2) ∧
    ((P / M * L + (i * L + r) + 1) * M - 1) % L = (phasePair L M r).1 := by
  have hPM : P / M * M = P := Nat.div_mul_cancel (Nat.dvd_of_mod_eq_zero hP)
  unfold phasePair
  simp only []
  by_cases hM : M = 0
  · subst hM
    simp at hPM ⊢
    omega
  have hq := Nat.div_add_mod' ((r + 1) * M - 1) L
  have hpos : 0 < (r + 1) * M := Nat.mul_pos (by omega) (by omega)
  have A : (P / M * L + (i * L + r) + 1) * M = (P / M * M) * L + (i * M) * L + (r + 1) * M := by ring
  have B : (P / M * L + (i * L + r) + 1) * M - 1 =
      ((r + 1) * M - 1) % L + (P + (i * M + ((r + 1) * M - 1) / L)) * L := by
    have C : (P + (i * M + ((r + 1) * M - 1) / L)) * L = P * L + i * M * L + ((r + 1) * M - 1) / L * L := by ring
    rw [A, hPM, C]
    omega
  have hlt : ((r + 1) * M - 1) % L < L := Nat.mod_lt _ hL
  constructor
  · rw [B, Nat.add_mul_div_right _ _ hL, Nat.div_eq_of_lt hlt, Nat.zero_add]
  · rw [B, Nat.add_mul_mod_self_right, Nat.mod_eq_of_lt hlt]

/-- **T08.5 (rateconv_eq).**  Every call of `FIRRateConverter(L, M, h)::process` on a frame whose length is a
multiple of `M`, after any history `past` of accepted frames, returns `|x|/M·L` samples: output number `O`
(counted from construction) is sample `(O+1)·M - 1` of the textbook chain "insert `L-1` zeros, filter with `h`
normalised to DC gain `L`" — i.e. "keep every `M`-th sample" at the fixed phase `M-1`.  Exact, every `L, M ≥ 1`
(reduced or not), every `h`, every input. -/
theorem rateconv_eq (L M : ℕ) (hL : 0 < L) (hM : 0 < M) (h : Array ℝ) (hh : 0 < h.size) (_hs : hsum h ≠ 0)
    (past x : Array ℝ) (hP : past.size % M = 0) (hx : x.size % M = 0) :
    (rateAt L M h past).process x =
      .ok (rateAt L M h (past ++ x),
        tab (x.size / M * L) fun o => upfir L h (past ++ x) ((past.size / M * L + o + 1) * M - 1)) := by
  unfold RateConv.process
  have hM' : (rateAt L M h past).M = M := rfl
  have hL' : (rateAt L M h past).L = L := rfl
  have hS' : (rateAt L M h past).sub = paddedLen h.size L / L := rfl
  have hd' : (rateAt L M h past).d = hist (paddedLen h.size L / L - 1) past := rfl
  simp only [hM', hL', hS', hd', hx, ne_eq, not_true_eq_false, ↓reduceIte]
  congr 1
  refine Prod.ext ?_ ?_
  · simp only [hist_step]; rfl
  · simp only []
    apply tab_congr
    intro o _
    have ho := Nat.div_add_mod' o L
    have hr : o % L < L := Nat.mod_lt _ hL
    rw [accN_eq, zero_real, zero_add, upfir_polyphase L hL, rateAt_row L M hL hM h past _ hr,
      rateAt_xi L M hL hM h past _ hr]
    generalize o / L = i at *
    generalize o % L = r at *
    subst ho
    obtain ⟨e1, e2⟩ := phase_position L M hL past.size i r hP
    rw [e1, e2]
    have := branch_sum L hL h hh past x (i * M + (phasePair L M r).2) (phasePair L M r).1
      (phasePair_lt L M r hL hM hr).1
    simp only [Nat.add_assoc] at this ⊢
    exact this

/-! ## T08.6 — lengths per call, rejected frames (every state of the objects, not only reachable ones) -/

theorem div_mul_eq (n M L : ℕ) (h : n % M = 0) : n / M * L = n * L / M := by
  obtain ⟨c, hc⟩ := Nat.dvd_of_mod_eq_zero h
  rcases Nat.eq_zero_or_pos M with h0 | h0
  · subst h0; simp
  · rw [hc, Nat.mul_div_cancel_left _ h0, Nat.mul_assoc, Nat.mul_div_cancel_left _ h0]

/-- `FIRInterpolator::process` returns `|x|·L` samples -/
theorem interp_len (s : Interp ℝ) (x : Array ℝ) : (s.process x).2.size = x.size * s.L := by
  simp [Interp.process, size_tab]

/-- `FIRDecimator::process` rejects every frame whose length is not a multiple of `M` … -/
theorem decim_reject (s : Decim ℝ) (x : Array ℝ) (hx : x.size % s.M ≠ 0) : ∃ e, s.process x = .error e := by
  unfold Decim.process; rw [if_pos hx]; exact ⟨_, rfl⟩

/-- … and returns `|x|/M` samples for the others -/
theorem decim_len (s : Decim ℝ) (x : Array ℝ) (hx : x.size % s.M = 0) :
    ∃ s' y, s.process x = .ok (s', y) ∧ y.size = x.size / s.M ∧ s'.M = s.M := by
  unfold Decim.process
  rw [if_neg (by simpa using hx)]
  exact ⟨_, _, rfl, size_tab _ _, rfl⟩

/-- `FIRRateConverter::process` rejects every frame whose length is not a multiple of `M` … -/
theorem rateconv_reject (s : RateConv ℝ) (x : Array ℝ) (hx : x.size % s.M ≠ 0) : ∃ e, s.process x = .error e := by
  unfold RateConv.process; rw [if_pos hx]; exact ⟨_, rfl⟩

/-- … and returns `|x|/M·L = |x|·L/M` samples for the others -/
theorem rateconv_len (s : RateConv ℝ) (x : Array ℝ) (hx : x.size % s.M = 0) :
    ∃ s' y, s.process x = .ok (s', y) ∧ y.size = x.size / s.M * s.L ∧ y.size = x.size * s.L / s.M ∧
      s'.M = s.M ∧ s'.L = s.L := by
  unfold RateConv.process
  rw [if_neg (by simpa using hx)]
  refine ⟨_, _, rfl, size_tab _ _, ?_, rfl, rfl⟩
  rw [size_tab]
  exact div_mul_eq x.size s.M s.L hx

/-! ## FIRResampler: which converter a reduced ratio selects -/

theorem simplify_coprime (p q : ℕ) (hc : Nat.Coprime p q) : simplify p q = (p, q) := by
  unfold simplify
  rw [Nat.Coprime.gcd_eq_one hc, Nat.div_one, Nat.div_one]

/-- the three `if`s of the `FIRResampler` constructor are exhaustive on reduced ratios `p ≠ q` -/
theorem rs_init_cases (p q : ℕ) (hp : 0 < p) (hq : 0 < q) (hc : Nat.Coprime p q) (hne : p ≠ q) (h : Array ℝ) :
    (p = 1 ∧ 1 < q ∧ Rs.init p q h = .dec (Decim.init q h)) ∨
    (q = 1 ∧ 1 < p ∧ Rs.init p q h = .int (Interp.init p h)) ∨
    (1 < p ∧ 1 < q ∧ Rs.init p q h = .rc (RateConv.init p q h)) := by
  unfold Rs.init
  rw [simplify_coprime p q hc]
  simp only [hne, if_false]
  by_cases h1 : q > 1 ∧ p = 1
  · left; rw [if_pos h1]; exact ⟨h1.2, h1.1, rfl⟩
  · rw [if_neg h1]
    by_cases h2 : q = 1 ∧ p > 1
    · right; left; rw [if_pos h2]; exact ⟨h2.1, h2.2, rfl⟩
    · right; right; rw [if_neg h2]
      refine ⟨?_, ?_, rfl⟩ <;> omega

/-- a frame whose length is a multiple of `q` is accepted by `FIRResampler(p, q, h)` and gives `|x|/q·p` samples -/
theorem rs_process_len (p q : ℕ) (hp : 0 < p) (hq : 0 < q) (hc : Nat.Coprime p q) (hne : p ≠ q) (h x : Array ℝ)
    (hx : x.size % q = 0) :
    ∃ s' y, (Rs.init p q h).process x = .ok (s', y) ∧ y.size = x.size / q * p := by
  rcases rs_init_cases p q hp hq hc hne h with ⟨h1, _, e⟩ | ⟨h1, _, e⟩ | ⟨_, _, e⟩
  · rw [e]
    obtain ⟨s', y, hy, hs, _⟩ := decim_len (Decim.init q h) x hx
    refine ⟨.dec s', y, ?_, ?_⟩
    · simp only [Rs.process, hy]; rfl
    · rw [hs, h1, Nat.mul_one]; rfl
  · rw [e]
    refine ⟨.int ((Interp.init p h).process x).1, ((Interp.init p h).process x).2, rfl, ?_⟩
    rw [interp_len, h1, Nat.div_one]; rfl
  · rw [e]
    obtain ⟨s', y, hy, hs, _⟩ := rateconv_len (RateConv.init p q h) x hx
    refine ⟨.rc s', y, ?_, ?_⟩
    · simp only [Rs.process, hy]; rfl
    · rw [hs]; rfl

/-! ## T08.7 / T08.8 — `resample(x, p, q, h)`: output length, enough padding, identity -/

theorem ceil_mul_ge (n p : ℕ) (hp : 0 < p) : n ≤ (n + p - 1) / p * p := by
  have h1 := Nat.div_add_mod (n + p - 1) p
  have h2 := Nat.mod_lt (n + p - 1) hp
  rw [Nat.mul_comm]; omega

/-- **the padded input is long enough** (the inequality whose failure was the "Right slice index out of range"
defect): with `mdl = ⌈dl·q/p⌉` extra input samples, `process` yields at least `dl + ny` outputs — for EVERY
value `dl` of `delay()`. -/
theorem resample_room (len p q dl : ℕ) (hp : 0 < p) (hq : 0 < q) :
    dl + paddedLen len q / q * p ≤ paddedLen (paddedLen len q + (dl * q + p - 1) / p) q / q * p := by
  have ha := paddedLen_div_mul len q hq
  have hc := paddedLen_div_mul (paddedLen len q + (dl * q + p - 1) / p) q hq
  have h1 := (paddedLen_spec (paddedLen len q + (dl * q + p - 1) / p) q hq).1
  have h2 := ceil_mul_ge (dl * q) p hp
  generalize paddedLen (paddedLen len q + (dl * q + p - 1) / p) q / q = c at *
  generalize (dl * q + p - 1) / p = mdl at *
  generalize paddedLen len q / q = a at *
  rw [← hc, ← ha] at h1
  have h3 : q * (dl + a * p) ≤ q * (c * p) := by
    calc q * (dl + a * p) = dl * q + (a * q) * p := by ring
      _ ≤ mdl * p + (a * q) * p := by omega
      _ = (a * q + mdl) * p := by ring
      _ ≤ (c * q) * p := Nat.mul_le_mul_right p h1
      _ = q * (c * p) := by ring
  exact Nat.le_of_mul_le_mul_left h3 hq

theorem simplify_spec (p q : ℕ) (hp : 0 < p) (hq : 0 < q) :
    0 < (simplify p q).1 ∧ 0 < (simplify p q).2 ∧ Nat.Coprime (simplify p q).1 (simplify p q).2 := by
  unfold simplify
  have hg : 0 < Nat.gcd p q := Nat.gcd_pos_of_pos_left q hp
  refine ⟨Nat.div_pos (Nat.le_of_dvd hp (Nat.gcd_dvd_left p q)) hg,
    Nat.div_pos (Nat.le_of_dvd hq (Nat.gcd_dvd_right p q)) hg, Nat.coprime_div_gcd_div_gcd hg⟩

theorem resample_len_reduced (x h : Array ℝ) (p q : ℕ) (hp : 0 < p) (hq : 0 < q) (hc : Nat.Coprime p q) :
    ∃ y, resample x p q h = .ok y ∧ y.size = p * ((x.size + q - 1) / q) := by
  unfold resample
  rw [simplify_coprime p q hc]
  simp only []
  by_cases hpq : p = q
  · rw [if_pos hpq]
    refine ⟨x, rfl, ?_⟩
    have : p = 1 := by
      have := hc; rw [← hpq] at this; exact (Nat.coprime_self p).mp this
    subst hpq; subst this; simp
  rw [if_neg hpq]
  by_cases hx0 : x.size = 0
  · rw [if_pos hx0]
    refine ⟨x, rfl, ?_⟩
    rw [hx0, Nat.zero_add, Nat.div_eq_of_lt (by omega), Nat.mul_zero]
  rw [if_neg hx0]
  unfold resampleSizes nextSize
  rw [simplify_coprime p q hc]
  simp only []
  generalize hdl : (Rs.init p q h).delay = dl
  have hroom := resample_room x.size p q dl hp hq
  obtain ⟨mdl, hmdl⟩ : ∃ mdl, mdl = (dl * q + p - 1) / p := ⟨_, rfl⟩
  rw [← hmdl] at hroom ⊢
  obtain ⟨hnx1, _, _⟩ := paddedLen_spec x.size q hq
  obtain ⟨hnn1, _, hnn3⟩ := paddedLen_spec (paddedLen x.size q + mdl) q hq
  obtain ⟨nn, hnn⟩ : ∃ nn, nn = paddedLen (paddedLen x.size q + mdl) q := ⟨_, rfl⟩
  rw [← hnn] at hroom hnn1 hnn3 ⊢
  have hle : ¬ (x.size > nn) := by omega
  rw [if_neg hle]
  have hxx : (x ++ (zeros (nn - x.size) : Array ℝ)).size = nn := by
    rw [Array.size_append]; unfold zeros; rw [size_tab]; omega
  obtain ⟨s', y, hy, hs⟩ := rs_process_len p q hp hq hc hpq h (x ++ zeros (nn - x.size)) (by rw [hxx]; exact hnn3)
  rw [hy]
  simp only []
  rw [hxx] at hs
  -- the slice guards
  have hny : 0 < paddedLen x.size q / q * p := by
    have := paddedLen_div_mul x.size q hq
    have h1 : 0 < paddedLen x.size q / q := by
      apply Nat.pos_of_ne_zero; intro h0; rw [h0, Nat.zero_mul] at this; omega
    exact Nat.mul_pos h1 hp
  unfold sliceOf
  rw [if_neg (by omega), if_neg (by omega), if_neg (by omega)]
  refine ⟨_, rfl, ?_⟩
  have e : p * ((x.size + q - 1) / q) = paddedLen x.size q / q * p := by
    rw [paddedLen_eq_ceil x.size q hq, Nat.mul_div_cancel_left _ hq, Nat.mul_comm]
  rw [Array.size_extract, e]
  omega

/-- **T08.7 (resample_len).**  For every `p, q ≥ 1` (reduced or not), every coefficient vector and EVERY input
(every length, the empty signal included) `resample(x, p, q, h)` does not throw and returns `p'·⌈len/q'⌉`
samples, `p'/q'` the reduced ratio.  (`int` is unbounded here: see `resample_no_overflow`.) -/
theorem resample_len (x h : Array ℝ) (p q : ℕ) (hp : 0 < p) (hq : 0 < q) :
    ∃ y, resample x p q h = .ok y ∧
      y.size = (simplify p q).1 * ((x.size + (simplify p q).2 - 1) / (simplify p q).2) := by
  obtain ⟨h1, h2, h3⟩ := simplify_spec p q hp hq
  have := resample_len_reduced x h (simplify p q).1 (simplify p q).2 h1 h2 h3
  have e : resample x p q h = resample x (simplify p q).1 (simplify p q).2 h := by
    unfold resample
    rw [simplify_coprime _ _ h3]
  rw [e]; exact this

/-- **T08.8 (resample_id).**  `resample(x, p, q, h)` returns `x` itself when `p = q`. -/
theorem resample_id (x h : Array ℝ) (p : ℕ) (hp : 0 < p) : resample x p p h = .ok x := by
  unfold resample simplify
  rw [Nat.gcd_self, Nat.div_self hp]
  simp

/-! ## linear-phase coefficient vectors: the decimator's flipped filter is the filter itself, delayed by the padding -/

theorem hflip_symmetric (h : Array ℝ) (M : ℕ) (hM : 0 < M)
    (hsym : ∀ t, t < h.size → elem h t = elem h (h.size - 1 - t)) (t : ℕ) :
    hflip h M t = if paddedLen h.size M - h.size ≤ t then hhat h (t - (paddedLen h.size M - h.size)) else 0 := by
  obtain ⟨h1, _, _⟩ := paddedLen_spec h.size M hM
  unfold hflip
  by_cases ht : t < paddedLen h.size M
  · rw [if_pos ht]
    by_cases hp : paddedLen h.size M - h.size ≤ t
    · rw [if_pos hp]
      unfold hhat
      rw [hsym _ (by omega)]
      congr 2; omega
    · rw [if_neg hp, hhat_of_le _ _ (by omega)]
  · rw [if_neg ht]
    split_ifs
    · rw [hhat_of_le _ _ (by omega)]
    · rfl

/-- a filter delayed by `pad` taps = the filter, read `pad` samples earlier -/
theorem fir_delay (nh n pad : ℕ) (hnh : nh = pad + n) (g u : ℕ → ℝ) (m : ℕ) (hm : pad ≤ m) :
    fir nh (fun t => if pad ≤ t then g (t - pad) else 0) u m = fir n g u (m - pad) := by
  subst hnh
  unfold fir
  rw [Finset.sum_range_add]
  have : (∑ x ∈ range pad, if x ≤ m then (if pad ≤ x then g (x - pad) else 0) * u (m - x) else 0) = 0 := by
    apply Finset.sum_eq_zero
    intro i hi
    have := Finset.mem_range.mp hi
    rw [if_neg (by omega : ¬ pad ≤ i)]
    split_ifs <;> simp
  rw [this, zero_add]
  apply Finset.sum_congr rfl
  intro s _
  dsimp only
  rw [if_pos (by omega : pad ≤ pad + s)]
  have e1 : pad + s - pad = s := by omega
  have e2 : m - (pad + s) = m - pad - s := by omega
  rw [e1, e2]
  by_cases hc : s ≤ m - pad
  · rw [if_pos hc, if_pos (by omega)]
  · rw [if_neg hc, if_neg (by omega)]

/-- **T08.3 for the property's linear-phase `h`.**  With a symmetric coefficient vector the decimator emits the
samples at the fixed phase `M-1-pad` (`pad = ` number of padding zeros `< M`) of "filter with `h` normalised to DC
gain 1, keep every `M`-th sample". -/
theorem decim_eq_linear_phase (M : ℕ) (hM : 0 < M) (h : Array ℝ) (hh : 0 < h.size) (hs : hsum h ≠ 0)
    (hsym : ∀ t, t < h.size → elem h t = elem h (h.size - 1 - t))
    (past x : Array ℝ) (hx : x.size % M = 0) :
    paddedLen h.size M - h.size < M ∧
    (decimAt M h past).process x =
      .ok (decimAt M h (past ++ x),
        tab (x.size / M) fun i =>
          fir h.size (hhat h) (elem (past ++ x)) (past.size + i * M + (M - 1 - (paddedLen h.size M - h.size)))) := by
  obtain ⟨h1, h2, _⟩ := paddedLen_spec h.size M hM
  refine ⟨by omega, ?_⟩
  rw [decim_eq M hM h hh hs past x hx]
  congr 2
  apply tab_congr
  intro i _
  have e : paddedLen h.size M = (paddedLen h.size M - h.size) + h.size := by omega
  have hf : hflip h M = fun t => if paddedLen h.size M - h.size ≤ t then hhat h (t - (paddedLen h.size M - h.size)) else 0 :=
    funext (hflip_symmetric h M hM hsym)
  rw [hf, fir_delay (paddedLen h.size M) h.size (paddedLen h.size M - h.size) e (hhat h) _ _ (by omega)]
  congr 1; omega

/-! ## memory safety of the three `process` loops: every read is inside the work buffer `d_ ++ in` -/

/-- interpolator: `px[i + j]`, `i = o / L < |x|`, `j < sublen`, buffer length `sublen - 1 + |x|` -/
theorem interp_in_bounds (L S nx o j : ℕ) (ho : o < nx * L) (hj : j < S) :
    o / L + j < (S - 1) + nx := by
  have : o / L < nx := Nat.div_lt_of_lt_mul (by rw [Nat.mul_comm]; exact ho)
  omega

/-- decimator: `px[k + j M]` with `px = x + i M`, buffer length `M (sublen - 1) + |x|` -/
theorem decim_in_bounds (M S nx i k j : ℕ) (hx : nx % M = 0) (hi : i < nx / M) (hk : k < M) (hj : j < S) :
    i * M + k + j * M < M * (S - 1) + nx := by
  have h1 : (i + 1) * M ≤ nx / M * M := Nat.mul_le_mul_right M hi
  have h2 : nx / M * M = nx := Nat.div_mul_cancel (Nat.dvd_of_mod_eq_zero hx)
  have h3 : j * M ≤ (S - 1) * M := Nat.mul_le_mul_right M (by omega)
  rw [Nat.add_mul] at h1
  rw [Nat.mul_comm M (S - 1)]
  omega

/-- rate converter: `x[i M + xidxs_[r] + j]`, `xidxs_[r] < M` (`phasePair_lt`), buffer length `sublen - 1 + |x|` -/
theorem rateconv_in_bounds (L M S nx o j : ℕ) (hL : 0 < L) (hM : 0 < M) (hx : nx % M = 0) (ho : o < nx / M * L) (hj : j < S) :
    o / L * M + (phasePair L M (o % L)).2 + j < (S - 1) + nx := by
  have hi : o / L < nx / M := Nat.div_lt_of_lt_mul (by rw [Nat.mul_comm]; exact ho)
  have h1 : (o / L + 1) * M ≤ nx / M * M := Nat.mul_le_mul_right M hi
  have h2 : nx / M * M = nx := Nat.div_mul_cancel (Nat.dvd_of_mod_eq_zero hx)
  have h3 := (phasePair_lt L M (o % L) hL hM (Nat.mod_lt _ hL)).2
  rw [Nat.add_mul] at h1
  omega

/-! ## delay() of the rate converter -/

/-- `FIRRateConverter::delay()` is the integer nearest to the group delay `c / M` in output samples,
`c = sublen·L/2 + 1 - M` the distance (in interpolated samples) between output 0 and the filter centre -/
theorem rateconv_delay_nearest (S L M : ℕ) (hM : 0 < M) (hc : M < S * L / 2 + 1) :
    2 * M * rateConvDelay S L M ≤ 2 * (S * L / 2 + 1 - M) + M ∧
    2 * (S * L / 2 + 1 - M) + M < 2 * M * (rateConvDelay S L M + 1) := by
  unfold rateConvDelay
  rw [if_neg (by omega)]
  have h1 := Nat.div_add_mod (2 * (S * L / 2 + 1 - M) + M) (2 * M)
  have h2 := Nat.mod_lt (2 * (S * L / 2 + 1 - M) + M) (by omega : 0 < 2 * M)
  constructor
  · omega
  · rw [Nat.mul_add, Nat.mul_one]; omega

theorem rateconv_delay_zero (S L M : ℕ) (hc : S * L / 2 + 1 ≤ M) : rateConvDelay S L M = 0 := by
  unfold rateConvDelay; rw [if_pos hc]

/-! ## 32-bit `int`: which intermediates of `resample` exist and how large they get -/

/-- Every `int` that `resample(x, p, q, h)` computes (after the fix `ny = nx / q * p`) is one of
`nx, ny, dl·q + p - 1, mdl, nx + mdl, nn, nn - len, dl + ny`, a length/index of the work buffer (`≤ nn + nd`), or
the length `nn/q·p` of the array `process` returns.  They are bounded by the three quantities below; so
`resample` is free of overflow iff `dl·q + p ≤ 2^31`, `nn + nd < 2^31` and `nn/q·p < 2^31`, which holds whenever
`len + mdl + 2q + nd < 2^31` and `((len + mdl)/q + 2)·p < 2^31` (`mdl ≤ dl·q/p + 1`, `nd` = state length). -/
theorem resample_no_overflow (len p q dl nx ny mdl nn : ℕ) (hp : 0 < p) (hq : 0 < q)
    (hnx : nx = paddedLen len q) (hny : ny = nx / q * p) (hmdl : mdl = (dl * q + p - 1) / p)
    (hnn : nn = paddedLen (nx + mdl) q) :
    len ≤ nx ∧ nx + mdl ≤ nn ∧ nn < len + mdl + 2 * q ∧ dl + ny ≤ nn / q * p ∧
      nn / q * p ≤ ((len + mdl) / q + 2) * p ∧ mdl ≤ dl * q / p + 1 := by
  subst hnx hny hmdl hnn
  obtain ⟨a1, a2, _⟩ := paddedLen_spec len q hq
  obtain ⟨b1, b2, _⟩ := paddedLen_spec (paddedLen len q + (dl * q + p - 1) / p) q hq
  refine ⟨a1, b1, by omega, resample_room len p q dl hp hq, ?_, ?_⟩
  · apply Nat.mul_le_mul_right
    apply Nat.le_of_lt_succ
    apply Nat.div_lt_of_lt_mul
    have h1 := Nat.div_add_mod (len + (dl * q + p - 1) / p) q
    have h2 := Nat.mod_lt (len + (dl * q + p - 1) / p) hq
    rw [Nat.succ_eq_add_one, Nat.mul_add, Nat.mul_add]
    omega
  · have h1 := Nat.div_add_mod (dl * q) p
    have h2 := Nat.mod_lt (dl * q) hp
    apply Nat.le_of_lt_succ
    apply Nat.div_lt_of_lt_mul
    rw [Nat.succ_eq_add_one, Nat.mul_add, Nat.mul_add]
    omega

/-! ## the first call after construction ("from rest") -/

/-- T08.2 for the first call: `FIRInterpolator(L, h).process(x)` from rest -/
theorem interp_eq_from_rest (L : ℕ) (hL : 0 < L) (h : Array ℝ) (hh : 0 < h.size) (hs : hsum h ≠ 0) (x : Array ℝ) :
    ((Interp.init L h).process x).2 = tab (x.size * L) fun o => upfir L h x o := by
  rw [interp_init L hL, interp_eq L hL h hh hs #[] x]
  simp

/-- T08.3 for the first call -/
theorem decim_eq_from_rest (M : ℕ) (hM : 0 < M) (h : Array ℝ) (hh : 0 < h.size) (hs : hsum h ≠ 0)
    (x : Array ℝ) (hx : x.size % M = 0) :
    ∃ s', (Decim.init M h).process x =
      .ok (s', tab (x.size / M) fun i => fir (paddedLen h.size M) (hflip h M) (elem x) (i * M + (M - 1))) := by
  rw [decim_init M hM, decim_eq M hM h hh hs #[] x hx]
  refine ⟨decimAt M h (#[] ++ x), ?_⟩
  simp

/-- **T08.5 for the first call**: `FIRRateConverter(L, M, h).process(x)` from rest is
`y[o] = L·(ĥ ⋆ up_L x)((o+1)M - 1)` -/
theorem rateconv_eq_from_rest (L M : ℕ) (hL : 0 < L) (hM : 0 < M) (h : Array ℝ) (hh : 0 < h.size) (hs : hsum h ≠ 0)
    (x : Array ℝ) (hx : x.size % M = 0) :
    ∃ s', (RateConv.init L M h).process x =
      .ok (s', tab (x.size / M * L) fun o => upfir L h x ((o + 1) * M - 1)) := by
  rw [rateconv_init L M hL, rateconv_eq L M hL hM h hh hs #[] x (by simp) hx]
  refine ⟨rateAt L M h (#[] ++ x), ?_⟩
  simp

/-! ## non-vacuity: the hypotheses hold at concrete non-trivial points, and the chain is not trivially zero -/

example : hsum #[1, 2, 1] ≠ 0 := by
  simp [hsum, Finset.sum_range_succ, elem_def]; norm_num

/-- `L = 2`, `h = [1,2,1]` (DC gain 4, normalised to 2), impulse in: the chain's first samples are `½, 1, ½, 0` -/
example : upfir 2 #[1, 2, 1] #[1, 0] 0 = 1 / 2 ∧ upfir 2 #[1, 2, 1] #[1, 0] 1 = 1 ∧
    upfir 2 #[1, 2, 1] #[1, 0] 2 = 1 / 2 ∧ upfir 2 #[1, 2, 1] #[1, 0] 3 = 0 := by
  refine ⟨?_, ?_, ?_, ?_⟩ <;>
    simp [upfir, fir, Finset.sum_range_succ, up, hhat, hsum, elem_def] <;> norm_num

/-- the rate converter 2/3 on a frame of 3 samples is accepted and returns 2 samples … -/
example : ∃ s', (RateConv.init 2 3 #[(1 : ℝ), 2, 1]).process #[1, 0, 0] =
    .ok (s', tab 2 fun o => upfir 2 #[1, 2, 1] #[1, 0, 0] ((o + 1) * 3 - 1)) := by
  have h := rateconv_eq_from_rest 2 3 (by norm_num) (by norm_num) #[1, 2, 1] (by simp)
    (by simp [hsum, Finset.sum_range_succ, elem_def]; norm_num) #[1, 0, 0] (by simp)
  simpa using h

/-- … a frame of 4 samples is rejected -/
example : ∃ e, (RateConv.init 2 3 #[(1 : ℝ), 2, 1]).process #[1, 0, 0, 0] = .error e :=
  rateconv_reject _ _ (by simp [RateConv.init])

example : paddedLen 7 3 = 9 ∧ paddedLen 9 3 = 9 ∧ simplify 441 160 = (441, 160) ∧ simplify 48000 44100 = (160, 147) := by
  decide

/-- the old defect ratio 5/2 with a delay of 7 outputs: 3 extra input samples (rounded up), 12 + 4 = 16 inputs,
40 outputs ≥ 7 + 30 -/
example : resampleSizes 11 5 2 7 = (12, 30, 3, 16) := by decide

/-! ## FIRResampler -/

/-- **FIRResampler(p, q, h)** (reduced ratio `p ≠ q`, first call from rest; later calls: the three `*_eq` theorems
through `rs_init_cases`): a frame that is a multiple of `q` gives exactly the samples at a fixed phase of the textbook
chain — for `p = 1` the decimator's (flipped padded filter, phase `q-1`), otherwise sample `(o+1)q - 1` of
"insert `p-1` zeros, filter with `h` normalised to DC gain `p`" (for `q = 1` this is phase 0 with no decimation). -/
theorem resampler_eq_from_rest (p q : ℕ) (hp : 0 < p) (hq : 0 < q) (hc : Nat.Coprime p q) (hne : p ≠ q)
    (h : Array ℝ) (hh : 0 < h.size) (hs : hsum h ≠ 0) (x : Array ℝ) (hx : x.size % q = 0) :
    ∃ s', (Rs.init p q h).process x =
      .ok (s', if p = 1 then tab (x.size / q) fun i => fir (paddedLen h.size q) (hflip h q) (elem x) (i * q + (q - 1))
               else tab (x.size / q * p) fun o => upfir p h x ((o + 1) * q - 1)) := by
  rcases rs_init_cases p q hp hq hc hne h with ⟨h1, _, e⟩ | ⟨h1, h2, e⟩ | ⟨h1, _, e⟩
  · obtain ⟨s', hs'⟩ := decim_eq_from_rest q hq h hh hs x hx
    refine ⟨.dec s', ?_⟩
    rw [e, if_pos h1]
    simp only [Rs.process, hs']
    rfl
  · refine ⟨.int ((Interp.init p h).process x).1, ?_⟩
    rw [e, if_neg (by omega)]
    simp only [Rs.process]
    rw [interp_eq_from_rest p hp h hh hs x]
    subst h1
    simp
  · obtain ⟨s', hs'⟩ := rateconv_eq_from_rest p q hp hq h hh hs x hx
    refine ⟨.rc s', ?_⟩
    rw [e, if_neg (by omega)]
    simp only [Rs.process, hs']
    rfl

end Dsp.C08
