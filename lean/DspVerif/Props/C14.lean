import DspVerif.Model.Hilbert
import DspVerif.Lib.RealFn
import DspVerif.Lib.C07Base
import DspVerif.Lib.C14Dft
import DspVerif.Props.C07
import DspVerif.Lib.C01Fft
/-!
# C14 — analytic-signal and frequency-translation tools follow their definitions

Exact theorems (ℝ / ℂ, no rounding; the framing theorems for every scalar type) about the functions of `Model/Hilbert.lean` —
the definitions `dspdriver_c14` runs at `Float` against `lib/hilbert.cpp`, `tuner.h`, `delay.h` in the correspondence run.

* `tuner_eq` (T14.5): sample `k` of the stream is multiplied by `exp(2πi f k / fs)` for EVERY `f` the constructor accepts
  (integral: the counter wraps at `fs`, and the phase is `fs`-periodic — `exp_wrap`; non-integral: the counter is `k`), every `k`,
  every framing (`tuner_append`, `tuner_frames`: structural, every scalar type).  `tunerInit_accepts`: the constructor accepts
  exactly `|f| ≤ fs/2` (real division).
* `hilbert_re` (T14.1), `hilbert_spectrum` / `hilbert_onesided` (T14.2): for every `n ≥ 3`, relative to `fft` = DFT (C01) and
  `ifft` = inverse DFT (C02) at that one length — hypotheses `IsRealDft n`, `IsIdft n`, satisfiable (`isRealDft_exact`,
  `isIdft_exact`, `hilbert_exact`).  Mathematical core: `Lib/C14Dft.analytic_re`.  `hilbert_err`: for `n < 3` the code throws.
  `ifftWith_eq_idft` / `isIdft_ifftWith`: `IfftPlan::solve` = `conj(fwd(conj(x/n)))` IS the inverse DFT whenever its forward plan is
  the DFT, so what remains assumed is the forward transform only (C01).
* `hilbertN_eq` (T14.3): `hilbert(x, n) = hilbert(padTrunc x n)`, every scalar type, exceptions included.
* `delay_eq`, `delay_append`, `delay_frames`: `Delay<T>` outputs `initial ++ stream` from its start, under every framing.
* `hf_eq` (T14.4): `HilbertFilter` — real part = input delayed by `M/2`, imaginary part = FIR sum with the taps (C07's `fir_eq_real`),
  every framing; `hfInit_ok`: accepted taps have odd length `≥ 3`; `designFir_size`: `design_fir` returns `M = flen | 1` taps.

Not proved here (measured by the oracle of `harness/c14.cpp`): the 1e-3 quadrature accuracy of the designed filter over its
pass-band, and all rounding.
-/
open Finset Complex
namespace Dsp.C14
open Dsp Dsp.Hilbert Dsp.Cx Dsp.C07

set_option linter.unusedSectionVars false

/-! ## framing combinators -/

section generic
variable {α : Type} [Add α] [Sub α] [Mul α] [Div α] [Neg α] [LT α] [LE α] [Fn α] [OfScientific α]
  [DecidableRel (· < · : α → α → Prop)] [DecidableRel (· ≤ · : α → α → Prop)]

/-- successive `process` calls on a list of frames: final state and the concatenated outputs -/
def runFrames {σ β γ : Type} (step : σ → Array β → σ × Array γ) (s : σ) : List (Array β) → σ × Array γ
  | [] => (s, #[])
  | fr :: rest =>
    let r := step s fr
    let q := runFrames step r.1 rest
    (q.1, r.2 ++ q.2)

/-- the stream the frames are cut from -/
def flatten {β : Type} : List (Array β) → Array β
  | [] => #[]
  | fr :: rest => fr ++ flatten rest

theorem runFrames_eq {σ β γ : Type} (step : σ → Array β → σ × Array γ)
    (hnil : ∀ s, step s #[] = (s, #[]))
    (happ : ∀ s a b, step s (a ++ b) = ((step (step s a).1 b).1, (step s a).2 ++ (step (step s a).1 b).2))
    (s : σ) (frames : List (Array β)) : runFrames step s frames = step s (flatten frames) := by
  induction frames generalizing s with
  | nil => simp [runFrames, flatten, hnil]
  | cons fr rest ih => simp only [runFrames, flatten, happ, ih]

/-- the accumulator of the sample loop only grows at its end -/
theorem tuner_foldl_acc (xs : List (Cx α)) (s : TunerState α) (acc : Array (Cx α)) :
    xs.foldl tunerStep (s, acc) = ((xs.foldl tunerStep (s, #[])).1, acc ++ (xs.foldl tunerStep (s, #[])).2) := by
  induction xs generalizing s acc with
  | nil => simp
  | cons v xs ih =>
    simp only [List.foldl_cons, tunerStep]
    rw [ih (tunerNext s) (acc.push (v * tunerMul s)), ih (tunerNext s) ((#[] : Array (Cx α)).push (v * tunerMul s))]
    simp

theorem tuner_nil (s : TunerState α) : tunerProcess s #[] = (s, #[]) := by
  simp [tunerProcess]

/-- **T14.5 (framing), every scalar type.** `process(a ++ b)` = `process(a)` then `process(b)`: same outputs, same final state —
the only state is the counter `_phase`. -/
theorem tuner_append (s : TunerState α) (a b : Array (Cx α)) :
    tunerProcess s (a ++ b) = ((tunerProcess (tunerProcess s a).1 b).1, (tunerProcess s a).2 ++ (tunerProcess (tunerProcess s a).1 b).2) := by
  unfold tunerProcess
  rw [Array.foldl_append]
  rw [← Array.foldl_toList (xs := b), tuner_foldl_acc b.toList, Array.foldl_toList]

/-- **T14.5 (framing).** Any number of calls with any frame lengths (empty frames included) produce the outputs and the final
state of ONE call on the concatenated stream. -/
theorem tuner_frames (s : TunerState α) (frames : List (Array (Cx α))) :
    runFrames tunerProcess s frames = tunerProcess s (flatten frames) :=
  runFrames_eq tunerProcess tuner_nil tuner_append s frames

end generic

/-! ## T14.5 Tuner at ℝ -/

/-- the state after `k` more samples -/
def advance (s : TunerState ℝ) (k : ℕ) : TunerState ℝ :=
  { s with phase := if s.periodic then (s.phase + k) % s.fs else s.phase + k }

theorem succ_mod_wrap (a fs : ℕ) (hfs : 0 < fs) :
    (a + 1) % fs = if fs ≤ a % fs + 1 then 0 else a % fs + 1 := by
  have hdm := Nat.div_add_mod a fs
  have hlt := Nat.mod_lt a hfs
  generalize hX : a / fs = q at hdm
  generalize hm : a % fs = m at hdm hlt
  by_cases hw : fs ≤ m + 1
  · rw [if_pos hw]
    have : a + 1 = fs * (q + 1) := by rw [Nat.mul_add, Nat.mul_one]; omega
    rw [this, Nat.mul_mod_right]
  · rw [if_neg hw]
    have : a + 1 = fs * q + (m + 1) := by omega
    rw [this, Nat.mul_add_mod, Nat.mod_eq_of_lt (by omega)]

theorem advance_zero (s : TunerState ℝ) (hp : s.periodic = true → s.phase < s.fs) : advance s 0 = s := by
  obtain ⟨fs, f, per, ph⟩ := s
  unfold advance
  cases per with
  | false => simp
  | true => simp [Nat.mod_eq_of_lt (hp rfl)]

theorem tunerNext_advance (s : TunerState ℝ) (hfs : 0 < s.fs) (k : ℕ) : tunerNext (advance s k) = advance s (k + 1) := by
  obtain ⟨fs, f, per, ph⟩ := s
  unfold tunerNext advance
  cases per with
  | false => simp; omega
  | true =>
    simp only [if_true, Bool.true_and, decide_eq_true_eq]
    rw [← Nat.add_assoc, succ_mod_wrap _ _ hfs]

theorem getD_push {β : Type} (a : Array β) (v z : β) (i : ℕ) :
    (a.push v).getD i z = if i = a.size then v else a.getD i z := by
  simp only [Array.getD_eq_getD_getElem?, Array.getElem?_push]
  split <;> rfl

/-- the sample loop of `Tuner::process`: output `i` is `x[i]` times the multiplier of the counter advanced `i` times -/
theorem tuner_process_eq (s : TunerState ℝ) (hfs : 0 < s.fs) (hp : s.periodic = true → s.phase < s.fs) (xs : Array (Cx ℝ)) :
    (tunerProcess s xs).1 = advance s xs.size ∧ (tunerProcess s xs).2.size = xs.size ∧
    ∀ i, i < xs.size → (tunerProcess s xs).2.getD i 0 = xs.getD i 0 * tunerMul (advance s i) := by
  unfold tunerProcess
  refine Array.foldl_induction
    (motive := fun i (b : TunerState ℝ × Array (Cx ℝ)) => b.1 = advance s i ∧ b.2.size = i ∧
      ∀ j, j < i → b.2.getD j 0 = xs.getD j 0 * tunerMul (advance s j)) ?_ ?_
  · exact ⟨(advance_zero s hp).symm, rfl, fun j hj => absurd hj (Nat.not_lt_zero _)⟩
  · rintro ⟨i, hi⟩ ⟨st, out⟩ ⟨h1, h2, h3⟩
    simp only at h1 h2 h3
    subst h1
    refine ⟨tunerNext_advance s hfs i, by simp [tunerStep, h2], ?_⟩
    intro j hj
    replace hj : j < i + 1 := hj
    simp only [tunerStep]
    rw [getD_push, h2]
    by_cases hji : j = i
    · subst hji
      rw [if_pos rfl]
      congr 1
      simp [Array.getD_eq_getD_getElem?, hi]
    · rw [if_neg hji]
      exact h3 j (by omega)

theorem toC_tunerMul (s : TunerState ℝ) :
    toC (tunerMul s) = Complex.exp (((2 * Real.pi * s.freq * (s.phase : ℝ) / (s.fs : ℝ) : ℝ) : ℂ) * I) := by
  unfold tunerMul
  apply Complex.ext
  · rw [Complex.exp_ofReal_mul_I_re]; simp
  · rw [Complex.exp_ofReal_mul_I_im]; simp

/-- what the constructor leaves behind when it accepts -/
theorem tunerInit_ok (fs : ℕ) (f : ℝ) (s0 : TunerState ℝ) (h0 : tunerInit fs f = .ok s0) :
    s0 = ⟨fs, f, decide (f ≤ (⌊f⌋ : ℝ) ∧ (⌊f⌋ : ℝ) ≤ f), 0⟩ ∧ |f| ≤ (fs : ℝ) / 2 := by
  unfold tunerInit at h0
  split at h0
  · rename_i hle
    injection h0 with h0
    exact ⟨h0.symm, by simpa using hle⟩
  · exact absurd h0 (by simp)

/-- the constructor accepts exactly the frequencies of the closed half band `|f| ≤ fs/2` (REAL division: `Tuner(9, 4.5)` is accepted) -/
theorem tunerInit_accepts (fs : ℕ) (f : ℝ) : (∃ s0, tunerInit fs f = .ok s0) ↔ |f| ≤ (fs : ℝ) / 2 := by
  constructor
  · rintro ⟨s0, h0⟩
    exact (tunerInit_ok fs f s0 h0).2
  · intro h
    unfold tunerInit
    rw [if_pos (by simpa using h)]
    exact ⟨_, rfl⟩

/-- the phase of an integral frequency is `fs`-periodic in the sample index -/
theorem exp_wrap (fs : ℕ) (hfs : 0 < fs) (m : ℤ) (k : ℕ) :
    Complex.exp (((2 * Real.pi * (m : ℝ) * ((k % fs : ℕ) : ℝ) / (fs : ℝ) : ℝ) : ℂ) * I) =
    Complex.exp (((2 * Real.pi * (m : ℝ) * (k : ℝ) / (fs : ℝ) : ℝ) : ℂ) * I) := by
  have hfs' : (fs : ℂ) ≠ 0 := by exact_mod_cast hfs.ne'
  have hk0 := (Nat.div_add_mod k fs).symm
  generalize k / fs = q at hk0
  generalize k % fs = r at hk0
  have hk : (k : ℂ) = (fs : ℂ) * (q : ℂ) + (r : ℂ) := by exact_mod_cast hk0
  have e : ((2 * Real.pi * (m : ℝ) * (k : ℝ) / (fs : ℝ) : ℝ) : ℂ) * I =
      ((2 * Real.pi * (m : ℝ) * (r : ℝ) / (fs : ℝ) : ℝ) : ℂ) * I + ((m * (q : ℤ) : ℤ) : ℂ) * (2 * Real.pi * I) := by
    push_cast
    rw [hk]
    field_simp
    ring
  rw [e, Complex.exp_add, Complex.exp_int_mul_two_pi_mul_I, mul_one]

/-- the multiplier of stream sample `k` after construction: `exp(2πi f k / fs)`, for integral AND non-integral `f` -/
theorem tuner_mul_closed (fs : ℕ) (hfs : 0 < fs) (f : ℝ) (s0 : TunerState ℝ) (h0 : tunerInit fs f = .ok s0) (k : ℕ) :
    toC (tunerMul (advance s0 k)) = Complex.exp (((2 * Real.pi * f * (k : ℝ) / (fs : ℝ) : ℝ) : ℂ) * I) := by
  obtain ⟨rfl, _⟩ := tunerInit_ok fs f s0 h0
  rw [toC_tunerMul]
  unfold advance
  by_cases hper : f ≤ (⌊f⌋ : ℝ) ∧ (⌊f⌋ : ℝ) ≤ f
  · have hf : f = (⌊f⌋ : ℝ) := le_antisymm hper.1 hper.2
    simp only [hper, and_self, decide_true, if_true, Nat.zero_add]
    rw [hf]
    exact exp_wrap fs hfs ⌊f⌋ k
  · simp only [hper, decide_false, Bool.false_eq_true, if_false, Nat.zero_add]

/-- **T14.5 `tuner_eq`.**  For every sample rate `fs ≥ 1`, EVERY frequency the constructor accepts (integral or not), every stream and
every framing of it into `process` calls (empty frames included): output `k` of the stream is input `k` times
`exp(2πi·f·k/fs)`, for every `k`. -/
theorem tuner_eq (fs : ℕ) (hfs : 0 < fs) (f : ℝ) (s0 : TunerState ℝ) (h0 : tunerInit fs f = .ok s0) (frames : List (Array (Cx ℝ))) :
    (runFrames tunerProcess s0 frames).2.size = (flatten frames).size ∧
    ∀ k, k < (flatten frames).size →
      toC ((runFrames tunerProcess s0 frames).2.getD k 0) =
        toC ((flatten frames).getD k 0) * Complex.exp (((2 * Real.pi * f * (k : ℝ) / (fs : ℝ) : ℝ) : ℂ) * I) := by
  rw [tuner_frames]
  have hs := (tunerInit_ok fs f s0 h0).1
  have hfs0 : 0 < s0.fs := by rw [hs]; exact hfs
  have hp0 : s0.periodic = true → s0.phase < s0.fs := by rw [hs]; intro _; exact hfs
  obtain ⟨_, h2, h3⟩ := tuner_process_eq s0 hfs0 hp0 (flatten frames)
  refine ⟨h2, fun k hk => ?_⟩
  rw [h3 k hk, toC_mul, tuner_mul_closed fs hfs f s0 h0 k]

/-- the state carried to the next call: the counter is `k mod fs` for an integral `f`, `k` otherwise (never reset for a
non-integral `f`, so streams longer than `fs` samples keep the exact phase) -/
theorem tuner_state (fs : ℕ) (hfs : 0 < fs) (f : ℝ) (s0 : TunerState ℝ) (h0 : tunerInit fs f = .ok s0) (frames : List (Array (Cx ℝ))) :
    (runFrames tunerProcess s0 frames).1 = advance s0 (flatten frames).size := by
  rw [tuner_frames]
  have hs := (tunerInit_ok fs f s0 h0).1
  exact (tuner_process_eq s0 (by rw [hs]; exact hfs) (by rw [hs]; intro _; exact hfs) (flatten frames)).1


/-! ## `Delay<T>` -/

section delay
variable {β : Type}
theorem delay_size (s : DelayState β) (x : Array β) :
    (delayProcess s x).1.buf.size = s.buf.size ∧ (delayProcess s x).2.size = x.size := by
  unfold delayProcess
  simp only [Array.size_extract, Array.size_append]
  omega
theorem delay_getD (s : DelayState β) (x : Array β) (z : β) (i : ℕ) :
    (i < x.size → (delayProcess s x).2.getD i z = (s.buf ++ x).getD i z) ∧
    (i < s.buf.size → (delayProcess s x).1.buf.getD i z = (s.buf ++ x).getD (x.size + i) z) := by
  unfold delayProcess
  constructor
  · intro hi
    rw [getD_extract _ _ _ _ _ (by simp), if_pos (by omega), Nat.zero_add]
  · intro hi
    rw [getD_extract _ _ _ _ _ (Nat.le_refl _), Array.size_append, if_pos (by omega)]
    congr 1; omega
theorem delay_append (s : DelayState β) (a b : Array β) :
    delayProcess s (a ++ b) =
      ((delayProcess (delayProcess s a).1 b).1, (delayProcess s a).2 ++ (delayProcess (delayProcess s a).1 b).2) := by
  obtain ⟨buf⟩ := s
  unfold delayProcess
  simp only [Prod.mk.injEq, DelayState.mk.injEq]
  constructor
  · apply Array.ext_getElem?
    intro i
    simp only [Array.getElem?_extract, Array.getElem?_append, Array.size_extract, Array.size_append]
    grind
  · apply Array.ext_getElem?
    intro i
    simp only [Array.getElem?_extract, Array.getElem?_append, Array.size_extract, Array.size_append]
    grind
theorem delay_nil (s : DelayState β) : delayProcess s #[] = (s, #[]) := by
  obtain ⟨buf⟩ := s
  unfold delayProcess
  simp

/-- **`Delay<T>`, framing (every element type).**  Any number of calls with any frame lengths = one call on the concatenation. -/
theorem delay_frames (s : DelayState β) (frames : List (Array β)) :
    runFrames delayProcess s frames = delayProcess s (flatten frames) :=
  runFrames_eq delayProcess delay_nil delay_append s frames

/-- **`Delay<T>` from its initial buffer.**  The outputs of the whole stream (any framing) are the first `len` samples of
`initial ++ stream`: the stream delayed by `nd = len initial` samples, the initial contents first. -/
theorem delay_eq (ini : Array β) (z : β) (frames : List (Array β)) (k : ℕ) (hk : k < (flatten frames).size) :
    (runFrames delayProcess (delayInitWith ini) frames).2.size = (flatten frames).size ∧
    (runFrames delayProcess (delayInitWith ini) frames).2.getD k z =
      if k < ini.size then ini.getD k z else (flatten frames).getD (k - ini.size) z := by
  rw [delay_frames]
  refine ⟨(delay_size _ _).2, ?_⟩
  rw [(delay_getD _ _ z k).1 hk, getD_append]
  rfl

/-- `Delay(int nd)`: `nd` zeros first -/
theorem delay_eq_zero (nd : ℕ) (z : β) (frames : List (Array β)) (k : ℕ) (hk : k < (flatten frames).size) :
    (runFrames delayProcess (delayInit z nd) frames).2.getD k z =
      if k < nd then z else (flatten frames).getD (k - nd) z := by
  have := (delay_eq (Array.replicate nd z) z frames k hk).2
  simp only [Array.size_replicate] at this
  rw [show delayInit z nd = delayInitWith (Array.replicate nd z) from rfl, this]
  by_cases h : k < nd
  · rw [if_pos h, if_pos h, getD_replicate]
  · rw [if_neg h, if_neg h]

/-- `Delay(0)` is rejected at the first `process` (the slice constructor throws), a non-empty buffer never is -/
theorem delayE (s : DelayState β) (x : Array β) :
    (s.buf.size = 0 → ∃ e, delayProcessE s x = .error e) ∧ (0 < s.buf.size → delayProcessE s x = .ok (delayProcess s x)) := by
  unfold delayProcessE
  constructor
  · intro h; rw [if_pos h]; exact ⟨_, rfl⟩
  · intro h; rw [if_neg (by omega)]

end delay

/-! ## T14.1–T14.3 `hilbert` -/

/-- `fft(const arr_real&)` computes the DFT at length `n` (property C01) -/
def IsRealDft (n : ℕ) (fft : Array ℝ → Array (Cx ℝ)) : Prop :=
  ∀ x : Array ℝ, x.size = n → (fft x).size = n ∧
    ∀ k, k < n → toC ((fft x).getD k 0) = dft n (fun m => ((x.getD m 0 : ℝ) : ℂ)) k

/-- `ifft(const arr_cmplx&)` computes the inverse DFT at length `n` (property C02) -/
def IsIdft (n : ℕ) (ifft : Array (Cx ℝ) → Array (Cx ℝ)) : Prop :=
  ∀ X : Array (Cx ℝ), X.size = n → (ifft X).size = n ∧
    ∀ t, t < n → toC ((ifft X).getD t 0) = idft n (fun k => toC (X.getD k 0)) t

/-- the weights `hilbert` applies to the spectrum: 1 at DC and (even `n`) Nyquist, 2 on the positive, 0 on the negative frequencies -/
def osw (n k : ℕ) : ℝ := if k = 0 then 1 else if n % 2 = 0 ∧ k = n / 2 then 1 else if n / 2 < k then 0 else 2

/-- every conjugate pair of bins `{k, n-k}` gets total weight 2 -/
theorem osw_pair (n k : ℕ) (hk : k < n) : osw n k + osw n ((n - k) % n) = 2 := by
  rcases Nat.eq_zero_or_pos k with h0 | h0
  · subst h0
    rw [Nat.sub_zero, Nat.mod_self]
    norm_num [osw]
  · rw [Nat.mod_eq_of_lt (by omega)]
    unfold osw
    split_ifs <;> first | omega | norm_num

theorem osw_neg (n k : ℕ) (h1 : n / 2 < k) : osw n k = 0 := by
  unfold osw
  split_ifs <;> first | omega | rfl

theorem toC_div2_mul2 (z : Cx ℝ) : toC (Cx.divr (Cx.mulr z 2) 2) = toC z := by
  apply Complex.ext <;> simp [Cx.mulr, Cx.divr]

theorem toC_mul2 (z : Cx ℝ) : toC (Cx.mulr z 2) = 2 * toC z := by
  apply Complex.ext <;> simp [Cx.mulr] <;> ring

theorem oneSided_size (n : ℕ) (X : Array (Cx ℝ)) : (oneSided n X).size = n := by simp [oneSided]

theorem toC_oneSided (n : ℕ) (X : Array (Cx ℝ)) (k : ℕ) (hk : k < n) :
    toC ((oneSided n X).getD k 0) = ((osw n k : ℝ) : ℂ) * toC (X.getD k 0) := by
  unfold oneSided osw
  rw [getD_ofFn, dif_pos hk]
  simp only [Cx.zeroC_eq]
  split_ifs <;> simp [toC_div2_mul2, toC_mul2, Cx.toC_zero]

/-- the real input as a complex sequence -/
noncomputable def seqR (x : Array ℝ) : ℕ → ℂ := fun m => ((x.getD m 0 : ℝ) : ℂ)
/-- a complex array as a complex sequence -/
noncomputable def seqC (y : Array (Cx ℝ)) : ℕ → ℂ := fun t => toC (y.getD t 0)

theorem hilbert_err (fft : Array ℝ → Array (Cx ℝ)) (ifft : Array (Cx ℝ) → Array (Cx ℝ)) (x : Array ℝ) (h : x.size < 3) :
    ∃ e, hilbert fft ifft x = .error e := by
  unfold hilbert; rw [if_pos h]; exact ⟨_, rfl⟩

/-- `hilbert(x)` for `n ≥ 3`: the inverse transform of the re-weighted spectrum -/
theorem hilbert_spec (n : ℕ) (h3 : 3 ≤ n) (fft : Array ℝ → Array (Cx ℝ)) (ifft : Array (Cx ℝ) → Array (Cx ℝ))
    (hfft : IsRealDft n fft) (hifft : IsIdft n ifft) (x : Array ℝ) (hx : x.size = n) :
    ∃ y, hilbert fft ifft x = .ok y ∧ y.size = n ∧
      ∀ t, t < n → seqC y t = idft n (fun k => ((osw n k : ℝ) : ℂ) * dft n (seqR x) k) t := by
  refine ⟨ifft (oneSided x.size (fft x)), ?_, ?_, ?_⟩
  · unfold hilbert; rw [if_neg (by omega)]
  · rw [hx]; exact (hifft _ (oneSided_size n _)).1
  · intro t ht
    rw [hx]
    unfold seqC
    rw [(hifft _ (oneSided_size n _)).2 t ht]
    apply idft_congr'
    intro k hk
    rw [toC_oneSided n _ k hk, (hfft x hx).2 k hk]
    rfl

/-- **T14.1 `hilbert_re`.**  For every `n ≥ 3` and every real `x` of length `n`: `re(hilbert(x))[t] = x[t]` (given `fft` = DFT and
`ifft` = inverse DFT at length `n`). -/
theorem hilbert_re (n : ℕ) (h3 : 3 ≤ n) (fft : Array ℝ → Array (Cx ℝ)) (ifft : Array (Cx ℝ) → Array (Cx ℝ))
    (hfft : IsRealDft n fft) (hifft : IsIdft n ifft) (x : Array ℝ) (hx : x.size = n) :
    ∃ y, hilbert fft ifft x = .ok y ∧ y.size = n ∧ ∀ t, t < n → (y.getD t 0).re = x.getD t 0 := by
  obtain ⟨y, hy, hs, hv⟩ := hilbert_spec n h3 fft ifft hfft hifft x hx
  refine ⟨y, hy, hs, fun t ht => ?_⟩
  have := congrArg Complex.re (hv t ht)
  rw [show seqR x = fun m => ((x.getD m 0 : ℝ) : ℂ) from rfl,
    analytic_re n (by omega) (fun m => x.getD m 0) (osw n) (fun k hk => osw_pair n k hk) t ht] at this
  exact this

/-- **T14.2 (full form).**  The spectrum of `hilbert(x)` is the spectrum of `x` with DC (and Nyquist) kept, the positive
frequencies doubled and the negative frequencies removed. -/
theorem hilbert_spectrum (n : ℕ) (h3 : 3 ≤ n) (fft : Array ℝ → Array (Cx ℝ)) (ifft : Array (Cx ℝ) → Array (Cx ℝ))
    (hfft : IsRealDft n fft) (hifft : IsIdft n ifft) (x : Array ℝ) (hx : x.size = n) :
    ∃ y, hilbert fft ifft x = .ok y ∧ ∀ k, k < n → dft n (seqC y) k = ((osw n k : ℝ) : ℂ) * dft n (seqR x) k := by
  obtain ⟨y, hy, _, hv⟩ := hilbert_spec n h3 fft ifft hfft hifft x hx
  refine ⟨y, hy, fun k hk => ?_⟩
  rw [dft_congr' n _ _ hv k, dft_idft n (by omega) _ k hk]

/-- **T14.2 `hilbert_onesided`.**  For every `n ≥ 3`: the discrete spectrum of `hilbert(x)` vanishes on the negative-frequency
bins `n/2 < k < n`. -/
theorem hilbert_onesided (n : ℕ) (h3 : 3 ≤ n) (fft : Array ℝ → Array (Cx ℝ)) (ifft : Array (Cx ℝ) → Array (Cx ℝ))
    (hfft : IsRealDft n fft) (hifft : IsIdft n ifft) (x : Array ℝ) (hx : x.size = n) :
    ∃ y, hilbert fft ifft x = .ok y ∧ ∀ k, n / 2 < k → k < n → dft n (seqC y) k = 0 := by
  obtain ⟨y, hy, hv⟩ := hilbert_spectrum n h3 fft ifft hfft hifft x hx
  refine ⟨y, hy, fun k h1 h2 => ?_⟩
  rw [hv k h2, osw_neg n k h1]
  simp

/-! ### T14.3 -/
section padtrunc
variable {α : Type} [Add α] [Sub α] [Mul α] [Div α] [Neg α] [LT α] [LE α] [Fn α] [OfScientific α]
  [DecidableRel (· < · : α → α → Prop)] [DecidableRel (· ≤ · : α → α → Prop)]

/-- **T14.3 `hilbert_n`, every scalar type.**  `hilbert(x, n)` is `hilbert` of `x` padded with zeros or truncated to `n` samples
— including the cases in which it throws (`n < 3`). -/
theorem hilbertN_eq (fft : Array α → Array (Cx α)) (ifft : Array (Cx α) → Array (Cx α)) (x : Array α) (n : ℕ) :
    hilbertN fft ifft x n = hilbert fft ifft (padTrunc x n) := by
  have key : ∀ y : Array α, y.size = n → (∀ i (h1 : i < y.size) , y[i] = if h : i < x.size then x[i] else zeroR) → y = padTrunc x n := by
    intro y hs hv
    apply Array.ext
    · simp [padTrunc, hs]
    · intro i h1 h2
      rw [hv i h1]
      simp only [padTrunc, Array.getElem_ofFn]
      by_cases h : i < x.size
      · simp [h, Array.getD_eq_getD_getElem?]
      · simp [h]
  unfold hilbertN
  split_ifs with h1 h2
  · congr 1
    apply key
    · simp; omega
    · intro i hi
      simp only [Array.getElem_append]
      by_cases h : i < x.size
      · simp [h]
      · simp [h]
  · congr 1
    apply key
    · simp; omega
    · intro i hi
      have : i < n := by simpa using (by simpa using hi : i < min n x.size) |>.trans_le (Nat.min_le_left _ _)
      simp [Array.getElem_extract, show i < x.size by omega]
  · congr 1
    apply key
    · omega
    · intro i hi
      simp [hi]
end padtrunc

/-! ### the hypotheses are satisfiable: the exact transform pair -/

noncomputable def ofC (z : ℂ) : Cx ℝ := ⟨z.re, z.im⟩
theorem toC_ofC (z : ℂ) : toC (ofC z) = z := by apply Complex.ext <;> rfl

/-- the exact DFT as an `fft(const arr_real&)` -/
noncomputable def dftExact (x : Array ℝ) : Array (Cx ℝ) := Array.ofFn (n := x.size) fun k => ofC (dft x.size (seqR x) k.val)
/-- the exact inverse DFT as an `ifft(const arr_cmplx&)` -/
noncomputable def idftExact (X : Array (Cx ℝ)) : Array (Cx ℝ) := Array.ofFn (n := X.size) fun t => ofC (idft X.size (seqC X) t.val)

theorem isRealDft_exact (n : ℕ) : IsRealDft n dftExact := by
  intro x hx
  subst hx
  refine ⟨by simp [dftExact], fun k hk => ?_⟩
  unfold dftExact
  rw [getD_ofFn, dif_pos hk, toC_ofC]
  rfl

theorem isIdft_exact (n : ℕ) : IsIdft n idftExact := by
  intro X hX
  subst hX
  refine ⟨by simp [idftExact], fun t ht => ?_⟩
  unfold idftExact
  rw [getD_ofFn, dif_pos ht, toC_ofC]
  rfl

/-- **T14.1 + T14.2 for the exact transform pair** (the hypotheses of `hilbert_re` / `hilbert_onesided` are satisfiable, and with
them discharged): for every real `x` of length `n ≥ 3`, `hilbert` with `fft` = DFT, `ifft` = inverse DFT returns a signal whose
real part is `x` and whose spectrum vanishes on the negative-frequency bins. -/
theorem hilbert_exact (x : Array ℝ) (h3 : 3 ≤ x.size) :
    ∃ y, hilbert dftExact idftExact x = .ok y ∧ y.size = x.size ∧
      (∀ t, t < x.size → (y.getD t 0).re = x.getD t 0) ∧
      (∀ k, x.size / 2 < k → k < x.size → dft x.size (seqC y) k = 0) := by
  obtain ⟨y, hy, hs, hre⟩ := hilbert_re x.size h3 _ _ (isRealDft_exact _) (isIdft_exact _) x rfl
  obtain ⟨y', hy', hneg⟩ := hilbert_onesided x.size h3 _ _ (isRealDft_exact _) (isIdft_exact _) x rfl
  have : y' = y := by rw [hy] at hy'; injection hy' with h; exact h.symm
  subst this
  exact ⟨y', hy, hs, hre, hneg⟩


/-! ### the `ifft` of the library (`IfftPlan::solve`, model `Fft.ifftWith`) reduces to the forward plan -/

/-- **`IfftPlan::solve` (the `ifft` the driver uses) is the inverse DFT whenever its forward plan is the DFT**: `conj(fwd(conj(x/n)))`.
Reduces the hypothesis `IsIdft` of T14.1/T14.2 to the forward transform (C01) at the same length. -/
theorem ifftWith_eq_idft (n : ℕ) (hn : 0 < n) (fwd : Fft.Vec ℝ → Fft.Vec ℝ)
    (hfwd : ∀ (x : Fft.Vec ℝ) (k : ℕ), k < n → toC (Fft.rd (fwd x) k) = dft n (Fft.seq x) k)
    (X : Fft.Vec ℝ) (t : ℕ) (ht : t < n) :
    toC (Fft.rd (Fft.ifftWith fwd n X) t) = idft n (Fft.seq X) t := by
  have hn' : (n : ℂ) ≠ 0 := by exact_mod_cast hn.ne'
  unfold Fft.ifftWith
  simp only
  rw [Fft.rd_mk_lt _ _ _ ht, toC_conj, hfwd _ t ht]
  unfold dft idft
  rw [map_sum, Finset.mul_sum]
  apply Finset.sum_congr rfl
  intro i hi
  have hi' := mem_range.mp hi
  unfold Fft.seq
  rw [Fft.rd_mk_lt _ _ _ hi', map_mul, toC_conj, Complex.conj_conj, ω_conj, Fft.toC_mulr]
  simp only [fn_ofNat]
  push_cast
  field_simp

theorem fft_zero_eq : (Fft.zero : Cx ℝ) = 0 := by apply Cx.ext' <;> simp [Fft.zero]

/-- the driver's `ifft` (`IfftPlan(n).solve`) satisfies the hypothesis `IsIdft n` of T14.1/T14.2 as soon as the forward plan of size `n`
is the DFT -/
theorem isIdft_ifftWith (n : ℕ) (hn : 0 < n) (fwd : Fft.Vec ℝ → Fft.Vec ℝ)
    (hfwd : ∀ (x : Fft.Vec ℝ) (k : ℕ), k < n → toC (Fft.rd (fwd x) k) = dft n (Fft.seq x) k) :
    IsIdft n (fun X => Fft.ifftWith fwd n X) := by
  intro X _
  refine ⟨by simp [Fft.ifftWith], fun t ht => ?_⟩
  have := ifftWith_eq_idft n hn fwd hfwd X t ht
  rw [show Fft.seq X = fun k => toC (X.getD k 0) from by funext k; simp only [Fft.seq, Fft.rd, fft_zero_eq]] at this
  simpa only [Fft.rd, fft_zero_eq] using this

/-! ## T14.4 `HilbertFilter` -/

/-- `firtype(h) == EvenAntiSym` forces an odd number of taps, at least 3 -/
theorem firtype_three (l : List ℝ) (h : Window.firtype l = 3) : l.length % 2 = 1 ∧ 3 ≤ l.length := by
  unfold Window.firtype at h
  simp only at h
  split_ifs at h with h1 h2 h3 h4 h5
  all_goals first
    | (exfalso; omega)
    | (simp only [Bool.and_eq_true, beq_iff_eq] at h4; omega)

theorem hfInit_ok (h : Array ℝ) (s : HfState ℝ) (hs : hfInit h = .ok s) :
    s = ⟨Fir.firInitR h, delayInit 0 (h.size / 2)⟩ ∧ h.size % 2 = 1 ∧ 3 ≤ h.size := by
  unfold hfInit at hs
  split at hs
  · rename_i h3
    injection hs with hs
    refine ⟨?_, by simpa using firtype_three _ h3⟩
    rw [← hs]; simp [Cx.zeroR_eq]
  · exact absurd hs (by simp)

theorem hf_size (s : HfState ℝ) (x : Array ℝ) : (hfProcess s x).2.size = x.size := by simp [hfProcess]

theorem hf_getD (s : HfState ℝ) (x : Array ℝ) (i : ℕ) (hi : i < x.size) :
    (hfProcess s x).2.getD i 0 = ⟨(delayProcess s.d x).2.getD i 0, (Fir.process 0 id s.fir x).2.getD i 0⟩ := by
  unfold hfProcess
  simp only [Fir.firProcessR, Cx.zeroR_eq]
  rw [getD_ofFn, dif_pos hi]

/-- framing of `HilbertFilter::process`: outputs of `a` then `b` = outputs of `a ++ b` -/
theorem hf_append (s : HfState ℝ) (X a b : Array ℝ) (hs : Hist s.fir X) (hh : 1 ≤ s.fir.h.size) :
    (hfProcess s (a ++ b)).2 = (hfProcess s a).2 ++ (hfProcess (hfProcess s a).1 b).2 := by
  apply ext_getD _ _ 0
  · simp [hf_size]
  · intro i hi
    rw [hf_size, Array.size_append] at hi
    rw [hf_getD _ _ _ (by rw [Array.size_append]; exact hi), getD_append, hf_size, delay_append, fir_append id s.fir X a b hs hh,
      getD_append, getD_append, (delay_size s.d a).2, (fir_step id s.fir X a hs hh).2.2.1]
    by_cases hia : i < a.size
    · rw [if_pos hia, if_pos hia, if_pos hia, hf_getD _ _ _ hia]
    · rw [if_neg hia, if_neg hia, if_neg hia, hf_getD _ _ _ (by omega)]
      simp only [hfProcess, Fir.firProcessR, Cx.zeroR_eq]

/-- any framing of the input stream gives the outputs of one call on the whole stream -/
theorem hf_frames (frames : List (Array ℝ)) : ∀ (s : HfState ℝ) (X : Array ℝ), Hist s.fir X → 1 ≤ s.fir.h.size →
    (runFrames hfProcess s frames).2 = (hfProcess s (flatten frames)).2 := by
  induction frames with
  | nil =>
    intro s X _ _
    apply ext_getD _ _ 0
    · simp [runFrames, flatten, hf_size]
    · intro i hi
      simp [runFrames] at hi
  | cons fr rest ih =>
    intro s X hs hh
    have hst := fir_step id s.fir X fr hs hh
    have hs' : Hist (hfProcess s fr).1.fir (X ++ fr) := by
      simpa only [hfProcess, Fir.firProcessR, Cx.zeroR_eq] using hst.2.1
    have hh' : 1 ≤ (hfProcess s fr).1.fir.h.size := by
      have : (hfProcess s fr).1.fir.h = s.fir.h := by
        simpa only [hfProcess, Fir.firProcessR, Cx.zeroR_eq] using hst.1
      rw [this]; exact hh
    simp only [runFrames, flatten]
    rw [ih _ _ hs' hh', hf_append s X fr (flatten rest) hs hh]

/-- **T14.4 `HilbertFilter` structure.**  For every accepted tap vector `h` (`M = len h`, odd, `≥ 3`), every input stream and every
framing of it into `process` calls: output `k` has real part `x[k - M/2]` (zero while `k < M/2`: the input delayed by the group
delay `M/2`) and imaginary part `Σ_{j ≤ k} h[j]·x[k-j]` (the FIR filter with taps `h`, started from rest). -/
theorem hf_eq (h : Array ℝ) (s0 : HfState ℝ) (hs : hfInit h = .ok s0) (frames : List (Array ℝ)) :
    (runFrames hfProcess s0 frames).2.size = (flatten frames).size ∧
    ∀ k, k < (flatten frames).size →
      ((runFrames hfProcess s0 frames).2.getD k 0).re = (if k < h.size / 2 then 0 else (flatten frames).getD (k - h.size / 2) 0) ∧
      ((runFrames hfProcess s0 frames).2.getD k 0).im =
        ∑ j ∈ range h.size, if j ≤ k then h.getD j 0 * (flatten frames).getD (k - j) 0 else 0 := by
  obtain ⟨rfl, _, h3⟩ := hfInit_ok h s0 hs
  have hh : 1 ≤ h.size := by omega
  have hH : Hist (Fir.firInitR h) #[] := by
    have := hist_init (R := ℝ) h
    simpa only [Fir.firInitR, Cx.zeroR_eq] using this
  rw [hf_frames frames _ #[] hH (by simpa [Fir.firInitR, Fir.init] using hh)]
  refine ⟨hf_size _ _, fun k hk => ?_⟩
  rw [hf_getD _ _ _ hk]
  constructor
  · show (delayProcess (delayInit 0 (h.size / 2)) (flatten frames)).2.getD k 0 = _
    rw [(delay_getD _ _ 0 k).1 hk, getD_append]
    simp only [delayInit, Array.size_replicate]
    by_cases hk2 : k < h.size / 2
    · rw [if_pos hk2, if_pos hk2, getD_replicate]
    · rw [if_neg hk2, if_neg hk2]
  · have := (fir_eq_real h (flatten frames) hh).2 k hk
    simpa only [Fir.firProcessR, Fir.firInitR, Cx.zeroR_eq] using this

/-- `(int) v` on the reals: truncation towards zero -/
noncomputable instance : Hilbert.Trunc ℝ := ⟨fun v => if 0 ≤ v then ⌊v⌋ else ⌈v⌉⟩

/-- `design_fir(flen, fs, f1)` returns `M = flen | 1` taps (an odd number), whatever `ifft` is -/
theorem designFir_size (ifft : Array (Cx ℝ) → Array (Cx ℝ)) (flen : ℕ) (fs f1 : ℝ) (hh : Array (Cx ℝ))
    (h : designFir ifft flen fs f1 = .ok hh) : hh.size = (if flen % 2 = 0 then flen + 1 else flen) ∧ hh.size % 2 = 1 := by
  unfold designFir at h
  simp only at h
  generalize hM : (if flen % 2 = 0 then flen + 1 else flen) = M at h ⊢
  have hN : 8 * M ≤ 2 ^ Fir.nextpow2 (8 * M) := le_two_pow_nextpow2 _
  have hodd : M % 2 = 1 := by rw [← hM]; split_ifs <;> omega
  have key : ∀ (hw : Array (Cx ℝ)), hw.size = 2 ^ Fir.nextpow2 (8 * M) →
      (hw.extract (2 ^ Fir.nextpow2 (8 * M) - M / 2) (2 ^ Fir.nextpow2 (8 * M)) ++ hw.extract 0 ((M + 1) / 2)).size = M := by
    intro hw hs
    simp only [Array.size_append, Array.size_extract, hs]
    omega
  split_ifs at h
  all_goals first
    | (injection h with h
       have hs : hh.size = M := by rw [← h]; exact key _ (by simp)
       exact ⟨hs, by rw [hs]; exact hodd⟩)


/-! ## non-vacuity -/

example : ∃ s0, tunerInit 9 (4.5 : ℝ) = .ok s0 := (tunerInit_accepts 9 4.5).2 (by norm_num [abs_of_nonneg])
example : ¬ ∃ s0, tunerInit 9 (4.75 : ℝ) = .ok s0 := fun h => by
  have := (tunerInit_accepts 9 4.75).1 h
  norm_num [abs_of_nonneg] at this
example : osw 6 0 = 1 ∧ osw 6 2 = 2 ∧ osw 6 3 = 1 ∧ osw 6 4 = 0 ∧ osw 5 2 = 2 ∧ osw 5 3 = 0 := by norm_num [osw]

example : ∃ s, hfInit (#[1, 0, -1] : Array ℝ) = .ok s := by
  unfold hfInit
  have : Window.firtype ((#[1, 0, -1] : Array ℝ).toList) = 3 := by
    simp [Window.firtype, Window.isSymmetric, Window.isAntisymmetric, Window.equal, Window.eps]
    norm_num
  rw [if_pos this]
  exact ⟨_, rfl⟩

end Dsp.C14
