import DspVerif.Model.Order
import DspVerif.Lib.RealFn
import Mathlib.Data.List.Sort
import Mathlib.Data.List.Rotate
import Mathlib.Data.List.FinRange
import Mathlib.Data.Nat.Choose.Basic
import Mathlib.Order.Basic
import Mathlib.Tactic.Linarith
import Mathlib.Algebra.QuadraticDiscriminant
import Mathlib.Data.List.Zip
import Mathlib.Algebra.Order.BigOperators.Group.List
/-!
# C16 — sorting, order statistics and rank correlation match their definitions

Theorems about `Model/Order.lean` (tied to `lib/math.cpp`, `lib/medfilt.cpp`, `lib/corr.cpp` by the
correspondence run of `harness/c16.cpp`).  Everything about order is proved for EVERY linear order
`α` (so for every input, repeated values included) and every window length; nothing is bounded.
-/
namespace Dsp.C16
open Dsp Dsp.Order List

variable {α : Type} [LinearOrder α]

/-! ## T16.1 `sort` -/

theorem leB_true_iff (a b : α) : leB true a b = true ↔ a ≤ b := by simp [leB]
theorem leB_false_iff (a b : α) : leB false a b = true ↔ b ≤ a := by simp [leB]

theorem leB_trans (asc : Bool) (a b c : α) : leB asc a b = true → leB asc b c = true → leB asc a c = true := by
  cases asc
  · simp only [leB_false_iff]; exact fun h1 h2 => le_trans h2 h1
  · simp only [leB_true_iff]; exact le_trans

theorem leB_total (asc : Bool) (a b : α) : (leB asc a b || leB asc b a) = true := by
  cases asc
  · simp only [Bool.or_eq_true, leB_false_iff]; exact le_total b a
  · simp only [Bool.or_eq_true, leB_true_iff]; exact le_total a b

theorem pairwise_leB_true {l : List α} : l.Pairwise (fun a b => leB true a b = true) ↔ l.Pairwise (· ≤ ·) := by
  simp [leB_true_iff]

theorem sorted_mergeSort (l : List α) : (l.mergeSort (leB true)).Pairwise (· ≤ ·) := by
  rw [← pairwise_leB_true]
  apply List.pairwise_mergeSort
  · intro a b c; simp only [leB_true_iff]; exact le_trans
  · intro a b; simp only [Bool.or_eq_true, leB_true_iff]; exact le_total a b

/-- a sorted permutation of `w` IS the sorted `w` -/
theorem eq_mergeSort_of_sorted_perm {s w : List α} (hs : s.Pairwise (· ≤ ·)) (hp : s.Perm w) :
    s = w.mergeSort (leB true) :=
  List.Perm.eq_of_pairwise' hs (sorted_mergeSort w) (hp.trans (List.mergeSort_perm w _).symm)


theorem isSorted_iff (asc : Bool) (l : List α) :
    isSorted asc l = true ↔ l.Pairwise (fun a b => leB asc a b = true) := by
  induction l with
  | nil => simp [isSorted]
  | cons a t ih =>
    cases t with
    | nil => simp [isSorted]
    | cons b t =>
      unfold isSorted
      rw [Bool.and_eq_true, ih, List.pairwise_cons (a := a)]
      constructor
      · rintro ⟨hab, hp⟩
        refine ⟨?_, hp⟩
        intro c hc
        rcases List.mem_cons.1 hc with rfl | hc
        · exact hab
        · exact leB_trans asc a b c hab ((List.pairwise_cons.1 hp).1 c hc)
      · rintro ⟨h1, hp⟩
        exact ⟨h1 b (List.mem_cons_self), hp⟩

omit [LinearOrder α] in
theorem gather_finRange [LT α] [DecidableRel (· < · : α → α → Prop)] (x : Array α) :
    gather x (List.finRange x.size) = x.toList := by
  apply List.ext_getElem
  · simp [gather]
  · intro i h1 h2; simp [gather]

/-- the index vector is a permutation of `0 … n-1` -/
theorem sortIdx_perm (x : Array α) (asc : Bool) : (sortIdx x asc).Perm (List.finRange x.size) := by
  unfold sortIdx
  split
  · exact List.Perm.refl _
  · exact List.mergeSort_perm _ _

theorem sortIdx_sorted (x : Array α) (asc : Bool) :
    (gather x (sortIdx x asc)).Pairwise (fun a b => leB asc a b = true) := by
  unfold sortIdx
  split
  · rename_i h
    rw [gather_finRange]; exact (isSorted_iff asc _).1 h
  · unfold gather
    rw [List.pairwise_map]
    apply List.pairwise_mergeSort (le := fun i j => leB asc x[i] x[j])
    · intro a b c; exact leB_trans asc _ _ _
    · intro a b; exact leB_total asc _ _

/-- **T16.1** -/
theorem sort_spec (x : Array α) (asc : Bool) :
    (sort x asc).2.Perm (List.finRange x.size) ∧
    (sort x asc).1.length = x.size ∧
    (∀ (i : Nat) (h1 : i < (sort x asc).1.length) (h2 : i < (sort x asc).2.length),
        (sort x asc).1[i] = x[(sort x asc).2[i]]) ∧
    (if asc then (sort x asc).1.Pairwise (· ≤ ·) else (sort x asc).1.Pairwise (· ≥ ·)) ∧
    (sort x asc).1.Perm x.toList := by
  refine ⟨sortIdx_perm x asc, ?_, ?_, ?_, ?_⟩
  · simp [sort, gather, (sortIdx_perm x asc).length_eq]
  · intro i h1 h2; simp [sort, gather]
  · have := sortIdx_sorted x asc
    cases asc
    · simpa [leB_false_iff, sort] using this
    · simpa [leB_true_iff, sort] using this
  · have := (sortIdx_perm x asc).map (fun i => x[i])
    rw [← gather_finRange x]
    exact this

/-! ## T16.2 order statistics -/

/-- `v` is the `k`-th smallest (0-based) value of `x`, duplicates counted: fewer than or exactly `k`
entries are strictly smaller, more than `k` are smaller or equal.  (This is the counting definition
the harness oracle uses.) -/
def IsOrderStat (x : List α) (k : Nat) (v : α) : Prop :=
  x.countP (fun u => decide (u < v)) ≤ k ∧ k < x.countP (fun u => decide (u ≤ v))

/-- the `k`-th order statistic is unique (so the counting definition determines the median) -/
theorem isOrderStat_unique {x : List α} {k : Nat} {v v' : α}
    (h : IsOrderStat x k v) (h' : IsOrderStat x k v') : v = v' := by
  rcases lt_trichotomy v v' with hlt | heq | hgt
  · exfalso
    have : x.countP (fun u => decide (u ≤ v)) ≤ x.countP (fun u => decide (u < v')) :=
      List.countP_mono_left (by intro u _; simp only [decide_eq_true_eq]; exact fun hu => lt_of_le_of_lt hu hlt)
    have := h.2; have := h'.1; omega
  · exact heq
  · exfalso
    have : x.countP (fun u => decide (u ≤ v')) ≤ x.countP (fun u => decide (u < v)) :=
      List.countP_mono_left (by intro u _; simp only [decide_eq_true_eq]; exact fun hu => lt_of_le_of_lt hu hgt)
    have := h'.2; have := h.1; omega

/-- entry `k` of ANY sorted rearrangement of `x` is the `k`-th order statistic of `x` -/
theorem isOrderStat_sorted {s x : List α} (hs : s.Pairwise (· ≤ ·)) (hp : s.Perm x) (k : Nat) (hk : k < s.length) :
    IsOrderStat x k s[k] := by
  unfold IsOrderStat
  rw [← hp.countP_eq, ← hp.countP_eq]
  rw [List.pairwise_iff_getElem] at hs
  constructor
  · have key : ∀ p : α → Bool, s.countP p = (s.take k).countP p + (s.drop k).countP p := by
      intro p; rw [← List.countP_append, List.take_append_drop]
    rw [key]
    have h0 : (s.drop k).countP (fun u => decide (u < s[k])) = 0 := by
      rw [List.countP_eq_zero]
      intro a ha
      obtain ⟨j, hj, rfl⟩ := List.mem_iff_getElem.1 ha
      simp only [List.getElem_drop, decide_eq_true_eq, not_lt]
      rcases Nat.eq_zero_or_pos j with rfl | hjpos
      · simp
      · exact hs k (k + j) hk (by simp at hj; omega) (by omega)
    have h1 : (s.take k).countP (fun u => decide (u < s[k])) ≤ k := by
      refine le_trans List.countP_le_length ?_
      simp
    omega
  · have key : ∀ p : α → Bool, s.countP p = (s.take (k + 1)).countP p + (s.drop (k + 1)).countP p := by
      intro p; rw [← List.countP_append, List.take_append_drop]
    rw [key]
    have h1 : (s.take (k + 1)).countP (fun u => decide (u ≤ s[k])) = (s.take (k + 1)).length := by
      rw [List.countP_eq_length]
      intro a ha
      obtain ⟨j, hj, rfl⟩ := List.mem_iff_getElem.1 ha
      simp only [List.getElem_take, decide_eq_true_eq]
      have hjk : j ≤ k := by simp at hj; omega
      rcases Nat.lt_or_eq_of_le hjk with hlt | rfl
      · exact hs j k (by omega) hk hlt
      · exact le_refl _
    have h2 : (s.take (k + 1)).length = k + 1 := by simp; omega
    omega

/-- **T16.2 (odd length)** -/
theorem median_odd (avg : α → α → α) {x : List α} (h : x.length % 2 = 1) :
    ∃ m, median avg x = some m ∧ IsOrderStat x (x.length / 2) m := by
  have hs := sorted_mergeSort x
  have hp := List.mergeSort_perm x (leB true)
  have hl : (x.mergeSort (leB true)).length = x.length := hp.length_eq
  have hk : x.length / 2 < (x.mergeSort (leB true)).length := by omega
  refine ⟨(x.mergeSort (leB true))[x.length / 2], ?_, isOrderStat_sorted hs hp _ hk⟩
  unfold median middle
  rw [if_pos h, List.getElem?_eq_getElem hk]

/-- **T16.2 (even length)** -/
theorem median_even (avg : α → α → α) {x : List α} (hx : x ≠ []) (h : x.length % 2 = 0) :
    ∃ a b, median avg x = some (avg a b) ∧ IsOrderStat x (x.length / 2) a ∧
      IsOrderStat x (x.length / 2 - 1) b := by
  have hs := sorted_mergeSort x
  have hp := List.mergeSort_perm x (leB true)
  have hl : (x.mergeSort (leB true)).length = x.length := hp.length_eq
  have hpos := List.length_pos_of_ne_nil hx
  have hk : x.length / 2 < (x.mergeSort (leB true)).length := by omega
  have hk' : x.length / 2 - 1 < (x.mergeSort (leB true)).length := by omega
  refine ⟨(x.mergeSort (leB true))[x.length / 2], (x.mergeSort (leB true))[x.length / 2 - 1], ?_,
    isOrderStat_sorted hs hp _ hk, isOrderStat_sorted hs hp _ hk'⟩
  unfold median middle
  rw [if_neg (by omega), List.getElem?_eq_getElem hk, List.getElem?_eq_getElem hk']

theorem avg2_real (a b : ℝ) : avg2 a b = (a + b) / 2 := by simp [avg2]

/-- non-vacuity: a window with a repeated value, odd and even length -/
example : median (fun a b : Int => (a + b) / 2) [5, 1, 4, 1, 3] = some 3 := by
  unfold median
  rw [← eq_mergeSort_of_sorted_perm (s := [1, 1, 3, 4, 5]) (by decide) (by decide)]
  decide
example : median (fun a b : Int => (a + b) / 2) [5, 1, 4, 1] = some 2 := by
  unfold median
  rw [← eq_mergeSort_of_sorted_perm (s := [1, 1, 4, 5]) (by decide) (by decide)]
  decide
example : IsOrderStat [5, 1, 4, 1, 3] 2 (3 : Int) := by unfold IsOrderStat; decide
example : IsOrderStat [5, 1, 4, 1, 3] 1 (1 : Int) ∧ IsOrderStat [5, 1, 4, 1, 3] 0 (1 : Int) := by
  unfold IsOrderStat; decide

/-! ## T16.3 median filter -/

theorem eraseOld_sublist (v : α) (s : List α) : (eraseOld v s).Sublist s := by
  induction s with
  | nil => simp [eraseOld]
  | cons a t ih =>
    cases t with
    | nil => simp [eraseOld]
    | cons b t =>
      unfold eraseOld
      by_cases h : a = v
      · simp [h]
      · simp [h]; exact ih

/-- `_update_sort`, erase phase: if `v_old` is in the window, exactly one copy of it is removed -/
theorem eraseOld_perm {v : α} {s : List α} (h : v ∈ s) : (v :: eraseOld v s).Perm s := by
  induction s with
  | nil => simp at h
  | cons a t ih =>
    cases t with
    | nil =>
      simp at h; subst h; simp [eraseOld]
    | cons b t =>
      unfold eraseOld
      by_cases hav : a = v
      · subst hav; simp
      · have hv : v ∈ b :: t := by
          rcases List.mem_cons.1 h with h | h
          · exact absurd h.symm hav
          · exact h
        simp [hav]
        exact (List.Perm.swap a v _).trans ((ih hv).cons a)

/-- `_update_sort`, insert phase: the new value is added, nothing else changes -/
theorem insertNew_perm (v : α) (l : List α) : (insertNew v l).Perm (v :: l) := by
  induction l with
  | nil => simp [insertNew]
  | cons a t ih =>
    unfold insertNew
    split
    · exact (ih.cons a).trans (List.Perm.swap v a t)
    · exact List.Perm.refl _

/-- `_update_sort`, insert phase keeps the window sorted -/
theorem insertNew_sorted (v : α) {l : List α} (h : l.Pairwise (· ≤ ·)) : (insertNew v l).Pairwise (· ≤ ·) := by
  induction l with
  | nil => simp [insertNew]
  | cons a t ih =>
    unfold insertNew
    have h' := List.pairwise_cons.1 h
    split
    · rename_i hlt
      refine List.pairwise_cons.2 ⟨?_, ih h'.2⟩
      intro b hb
      rcases List.mem_cons.1 ((insertNew_perm v t).subset hb) with hb | hb
      · subst hb; exact le_of_lt hlt
      · exact h'.1 b hb
    · rename_i hnlt
      have hva : v ≤ a := not_lt.1 hnlt
      refine List.pairwise_cons.2 ⟨?_, h⟩
      intro b hb
      rcases List.mem_cons.1 hb with hb | hb
      · subst hb; exact hva
      · exact le_trans hva (h'.1 b hb)


omit [LinearOrder α] in
theorem set_rotate_succ (d : List α) (k : Nat) (hk : k < d.length) (x : α) :
    (d.set k x).rotate (k + 1) = (d.rotate k).tail ++ [x] ∧ d[k]? = (d.rotate k).head? := by
  obtain ⟨a, y, b, rfl, rfl⟩ : ∃ a y b, d = a ++ y :: b ∧ a.length = k := by
    refine ⟨d.take k, d[k], d.drop (k+1), ?_, by simp; omega⟩
    simp
  have h2 : (a ++ y :: b).rotate a.length = y :: b ++ a := by
    simp [List.rotate_append_length_eq a (y :: b)]
  constructor
  · have h1 : (a ++ y :: b).set a.length x = (a ++ [x]) ++ b := by simp
    rw [h1, h2]
    have := List.rotate_append_length_eq (a ++ [x]) b
    simp at this
    simp [this]
  · rw [h2]; simp

/-- the state invariant of a `MedianFilter` whose window (oldest sample first) is `w` -/
structure Inv (st : MF α) (w : List α) : Prop where
  len : w.length = st.n
  pos : 0 < st.n
  dlen : st.d.length = st.n
  ring : st.d.rotate (st.i + 1) = w
  sorted : st.s.Pairwise (· ≤ ·)
  perm : st.s.Perm w

/-- **T16.3 invariant**: one loop iteration of `MedianFilter::process` (ring-buffer advance + `_update_sort`) maps a state
whose sorted window is a sorted permutation of the ring buffer holding the last `n` samples `w` to such a state for
`w.tail ++ [x]`; the output is the middle of the new sorted window.  Every `n > 0`, every input, repeats included. -/
theorem step_inv (avg : α → α → α) {st : MF α} {w : List α} (h : Inv st w) (x : α) :
    Inv (st.step avg x).1 (w.tail ++ [x]) ∧ (st.step avg x).1.n = st.n ∧
      (st.step avg x).2 = middle avg st.n (st.step avg x).1.s := by
  obtain ⟨hlen, hpos, hdlen, hring, hsorted, hperm⟩ := h
  have hi : (st.i + 1) % st.n < st.d.length := by rw [hdlen]; exact Nat.mod_lt _ hpos
  have hrot : st.d.rotate ((st.i + 1) % st.n) = w := by
    rw [← hdlen, List.rotate_mod]; exact hring
  obtain ⟨hset, hget⟩ := set_rotate_succ st.d _ hi x
  rw [hrot] at hset hget
  obtain ⟨v, t, rfl⟩ : ∃ v t, w = v :: t := by
    cases w with
    | nil => simp at hlen; omega
    | cons v t => exact ⟨v, t, rfl⟩
  simp only [List.head?_cons, List.tail_cons] at hset hget
  have hvs : v ∈ st.s := hperm.symm.subset (List.mem_cons_self)
  have herase : (eraseOld v st.s).Perm t := ((eraseOld_perm hvs).trans hperm).cons_inv
  unfold MF.step
  simp only [hget]
  refine ⟨⟨?_, hpos, ?_, hset, ?_, ?_⟩, ?_⟩
  rotate_left 4
  · simp
  · simp at hlen ⊢; exact hlen
  · simp [hdlen]
  · exact insertNew_sorted x (hsorted.sublist (eraseOld_sublist v st.s))
  · refine (insertNew_perm x _).trans ?_
    refine (herase.cons x).trans ?_
    simpa using (List.perm_append_comm (l₁ := [x]) (l₂ := t))

omit [LinearOrder α] in
theorem init_ok {n : Int} {v : α} {st : MF α} [BEq α] (h : MF.init n v = .ok st) :
    3 ≤ n ∧ st = ⟨n.toNat, 0, List.replicate n.toNat v, List.replicate n.toNat v⟩ := by
  unfold MF.init at h
  split at h
  · cases h
  · rename_i hn
    injection h with h
    exact ⟨by omega, h.symm⟩

/-- the constructor establishes the invariant with the window `init_value^n` (chosen initial history) -/
theorem init_inv {n : Int} {v : α} {st : MF α} (h : MF.init n v = .ok st) :
    Inv st (List.replicate n.toNat v) := by
  obtain ⟨hn, rfl⟩ := init_ok h
  refine ⟨by simp, by simp; omega, by simp, ?_, ?_, List.Perm.refl _⟩
  · simp [List.rotate_replicate]
  · simp [List.pairwise_replicate]


/-- the value `median` (the model of the library's `median`) gives for a window -/
theorem step_output (avg : α → α → α) {st : MF α} {w : List α} (h : Inv st w) (x : α) :
    (st.step avg x).2 = median avg (w.tail ++ [x]) := by
  obtain ⟨hinv, hn, hout⟩ := step_inv avg h x
  rw [hout, eq_mergeSort_of_sorted_perm hinv.sorted hinv.perm]
  unfold median
  rw [hinv.len, hn]

/-- window `k` (0-based) of a stream `xs` processed after the history `w`: the last `n` samples
up to and including `xs[k]` -/
def window (w xs : List α) (k : Nat) : List α := ((w ++ xs).drop (k + 1)).take w.length

/-- `process(x)` from a state with history `w`: output `k` is the median of the last `n` samples up to `x[k]`
(`window w xs k`), and the invariant holds afterwards for the last `n` samples -/
theorem process_spec (avg : α → α → α) (xs : List α) : ∀ {st : MF α} {w : List α}, Inv st w →
    (st.process avg xs).2 = (List.range xs.length).map (fun k => median avg (window w xs k)) ∧
    Inv (st.process avg xs).1 ((w ++ xs).drop xs.length) := by
  induction xs with
  | nil => intro st w h; simp [MF.process]; exact h
  | cons x t ih =>
    intro st w h
    obtain ⟨hinv, hn, _⟩ := step_inv avg h x
    have hout := step_output avg h x
    obtain ⟨ih1, ih2⟩ := ih hinv
    obtain ⟨v, u, rfl⟩ : ∃ v u, w = v :: u := by
      cases w with
      | nil => have := h.len; have := h.pos; simp at *; omega
      | cons v u => exact ⟨v, u, rfl⟩
    simp only [List.tail_cons] at *
    have hlen : (u ++ [x]).length = (v :: u).length := by simp
    constructor
    · simp only [MF.process, List.length_cons, List.range_succ_eq_map, List.map_cons, List.map_map]
      rw [ih1, hout]
      congr 1
      · have : (u ++ x :: t).take (u.length + 1) = u ++ [x] := by
          rw [show u ++ x :: t = (u ++ [x]) ++ t by simp, List.take_left' (by simp)]
        simp [window, this]
      · apply List.map_congr_left
        intro k _
        simp [window, Function.comp]
    · simp only [MF.process, List.length_cons]
      have : (v :: u ++ x :: t).drop (t.length + 1) = (u ++ [x] ++ t).drop t.length := by simp
      rw [this]; exact ih2


section framing
variable {β : Type} [LT β] [DecidableRel (· < · : β → β → Prop)] [BEq β]

/-- splitting a stream into two calls of `process` changes neither the outputs nor the final state -/
theorem process_append (avg : β → β → β) (a b : List β) (st : MF β) :
    st.process avg (a ++ b) =
      ((((st.process avg a).1).process avg b).1, (st.process avg a).2 ++ (((st.process avg a).1).process avg b).2) := by
  induction a generalizing st with
  | nil => simp [MF.process]
  | cons x t ih => simp [MF.process, ih]

/-- **arbitrary framing**: any sequence of `process` calls (empty frames included) on one filter
object = one call on the concatenated stream — outputs and final state -/
theorem processFrames_eq (avg : β → β → β) (frames : List (List β)) (st : MF β) :
    st.processFrames avg frames = st.process avg frames.flatten := by
  induction frames generalizing st with
  | nil => simp [MF.processFrames, MF.process]
  | cons f fs ih => simp [MF.processFrames, ih, process_append]

end framing

omit [LinearOrder α] in
theorem middle_isSome [LT α] [DecidableRel (· < · : α → α → Prop)] (avg : α → α → α) {n : Nat} {s : List α}
    (hn : 0 < n) (hs : s.length = n) : (middle avg n s).isSome := by
  unfold middle
  have h1 : n / 2 < s.length := by omega
  have h2 : n / 2 - 1 < s.length := by omega
  split
  · simp [h1]
  · simp [List.getElem?_eq_getElem h1, List.getElem?_eq_getElem h2]

/-- the median of a non-empty window exists (no out-of-bounds read) -/
theorem median_isSome (avg : α → α → α) {w : List α} (hw : w ≠ []) : (median avg w).isSome := by
  unfold median
  apply middle_isSome
  · exact List.length_pos_of_ne_nil hw
  · simp

/-- **T16.3, `MedianFilter`**: a filter of any accepted order (`n ≥ 3`, else the constructor throws) and any initial value `v`,
fed the stream in ANY framing (`frames`, empty frames allowed), outputs for sample `k` the median (`Order.median`, the middle
order statistic by `median_odd` / `median_even`) of the last `n` samples of `v^n ++ stream` up to and including sample `k`. -/
theorem medianFilter_spec (avg : α → α → α) {n : Int} {v : α} {st : MF α} (h : MF.init n v = .ok st)
    (frames : List (List α)) :
    (st.processFrames avg frames).2 =
      (List.range frames.flatten.length).map
        (fun k => median avg (window (List.replicate n.toNat v) frames.flatten k)) := by
  rw [processFrames_eq]
  exact (process_spec avg _ (init_inv h)).1

/-- **T16.3, `medfilt`**: for every order `n ≥ 3` and non-empty `x`, output `k` is the median of the `n` samples
`x[k - n/2 .. k + n2]` of the zero-padded input (`n2 = n/2` for odd, `n/2 - 1` for even `n`) -/
theorem medfilt_spec (avg : α → α → α) (zero : α) {n : Int} (hn : 3 ≤ n) {x : List α} (hx : x ≠ []) :
    medfilt avg zero x n = .ok ((List.range x.length).map fun k =>
      median avg (((List.replicate (n.toNat / 2) zero ++ x ++
        List.replicate (if n.toNat % 2 = 1 then n.toNat / 2 else n.toNat / 2 - 1) zero).drop k).take n.toNat)) := by
  have hinit : MF.init n zero = .ok ⟨n.toNat, 0, List.replicate n.toNat zero, List.replicate n.toNat zero⟩ := by
    unfold MF.init; rw [if_neg (by omega)]
  have hspec := (process_spec avg
    (List.replicate (n.toNat / 2) zero ++ x ++ List.replicate (if n.toNat % 2 = 1 then n.toNat / 2 else n.toNat / 2 - 1) zero)
    (init_inv hinit)).1
  have hm : 3 ≤ n.toNat := by omega
  have hxl : 0 < x.length := List.length_pos_of_ne_nil hx
  unfold medfilt
  simp only [hinit, bind, Except.bind]
  generalize n.toNat = m at *
  rw [hspec]
  have hl : (List.replicate (m / 2) zero ++ x ++ List.replicate (if m % 2 = 1 then m / 2 else m / 2 - 1) zero).length
      = m - 1 + x.length := by
    simp only [List.length_append, List.length_replicate]
    split <;> omega
  rw [if_neg (by simp only [List.length_map, List.length_range, hl]; omega)]
  congr 1
  apply List.ext_getElem
  · simp only [List.length_drop, List.length_map, List.length_range, hl]; omega
  · intro k h1 h2
    simp only [List.getElem_drop, List.getElem_map, List.getElem_range, window, List.length_replicate]
    congr 2
    rw [List.drop_append, List.drop_of_length_le (by simp; omega)]
    simp
    congr 1
    omega

/-- non-vacuity of the invariant and one `_update_sort` step with a repeated value:
order 4, ring buffer `[4,7,5,5]` with `_i = 1` (window oldest-first `[5,5,4,7]`), new sample 5 -/
example : updateSort [4, 5, 5, 7] (5 : Int) 5 = [4, 5, 5, 7] := by decide
example : updateSort [4, 5, 5, 7] (9 : Int) 4 = [5, 5, 7, 9] := by decide
example : updateSort [4, 5, 5, 7] (1 : Int) 7 = [1, 4, 5, 5] := by decide
example : Inv (⟨4, 1, [4, 7, 5, 5], [4, 5, 5, 7]⟩ : MF Int) [5, 5, 4, 7] :=
  ⟨rfl, by decide, rfl, by decide, by decide, by decide⟩
example : ((⟨4, 1, [4, 7, 5, 5], [4, 5, 5, 7]⟩ : MF Int).step (fun a b => (a + b) / 2) 6).2 = some 5 := by decide
example :
    let st' := ((⟨4, 1, [4, 7, 5, 5], [4, 5, 5, 7]⟩ : MF Int).step (fun a b => (a + b) / 2) 6).1
    st'.i = 2 ∧ st'.d = [4, 7, 6, 5] ∧ st'.s = [4, 5, 6, 7] := by decide

/-! ## T16.4 rank correlation -/

section pairs
variable {β : Type}

/-- number of position pairs `i < j` of `l` with `R l[i] l[j]` -/
def pairsP (R : β → β → Bool) : List β → Nat
  | [] => 0
  | a :: t => t.countP (R a) + pairsP R t

/-- the number of pairs in a symmetric relation does not depend on the order of the list -/
theorem pairsP_perm {R : β → β → Bool} (hsymm : ∀ a b, R a b = R b a) {l l' : List β} (h : l.Perm l') :
    pairsP R l = pairsP R l' := by
  induction h with
  | nil => rfl
  | cons a h ih => simp [pairsP, ih, h.countP_eq]
  | swap a b t =>
    simp only [pairsP, List.countP_cons]
    rw [hsymm a b]; omega
  | trans _ _ ih1 ih2 => exact ih1.trans ih2

theorem pairsP_congr {R S : β → β → Bool} {l : List β} (h : l.Pairwise (fun a b => R a b = S a b)) :
    pairsP R l = pairsP S l := by
  induction l with
  | nil => rfl
  | cons a t ih =>
    obtain ⟨h1, h2⟩ := List.pairwise_cons.1 h
    simp only [pairsP, ih h2]
    congr 1
    apply List.countP_congr
    intro b hb; rw [h1 b hb]

theorem pairCount_fst (lt : β → β → Bool) (l : List β) : (pairCount lt l).1 = pairsP lt l := by
  induction l with
  | nil => rfl
  | cons a t ih => simp [pairCount, pairsP, ih]; omega

theorem pairCount_snd (lt : β → β → Bool) (l : List β) : (pairCount lt l).2 = pairsP (fun a b => !lt a b) l := by
  induction l with
  | nil => rfl
  | cons a t ih =>
    simp only [pairCount, pairsP, ih]
    have := List.length_eq_countP_add_countP (lt a) (l := t)
    have h2 : t.countP (fun b => !lt a b) = t.countP (fun b => decide ¬(lt a b = true)) := by
      apply List.countP_congr; intro b _; simp
    rw [h2]; omega

theorem pairCount_total (lt : β → β → Bool) (l : List β) :
    (pairCount lt l).1 + (pairCount lt l).2 = l.length.choose 2 := by
  induction l with
  | nil => rfl
  | cons a t ih =>
    simp only [pairCount, List.length_cons]
    have := List.countP_le_length (p := lt a) (l := t)
    have hc : (t.length + 1).choose 2 = t.length + t.length.choose 2 := by
      rw [show (2 : Nat) = 1 + 1 from rfl, Nat.choose_succ_succ', Nat.choose_one_right]
    rw [hc]
    omega

theorem pairsP_map {γ : Type} (f : γ → β) (R : β → β → Bool) (l : List γ) :
    pairsP R (l.map f) = pairsP (fun a b => R (f a) (f b)) l := by
  induction l with
  | nil => rfl
  | cons a t ih => simp [pairsP, ih, List.countP_map, Function.comp_def]

end pairs

variable {α : Type} [LinearOrder α]

/-- the two samples are ordered the same way / oppositely at positions carrying `p`, `q` -/
def conc (p q : α × α) : Bool := decide ((p.1 < q.1 ∧ p.2 < q.2) ∨ (q.1 < p.1 ∧ q.2 < p.2))
def disc (p q : α × α) : Bool := decide ((p.1 < q.1 ∧ q.2 < p.2) ∨ (q.1 < p.1 ∧ p.2 < q.2))

theorem conc_symm (p q : α × α) : conc p q = conc q p := by
  unfold conc; congr 1; exact propext (or_comm)
theorem disc_symm (p q : α × α) : disc p q = disc q p := by
  unfold disc; congr 1; exact propext (or_comm)

/-- the sample pairs `(x[i], y[i])` -/
def pairsOf (x y : Array α) (h : x.size = y.size) : List (α × α) :=
  (List.finRange x.size).map (fun i => (x[i], y[i.val]'(h ▸ i.isLt)))


/-- the sample pairs in the order of the sort index of `x` -/
theorem sortedPairs_perm (x y : Array α) (h : x.size = y.size) :
    ((sortIdx x true).map (fun i => (x[i], y[i.val]'(h ▸ i.isLt)))).Perm (pairsOf x y h) :=
  (sortIdx_perm x true).map _

theorem pairsOf_fst (x y : Array α) (h : x.size = y.size) : (pairsOf x y h).map (·.1) = x.toList := by
  rw [← gather_finRange x]; simp [pairsOf, gather]

omit [LinearOrder α] in
theorem pairsOf_snd (x y : Array α) (h : x.size = y.size) : (pairsOf x y h).map (·.2) = y.toList := by
  apply List.ext_getElem
  · simp [pairsOf, h]
  · intro i h1 h2; simp [pairsOf]

/-- the counts of the double loop of `_kendall_corr` are the numbers of concordant / discordant
sample pairs (tie-free data) -/
theorem kendall_counts (x y : Array α) (h : x.size = y.size) (hx : x.toList.Nodup) (hy : y.toList.Nodup) :
    (pairCount (fun a b => decide (a < b)) ((sortIdx x true).map (fun i => y[i.val]'(h ▸ i.isLt)))).1
      = pairsP conc (pairsOf x y h) ∧
    (pairCount (fun a b => decide (a < b)) ((sortIdx x true).map (fun i => y[i.val]'(h ▸ i.isLt)))).2
      = pairsP disc (pairsOf x y h) := by
  set SP := (sortIdx x true).map (fun i => (x[i], y[i.val]'(h ▸ i.isLt))) with hSP
  have hperm : SP.Perm (pairsOf x y h) := sortedPairs_perm x y h
  have hmap2 : (sortIdx x true).map (fun i => y[i.val]'(h ▸ i.isLt)) = SP.map (·.2) := by
    simp [hSP, Function.comp_def]
  -- strictly increasing first components
  have hfst : SP.Pairwise (fun p q => p.1 < q.1) := by
    have h1 : (SP.map (·.1)).Pairwise (· ≤ ·) := by
      have := sortIdx_sorted x true
      simpa [hSP, gather, Function.comp_def, leB_true_iff] using this
    have h2 : (SP.map (·.1)).Nodup := by
      have : (SP.map (·.1)).Perm x.toList := by
        rw [← pairsOf_fst x y h]; exact hperm.map _
      exact this.nodup_iff.2 hx
    have h3 : (SP.map (·.1)).Pairwise (· < ·) :=
      (h1.and h2).imp (fun ⟨hle, hne⟩ => lt_of_le_of_ne hle hne)
    exact List.pairwise_map.1 h3
  have hsnd : SP.Pairwise (fun p q => p.2 ≠ q.2) := by
    have h2 : (SP.map (·.2)).Nodup := by
      have : (SP.map (·.2)).Perm y.toList := by
        rw [← pairsOf_snd x y h]; exact hperm.map _
      exact this.nodup_iff.2 hy
    exact List.pairwise_map.1 h2
  constructor
  · rw [hmap2, pairCount_fst, pairsP_map, ← pairsP_perm conc_symm hperm]
    apply pairsP_congr
    refine hfst.imp ?_
    intro p q hpq
    simp only [conc, decide_eq_decide]
    constructor
    · intro h2; exact Or.inl ⟨hpq, h2⟩
    · rintro (⟨_, h2⟩ | ⟨h1, _⟩)
      · exact h2
      · exact absurd h1 (not_lt.2 (le_of_lt hpq))
  · rw [hmap2, pairCount_snd, pairsP_map, ← pairsP_perm disc_symm hperm]
    apply pairsP_congr
    refine (hfst.and hsnd).imp ?_
    intro p q ⟨hpq, hne⟩
    simp only [disc]
    rw [← decide_not, decide_eq_decide]
    constructor
    · intro h2; exact Or.inl ⟨hpq, lt_of_le_of_ne (not_lt.1 h2) (Ne.symm hne)⟩
    · rintro (⟨_, h2⟩ | ⟨h1, _⟩)
      · exact not_lt.2 (le_of_lt h2)
      · exact absurd h1 (not_lt.2 (le_of_lt hpq))


section kendallGeneric
variable [Div α] [Fn α]

/-- **T16.4 Kendall = (concordant − discordant) / C(n,2)** for tie-free samples, any scalar type -/
theorem kendall_eq (x y : Array α) (h : x.size = y.size) (hx : x.toList.Nodup) (hy : y.toList.Nodup) :
    kendall x y h =
      Fn.ofInt ((pairsP conc (pairsOf x y h) : Int) - (pairsP disc (pairsOf x y h) : Int)) /
        Fn.ofInt ((pairsP conc (pairsOf x y h) : Int) + (pairsP disc (pairsOf x y h) : Int)) ∧
    pairsP conc (pairsOf x y h) + pairsP disc (pairsOf x y h) = x.size.choose 2 := by
  obtain ⟨h1, h2⟩ := kendall_counts x y h hx hy
  constructor
  · unfold kendall
    simp only
    rw [h1, h2]
  · rw [← h1, ← h2, pairCount_total]
    simp [(sortIdx_perm x true).length_eq]

omit [LinearOrder α] [Div α] [Fn α] in
theorem pairsOf_swap (x y : Array α) (h : x.size = y.size) :
    pairsOf y x h.symm = (pairsOf x y h).map Prod.swap := by
  apply List.ext_getElem
  · simp [pairsOf, h]
  · intro i h1 h2; simp [pairsOf]

omit [Div α] [Fn α] in
theorem pairsP_swap (x y : Array α) (h : x.size = y.size) :
    pairsP conc (pairsOf y x h.symm) = pairsP conc (pairsOf x y h) ∧
    pairsP disc (pairsOf y x h.symm) = pairsP disc (pairsOf x y h) := by
  rw [pairsOf_swap x y h, pairsP_map, pairsP_map]
  constructor
  · congr 1; funext p q; simp only [conc, Prod.fst_swap, Prod.snd_swap, decide_eq_decide]
    constructor <;> rintro (⟨a, b⟩ | ⟨a, b⟩) <;> [exact Or.inl ⟨b, a⟩; exact Or.inr ⟨b, a⟩; exact Or.inl ⟨b, a⟩; exact Or.inr ⟨b, a⟩]
  · congr 1; funext p q; simp only [disc, Prod.fst_swap, Prod.snd_swap, decide_eq_decide]
    constructor <;> rintro (⟨a, b⟩ | ⟨a, b⟩) <;> [exact Or.inr ⟨b, a⟩; exact Or.inl ⟨b, a⟩; exact Or.inr ⟨b, a⟩; exact Or.inl ⟨b, a⟩]

/-- **T16.4 Kendall is symmetric in its arguments** (tie-free samples) -/
theorem kendall_symm (x y : Array α) (h : x.size = y.size) (hx : x.toList.Nodup) (hy : y.toList.Nodup) :
    kendall x y h = kendall y x h.symm := by
  rw [(kendall_eq x y h hx hy).1, (kendall_eq y x h.symm hy hx).1, (pairsP_swap x y h).1, (pairsP_swap x y h).2]

end kendallGeneric


theorem pairsP_eq_zero {β : Type} {R : β → β → Bool} {l : List β} (h : ∀ a ∈ l, ∀ b ∈ l, R a b = false) :
    pairsP R l = 0 := by
  induction l with
  | nil => rfl
  | cons a t ih =>
    simp only [pairsP]
    rw [ih (fun p hp q hq => h p (List.mem_cons_of_mem _ hp) q (List.mem_cons_of_mem _ hq))]
    rw [Nat.add_zero, List.countP_eq_zero]
    intro b hb
    simp [h a List.mem_cons_self b (List.mem_cons_of_mem _ hb)]

omit [LinearOrder α] in
theorem mem_pairsOf {x y : Array α} {h : x.size = y.size} {p : α × α} (hp : p ∈ pairsOf x y h) :
    ∃ i : Fin x.size, p = (x[i], y[i.val]'(h ▸ i.isLt)) := by
  simp only [pairsOf, List.mem_map] at hp
  obtain ⟨i, _, rfl⟩ := hp
  exact ⟨i, rfl⟩

section kendallReal

/-- Kendall's τ over ℝ: `(C − D) / C(n,2)` -/
theorem kendall_real (x y : Array ℝ) (h : x.size = y.size) (hx : x.toList.Nodup) (hy : y.toList.Nodup) :
    kendall x y h =
      ((pairsP conc (pairsOf x y h) : ℝ) - (pairsP disc (pairsOf x y h) : ℝ)) / (x.size.choose 2 : ℝ) := by
  obtain ⟨h1, h2⟩ := kendall_eq x y h hx hy
  rw [h1, ← h2]
  simp

/-- **τ ∈ [-1, 1]** -/
theorem kendall_mem_Icc (x y : Array ℝ) (h : x.size = y.size) (hx : x.toList.Nodup) (hy : y.toList.Nodup)
    (hn : 2 ≤ x.size) : -1 ≤ kendall x y h ∧ kendall x y h ≤ 1 := by
  obtain ⟨_, h2⟩ := kendall_eq x y h hx hy
  rw [kendall_real x y h hx hy]
  have hpos : (0 : ℝ) < (x.size.choose 2 : ℝ) := by exact_mod_cast Nat.choose_pos hn
  have hsum : (pairsP conc (pairsOf x y h) : ℝ) + (pairsP disc (pairsOf x y h) : ℝ) = (x.size.choose 2 : ℝ) := by
    exact_mod_cast h2
  have hc : (0 : ℝ) ≤ (pairsP conc (pairsOf x y h) : ℝ) := Nat.cast_nonneg _
  have hd : (0 : ℝ) ≤ (pairsP disc (pairsOf x y h) : ℝ) := Nat.cast_nonneg _
  constructor
  · rw [le_div_iff₀ hpos]; linarith
  · rw [div_le_iff₀ hpos]; linarith

/-- **τ = +1 for a strictly increasing relation** -/
theorem kendall_increasing (x y : Array ℝ) (h : x.size = y.size) (hx : x.toList.Nodup) (hy : y.toList.Nodup)
    (hn : 2 ≤ x.size)
    (hmono : ∀ i j : Fin x.size, x[i] < x[j] → y[i.val]'(h ▸ i.isLt) < y[j.val]'(h ▸ j.isLt)) :
    kendall x y h = 1 := by
  obtain ⟨_, h2⟩ := kendall_eq x y h hx hy
  rw [kendall_real x y h hx hy]
  have hd : pairsP disc (pairsOf x y h) = 0 := by
    apply pairsP_eq_zero
    intro p hp q hq
    obtain ⟨i, rfl⟩ := mem_pairsOf hp
    obtain ⟨j, rfl⟩ := mem_pairsOf hq
    simp only [disc, decide_eq_false_iff_not, not_or, not_and, not_lt]
    exact ⟨fun hij => le_of_lt (hmono i j hij), fun hji => le_of_lt (hmono j i hji)⟩
  rw [hd] at h2 ⊢
  have hpos : (0 : ℝ) < (x.size.choose 2 : ℝ) := by exact_mod_cast Nat.choose_pos hn
  rw [Nat.add_zero] at h2
  rw [h2, Nat.cast_zero, sub_zero]
  exact div_self (ne_of_gt hpos)

/-- **τ = −1 for a strictly decreasing relation** -/
theorem kendall_decreasing (x y : Array ℝ) (h : x.size = y.size) (hx : x.toList.Nodup) (hy : y.toList.Nodup)
    (hn : 2 ≤ x.size)
    (hmono : ∀ i j : Fin x.size, x[i] < x[j] → y[j.val]'(h ▸ j.isLt) < y[i.val]'(h ▸ i.isLt)) :
    kendall x y h = -1 := by
  obtain ⟨_, h2⟩ := kendall_eq x y h hx hy
  rw [kendall_real x y h hx hy]
  have hc : pairsP conc (pairsOf x y h) = 0 := by
    apply pairsP_eq_zero
    intro p hp q hq
    obtain ⟨i, rfl⟩ := mem_pairsOf hp
    obtain ⟨j, rfl⟩ := mem_pairsOf hq
    simp only [conc, decide_eq_false_iff_not, not_or, not_and, not_lt]
    exact ⟨fun hij => le_of_lt (hmono i j hij), fun hji => le_of_lt (hmono j i hji)⟩
  rw [hc] at h2 ⊢
  have hpos : (0 : ℝ) < (x.size.choose 2 : ℝ) := by exact_mod_cast Nat.choose_pos hn
  rw [Nat.zero_add] at h2
  rw [h2, Nat.cast_zero, zero_sub, neg_div, div_self (ne_of_gt hpos)]

end kendallReal

/-- non-vacuity: the pair that exposed the repaired Kendall defect, `x = [3,1,2,5,4]`, `y = [1..5]`:
7 concordant and 3 discordant pairs, τ = 0.4 in either argument order -/
example : pairsP conc [((3 : Int), (1 : Int)), (1, 2), (2, 3), (5, 4), (4, 5)] = 7 ∧
    pairsP disc [((3 : Int), (1 : Int)), (1, 2), (2, 3), (5, 4), (4, 5)] = 3 := by decide
example : pairCount (fun a b : Int => decide (a < b)) [2, 3, 1, 5, 4] = (7, 3) := by decide

/-! ### Pearson -/

section pearson

/-- `Σ f` over the sample pairs -/
def lsum (P : List (ℝ × ℝ)) (f : ℝ × ℝ → ℝ) : ℝ := (P.map f).sum

@[simp] theorem lsum_nil (f : ℝ × ℝ → ℝ) : lsum [] f = 0 := rfl
@[simp] theorem lsum_cons (p : ℝ × ℝ) (P : List (ℝ × ℝ)) (f : ℝ × ℝ → ℝ) : lsum (p :: P) f = f p + lsum P f := by
  simp [lsum]

theorem sums_foldl (P : List (ℝ × ℝ)) (s : Sums ℝ) :
    P.foldl (fun s p => (⟨s.sx + p.1, s.sy + p.2, s.sxy + p.1 * p.2, s.sxx + p.1 * p.1, s.syy + p.2 * p.2⟩ : Sums ℝ)) s
      = ⟨s.sx + lsum P (·.1), s.sy + lsum P (·.2), s.sxy + lsum P (fun p => p.1 * p.2),
         s.sxx + lsum P (fun p => p.1 * p.1), s.syy + lsum P (fun p => p.2 * p.2)⟩ := by
  induction P generalizing s with
  | nil => simp
  | cons p P ih => simp [ih, add_assoc]

/-- the accumulation loop computes the five moment sums -/
theorem sums_eq (x y : List ℝ) :
    sums x y = ⟨lsum (zip x y) (·.1), lsum (zip x y) (·.2), lsum (zip x y) (fun p => p.1 * p.2),
      lsum (zip x y) (fun p => p.1 * p.1), lsum (zip x y) (fun p => p.2 * p.2)⟩ := by
  unfold sums
  rw [sums_foldl]
  simp

/-- the tail of `_pearson_corr` is the moment formula of the data the sums run over -/
theorem moments_eq (n : ℝ) (x y : List ℝ) :
    moments n x y =
      (n * lsum (zip x y) (fun p => p.1 * p.2) - lsum (zip x y) (·.1) * lsum (zip x y) (·.2)) /
      Real.sqrt ((n * lsum (zip x y) (fun p => p.1 * p.1) - lsum (zip x y) (·.1) ^ 2) *
                 (n * lsum (zip x y) (fun p => p.2 * p.2) - lsum (zip x y) (·.2) ^ 2)) := by
  unfold moments
  simp only [sums_eq, fn_sqrt]
  ring_nf

/-- the moment formula on the raw samples -/
theorem pearsonM_eq (x y : List ℝ) :
    pearsonM x y =
      ((x.length : ℝ) * lsum (zip x y) (fun p => p.1 * p.2) - lsum (zip x y) (·.1) * lsum (zip x y) (·.2)) /
      Real.sqrt (((x.length : ℝ) * lsum (zip x y) (fun p => p.1 * p.1) - lsum (zip x y) (·.1) ^ 2) *
                 ((x.length : ℝ) * lsum (zip x y) (fun p => p.2 * p.2) - lsum (zip x y) (·.2) ^ 2)) := by
  unfold pearsonM
  rw [moments_eq]
  simp only [fn_ofNat]

/-- sums over pairs shifted by `(a, b)` -/
theorem lsum_shift (P : List (ℝ × ℝ)) (a b : ℝ) :
    lsum P (fun p => p.1 - a) = lsum P (·.1) - (P.length : ℝ) * a ∧
    lsum P (fun p => p.2 - b) = lsum P (·.2) - (P.length : ℝ) * b ∧
    lsum P (fun p => (p.1 - a) * (p.2 - b)) =
      lsum P (fun p => p.1 * p.2) - b * lsum P (·.1) - a * lsum P (·.2) + (P.length : ℝ) * (a * b) ∧
    lsum P (fun p => (p.1 - a) * (p.1 - a)) =
      lsum P (fun p => p.1 * p.1) - 2 * a * lsum P (·.1) + (P.length : ℝ) * (a * a) ∧
    lsum P (fun p => (p.2 - b) * (p.2 - b)) =
      lsum P (fun p => p.2 * p.2) - 2 * b * lsum P (·.2) + (P.length : ℝ) * (b * b) := by
  induction P with
  | nil => simp
  | cons p P ih =>
    obtain ⟨h1, h2, h3, h4, h5⟩ := ih
    simp only [lsum_cons, List.length_cons, Nat.cast_add, Nat.cast_one, h1, h2, h3, h4, h5]
    refine ⟨by ring, by ring, by ring, by ring, by ring⟩

theorem lsum_zip_map (x y : List ℝ) (f g : ℝ → ℝ) (F : ℝ × ℝ → ℝ) :
    lsum (zip (x.map f) (y.map g)) F = lsum (zip x y) (fun p => F (f p.1, g p.2)) := by
  unfold lsum
  rw [List.zip_map, List.map_map]
  rfl

/-- **the centring of the repaired `_pearson_corr` does not change the value over the reals**: the moment formula is
invariant under translation of either sample (whatever the two subtracted constants are), so the model of the code
equals the moment formula of the raw samples.  (In floating point the centred form is the one that does not cancel.) -/
theorem pearson_eq_pearsonM (x y : List ℝ) (h : x.length = y.length) : pearson x y = pearsonM x y := by
  rw [pearsonM_eq]
  unfold pearson centre
  simp only [fn_ofNat]
  generalize (x.foldl (· + ·) (Nat.cast 0 : ℝ) / (x.length : ℝ)) = a
  generalize (y.foldl (· + ·) (Nat.cast 0 : ℝ) / (x.length : ℝ)) = b
  rw [moments_eq]
  simp only [lsum_zip_map]
  obtain ⟨h1, h2, h3, h4, h5⟩ := lsum_shift (zip x y) a b
  have hL : ((zip x y).length : ℝ) = (x.length : ℝ) := by simp [h]
  rw [hL] at h1 h2 h3 h4 h5
  rw [h1, h2, h3, h4, h5]
  congr 1
  · ring
  · congr 1
    ring

/-- **T16.4 Pearson = the moment formula** (of the raw samples; the code evaluates it on the centred ones) -/
theorem pearson_eq (x y : List ℝ) (h : x.length = y.length) :
    pearson x y =
      ((x.length : ℝ) * lsum (zip x y) (fun p => p.1 * p.2) - lsum (zip x y) (·.1) * lsum (zip x y) (·.2)) /
      Real.sqrt (((x.length : ℝ) * lsum (zip x y) (fun p => p.1 * p.1) - lsum (zip x y) (·.1) ^ 2) *
                 ((x.length : ℝ) * lsum (zip x y) (fun p => p.2 * p.2) - lsum (zip x y) (·.2) ^ 2)) := by
  rw [pearson_eq_pearsonM x y h, pearsonM_eq]

theorem lsum_swap (x y : List ℝ) (f : ℝ × ℝ → ℝ) : lsum (zip y x) f = lsum (zip x y) (fun p => f p.swap) := by
  unfold lsum
  rw [← List.zip_swap x y, List.map_map]; rfl

/-- **T16.4 Pearson is symmetric** -/
theorem pearson_symm (x y : List ℝ) (h : x.length = y.length) : pearson x y = pearson y x := by
  rw [pearson_eq x y h, pearson_eq y x h.symm, ← h]
  simp only [lsum_swap x y, Prod.fst_swap, Prod.snd_swap]
  have : (fun p : ℝ × ℝ => p.2 * p.1) = (fun p => p.1 * p.2) := by funext p; ring
  rw [this]
  ring_nf


/-- Cauchy–Schwarz for list sums (discriminant of `Σ (u t + v)² ≥ 0`) -/
theorem lsum_cauchy_schwarz (P : List (ℝ × ℝ)) (u v : ℝ × ℝ → ℝ) :
    (lsum P (fun p => u p * v p)) ^ 2 ≤ lsum P (fun p => u p * u p) * lsum P (fun p => v p * v p) := by
  have hq : ∀ t : ℝ, lsum P (fun p => (u p * t + v p) * (u p * t + v p)) =
      lsum P (fun p => u p * u p) * (t * t) + (2 * lsum P (fun p => u p * v p)) * t + lsum P (fun p => v p * v p) := by
    intro t
    induction P with
    | nil => simp
    | cons p P ih => simp only [lsum_cons, ih]; ring
  have hnn : ∀ t : ℝ, 0 ≤ lsum P (fun p => u p * u p) * (t * t) + (2 * lsum P (fun p => u p * v p)) * t +
      lsum P (fun p => v p * v p) := by
    intro t
    rw [← hq t]
    unfold lsum
    apply List.sum_nonneg
    intro a ha
    obtain ⟨p, _, rfl⟩ := List.mem_map.1 ha
    exact mul_self_nonneg _
  have := discrim_le_zero hnn
  unfold discrim at this
  nlinarith [this]

/-- `Σ (N a − A)(N b − B)` expanded -/
theorem lsum_centered (P : List (ℝ × ℝ)) (N A B : ℝ) :
    lsum P (fun p => (N * p.1 - A) * (N * p.2 - B)) =
      N * N * lsum P (fun p => p.1 * p.2) - N * B * lsum P (·.1) - N * A * lsum P (·.2) + (P.length : ℝ) * (A * B) := by
  induction P with
  | nil => simp
  | cons p P ih => simp only [lsum_cons, ih, List.length_cons, Nat.cast_add, Nat.cast_one]; ring

/-- Cauchy–Schwarz applied to the centred (scaled by `n`) samples -/
theorem pearson_num_sq_le_aux (P : List (ℝ × ℝ)) (n A B : ℝ) (hn : (P.length : ℝ) = n)
    (hA : lsum P (·.1) = A) (hB : lsum P (·.2) = B) (hnpos : 0 < n) :
    (n * lsum P (fun p => p.1 * p.2) - A * B) ^ 2 ≤
      (n * lsum P (fun p => p.1 * p.1) - A ^ 2) * (n * lsum P (fun p => p.2 * p.2) - B ^ 2) := by
  have cs := lsum_cauchy_schwarz P (fun p => n * p.1 - A) (fun p => n * p.2 - B)
  have e12 := lsum_centered P n A B
  have e11 : lsum P (fun p => (n * p.1 - A) * (n * p.1 - A)) =
      n * n * lsum P (fun p => p.1 * p.1) - n * A * lsum P (·.1) - n * A * lsum P (·.1) + (P.length : ℝ) * (A * A) := by
    have := lsum_centered (P.map (fun p => (p.1, p.1))) n A A
    simpa [lsum, Function.comp_def] using this
  have e22 : lsum P (fun p => (n * p.2 - B) * (n * p.2 - B)) =
      n * n * lsum P (fun p => p.2 * p.2) - n * B * lsum P (·.2) - n * B * lsum P (·.2) + (P.length : ℝ) * (B * B) := by
    have := lsum_centered (P.map (fun p => (p.2, p.2))) n B B
    simpa [lsum, Function.comp_def] using this
  rw [e12, e11, e22, hA, hB, hn] at cs
  have h1 : n * n * lsum P (fun p => p.1 * p.2) - n * B * A - n * A * B + n * (A * B) =
      n * (n * lsum P (fun p => p.1 * p.2) - A * B) := by ring
  have h2 : n * n * lsum P (fun p => p.1 * p.1) - n * A * A - n * A * A + n * (A * A) =
      n * (n * lsum P (fun p => p.1 * p.1) - A ^ 2) := by ring
  have h3 : n * n * lsum P (fun p => p.2 * p.2) - n * B * B - n * B * B + n * (B * B) =
      n * (n * lsum P (fun p => p.2 * p.2) - B ^ 2) := by ring
  rw [h1, h2, h3] at cs
  have hn2 : 0 < n * n := mul_pos hnpos hnpos
  have : n * n * (n * lsum P (fun p => p.1 * p.2) - A * B) ^ 2 ≤
      n * n * ((n * lsum P (fun p => p.1 * p.1) - A ^ 2) * (n * lsum P (fun p => p.2 * p.2) - B ^ 2)) := by
    nlinarith [cs]
  exact le_of_mul_le_mul_left this hn2

/-- the squared numerator is bounded by the product under the root -/
theorem pearson_num_sq_le (P : List (ℝ × ℝ)) (hP : P ≠ []) :
    ((P.length : ℝ) * lsum P (fun p => p.1 * p.2) - lsum P (·.1) * lsum P (·.2)) ^ 2 ≤
      ((P.length : ℝ) * lsum P (fun p => p.1 * p.1) - lsum P (·.1) ^ 2) *
      ((P.length : ℝ) * lsum P (fun p => p.2 * p.2) - lsum P (·.2) ^ 2) :=
  pearson_num_sq_le_aux P _ _ _ rfl rfl rfl (by exact_mod_cast List.length_pos_of_ne_nil hP)

/-- **T16.4 |r| ≤ 1** (Cauchy–Schwarz).  The hypothesis excludes the 0/0 of constant samples. -/
theorem pearson_abs_le_one (x y : List ℝ) (h : x.length = y.length)
    (hden : 0 < ((x.length : ℝ) * lsum (zip x y) (fun p => p.1 * p.1) - lsum (zip x y) (·.1) ^ 2) *
                ((x.length : ℝ) * lsum (zip x y) (fun p => p.2 * p.2) - lsum (zip x y) (·.2) ^ 2)) :
    |pearson x y| ≤ 1 := by
  have hx : x ≠ [] := by
    rintro rfl
    simp at hden
  have hP : zip x y ≠ [] := by
    cases x with
    | nil => exact absurd rfl hx
    | cons a t => cases y with
      | nil => simp at h
      | cons b u => simp
  have hlen : ((zip x y).length : ℝ) = (x.length : ℝ) := by simp [h]
  have key := pearson_num_sq_le (zip x y) hP
  rw [hlen] at key
  rw [pearson_eq x y h, abs_div, abs_of_pos (Real.sqrt_pos.2 hden), div_le_one (Real.sqrt_pos.2 hden)]
  exact Real.abs_le_sqrt key

end pearson

/-! ### Spearman -/

/-- in a strictly increasing list exactly `k` entries are smaller than the `k`-th -/
theorem countP_lt_strictSorted {s : List α} (hs : s.Pairwise (· < ·)) (k : Nat) (hk : k < s.length) :
    s.countP (fun u => decide (u < s[k])) = k := by
  rw [List.pairwise_iff_getElem] at hs
  have key : ∀ p : α → Bool, s.countP p = (s.take k).countP p + (s.drop k).countP p := by
    intro p; rw [← List.countP_append, List.take_append_drop]
  rw [key]
  have h0 : (s.drop k).countP (fun u => decide (u < s[k])) = 0 := by
    rw [List.countP_eq_zero]
    intro a ha
    obtain ⟨j, hj, rfl⟩ := List.mem_iff_getElem.1 ha
    simp only [List.getElem_drop, decide_eq_true_eq, not_lt]
    rcases Nat.eq_zero_or_pos j with rfl | hjpos
    · simp
    · exact le_of_lt (hs k (k + j) hk (by simp at hj; omega) (by omega))
  have h1 : (s.take k).countP (fun u => decide (u < s[k])) = (s.take k).length := by
    rw [List.countP_eq_length]
    intro a ha
    obtain ⟨j, hj, rfl⟩ := List.mem_iff_getElem.1 ha
    simp only [List.getElem_take, decide_eq_true_eq]
    exact hs j k (by simp at hj; omega) hk (by simp at hj; omega)
  rw [h0, h1]; simp; omega

/-- **T16.4 ranks**: for tie-free `x`, `_get_ranks(x)[j]` = number of samples smaller than `x[j]` -/
theorem ranks_eq (x : Array α) (hx : x.toList.Nodup) :
    ranks x = x.toList.map (fun v => x.toList.countP (fun u => decide (u < v))) := by
  have hperm := sortIdx_perm x true
  have hnd : (sortIdx x true).Nodup := hperm.nodup_iff.2 (List.nodup_finRange _)
  have hgp : (gather x (sortIdx x true)).Perm x.toList := by
    rw [← gather_finRange x]; exact hperm.map _
  have hstrict : (gather x (sortIdx x true)).Pairwise (· < ·) := by
    have h1 : (gather x (sortIdx x true)).Pairwise (· ≤ ·) := by
      simpa [leB_true_iff] using sortIdx_sorted x true
    have h2 : (gather x (sortIdx x true)).Nodup := hgp.nodup_iff.2 hx
    exact (h1.and h2).imp (fun ⟨hle, hne⟩ => lt_of_le_of_ne hle hne)
  apply List.ext_getElem
  · simp [ranks]
  · intro j h1 h2
    have hj : j < x.size := by simpa [ranks] using h1
    simp only [ranks, List.getElem_map, List.getElem_finRange, Array.getElem_toList]
    set J : Fin x.size := Fin.cast (by simp) (⟨j, by simpa using hj⟩ : Fin (List.finRange x.size).length) with hJ
    have hmem : J ∈ sortIdx x true := hperm.symm.subset (List.mem_finRange J)
    have hk : (sortIdx x true).idxOf J < (sortIdx x true).length := List.idxOf_lt_length_of_mem hmem
    have hget : (sortIdx x true)[(sortIdx x true).idxOf J] = J := List.getElem_idxOf hk
    have hk' : (sortIdx x true).idxOf J < (gather x (sortIdx x true)).length := by simpa [gather] using hk
    have hs : (gather x (sortIdx x true))[(sortIdx x true).idxOf J] = x[j] := by
      simp only [gather, List.getElem_map, hget]; rfl
    rw [← hgp.countP_eq]
    have := countP_lt_strictSorted hstrict _ hk'
    simp only [hs] at this
    exact this.symm


/-- rank of every sample of a tie-free array as a real number: how many samples are smaller -/
noncomputable def realRanks (x : Array ℝ) : List ℝ :=
  x.toList.map (fun v => ((x.toList.countP (fun u => decide (u < v)) : ℕ) : ℝ))

/-- **T16.4 Spearman's ρ = Pearson's r of the ranks** (tie-free samples) -/
theorem spearman_eq (x y : Array ℝ) (hx : x.toList.Nodup) (hy : y.toList.Nodup) :
    spearman x y = pearson (realRanks x) (realRanks y) := by
  unfold spearman realRanks
  rw [ranks_eq x hx, ranks_eq y hy]
  simp [Function.comp_def]

/-- **T16.4 Spearman is symmetric** -/
theorem spearman_symm (x y : Array ℝ) (h : x.size = y.size) (hx : x.toList.Nodup) (hy : y.toList.Nodup) :
    spearman x y = spearman y x := by
  rw [spearman_eq x y hx hy, spearman_eq y x hy hx]
  exact pearson_symm _ _ (by simp [realRanks, h])

/-- **|ρ| ≤ 1** (the hypothesis excludes the 0/0 of samples of length < 2) -/
theorem spearman_abs_le_one (x y : Array ℝ) (h : x.size = y.size) (hx : x.toList.Nodup) (hy : y.toList.Nodup)
    (hden : 0 < (((realRanks x).length : ℝ) * lsum (zip (realRanks x) (realRanks y)) (fun p => p.1 * p.1) -
                  lsum (zip (realRanks x) (realRanks y)) (·.1) ^ 2) *
                (((realRanks x).length : ℝ) * lsum (zip (realRanks x) (realRanks y)) (fun p => p.2 * p.2) -
                  lsum (zip (realRanks x) (realRanks y)) (·.2) ^ 2)) :
    |spearman x y| ≤ 1 := by
  rw [spearman_eq x y hx hy]
  exact pearson_abs_le_one _ _ (by simp [realRanks, h]) hden

theorem mem_zip_self {x : List ℝ} {p : ℝ × ℝ} (hp : p ∈ zip x x) : p.1 = p.2 := by
  induction x with
  | nil => simp at hp
  | cons a t ih =>
    simp only [List.zip_cons_cons, List.mem_cons] at hp
    rcases hp with rfl | hp
    · rfl
    · exact ih hp

/-- Pearson of a sample with itself is 1 (non-constant sample) -/
theorem pearson_self (x : List ℝ)
    (hV : 0 < (x.length : ℝ) * lsum (zip x x) (fun p => p.1 * p.1) - lsum (zip x x) (·.1) ^ 2) :
    pearson x x = 1 := by
  have e1 : lsum (zip x x) (fun p => p.1 * p.2) = lsum (zip x x) (fun p => p.1 * p.1) := by
    unfold lsum; congr 1; apply List.map_congr_left
    intro p hp; rw [← mem_zip_self hp]
  have e2 : lsum (zip x x) (fun p => p.2 * p.2) = lsum (zip x x) (fun p => p.1 * p.1) := by
    unfold lsum; congr 1; apply List.map_congr_left
    intro p hp; rw [← mem_zip_self hp]
  have e3 : lsum (zip x x) (·.2) = lsum (zip x x) (·.1) := by
    unfold lsum; congr 1; apply List.map_congr_left
    intro p hp; rw [← mem_zip_self hp]
  rw [pearson_eq x x rfl, e1, e2, e3, ← sq, Real.sqrt_mul_self (le_of_lt hV), div_self (ne_of_gt hV)]

end Dsp.C16
