import DspVerif.Props.C18
import DspVerif.Props.C01Total
import DspVerif.Props.C07
/-!
# C18 — `finddelay` and the detector's correlation WITHOUT any transform hypothesis

`Props/C18.lean` proves `finddelay_of_circ_xcorr` for every transform pair satisfying the circular cross-correlation theorem
(`CircXc`) and `callCorr_from_rest` for every pair satisfying C07's circular convolution theorem (`C07.CircConv`).
This file DISCHARGES both hypotheses for the instantiation the driver runs (`Driver/H18.lean`: `fftr18`, `fftc18`, `ifft18` —
the C01 model of the library's plan family `Fft.fftR` / `Fft.fftC` at the length of the argument, and `IfftPlan::solve` =
`Fft.ifftWith` on top of the forward plan of the argument's length), here at `ℝ` (`fftrL`, `fftcL`, `ifftL`), using the
unconditional C01 theorems `C01.fftC_eq` / `C01.fftR_eq` (`Props/C01Total.lean`) and `C01.ifftWith_eq`.

The only hypotheses left are `LitsOK lit` (the three literals of the small kernels denote `√½`, `√½`, `√¾`; `litsOK_exact`) and
the transform length `< 2^31` (the `int` range).  All statements are exact (`ℝ`/`ℂ` arithmetic): the fft/ifft round trip is
exact only there; rounding is not modelled.

* `fftC_size`, `fftR_size`          the plans return `n` samples (every branch of the plan selection)
* `fftcL_spec`, `fftrL_spec`, `ifftL_spec`   array level: size and every bin, in the `getD … 0` vocabulary of C07/C18
* `circConv_lib`                    `C07.CircConv (fftcL lit) (ifftL lit) N`, every `0 < N < 2^31`
* `circXc_lib_cmplx`, `circXc_lib_real`   `CircXc` for `fft(arr_cmplx)` / `fft(arr_real)`, every `0 < N < 2^31`
* `finddelay_total_cmplx`, `finddelay_total_real`   MAIN (T18.3): if the circular cross-correlation SUM of the zero-padded input
  samples has its strict maximum at the lag of a shift `d`, `-nfft ≤ 2d < nfft`, `finddelay` with the library FFT returns `d`
* `callCorr_from_rest_total`        MAIN (T18.4): the detector's normalised correlation from rest, with the library FFT, is
  `|FirFilter(flip(h)/(rms·nh))|² / (FirFilter(1/nh)(|x|²) + eps)`
* `detector_first_call_total`, `detector_first_call_silent_total`   T18.4 end to end for the first call, hypotheses on the direct
  FIR quantities only
-/
open Finset Dsp Dsp.Detect Dsp.MathFns Dsp.Fir

namespace Dsp.C18
open Dsp.Fft (Lits Vec)
open Dsp.C01 (LitsOK litsOK_exact)

/-! ## the driver's instantiation of the transform parameters, at `ℝ` -/

/-- `fft(const arr_cmplx&)` as `Driver/H18.lean` instantiates it (`fftc18`): the plan of the argument's length -/
noncomputable def fftcL (lit : Lits ℝ) (x : Array (Cx ℝ)) : Array (Cx ℝ) := Fft.fftC lit x.size x
/-- `fft(const arr_real&)` (`fftr18`) -/
noncomputable def fftrL (lit : Lits ℝ) (x : Array ℝ) : Array (Cx ℝ) := Fft.fftR lit x.size x
/-- `ifft(const arr_cmplx&)` (`ifft18`): `IfftPlan::solve` on top of the forward plan of the argument's length -/
noncomputable def ifftL (lit : Lits ℝ) (x : Array (Cx ℝ)) : Array (Cx ℝ) := Fft.ifftWith (Fft.fftC lit x.size) x.size x

/-! ## the plans return `n` samples -/

theorem stages_size (n : ℕ) (cf : Vec ℝ) (s : ℕ) (y : Vec ℝ) (hy : y.size = n) : (Fft.stages n cf s y).size = n := by
  cases s with
  | zero => simpa [Fft.stages] using hy
  | succ s => simp [Fft.stages]

theorem pow2fft_size (n : ℕ) (x : Vec ℝ) : (Fft.pow2fft n x).size = n := by
  unfold Fft.pow2fft
  exact stages_size _ _ _ _ (by simp)

theorem smallC_size (lit : Lits ℝ) (n : ℕ) (hs : Fft.isSmall n = true) (x : Vec ℝ) : (Fft.smallC lit n x).size = n := by
  rcases (C01.isSmall_iff n).1 hs with h | h | h | h <;> subst h <;> simp [Fft.smallC]

theorem smallR_size (lit : Lits ℝ) (n : ℕ) (hs : Fft.isSmall n = true) (x : Array ℝ) : (Fft.smallR lit n x).size = n := by
  rcases (C01.isSmall_iff n).1 hs with h | h | h | h <;> subst h <;> simp [Fft.smallR]

theorem fftPrime_size (lit : Lits ℝ) (n : ℕ) (x : Vec ℝ) : (Fft.fftPrime lit n x).size = n := by
  unfold Fft.fftPrime
  split
  · rename_i h; subst h; simp
  · split
    · simp [Fft.dftSlow]
    · simp [Fft.czt]

theorem fftLeaf_size (lit : Lits ℝ) (n : ℕ) (x : Vec ℝ) : (Fft.fftLeaf lit n x).size = n := by
  unfold Fft.fftLeaf
  split
  · rename_i h; exact smallC_size lit n h x
  · split
    · exact fftPrime_size lit n x
    · exact pow2fft_size n x

theorem facfft_size (leaf : ℕ → Vec ℝ → Vec ℝ) (hleaf : ∀ m x, (leaf m x).size = m) (tw : Vec ℝ) (headN : ℕ)
    (p : Fft.Plan) (x : Vec ℝ) : (Fft.facfft leaf tw headN p x).size = p.size := by
  cases p with
  | leaf m => simpa [Fft.facfft, Fft.Plan.size] using hleaf m x
  | node P Q p q => simp [Fft.facfft, Fft.Plan.size]

/-- `FftPlan(n).solve` returns `n` samples, every `0 < n < 2^31` and every branch of `create_fft_plan` -/
theorem fftC_size (lit : Lits ℝ) (hl : LitsOK lit) (n : ℕ) (hn : 0 < n) (hlt : n < 2 ^ 31) (x : Vec ℝ) :
    (Fft.fftC lit n x).size = n := by
  unfold Fft.fftC
  split
  · rename_i h; exact smallC_size lit n h x
  · rename_i hs
    split
    · exact fftPrime_size lit n x
    · split
      · exact pow2fft_size n x
      · unfold Fft.fftFactor
        rw [facfft_size _ (fftLeaf_size lit)]
        exact (C01.hfac_total lit hl n (C01.two_le_of_not_small n hn (by simpa using hs)) hlt).2.1

/-- `FftPlanR(n).solve` returns `n` samples -/
theorem fftR_size (lit : Lits ℝ) (hl : LitsOK lit) (n : ℕ) (hn : 0 < n) (hlt : n < 2 ^ 31) (x : Array ℝ) :
    (Fft.fftR lit n x).size = n := by
  unfold Fft.fftR
  split
  · rename_i h; exact smallR_size lit n h x
  · rename_i hs
    split
    · exact fftPrime_size lit n _
    · split
      · simp [Fft.rfftPacked]
      · unfold Fft.fftFactor
        rw [facfft_size _ (fftLeaf_size lit)]
        exact (C01.hfac_total lit hl n (C01.two_le_of_not_small n hn (by simpa using hs)) hlt).2.1

/-! ## array-level statements of C01 for the driver's instantiation (`getD … 0`, the vocabulary of C07 / C18) -/

theorem fzero_eq : (Fft.zero : Cx ℝ) = 0 := by apply Cx.ext' <;> simp [Fft.zero]

theorem toC_emb (v : ℝ) : Cx.toC (⟨v, 0⟩ : Cx ℝ) = (v : ℂ) := by apply Complex.ext <;> simp

theorem seq_eq (a : Array (Cx ℝ)) : Fft.seq a = fun m => Cx.toC (a.getD m 0) := by
  funext m; simp only [Fft.seq, Fft.rd, fzero_eq]

theorem seqR_eq (a : Array ℝ) : Fft.seqR a = fun m => ((a.getD m 0 : ℝ) : ℂ) := by
  funext m; simp [Fft.seqR, Fft.rdR]

/-- `fft(arr_cmplx)` of the library model: `N` bins, bin `k` is the DFT of the samples -/
theorem fftcL_spec (lit : Lits ℝ) (hl : LitsOK lit) (N : ℕ) (hN : 0 < N) (hlt : N < 2 ^ 31) (a : Array (Cx ℝ)) (ha : a.size = N) :
    (fftcL lit a).size = N ∧
    ∀ k, k < N → Cx.toC ((fftcL lit a).getD k 0) = dft N (fun m => Cx.toC (a.getD m 0)) k := by
  subst ha
  refine ⟨fftC_size lit hl _ hN hlt a, fun k hk => ?_⟩
  have := C01.fftC_eq lit hl _ hN hlt a k hk
  simpa only [fftcL, seq_eq, Fft.rd, fzero_eq] using this

/-- `fft(arr_real)` of the library model -/
theorem fftrL_spec (lit : Lits ℝ) (hl : LitsOK lit) (N : ℕ) (hN : 0 < N) (hlt : N < 2 ^ 31) (a : Array ℝ) (ha : a.size = N) :
    (fftrL lit a).size = N ∧
    ∀ k, k < N → Cx.toC ((fftrL lit a).getD k 0) = dft N (fun m => ((a.getD m 0 : ℝ) : ℂ)) k := by
  subst ha
  refine ⟨fftR_size lit hl _ hN hlt a, fun k hk => ?_⟩
  have := C01.fftR_eq lit hl _ hN hlt a k hk
  simpa only [fftrL, seqR_eq, Fft.rd, fzero_eq] using this

/-- `ifft(arr_cmplx)` of the library model (`IfftPlan::solve` over the library's forward plan): `N` samples, sample `t` is the
inverse DFT of the bins -/
theorem ifftL_spec (lit : Lits ℝ) (hl : LitsOK lit) (N : ℕ) (hN : 0 < N) (hlt : N < 2 ^ 31) (P : Array (Cx ℝ)) (hP : P.size = N) :
    (ifftL lit P).size = N ∧
    ∀ t, t < N → Cx.toC ((ifftL lit P).getD t 0) = C07.idft N (fun k => Cx.toC (P.getD k 0)) t := by
  subst hP
  refine ⟨by simp [ifftL, Fft.ifftWith], fun t ht => ?_⟩
  have := C01.ifftWith_eq (Fft.fftC lit P.size) P.size (C01.fftC_eq lit hl _ hN hlt) P t ht
  simpa only [ifftL, seq_eq, Fft.rd, fzero_eq] using this

/-- `ifft(A * B)` for two spectra of `N` bins whose values are known in `ℂ` -/
theorem ifft_mul_spec (lit : Lits ℝ) (hl : LitsOK lit) (N : ℕ) (hN : 0 < N) (hlt : N < 2 ^ 31) (A B : Array (Cx ℝ))
    (hA : A.size = N) (f g : ℕ → ℂ) (hf : ∀ k, k < N → Cx.toC (A.getD k 0) = f k) (hg : ∀ k, k < N → Cx.toC (B.getD k 0) = g k) :
    (ifftL lit (mulv 0 A B)).size = N ∧
    ∀ t, t < N → Cx.toC ((ifftL lit (mulv 0 A B)).getD t 0) = C07.idft N (fun k => f k * g k) t := by
  have hs : (mulv 0 A B).size = N := by simp [mulv, hA]
  obtain ⟨h1, h2⟩ := ifftL_spec lit hl N hN hlt _ hs
  refine ⟨h1, fun t ht => ?_⟩
  rw [h2 t ht]
  apply C07.idft_congr
  intro k hk
  unfold mulv
  rw [C07.getD_ofFn, dif_pos (by rw [hA]; exact hk), Cx.toC_mul, hf k hk, hg k hk]

/-! ## the hypotheses of `Props/C18.lean`, discharged -/

/-- **C07's `CircConv` for the library's transform pair**, every length `0 < N < 2^31`:
`ifft(fft a · fft b)[t] = Σ_n a[n]·b[(t-n) mod N]` -/
theorem circConv_lib (lit : Lits ℝ) (hl : LitsOK lit) (N : ℕ) (hN : 0 < N) (hlt : N < 2 ^ 31) :
    C07.CircConv (fftcL lit) (ifftL lit) N := by
  intro a b ha hb
  obtain ⟨a1, a2⟩ := fftcL_spec lit hl N hN hlt a ha
  obtain ⟨_, b2⟩ := fftcL_spec lit hl N hN hlt b hb
  obtain ⟨h1, h2⟩ := ifft_mul_spec lit hl N hN hlt _ _ a1 _ _ a2 b2
  refine ⟨h1, fun t ht => ?_⟩
  apply Cx.toC_injective
  rw [h2 t ht, C07.circ_conv_dft N hN _ _ t ht, ← Cx.toCHom_apply, map_sum]
  apply Finset.sum_congr rfl
  intro n _
  rw [Cx.toCHom_apply, Cx.toC_mul]

/-- **`CircXc` for `fft(arr_cmplx)` / `ifft` of the library**, every length `0 < N < 2^31`:
`ifft(fft a · conj(fft b))[t] = Σ_n a[(n+t) mod N]·conj(b[n])` -/
theorem circXc_lib_cmplx (lit : Lits ℝ) (hl : LitsOK lit) (N : ℕ) (hN : 0 < N) (hlt : N < 2 ^ 31) :
    CircXc (czero : Cx ℝ) id (fftcL lit) (ifftL lit) N := by
  intro a b ha hb
  rw [czero_eq]
  obtain ⟨a1, a2⟩ := fftcL_spec lit hl N hN hlt a ha
  obtain ⟨_, b2⟩ := fftcL_spec lit hl N hN hlt b hb
  have b3 : ∀ k, k < N → Cx.toC (((fftcL lit b).map Cx.conj).getD k 0) =
      (starRingEnd ℂ) (dft N (fun m => Cx.toC (b.getD m 0)) k) := by
    intro k hk
    rw [C07.getD_map' Cx.conj _ k 0 0 C07.conj_zero, Cx.toC_conj, b2 k hk]
  obtain ⟨h1, h2⟩ := ifft_mul_spec lit hl N hN hlt _ _ a1 _ _ a2 b3
  refine ⟨h1, fun t ht => ?_⟩
  apply Cx.toC_injective
  rw [h2 t ht, circ_xcorr_dft N hN _ _ t ht, ← Cx.toCHom_apply, map_sum]
  apply Finset.sum_congr rfl
  intro n _
  rw [Cx.toCHom_apply, Cx.toC_mul, Cx.toC_conj]
  rfl

/-- **`CircXc` for `fft(arr_real)` / `ifft` of the library** (samples embedded as `v + 0i`), every length `0 < N < 2^31` -/
theorem circXc_lib_real (lit : Lits ℝ) (hl : LitsOK lit) (N : ℕ) (hN : 0 < N) (hlt : N < 2 ^ 31) :
    CircXc (0 : ℝ) (fun v => (⟨v, 0⟩ : Cx ℝ)) (fftrL lit) (ifftL lit) N := by
  intro a b ha hb
  rw [czero_eq]
  obtain ⟨a1, a2⟩ := fftrL_spec lit hl N hN hlt a ha
  obtain ⟨_, b2⟩ := fftrL_spec lit hl N hN hlt b hb
  have b3 : ∀ k, k < N → Cx.toC (((fftrL lit b).map Cx.conj).getD k 0) =
      (starRingEnd ℂ) (dft N (fun m => ((b.getD m 0 : ℝ) : ℂ)) k) := by
    intro k hk
    rw [C07.getD_map' Cx.conj _ k 0 0 C07.conj_zero, Cx.toC_conj, b2 k hk]
  obtain ⟨h1, h2⟩ := ifft_mul_spec lit hl N hN hlt _ _ a1 _ _ a2 b3
  refine ⟨h1, fun t ht => ?_⟩
  apply Cx.toC_injective
  rw [h2 t ht, circ_xcorr_dft N hN _ _ t ht, ← Cx.toCHom_apply, map_sum]
  apply Finset.sum_congr rfl
  intro n _
  rw [Cx.toCHom_apply, Cx.toC_mul, Cx.toC_conj, toC_emb, toC_emb]

/-! ## T18.3 `finddelay` with the library FFT — no transform hypothesis -/

/-- the circular cross-correlation of the zero-padded operands (`nfft = 2^nextpow2(max(len x1, len x2))`), complex samples:
`c(t) = Σ_{n<nfft} s1[(n+t) mod nfft]·conj(s2[n])` — a sum over the INPUT SAMPLES -/
noncomputable def cxcorrC (x1 x2 : Array (Cx ℝ)) (t : ℕ) : Cx ℝ :=
  ∑ n ∈ range (fdLen x1.size x2.size),
    (Fir.zeropad 0 x1 (fdLen x1.size x2.size)).getD ((n + t) % fdLen x1.size x2.size) 0 *
      Cx.conj ((Fir.zeropad 0 x2 (fdLen x1.size x2.size)).getD n 0)

/-- the same for real samples: `c(t) = Σ_{n<nfft} s1[(n+t) mod nfft]·s2[n]` -/
noncomputable def cxcorrR (x1 x2 : Array ℝ) (t : ℕ) : ℝ :=
  ∑ n ∈ range (fdLen x1.size x2.size),
    (Fir.zeropad 0 x1 (fdLen x1.size x2.size)).getD ((n + t) % fdLen x1.size x2.size) 0 *
      (Fir.zeropad 0 x2 (fdLen x1.size x2.size)).getD n 0

/-- a sample of the zero-padded operand is the input sample inside the input, `0` behind it -/
theorem getD_zeropad0 {R : Type} [Zero R] (x : Array R) (N i : ℕ) :
    (Fir.zeropad 0 x N).getD i 0 = if i < x.size then x.getD i 0 else 0 := by
  unfold Fir.zeropad
  rw [C07.getD_append]
  split
  · rfl
  · exact C07.getD_replicate _ _ _

theorem fdLen_pos (n1 n2 : ℕ) : 0 < fdLen n1 n2 := by unfold fdLen; positivity

/-- **C18 / T18.3, `finddelay(arr_cmplx, arr_cmplx)` with the library's FFT — unconditional.**  If the circular
cross-correlation `c(t) = Σ_n s1[(n+t) mod nfft]·conj(s2[n])` of the zero-padded inputs has its strict `|·|²`-maximum at the lag
`m = (-d) mod nfft` of a shift `d` with `-nfft ≤ 2d < nfft`, then `finddelay(x1, x2) = d`.  No hypothesis on the transforms: `fft` is
the C01 model of the library's plan family, `ifft` is `IfftPlan::solve`; only the literals and `nfft < 2^31`. -/
theorem finddelay_total_cmplx (lit : Lits ℝ) (hl : LitsOK lit) (x1 x2 : Array (Cx ℝ)) (hb : fdLen x1.size x2.size < 2 ^ 31)
    (d : ℤ) (m : ℕ) (hm : m < fdLen x1.size x2.size)
    (hpeak : ∀ j, j < fdLen x1.size x2.size → j ≠ m → Cx.abs2 (cxcorrC x1 x2 j) < Cx.abs2 (cxcorrC x1 x2 m))
    (hlag : (m : ℤ) = (-d) % (fdLen x1.size x2.size : ℤ))
    (hd1 : -(fdLen x1.size x2.size : ℤ) ≤ 2 * d) (hd2 : 2 * d < fdLen x1.size x2.size) :
    finddelayC (fftcL lit) (ifftL lit) x1 x2 = d := by
  have H := circXc_lib_cmplx lit hl _ (fdLen_pos x1.size x2.size) hb
  unfold finddelayC
  rw [czero_eq] at H ⊢
  exact finddelay_of_circ_xcorr 0 id (fftcL lit) (ifftL lit) x1 x2 H d m hm hpeak hlag hd1 hd2

/-- the same with the lag index eliminated: the strict maximum is at `(-d) mod nfft` -/
theorem finddelay_total_cmplx' (lit : Lits ℝ) (hl : LitsOK lit) (x1 x2 : Array (Cx ℝ)) (hb : fdLen x1.size x2.size < 2 ^ 31)
    (d : ℤ) (hd1 : -(fdLen x1.size x2.size : ℤ) ≤ 2 * d) (hd2 : 2 * d < fdLen x1.size x2.size)
    (hpeak : ∀ j, j < fdLen x1.size x2.size → j ≠ ((-d) % (fdLen x1.size x2.size : ℤ)).toNat →
      Cx.abs2 (cxcorrC x1 x2 j) < Cx.abs2 (cxcorrC x1 x2 ((-d) % (fdLen x1.size x2.size : ℤ)).toNat)) :
    finddelayC (fftcL lit) (ifftL lit) x1 x2 = d := by
  have hpos : (0 : ℤ) < fdLen x1.size x2.size := by exact_mod_cast fdLen_pos x1.size x2.size
  have h0 := Int.emod_nonneg (-d) hpos.ne'
  have h1 := Int.emod_lt_of_pos (-d) hpos
  exact finddelay_total_cmplx lit hl x1 x2 hb d _ (by omega) hpeak (by omega) hd1 hd2

/-- the complex correlation sum of real samples embedded as `v + 0i` is the real sum -/
theorem sum_emb (N : ℕ) (f g : ℕ → ℝ) :
    (∑ n ∈ range N, (⟨f n, 0⟩ : Cx ℝ) * Cx.conj (⟨g n, 0⟩ : Cx ℝ)) = ⟨∑ n ∈ range N, f n * g n, 0⟩ := by
  apply Cx.toC_injective
  rw [← Cx.toCHom_apply, map_sum, toC_emb]
  push_cast
  apply Finset.sum_congr rfl
  intro n _
  rw [Cx.toCHom_apply, Cx.toC_mul, Cx.toC_conj, toC_emb, toC_emb, Complex.conj_ofReal]

/-- **C18 / T18.3, `finddelay(arr_real, arr_real)` with the library's FFT — unconditional.**  If the circular cross-correlation
`c(t) = Σ_n s1[(n+t) mod nfft]·s2[n]` of the zero-padded real inputs has its strict maximum of `c(t)²` (what `argmax(arr_cmplx)`
compares, the imaginary parts being zero) at the lag `m = (-d) mod nfft` of a shift `d` with `-nfft ≤ 2d < nfft`, then
`finddelay(x1, x2) = d`. -/
theorem finddelay_total_real (lit : Lits ℝ) (hl : LitsOK lit) (x1 x2 : Array ℝ) (hb : fdLen x1.size x2.size < 2 ^ 31)
    (d : ℤ) (m : ℕ) (hm : m < fdLen x1.size x2.size)
    (hpeak : ∀ j, j < fdLen x1.size x2.size → j ≠ m → cxcorrR x1 x2 j ^ 2 < cxcorrR x1 x2 m ^ 2)
    (hlag : (m : ℤ) = (-d) % (fdLen x1.size x2.size : ℤ))
    (hd1 : -(fdLen x1.size x2.size : ℤ) ≤ 2 * d) (hd2 : 2 * d < fdLen x1.size x2.size) :
    finddelayR (fftrL lit) (ifftL lit) x1 x2 = d := by
  have H := circXc_lib_real lit hl _ (fdLen_pos x1.size x2.size) hb
  have h0 : (Fn.ofNat 0 : ℝ) = 0 := by simp
  unfold finddelayR
  rw [h0]
  refine finddelay_of_circ_xcorr 0 (fun v => (⟨v, 0⟩ : Cx ℝ)) (fftrL lit) (ifftL lit) x1 x2 H d m hm ?_ hlag hd1 hd2
  intro j hj hne
  have e : ∀ t, (∑ n ∈ range (fdLen x1.size x2.size),
      (⟨(Fir.zeropad 0 x1 (fdLen x1.size x2.size)).getD ((n + t) % fdLen x1.size x2.size) 0, 0⟩ : Cx ℝ) *
        Cx.conj (⟨(Fir.zeropad 0 x2 (fdLen x1.size x2.size)).getD n 0, 0⟩ : Cx ℝ)) = ⟨cxcorrR x1 x2 t, 0⟩ := fun t => sum_emb _ _ _
  rw [e j, e m]
  have := hpeak j hj hne
  simpa [Cx.abs2, sq] using this

theorem finddelay_total_real' (lit : Lits ℝ) (hl : LitsOK lit) (x1 x2 : Array ℝ) (hb : fdLen x1.size x2.size < 2 ^ 31)
    (d : ℤ) (hd1 : -(fdLen x1.size x2.size : ℤ) ≤ 2 * d) (hd2 : 2 * d < fdLen x1.size x2.size)
    (hpeak : ∀ j, j < fdLen x1.size x2.size → j ≠ ((-d) % (fdLen x1.size x2.size : ℤ)).toNat →
      cxcorrR x1 x2 j ^ 2 < cxcorrR x1 x2 ((-d) % (fdLen x1.size x2.size : ℤ)).toNat ^ 2) :
    finddelayR (fftrL lit) (ifftL lit) x1 x2 = d := by
  have hpos : (0 : ℤ) < fdLen x1.size x2.size := by exact_mod_cast fdLen_pos x1.size x2.size
  have h0 := Int.emod_nonneg (-d) hpos.ne'
  have h1 := Int.emod_lt_of_pos (-d) hpos
  exact finddelay_total_real lit hl x1 x2 hb d _ (by omega) hpeak (by omega) hd1 hd2

/-! ## T18.4 the detector's correlation with the library FFT — no transform hypothesis -/

/-- the normalised correlation written with the DIRECT filters of C07 only:
`|FirFilter(flip(h)/(rms(h)·nh))(sig)[i]|² / (FirFilter(nh taps 1/nh)(|sig|²)[i] + eps)` -/
noncomputable def firCorr (h sig : Array (Cx ℝ)) (i : ℕ) : ℝ :=
  Cx.abs2 ((firProcessC (firInitC (convertImpulse h)) sig).2.getD i 0) /
    ((firProcessR (firInitR (Array.replicate h.size (1 / (h.size : ℝ)))) (sig.map Cx.abs2)).2.getD i 0 + eps)

/-- **C18 / T18.4 (what is correlated, from rest) with the library's FFT — unconditional.**  For the first call after
construction, every preamble of `nh ≥ 1` taps with `fft_len = 2^nextpow2(2·nh) < 2^31`, every call length that is a multiple of
`frame_len()`: the overlap-add correlation filter (library `fft` / `ifft`) emits as many samples as the call has, and the
normalised correlation at index `i` is `firCorr h sig i` (C07's direct FIR filter of the flipped normalised preamble over C07's
moving average of the power). -/
theorem callCorr_from_rest_total (lit : Lits ℝ) (hl : LitsOK lit) (h : Array (Cx ℝ)) (thr : ℝ) (hm : 1 ≤ h.size)
    (hb : 2 ^ nextpow2 (2 * h.size) < 2 ^ 31) (sig : Array (Cx ℝ))
    (hfl : sig.size % (detInit (fftcL lit) h thr).frameLen = 0) :
    (fftProcessC (fftcL lit) (ifftL lit) (detInit (fftcL lit) h thr).corr sig).2.size = sig.size ∧
    ∀ i, i < sig.size → (callCorr (fftcL lit) (ifftL lit) (detInit (fftcL lit) h thr) sig).getD i 0 = firCorr h sig i :=
  callCorr_from_rest (fftcL lit) (ifftL lit) h thr hm (circConv_lib lit hl _ (Nat.two_pow_pos _) hb) sig hfl

/-- `frame_len()` of the detector does not depend on the transform: `2^nextpow2(2·nh) + 1 - nh` -/
theorem detInit_frameLen (fftc : Array (Cx ℝ) → Array (Cx ℝ)) (h : Array (Cx ℝ)) (thr : ℝ) :
    (detInit fftc h thr).frameLen = 2 ^ nextpow2 (2 * h.size) + 1 - h.size := by
  show (fftInitC fftc (convertImpulse h)).n = _
  simp [fftInitC, fftInit, convertImpulse_size]

/-- **C18 / T18.4, first call, end to end with the library's FFT.**  If in the first call the DIRECT normalised correlation
`firCorr` exceeds `threshold²` at the index `e` only, `process` reports `offset = e`, `score = √firCorr[e]` and the last `nh`
samples of the stream up to and including `e` (zeros before the start of the stream). -/
theorem detector_first_call_total (lit : Lits ℝ) (hl : LitsOK lit) (h : Array (Cx ℝ)) (thr : ℝ) (hm : 1 ≤ h.size)
    (hb : 2 ^ nextpow2 (2 * h.size) < 2 ^ 31) (sig : Array (Cx ℝ))
    (hfl : sig.size % (2 ^ nextpow2 (2 * h.size) + 1 - h.size) = 0) (e : ℕ) (he : e < sig.size)
    (honly : ∀ i, i < sig.size → (thr * thr < firCorr h sig i ↔ i = e)) :
    ∃ s' res, detProcess (fftcL lit) (ifftL lit) (detInit (fftcL lit) h thr) sig = .ok (s', some res) ∧ res.offset = e ∧
      res.score = Real.sqrt (firCorr h sig e) ∧ res.preamble.size = h.size ∧
      ∀ j, j < h.size → res.preamble.getD j czero = hist czero (sig.toList.take (e + 1)) (h.size - 1 - j) := by
  have hfl' : sig.size % (detInit (fftcL lit) h thr).frameLen = 0 := by rw [detInit_frameLen]; exact hfl
  obtain ⟨c1, c2⟩ := callCorr_from_rest_total lit hl h thr hm hb sig hfl'
  obtain ⟨i1, i2⟩ := detInit_inv (fftcL lit) h thr hm
  obtain ⟨s', res, r1, r2, r3, r4, r5⟩ := detector_reports_alignment (fftcL lit) (ifftL lit) (detInit (fftcL lit) h thr) sig h.size []
    hfl' i1 c1 e he (fun i hi => by rw [i2, c2 i hi]; exact honly i hi)
  refine ⟨s', res, r1, r2, ?_, r4, ?_⟩
  · rw [r3, c2 e he]
  · simpa using r5

/-- … and if `firCorr` never exceeds `threshold²` in the first call, nothing is reported -/
theorem detector_first_call_silent_total (lit : Lits ℝ) (hl : LitsOK lit) (h : Array (Cx ℝ)) (thr : ℝ) (hm : 1 ≤ h.size)
    (hb : 2 ^ nextpow2 (2 * h.size) < 2 ^ 31) (sig : Array (Cx ℝ))
    (hfl : sig.size % (2 ^ nextpow2 (2 * h.size) + 1 - h.size) = 0)
    (hnone : ∀ i, i < sig.size → ¬ thr * thr < firCorr h sig i) :
    ∃ s', detProcess (fftcL lit) (ifftL lit) (detInit (fftcL lit) h thr) sig = .ok (s', none) ∧
      DInv czero s'.delay h.size sig.toList := by
  have hfl' : sig.size % (detInit (fftcL lit) h thr).frameLen = 0 := by rw [detInit_frameLen]; exact hfl
  obtain ⟨c1, c2⟩ := callCorr_from_rest_total lit hl h thr hm hb sig hfl'
  obtain ⟨i1, i2⟩ := detInit_inv (fftcL lit) h thr hm
  obtain ⟨s', r1, r2⟩ := detector_silent (fftcL lit) (ifftL lit) (detInit (fftcL lit) h thr) sig h.size []
    hfl' i1 c1 (fun i hi => by rw [i2, c2 i hi]; exact hnone i hi)
  exact ⟨s', r1, by simpa using r2⟩

/-! ## non-vacuity: the hypotheses are satisfiable (`litsOK_exact`), the theorems apply to concrete lengths and inputs -/

/-- the discharged hypotheses at concrete lengths (a power of two, as `finddelay` / the detector use; a composite; a prime) -/
example : C07.CircConv (fftcL ⟨√2 / 2, √2 / 2, √3 / 2⟩) (ifftL ⟨√2 / 2, √2 / 2, √3 / 2⟩) 1024 ∧
    CircXc (0 : Cx ℝ) id (fftcL ⟨√2 / 2, √2 / 2, √3 / 2⟩) (ifftL ⟨√2 / 2, √2 / 2, √3 / 2⟩) 1000 ∧
    CircXc (0 : ℝ) (fun v => (⟨v, 0⟩ : Cx ℝ)) (fftrL ⟨√2 / 2, √2 / 2, √3 / 2⟩) (ifftL ⟨√2 / 2, √2 / 2, √3 / 2⟩) 1009 :=
  ⟨circConv_lib _ litsOK_exact 1024 (by norm_num) (by norm_num),
   czero_eq ▸ circXc_lib_cmplx _ litsOK_exact 1000 (by norm_num) (by norm_num),
   circXc_lib_real _ litsOK_exact 1009 (by norm_num) (by norm_num)⟩

theorem fdLen_4_4 : fdLen 4 4 = 4 := by decide

/-- `finddelay_total_real` at a concrete pair: `x1 = (0,1,2,0)` is `x2 = (1,2,0,0)` delayed by one sample; `nfft = 4`, the circular
correlation is `c = (2, 5, 2, 0)`, strict maximum at lag `1 = (-(-1)) mod 4`: `finddelay(x1, x2) = -1` with the library FFT model -/
example : finddelayR (fftrL ⟨√2 / 2, √2 / 2, √3 / 2⟩) (ifftL ⟨√2 / 2, √2 / 2, √3 / 2⟩) #[0, 1, 2, 0] #[1, 2, 0, 0] = -1 := by
  have hN : fdLen (#[0, 1, 2, 0] : Array ℝ).size (#[1, 2, 0, 0] : Array ℝ).size = 4 := fdLen_4_4
  have hc : ∀ t, cxcorrR #[0, 1, 2, 0] #[1, 2, 0, 0] t =
      ∑ n ∈ range 4, (if (n + t) % 4 < 4 then (#[0, 1, 2, 0] : Array ℝ).getD ((n + t) % 4) 0 else 0) *
        (if n < 4 then (#[1, 2, 0, 0] : Array ℝ).getD n 0 else 0) := by
    intro t
    unfold cxcorrR
    rw [hN]
    apply Finset.sum_congr rfl
    intro n _
    rw [getD_zeropad0, getD_zeropad0]
    rfl
  refine finddelay_total_real _ litsOK_exact _ _ (by rw [hN]; norm_num) (-1) 1 (by rw [hN]; norm_num) ?_
    (by rw [hN]; norm_num) (by rw [hN]; norm_num) (by rw [hN]; norm_num)
  rw [hN]
  intro j hj hne
  rw [hc, hc]
  interval_cases j <;> first | (exact absurd rfl hne) | norm_num [Finset.sum_range_succ]

/-- `finddelay_total_cmplx` at a concrete pair: `x1 = (0, i)`, `x2 = (i, 0)`; `nfft = 2`, `c = (0, i·conj(i)) = (0, 1)`: delay `-1` -/
example : finddelayC (fftcL ⟨√2 / 2, √2 / 2, √3 / 2⟩) (ifftL ⟨√2 / 2, √2 / 2, √3 / 2⟩) #[⟨0, 0⟩, ⟨0, 1⟩] #[⟨0, 1⟩, ⟨0, 0⟩] = -1 := by
  have hN : fdLen (#[⟨0, 0⟩, ⟨0, 1⟩] : Array (Cx ℝ)).size (#[⟨0, 1⟩, ⟨0, 0⟩] : Array (Cx ℝ)).size = 2 := by decide
  have hc : ∀ t, cxcorrC #[⟨0, 0⟩, ⟨0, 1⟩] #[⟨0, 1⟩, ⟨0, 0⟩] t =
      ∑ n ∈ range 2, (if (n + t) % 2 < 2 then (#[⟨0, 0⟩, ⟨0, 1⟩] : Array (Cx ℝ)).getD ((n + t) % 2) 0 else 0) *
        Cx.conj (if n < 2 then (#[⟨0, 1⟩, ⟨0, 0⟩] : Array (Cx ℝ)).getD n 0 else 0) := by
    intro t
    unfold cxcorrC
    rw [hN]
    apply Finset.sum_congr rfl
    intro n _
    rw [getD_zeropad0, getD_zeropad0]
    rfl
  refine finddelay_total_cmplx _ litsOK_exact _ _ (by rw [hN]; norm_num) (-1) 1 (by rw [hN]; norm_num) ?_
    (by rw [hN]; norm_num) (by rw [hN]; norm_num) (by rw [hN]; norm_num)
  rw [hN]
  intro j hj hne
  rw [hc, hc]
  interval_cases j <;> first | (exact absurd rfl hne) | norm_num [Finset.sum_range_succ, Cx.abs2, Cx.conj]

/-- `callCorr_from_rest_total` applies to a concrete preamble (`nh = 2`: `fft_len = 4`, `frame_len() = 3`) and every call of three
samples -/
example (sig : Array (Cx ℝ)) (hs : sig.size = 3) (i : ℕ) (hi : i < 3) :
    (callCorr (fftcL ⟨√2 / 2, √2 / 2, √3 / 2⟩) (ifftL ⟨√2 / 2, √2 / 2, √3 / 2⟩)
      (detInit (fftcL ⟨√2 / 2, √2 / 2, √3 / 2⟩) #[⟨1, 0⟩, ⟨0, 1⟩] (1 / 2)) sig).getD i 0 = firCorr #[⟨1, 0⟩, ⟨0, 1⟩] sig i := by
  have h4 : 2 ^ nextpow2 (2 * (#[⟨1, 0⟩, ⟨0, 1⟩] : Array (Cx ℝ)).size) = 4 := by decide
  refine (callCorr_from_rest_total _ litsOK_exact #[⟨1, 0⟩, ⟨0, 1⟩] (1 / 2) (by simp) (by rw [h4]; norm_num) sig ?_).2 i (by omega)
  rw [detInit_frameLen, h4, hs]
  rfl

/-- the one-tap preamble `h = (1)`: `_convert_impulse(h) = (1)` (`rms = 1`, `nh = 1`) -/
theorem convertImpulse_unit : convertImpulse (#[⟨1, 0⟩] : Array (Cx ℝ)) = #[⟨1, 0⟩] := by
  simp [convertImpulse, MathFns.flip, crms, Cx.divr]
  apply Array.ext <;> simp

theorem eps_pos : (0 : ℝ) < eps := by unfold eps; simp

/-- … for which the direct normalised correlation is `|x[i]|² / (|x[i]|² + eps)` -/
theorem firCorr_unit (sig : Array (Cx ℝ)) (i : ℕ) (hi : i < sig.size) :
    firCorr #[⟨1, 0⟩] sig i = Cx.abs2 (sig.getD i 0) / (Cx.abs2 (sig.getD i 0) + eps) := by
  unfold firCorr
  rw [convertImpulse_unit]
  obtain ⟨_, f2⟩ := C07.fir_eq_cmplx #[⟨1, 0⟩] sig (by simp)
  obtain ⟨_, g2⟩ := C07.fir_eq_real (Array.replicate (#[⟨1, 0⟩] : Array (Cx ℝ)).size
    (1 / ((#[⟨1, 0⟩] : Array (Cx ℝ)).size : ℝ))) (sig.map Cx.abs2) (by simp)
  rw [Cx.abs2_eq, f2 i hi, g2 i (by simpa using hi)]
  have hs : sig[i]? = some sig[i] := by simp [hi]
  simp [hs, Cx.abs2_eq, Complex.normSq_apply]

/-- `detector_first_call_total` at a concrete state: preamble `(1)`, threshold `1/2`, first call `(0, 1)` (one frame of
`frame_len() = 2`): `firCorr = (0, 1/(1+eps))` exceeds `1/4` at index 1 only — the detector (library FFT model) reports offset 1 -/
example : ∃ s' res, detProcess (fftcL ⟨√2 / 2, √2 / 2, √3 / 2⟩) (ifftL ⟨√2 / 2, √2 / 2, √3 / 2⟩)
      (detInit (fftcL ⟨√2 / 2, √2 / 2, √3 / 2⟩) #[⟨1, 0⟩] (1 / 2)) #[⟨0, 0⟩, ⟨1, 0⟩] = .ok (s', some res) ∧ res.offset = 1 := by
  have h2 : 2 ^ nextpow2 (2 * (#[⟨1, 0⟩] : Array (Cx ℝ)).size) = 2 := by decide
  have hp := eps_pos
  obtain ⟨s', res, h, ho, _⟩ := detector_first_call_total _ litsOK_exact #[⟨1, 0⟩] (1 / 2) (by simp) (by rw [h2]; norm_num)
    #[⟨0, 0⟩, ⟨1, 0⟩] (by rw [h2]; rfl) 1 (by simp) (by
      intro i hi
      rw [firCorr_unit _ i hi]
      have hi' : i < 2 := by simpa using hi
      interval_cases i
      · simp [Cx.abs2]
      · have he : (eps : ℝ) < 1 := by unfold eps; simp; norm_num
        simp [Cx.abs2]
        calc (2 : ℝ)⁻¹ * 2⁻¹ = 4⁻¹ := by norm_num
          _ < (1 + eps)⁻¹ := inv_strictAnti₀ (by linarith) (by linarith))
  exact ⟨s', res, h, ho⟩

/-- `detector_first_call_silent_total`: the all-zero first call reports nothing -/
example : ∃ s', detProcess (fftcL ⟨√2 / 2, √2 / 2, √3 / 2⟩) (ifftL ⟨√2 / 2, √2 / 2, √3 / 2⟩)
      (detInit (fftcL ⟨√2 / 2, √2 / 2, √3 / 2⟩) #[⟨1, 0⟩] (1 / 2)) #[⟨0, 0⟩, ⟨0, 0⟩] = .ok (s', none) := by
  have h2 : 2 ^ nextpow2 (2 * (#[⟨1, 0⟩] : Array (Cx ℝ)).size) = 2 := by decide
  obtain ⟨s', h, _⟩ := detector_first_call_silent_total _ litsOK_exact #[⟨1, 0⟩] (1 / 2) (by simp) (by rw [h2]; norm_num)
    #[⟨0, 0⟩, ⟨0, 0⟩] (by rw [h2]; rfl) (by
      intro i hi
      rw [firCorr_unit _ i hi]
      have hi' : i < 2 := by simpa using hi
      interval_cases i <;> simp [Cx.abs2])
  exact ⟨s', h⟩

end Dsp.C18
