import DspVerif.Props.C14
import DspVerif.Props.C01Total
/-!
# C14 — `hilbert` UNCONDITIONALLY: the transform hypotheses of `Props/C14.lean` discharged for the library's own FFT

`Props/C14.lean` proves T14.1–T14.3 (`hilbert_re`, `hilbert_spectrum`, `hilbert_onesided`, `hilbertN_eq`) with the two transforms
as PARAMETERS and the hypotheses `IsRealDft n fft` ("`fft(arr_real)` is the DFT at length `n`") and `IsIdft n ifft`
("`ifft(arr_cmplx)` is the inverse DFT at length `n`").  `Props/C01Total.lean` proves that the model of the library's FFT family
IS the DFT for every length `0 < n < 2^31` (`C01.fftR_eq`, `C01.fftC_eq`).  This file puts the two together for exactly the
instantiation `dspdriver_c14` runs (`Driver/H14.lean`: `fftF x = Fft.fftR lits x.size x`,
`ifftF X = Fft.ifftWith (Fft.fftC lits X.size) X.size X`), at `ℝ`:

* `fftLib lit`, `ifftLib lit`     the driver's `fftF` / `ifftF` at `ℝ`
* `fftR_size`                     `fft(arr_real)` of the model returns `n` bins, every `0 < n < 2^31` (all four plan branches)
* `isRealDft_fftLib`              `IsRealDft n (fftLib lit)`      (from `C01.fftR_eq`)
* `isIdft_ifftLib`                `IsIdft n (ifftLib lit)`        (from `C01.fftC_eq` through `isIdft_ifftWith`)
* `hilbert_re_total`        T14.1 `re(hilbert(x)) = x`
* `hilbert_spectrum_total`  T14.2 spectrum of `hilbert(x)` = `osw · spectrum of x`
* `hilbert_onesided_total`  T14.2 the spectrum of `hilbert(x)` vanishes on the negative-frequency bins
* `hilbert_total`                 the three for ONE returned array
* `hilbertN_total`          T14.3 + T14.1 + T14.2 for `hilbert(x, n)`: every input length, every `3 ≤ n < 2^31`
* `hilbert_err_total`, `hilbertN_err_total`   `n < 3` throws

The only hypotheses left: `LitsOK lit` (the three literals of the small kernels denote `√½`, `√½`, `√¾`; satisfiable:
`C01.litsOK_exact`) and `3 ≤ n < 2^31` (below 3 the code throws — `hilbert_err_total`; `2^31` is the end of the `int` range, the
bound of `C01.fftC_eq` / `C01.fftR_eq`).
-/
open Finset Complex
namespace Dsp.C14
open Dsp Dsp.Hilbert Dsp.Cx Dsp.C07

/-! ## the driver's instantiation at ℝ -/

/-- `fft(const arr_real&)` as `dspdriver_c14` instantiates it (`Driver.C14.fftF`), at `ℝ` -/
noncomputable def fftLib (lit : Fft.Lits ℝ) (x : Array ℝ) : Array (Cx ℝ) := Fft.fftR lit x.size x

/-- `ifft(const arr_cmplx&)` = `IfftPlan(n).solve` as `dspdriver_c14` instantiates it (`Driver.C14.ifftF`), at `ℝ` -/
noncomputable def ifftLib (lit : Fft.Lits ℝ) (X : Array (Cx ℝ)) : Array (Cx ℝ) :=
  Fft.ifftWith (Fft.fftC lit X.size) X.size X

/-! ## the number of bins the model's plans return -/

theorem smallC_size (lit : Fft.Lits ℝ) (n : ℕ) (hs : Fft.isSmall n = true) (x : Fft.Vec ℝ) :
    (Fft.smallC lit n x).size = n := by
  rcases (C01.isSmall_iff n).mp hs with h | h | h | h <;> subst h <;> simp [Fft.smallC]

theorem smallR_size (lit : Fft.Lits ℝ) (n : ℕ) (hs : Fft.isSmall n = true) (x : Array ℝ) :
    (Fft.smallR lit n x).size = n := by
  rcases (C01.isSmall_iff n).mp hs with h | h | h | h <;> subst h <;> simp [Fft.smallR]

theorem fftPrime_size (lit : Fft.Lits ℝ) (n : ℕ) (x : Fft.Vec ℝ) : (Fft.fftPrime lit n x).size = n := by
  unfold Fft.fftPrime
  split_ifs with h3 h
  · subst h3; simp
  · simp [Fft.dftSlow]
  · simp [Fft.czt]

theorem pow2fft_size (n : ℕ) (x : Fft.Vec ℝ) : (Fft.pow2fft n x).size = n := by
  unfold Fft.pow2fft
  cases Primes.nextpow2 n <;> simp [Fft.stages]

theorem fftLeaf_size (lit : Fft.Lits ℝ) (n : ℕ) (x : Fft.Vec ℝ) : (Fft.fftLeaf lit n x).size = n := by
  unfold Fft.fftLeaf
  split_ifs with hs hp
  · exact smallC_size lit n hs x
  · exact fftPrime_size lit n x
  · exact pow2fft_size n x

theorem facfft_size (lit : Fft.Lits ℝ) (tw : Fft.Vec ℝ) (headN : ℕ) (pl : Fft.Plan) (x : Fft.Vec ℝ) :
    (Fft.facfft (Fft.fftLeaf lit) tw headN pl x).size = pl.size := by
  cases pl with
  | leaf n => simp [Fft.facfft, Fft.Plan.size, fftLeaf_size]
  | node P Q p q => simp [Fft.facfft, Fft.Plan.size]

theorem fftFactor_size (lit : Fft.Lits ℝ) (n : ℕ) (hn : 2 ≤ n) (hlt : n < 2 ^ 31) (x : Fft.Vec ℝ) :
    (Fft.fftFactor lit n x).size = n := by
  unfold Fft.fftFactor
  rw [facfft_size, (C01.mkPlan_wf n hn hlt).2.1]

/-- `fft(const arr_real&)` of the model returns `n` bins for every `0 < n < 2^31` (small real kernels, prime solver, packed
half-length transform, factor tree) -/
theorem fftR_size (lit : Fft.Lits ℝ) (n : ℕ) (hn : 0 < n) (hlt : n < 2 ^ 31) (x : Array ℝ) :
    (Fft.fftR lit n x).size = n := by
  unfold Fft.fftR
  split_ifs with hs hp he
  · exact smallR_size lit n hs x
  · exact fftPrime_size lit n _
  · simp [Fft.rfftPacked]
  · exact fftFactor_size lit n (C01.two_le_of_not_small n hn (by simpa using hs)) hlt _

/-! ## the two hypotheses of T14.1 / T14.2, discharged -/

/-- the two readings of a real array as a complex sequence (`Lib/C01Fft` vs `Props/C14`) coincide -/
theorem seqR_bridge (x : Array ℝ) : Fft.seqR x = fun m => ((x.getD m 0 : ℝ) : ℂ) := by
  funext m
  simp only [Fft.seqR, Fft.rdR, fn_ofNat, Nat.cast_zero]

/-- **hypothesis `IsRealDft` of T14.1/T14.2 for the library's `fft(arr_real)`**, every `0 < n < 2^31` -/
theorem isRealDft_fftLib (lit : Fft.Lits ℝ) (hl : C01.LitsOK lit) (n : ℕ) (hn : 0 < n) (hlt : n < 2 ^ 31) :
    IsRealDft n (fftLib lit) := by
  intro x hx
  subst hx
  refine ⟨fftR_size lit x.size hn hlt x, fun k hk => ?_⟩
  have := C01.fftR_eq lit hl x.size hn hlt x k hk
  rw [seqR_bridge] at this
  simpa only [fftLib, Fft.rd, fft_zero_eq] using this

/-- **hypothesis `IsIdft` of T14.1/T14.2 for the library's `ifft(arr_cmplx)`** (`IfftPlan(n).solve` over `FftPlan(n)`),
every `0 < n < 2^31` -/
theorem isIdft_ifftLib (lit : Fft.Lits ℝ) (hl : C01.LitsOK lit) (n : ℕ) (hn : 0 < n) (hlt : n < 2 ^ 31) :
    IsIdft n (ifftLib lit) := by
  intro X hX
  have h := isIdft_ifftWith n hn (Fft.fftC lit n) (C01.fftC_eq lit hl n hn hlt) X hX
  simpa only [ifftLib, hX] using h

/-! ## T14.1 / T14.2 without any transform hypothesis -/

/-- **T14.1 `hilbert_re`, unconditional.**  For every `3 ≤ n < 2^31` and every real `x` of length `n`, `hilbert(x)` — computed with
the library's own `fft` and `ifft` — returns `n` samples whose real part is `x`. -/
theorem hilbert_re_total (lit : Fft.Lits ℝ) (hl : C01.LitsOK lit) (n : ℕ) (h3 : 3 ≤ n) (hlt : n < 2 ^ 31)
    (x : Array ℝ) (hx : x.size = n) :
    ∃ y, hilbert (fftLib lit) (ifftLib lit) x = .ok y ∧ y.size = n ∧ ∀ t, t < n → (y.getD t 0).re = x.getD t 0 :=
  hilbert_re n h3 _ _ (isRealDft_fftLib lit hl n (by omega) hlt) (isIdft_ifftLib lit hl n (by omega) hlt) x hx

/-- **T14.2 (full form), unconditional.**  The spectrum of `hilbert(x)` is the spectrum of `x` with DC (and Nyquist) kept, the
positive frequencies doubled and the negative frequencies removed — every `3 ≤ n < 2^31`. -/
theorem hilbert_spectrum_total (lit : Fft.Lits ℝ) (hl : C01.LitsOK lit) (n : ℕ) (h3 : 3 ≤ n) (hlt : n < 2 ^ 31)
    (x : Array ℝ) (hx : x.size = n) :
    ∃ y, hilbert (fftLib lit) (ifftLib lit) x = .ok y ∧
      ∀ k, k < n → dft n (seqC y) k = ((osw n k : ℝ) : ℂ) * dft n (seqR x) k :=
  hilbert_spectrum n h3 _ _ (isRealDft_fftLib lit hl n (by omega) hlt) (isIdft_ifftLib lit hl n (by omega) hlt) x hx

/-- **T14.2 `hilbert_onesided`, unconditional.**  For every `3 ≤ n < 2^31`: the discrete spectrum of `hilbert(x)` vanishes on the
negative-frequency bins `n/2 < k < n`. -/
theorem hilbert_onesided_total (lit : Fft.Lits ℝ) (hl : C01.LitsOK lit) (n : ℕ) (h3 : 3 ≤ n) (hlt : n < 2 ^ 31)
    (x : Array ℝ) (hx : x.size = n) :
    ∃ y, hilbert (fftLib lit) (ifftLib lit) x = .ok y ∧ ∀ k, n / 2 < k → k < n → dft n (seqC y) k = 0 :=
  hilbert_onesided n h3 _ _ (isRealDft_fftLib lit hl n (by omega) hlt) (isIdft_ifftLib lit hl n (by omega) hlt) x hx

/-- **T14.1 + T14.2 for ONE returned array, unconditional**: `hilbert(x)` succeeds for every real `x` with `3 ≤ len x < 2^31`, and
the array it returns has length `len x`, real part `x`, spectrum `osw · DFT(x)`, hence no negative-frequency content. -/
theorem hilbert_total (lit : Fft.Lits ℝ) (hl : C01.LitsOK lit) (x : Array ℝ) (h3 : 3 ≤ x.size) (hlt : x.size < 2 ^ 31) :
    ∃ y, hilbert (fftLib lit) (ifftLib lit) x = .ok y ∧ y.size = x.size ∧
      (∀ t, t < x.size → (y.getD t 0).re = x.getD t 0) ∧
      (∀ k, k < x.size → dft x.size (seqC y) k = ((osw x.size k : ℝ) : ℂ) * dft x.size (seqR x) k) ∧
      (∀ k, x.size / 2 < k → k < x.size → dft x.size (seqC y) k = 0) := by
  obtain ⟨y, hy, hs, hre⟩ := hilbert_re_total lit hl x.size h3 hlt x rfl
  obtain ⟨y', hy', hsp⟩ := hilbert_spectrum_total lit hl x.size h3 hlt x rfl
  have e : y' = y := by rw [hy] at hy'; injection hy' with h; exact h.symm
  subst e
  refine ⟨y', hy, hs, hre, hsp, fun k h1 h2 => ?_⟩
  rw [hsp k h2, osw_neg _ k h1]
  simp

/-- below three samples `hilbert` throws (whatever the transforms are; restated for the library's) -/
theorem hilbert_err_total (lit : Fft.Lits ℝ) (x : Array ℝ) (h : x.size < 3) :
    ∃ e, hilbert (fftLib lit) (ifftLib lit) x = .error e :=
  hilbert_err _ _ x h

/-! ## T14.3 `hilbert(x, n)` without any transform hypothesis -/

theorem padTrunc_size (x : Array ℝ) (n : ℕ) : (padTrunc x n).size = n := by simp [padTrunc]

theorem padTrunc_getD (x : Array ℝ) (n t : ℕ) (ht : t < n) :
    (padTrunc x n).getD t 0 = if t < x.size then x.getD t 0 else 0 := by
  unfold padTrunc
  rw [getD_ofFn, dif_pos ht]
  simp only [Cx.zeroR_eq]

/-- **T14.3 `hilbert_n` with T14.1/T14.2, unconditional.**  For EVERY input length and every target length `3 ≤ n < 2^31`:
`hilbert(x, n)` equals `hilbert` of `x` zero-padded / truncated to `n` samples, it succeeds, returns `n` samples whose real part
is the padded / truncated input, and whose spectrum is `osw ·` that of the padded / truncated input — zero on the
negative-frequency bins. -/
theorem hilbertN_total (lit : Fft.Lits ℝ) (hl : C01.LitsOK lit) (n : ℕ) (h3 : 3 ≤ n) (hlt : n < 2 ^ 31) (x : Array ℝ) :
    hilbertN (fftLib lit) (ifftLib lit) x n = hilbert (fftLib lit) (ifftLib lit) (padTrunc x n) ∧
    ∃ y, hilbertN (fftLib lit) (ifftLib lit) x n = .ok y ∧ y.size = n ∧
      (∀ t, t < n → (y.getD t 0).re = if t < x.size then x.getD t 0 else 0) ∧
      (∀ k, k < n → dft n (seqC y) k = ((osw n k : ℝ) : ℂ) * dft n (seqR (padTrunc x n)) k) ∧
      (∀ k, n / 2 < k → k < n → dft n (seqC y) k = 0) := by
  have hN := hilbertN_eq (fftLib lit) (ifftLib lit) x n
  refine ⟨hN, ?_⟩
  have hps := padTrunc_size x n
  obtain ⟨y, hy, hs, hre, hsp, hneg⟩ := hilbert_total lit hl (padTrunc x n) (by omega) (by omega)
  rw [hps] at hs hre hsp hneg
  refine ⟨y, by rw [hN, hy], hs, fun t ht => ?_, hsp, hneg⟩
  rw [hre t ht, padTrunc_getD x n t ht]

/-- `hilbert(x, n)` with `n < 3` throws, whatever `x` is -/
theorem hilbertN_err_total (lit : Fft.Lits ℝ) (x : Array ℝ) (n : ℕ) (h : n < 3) :
    ∃ e, hilbertN (fftLib lit) (ifftLib lit) x n = .error e := by
  rw [hilbertN_eq]
  exact hilbert_err _ _ _ (by rw [padTrunc_size]; exact h)

/-! ## non-vacuity: the exact literals, concrete lengths of every plan branch -/

/-- the exact literals -/
noncomputable abbrev litX : Fft.Lits ℝ := ⟨√2 / 2, √2 / 2, √3 / 2⟩

/-- the discharged hypotheses at a composite even length (packed real transform over the factor tree of size 500;
inverse over the factor tree of size 1000) and at a prime above 41 (Bluestein) -/
example : IsRealDft 1000 (fftLib litX) ∧ IsIdft 1000 (ifftLib litX) ∧ IsRealDft 1009 (fftLib litX) ∧ IsIdft 1009 (ifftLib litX) :=
  ⟨isRealDft_fftLib _ C01.litsOK_exact 1000 (by norm_num) (by norm_num), isIdft_ifftLib _ C01.litsOK_exact 1000 (by norm_num) (by norm_num),
   isRealDft_fftLib _ C01.litsOK_exact 1009 (by norm_num) (by norm_num), isIdft_ifftLib _ C01.litsOK_exact 1009 (by norm_num) (by norm_num)⟩

/-- T14.1 at `n = 1000` (even composite), `n = 1001` (odd composite: factor tree on the complexified input), `n = 3` (the
smallest accepted length: `_dft_n3`) -/
example (x : Array ℝ) (hx : x.size = 1000) :
    ∃ y, hilbert (fftLib litX) (ifftLib litX) x = .ok y ∧ y.size = 1000 ∧ ∀ t, t < 1000 → (y.getD t 0).re = x.getD t 0 :=
  hilbert_re_total _ C01.litsOK_exact 1000 (by norm_num) (by norm_num) x hx

example (x : Array ℝ) (hx : x.size = 1001) :
    ∃ y, hilbert (fftLib litX) (ifftLib litX) x = .ok y ∧ y.size = 1001 ∧ ∀ t, t < 1001 → (y.getD t 0).re = x.getD t 0 :=
  hilbert_re_total _ C01.litsOK_exact 1001 (by norm_num) (by norm_num) x hx

example : ∃ y, hilbert (fftLib litX) (ifftLib litX) #[1, 2, 4] = .ok y ∧ y.size = 3 ∧
    (y.getD 0 0).re = 1 ∧ (y.getD 1 0).re = 2 ∧ (y.getD 2 0).re = 4 := by
  obtain ⟨y, hy, hs, hre⟩ := hilbert_re_total litX C01.litsOK_exact 3 (by norm_num) (by norm_num) #[1, 2, 4] rfl
  refine ⟨y, hy, hs, ?_, ?_, ?_⟩
  · simpa using hre 0 (by norm_num)
  · simpa using hre 1 (by norm_num)
  · simpa using hre 2 (by norm_num)

/-- T14.2 at a power of two (radix-2 network) and at the largest `int` (`2^31 − 1`, prime: Bluestein of size `2^32`) -/
example (x : Array ℝ) (hx : x.size = 4096) :
    ∃ y, hilbert (fftLib litX) (ifftLib litX) x = .ok y ∧ ∀ k, 2048 < k → k < 4096 → dft 4096 (seqC y) k = 0 :=
  hilbert_onesided_total _ C01.litsOK_exact 4096 (by norm_num) (by norm_num) x hx

example (x : Array ℝ) (hx : x.size = 2147483647) :
    ∃ y, hilbert (fftLib litX) (ifftLib litX) x = .ok y ∧
      ∀ k, k < 2147483647 → dft 2147483647 (seqC y) k = ((osw 2147483647 k : ℝ) : ℂ) * dft 2147483647 (seqR x) k :=
  hilbert_spectrum_total _ C01.litsOK_exact 2147483647 (by norm_num) (by norm_num) x hx

/-- T14.3: `hilbert(x, 1009)` of an input of ANY length (padded or truncated), and a concrete padded sample -/
example (x : Array ℝ) :
    ∃ y, hilbertN (fftLib litX) (ifftLib litX) x 1009 = .ok y ∧ y.size = 1009 ∧
      ∀ t, t < 1009 → (y.getD t 0).re = if t < x.size then x.getD t 0 else 0 := by
  obtain ⟨_, y, hy, hs, hre, _⟩ := hilbertN_total litX C01.litsOK_exact 1009 (by norm_num) (by norm_num) x
  exact ⟨y, hy, hs, hre⟩

example : ∃ y, hilbertN (fftLib litX) (ifftLib litX) #[5, 7] 6 = .ok y ∧ (y.getD 1 0).re = 7 ∧ (y.getD 4 0).re = 0 := by
  obtain ⟨_, y, hy, _, hre, _⟩ := hilbertN_total litX C01.litsOK_exact 6 (by norm_num) (by norm_num) #[5, 7]
  refine ⟨y, hy, ?_, ?_⟩
  · simpa using hre 1 (by norm_num)
  · simpa using hre 4 (by norm_num)

end Dsp.C14
