import DspVerif.Model.Conc
import Mathlib.Tactic.Common
import Mathlib.Data.List.Basic
/-!
# C09 — concurrent use from several threads is race-free and result-preserving

Theorems about `Model/Conc.lean`:

* T09.1 `noninterference` (+ `result_preserved`, `sequential_result_reached`, `no_race`): in the shared-memory step
  semantics, if every thread only reads/writes inside its footprint and no thread reads or writes what another
  writes, then for EVERY interleaving every thread is in exactly the state its single-threaded execution reaches,
  and the trace contains no pair of conflicting accesses.
* T09.2 `rng_isolated` (+ `rng_unaffected_by_others`): with one engine per thread, what a thread draws under any
  interleaving of seeds/draws of any threads is what it draws alone.
* T09.3 `table_raceFree`, `discipline_exclusive`, `table_*`: the footprint table of the library (tied to the sources
  by the `footprint` correspondence cases) satisfies the premises of T09.1 for free functions, for objects used by
  one thread each, and for plan objects SHARED through their const `solve`.
* `concurrent_use_safe`: the three combined.

Scope (partial): the theorems are about the abstract memory model.  Which C++ accesses exist is extracted
syntactically by the harness scan (CORR `footprint`) and validated dynamically under ThreadSanitizer with bit-exact
comparison against single-threaded runs; shared_ptr reference counts (atomics) and the C++ memory model are trusted.
-/
namespace Dsp.C09
open Dsp.Conc

variable {ℓ υ σ : Type} [DecidableEq ℓ]

/-! ### T09.1 noninterference -/

/-- thread `t` cannot distinguish `c` (concurrent) from `d` (solo): same local state, same memory on its footprint -/
def Agree (F : Footprint ℓ) (t : Nat) (c d : Cfg ℓ υ σ) : Prop :=
  c.loc t = d.loc t ∧ ∀ l, (F.R t l ∨ F.W t l) → c.mem l = d.mem l

theorem agree_own {F : Footprint ℓ} {P : Nat → Prog ℓ υ σ} (hc : F.covers P) {t : Nat} {c d : Cfg ℓ υ σ}
    (h : Agree F t c d) : Agree F t (stepThread P t c) (stepThread P t d) := by
  obtain ⟨hl, hm⟩ := h
  have hcov := hc t (c.loc t)
  unfold stepThread
  rw [← hl]
  cases hp : P t (c.loc t) with
  | none => exact ⟨hl, hm⟩
  | some st =>
    rw [hp] at hcov
    cases st with
    | load l k =>
      have hv : c.mem l = d.mem l := hm l (Or.inl hcov)
      exact ⟨by simp [upd, hv], hm⟩
    | store l v s' =>
      refine ⟨by simp [upd], ?_⟩
      intro l' hl'
      show upd c.mem l v l' = upd d.mem l v l'
      unfold upd
      split
      · rfl
      · exact hm l' hl'
    | tau s' => exact ⟨by simp [upd], hm⟩

theorem agree_other {F : Footprint ℓ} {P : Nat → Prog ℓ υ σ} (hc : F.covers P) (hrf : F.raceFree) {t t' : Nat}
    (ht : t ≠ t') {c d : Cfg ℓ υ σ} (h : Agree F t c d) : Agree F t (stepThread P t' c) d := by
  obtain ⟨hl, hm⟩ := h
  have hcov := hc t' (c.loc t')
  unfold stepThread
  cases hp : P t' (c.loc t') with
  | none => exact ⟨hl, hm⟩
  | some st =>
    rw [hp] at hcov
    cases st with
    | load l k => exact ⟨by simp [upd, ht, hl], hm⟩
    | store l v s' =>
      refine ⟨by simp [upd, ht, hl], ?_⟩
      intro l' hl'
      show upd c.mem l v l' = d.mem l'
      have hne : l' ≠ l := by
        rintro rfl
        have := hrf t t' ht l' hcov
        rcases hl' with h1 | h1
        · exact this.1 h1
        · exact this.2 h1
      simp [upd, hne, hm l' hl']
    | tau s' => exact ⟨by simp [upd, ht, hl], hm⟩

theorem alone_succ (P : Nat → Prog ℓ υ σ) (t n : Nat) (d : Cfg ℓ υ σ) :
    alone P t (n + 1) d = alone P t n (stepThread P t d) := by
  simp [alone, List.replicate_succ, run]

theorem run_append (P : Nat → Prog ℓ υ σ) (s s' : List Nat) (c : Cfg ℓ υ σ) :
    run P (s ++ s') c = run P s' (run P s c) := by
  induction s generalizing c with
  | nil => rfl
  | cons a s ih => simp [run, ih]

theorem noninterference_gen {F : Footprint ℓ} {P : Nat → Prog ℓ υ σ} (hc : F.covers P) (hrf : F.raceFree) (t : Nat) :
    ∀ (s : List Nat) (c d : Cfg ℓ υ σ), Agree F t c d → Agree F t (run P s c) (alone P t (s.count t) d) := by
  intro s
  induction s with
  | nil => intro c d h; simpa [run, alone] using h
  | cons a s ih =>
    intro c d h
    by_cases hat : a = t
    · subst hat
      rw [List.count_cons_self, alone_succ]
      exact ih _ _ (agree_own hc h)
    · rw [List.count_cons_of_ne hat]
      exact ih _ _ (agree_other hc hrf (Ne.symm hat) h)

/-- **T09.1** For every interleaving `s` of programs that stay inside a race-free footprint, thread `t` is in exactly
the local state (registers, results of all its calls so far) that it reaches when it runs the same number of its own
steps alone, and the memory it may touch has the single-threaded contents.
Settles: "each call returns what it would return single-threaded", for any number of threads. -/
theorem noninterference {F : Footprint ℓ} {P : Nat → Prog ℓ υ σ} (hc : F.covers P) (hrf : F.raceFree)
    (c0 : Cfg ℓ υ σ) (s : List Nat) (t : Nat) :
    (run P s c0).loc t = (alone P t (s.count t) c0).loc t ∧
    ∀ l, (F.R t l ∨ F.W t l) → (run P s c0).mem l = (alone P t (s.count t) c0).mem l :=
  noninterference_gen hc hrf t s c0 c0 ⟨rfl, fun _ _ => rfl⟩

theorem step_halted {P : Nat → Prog ℓ υ σ} {t : Nat} {c : Cfg ℓ υ σ} (h : halted P t c) : stepThread P t c = c := by
  unfold halted at h
  unfold stepThread
  rw [h]

theorem alone_halted {P : Nat → Prog ℓ υ σ} {t : Nat} {c : Cfg ℓ υ σ} (h : halted P t c) (n : Nat) : alone P t n c = c := by
  induction n with
  | zero => rfl
  | succ n ih => rw [alone_succ, step_halted h, ih]

theorem alone_add (P : Nat → Prog ℓ υ σ) (t m k : Nat) (c : Cfg ℓ υ σ) :
    alone P t (m + k) c = alone P t k (alone P t m c) := by
  unfold alone
  rw [List.replicate_add, run_append]

/-- **T09.1, completed runs.** If thread `t` has finished at the end of an interleaving, then its single-threaded
execution finishes after the same number of steps and its final state (the results of all its calls) is the same —
however long the single-threaded run is continued. -/
theorem result_preserved {F : Footprint ℓ} {P : Nat → Prog ℓ υ σ} (hc : F.covers P) (hrf : F.raceFree)
    (c0 : Cfg ℓ υ σ) (s : List Nat) (t : Nat) (hdone : halted P t (run P s c0)) :
    halted P t (alone P t (s.count t) c0) ∧
    ∀ n, s.count t ≤ n → (alone P t n c0).loc t = (run P s c0).loc t := by
  have h := (noninterference hc hrf c0 s t).1
  have hh : halted P t (alone P t (s.count t) c0) := by
    unfold halted at hdone ⊢
    rw [← h]; exact hdone
  refine ⟨hh, ?_⟩
  intro n hn
  obtain ⟨k, rfl⟩ := Nat.exists_eq_add_of_le hn
  rw [alone_add, alone_halted hh, h]

/-- **T09.1, the other direction.** If the single-threaded execution of `t` finishes within `n` steps, then in every
interleaving that gives `t` at least `n` steps thread `t` has finished with the single-threaded result. -/
theorem sequential_result_reached {F : Footprint ℓ} {P : Nat → Prog ℓ υ σ} (hc : F.covers P) (hrf : F.raceFree)
    (c0 : Cfg ℓ υ σ) (s : List Nat) (t n : Nat) (hseq : halted P t (alone P t n c0)) (hn : n ≤ s.count t) :
    halted P t (run P s c0) ∧ (run P s c0).loc t = (alone P t n c0).loc t := by
  have h := (noninterference hc hrf c0 s t).1
  obtain ⟨k, hk⟩ := Nat.exists_eq_add_of_le hn
  have e : alone P t (s.count t) c0 = alone P t n c0 := by rw [hk, alone_add, alone_halted hseq]
  rw [e] at h
  refine ⟨?_, h⟩
  unfold halted at hseq ⊢
  rw [h]; exact hseq

/-- every access in a trace lies in the acting thread's footprint -/
theorem trace_in_footprint {F : Footprint ℓ} {P : Nat → Prog ℓ υ σ} (hc : F.covers P) :
    ∀ (s : List Nat) (c : Cfg ℓ υ σ), ∀ e ∈ trace P s c,
      (∀ l, e.2 = Access.rd l → F.R e.1 l) ∧ (∀ l, e.2 = Access.wr l → F.W e.1 l) := by
  intro s
  induction s with
  | nil => intro c e he; simp [trace] at he
  | cons a s ih =>
    intro c e he
    simp only [trace, List.mem_append] at he
    rcases he with he | he
    · have hcov := hc a (c.loc a)
      cases hp : P a (c.loc a) with
      | none => simp [hp] at he
      | some st =>
        rw [hp] at hcov
        cases st with
        | load l k =>
          simp [hp, accessOf] at he
          subst he
          exact ⟨fun l' h' => (by cases h'; exact hcov), fun l' h' => (by cases h')⟩
        | store l v s' =>
          simp [hp, accessOf] at he
          subst he
          exact ⟨fun l' h' => (by cases h'), fun l' h' => (by cases h'; exact hcov)⟩
        | tau s' => simp [hp, accessOf] at he
    · exact ih _ e he

/-- **T09.1, race freedom.** No interleaving contains two accesses of different threads to one location of which one
is a write.  Settles "no data race occurs" in the model. -/
theorem no_race {F : Footprint ℓ} {P : Nat → Prog ℓ υ σ} (hc : F.covers P) (hrf : F.raceFree)
    (s : List Nat) (c : Cfg ℓ υ σ) : ¬ RacyTrace (trace P s c) := by
  rintro ⟨e, he, e', he', hne, hloc, hw⟩
  have h1 := trace_in_footprint hc s c e he
  have h2 := trace_in_footprint hc s c e' he'
  obtain ⟨t, a⟩ := e
  obtain ⟨t', a'⟩ := e'
  simp only at hne hloc hw h1 h2
  rcases hw with hw | hw
  · -- `a` is a write: `t'` neither reads nor writes it
    cases a with
    | rd l => simp [Access.isWrite] at hw
    | wr l =>
      have hW := h1.2 l rfl
      have := hrf t' t (Ne.symm hne) l hW
      cases a' with
      | rd l' => simp only [Access.loc] at hloc; subst hloc; exact this.1 (h2.1 _ rfl)
      | wr l' => simp only [Access.loc] at hloc; subst hloc; exact this.2 (h2.2 _ rfl)
  · cases a' with
    | rd l => simp [Access.isWrite] at hw
    | wr l =>
      have hW := h2.2 l rfl
      have := hrf t t' hne l hW
      cases a with
      | rd l' => simp only [Access.loc] at hloc; subst hloc; exact this.1 (h1.1 _ rfl)
      | wr l' => simp only [Access.loc] at hloc; subst hloc; exact this.2 (h1.2 _ rfl)

/-! ### T09.2 random-number state is per thread -/

theorem rng_isolated_gen {ε ω : Type} (S : RngSpec ε ω) (t : Nat) :
    ∀ (evs : List (Nat × RngOp)) (w w' : RngWorld ε), w t = w' t →
      (rngRun S w evs).filter (fun e => e.1 = t) = rngRun S w' (evs.filter (fun e => e.1 = t)) := by
  intro evs
  induction evs with
  | nil => intro w w' _; simp [rngRun]
  | cons e evs ih =>
    intro w w' h
    obtain ⟨a, op⟩ := e
    by_cases hat : a = t
    · subst hat
      cases op with
      | seed k =>
        simp only [rngRun, decide_true, List.filter_cons_of_pos]
        exact ih _ _ (by simp [upd])
      | draw =>
        simp only [rngRun, decide_true, List.filter_cons_of_pos]
        rw [h]
        congr 1
        exact ih _ _ (by simp [upd])
    · cases op with
      | seed k =>
        simp only [rngRun, hat, decide_false, Bool.false_eq_true, not_false_eq_true, List.filter_cons_of_neg]
        exact ih _ _ (by simp [upd, Ne.symm hat, h])
      | draw =>
        simp only [rngRun, hat, decide_false, Bool.false_eq_true, not_false_eq_true, List.filter_cons_of_neg]
        exact ih _ _ (by simp [upd, Ne.symm hat, h])

/-- **T09.2** Under ANY interleaving of `rng(seed)` calls and draws by any threads, the values thread `t` observes are
exactly the values it observes when only its own calls are executed.
Settles: "random-number state is per thread so that seeding or drawing in one thread never changes the sequence another
thread observes" (for the per-thread-engine model; tied to lib/random.cpp by the `rng` correspondence cases, which
replay enforced interleavings on the real library, and by `thread_local g_engine` in the footprint scan). -/
theorem rng_isolated {ε ω : Type} (S : RngSpec ε ω) (w : RngWorld ε) (evs : List (Nat × RngOp)) (t : Nat) :
    (rngRun S w evs).filter (fun e => e.1 = t) = rngRun S w (evs.filter (fun e => e.1 = t)) :=
  rng_isolated_gen S t evs w w rfl

/-- **T09.2, corollary.** Whatever other threads do first (`pre`: any seeds and draws by threads other than `t`) leaves
the sequence thread `t` observes afterwards unchanged. -/
theorem rng_unaffected_by_others {ε ω : Type} (S : RngSpec ε ω) (w : RngWorld ε) (pre evs : List (Nat × RngOp)) (t : Nat)
    (hpre : ∀ e ∈ pre, e.1 ≠ t) :
    (rngRun S w (pre ++ evs)).filter (fun e => e.1 = t) = (rngRun S w evs).filter (fun e => e.1 = t) := by
  rw [rng_isolated, rng_isolated, List.filter_append]
  have : pre.filter (fun e => decide (e.1 = t)) = [] := by
    rw [List.filter_eq_nil_iff]
    intro e he
    simpa using hpre e he
  rw [this, List.nil_append]

/-! ### T09.3 the footprint table satisfies the premises -/

/-- the table lists no shared mutable state: no non-const static/global, no `mutable` member, no `const_cast`, and the
plan classes have no non-const member function (all CORR-tied to the sources by the `footprint` cases) -/
theorem table_no_shared_state :
    varsOf .sharedMutable = [] ∧ varsOf .mutableMember = [] ∧ constCasts = [] ∧ planNonconstMethods = [] := by
  decide

/-- the `Tls` regions of the table are exactly the thread_local variables found in the sources -/
theorem table_tls_complete :
    (∀ id ∈ varsOf .threadLocal, id ∈ [Tls.cacheC, Tls.cacheR, Tls.engine, Tls.verifKeys].map Tls.id) ∧
    (∀ id ∈ [Tls.cacheC, Tls.cacheR, Tls.engine, Tls.verifKeys].map Tls.id, id ∈ varsOf .threadLocal) := by
  decide

def okWrite : Region → Bool
  | .callLocal | .self | .tls _ => true
  | _ => false

def okRead : Region → Bool
  | .shared _ => false
  | _ => true

theorem all_writes_ok (a : Api) : (footprint a).writes.all okWrite = true := by
  cases a <;> rfl

theorem all_reads_ok (a : Api) : (footprint a).reads.all okRead = true := by
  cases a <;> rfl

/-- every entry point writes only call-local memory, the calling thread's thread_local variables, or the object it is
invoked on -/
theorem writes_regions (a : Api) (r : Region) (h : r ∈ (footprint a).writes) :
    r = .callLocal ∨ r = .self ∨ ∃ v, r = .tls v := by
  have := List.all_eq_true.1 (all_writes_ok a) r h
  cases r <;> simp [okWrite] at this ⊢

/-- no entry point reads a `shared` (mutable static / mutable member) region: there is none -/
theorem reads_not_shared (a : Api) (r : Region) (h : r ∈ (footprint a).reads) : ∀ id, r ≠ .shared id := by
  intro id
  have := List.all_eq_true.1 (all_reads_ok a) r h
  cases r <;> simp [okRead] at this ⊢

/-- free functions touch no object state at all; random-number functions touch only the thread's engine -/
theorem free_functions_footprint :
    (∀ a ∈ [Api.fft, .ifft, .rfft, .irfft, .czt, .xcorr, .welch, .resample, .window, .rng, .rand, .randn, .randi],
      touchesSelf a = false) ∧
    (∀ a ∈ [Api.rng, .rand, .randn, .randi], ∀ r ∈ (footprint a).writes, r = .callLocal ∨ r = .tls .engine) := by
  decide

/-- the const `solve` of a plan object writes nothing but call-local memory: plan objects may be shared -/
theorem planSolve_sharable : writesSelf .planSolve = false ∧ (footprint .planSolve).writes = [.callLocal] := by
  decide

theorem exclusive_spec {S : Scenario} (h : exclusive S = true) {t t' : Nat} {p p' : List Call}
    (hp : S[t]? = some p) (hp' : S[t']? = some p') (ht : t ≠ t') {c c' : Call} (hc : c ∈ p) (hc' : c' ∈ p') :
    conflictCalls c c' = false := by
  unfold exclusive at h
  rw [List.all_eq_true] at h
  have h1 := h (p, t) (List.mem_zipIdx_iff_getElem?.2 hp)
  rw [List.all_eq_true] at h1
  have h2 := h1 (p', t') (List.mem_zipIdx_iff_getElem?.2 hp')
  simp only [Bool.or_eq_true, beq_iff_eq, List.all_eq_true, Bool.not_eq_eq_eq_not, Bool.not_true] at h2
  rcases h2 with h2 | h2
  · exact absurd h2 ht
  · exact h2 c hc c' hc'

/-- **T09.3** For every scenario that respects the usage discipline (`exclusive`: an object touched by two threads is
written by neither), the footprints the table assigns to the threads are race-free — the premise of T09.1. -/
theorem table_raceFree (S : Scenario) (h : exclusive S = true) : (tableFootprint S).raceFree := by
  intro t t' ht l hW
  obtain ⟨p', hp', j, c', hj, r, hr, hl⟩ := hW
  have hc'mem : c' ∈ p' := List.mem_of_getElem? hj
  -- what a region of thread t can denote
  have key : ∀ (p : List Call), S[t]? = some p → ∀ i c, p[i]? = some c → ∀ r2,
      (r2 ∈ (footprint c.api).reads ∨ r2 ∈ (footprint c.api).writes) → ¬ regionLocs t i c.obj r2 l := by
    intro p hp i c hi r2 hr2 hl2
    have hcmem : c ∈ p := List.mem_of_getElem? hi
    have hconf := exclusive_spec h hp hp' ht hcmem hc'mem
    rcases writes_regions c'.api r hr with rfl | rfl | ⟨v, rfl⟩
    · -- call-local memory of thread t'
      obtain ⟨cell, rfl⟩ := hl
      cases r2 with
      | callLocal => obtain ⟨cell2, h2⟩ := hl2; injection h2 with h2; exact ht h2.symm
      | arg =>
        rcases hl2 with ⟨a, cell2, h2⟩ | ⟨c2, cell2, h2⟩
        · cases h2
        · injection h2 with h2; exact ht h2.symm
      | tls v => obtain ⟨cell2, h2⟩ := hl2; cases h2
      | frozen => obtain ⟨cell2, h2⟩ := hl2; cases h2
      | self => obtain ⟨cell2, h2⟩ := hl2; cases h2
      | shared id => obtain ⟨cell2, h2⟩ := hl2; cases h2
    · -- the object c' is invoked on: c' writes it, so c must not touch it
      obtain ⟨cell, rfl⟩ := hl
      cases r2 with
      | callLocal => obtain ⟨cell2, h2⟩ := hl2; cases h2
      | arg =>
        rcases hl2 with ⟨a, cell2, h2⟩ | ⟨c2, cell2, h2⟩
        · cases h2
        · cases h2
      | tls v => obtain ⟨cell2, h2⟩ := hl2; cases h2
      | frozen => obtain ⟨cell2, h2⟩ := hl2; cases h2
      | self =>
        obtain ⟨cell2, h2⟩ := hl2
        injection h2 with ho _
        have hw : writesSelf c'.api = true := by simpa [writesSelf] using hr
        have ht2 : touchesSelf c.api = true := by
          simp only [touchesSelf, Bool.or_eq_true, List.contains_iff_mem]
          exact hr2
        simp [conflictCalls, ho, hw, ht2] at hconf
      | shared id => obtain ⟨cell2, h2⟩ := hl2; cases h2
    · -- a thread_local variable of thread t'
      obtain ⟨cell, rfl⟩ := hl
      cases r2 with
      | callLocal => obtain ⟨cell2, h2⟩ := hl2; cases h2
      | arg =>
        rcases hl2 with ⟨a, cell2, h2⟩ | ⟨c2, cell2, h2⟩
        · cases h2
        · cases h2
      | tls v2 => obtain ⟨cell2, h2⟩ := hl2; injection h2 with h2; exact ht h2.symm
      | frozen => obtain ⟨cell2, h2⟩ := hl2; cases h2
      | self => obtain ⟨cell2, h2⟩ := hl2; cases h2
      | shared id => obtain ⟨cell2, h2⟩ := hl2; cases h2
  constructor
  · rintro ⟨p, hp, i, c, hi, r2, hr2, hl2⟩
    exact key p hp i c hi r2 (Or.inl hr2) hl2
  · rintro ⟨p, hp, i, c, hi, r2, hr2, hl2⟩
    exact key p hp i c hi r2 (Or.inr hr2) hl2

/-- **T09.3, the discipline of the property implies `exclusive`.**  If whenever two different threads call entry points
that touch object state on the SAME object both calls are const plan solves (free functions touch no object; all other
objects are used by one thread only), the scenario is admitted. -/
theorem discipline_exclusive (S : Scenario)
    (h : ∀ (t t' : Nat) (p p' : List Call), S[t]? = some p → S[t']? = some p' → t ≠ t' → ∀ c ∈ p, ∀ c' ∈ p', c.obj = c'.obj →
      touchesSelf c.api = true → touchesSelf c'.api = true → c.api = .planSolve ∧ c'.api = .planSolve) :
    exclusive S = true := by
  unfold exclusive
  rw [List.all_eq_true]
  rintro ⟨p, t⟩ hpt
  rw [List.all_eq_true]
  rintro ⟨p', t'⟩ hpt'
  have hp := List.mem_zipIdx_iff_getElem?.1 hpt
  have hp' := List.mem_zipIdx_iff_getElem?.1 hpt'
  simp only at hp hp'
  simp only [Bool.or_eq_true, beq_iff_eq, List.all_eq_true, Bool.not_eq_eq_eq_not, Bool.not_true]
  by_cases ht : t = t'
  · exact Or.inl ht
  · right
    intro c hc c' hc'
    by_cases hconf : conflictCalls c c' = true
    · exfalso
      simp only [conflictCalls, Bool.and_eq_true, beq_iff_eq] at hconf
      obtain ⟨⟨ho, hw⟩, hts⟩ := hconf
      have hts' : touchesSelf c'.api = true := by
        simp only [touchesSelf, Bool.or_eq_true]; exact Or.inr hw
      have := (h t t' p p' hp hp' ht c hc c' hc' ho hts hts').2
      rw [this] at hw
      exact absurd hw (by decide)
    · simpa using hconf

/-! ### the combination -/

/-- **C09 (model level).** Any number of threads whose programs consist of library calls with the table's footprints,
used according to the discipline (free functions anywhere; stateful objects by one thread; plan objects shared through
const `solve`): under EVERY interleaving each thread computes exactly its single-threaded results, and no two accesses
race. -/
theorem concurrent_use_safe {υ σ : Type} (S : Scenario) (hS : exclusive S = true)
    (P : Nat → Prog Loc υ σ) (hP : (tableFootprint S).covers P) (c0 : Cfg Loc υ σ) (s : List Nat) :
    (∀ t, (run P s c0).loc t = (alone P t (s.count t) c0).loc t) ∧ ¬ RacyTrace (trace P s c0) :=
  ⟨fun t => (noninterference hP (table_raceFree S hS) c0 s t).1, no_race hP (table_raceFree S hS) s c0⟩

/-! ### non-vacuity and necessity of the premises -/

/-- a scenario of the kind the harness runs: two threads share plan object 7 through `solve`, each has its own
FftFilter (objects 1001 / 1011), both call free functions and seed / draw random numbers -/
def demo : Scenario :=
  [ [⟨.fft, 0⟩, ⟨.planSolve, 7⟩, ⟨.filterCtor, 1001⟩, ⟨.filterProcess, 1001⟩, ⟨.rng, 0⟩, ⟨.randn, 0⟩],
    [⟨.planSolve, 7⟩, ⟨.rfft, 0⟩, ⟨.filterCtor, 1011⟩, ⟨.filterProcess, 1011⟩, ⟨.randn, 0⟩, ⟨.planSolve, 7⟩] ]

example : exclusive demo = true := by decide

example : (tableFootprint demo).raceFree := table_raceFree demo (by decide)

/-- sharing a STATEFUL object (one FftFilter processed by two threads) is rejected by the discipline -/
example : exclusive [[⟨.filterProcess, 5⟩], [⟨.filterProcess, 5⟩]] = false := by decide

/-- constructing a plan while another thread already solves with it is rejected as well -/
example : exclusive [[⟨.planCtor, 5⟩], [⟨.planSolve, 5⟩]] = false := by decide

/-- Two threads that each do `x := x + 1` (load, then store) on ONE shared location: the racy program the premises exclude. -/
def racy : Nat → Prog Unit Nat (Nat × Option Nat) := fun _ s =>
  match s with
  | (0, _) => some (.load () (fun v => (1, some v)))
  | (1, some v) => some (.store () (v + 1) (2, none))
  | _ => none

def racy0 : Cfg Unit Nat (Nat × Option Nat) := ⟨fun _ => 0, fun _ => (0, none)⟩

/-- necessity: without the footprint premise the conclusion fails — under the interleaving 0,1,0,1 both increments read 0
and the final value is 1, while thread 1 run after thread 0 (0,0,1,1) ends with 2 -/
theorem racy_witness :
    (run racy [0, 1, 0, 1] racy0).mem () = 1 ∧ (run racy [0, 0, 1, 1] racy0).mem () = 2 ∧
    RacyTrace (trace racy [0, 1, 0, 1] racy0) := by
  refine ⟨by decide, by decide, ?_⟩
  refine ⟨(0, .wr ()), by decide, (1, .rd ()), by decide, by decide, rfl, Or.inl rfl⟩

/-- non-vacuity of T09.2 at a concrete engine (a counter): thread 1's draws are 5,6 whatever thread 0 does in between -/
def ctr : RngSpec Nat Nat := ⟨0, fun k => k.toNat, fun e => (e, e + 1)⟩

example : (rngRun ctr (fun _ => ctr.fresh) [(1, .seed 5), (0, .seed 9), (1, .draw), (0, .draw), (0, .seed 1), (1, .draw)]).filter
    (fun e => e.1 = 1) = [(1, 5), (1, 6)] := by decide

end Dsp.C09
