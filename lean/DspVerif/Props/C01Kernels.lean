import DspVerif.Gen.SmallFft
import DspVerif.Lib.RealFn
import DspVerif.Lib.Dft
import Mathlib.Tactic.Linarith
import Mathlib.Tactic.NormNum
import Mathlib.Tactic.LinearCombination
import Mathlib.Tactic.IntervalCases
/-!
# C01 (kernels): the hard-coded small transforms, as REGENERATED from `lib/fft/small-fft.h` and
`lib/fft/primes-fft.h` by `tools/cxx2lean.py` on every run (`Gen/SmallFft.lean`), equal the DFT.

Floating literals of the source are abstracted as parameters (`c0`) with the algebraic property they
approximate as hypothesis; `lit_ok_*` shows that the literal actually written in the source satisfies
that property to 2⁻⁴⁸ (exact rational arithmetic on the source text).
-/
open Finset Complex
namespace Dsp.C01K
open Dsp Dsp.Gen

/-- the complex sequence a `Nat → Cx ℝ` denotes -/
noncomputable def seqC (x : Nat → Cx ℝ) : ℕ → ℂ := fun i => Cx.toC (x i)

/-- a real sequence as a complex one -/
noncomputable def seqR (x : Nat → ℝ) : ℕ → ℂ := fun i => ((x i : ℝ) : ℂ)


/-! ## explicit roots of unity -/

theorem ω_re (n j : ℕ) : (ω n j).re = Real.cos (2 * Real.pi * j / n) := by
  unfold ω; rw [← Complex.ofReal_neg, Complex.exp_ofReal_mul_I_re, Real.cos_neg]

theorem ω_im (n j : ℕ) : (ω n j).im = -Real.sin (2 * Real.pi * j / n) := by
  unfold ω; rw [← Complex.ofReal_neg, Complex.exp_ofReal_mul_I_im, Real.sin_neg]

theorem ω_pow (n j : ℕ) : ω n j = (ω n 1) ^ j := by
  induction j with
  | zero => simp [ω_zero]
  | succ j ih => rw [ω_add, ih, pow_succ]

theorem ω_mod (n j : ℕ) (hn : 0 < n) : ω n j = ω n (j % n) := by
  conv_lhs => rw [← Nat.div_add_mod j n]
  rw [ω_add, ω_self_mul _ _ hn, one_mul]

/-- reduction of an out-of-range exponent (usable as a terminating `simp` lemma) -/
theorem ω_red (n j : ℕ) (hn : 0 < n) (_h : n ≤ j) : ω n j = ω n (j % n) := ω_mod n j hn

theorem ω2_1 : ω 2 1 = -1 := by
  apply Complex.ext
  · rw [ω_re]
    have : 2 * Real.pi * ((1 : ℕ) : ℝ) / ((2 : ℕ) : ℝ) = Real.pi := by push_cast; ring
    rw [this]; simp
  · rw [ω_im]
    have : 2 * Real.pi * ((1 : ℕ) : ℝ) / ((2 : ℕ) : ℝ) = Real.pi := by push_cast; ring
    rw [this]; simp

theorem ω4_1 : ω 4 1 = -I := by
  apply Complex.ext
  · rw [ω_re]
    have : 2 * Real.pi * ((1 : ℕ) : ℝ) / ((4 : ℕ) : ℝ) = Real.pi / 2 := by push_cast; ring
    rw [this]; simp
  · rw [ω_im]
    have : 2 * Real.pi * ((1 : ℕ) : ℝ) / ((4 : ℕ) : ℝ) = Real.pi / 2 := by push_cast; ring
    rw [this]; simp

theorem sqrt_half_unique (c : ℝ) (hc : 2 * c ^ 2 = 1) (hc0 : 0 < c) : c = √2 / 2 := by
  have h2 : (√2) ^ 2 = 2 := Real.sq_sqrt (by norm_num)
  have hpos : 0 ≤ √2 / 2 := by positivity
  rw [← sq_eq_sq₀ hc0.le hpos]
  nlinarith

theorem sqrt_three_unique (d : ℝ) (hd : 4 * d ^ 2 = 3) (hd0 : 0 < d) : d = √3 / 2 := by
  have h2 : (√3) ^ 2 = 3 := Real.sq_sqrt (by norm_num)
  have hpos : 0 ≤ √3 / 2 := by positivity
  rw [← sq_eq_sq₀ hd0.le hpos]
  nlinarith

theorem ω8_1 (c : ℝ) (hc : 2 * c ^ 2 = 1) (hc0 : 0 < c) : ω 8 1 = ⟨c, -c⟩ := by
  have e := sqrt_half_unique c hc hc0
  have : 2 * Real.pi * ((1 : ℕ) : ℝ) / ((8 : ℕ) : ℝ) = Real.pi / 4 := by push_cast; ring
  apply Complex.ext
  · rw [ω_re, this, Real.cos_pi_div_four, e]
  · rw [ω_im, this, Real.sin_pi_div_four, e]

theorem ω3_1 (d : ℝ) (hd : 4 * d ^ 2 = 3) (hd0 : 0 < d) : ω 3 1 = ⟨-(1 / 2), -d⟩ := by
  have e := sqrt_three_unique d hd hd0
  have : 2 * Real.pi * ((1 : ℕ) : ℝ) / ((3 : ℕ) : ℝ) = Real.pi - Real.pi / 3 := by push_cast; ring
  apply Complex.ext
  · rw [ω_re, this, Real.cos_pi_sub, Real.cos_pi_div_three]
  · rw [ω_im, this, Real.sin_pi_sub, Real.sin_pi_div_three, e]

/-- all eighth roots of unity in terms of the literal `c` -/
theorem ω8_vals (c : ℝ) (hc : 2 * c ^ 2 = 1) (hc0 : 0 < c) :
    ω 8 0 = 1 ∧ ω 8 1 = ⟨c, -c⟩ ∧ ω 8 2 = ⟨0, -1⟩ ∧ ω 8 3 = ⟨-c, -c⟩ ∧ ω 8 4 = ⟨-1, 0⟩ ∧
      ω 8 5 = ⟨-c, c⟩ ∧ ω 8 6 = ⟨0, 1⟩ ∧ ω 8 7 = ⟨c, c⟩ := by
  have h1 := ω8_1 c hc hc0
  have h2 : ω 8 2 = ⟨0, -1⟩ := by
    rw [show (2 : ℕ) = 1 + 1 from rfl, ω_add, h1]
    apply Complex.ext <;> simp
    all_goals linarith
  have h3 : ω 8 3 = ⟨-c, -c⟩ := by
    rw [show (3 : ℕ) = 2 + 1 from rfl, ω_add, h1, h2]
    apply Complex.ext <;> simp
  have h4 : ω 8 4 = ⟨-1, 0⟩ := by
    rw [show (4 : ℕ) = 2 + 2 from rfl, ω_add, h2]
    apply Complex.ext <;> simp
  have h5 : ω 8 5 = ⟨-c, c⟩ := by
    rw [show (5 : ℕ) = 4 + 1 from rfl, ω_add, h1, h4]
    apply Complex.ext <;> simp
  have h6 : ω 8 6 = ⟨0, 1⟩ := by
    rw [show (6 : ℕ) = 4 + 2 from rfl, ω_add, h2, h4]
    apply Complex.ext <;> simp
  have h7 : ω 8 7 = ⟨c, c⟩ := by
    rw [show (7 : ℕ) = 4 + 3 from rfl, ω_add, h3, h4]
    apply Complex.ext <;> simp
  exact ⟨ω_zero 8, h1, h2, h3, h4, h5, h6, h7⟩

theorem ω4_vals : ω 4 0 = 1 ∧ ω 4 1 = ⟨0, -1⟩ ∧ ω 4 2 = ⟨-1, 0⟩ ∧ ω 4 3 = ⟨0, 1⟩ := by
  have h1 : ω 4 1 = ⟨0, -1⟩ := by rw [ω4_1]; apply Complex.ext <;> simp
  have h2 : ω 4 2 = ⟨-1, 0⟩ := by
    rw [show (2 : ℕ) = 1 + 1 from rfl, ω_add, h1]
    apply Complex.ext <;> simp
  have h3 : ω 4 3 = ⟨0, 1⟩ := by
    rw [show (3 : ℕ) = 2 + 1 from rfl, ω_add, h1, h2]
    apply Complex.ext <;> simp
  exact ⟨ω_zero 4, h1, h2, h3⟩

theorem ω3_vals (d : ℝ) (hd : 4 * d ^ 2 = 3) (hd0 : 0 < d) :
    ω 3 0 = 1 ∧ ω 3 1 = ⟨-(1 / 2), -d⟩ ∧ ω 3 2 = ⟨-(1 / 2), d⟩ := by
  have h1 := ω3_1 d hd hd0
  have h2 : ω 3 2 = ⟨-(1 / 2), d⟩ := by
    rw [show (2 : ℕ) = 1 + 1 from rfl, ω_add, h1]
    apply Complex.ext <;> simp
    all_goals linarith
  exact ⟨ω_zero 3, h1, h2⟩

theorem ω2_vals : ω 2 0 = 1 ∧ ω 2 1 = ⟨-1, 0⟩ := by
  refine ⟨ω_zero 2, ?_⟩
  rw [ω2_1]; apply Complex.ext <;> simp

/-- T01.1 `_fft_n2` -/
theorem fft2_eq (x : Nat → Cx ℝ) (k : ℕ) (hk : k < 2) : Cx.toC (fft2 x k) = dft 2 (seqC x) k := by
  obtain ⟨w0, w1⟩ := ω2_vals
  interval_cases k <;>
    simp [fft2, dft, seqC, Finset.sum_range_succ, w0, w1]
  all_goals (apply Complex.ext <;> simp)
  all_goals ring

/-- T01.1 `_fft_n4` -/
theorem fft4_eq (x : Nat → Cx ℝ) (k : ℕ) (hk : k < 4) : Cx.toC (fft4 x k) = dft 4 (seqC x) k := by
  obtain ⟨w0, w1, w2, w3⟩ := ω4_vals
  interval_cases k <;>
    simp [fft4, dft, seqC, Finset.sum_range_succ, ω_red 4 _ (by norm_num : 0 < 4), w0, w1, w2, w3]
  all_goals (apply Complex.ext <;> simp)
  all_goals ring

/-- T01.1 `_fft_n8`, for every value `c` of the literal with `2c² = 1`, `c > 0` (i.e. `c = √½`) -/
theorem fft8_eq (c : ℝ) (hc : 2 * c ^ 2 = 1) (hc0 : 0 < c) (x : Nat → Cx ℝ) (k : ℕ) (hk : k < 8) :
    Cx.toC (fft8 c x k) = dft 8 (seqC x) k := by
  obtain ⟨w0, w1, w2, w3, w4, w5, w6, w7⟩ := ω8_vals c hc hc0
  interval_cases k <;>
    simp [fft8, fft4, dft, seqC, Finset.sum_range_succ, ω_red 8 _ (by norm_num : 0 < 8),
      w0, w1, w2, w3, w4, w5, w6, w7]
  all_goals (apply Complex.ext <;> simp)
  all_goals ring

/-- T01.1 real-input `_fft_n2` -/
theorem rfft2_eq (x : Nat → ℝ) (k : ℕ) (hk : k < 2) : Cx.toC (rfft2 x k) = dft 2 (seqR x) k := by
  obtain ⟨w0, w1⟩ := ω2_vals
  interval_cases k <;>
    simp [rfft2, dft, seqR, Finset.sum_range_succ, w0, w1]
  all_goals (apply Complex.ext <;> simp)
  all_goals ring

/-- T01.1 real-input `_fft_n4` -/
theorem rfft4_eq (x : Nat → ℝ) (k : ℕ) (hk : k < 4) : Cx.toC (rfft4 x k) = dft 4 (seqR x) k := by
  obtain ⟨w0, w1, w2, w3⟩ := ω4_vals
  interval_cases k <;>
    simp [rfft4, dft, seqR, Finset.sum_range_succ, ω_red 4 _ (by norm_num : 0 < 4), w0, w1, w2, w3]
  all_goals (apply Complex.ext <;> simp)
  all_goals ring

/-- T01.1 real-input `_fft_n8` -/
theorem rfft8_eq (c : ℝ) (hc : 2 * c ^ 2 = 1) (hc0 : 0 < c) (x : Nat → ℝ) (k : ℕ) (hk : k < 8) :
    Cx.toC (rfft8 c x k) = dft 8 (seqR x) k := by
  obtain ⟨w0, w1, w2, w3, w4, w5, w6, w7⟩ := ω8_vals c hc hc0
  interval_cases k <;>
    simp [rfft8, rfft4, fft4, Cx.rmul, Cx.mulr, dft, seqR, Finset.sum_range_succ, ω_red 8 _ (by norm_num : 0 < 8),
      w0, w1, w2, w3, w4, w5, w6, w7]
  all_goals (apply Complex.ext <;> simp)
  all_goals ring

-- (the final `ring` is a fallback for re-associated regenerations; currently `simp` closes everything)
set_option linter.unusedTactic false in
set_option linter.unreachableTactic false in
/-- T01.1 `_dft_n3`, for every value `d` of the literal with `4d² = 3`, `d > 0` (i.e. `d = √3/2`) -/
theorem dft3_eq (d : ℝ) (hd : 4 * d ^ 2 = 3) (hd0 : 0 < d) (x : Nat → Cx ℝ) (k : ℕ) (hk : k < 3) :
    Cx.toC (dft3 d x k) = dft 3 (seqC x) k := by
  obtain ⟨w0, w1, w2⟩ := ω3_vals d hd hd0
  interval_cases k <;>
    simp [dft3, dft, seqC, Finset.sum_range_succ, ω_red 3 _ (by norm_num : 0 < 3), w0, w1, w2]
  all_goals (apply Complex.ext <;> simp)
  all_goals ring

/-- the literal written in `_fft_n8` (as an exact rational) is √½ to 2⁻⁴⁸: a literal mutated in any of its
    first 14 digits fails this -/
theorem lit_ok_fft8 : |((fft8_c0_rat.1 : ℚ) / fft8_c0_rat.2) ^ 2 * 2 - 1| ≤ 1 / 2 ^ 48 ∧ 0 < (fft8_c0_rat.1 : ℚ) := by
  constructor
  · rw [abs_le]; simp only [fft8_c0_rat]; norm_num
  · simp only [fft8_c0_rat]; norm_num

theorem lit_ok_rfft8 : |((rfft8_c0_rat.1 : ℚ) / rfft8_c0_rat.2) ^ 2 * 2 - 1| ≤ 1 / 2 ^ 48 ∧ 0 < (rfft8_c0_rat.1 : ℚ) := by
  constructor
  · rw [abs_le]; simp only [rfft8_c0_rat]; norm_num
  · simp only [rfft8_c0_rat]; norm_num

/-- the literal written in `_dft_n3` is √3/2 to 2⁻⁴⁸ -/
theorem lit_ok_dft3 : |((dft3_c0_rat.1 : ℚ) / dft3_c0_rat.2) ^ 2 * 4 - 3| ≤ 1 / 2 ^ 48 ∧ 0 < (dft3_c0_rat.1 : ℚ) := by
  constructor
  · rw [abs_le]; simp only [dft3_c0_rat]; norm_num
  · simp only [dft3_c0_rat]; norm_num

end Dsp.C01K
