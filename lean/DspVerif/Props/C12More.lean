import DspVerif.Props.C12
import Mathlib.LinearAlgebra.Matrix.NonsingularInverse
import Mathlib.LinearAlgebra.Matrix.DotProduct
import Mathlib.Data.Matrix.Mul
import Mathlib.Algebra.BigOperators.Fin

/-!
# C12, further clauses

* **T12.4 `rls_is_wls`** (ℝ): the real `RlsFilter` reproduces the exponentially weighted, diagonally regularised
  least-squares solution.  The flat `_p[i*n+k]` model is bridged to `Matrix (Fin n) (Fin n) ℝ` (`Pm`, `vecOf`,
  `rls_step_matrix`, on top of `rls_step_update` of `Props/C12.lean`); Sherman–Morrison (`sm_inv`, `sm_gain`) gives the
  per-sample invariant (`rls_step_invariant`), induction over the samples gives `rls_run_wls` (`_p · R_k = I`, normal
  equations) from ANY admissible state, `rls_run_minimiser` the minimiser property, `rls_is_wls` the statement for a
  freshly constructed filter (the constructor sets `_p = diag_load · I`, so `R₀ = diag_load⁻¹ · I`), and
  `rls_process_wls` / `rls_process_is_wls` the same for calls of `RlsFilter::process`.
  Hypotheses: `λ = _mu > 0`, `diag_load > 0` only; that no gain denominator `λ + uᵀ P u` vanishes is PROVED (it is
  positive), not assumed.
* **T12.3 over ℂ**: `nlms_misalignment_step_complex` (the identity of `nlms_misalignment_step` with `|e|²`, `Σ|r_i|²`),
  monotone decrease for `0 < μ < 2`, along trajectories and for `LmsFilter<cmplx_t>::process`.
  Conjugation convention of the code: output `y = Σ w_i r_i` (none), update `w' = w·leak + μ e conj(r)/(‖r‖²+ε)`.
Floating-point rounding is not modelled (exact `ℝ`).
-/
set_option linter.unusedSectionVars false
set_option linter.unusedSimpArgs false
set_option linter.unusedVariables false

namespace Dsp.C12
open Matrix Dsp.Adaptive Dsp.Adaptive.Mixed

section sm
variable {n : Nat}

/-- Sherman–Morrison, as the code computes it (no symmetry of `P` used) -/
theorem sm_inv (P R : Matrix (Fin n) (Fin n) ℝ) (u : Fin n → ℝ) (lam : ℝ) (hPR : P * R = 1) (hl : lam ≠ 0)
    (hden : lam + (u ᵥ* P) ⬝ᵥ u ≠ 0) :
    ((1 / lam) • (P - vecMulVec ((1 / (lam + (u ᵥ* P) ⬝ᵥ u)) • (P *ᵥ u)) (u ᵥ* P))) * (lam • R + vecMulVec u u) = 1 := by
  rw [Matrix.smul_mul, Matrix.sub_mul, Matrix.mul_add, Matrix.mul_add, Matrix.mul_smul, hPR, mul_vecMulVec,
    vecMulVec_mul, vecMulVec_mul, vecMul_smul, vecMul_vecMul, hPR, vecMul_one, vecMul_vecMulVec]
  generalize (u ᵥ* P) ⬝ᵥ u = s at hden ⊢
  ext i j
  simp only [Matrix.smul_apply, Matrix.sub_apply, Matrix.add_apply, vecMulVec_apply, Pi.smul_apply, smul_eq_mul]
  by_cases hij : i = j
  · subst hij; simp only [Matrix.one_apply_eq]; field_simp; ring
  · simp only [Matrix.one_apply_ne hij]; field_simp; ring

/-- the gain is mapped to the regressor by the new correlation matrix -/
theorem sm_gain (P R : Matrix (Fin n) (Fin n) ℝ) (u : Fin n → ℝ) (lam : ℝ) (hPR : P * R = 1)
    (hden : lam + (u ᵥ* P) ⬝ᵥ u ≠ 0) :
    (lam • R + vecMulVec u u) *ᵥ ((1 / (lam + (u ᵥ* P) ⬝ᵥ u)) • (P *ᵥ u)) = u := by
  have hRP : R * P = 1 := mul_eq_one_comm.mp hPR
  rw [mulVec_smul, add_mulVec, smul_mulVec, mulVec_mulVec, hRP, one_mulVec, vecMulVec_mulVec,
    dotProduct_mulVec]
  generalize (u ᵥ* P) ⬝ᵥ u = s at hden ⊢
  ext i
  simp only [Pi.smul_apply, Pi.add_apply, smul_eq_mul, MulOpposite.smul_eq_mul_unop, MulOpposite.unop_op]
  field_simp

/-- `uᵀ P u ≥ 0` when the quadratic form of `R = P⁻¹` is non-negative -/
theorem sm_den_nonneg (P R : Matrix (Fin n) (Fin n) ℝ) (u : Fin n → ℝ) (hPR : P * R = 1)
    (hpsd : ∀ v : Fin n → ℝ, 0 ≤ v ⬝ᵥ R *ᵥ v) : 0 ≤ (u ᵥ* P) ⬝ᵥ u := by
  have hRP : R * P = 1 := mul_eq_one_comm.mp hPR
  have h := hpsd (P *ᵥ u)
  rw [mulVec_mulVec, hRP, one_mulVec, dotProduct_comm, dotProduct_mulVec] at h
  exact h
end sm

section bridge

/-- the `n × n` matrix held row-major in the flat array `_p` -/
noncomputable def Pm (n : Nat) (p : Array ℝ) : Matrix (Fin n) (Fin n) ℝ := Matrix.of fun i k => rlsPm ℝ n p i.val k.val

/-- the first `n` entries of an array as a vector -/
noncomputable def vecOf (n : Nat) (a : Array ℝ) : Fin n → ℝ := fun i => rd (ρ := ℝ) a i.val

theorem acc_real_fin (n : Nat) (f : Nat → ℝ) : acc (zero ℝ : ℝ) n f = ∑ i : Fin n, f i.val := by
  rw [zero_real, acc_eq_sum, Finset.sum_range]

theorem rlsPu_eq (n : Nat) (p u : Array ℝ) (i : Fin n) : rlsPu ℝ n p u i.val = (Pm n p *ᵥ vecOf n u) i := by
  unfold rlsPu; rw [acc_real_fin]; rfl

theorem rlsUP_eq (n : Nat) (p u : Array ℝ) (i : Fin n) : rlsUP ℝ n p u i.val = (vecOf n u ᵥ* Pm n p) i := by
  unfold rlsUP; rw [acc_real_fin]; rfl

theorem rlsDen_eq (P : RlsP ℝ) (p u : Array ℝ) :
    rlsDen P p u = P.mu + (vecOf P.n u ᵥ* Pm P.n p) ⬝ᵥ vecOf P.n u := by
  unfold rlsDen; rw [acc_real_fin]
  simp only [Mixed.radd, dotProduct]
  congr 1
  apply Finset.sum_congr rfl
  intro i _
  rw [rlsUP_eq]; rfl

theorem dot_eq (n : Nat) (w u : Array ℝ) : dot (ρ := ℝ) n w u = vecOf n w ⬝ᵥ vecOf n u := by
  unfold dot; rw [acc_real_fin]; rfl

/-- one unlocked sample of `RlsFilter<real_t>::process`, in matrix form -/
theorem rls_step_matrix (P : RlsP ℝ) (s : RlsState ℝ) (x d : ℝ) (hl : s.locked = false) :
    Pm P.n (rlsStep P s x d).s.p
      = (1 / P.mu) • (Pm P.n s.p - vecMulVec
          ((1 / (P.mu + (vecOf P.n (shiftIn ℝ P.n s.u x) ᵥ* Pm P.n s.p) ⬝ᵥ vecOf P.n (shiftIn ℝ P.n s.u x)))
            • (Pm P.n s.p *ᵥ vecOf P.n (shiftIn ℝ P.n s.u x)))
          (vecOf P.n (shiftIn ℝ P.n s.u x) ᵥ* Pm P.n s.p)) ∧
    vecOf P.n (rlsStep P s x d).s.w
      = vecOf P.n s.w + (d - vecOf P.n s.w ⬝ᵥ vecOf P.n (shiftIn ℝ P.n s.u x))
          • ((1 / (P.mu + (vecOf P.n (shiftIn ℝ P.n s.u x) ᵥ* Pm P.n s.p) ⬝ᵥ vecOf P.n (shiftIn ℝ P.n s.u x)))
            • (Pm P.n s.p *ᵥ vecOf P.n (shiftIn ℝ P.n s.u x))) := by
  obtain ⟨h1, h2⟩ := rls_step_update P s x d hl
  obtain ⟨hy, he, _, _⟩ := rls_step_apriori P s x d
  constructor
  · ext i k
    have := h1 i.val k.val i.isLt k.isLt
    simp only [Pm, Matrix.of_apply, rlsPm]
    rw [this]
    simp only [rlsGain, rlsPu_eq, rlsUP_eq, rlsDen_eq, Mixed.rmul, Matrix.smul_apply, Matrix.sub_apply,
      vecMulVec_apply, Pi.smul_apply, smul_eq_mul, fn_ofNat, Nat.cast_one, rlsPm, Pm, Matrix.of_apply]
    ring
  · ext i
    have := h2 i.val i.isLt
    simp only [vecOf] at this ⊢
    rw [this, he, hy, dot_eq]
    simp only [rlsGain, rlsPu_eq, rlsDen_eq, Mixed.conj, Pi.add_apply, Pi.smul_apply, smul_eq_mul, vecOf]
    ring

end bridge

section wls
variable {n : Nat}

/-- `Σ_i λ^{k-1-i} u_i u_iᵀ` over the samples `(u_i, d_i)` listed oldest first: the weight of a sample is `λ` to the
number of samples that came after it -/
noncomputable def wR (lam : ℝ) : List ((Fin n → ℝ) × ℝ) → Matrix (Fin n) (Fin n) ℝ
  | [] => 0
  | a :: t => lam ^ t.length • vecMulVec a.1 a.1 + wR lam t

/-- `Σ_i λ^{k-1-i} d_i u_i` -/
noncomputable def wB (lam : ℝ) : List ((Fin n → ℝ) × ℝ) → (Fin n → ℝ)
  | [] => 0
  | a :: t => lam ^ t.length • (a.2 • a.1) + wB lam t

/-- the exponentially weighted sum of squared errors `Σ_i λ^{k-1-i} (d_i − v·u_i)²` of the coefficient vector `v` -/
noncomputable def wJ (lam : ℝ) : List ((Fin n → ℝ) × ℝ) → (Fin n → ℝ) → ℝ
  | [], _ => 0
  | a :: t, v => lam ^ t.length * (a.2 - v ⬝ᵥ a.1) ^ 2 + wJ lam t v

/-- `Σ_i λ^{k-1-i} d_i²` -/
noncomputable def wC (lam : ℝ) : List ((Fin n → ℝ) × ℝ) → ℝ
  | [] => 0
  | a :: t => lam ^ t.length * a.2 ^ 2 + wC lam t

/-- the regressor/desired pairs `(u_k, d_k)` seen by the filter: `u_k` is the delay line after `x_k` was shifted in -/
noncomputable def regs (n : Nat) : Array ℝ → List (ℝ × ℝ) → List ((Fin n → ℝ) × ℝ)
  | _, [] => []
  | u, xd :: t => (vecOf n (shiftIn ℝ n u xd.1), xd.2) :: regs n (shiftIn ℝ n u xd.1) t

theorem regs_length (n : Nat) : ∀ (l : List (ℝ × ℝ)) (u : Array ℝ), (regs n u l).length = l.length := by
  intro l
  induction l with
  | nil => intro u; rfl
  | cons a t ih => intro u; simp [regs, ih]

/-- entry `j` of the regressor: the current input for `j = 0`, else entry `j-1` of the previous regressor -/
theorem vecOf_shiftIn (n : Nat) (u : Array ℝ) (x : ℝ) (j : Fin n) :
    vecOf n (shiftIn ℝ n u x) j = if j.val = 0 then x else rd (ρ := ℝ) u (j.val - 1) := by
  unfold vecOf shiftIn
  rw [rd_ofFn _ _ _ j.isLt]

end wls

section run

/-- one unlocked sample preserves the invariant "`_p` is the inverse of the weighted correlation matrix `R`, and the
coefficients satisfy the normal equations `R w = b`" — with `R ↦ λR + u uᵀ`, `b ↦ λb + d u` -/
theorem rls_step_invariant (P : RlsP ℝ) (hlam : 0 < P.mu) (s : RlsState ℝ) (x d : ℝ) (hl : s.locked = false)
    (R : Matrix (Fin P.n) (Fin P.n) ℝ) (hPR : Pm P.n s.p * R = 1) (hpsd : ∀ v : Fin P.n → ℝ, 0 ≤ v ⬝ᵥ R *ᵥ v) :
    0 < P.mu + (vecOf P.n (shiftIn ℝ P.n s.u x) ᵥ* Pm P.n s.p) ⬝ᵥ vecOf P.n (shiftIn ℝ P.n s.u x) ∧
    Pm P.n (rlsStep P s x d).s.p * (P.mu • R + vecMulVec (vecOf P.n (shiftIn ℝ P.n s.u x)) (vecOf P.n (shiftIn ℝ P.n s.u x))) = 1 ∧
    (P.mu • R + vecMulVec (vecOf P.n (shiftIn ℝ P.n s.u x)) (vecOf P.n (shiftIn ℝ P.n s.u x))) *ᵥ vecOf P.n (rlsStep P s x d).s.w
      = P.mu • (R *ᵥ vecOf P.n s.w) + d • vecOf P.n (shiftIn ℝ P.n s.u x) ∧
    (∀ v : Fin P.n → ℝ, 0 ≤ v ⬝ᵥ (P.mu • R + vecMulVec (vecOf P.n (shiftIn ℝ P.n s.u x)) (vecOf P.n (shiftIn ℝ P.n s.u x))) *ᵥ v) := by
  obtain ⟨hp, hw⟩ := rls_step_matrix P s x d hl
  generalize vecOf P.n (shiftIn ℝ P.n s.u x) = u at hp hw ⊢
  have hnn := sm_den_nonneg (Pm P.n s.p) R u hPR hpsd
  have hden : 0 < P.mu + (u ᵥ* Pm P.n s.p) ⬝ᵥ u := by linarith
  refine ⟨hden, ?_, ?_, ?_⟩
  · rw [hp]; exact sm_inv _ _ _ _ hPR hlam.ne' hden.ne'
  · rw [hw, mulVec_add, mulVec_smul, sm_gain _ _ _ _ hPR hden.ne', add_mulVec, smul_mulVec, vecMulVec_mulVec]
    ext i
    simp only [Pi.add_apply, Pi.smul_apply, smul_eq_mul, MulOpposite.smul_eq_mul_unop, MulOpposite.unop_op,
      dotProduct_comm u]
    ring
  · intro v
    rw [add_mulVec, smul_mulVec, vecMulVec_mulVec, dotProduct_add, dotProduct_smul]
    have h1 := hpsd v
    have h2 : v ⬝ᵥ (MulOpposite.op (u ⬝ᵥ v) • u) = (u ⬝ᵥ v) ^ 2 := by
      simp only [dotProduct, Pi.smul_apply, MulOpposite.smul_eq_mul_unop, MulOpposite.unop_op]
      rw [sq, Finset.sum_mul]
      apply Finset.sum_congr rfl
      intro i _
      ring
    rw [h2, smul_eq_mul]
    have := mul_nonneg hlam.le h1
    positivity

/-- **T12.4, invariant along a run (ℝ).**  Start an unlocked real RLS filter in ANY state whose `_p` is the inverse
of some matrix `R₀` with non-negative quadratic form, and run it over any samples `(x_k, d_k)`.  With `(u_k, d_k)` the
regressor/desired pairs (`regs`), `λ = _mu > 0` and `R_k = λ^k R₀ + Σ_i λ^{k-1-i} u_i u_iᵀ`:
`_p · R_k = I` (no division by zero occurs on the way) and the coefficients satisfy the normal equations
`R_k w_k = λ^k R₀ w₀ + Σ_i λ^{k-1-i} d_i u_i`. -/
theorem rls_run_wls (P : RlsP ℝ) (hlam : 0 < P.mu) : ∀ (l : List (ℝ × ℝ)) (s : RlsState ℝ)
    (R0 : Matrix (Fin P.n) (Fin P.n) ℝ), s.locked = false → Pm P.n s.p * R0 = 1 →
    (∀ v : Fin P.n → ℝ, 0 ≤ v ⬝ᵥ R0 *ᵥ v) →
    Pm P.n (runR P s l).1.p * (P.mu ^ l.length • R0 + wR P.mu (regs P.n s.u l)) = 1 ∧
    (P.mu ^ l.length • R0 + wR P.mu (regs P.n s.u l)) *ᵥ vecOf P.n (runR P s l).1.w
      = P.mu ^ l.length • (R0 *ᵥ vecOf P.n s.w) + wB P.mu (regs P.n s.u l) ∧
    (runR P s l).1.locked = false := by
  intro l
  induction l with
  | nil =>
    intro s R0 hl hPR _
    simp [runR, regs, wR, wB, hPR, hl]
  | cons a t ih =>
    intro s R0 hl hPR hpsd
    obtain ⟨_, h1, h2, h3⟩ := rls_step_invariant P hlam s a.1 a.2 hl R0 hPR hpsd
    obtain ⟨_, _, hu, hlk⟩ := rls_step_apriori P s a.1 a.2
    obtain ⟨i1, i2, i3⟩ := ih (rlsStep P s a.1 a.2).s _ (by rw [hlk, hl]) h1 h3
    have eR : P.mu ^ (a :: t).length • R0 + wR P.mu (regs P.n s.u (a :: t))
        = P.mu ^ t.length • (P.mu • R0 + vecMulVec (vecOf P.n (shiftIn ℝ P.n s.u a.1)) (vecOf P.n (shiftIn ℝ P.n s.u a.1)))
          + wR P.mu (regs P.n (rlsStep P s a.1 a.2).s.u t) := by
      rw [hu]
      simp only [regs, wR, regs_length, List.length_cons, pow_succ, smul_add, smul_smul]
      abel
    simp only [runR]
    rw [eR]
    refine ⟨i1, ?_, i3⟩
    rw [i2, h2, hu]
    simp only [regs, wB, regs_length, List.length_cons, pow_succ, smul_add, smul_smul]
    abel

end run

section cost
variable {n : Nat}

theorem wR_transpose (lam : ℝ) : ∀ l : List ((Fin n → ℝ) × ℝ), (wR lam l)ᵀ = wR lam l := by
  intro l
  induction l with
  | nil => simp [wR]
  | cons a t ih => simp [wR, ih, transpose_vecMulVec]

theorem quad_vecMulVec (u v : Fin n → ℝ) : v ⬝ᵥ vecMulVec u u *ᵥ v = (v ⬝ᵥ u) ^ 2 := by
  rw [vecMulVec_mulVec]
  simp only [dotProduct, Pi.smul_apply, MulOpposite.smul_eq_mul_unop, MulOpposite.unop_op]
  rw [sq, Finset.sum_mul]
  apply Finset.sum_congr rfl
  intro i _
  have : ∑ j, u j * v j = ∑ j, v j * u j := Finset.sum_congr rfl (fun j _ => mul_comm _ _)
  rw [this]; ring

theorem wR_quad_nonneg (lam : ℝ) (hlam : 0 ≤ lam) (v : Fin n → ℝ) : ∀ l : List ((Fin n → ℝ) × ℝ),
    0 ≤ v ⬝ᵥ wR lam l *ᵥ v := by
  intro l
  induction l with
  | nil => simp [wR]
  | cons a t ih =>
    simp only [wR, add_mulVec, smul_mulVec, dotProduct_add, dotProduct_smul, quad_vecMulVec, smul_eq_mul]
    positivity

/-- the weighted error sum is the quadratic `vᵀ(Σλ..uuᵀ)v − 2 vᵀ(Σλ..d u) + Σλ..d²` -/
theorem wJ_expand (lam : ℝ) (v : Fin n → ℝ) : ∀ l : List ((Fin n → ℝ) × ℝ),
    wJ lam l v = v ⬝ᵥ wR lam l *ᵥ v - 2 * (v ⬝ᵥ wB lam l) + wC lam l := by
  intro l
  induction l with
  | nil => simp [wJ, wR, wB, wC]
  | cons a t ih =>
    simp only [wJ, wR, wB, wC, ih, add_mulVec, smul_mulVec, dotProduct_add, dotProduct_smul, quad_vecMulVec,
      smul_eq_mul]
    ring

/-- a quadratic with symmetric matrix `R`, expanded around a solution `w` of `R w = b` -/
theorem quad_complete (R : Matrix (Fin n) (Fin n) ℝ) (hsym : Rᵀ = R) (b w v : Fin n → ℝ) (hw : R *ᵥ w = b) :
    (v ⬝ᵥ R *ᵥ v - 2 * (v ⬝ᵥ b)) - (w ⬝ᵥ R *ᵥ w - 2 * (w ⬝ᵥ b)) = (v - w) ⬝ᵥ R *ᵥ (v - w) := by
  subst hw
  have hswap : w ⬝ᵥ R *ᵥ v = v ⬝ᵥ R *ᵥ w := by
    rw [dotProduct_mulVec, ← hsym, vecMul_transpose, hsym, dotProduct_comm]
  rw [mulVec_sub, sub_dotProduct, dotProduct_sub, dotProduct_sub, hswap]
  ring

/-- the exponentially weighted least-squares cost regularised by the prior `(v − w₀)ᵀ R₀ (v − w₀)`, after the
samples `ud` (oldest first): `J(v) = λ^k (v − w₀)ᵀ R₀ (v − w₀) + Σ_i λ^{k-1-i} (d_i − v·u_i)²` -/
noncomputable def wlsCost (lam : ℝ) (R0 : Matrix (Fin n) (Fin n) ℝ) (w0 : Fin n → ℝ) (ud : List ((Fin n → ℝ) × ℝ))
    (v : Fin n → ℝ) : ℝ :=
  lam ^ ud.length * ((v - w0) ⬝ᵥ R0 *ᵥ (v - w0)) + wJ lam ud v

/-- **normal equations ⇒ minimiser.**  If `w` solves `R_k w = λ^k R₀ w₀ + Σ λ.. d_i u_i` (`R₀` symmetric) then the
cost of any `v` exceeds that of `w` by exactly `(v − w)ᵀ R_k (v − w)`. -/
theorem wlsCost_diff (lam : ℝ) (R0 : Matrix (Fin n) (Fin n) ℝ) (hsym : R0ᵀ = R0) (w0 w v : Fin n → ℝ)
    (ud : List ((Fin n → ℝ) × ℝ))
    (hne : (lam ^ ud.length • R0 + wR lam ud) *ᵥ w = lam ^ ud.length • (R0 *ᵥ w0) + wB lam ud) :
    wlsCost lam R0 w0 ud v - wlsCost lam R0 w0 ud w
      = (v - w) ⬝ᵥ (lam ^ ud.length • R0 + wR lam ud) *ᵥ (v - w) := by
  have hS : (lam ^ ud.length • R0 + wR lam ud)ᵀ = lam ^ ud.length • R0 + wR lam ud := by
    rw [transpose_add, transpose_smul, hsym, wR_transpose]
  rw [← quad_complete _ hS _ w v hne]
  have hq : ∀ z : Fin n → ℝ, (z - w0) ⬝ᵥ R0 *ᵥ (z - w0)
      = z ⬝ᵥ R0 *ᵥ z - 2 * (z ⬝ᵥ R0 *ᵥ w0) + w0 ⬝ᵥ R0 *ᵥ w0 := by
    intro z
    have hswap : w0 ⬝ᵥ R0 *ᵥ z = z ⬝ᵥ R0 *ᵥ w0 := by
      rw [dotProduct_mulVec, ← hsym, vecMul_transpose, hsym, dotProduct_comm]
    rw [mulVec_sub, sub_dotProduct, dotProduct_sub, dotProduct_sub, hswap]
    ring
  simp only [wlsCost, wJ_expand, hq, add_mulVec, smul_mulVec, dotProduct_add, dotProduct_smul, smul_eq_mul]
  ring

end cost

section main

/-- **T12.4, minimiser along a run (ℝ), any admissible start state.**  In the setting of `rls_run_wls` with `R₀`
symmetric: the coefficient vector after the run minimises the exponentially weighted least-squares cost with prior
`(v − w₀)ᵀ R₀ (v − w₀)` (`w₀` the coefficients at the start); the excess cost of any other `v` is exactly
`(v − w_k)ᵀ R_k (v − w_k)`, and the minimiser is unique when `R₀` is positive definite. -/
theorem rls_run_minimiser (P : RlsP ℝ) (hlam : 0 < P.mu) (l : List (ℝ × ℝ)) (s : RlsState ℝ)
    (R0 : Matrix (Fin P.n) (Fin P.n) ℝ) (hl : s.locked = false) (hPR : Pm P.n s.p * R0 = 1) (hsym : R0ᵀ = R0)
    (hpsd : ∀ v : Fin P.n → ℝ, 0 ≤ v ⬝ᵥ R0 *ᵥ v) (v : Fin P.n → ℝ) :
    wlsCost P.mu R0 (vecOf P.n s.w) (regs P.n s.u l) v
        - wlsCost P.mu R0 (vecOf P.n s.w) (regs P.n s.u l) (vecOf P.n (runR P s l).1.w)
      = (v - vecOf P.n (runR P s l).1.w) ⬝ᵥ (P.mu ^ l.length • R0 + wR P.mu (regs P.n s.u l))
          *ᵥ (v - vecOf P.n (runR P s l).1.w) ∧
    wlsCost P.mu R0 (vecOf P.n s.w) (regs P.n s.u l) (vecOf P.n (runR P s l).1.w)
      ≤ wlsCost P.mu R0 (vecOf P.n s.w) (regs P.n s.u l) v ∧
    ((∀ z : Fin P.n → ℝ, z ≠ 0 → 0 < z ⬝ᵥ R0 *ᵥ z) →
      wlsCost P.mu R0 (vecOf P.n s.w) (regs P.n s.u l) v
        = wlsCost P.mu R0 (vecOf P.n s.w) (regs P.n s.u l) (vecOf P.n (runR P s l).1.w) →
      v = vecOf P.n (runR P s l).1.w) := by
  obtain ⟨_, hne, _⟩ := rls_run_wls P hlam l s R0 hl hPR hpsd
  have hd := wlsCost_diff P.mu R0 hsym (vecOf P.n s.w) (vecOf P.n (runR P s l).1.w) v (regs P.n s.u l)
    (by simpa [regs_length] using hne)
  rw [regs_length] at hd
  have hq : ∀ z : Fin P.n → ℝ, z ⬝ᵥ (P.mu ^ l.length • R0 + wR P.mu (regs P.n s.u l)) *ᵥ z
      = P.mu ^ l.length * (z ⬝ᵥ R0 *ᵥ z) + z ⬝ᵥ wR P.mu (regs P.n s.u l) *ᵥ z := by
    intro z
    rw [add_mulVec, smul_mulVec, dotProduct_add, dotProduct_smul, smul_eq_mul]
  have hpow : 0 < P.mu ^ l.length := pow_pos hlam _
  refine ⟨hd, ?_, ?_⟩
  · have h1 := hpsd (v - vecOf P.n (runR P s l).1.w)
    have h2 := wR_quad_nonneg P.mu hlam.le (v - vecOf P.n (runR P s l).1.w) (regs P.n s.u l)
    have h3 := mul_nonneg hpow.le h1
    rw [hq] at hd
    linarith
  · intro hpd heq
    by_contra hne'
    have h1 := hpd (v - vecOf P.n (runR P s l).1.w) (sub_ne_zero.mpr hne')
    have h2 := wR_quad_nonneg P.mu hlam.le (v - vecOf P.n (runR P s l).1.w) (regs P.n s.u l)
    have h3 := mul_pos hpow h1
    rw [hq] at hd
    linarith

/-- the constructor's `_p` is `diag_load · I` -/
theorem Pm_init (P : RlsP ℝ) (dl : ℝ) : Pm P.n (rlsInit P dl : RlsState ℝ).p = dl • (1 : Matrix (Fin P.n) (Fin P.n) ℝ) := by
  ext i k
  have hik : i.val * P.n + k.val < P.n * P.n := by
    calc i.val * P.n + k.val < i.val * P.n + P.n := by omega
      _ = (i.val + 1) * P.n := by rw [Nat.add_mul, Nat.one_mul]
      _ ≤ P.n * P.n := Nat.mul_le_mul_right P.n i.isLt
  have hn : 0 < P.n := by have := i.isLt; omega
  have hdiv : (i.val * P.n + k.val) / P.n = i.val := by
    rw [Nat.add_comm, Nat.add_mul_div_right _ _ hn, Nat.div_eq_of_lt k.isLt]; simp
  have hmod : (i.val * P.n + k.val) % P.n = k.val := by
    rw [Nat.add_comm, Nat.add_mul_mod_self_right, Nat.mod_eq_of_lt k.isLt]
  simp only [Pm, Matrix.of_apply, rlsPm, rlsInit]
  rw [rd_ofFn _ _ _ hik]
  simp only [hdiv, hmod, Matrix.smul_apply, smul_eq_mul, Matrix.one_apply, Fin.ext_iff, Mixed.ofReal, zero_real]
  split <;> simp

/-- the constructor's coefficient vector is zero -/
theorem vecOf_init_w (P : RlsP ℝ) (dl : ℝ) : vecOf P.n (rlsInit P dl : RlsState ℝ).w = 0 := by
  ext i
  simp [vecOf, rlsInit, rd, zero_real, Array.getD_eq_getD_getElem?, i.isLt]

/-- **T12.4 `rls_is_wls` (ℝ; every length, forgetting factor `λ > 0`, diagonal load `δ > 0`, every sample sequence).**
Run a freshly constructed real `RlsFilter` (`_p = δ·I`, `_w = 0`, unlocked) over any samples `(x_i, d_i)`, `i < k`;
let `u_i` be the delay-line regressors.  Then, with `R_k = (λ^k/δ)·I + Σ_i λ^{k-1-i} u_i u_iᵀ` and
`b_k = Σ_i λ^{k-1-i} d_i u_i`:
* the code's `_p` is the inverse of `R_k` (and every gain denominator `λ + uᵀ P u` on the way is positive);
* `coeffs()` solves the normal equations `R_k w = b_k`, i.e. `w = _p · b_k`;
* `coeffs()` is THE minimiser of the exponentially weighted, diagonally regularised least-squares cost
  `J(v) = (λ^k/δ)‖v‖² + Σ_i λ^{k-1-i} (d_i − v·u_i)²`: `J(v) − J(w) = (v−w)ᵀ R_k (v−w)`, which is positive for `v ≠ w`. -/
theorem rls_is_wls (P : RlsP ℝ) (dl : ℝ) (hlam : 0 < P.mu) (hdl : 0 < dl) (l : List (ℝ × ℝ)) :
    let S := (runR P (rlsInit P dl : RlsState ℝ) l).1
    let ud := regs P.n (rlsInit P dl : RlsState ℝ).u l
    let Rk : Matrix (Fin P.n) (Fin P.n) ℝ := (P.mu ^ l.length / dl) • 1 + wR P.mu ud
    let J : (Fin P.n → ℝ) → ℝ := fun v => P.mu ^ l.length / dl * (v ⬝ᵥ v) + wJ P.mu ud v
    Pm P.n S.p * Rk = 1 ∧
    Rk *ᵥ vecOf P.n S.coeffs = wB P.mu ud ∧
    vecOf P.n S.coeffs = Pm P.n S.p *ᵥ wB P.mu ud ∧
    (∀ v, J v - J (vecOf P.n S.coeffs) = (v - vecOf P.n S.coeffs) ⬝ᵥ Rk *ᵥ (v - vecOf P.n S.coeffs)) ∧
    (∀ v, J (vecOf P.n S.coeffs) ≤ J v) ∧
    (∀ v, J v = J (vecOf P.n S.coeffs) → v = vecOf P.n S.coeffs) := by
  intro S ud Rk J
  have hR0 : Pm P.n (rlsInit P dl : RlsState ℝ).p * ((1 / dl) • (1 : Matrix (Fin P.n) (Fin P.n) ℝ)) = 1 := by
    rw [Pm_init, Matrix.smul_mul, Matrix.mul_smul, Matrix.mul_one, smul_smul, mul_one_div_cancel hdl.ne', one_smul]
  have hsym : ((1 / dl) • (1 : Matrix (Fin P.n) (Fin P.n) ℝ))ᵀ = (1 / dl) • 1 := by
    rw [transpose_smul, transpose_one]
  have hquad : ∀ z : Fin P.n → ℝ, z ⬝ᵥ ((1 / dl) • (1 : Matrix (Fin P.n) (Fin P.n) ℝ)) *ᵥ z = 1 / dl * (z ⬝ᵥ z) := by
    intro z
    rw [smul_mulVec, one_mulVec, dotProduct_smul, smul_eq_mul]
  have hdp : (0 : ℝ) < 1 / dl := by positivity
  have hpsd : ∀ z : Fin P.n → ℝ, 0 ≤ z ⬝ᵥ ((1 / dl) • (1 : Matrix (Fin P.n) (Fin P.n) ℝ)) *ᵥ z := by
    intro z
    rw [hquad]
    have : 0 ≤ z ⬝ᵥ z := Finset.sum_nonneg (fun i _ => mul_self_nonneg (z i))
    positivity
  have hpd : ∀ z : Fin P.n → ℝ, z ≠ 0 → 0 < z ⬝ᵥ ((1 / dl) • (1 : Matrix (Fin P.n) (Fin P.n) ℝ)) *ᵥ z := by
    intro z hz
    rw [hquad]
    have h0 : 0 ≤ z ⬝ᵥ z := Finset.sum_nonneg (fun i _ => mul_self_nonneg (z i))
    have h1 : z ⬝ᵥ z ≠ 0 := fun h => hz (dotProduct_self_eq_zero.mp h)
    have : 0 < z ⬝ᵥ z := lt_of_le_of_ne h0 (Ne.symm h1)
    positivity
  have hRk : P.mu ^ l.length • ((1 / dl) • (1 : Matrix (Fin P.n) (Fin P.n) ℝ)) + wR P.mu ud = Rk := by
    simp only [Rk, smul_smul]
    congr 2
    ring
  obtain ⟨h1, h2, _⟩ := rls_run_wls P hlam l (rlsInit P dl) _ rfl hR0 hpsd
  rw [vecOf_init_w, mulVec_zero, smul_zero, zero_add] at h2
  have hJ : ∀ v, wlsCost P.mu ((1 / dl) • (1 : Matrix (Fin P.n) (Fin P.n) ℝ))
      (vecOf P.n (rlsInit P dl : RlsState ℝ).w) ud v = J v := by
    intro v
    simp only [wlsCost, J, vecOf_init_w, sub_zero, hquad, regs_length, ud]
    ring
  change Pm P.n S.p * (P.mu ^ l.length • ((1 / dl) • (1 : Matrix (Fin P.n) (Fin P.n) ℝ)) + wR P.mu ud) = 1 at h1
  change (P.mu ^ l.length • ((1 / dl) • (1 : Matrix (Fin P.n) (Fin P.n) ℝ)) + wR P.mu ud) *ᵥ vecOf P.n S.w = wB P.mu ud at h2
  rw [hRk] at h1 h2
  have hmin : ∀ v, (J v - J (vecOf P.n S.w) = (v - vecOf P.n S.w) ⬝ᵥ Rk *ᵥ (v - vecOf P.n S.w)) ∧
      J (vecOf P.n S.w) ≤ J v ∧ (J v = J (vecOf P.n S.w) → v = vecOf P.n S.w) := by
    intro v
    obtain ⟨a, b, c⟩ := rls_run_minimiser P hlam l (rlsInit P dl) _ rfl hR0 hsym hpsd v
    refine ⟨?_, ?_, ?_⟩
    · rw [← hJ v, ← hJ (vecOf P.n S.w), ← hRk]; exact a
    · rw [← hJ v, ← hJ (vecOf P.n S.w)]; exact b
    · intro h; rw [← hJ v, ← hJ (vecOf P.n S.w)] at h; exact c hpd h
  refine ⟨h1, h2, ?_, fun v => (hmin v).1, fun v => (hmin v).2.1, fun v => (hmin v).2.2⟩
  have : Pm P.n S.p *ᵥ (Rk *ᵥ vecOf P.n S.w) = vecOf P.n S.w := by
    rw [mulVec_mulVec, h1, one_mulVec]
  rw [← h2]; exact this.symm

end main

section calls

/-- the weighted correlation matrix keeps a non-negative quadratic form (so the conclusion of `rls_run_wls` /
`rls_process_wls` re-establishes its own hypotheses: the statements compose over successive calls) -/
theorem wls_psd {n : Nat} (lam : ℝ) (hlam : 0 ≤ lam) (R0 : Matrix (Fin n) (Fin n) ℝ)
    (hpsd : ∀ v : Fin n → ℝ, 0 ≤ v ⬝ᵥ R0 *ᵥ v) (k : Nat) (ud : List ((Fin n → ℝ) × ℝ)) (v : Fin n → ℝ) :
    0 ≤ v ⬝ᵥ (lam ^ k • R0 + wR lam ud) *ᵥ v := by
  rw [add_mulVec, smul_mulVec, dotProduct_add, dotProduct_smul, smul_eq_mul]
  have h1 := mul_nonneg (pow_nonneg hlam k) (hpsd v)
  have h2 := wR_quad_nonneg lam hlam v ud
  linarith

/-- **T12.4 for the implementation model, any admissible state, any frame.**  One call of
`RlsFilter<real_t>::process` on an unlocked filter whose `_p` is the inverse of `R₀` (non-negative quadratic form):
afterwards `_p` is the inverse of `λ^k R₀ + Σ_i λ^{k-1-i} u_i u_iᵀ` and `coeffs()` solves the normal equations. -/
theorem rls_process_wls (P : RlsP ℝ) (hlam : 0 < P.mu) (s s' : RlsState ℝ) (x d y e : Array ℝ)
    (R0 : Matrix (Fin P.n) (Fin P.n) ℝ) (hl : s.locked = false) (hPR : Pm P.n s.p * R0 = 1)
    (hpsd : ∀ v : Fin P.n → ℝ, 0 ≤ v ⬝ᵥ R0 *ᵥ v) (h : rlsProcess P s x d = .ok (s', y, e)) :
    Pm P.n s'.p * (P.mu ^ x.size • R0 + wR P.mu (regs P.n s.u (x.toList.zip d.toList))) = 1 ∧
    (P.mu ^ x.size • R0 + wR P.mu (regs P.n s.u (x.toList.zip d.toList))) *ᵥ vecOf P.n s'.coeffs
      = P.mu ^ x.size • (R0 *ᵥ vecOf P.n s.coeffs) + wB P.mu (regs P.n s.u (x.toList.zip d.toList)) ∧
    s'.locked = false := by
  have hxd : x.size = d.size := by
    unfold rlsProcess at h
    by_contra hne
    rw [if_pos hne] at h
    cases h
  obtain ⟨s1, y1, e1, h1, hs, _, _⟩ := rls_refines P s x d hxd
  rw [h1] at h
  injection h with h
  injection h with hs' _
  subst hs'
  rw [hs]
  have hlen : (x.toList.zip d.toList).length = x.size := by simp [hxd]
  have := rls_run_wls P hlam (x.toList.zip d.toList) s R0 hl hPR hpsd
  rw [hlen] at this
  exact this

/-- **T12.4 `rls_is_wls` for the implementation model**: a fresh filter, one call of `process` on any frame. -/
theorem rls_process_is_wls (P : RlsP ℝ) (dl : ℝ) (hlam : 0 < P.mu) (hdl : 0 < dl) (s' : RlsState ℝ)
    (x d y e : Array ℝ) (h : rlsProcess P (rlsInit P dl) x d = .ok (s', y, e)) :
    let ud := regs P.n (rlsInit P dl : RlsState ℝ).u (x.toList.zip d.toList)
    let Rk : Matrix (Fin P.n) (Fin P.n) ℝ := (P.mu ^ x.size / dl) • 1 + wR P.mu ud
    let J : (Fin P.n → ℝ) → ℝ := fun v => P.mu ^ x.size / dl * (v ⬝ᵥ v) + wJ P.mu ud v
    Pm P.n s'.p * Rk = 1 ∧ Rk *ᵥ vecOf P.n s'.coeffs = wB P.mu ud ∧
    vecOf P.n s'.coeffs = Pm P.n s'.p *ᵥ wB P.mu ud ∧
    (∀ v, J (vecOf P.n s'.coeffs) ≤ J v) ∧ (∀ v, J v = J (vecOf P.n s'.coeffs) → v = vecOf P.n s'.coeffs) := by
  have hxd : x.size = d.size := by
    unfold rlsProcess at h
    by_contra hne
    rw [if_pos hne] at h
    cases h
  obtain ⟨s1, y1, e1, h1, hs, _, _⟩ := rls_refines P (rlsInit P dl) x d hxd
  rw [h1] at h
  injection h with h
  injection h with hs' _
  subst hs'
  rw [hs]
  have hlen : (x.toList.zip d.toList).length = x.size := by simp [hxd]
  have := rls_is_wls P dl hlam hdl (x.toList.zip d.toList)
  rw [hlen] at this
  obtain ⟨a, b, c, _, f, g⟩ := this
  exact ⟨a, b, c, f, g⟩

end calls

section nonvacuity1

/-- the hypotheses of `rls_run_wls` / `rls_process_wls` hold in the constructor state (`R₀ = δ⁻¹ I`) … -/
example (P : RlsP ℝ) (dl : ℝ) (hdl : 0 < dl) :
    (rlsInit P dl : RlsState ℝ).locked = false ∧
    Pm P.n (rlsInit P dl : RlsState ℝ).p * ((1 / dl) • (1 : Matrix (Fin P.n) (Fin P.n) ℝ)) = 1 ∧
    ∀ v : Fin P.n → ℝ, 0 ≤ v ⬝ᵥ ((1 / dl) • (1 : Matrix (Fin P.n) (Fin P.n) ℝ)) *ᵥ v := by
  refine ⟨rfl, ?_, ?_⟩
  · rw [Pm_init, Matrix.smul_mul, Matrix.mul_smul, Matrix.mul_one, smul_smul, mul_one_div_cancel hdl.ne', one_smul]
  · intro v
    rw [smul_mulVec, one_mulVec, dotProduct_smul, smul_eq_mul]
    have : 0 ≤ v ⬝ᵥ v := Finset.sum_nonneg (fun i _ => mul_self_nonneg (v i))
    positivity

/-- … and `rls_is_wls` at a concrete filter: length 2, `λ = 0.9`, `δ = 10`, two samples -/
example := rls_is_wls (⟨2, 9 / 10⟩ : RlsP ℝ) 10 (by norm_num) (by norm_num) [(1, 2), (3, 4)]

/-- a call of `process` with equal frame lengths always succeeds, so `rls_process_is_wls` is not vacuous -/
example : ∃ (s' : RlsState ℝ) (y e : Array ℝ),
    rlsProcess (⟨2, 9 / 10⟩ : RlsP ℝ) (rlsInit (⟨2, 9 / 10⟩ : RlsP ℝ) 10 : RlsState ℝ) (#[1, 3] : Array ℝ) (#[2, 4] : Array ℝ)
      = .ok (s', y, e) := by
  obtain ⟨s', y, e, h, _⟩ := rls_refines (⟨2, 9 / 10⟩ : RlsP ℝ) (rlsInit (⟨2, 9 / 10⟩ : RlsP ℝ) 10 : RlsState ℝ)
    (#[1, 3] : Array ℝ) (#[2, 4] : Array ℝ) (by simp)
  exact ⟨s', y, e, h⟩

end nonvacuity1

/-! ## T12.3 for complex data -/


section cnlms

theorem sumL_cx_re (z : Cx ℝ) (l : List (Cx ℝ)) : (sumL z l).re = z.re + (l.map (·.re)).sum := by
  unfold sumL
  induction l generalizing z with
  | nil => simp
  | cons a t ih => simp [ih, add_assoc]

theorem sumL_cx_im (z : Cx ℝ) (l : List (Cx ℝ)) : (sumL z l).im = z.im + (l.map (·.im)).sum := by
  unfold sumL
  induction l generalizing z with
  | nil => simp
  | cons a t ih => simp [ih, add_assoc]

/-- squared misalignment `‖w − w*‖² = Σ |w_i − w*_i|²` of complex coefficient vectors -/
noncomputable def misC (w ws : List (Cx ℝ)) : ℝ := (List.zipWith (fun a b => Cx.abs2 (a - b)) w ws).sum

/-- `Σ |r_i|²` -/
noncomputable def pow2C (r : List (Cx ℝ)) : ℝ := (r.map Cx.abs2).sum

/-- real and imaginary part of `Σ (w_i − w*_i) r_i` (no conjugation, as in the filter output) -/
noncomputable def crossRe (w ws r : List (Cx ℝ)) : ℝ :=
  (List.zipWith (fun (a : Cx ℝ × Cx ℝ) (x : Cx ℝ) => (a.1.re - a.2.re) * x.re - (a.1.im - a.2.im) * x.im) (w.zip ws) r).sum
noncomputable def crossIm (w ws r : List (Cx ℝ)) : ℝ :=
  (List.zipWith (fun (a : Cx ℝ × Cx ℝ) (x : Cx ℝ) => (a.1.re - a.2.re) * x.im + (a.1.im - a.2.im) * x.re) (w.zip ws) r).sum

theorem pow2C_nonneg (r : List (Cx ℝ)) : 0 ≤ pow2C r := by
  unfold pow2C
  apply List.sum_nonneg
  intro x hx
  simp at hx
  obtain ⟨a, _, rfl⟩ := hx
  unfold Cx.abs2
  nlinarith [mul_self_nonneg a.re, mul_self_nonneg a.im]

/-- `w ↦ w + a·conj(r)` for a complex scalar `a = (ar, ai)`, written out in components -/
noncomputable def axpyConj (ar ai : ℝ) (w r : List (Cx ℝ)) : List (Cx ℝ) :=
  List.zipWith (fun wi ri => (⟨wi.re + (ar * ri.re + ai * ri.im), wi.im + (ai * ri.re - ar * ri.im)⟩ : Cx ℝ)) w r

theorem misC_axpy (ar ai : ℝ) (r : List (Cx ℝ)) : ∀ (w ws : List (Cx ℝ)), w.length = r.length → ws.length = r.length →
    misC (axpyConj ar ai w r) ws
      = misC w ws + 2 * (ar * crossRe w ws r + ai * crossIm w ws r) + (ar ^ 2 + ai ^ 2) * pow2C r := by
  induction r with
  | nil =>
    intro w ws h1 h2
    have hw : w = [] := List.eq_nil_of_length_eq_zero (by simpa using h1)
    subst hw
    simp [misC, crossRe, crossIm, pow2C, axpyConj]
  | cons x r ih =>
    intro w ws h1 h2
    cases w with
    | nil => simp at h1
    | cons a w =>
      cases ws with
      | nil => simp at h2
      | cons b ws =>
        simp at h1 h2
        have := ih w ws h1 h2
        simp only [misC, crossRe, crossIm, pow2C, axpyConj, List.zipWith_cons_cons, List.sum_cons, List.map_cons,
          List.zip_cons_cons] at this ⊢
        rw [this]
        simp only [Cx.abs2, Cx.sub_re, Cx.sub_im]
        ring

theorem out_diff_C (r : List (Cx ℝ)) : ∀ (w ws : List (Cx ℝ)), w.length = r.length → ws.length = r.length →
    (outC ℝ ws r - outC ℝ w r).re = - crossRe w ws r ∧ (outC ℝ ws r - outC ℝ w r).im = - crossIm w ws r := by
  induction r with
  | nil =>
    intro w ws h1 h2
    have hw : w = [] := List.eq_nil_of_length_eq_zero (by simpa using h1)
    have hws : ws = [] := List.eq_nil_of_length_eq_zero (by simpa using h2)
    subst hw hws
    simp [outC, crossRe, crossIm, sumL]
  | cons x r ih =>
    intro w ws h1 h2
    cases w with
    | nil => simp at h1
    | cons a w =>
      cases ws with
      | nil => simp at h2
      | cons b ws =>
        simp at h1 h2
        have := ih w ws h1 h2
        simp only [outC, crossRe, crossIm, Cx.sub_re, Cx.sub_im, sumL_cx_re, sumL_cx_im, List.zipWith_cons_cons,
          List.sum_cons, List.map_cons, List.zip_cons_cons, Cx.mul_re, Cx.mul_im] at this ⊢
        constructor <;> linarith [this.1, this.2]

end cnlms

section cnlms2

theorem updC_nlms_complex (p : LmsP ℝ) (hn : p.nlms = true) (hlk : p.lk = 1) (w r : List (Cx ℝ)) (e : Cx ℝ) :
    updC p w r e = axpyConj (p.mu * e.re / (pow2C r + eps)) (p.mu * e.im / (pow2C r + eps)) w r := by
  unfold updC axpyConj
  rw [if_pos hn]
  have : sumL (Fn.ofNat 0 : ℝ) (r.map (abs2 : Cx ℝ → ℝ)) = pow2C r := by
    rw [sumL_real]; simp [pow2C]; rfl
  simp only [this]
  congr 1
  funext wi ri
  apply Cx.ext'
  · simp only [Mixed.mulr, Mixed.divr, Mixed.rmul, Mixed.conj, Cx.mulr, Cx.divr, Cx.rmul, Cx.conj, hlk, Cx.add_re,
      Cx.mul_re]
    ring
  · simp only [Mixed.mulr, Mixed.divr, Mixed.rmul, Mixed.conj, Cx.mulr, Cx.divr, Cx.rmul, Cx.conj, hlk, Cx.add_im,
      Cx.mul_im]
    ring

/-- **T12.3, complex data (per-step identity).**  NLMS, leakage 1, noise-free desired sample `d = w*·r` (the filter
output does not conjugate; the update uses `conj(r)`: `w' = w + μ e conj(r)/(p+ε)`): one update changes the squared
misalignment `‖w − w*‖²` by exactly `− μ |e|² (2(p+ε) − μ p) / (p+ε)²`, `p = ‖r‖² = Σ|r_i|²`, `e = d − w·r`. -/
theorem nlms_misalignment_step_complex (p : LmsP ℝ) (hn : p.nlms = true) (hlk : p.lk = 1) (w ws r : List (Cx ℝ))
    (hw : w.length = r.length) (hws : ws.length = r.length) :
    misC (updC p w r (outC ℝ ws r - outC ℝ w r)) ws
      = misC w ws - p.mu * Cx.abs2 (outC ℝ ws r - outC ℝ w r) * (2 * (pow2C r + eps) - p.mu * pow2C r)
          / (pow2C r + eps) ^ 2 := by
  obtain ⟨h1, h2⟩ := out_diff_C r w ws hw hws
  rw [updC_nlms_complex p hn hlk, misC_axpy _ _ r w ws hw hws]
  have e1 : crossRe w ws r = - (outC ℝ ws r - outC ℝ w r).re := by rw [h1]; ring
  have e2 : crossIm w ws r = - (outC ℝ ws r - outC ℝ w r).im := by rw [h2]; ring
  rw [e1, e2]
  generalize outC ℝ ws r - outC ℝ w r = e
  have hN : pow2C r + (eps : ℝ) ≠ 0 := by
    have := pow2C_nonneg r; have := eps_pos; linarith
  simp only [Cx.abs2]
  field_simp
  ring

/-- **T12.3, complex data.**  For `0 < μ < 2` the squared misalignment does not increase. -/
theorem nlms_misalignment_le_complex (p : LmsP ℝ) (hn : p.nlms = true) (hlk : p.lk = 1) (hmu0 : 0 < p.mu)
    (hmu2 : p.mu < 2) (w ws r : List (Cx ℝ)) (hw : w.length = r.length) (hws : ws.length = r.length) :
    misC (updC p w r (outC ℝ ws r - outC ℝ w r)) ws ≤ misC w ws := by
  rw [nlms_misalignment_step_complex p hn hlk w ws r hw hws]
  have h1 := pow2C_nonneg r
  have h2 := eps_pos
  have h3 : 0 ≤ Cx.abs2 (outC ℝ ws r - outC ℝ w r) := by
    unfold Cx.abs2; nlinarith [mul_self_nonneg (outC ℝ ws r - outC ℝ w r).re, mul_self_nonneg (outC ℝ ws r - outC ℝ w r).im]
  have : 0 ≤ p.mu * Cx.abs2 (outC ℝ ws r - outC ℝ w r) * (2 * (pow2C r + eps) - p.mu * pow2C r)
      / (pow2C r + eps) ^ 2 := by
    apply div_nonneg
    · apply mul_nonneg
      · exact mul_nonneg hmu0.le h3
      · nlinarith
    · positivity
  linarith

/-- non-vacuity: `w = 0`, system `[1+i, 2]`, regressor `[1, i]`, `μ = 1` -/
example : misC (updC (⟨2, 1, true, 1⟩ : LmsP ℝ) [⟨0, 0⟩, ⟨0, 0⟩] [⟨1, 0⟩, ⟨0, 1⟩]
      (outC ℝ [⟨1, 1⟩, ⟨2, 0⟩] [⟨1, 0⟩, ⟨0, 1⟩] - outC ℝ [⟨0, 0⟩, ⟨0, 0⟩] [⟨1, 0⟩, ⟨0, 1⟩])) [⟨1, 1⟩, ⟨2, 0⟩]
    ≤ misC [⟨0, 0⟩, ⟨0, 0⟩] [⟨1, 1⟩, ⟨2, 0⟩] :=
  nlms_misalignment_le_complex _ rfl rfl (by norm_num) (by norm_num) _ _ _ rfl rfl

end cnlms2

section cnlms3

/-- `misC` is the squared `ℂ`-norm distance: `Σ ‖w_i − w*_i‖²` through `toC : Cx ℝ → ℂ` -/
theorem misC_eq_normSq (w ws : List (Cx ℝ)) :
    misC w ws = (List.zipWith (fun a b => Complex.normSq (Cx.toC a - Cx.toC b)) w ws).sum := by
  have : (fun a b : Cx ℝ => Cx.abs2 (a - b)) = fun a b => Complex.normSq (Cx.toC a - Cx.toC b) := by
    funext a b
    rw [Cx.abs2_eq, Cx.toC_sub]
  unfold misC
  rw [this]

theorem updC_length_cx (p : LmsP ℝ) (w r : List (Cx ℝ)) (e : Cx ℝ) : (updC p w r e).length = min w.length r.length := by
  unfold updC; split <;> simp

/-- **T12.3, complex data, whole trajectories of the clean recursion.** -/
theorem nlms_run_misalignment_le_complex (p : LmsP ℝ) (hn : p.nlms = true) (hlk : p.lk = 1) (hmu0 : 0 < p.mu)
    (hmu2 : p.mu < 2) (locked : Bool) (ws : List (Cx ℝ)) : ∀ (xs : List (Cx ℝ)) (c : CState (Cx ℝ)),
      c.w.length = c.h.length + 1 → ws.length = c.h.length + 1 →
      misC (runC p locked c (xs.zip (desiredC ℝ ws c.h xs))).1.w ws ≤ misC c.w ws := by
  intro xs
  induction xs with
  | nil => intro c _ _; simp [runC, desiredC]
  | cons x t ih =>
    intro c hw hws
    simp only [desiredC, List.zip_cons_cons, runC]
    have hr : (c.h ++ [x]).length = c.h.length + 1 := by simp
    cases locked with
    | true =>
      have := ih ⟨c.w, (c.h ++ [x]).drop 1⟩ (by simpa using hw) (by simpa using hws)
      simpa [stepC] using this
    | false =>
      have hstep := nlms_misalignment_le_complex p hn hlk hmu0 hmu2 c.w ws (c.h ++ [x]) (by rw [hr, hw]) (by rw [hr, hws])
      have := ih ⟨updC p c.w (c.h ++ [x]) (outC ℝ ws (c.h ++ [x]) - outC ℝ c.w (c.h ++ [x])), (c.h ++ [x]).drop 1⟩
        (by simp [updC_length_cx, hw]) (by simpa using hws)
      simp only [stepC, Bool.false_eq_true, if_false]
      exact le_trans this hstep

/-- **T12.3, complex data, the implementation model**: one call of `LmsFilter<cmplx_t>::process` in NLMS mode,
leakage 1, `0 < μ < 2`, noise-free desired frame of a system `ws` of the filter's length, never increases the squared
coefficient misalignment — whatever the frame, the history and the lock flag. -/
theorem nlms_process_misalignment_le_complex (p : LmsP ℝ) (hn : p.nlms = true) (hlk : p.lk = 1) (hmu0 : 0 < p.mu)
    (hmu2 : p.mu < 2) (s s' : LmsState (Cx ℝ)) (x d y e : Array (Cx ℝ)) (ws : List (Cx ℝ))
    (hlen : 1 ≤ p.len) (hu : s.u.size = p.len - 1) (hw : s.w.size = p.len) (hws : ws.length = p.len)
    (hd : d.toList = desiredC ℝ ws s.u.toList x.toList)
    (h : lmsProcess p s x d = .ok (s', y, e)) :
    misC s'.w.toList ws ≤ misC s.w.toList ws := by
  have hxd : x.size = d.size := by
    unfold lmsProcess at h
    by_contra hne
    rw [if_pos hne] at h
    cases h
  obtain ⟨s1, y1, e1, h1, _, _, _, hw1, _, _, _⟩ := lms_refines p s x d hlen hu hw hxd
  rw [h1] at h
  injection h with h
  injection h with hs _
  subst hs
  rw [hw1, hd]
  exact nlms_run_misalignment_le_complex p hn hlk hmu0 hmu2 s.locked ws x.toList ⟨s.w.toList, s.u.toList⟩
    (by simp [hu, hw]; omega) (by simp [hu, hws]; omega)

end cnlms3

end Dsp.C12
