import DspVerif.Model.Primes
import Mathlib.Data.Nat.Prime.Basic
import Mathlib.NumberTheory.Bertrand
import Mathlib.Tactic.Linarith
import Mathlib.Data.List.Sort
import Mathlib.NumberTheory.LucasPrimality
import Mathlib.Tactic.NormNum.Prime
/-!
# C15 — prime and power-of-two helpers agree with number theory and terminate

Theorems about `Model/Primes` (tied to `lib/primes.cpp`, `lib/math.cpp` by the correspondence run:
every n ≤ 2^13/2^16, boundary windows, random 32-bit arguments; table `primesTable` REGENERATED from the source).
`uint32_t` arguments are `n < 2^32`.  Loop fuel in the model is proved sufficient here (termination),
and the loop iteration counters give the cost clause.
-/
namespace Dsp.C15
open Dsp Dsp.Primes Dsp.Gen

/-- the table is exactly the primes up to 251, ascending (finite check over the regenerated table) -/
theorem table_spec : primesTable = (List.range 252).filter (fun k => decide (Nat.Prime k)) := by
  decide +kernel

/-- generator invariant: the vector holds exactly the primes up to its last element, ascending; the cursor is valid -/
def GenInv (g : PGen) : Prop :=
  g.pos < g.ps.length ∧ ∃ B, g.ps = (List.range (B + 1)).filter (fun k => decide (Nat.Prime k)) ∧ 251 ≤ B ∧ B < 2 ^ 32

/-- ascending list of the primes `≤ B` -/
def PL (B : Nat) : List Nat := (List.range (B + 1)).filter (fun k => decide (Nat.Prime k))

lemma mem_PL {B k : Nat} : k ∈ PL B ↔ k ≤ B ∧ Nat.Prime k := by
  simp [PL, List.mem_filter]

lemma PL_sorted (B : Nat) : (PL B).Pairwise (· < ·) :=
  List.Pairwise.filter _ List.pairwise_lt_range

lemma PL_succ (B : Nat) : PL (B + 1) = if Nat.Prime (B + 1) then PL B ++ [B + 1] else PL B := by
  unfold PL
  rw [List.range_succ, List.filter_append]
  by_cases h : Nat.Prime (B + 1) <;> simp [h]

lemma PL_ext (B : Nat) : ∀ C, B ≤ C → (∀ q, B < q → q ≤ C → ¬ Nat.Prime q) → PL C = PL B := by
  intro C hBC
  induction C, hBC using Nat.le_induction with
  | base => intro _; rfl
  | succ C hBC ih =>
    intro h
    rw [PL_succ, if_neg (h (C + 1) (by omega) le_rfl)]
    exact ih (fun q h1 h2 => h q h1 (by omega))

lemma PL_next (B p : Nat) (hp : Nat.Prime p) (hB : B < p) (h : ∀ q, B < q → q < p → ¬ Nat.Prime q) :
    PL p = PL B ++ [p] := by
  obtain ⟨c, rfl⟩ : ∃ c, p = c + 1 := ⟨p - 1, by omega⟩
  rw [PL_succ, if_pos hp, PL_ext B c (by omega) (fun q h1 h2 => h q h1 (by omega))]

/-- characterisation of the trial-division loop on an ascending list of positive numbers -/
lemma isPrimeBy_iff (n : Nat) : ∀ l : List Nat, (∀ d ∈ l, 1 ≤ d) → l.Pairwise (· < ·) →
    (isPrimeBy l n = true ↔ ∀ d ∈ l, d * d ≤ n → ¬ d ∣ n) := by
  intro l
  induction l with
  | nil => intro _ _; simp [isPrimeBy]
  | cons d t ih =>
    intro hpos hs
    have hd : 1 ≤ d := hpos d (by simp)
    rw [List.pairwise_cons] at hs
    have ih' := ih (fun e he => hpos e (by simp [he])) hs.2
    unfold isPrimeBy
    by_cases h1 : d > n / d
    · rw [if_pos h1]
      have h1' : n < d * d := (Nat.div_lt_iff_lt_mul hd).1 h1
      simp only [true_iff]
      intro e he hee
      exfalso
      rcases List.mem_cons.1 he with rfl | he'
      · omega
      · have : d < e := hs.1 e he'
        have : d * d ≤ e * e := Nat.mul_le_mul this.le this.le
        omega
    · rw [if_neg h1]
      have h1' : d * d ≤ n := by
        by_contra hc
        exact h1 ((Nat.div_lt_iff_lt_mul hd).2 (by omega))
      by_cases h2 : n % d = 0
      · have : (n % d == 0) = true := by simp [h2]
        rw [if_pos this]
        simp only [Bool.false_eq_true, false_iff]
        intro hall
        exact hall d (by simp) h1' (Nat.dvd_of_mod_eq_zero h2)
      · have : ¬ ((n % d == 0) = true) := by simp [h2]
        rw [if_neg this, ih']
        constructor
        · intro hall e he
          rcases List.mem_cons.1 he with rfl | he'
          · intro _ hdvd; exact h2 (Nat.mod_eq_zero_of_dvd hdvd)
          · exact hall e he'
        · intro hall e he; exact hall e (by simp [he])

lemma prime_iff_no_small (n : Nat) (h2 : 2 ≤ n) :
    Nat.Prime n ↔ ∀ d, Nat.Prime d → d * d ≤ n → ¬ d ∣ n := by
  constructor
  · intro hp d hd hdd hdvd
    have := (Nat.prime_dvd_prime_iff_eq hd hp).1 hdvd
    subst this
    have : 2 ≤ d := hd.two_le
    nlinarith
  · intro h
    by_contra hnp
    have h1 : n.minFac ^ 2 ≤ n := Nat.minFac_sq_le_self (by omega) hnp
    have h3 : n.minFac.Prime := Nat.minFac_prime (by omega)
    exact h _ h3 (by rw [← sq]; exact h1) (Nat.minFac_dvd n)

/-- Key lemma: trial division by all primes `≤ B` decides primality of `n` when `n < (B+1)^2` -/
lemma isPrimeBy_PL (B n : Nat) (h2 : 2 ≤ n) (hB : ∀ d, Nat.Prime d → d * d ≤ n → d ≤ B) :
    isPrimeBy (PL B) n = true ↔ Nat.Prime n := by
  rw [isPrimeBy_iff n (PL B) (fun d hd => (mem_PL.1 hd).2.one_lt.le) (PL_sorted B), prime_iff_no_small n h2]
  constructor
  · intro h d hd hdd; exact h d (mem_PL.2 ⟨hB d hd hdd, hd⟩) hdd
  · intro h d hd hdd; exact h d (mem_PL.1 hd).2 hdd


lemma nextCandidate_spec (B last p : Nat) (hl3 : 3 ≤ last) (hlB : last ≤ B)
    (hp : Nat.Prime p) (hlp : last < p) (hmin : ∀ q, last < q → q < p → ¬ Nat.Prime q)
    (hp2 : p ≤ 2 * last) (hpW : p < W) :
    ∀ fuel val, last < val → val ≤ p → val % 2 = 1 → p < fuel + val →
      nextCandidate (PL B) fuel val = p := by
  have hpodd : p % 2 = 1 := by
    rcases hp.eq_two_or_odd with h | h
    · omega
    · exact h
  intro fuel
  induction fuel with
  | zero => intro val _ h2 _ h4; omega
  | succ f ih =>
    intro val h1 h2 h3 h4
    have hiff : isPrimeBy (PL B) val = true ↔ Nat.Prime val := by
      apply isPrimeBy_PL B val (by omega)
      intro d _ hdd
      by_contra hc
      have : last + 1 ≤ d := by omega
      have : (last + 1) * (last + 1) ≤ d * d := Nat.mul_le_mul this this
      nlinarith
    unfold nextCandidate
    by_cases hv : Nat.Prime val
    · rw [if_pos (hiff.2 hv)]
      by_contra hne
      exact hmin val h1 (by omega) hv
    · rw [if_neg (fun h => hv (hiff.1 h))]
      have hne : val ≠ p := fun h => hv (h ▸ hp)
      have hW : (val + 2) % W = val + 2 := Nat.mod_eq_of_lt (by omega)
      rw [hW]
      exact ih (val + 2) (by omega) (by omega) (by omega) (by omega)

lemma sorted_getElem_le {l : List Nat} (hs : l.Pairwise (· < ·)) {i j : Nat} (hj : j < l.length)
    (hij : i ≤ j) : l[i]'(by omega) ≤ l[j] := by
  rcases Nat.eq_or_lt_of_le hij with rfl | h
  · exact le_rfl
  · exact (List.pairwise_iff_getElem.1 hs i j (by omega) hj h).le

lemma PGen.current_eq (g : PGen) (h : g.pos < g.ps.length) : g.current = g.ps[g.pos] := by
  unfold PGen.current
  exact List.getD_eq_getElem _ _ h

lemma prime251 : Nat.Prime 251 := by norm_num

/-- strengthened `gen_next_inv`: only the prime under the cursor has to be below 2^31 when the vector is extended -/
lemma gen_next_strong (g : PGen) (h : GenInv g) (hc : g.pos + 1 = g.ps.length → g.current < 2 ^ 31) :
    GenInv g.next ∧ g.current < g.next.current ∧ Nat.Prime g.next.current ∧
      ∀ q, g.current < q → q < g.next.current → ¬ Nat.Prime q := by
  obtain ⟨hpos, B, hps, hB1, hB2⟩ := h
  obtain ⟨ps, pos⟩ := g
  simp only at hpos hps hc
  change ps = PL B at hps
  subst hps
  have hs := PL_sorted B
  have hcur : (PGen.mk (PL B) pos).current = (PL B)[pos] := PGen.current_eq _ hpos
  rw [hcur] at hc ⊢
  have hmemc : (PL B)[pos] ∈ PL B := List.getElem_mem hpos
  obtain ⟨hcB, hcp⟩ := mem_PL.1 hmemc
  by_cases hlen : pos + 1 = (PL B).length
  · -- extension
    have hc := hc hlen
    set last := (PL B)[pos] with hlast
    have hmax : ∀ k ∈ PL B, k ≤ last := by
      intro k hk
      obtain ⟨j, hj, rfl⟩ := List.mem_iff_getElem.1 hk
      exact sorted_getElem_le hs hpos (by omega)
    have h251 : 251 ≤ last := hmax 251 (mem_PL.2 ⟨hB1, prime251⟩)
    have hex : ∃ p, Nat.Prime p ∧ last < p := by
      obtain ⟨p, hp, h1, _⟩ := Nat.exists_prime_lt_and_le_two_mul last (by omega)
      exact ⟨p, hp, h1⟩
    obtain ⟨p, hp, h1, h2⟩ := Nat.exists_prime_lt_and_le_two_mul last (by omega)
    have hfs := Nat.find_spec hex
    have hfm : ∀ q, last < q → q < Nat.find hex → ¬ Nat.Prime q :=
      fun q hq1 hq2 hqp => Nat.find_min hex hq2 ⟨hqp, hq1⟩
    have hfle : Nat.find hex ≤ 2 * last := le_trans (Nat.find_min' hex ⟨hp, h1⟩) h2
    set p0 := Nat.find hex with hp0
    have hBp0 : B < p0 := by
      by_contra hcon
      have := hmax p0 (mem_PL.2 ⟨by omega, hfs.1⟩)
      omega
    have hp0odd : p0 % 2 = 1 := by
      rcases hfs.1.eq_two_or_odd with h | h <;> omega
    have hlodd : last % 2 = 1 := by
      rcases hcp.eq_two_or_odd with h | h <;> omega
    have hW : (last + 2) % W = last + 2 := Nat.mod_eq_of_lt (by unfold W; omega)
    have hnc : nextCandidate (PL B) (last + 2) ((last + 2) % W) = p0 := by
      rw [hW]
      exact nextCandidate_spec B last p0 (by omega) hcB hfs.1 hfs.2 hfm hfle (by unfold W; omega)
        (last + 2) (last + 2) (by omega) (by omega) (by omega) (by omega)
    have hnext : (PGen.mk (PL B) pos).next = ⟨PL p0, pos + 1⟩ := by
      unfold PGen.next
      simp only [hlen, beq_self_eq_true, if_true, hcur, hnc]
      rw [PL_next B p0 hfs.1 hBp0 (fun q hq1 hq2 => hfm q (by omega) hq2)]
    have hlen' : (PL p0).length = pos + 2 := by
      rw [PL_next B p0 hfs.1 hBp0 (fun q hq1 hq2 => hfm q (by omega) hq2)]
      simp; omega
    have hcur' : (PGen.mk (PL p0) (pos + 1)).current = p0 := by
      rw [PGen.current_eq _ (by simp only; omega)]
      simp only [PL_next B p0 hfs.1 hBp0 (fun q hq1 hq2 => hfm q (by omega) hq2)]
      rw [List.getElem_append_right (by omega)]
      simp
    rw [hnext, hcur']
    refine ⟨⟨by simp only; omega, p0, rfl, by omega, by omega⟩, hfs.2, hfs.1, hfm⟩
  · -- no extension
    have hlt : pos + 1 < (PL B).length := by omega
    have hnext : (PGen.mk (PL B) pos).next = ⟨PL B, pos + 1⟩ := by
      unfold PGen.next
      simp [hlen]
    have hcur' : (PGen.mk (PL B) (pos + 1)).current = (PL B)[pos + 1] := PGen.current_eq _ hlt
    rw [hnext, hcur']
    have hmem' : (PL B)[pos + 1] ∈ PL B := List.getElem_mem hlt
    refine ⟨⟨hlt, B, rfl, hB1, hB2⟩, List.pairwise_iff_getElem.1 hs pos (pos + 1) hpos hlt (by omega),
      (mem_PL.1 hmem').2, ?_⟩
    intro q hq1 hq2 hqp
    have hqm : q ∈ PL B := mem_PL.2 ⟨by have := (mem_PL.1 hmem').1; omega, hqp⟩
    obtain ⟨j, hj, rfl⟩ := List.mem_iff_getElem.1 hqm
    by_cases hjp : j ≤ pos
    · have := sorted_getElem_le hs hpos hjp; omega
    · have := sorted_getElem_le hs hj (show pos + 1 ≤ j by omega); omega


theorem gen_init_inv : GenInv PGen.init := by
  refine ⟨by decide, 251, table_spec, le_rfl, by norm_num⟩

/-- T15.1 `next()` keeps the invariant (the extension step finds the next prime; Bertrand bounds its fuel),
    as long as the last prime found so far is below 2^31 -/
theorem gen_next_inv (g : PGen) (h : GenInv g) (hl : g.ps.getLastD 0 < 2 ^ 31) :
    GenInv g.next ∧ g.current < g.next.current ∧ Nat.Prime g.next.current ∧
      ∀ q, g.current < q → q < g.next.current → ¬ Nat.Prime q := by
  apply gen_next_strong g h
  intro hlen
  have : g.current = g.ps.getLastD 0 := by
    unfold PGen.current
    rw [List.getLastD_eq_getLast?, List.getLast?_eq_getElem?, List.getD_eq_getElem?_getD]
    congr 2
    omega
  rw [this]; exact hl

lemma GenInv.current_prime {g : PGen} (h : GenInv g) : Nat.Prime g.current := by
  obtain ⟨hpos, B, hps, _, _⟩ := h
  rw [PGen.current_eq g hpos]
  have h1 : g.ps[g.pos] ∈ g.ps := List.getElem_mem hpos
  have : g.ps[g.pos] ∈ PL B := by
    have h2 : g.ps = PL B := hps
    rw [← h2]; exact h1
  exact (mem_PL.1 this).2

lemma le_div_iff_sq {d n : Nat} (hd : 1 ≤ d) : d ≤ n / d ↔ d * d ≤ n :=
  Nat.le_div_iff_mul_le hd

/-- when trial division stops with `d > n / d`, having met no prime divisor below `d`, `n` is prime -/
lemma prime_of_stop {n d : Nat} (h2 : 2 ≤ n) (hd : 1 ≤ d)
    (hall : ∀ q, Nat.Prime q → q < d → ¬ q ∣ n) (hstop : ¬ d ≤ n / d) : Nat.Prime n := by
  rw [prime_iff_no_small n h2]
  intro q hq hqq
  apply hall q hq
  by_contra hc
  apply hstop
  rw [le_div_iff_sq hd]
  have : d * d ≤ q * q := Nat.mul_le_mul (by omega) (by omega)
  omega

/-- one `next()` inside a trial-division loop: the invariants carried by `isprimeLoop`/`factorLoop` -/
lemma loop_step {n m : Nat} (hn : n < 2 ^ 32) {g : PGen} (hg : GenInv g) (hd : g.current ≤ n / g.current)
    (hall : ∀ q, Nat.Prime q → q < g.current → ¬ q ∣ m) (hnd : ¬ g.current ∣ m) :
    GenInv g.next ∧ g.current < g.next.current ∧
      (∀ q, Nat.Prime q → q < g.next.current → ¬ q ∣ m) ∧ g.current ≤ Nat.sqrt n := by
  have hp := hg.current_prime
  have hdd : g.current * g.current ≤ n := (le_div_iff_sq hp.one_lt.le).1 hd
  have hlt : g.current < 2 ^ 31 := by
    by_contra hc
    have : 2 ^ 31 * 2 ^ 31 ≤ g.current * g.current := Nat.mul_le_mul (by omega) (by omega)
    omega
  obtain ⟨h1, h2, _, h4⟩ := gen_next_strong g hg (fun _ => hlt)
  refine ⟨h1, h2, ?_, Nat.le_sqrt.2 hdd⟩
  intro q hq hqlt
  rcases Nat.lt_trichotomy q g.current with h | h | h
  · exact hall q hq h
  · rw [h]; exact hnd
  · exact absurd hq (h4 q h hqlt)

lemma isprimeLoop_spec (n : Nat) (h2 : 2 ≤ n) (hn : n < 2 ^ 32) : ∀ fuel g steps, GenInv g →
    (∀ q, Nat.Prime q → q < g.current → ¬ q ∣ n) → n + 2 ≤ fuel + g.current →
    steps + 2 ≤ g.current → steps ≤ Nat.sqrt n →
    ((isprimeLoop n fuel g steps).1 = true ↔ Nat.Prime n) ∧ (isprimeLoop n fuel g steps).2 ≤ Nat.sqrt n := by
  intro fuel
  induction fuel with
  | zero =>
    intro g steps hg hall hf hs1 hs2
    simp only [isprimeLoop, true_iff]
    refine ⟨prime_of_stop h2 hg.current_prime.one_lt.le hall ?_, hs2⟩
    have : n / g.current ≤ n := Nat.div_le_self _ _
    omega
  | succ f ih =>
    intro g steps hg hall hf hs1 hs2
    have hp := hg.current_prime
    unfold isprimeLoop
    simp only []
    by_cases hd : g.current ≤ n / g.current
    · rw [if_pos hd]
      by_cases hm : n % g.current = 0
      · have : (n % g.current == 0) = true := by simp [hm]
        rw [if_pos this]
        have hdd : g.current * g.current ≤ n := (le_div_iff_sq hp.one_lt.le).1 hd
        have hsq : g.current ≤ Nat.sqrt n := Nat.le_sqrt.2 hdd
        refine ⟨?_, by simp only; omega⟩
        simp only [Bool.false_eq_true, false_iff]
        intro hnp
        have := (Nat.prime_dvd_prime_iff_eq hp hnp).1 (Nat.dvd_of_mod_eq_zero hm)
        rw [this] at hdd
        nlinarith
      · have : ¬ (n % g.current == 0) = true := by simp [hm]
        rw [if_neg this]
        obtain ⟨h1, h3, h4, h5⟩ := loop_step hn hg hd hall (fun hdvd => hm (Nat.mod_eq_zero_of_dvd hdvd))
        exact ih g.next (steps + 1) h1 h4 (by omega) (by omega) (by omega)
    · rw [if_neg hd]
      simp only [true_iff]
      exact ⟨prime_of_stop h2 hp.one_lt.le hall hd, hs2⟩

lemma init_current : PGen.init.current = 2 := by decide

lemma mem_table {n : Nat} : n ∈ primesTable ↔ n ≤ 251 ∧ Nat.Prime n := by
  rw [table_spec]; exact mem_PL

lemma isprimeS_spec (n : Nat) (hn : n < 2 ^ 32) :
    ((isprimeS n).1 = true ↔ Nat.Prime n) ∧ (isprimeS n).2 ≤ Nat.sqrt n := by
  unfold isprimeS
  by_cases h1 : n < 2
  · rw [if_pos h1]
    simp only [Bool.false_eq_true, false_iff, Nat.zero_le, and_true]
    intro hp; have := hp.two_le; omega
  rw [if_neg h1]
  by_cases h2 : n > 5 ∧ (n % 2 == 0 ∨ n % 3 == 0 ∨ n % 5 == 0)
  · rw [if_pos h2]
    simp only [Bool.false_eq_true, false_iff, Nat.zero_le, and_true]
    intro hp
    obtain ⟨h5, h⟩ := h2
    simp only [beq_iff_eq] at h
    rcases h with h | h | h
    · have := (Nat.prime_dvd_prime_iff_eq Nat.prime_two hp).1 (Nat.dvd_of_mod_eq_zero h); omega
    · have := (Nat.prime_dvd_prime_iff_eq Nat.prime_three hp).1 (Nat.dvd_of_mod_eq_zero h); omega
    · have := (Nat.prime_dvd_prime_iff_eq Nat.prime_five hp).1 (Nat.dvd_of_mod_eq_zero h); omega
  rw [if_neg h2]
  have hlast : primesTable.getLastD 0 = 251 := by decide
  rw [hlast]
  by_cases h3 : n ≤ 251
  · rw [if_pos h3]
    simp only [List.contains_iff_mem, Nat.zero_le, and_true, mem_table]
    tauto
  rw [if_neg h3]
  apply isprimeLoop_spec n (by omega) hn n PGen.init 0 gen_init_inv
  · intro q hq hlt; rw [init_current] at hlt; have := hq.two_le; omega
  · rw [init_current]
  · rw [init_current]
  · exact Nat.zero_le _

/-- T15.2 `isprime` agrees with primality for every 32-bit unsigned argument -/
theorem isprime_iff (n : Nat) (hn : n < 2 ^ 32) : isprime n = true ↔ Nat.Prime n := by
  exact (isprimeS_spec n hn).1

/-- T15.2 cost: at most `√n` trial divisions (one per prime `d` with `d ≤ n / d`) -/
theorem isprime_steps (n : Nat) (hn : n < 2 ^ 32) : (isprimeS n).2 ≤ Nat.sqrt n := by
  exact (isprimeS_spec n hn).2

lemma divideOut_spec (d : Nat) (hd : 2 ≤ d) : ∀ fuel n acc, 0 < n → n < 2 ^ fuel →
    ∃ k, divideOut d fuel n acc = (n / d ^ k, acc ++ List.replicate k d) ∧ d ^ k ∣ n ∧ ¬ d ∣ n / d ^ k := by
  intro fuel
  induction fuel with
  | zero => intro n acc h1 h2; omega
  | succ f ih =>
    intro n acc h1 h2
    unfold divideOut
    by_cases hm : n % d = 0
    · have hdvd : d ∣ n := Nat.dvd_of_mod_eq_zero hm
      have hc : (n % d == 0) = true ∧ d > 1 ∧ n > 0 := ⟨by simp [hm], by omega, h1⟩
      rw [if_pos hc]
      have hpos : 0 < n / d := Nat.div_pos (Nat.le_of_dvd h1 hdvd) (by omega)
      have hlt : n / d < 2 ^ f := by
        rw [Nat.div_lt_iff_lt_mul (by omega)]
        have : 2 ^ f * 2 ≤ 2 ^ f * d := Nat.mul_le_mul_left _ hd
        rw [pow_succ] at h2
        omega
      obtain ⟨k, hk1, hk2, hk3⟩ := ih (n / d) (acc ++ [d]) hpos hlt
      refine ⟨k + 1, ?_, ?_, ?_⟩
      · rw [hk1, Nat.div_div_eq_div_mul, pow_succ']
        simp [List.replicate_succ]
      · rw [pow_succ']; exact Nat.mul_dvd_of_dvd_div hdvd hk2
      · rw [pow_succ', ← Nat.div_div_eq_div_mul]; exact hk3
    · have hc : ¬ ((n % d == 0) = true ∧ d > 1 ∧ n > 0) := by simp [hm]
      rw [if_neg hc]
      refine ⟨0, by simp, by simp, ?_⟩
      simp only [pow_zero, Nat.div_one]
      intro hdvd; exact hm (Nat.mod_eq_zero_of_dvd hdvd)

/-- the common exit of `factorLoop` (loop condition false, or fuel exhausted) -/
lemma factor_exit {N n d : Nat} {acc : List Nat} (hn1 : 1 ≤ n) (hd : 1 ≤ d) (hprod : n * acc.prod = N)
    (hacc : ∀ p ∈ acc, Nat.Prime p ∧ p < d) (hsort : acc.Pairwise (· ≤ ·))
    (hall : ∀ q, Nat.Prime q → q < d → ¬ q ∣ n) (hstop : ¬ d ≤ n / d) :
    (∀ p ∈ (if n > 1 then acc ++ [n] else acc), Nat.Prime p) ∧
      (if n > 1 then acc ++ [n] else acc).Pairwise (· ≤ ·) ∧ (if n > 1 then acc ++ [n] else acc).prod = N := by
  by_cases h : n > 1
  · rw [if_pos h]
    have hp : Nat.Prime n := prime_of_stop (by omega) hd hall hstop
    have hdn : d ≤ n := by
      by_contra hc
      exact hall n hp (by omega) dvd_rfl
    refine ⟨?_, ?_, ?_⟩
    · intro p hp'
      rcases List.mem_append.1 hp' with h1 | h1
      · exact (hacc p h1).1
      · simp at h1; rw [h1]; exact hp
    · rw [List.pairwise_append]
      refine ⟨hsort, by simp, ?_⟩
      intro a ha b hb
      simp at hb; rw [hb]
      have := (hacc a ha).2; omega
    · rw [List.prod_append, List.prod_singleton, mul_comm]; exact hprod
  · rw [if_neg h]
    have : n = 1 := by omega
    subst this
    exact ⟨fun p hp => (hacc p hp).1, hsort, by simpa using hprod⟩

lemma factorLoop_spec (N : Nat) (hN1 : 1 ≤ N) (hN : N < 2 ^ 32) : ∀ fuel n g acc steps, GenInv g → 1 ≤ n →
    n * acc.prod = N → (∀ p ∈ acc, Nat.Prime p ∧ p < g.current) → acc.Pairwise (· ≤ ·) →
    (∀ q, Nat.Prime q → q < g.current → ¬ q ∣ n) → N + 2 ≤ fuel + g.current →
    steps + 2 ≤ g.current → steps ≤ Nat.sqrt N →
    (∀ p ∈ (factorLoop fuel n g acc steps).1, Nat.Prime p) ∧
      (factorLoop fuel n g acc steps).1.Pairwise (· ≤ ·) ∧
      (factorLoop fuel n g acc steps).1.prod = N ∧ (factorLoop fuel n g acc steps).2 ≤ Nat.sqrt N := by
  intro fuel
  induction fuel with
  | zero =>
    intro n g acc steps hg hn1 hprod hacc hsort hall hf hs1 hs2
    have hnN : n ≤ N := Nat.le_of_dvd hN1 ⟨_, hprod.symm⟩
    have hstop : ¬ g.current ≤ n / g.current := by
      have : n / g.current ≤ n := Nat.div_le_self _ _
      omega
    obtain ⟨h1, h2, h3⟩ := factor_exit hn1 hg.current_prime.one_lt.le hprod hacc hsort hall hstop
    simp only [factorLoop]
    exact ⟨h1, h2, h3, hs2⟩
  | succ f ih =>
    intro n g acc steps hg hn1 hprod hacc hsort hall hf hs1 hs2
    have hp := hg.current_prime
    have hnN : n ≤ N := Nat.le_of_dvd hN1 ⟨_, hprod.symm⟩
    unfold factorLoop
    simp only []
    by_cases hd : g.current ≤ n / g.current
    · rw [if_pos hd]
      obtain ⟨k, hk1, hk2, hk3⟩ := divideOut_spec g.current hp.two_le 32 n acc (by omega) (by omega)
      rw [hk1]
      simp only []
      have hn' : n / g.current ^ k ∣ n := Nat.div_dvd_of_dvd hk2
      obtain ⟨h1, h3, h4, h5⟩ := loop_step (m := n / g.current ^ k) (by omega : n < 2 ^ 32) hg hd
        (fun q hq hlt hdvd => hall q hq hlt (dvd_trans hdvd hn')) hk3
      have h5' : g.current ≤ Nat.sqrt N := le_trans h5 (Nat.sqrt_le_sqrt hnN)
      apply ih (n / g.current ^ k) g.next _ (steps + 1) h1
      · exact Nat.div_pos (Nat.le_of_dvd (by omega) hk2) (Nat.pow_pos (by omega))
      · rw [List.prod_append, List.prod_replicate, ← hprod, mul_comm acc.prod, ← mul_assoc,
          Nat.div_mul_cancel hk2]
      · intro p hp'
        rcases List.mem_append.1 hp' with h | h
        · exact ⟨(hacc p h).1, lt_trans (hacc p h).2 h3⟩
        · rw [(List.mem_replicate.1 h).2]; exact ⟨hp, h3⟩
      · rw [List.pairwise_append]
        refine ⟨hsort, ?_, ?_⟩
        · rw [List.pairwise_replicate]; right; exact le_rfl
        · intro a ha b hb
          rw [(List.mem_replicate.1 hb).2]
          exact (hacc a ha).2.le
      · exact h4
      · omega
      · omega
      · omega
    · rw [if_neg hd]
      obtain ⟨h1, h2, h3⟩ := factor_exit hn1 hp.one_lt.le hprod hacc hsort hall hd
      exact ⟨h1, h2, h3, hs2⟩

lemma factorS_spec (n : Nat) (h2 : 2 ≤ n) (hn : n < 2 ^ 32) :
    (∀ p ∈ (factorS n).1, Nat.Prime p) ∧ (factorS n).1.Pairwise (· ≤ ·) ∧ (factorS n).1.prod = n ∧
      (factorS n).2 ≤ Nat.sqrt n := by
  unfold factorS
  by_cases h3 : n ≤ 3
  · rw [if_pos h3]
    have : n = 2 ∨ n = 3 := by omega
    rcases this with rfl | rfl
    · simp [Nat.prime_two]
    · simp [Nat.prime_three]
  · rw [if_neg h3]
    apply factorLoop_spec n (by omega) hn n n PGen.init [] 0 gen_init_inv (by omega) (by simp)
      (by simp) (by simp)
    · intro q hq hlt; rw [init_current] at hlt; have := hq.two_le; omega
    · rw [init_current]
    · rw [init_current]
    · exact Nat.zero_le _

/-- T15.3 `factor`: prime factors in non-decreasing order with product `n` -/
theorem factor_spec (n : Nat) (h2 : 2 ≤ n) (hn : n < 2 ^ 32) :
    (∀ p ∈ factor n, Nat.Prime p) ∧ (factor n).Pairwise (· ≤ ·) ∧ (factor n).prod = n := by
  have h := factorS_spec n h2 hn
  exact ⟨h.1, h.2.1, h.2.2.1⟩

/-- T15.3 cost: at most `√n` trial divisors -/
theorem factor_steps (n : Nat) (hn : n < 2 ^ 32) : (factorS n).2 ≤ Nat.sqrt n := by
  by_cases h2 : 2 ≤ n
  · exact (factorS_spec n h2 hn).2.2.2
  · unfold factorS
    rw [if_pos (by omega)]
    exact Nat.zero_le _

/-- what the API returns (`arr_int`) is the same list whenever every factor is representable as `int` -/
theorem factorInt_repr (n : Nat) (h : ∀ p ∈ factor n, p < 2 ^ 31) :
    factorInt n = (factor n).map (fun (p : Nat) => (p : Int)) := by
  unfold factorInt
  apply List.map_congr_left
  intro p hp
  have := h p hp
  unfold toI32
  rw [if_pos (by omega)]

lemma PL_one : PL 1 = [] := by
  rw [List.eq_nil_iff_forall_not_mem]
  intro k hk
  obtain ⟨h1, h2⟩ := mem_PL.1 hk
  have := h2.two_le; omega

lemma primesLoop_spec (n : Nat) (hn : n < 2 ^ 31) : ∀ fuel g acc, GenInv g → acc = PL (g.current - 1) →
    (∀ q, Nat.Prime q → q < g.current → q ≤ n) → n + 3 ≤ fuel + g.current →
    primesLoop n fuel g acc = PL n := by
  have hexit : ∀ g acc, GenInv g → acc = PL (g.current - 1) →
      (∀ q, Nat.Prime q → q < g.current → q ≤ n) → ¬ g.current ≤ n → acc = PL n := by
    intro g acc hg hacc hall hc
    rw [hacc]
    apply PL_ext n (g.current - 1) (by omega)
    intro q h1 h2 hq
    have := hall q hq (by omega); omega
  intro fuel
  induction fuel with
  | zero =>
    intro g acc hg hacc hall hf
    simp only [primesLoop]
    exact hexit g acc hg hacc hall (by omega)
  | succ f ih =>
    intro g acc hg hacc hall hf
    unfold primesLoop
    by_cases hc : g.current ≤ n
    · rw [if_pos hc]
      have hp := hg.current_prime
      obtain ⟨h1, h2, h3, h4⟩ := gen_next_strong g hg (fun _ => by omega)
      apply ih g.next _ h1
      · rw [hacc]
        have e1 : PL g.current = PL (g.current - 1) ++ [g.current] :=
          PL_next (g.current - 1) g.current hp (by have := hp.two_le; omega)
            (fun q hq1 hq2 => by omega)
        rw [← e1]
        symm
        apply PL_ext g.current (g.next.current - 1) (by omega)
        intro q hq1 hq2
        exact h4 q hq1 (by omega)
      · intro q hq hlt
        by_contra hcon
        exact h4 q (by omega) hlt hq
      · omega
    · rw [if_neg hc]
      exact hexit g acc hg hacc hall hc

/-- T15.4 `primes(n)` lists exactly the primes not exceeding `n` (results representable as `int`) -/
theorem primes_spec (n : Nat) (hn : n < 2 ^ 31) :
    primes n = (List.range (n + 1)).filter (fun k => decide (Nat.Prime k)) := by
  unfold primes
  apply primesLoop_spec n hn (n + 1) PGen.init [] gen_init_inv
  · rw [init_current]; exact PL_one.symm
  · intro q hq hlt; rw [init_current] at hlt; have := hq.two_le; omega
  · rw [init_current]

/-- modular exponentiation by repeated squaring (`e < 2^fuel`) -/
def powMod (a p : Nat) : Nat → Nat → Nat
  | 0, _ => 1
  | f + 1, e => if e = 0 then 1 else (powMod a p f (e / 2)) ^ 2 % p * (if e % 2 = 0 then 1 else a) % p

lemma powMod_spec (a p : Nat) : ∀ f e, e < 2 ^ f → ((powMod a p f e : ℕ) : ZMod p) = (a : ZMod p) ^ e := by
  intro f
  induction f with
  | zero => intro e he; have : e = 0 := by omega
            subst this; simp [powMod]
  | succ f ih =>
    intro e he
    unfold powMod
    by_cases h0 : e = 0
    · subst h0; simp
    · rw [if_neg h0]
      have ih' := ih (e / 2) (by rw [pow_succ] at he; omega)
      rw [ZMod.natCast_mod, Nat.cast_mul, ZMod.natCast_mod, Nat.cast_pow, ih', ← pow_mul]
      have hdecomp : e = e / 2 * 2 + e % 2 := by omega
      by_cases h2 : e % 2 = 0
      · rw [if_pos h2]
        have : e / 2 * 2 = e := by omega
        rw [this]; simp
      · rw [if_neg h2]
        have : e / 2 * 2 + 1 = e := by omega
        rw [← pow_succ, this]

lemma prime22605091 : Nat.Prime 22605091 := by norm_num

theorem prime4294967291 : Nat.Prime 4294967291 := by
  apply lucas_primality 4294967291 ((2 : ℕ) : ZMod 4294967291)
  · have h := powMod_spec 2 4294967291 32 (4294967291 - 1) (by norm_num)
    rw [← h]
    have : powMod 2 4294967291 32 (4294967291 - 1) = 1 := by decide +kernel
    rw [this]; simp
  · intro q hq hdvd
    have hfac : 4294967291 - 1 = 2 * (5 * (19 * 22605091)) := by norm_num
    have hq' : q = 2 ∨ q = 5 ∨ q = 19 ∨ q = 22605091 := by
      rw [hfac] at hdvd
      rcases (Nat.Prime.dvd_mul hq).1 hdvd with h | h
      · left; exact (Nat.prime_dvd_prime_iff_eq hq Nat.prime_two).1 h
      rcases (Nat.Prime.dvd_mul hq).1 h with h | h
      · right; left; exact (Nat.prime_dvd_prime_iff_eq hq Nat.prime_five).1 h
      rcases (Nat.Prime.dvd_mul hq).1 h with h | h
      · right; right; left; exact (Nat.prime_dvd_prime_iff_eq hq (by norm_num)).1 h
      · right; right; right; exact (Nat.prime_dvd_prime_iff_eq hq prime22605091).1 h
    have key : ∀ e r, e < 2 ^ 32 → powMod 2 4294967291 32 e = r → r % 4294967291 ≠ 1 % 4294967291 →
        ((2 : ℕ) : ZMod 4294967291) ^ e ≠ 1 := by
      intro e r he hr hne heq
      rw [← powMod_spec 2 4294967291 32 e he, hr] at heq
      have : ((r : ℕ) : ZMod 4294967291) = ((1 : ℕ) : ZMod 4294967291) := by simpa using heq
      rw [ZMod.natCast_eq_natCast_iff'] at this
      exact hne this
    rcases hq' with rfl | rfl | rfl | rfl
    · exact key _ _ (by norm_num) rfl (by decide +kernel)
    · exact key _ _ (by norm_num) rfl (by decide +kernel)
    · exact key _ _ (by norm_num) rfl (by decide +kernel)
    · exact key _ _ (by norm_num) rfl (by decide +kernel)

lemma nextprimeLoop_spec (p : Nat) (hp : Nat.Prime p) (hpW : p < 2 ^ 32) : ∀ fuel val, val ≤ p →
    (∀ q, val ≤ q → q < p → ¬ Nat.Prime q) → p < fuel + val → nextprimeLoop fuel val = p := by
  intro fuel
  induction fuel with
  | zero => intro val h1 _ h3; omega
  | succ f ih =>
    intro val h1 h2 h3
    unfold nextprimeLoop
    have hiff := isprime_iff val (by omega)
    by_cases hv : Nat.Prime val
    · rw [if_pos (hiff.2 hv)]
      by_contra hne
      exact h2 val le_rfl (by omega) hv
    · rw [if_neg (fun h => hv (hiff.1 h))]
      have hne : val ≠ p := fun h => hv (h ▸ hp)
      have hW : (val + 1) % W = val + 1 := Nat.mod_eq_of_lt (by unfold W; omega)
      rw [hW]
      apply ih (val + 1) (by omega) _ (by omega)
      intro q hq1 hq2
      exact h2 q (by omega) hq2

/-- T15.5 `nextprime(n)` is the smallest prime ≥ n whenever it is representable (4294967291 is the largest 32-bit prime) -/
theorem nextprime_spec (n : Nat) (hn : n ≤ 4294967291) :
    Nat.Prime (nextprime n) ∧ n ≤ nextprime n ∧ ∀ q, n ≤ q → q < nextprime n → ¬ Nat.Prime q := by
  have hex : ∃ p, Nat.Prime p ∧ n ≤ p := ⟨4294967291, prime4294967291, hn⟩
  have hfs := Nat.find_spec hex
  have hfm : ∀ q, n ≤ q → q < Nat.find hex → ¬ Nat.Prime q :=
    fun q hq1 hq2 hqp => Nat.find_min hex hq2 ⟨hqp, hq1⟩
  have hfW : Nat.find hex ≤ 4294967291 := Nat.find_min' hex ⟨prime4294967291, hn⟩
  have hf2 : Nat.find hex < n + 4 + n := by
    by_cases h0 : n = 0
    · have : Nat.find hex ≤ 2 := Nat.find_min' hex ⟨Nat.prime_two, by omega⟩
      omega
    · obtain ⟨p, hp, h1, h2⟩ := Nat.exists_prime_lt_and_le_two_mul n h0
      have : Nat.find hex ≤ p := Nat.find_min' hex ⟨hp, h1.le⟩
      omega
  have : nextprime n = Nat.find hex := by
    unfold nextprime
    exact nextprimeLoop_spec _ hfs.1 (by omega) (n + 4) n hfs.2 hfm hf2
  rw [this]
  exact ⟨hfs.1, hfs.2, hfm⟩

lemma shiftLoop_eq (m k : Nat) (hk : 2 ^ k ≤ m) (hk' : m < 2 ^ (k + 1)) :
    ∀ fuel p, p ≤ k + 1 → k + 1 ≤ fuel + p → shiftLoop m fuel p = k + 1 := by
  intro fuel
  induction fuel with
  | zero => intro p h1 h2; simp only [shiftLoop]; omega
  | succ f ih =>
    intro p h1 h2
    simp only [shiftLoop, Nat.shiftRight_eq_div_pow]
    by_cases hp : p ≤ k
    · have : 2 ^ p ≤ m := le_trans (Nat.pow_le_pow_right (by norm_num) hp) hk
      have h3 : m / 2 ^ p ≠ 0 := by
        have := Nat.div_pos this (Nat.two_pow_pos p)
        omega
      simp [h3]
      exact ih (p + 1) (by omega) (by omega)
    · have hpk : p = k + 1 := by omega
      subst hpk
      have : m / 2 ^ (k + 1) = 0 := Nat.div_eq_of_lt hk'
      simp [this]


lemma nextpow2_eq (m : Nat) (h2 : 2 ≤ m) (hm : m < 2 ^ 31) :
    nextpow2 m = if 2 ^ (Nat.log 2 m) = m then Nat.log 2 m else Nat.log 2 m + 1 := by
  have h1 : 2 ^ Nat.log 2 m ≤ m := Nat.pow_log_le_self 2 (by omega)
  have h3 : m < 2 ^ (Nat.log 2 m + 1) := Nat.lt_pow_succ_log_self (by norm_num) m
  have hk : Nat.log 2 m < 31 := by
    by_contra hc
    have : 2 ^ 31 ≤ 2 ^ Nat.log 2 m := Nat.pow_le_pow_right (by norm_num) (by omega)
    omega
  have hs := shiftLoop_eq m (Nat.log 2 m) h1 h3 32 0 (by omega) (by omega)
  unfold nextpow2
  have hm0 : (m == 0 || m == 1) = false := by
    simp; omega
  simp only [hm0, hs, Nat.add_sub_cancel, Nat.one_shiftLeft]
  simp

/-- T15.6 `nextpow2 m = ⌈log₂ m⌉` for every positive `int` -/
theorem nextpow2_spec (m : Nat) (h0 : 0 < m) (hm : m < 2 ^ 31) :
    m ≤ 2 ^ nextpow2 m ∧ (nextpow2 m = 0 ∨ 2 ^ (nextpow2 m - 1) < m) := by
  by_cases h1 : m = 1
  · subst h1; decide
  have h2 : 2 ≤ m := by omega
  have h1' : 2 ^ Nat.log 2 m ≤ m := Nat.pow_log_le_self 2 (by omega)
  have h3 : m < 2 ^ (Nat.log 2 m + 1) := Nat.lt_pow_succ_log_self (by norm_num) m
  have hpos : 0 < Nat.log 2 m := Nat.log_pos (by norm_num) h2
  rw [nextpow2_eq m h2 hm]
  split_ifs with h
  · refine ⟨by omega, Or.inr ?_⟩
    have : 2 ^ (Nat.log 2 m - 1) < 2 ^ (Nat.log 2 m) := Nat.pow_lt_pow_right (by norm_num) (by omega)
    omega
  · refine ⟨by omega, Or.inr ?_⟩
    simp only [Nat.add_sub_cancel]
    omega

/-- T15.6 `ispow2` is the exact power-of-two test for every positive `int` -/
theorem ispow2_iff (m : Nat) (h0 : 0 < m) (hm : m < 2 ^ 31) : ispow2 m = true ↔ ∃ k, m = 2 ^ k := by
  unfold ispow2
  simp only [Nat.one_shiftLeft, beq_iff_eq]
  constructor
  · intro h; exact ⟨_, h.symm⟩
  · rintro ⟨k, rfl⟩
    obtain ⟨ha, hb⟩ := nextpow2_spec (2 ^ k) h0 hm
    have h1 : k ≤ nextpow2 (2 ^ k) := (Nat.pow_le_pow_iff_right (by norm_num)).1 ha
    rcases hb with hb | hb
    · rw [hb] at h1 ⊢
      have : k = 0 := by omega
      subst this; rfl
    · have h2 : nextpow2 (2 ^ k) - 1 < k := (Nat.pow_lt_pow_iff_right (by norm_num)).1 hb
      have : nextpow2 (2 ^ k) = k := by omega
      rw [this]

/-! ### non-vacuity / concrete instances (kernel evaluation of the executable model) -/
example : isprime 1009 = true := by decide +kernel
example : isprime (31 * 37) = false := by decide +kernel
example : factor 360 = [2, 2, 2, 3, 3, 5] := by decide +kernel
example : nextprime 90 = 97 := by decide +kernel
example : primes 30 = [2, 3, 5, 7, 11, 13, 17, 19, 23, 29] := by decide +kernel
example : nextpow2 1000 = 10 ∧ ispow2 1024 = true ∧ ispow2 1000 = false := by decide +kernel

end Dsp.C15
