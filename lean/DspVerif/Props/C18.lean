import DspVerif.Model.Detect
import DspVerif.Props.C17
import DspVerif.Props.C07
/-!
# C18 — delay estimators and the preamble detector recover the true offset

Theorems about `Model/Detect.lean` (`peakloc`, `finddelay`, `gccphat`, `PreambleDetector`; tied to `lib/utils.cpp`,
`lib/gccphat.cpp`, `lib/detector.cpp` by the correspondence run of `harness/c18.cpp`) and about `MathFns.delayseq`
(`Model/MathFns.lean`, shared with C17).

All statements are EXACT (`ℝ`) or structural (every element / scalar type); rounding is not modelled.

* **T18.1** `delayseq` shifts by exactly `d` samples with zero fill (`|d| ≥ N` ⇒ zeros) — for every element type.
  The index theorem is `C17.delayseq_getElem`; it is restated here as the clause of this property.
* **T18.2** `peakloc` (real overload) returns the vertex of the parabola through the three samples around `idx`
  (cyclic neighbours); hypothesis `a ≠ 0` (three collinear samples have no vertex: the code divides by `2a`; the excluded point
  is an input class of the harness).  The COMPLEX overload is a different three-point interpolator: on real-valued data its
  offset from `idx` is `-2×` the vertex offset (`peaklocC_real_data`) — the parabola clause is about the real overload.
* **T18.3** lag unwrapping: if the correlation array `ifft(fft(x1)·conj(fft(x2)))` has its strict maximum (by `|·|²`, what
  `argmax(arr_cmplx)` compares) at index `(-d) mod nfft` and `-nfft ≤ 2d < nfft`, `finddelay` returns `d`; if the PHAT
  correlation has its strict maximum at `d mod M`, `2|d|+1 < M`, and the interpolation offset is at most half a sample,
  `gccphat`'s `tau·fs = d + offset` — for EVERY transform pair (the transforms are parameters).  `finddelay_of_circ_xcorr` restates the
  first on the circular cross-correlation sum itself, for every pair satisfying the correlation theorem (`CircXc`, an explicit
  hypothesis; `circ_xcorr_dft` shows it is the identity the exact DFT pair satisfies; fft = DFT is C01/C02).  That a white signal of ≥ 128
  samples puts the maximum there (and that the offset is small) is a statistical hypothesis: measured by the ORACLE.
* **T18.4** detector structure, for every state and every call: `process` reports the FIRST index of the call whose normalised
  correlation `abs2(cx)/(pwx + eps)` exceeds `threshold²`, the returned samples are the last `nh` samples of the stream up to and
  including that index, in order (`CDelay`), the score is the square root of that correlation value; nothing is reported iff no
  index exceeds.  Hence, UNDER THE HYPOTHESIS that the normalised correlation exceeds the threshold only at alignment:
  offset = index of the preamble's last sample, preamble = the aligned samples (`detector_reports_alignment`).
  From rest, `cx` is C07's `FirFilter` with the flipped normalised preamble and `pwx` C07's moving average (`callCorr_from_rest`,
  for every transform pair satisfying the circular convolution theorem).
-/
open Finset Dsp Dsp.Detect Dsp.MathFns Dsp.Fir

namespace Dsp.C18

/-! ## T18.1 `delayseq` -/
section delayseq
variable {β : Type}

/-- **T18.1** `delayseq(x, d)` keeps the length and `r[i] = x[i-d]` when `0 ≤ i-d < N`, else the zero fill — for every
element type, every length and every `d` (this is `C17.delayseq_size` / `C17.delayseq_getElem`). -/
theorem delayseq_exact (zero : β) (x : Array β) (d : Int) :
    (delayseq zero x d).size = x.size ∧
    ∀ (i : Nat) (hi : i < (delayseq zero x d).size), (delayseq zero x d)[i] =
      if h : 0 ≤ (i : Int) - d ∧ (i : Int) - d < x.size then x[((i : Int) - d).toNat]'(by omega) else zero :=
  ⟨C17.delayseq_size zero x d, C17.delayseq_getElem zero x d⟩

theorem delayseq_zero_shift (zero : β) (x : Array β) : delayseq zero x 0 = x := by simp [delayseq]

theorem delayseq_all_zero (zero : β) (x : Array β) (d : Int) (hd : x.size ≤ d.natAbs) (h0 : d ≠ 0) :
    delayseq zero x d = Array.replicate x.size zero := by
  simp [delayseq, h0, hd]

end delayseq

/-! ## T18.2 `peakloc` -/

theorem peak_arith (yl yk yr i : ℝ) (h : yl - 2 * yk + yr ≠ 0) :
    i + -(yk - ((yr - yk) + (yl - yk)) / 2 - yl) / (2 * (((yr - yk) + (yl - yk)) / 2)) - 1 =
      i + (yl - yr) / (2 * (yl - 2 * yk + yr)) := by
  have h2 : (yr - yk) + (yl - yk) ≠ 0 := by intro e; apply h; linarith
  have h3 : yl - 2 * yk + yr = (yr - yk) + (yl - yk) := by ring
  rw [h3]
  field_simp
  ring

theorem peaklocR_formula (x : Array ℝ) (idx : ℕ) (cyclic : Bool) (hc : cyclic = true ∨ (idx ≠ 0 ∧ idx + 1 ≠ x.size))
    (hcurv : x.getD ((idx + x.size - 1) % x.size) 0 - 2 * x.getD idx 0 + x.getD ((idx + 1) % x.size) 0 ≠ 0) :
    peaklocR x idx cyclic = idx +
      (x.getD ((idx + x.size - 1) % x.size) 0 - x.getD ((idx + 1) % x.size) 0) /
        (2 * (x.getD ((idx + x.size - 1) % x.size) 0 - 2 * x.getD idx 0 + x.getD ((idx + 1) % x.size) 0)) := by
  have hb : (!cyclic && (idx == 0 || idx + 1 == x.size)) = false := by
    rcases hc with h | ⟨h1, h2⟩
    · simp [h]
    · simp [h1, h2]
  unfold peaklocR
  simp only [hb, Bool.false_eq_true, if_false, fn_ofNat]
  have := peak_arith _ _ _ (idx : ℝ) hcurv
  simpa using this

theorem peakloc_vertex (x : Array ℝ) (idx : ℕ) (cyclic : Bool) (hc : cyclic = true ∨ (idx ≠ 0 ∧ idx + 1 ≠ x.size))
    (a b c : ℝ) (ha : a ≠ 0)
    (hl : a * ((idx : ℝ) - 1) ^ 2 + b * ((idx : ℝ) - 1) + c = x.getD ((idx + x.size - 1) % x.size) 0)
    (hk : a * (idx : ℝ) ^ 2 + b * (idx : ℝ) + c = x.getD idx 0)
    (hr : a * ((idx : ℝ) + 1) ^ 2 + b * ((idx : ℝ) + 1) + c = x.getD ((idx + 1) % x.size) 0) :
    peaklocR x idx cyclic = -b / (2 * a) := by
  have hcurv : x.getD ((idx + x.size - 1) % x.size) 0 - 2 * x.getD idx 0 + x.getD ((idx + 1) % x.size) 0 = 2 * a := by
    rw [← hl, ← hk, ← hr]; ring
  rw [peaklocR_formula x idx cyclic hc (by rw [hcurv]; exact mul_ne_zero two_ne_zero ha), hcurv, ← hl, ← hr]
  field_simp
  ring

theorem peakloc_noncyclic_edge (x : Array ℝ) (idx : ℕ) (h : idx = 0 ∨ idx + 1 = x.size) :
    peaklocR x idx false = idx := by
  unfold peaklocR
  rcases h with h | h <;> simp [h]

theorem parabola_vertex_form (a b c t : ℝ) (ha : a ≠ 0) :
    a * t ^ 2 + b * t + c = a * (t - (-b / (2 * a))) ^ 2 + (c - b ^ 2 / (4 * a)) := by
  field_simp
  ring

/-- on REAL-valued data the complex overload is not the parabola vertex: its offset from `idx` is `-2` times the vertex's -/
theorem peaklocC_real_data (x : Array ℝ) (idx : ℕ) (cyclic : Bool) (hc : cyclic = true ∨ (idx ≠ 0 ∧ idx + 1 ≠ x.size))
    (hcurv : x.getD ((idx + x.size - 1) % x.size) 0 - 2 * x.getD idx 0 + x.getD ((idx + 1) % x.size) 0 ≠ 0) :
    peaklocC (x.map fun v => (⟨v, 0⟩ : Cx ℝ)) idx cyclic - idx = -2 * (peaklocR x idx cyclic - idx) := by
  have hb : (!cyclic && (idx == 0 || idx + 1 == x.size)) = false := by
    rcases hc with h | ⟨h1, h2⟩
    · simp [h]
    · simp [h1, h2]
  have hg : ∀ i, (x.map fun v => (⟨v, 0⟩ : Cx ℝ)).getD i czero = ⟨x.getD i 0, 0⟩ := by
    intro i
    exact C07.getD_map' (fun v => (⟨v, 0⟩ : Cx ℝ)) x i 0 czero (by simp [czero])
  rw [peaklocR_formula x idx cyclic hc hcurv]
  unfold peaklocC
  simp only [Array.size_map, hb, Bool.false_eq_true, if_false, hg, fn_ofNat]
  generalize x.getD ((idx + x.size - 1) % x.size) 0 = yl at *
  generalize x.getD idx 0 = yk at *
  generalize x.getD ((idx + 1) % x.size) 0 = yr at *
  have hD : 2 * yk - yl - yr ≠ 0 := by intro e; apply hcurv; linarith
  have hre : ∀ (p q : Cx ℝ), (p / q).re = (p.re * q.re + p.im * q.im) / (q.re * q.re + q.im * q.im) := fun _ _ => rfl
  rw [hre]
  simp only [Cx.sub_re, Cx.sub_im, Cx.rmul, Cx.mulr, sub_self, mul_zero, zero_mul, add_zero]
  push_cast
  have hD' : yk * 2 - yl - yr ≠ 0 := by intro e; apply hD; linarith
  have e1 : yl - 2 * yk + yr = -(yk * 2 - yl - yr) := by ring
  rw [e1]
  generalize yk * 2 - yl - yr = D at *
  field_simp
  ring
/-! ## T18.3 lag unwrapping of `finddelay` and `gccphat` -/

/-- a strict unique maximum (by key) at position `m` is what `std::max_element` returns -/
theorem argmax_unique {δ γ : Type} [LinearOrder γ] (key : δ → γ) (l : List δ) (m : ℕ) (hm : m < l.length)
    (hmax : ∀ j (hj : j < l.length), j ≠ m → key l[j] < key l[m]) :
    argmax (C17.ltK key) l = m := by
  have hl : l ≠ [] := by intro e; subst e; simp at hm
  obtain ⟨mv, h1, h2, _⟩ := C17.argmax_spec key l hl
  have hlt : argmax (C17.ltK key) l < l.length := C17.getElem?_lt h1
  by_contra hne
  have h3 := hmax _ hlt hne
  have h4 : l[argmax (C17.ltK key) l] = mv := by
    rw [List.getElem?_eq_getElem hlt] at h1; exact Option.some.inj h1
  have h5 := h2 l[m] (List.getElem_mem hm)
  rw [h4] at h3
  exact absurd (lt_of_lt_of_le h3 h5) (lt_irrefl _)

theorem unwrapLag_spec (nfft : ℕ) (hn : 0 < nfft) (d : ℤ) (h1 : -(nfft : ℤ) ≤ 2 * d) (h2 : 2 * d < nfft)
    (k : ℕ) (hk : (k : ℤ) = (-d) % (nfft : ℤ)) : unwrapLag nfft k = d := by
  unfold unwrapLag
  show Int.neg _ = d
  have hpos : (0 : ℤ) < nfft := by exact_mod_cast hn
  rcases le_or_gt d 0 with hd | hd
  · have e : (-d) % (nfft : ℤ) = -d := Int.emod_eq_of_lt (by omega) (by omega)
    have hk' : (k : ℤ) = -d := by rw [hk, e]
    have : ¬ k > nfft / 2 := by omega
    simp only [this, if_false]
    show -(k : ℤ) = d
    omega
  · have e : (-d) % (nfft : ℤ) = nfft - d := by
      have : (-d) % (nfft : ℤ) = (-d + nfft) % nfft := by rw [Int.add_emod_right]
      rw [this]; exact (Int.emod_eq_of_lt (by omega) (by omega)).trans (by ring)
    have hk' : (k : ℤ) = nfft - d := by rw [hk, e]
    have : k > nfft / 2 := by omega
    simp only [this, if_true]
    show -(-((nfft : ℤ) - k)) = d
    omega

theorem finddelay_unwrap {γ : Type} (zero : γ) (fft : Array γ → Array (Cx ℝ)) (ifft : Array (Cx ℝ) → Array (Cx ℝ))
    (x1 x2 : Array γ) (d : ℤ) (m : ℕ)
    (hm : m < (fdCorr zero fft ifft x1 x2).size)
    (hpeak : ∀ j, j < (fdCorr zero fft ifft x1 x2).size → j ≠ m →
      Cx.abs2 ((fdCorr zero fft ifft x1 x2).getD j czero) < Cx.abs2 ((fdCorr zero fft ifft x1 x2).getD m czero))
    (hlag : (m : ℤ) = (-d) % (fdLen x1.size x2.size : ℤ))
    (hd1 : -(fdLen x1.size x2.size : ℤ) ≤ 2 * d) (hd2 : 2 * d < fdLen x1.size x2.size) :
    finddelay zero fft ifft x1 x2 = d := by
  unfold finddelay
  have ha : argmax clt (fdCorr zero fft ifft x1 x2).toList = m := by
    rw [C17.clt_eq]
    refine argmax_unique _ _ m (by simpa using hm) ?_
    · intro j hj hne
      have hj' : j < (fdCorr zero fft ifft x1 x2).size := by simpa using hj
      have := hpeak j hj' hne
      simpa [Array.getD_eq_getD_getElem?, hj', hm] using this
  rw [ha]
  exact unwrapLag_spec _ (by unfold fdLen; positivity) d hd1 hd2 m hlag

/-- what `finddelay` needs from the transform pair at length `N`: the circular cross-correlation theorem
`ifft(fft a · conj(fft b))[t] = Σ_n a[(n+t) mod N]·conj(b[n])` (`emb` embeds the sample type: `id` for `cmplx_t`, `v ↦ v + 0i` for `real_t`) -/
def CircXc {γ : Type} (zero : γ) (emb : γ → Cx ℝ) (fft : Array γ → Array (Cx ℝ)) (ifft : Array (Cx ℝ) → Array (Cx ℝ)) (N : ℕ) : Prop :=
  ∀ a b : Array γ, a.size = N → b.size = N →
    (ifft (mulv czero (fft a) ((fft b).map Cx.conj))).size = N ∧
    ∀ t, t < N → (ifft (mulv czero (fft a) ((fft b).map Cx.conj))).getD t czero =
      ∑ n ∈ range N, emb (a.getD ((n + t) % N) zero) * Cx.conj (emb (b.getD n zero))

theorem zeropad_size {γ : Type} (zero : γ) (x : Array γ) (N : ℕ) (h : x.size ≤ N) : (Fir.zeropad zero x N).size = N := by
  simp [Fir.zeropad]; omega

/-- **T18.3 (stated on the circular cross-correlation itself).**  For every transform pair satisfying the circular
cross-correlation theorem at `nfft`: if `c(t) = Σ_n s1[(n+t) mod nfft]·conj(s2[n])` (`s1`, `s2` the zero-padded operands) has its strict
`|·|²`-maximum at the lag `t = (-d) mod nfft` of a shift `d` with `-nfft ≤ 2d < nfft`, then `finddelay(x1, x2) = d`. -/
theorem finddelay_of_circ_xcorr {γ : Type} (zero : γ) (emb : γ → Cx ℝ) (fft : Array γ → Array (Cx ℝ)) (ifft : Array (Cx ℝ) → Array (Cx ℝ))
    (x1 x2 : Array γ) (H : CircXc zero emb fft ifft (fdLen x1.size x2.size)) (d : ℤ) (m : ℕ) (hm : m < fdLen x1.size x2.size)
    (hpeak : ∀ j, j < fdLen x1.size x2.size → j ≠ m →
      Cx.abs2 (∑ n ∈ range (fdLen x1.size x2.size),
          emb ((Fir.zeropad zero x1 (fdLen x1.size x2.size)).getD ((n + j) % fdLen x1.size x2.size) zero) *
            Cx.conj (emb ((Fir.zeropad zero x2 (fdLen x1.size x2.size)).getD n zero))) <
      Cx.abs2 (∑ n ∈ range (fdLen x1.size x2.size),
          emb ((Fir.zeropad zero x1 (fdLen x1.size x2.size)).getD ((n + m) % fdLen x1.size x2.size) zero) *
            Cx.conj (emb ((Fir.zeropad zero x2 (fdLen x1.size x2.size)).getD n zero))))
    (hlag : (m : ℤ) = (-d) % (fdLen x1.size x2.size : ℤ))
    (hd1 : -(fdLen x1.size x2.size : ℤ) ≤ 2 * d) (hd2 : 2 * d < fdLen x1.size x2.size) :
    finddelay zero fft ifft x1 x2 = d := by
  have hN : max x1.size x2.size ≤ fdLen x1.size x2.size := C07.le_two_pow_nextpow2 _
  obtain ⟨hs, hv⟩ := H (Fir.zeropad zero x1 _) (Fir.zeropad zero x2 _)
    (zeropad_size zero x1 _ (le_trans (le_max_left _ _) hN)) (zeropad_size zero x2 _ (le_trans (le_max_right _ _) hN))
  have hs' : (fdCorr zero fft ifft x1 x2).size = fdLen x1.size x2.size := hs
  have hv' : ∀ t, t < fdLen x1.size x2.size → (fdCorr zero fft ifft x1 x2).getD t czero = _ := hv
  refine finddelay_unwrap zero fft ifft x1 x2 d m (by rw [hs']; exact hm) ?_ hlag hd1 hd2
  intro j hj hne
  rw [hs'] at hj
  rw [hv' j hj, hv' m hm]
  exact hpeak j hj hne

/-- the identity `CircXc` asks of the transform pair IS the correlation theorem of the exact DFT pair
(`dft`, `idft` of `Lib/Dft.lean` / `Lib/C07Dft.lean`): `idft(dft a · conj(dft b))[t] = Σ_n a[(n+t) mod N]·conj(b[n])` -/
theorem circ_xcorr_dft (N : ℕ) (hN : 0 < N) (a b : ℕ → ℂ) (t : ℕ) (ht : t < N) :
    C07.idft N (fun k => dft N a k * (starRingEnd ℂ) (dft N b k)) t =
      ∑ n ∈ range N, a ((n + t) % N) * (starRingEnd ℂ) (b n) := by
  have h := C07.circ_corr_dft N hN b a t ht
  have h2 := congrArg (starRingEnd ℂ) h
  rw [Complex.conj_conj, map_sum] at h2
  rw [C07.idft_congr N _ (fun k => (starRingEnd ℂ) (dft N b k) * dft N a k) t (fun k _ => mul_comm _ _), h2]
  apply Finset.sum_congr rfl
  intro n _
  rw [map_mul, Complex.conj_conj, mul_comm]

theorem argmax_abs2_unique (R : Array (Cx ℝ)) (m : ℕ) (hm : m < R.size)
    (hpeak : ∀ j, j < R.size → j ≠ m → Cx.abs2 (R.getD j czero) < Cx.abs2 (R.getD m czero)) :
    argmax clt R.toList = m := by
  rw [C17.clt_eq]
  refine argmax_unique _ _ m (by simpa using hm) ?_
  intro j hj hne
  have hj' : j < R.size := by simpa using hj
  have := hpeak j hj' hne
  simpa [Array.getD_eq_getD_getElem?, hj', hm] using this

theorem gccTau_spec (R : Array (Cx ℝ)) (fs : ℤ) (hfs : fs ≠ 0) (d : ℤ) (m : ℕ) (hm : m < R.size)
    (hpeak : ∀ j, j < R.size → j ≠ m → Cx.abs2 (R.getD j czero) < Cx.abs2 (R.getD m czero))
    (hlag : (m : ℤ) = d % (R.size : ℤ)) (hd : 2 * |d| + 1 < (R.size : ℤ))
    (δ : ℝ) (hδ : peaklocC R m true = m + δ) (hδ' : |δ| ≤ 1 / 2) :
    gccTau R fs * (fs : ℝ) = d + δ := by
  have hfs' : (fs : ℝ) ≠ 0 := by exact_mod_cast hfs
  obtain ⟨hδ1, hδ2⟩ := abs_le.mp hδ'
  unfold gccTau
  simp only [argmax_abs2_unique R m hm hpeak, hδ, fn_ofNat, fn_ofInt]
  have hpos : (0 : ℤ) < R.size := by omega
  rcases le_or_gt 0 d with h0 | h0
  · have habs : |d| = d := abs_of_nonneg h0
    have e : d % (R.size : ℤ) = d := Int.emod_eq_of_lt h0 (by omega)
    have hmd : (m : ℤ) = d := by rw [hlag, e]
    have hlt : m + 1 ≤ R.size / 2 := by omega
    have hlt' : (m : ℝ) + 1 ≤ ((R.size / 2 : ℕ) : ℝ) := by exact_mod_cast hlt
    have hc : (m : ℝ) + δ < ((R.size / 2 : ℕ) : ℝ) := by linarith
    rw [if_pos hc]
    have : (d : ℝ) = (m : ℝ) := by exact_mod_cast hmd.symm
    rw [this]
    field_simp
    push_cast
    ring
  · have habs : |d| = -d := abs_of_neg h0
    have e : d % (R.size : ℤ) = d + R.size := by
      have : d % (R.size : ℤ) = (d + R.size) % R.size := by rw [Int.add_emod_right]
      rw [this]; exact Int.emod_eq_of_lt (by omega) (by omega)
    have hmd : (m : ℤ) = d + R.size := by rw [hlag, e]
    have hge : R.size / 2 + 1 ≤ m := by omega
    have hge' : ((R.size / 2 : ℕ) : ℝ) + 1 ≤ (m : ℝ) := by exact_mod_cast hge
    have hc : ¬ ((m : ℝ) + δ < ((R.size / 2 : ℕ) : ℝ)) := by linarith
    rw [if_neg hc]
    have : (d : ℝ) = (m : ℝ) - (R.size : ℝ) := by
      have : (d : ℤ) = (m : ℤ) - R.size := by omega
      exact_mod_cast this
    rw [this]
    field_simp
    push_cast
    ring

/-! ## T18.4 detector structure -/
section cdelay
variable {γ : Type}

/-- the sample `back` positions before the end of the stream `S` (`zero` before its start) -/
def hist (zero : γ) (S : List γ) (back : ℕ) : γ := if back < S.length then S.getD (S.length - 1 - back) zero else zero

theorem hist_nil (zero : γ) (b : ℕ) : hist zero [] b = zero := by simp [hist]

theorem hist_snoc_zero (zero : γ) (S : List γ) (v : γ) : hist zero (S ++ [v]) 0 = v := by
  simp [hist, List.getD_eq_getElem?_getD]

theorem hist_snoc_succ (zero : γ) (S : List γ) (v : γ) (b : ℕ) : hist zero (S ++ [v]) (b + 1) = hist zero S b := by
  unfold hist
  simp only [List.length_append, List.length_singleton]
  by_cases h : b < S.length
  · have h1 : b + 1 < S.length + 1 := by omega
    have h2 : S.length + 1 - 1 - (b + 1) = S.length - 1 - b := by omega
    have h3 : S.length - 1 - b < S.length := by omega
    rw [if_pos h1, if_pos h, h2, List.getD_eq_getElem?_getD, List.getD_eq_getElem?_getD, List.getElem?_append_left h3]
  · have h1 : ¬ b + 1 < S.length + 1 := by omega
    rw [if_neg h1, if_neg h]

theorem mod_cases (a n : ℕ) (h : a < 2 * n) : a % n = if a < n then a else a - n := by
  by_cases h1 : a < n
  · rw [if_pos h1, Nat.mod_eq_of_lt h1]
  · rw [if_neg h1, Nat.mod_eq_sub_mod (by omega), Nat.mod_eq_of_lt (by omega)]

/-- `_buf`/`_idx` hold the last `nh` samples of the pushed stream `S`, oldest at `_idx` -/
def DInv (zero : γ) (d : CDelay γ) (nh : ℕ) (S : List γ) : Prop :=
  d.buf.size = nh ∧ d.idx < nh ∧ ∀ j, j < nh → d.buf.getD ((d.idx + j) % nh) zero = hist zero S (nh - 1 - j)

theorem dinv_init (zero : γ) (nh : ℕ) (hn : 0 < nh) : DInv zero (CDelay.init zero nh) nh [] := by
  refine ⟨by simp [CDelay.init], by simpa [CDelay.init] using hn, ?_⟩
  intro j _
  rw [hist_nil]
  simp [CDelay.init, Array.getD_eq_getD_getElem?, Array.getElem?_replicate]
  split <;> rfl

theorem dinv_push (zero : γ) (d : CDelay γ) (nh : ℕ) (S : List γ) (v : γ) (h : DInv zero d nh S) :
    DInv zero (d.push v) nh (S ++ [v]) := by
  obtain ⟨hs, hi, hb⟩ := h
  refine ⟨by simp [CDelay.push, hs], ?_, ?_⟩
  · unfold CDelay.push; simp only [hs]; split <;> omega
  · intro j hj
    have hidx' : (d.push v).idx = if d.idx + 1 = nh then 0 else d.idx + 1 := by simp [CDelay.push, hs]
    have hbuf' : ∀ k, (d.push v).buf.getD k zero = if k = d.idx then v else d.buf.getD k zero := by
      intro k; exact C07.getD_setIfInBounds d.buf d.idx k v zero (by omega)
    rw [hbuf', hidx']
    by_cases hlast : j = nh - 1
    · subst hlast
      have e : ((if d.idx + 1 = nh then 0 else d.idx + 1) + (nh - 1)) % nh = d.idx := by
        split
        · rw [mod_cases _ _ (by omega), if_pos (by omega)]; omega
        · rw [mod_cases _ _ (by omega), if_neg (by omega)]; omega
      rw [e, if_pos rfl]
      have : nh - 1 - (nh - 1) = 0 := by omega
      rw [this, hist_snoc_zero]
    · have hj' : j + 1 < nh := by omega
      have e : ((if d.idx + 1 = nh then 0 else d.idx + 1) + j) % nh = (d.idx + (j + 1)) % nh := by
        split
        · rename_i h1
          rw [mod_cases (0 + j) _ (by omega), mod_cases (d.idx + (j + 1)) _ (by omega), if_pos (by omega), if_neg (by omega)]; omega
        · congr 1; omega
      have ne : (d.idx + (j + 1)) % nh ≠ d.idx := by
        rw [mod_cases _ _ (by omega)]; split <;> omega
      rw [e, if_neg ne, hb (j + 1) hj']
      have : nh - 1 - j = (nh - 1 - (j + 1)) + 1 := by omega
      rw [this, hist_snoc_succ]

theorem dinv_foldl (zero : γ) (nh : ℕ) (L : List γ) (d : CDelay γ) (S : List γ) (h : DInv zero d nh S) :
    DInv zero (L.foldl CDelay.push d) nh (S ++ L) := by
  induction L generalizing d S with
  | nil => simpa using h
  | cons v L ih =>
    have := ih (d.push v) (S ++ [v]) (dinv_push zero d nh S v h)
    simpa [List.append_assoc] using this

/-- **T18.4 (`CDelay::extract`).** the last `nh` pushed samples, oldest first -/
theorem extract_spec (zero : γ) (d : CDelay γ) (nh : ℕ) (S : List γ) (h : DInv zero d nh S) :
    (d.extract zero).size = nh ∧ ∀ j, j < nh → (d.extract zero).getD j zero = hist zero S (nh - 1 - j) := by
  obtain ⟨hs, _, hb⟩ := h
  refine ⟨by simp [CDelay.extract, hs], ?_⟩
  intro j hj
  unfold CDelay.extract
  rw [C07.getD_ofFn, dif_pos (by omega)]
  simp only [hs]
  exact hb j hj

end cdelay

section scan
variable {α : Type} [Sub α] [LT α] [LE α] [Fn α]
  [DecidableRel (· < · : α → α → Prop)] [DecidableRel (· ≤ · : α → α → Prop)]

/-- the test of the sample loop: `corr[i] > _threshold && _is_valid(corr[i])` -/
def hit (thr2 c : α) : Bool := decide (thr2 < c) && isValid c

/-- **T18.4 (sample loop).** For every scalar type: the loop reports the FIRST position whose value passes the test
(offset counted from `i0`), having pushed exactly the samples up to and including it; or reports nothing, having pushed all. -/
theorem scan_spec (thr2 : α) (L : List (Cx α × α)) (i0 : ℕ) (d : CDelay (Cx α)) :
    (∃ k, ∃ hk : k < L.length, hit thr2 L[k].2 = true ∧ (∀ j (hj : j < k), hit thr2 (L[j]'(by omega)).2 = false) ∧
      scan thr2 L i0 d = (((L.take (k + 1)).map Prod.fst).foldl CDelay.push d, some (i0 + k, L[k].2))) ∨
    ((∀ j (hj : j < L.length), hit thr2 L[j].2 = false) ∧ scan thr2 L i0 d = ((L.map Prod.fst).foldl CDelay.push d, none)) := by
  induction L generalizing i0 d with
  | nil => right; exact ⟨by simp, rfl⟩
  | cons p L ih =>
    obtain ⟨v, c⟩ := p
    by_cases hh : hit thr2 c = true
    · left
      refine ⟨0, by simp, by simpa using hh, by simp, ?_⟩
      have hh' : (decide (thr2 < c) && isValid c) = true := hh
      simp [scan, hh']
    · have hf : hit thr2 c = false := by simpa using hh
      have hh' : (decide (thr2 < c) && isValid c) = false := hf
      rcases ih (i0 + 1) (d.push v) with ⟨k, hk, h1, h2, h3⟩ | ⟨h1, h3⟩
      · left
        refine ⟨k + 1, by simpa using hk, by simpa using h1, ?_, ?_⟩
        · intro j hj
          cases j with
          | zero => simpa using hf
          | succ j => simpa using h2 j (by omega)
        · simp only [scan, hh', Bool.false_eq_true, if_false, h3]
          simp [Nat.add_assoc, Nat.add_comm 1 k]
      · right
        refine ⟨?_, ?_⟩
        · intro j hj
          cases j with
          | zero => simpa using hf
          | succ j => simpa using h1 j (by simpa using hj)
        · simp only [scan, hh', Bool.false_eq_true, if_false, h3]
          simp
end scan

theorem isValid_real (c : ℝ) : isValid c = true := by simp [isValid]

theorem hit_real (thr2 c : ℝ) : hit thr2 c = decide (thr2 < c) := by simp [hit, isValid_real]

/-- the normalised correlation of one call: `abs2(cx) / (pwx + eps())` with `cx` the output of the correlation `FftFilter`
and `pwx` the output of the power `MAFilter` on this call's samples -/
noncomputable def callCorr (fftc ifft : Array (Cx ℝ) → Array (Cx ℝ)) (s : DetState ℝ) (sig : Array (Cx ℝ)) : Array ℝ :=
  normCorr (fftProcessC fftc ifft s.corr sig).2 (maProcessR s.pow (sig.map Cx.abs2)).2

theorem detProcess_none (fftc ifft : Array (Cx ℝ) → Array (Cx ℝ)) (s : DetState ℝ) (sig : Array (Cx ℝ)) (hfl : sig.size % s.frameLen = 0)
    (d' : CDelay (Cx ℝ)) (h : scan s.thr2 (sig.toList.zip (callCorr fftc ifft s sig).toList) 0 s.delay = (d', none)) :
    detProcess fftc ifft s sig =
      .ok (⟨(fftProcessC fftc ifft s.corr sig).1, (maProcessR s.pow (sig.map Cx.abs2)).1, s.thr2, d'⟩, none) := by
  unfold callCorr at h
  unfold detProcess
  rw [if_neg (by simpa using hfl)]
  simp only [h]

theorem detProcess_some (fftc ifft : Array (Cx ℝ) → Array (Cx ℝ)) (s : DetState ℝ) (sig : Array (Cx ℝ)) (hfl : sig.size % s.frameLen = 0)
    (d' : CDelay (Cx ℝ)) (i : ℕ) (ci : ℝ)
    (h : scan s.thr2 (sig.toList.zip (callCorr fftc ifft s sig).toList) 0 s.delay = (d', some (i, ci))) :
    detProcess fftc ifft s sig =
      .ok (⟨(fftProcessC fftc ifft s.corr sig).1, (maProcessR s.pow (sig.map Cx.abs2)).1, s.thr2, d'⟩,
        some ⟨i, d'.extract czero, Real.sqrt ci⟩) := by
  unfold callCorr at h
  unfold detProcess
  rw [if_neg (by simpa using hfl)]
  simp only [h]
  rfl

/-- **T18.4 (one call of `process`, any state).** -/
theorem detProcess_spec (fftc ifft : Array (Cx ℝ) → Array (Cx ℝ)) (s : DetState ℝ) (sig : Array (Cx ℝ)) (nh : ℕ) (S : List (Cx ℝ))
    (hfl : sig.size % s.frameLen = 0) (hinv : DInv czero s.delay nh S)
    (hsz : (fftProcessC fftc ifft s.corr sig).2.size = sig.size) :
    ∃ s' r, detProcess fftc ifft s sig = .ok (s', r) ∧
      s'.corr = (fftProcessC fftc ifft s.corr sig).1 ∧ s'.pow = (maProcessR s.pow (sig.map Cx.abs2)).1 ∧ s'.thr2 = s.thr2 ∧
      match r with
      | none => (∀ i, i < sig.size → ¬ s.thr2 < (callCorr fftc ifft s sig).getD i 0) ∧ DInv czero s'.delay nh (S ++ sig.toList)
      | some res =>
        res.offset < sig.size ∧ s.thr2 < (callCorr fftc ifft s sig).getD res.offset 0 ∧
        (∀ j, j < res.offset → ¬ s.thr2 < (callCorr fftc ifft s sig).getD j 0) ∧
        res.score = Real.sqrt ((callCorr fftc ifft s sig).getD res.offset 0) ∧
        res.preamble.size = nh ∧
        (∀ j, j < nh → res.preamble.getD j czero = hist czero (S ++ sig.toList.take (res.offset + 1)) (nh - 1 - j)) ∧
        DInv czero s'.delay nh (S ++ sig.toList.take (res.offset + 1)) := by
  have hcs : (callCorr fftc ifft s sig).size = sig.size := by simp [callCorr, normCorr, hsz]
  set corr := callCorr fftc ifft s sig with hcorr
  set L := sig.toList.zip corr.toList with hL
  have hLlen : L.length = sig.size := by simp [hL, hcs]
  have hfst : L.map Prod.fst = sig.toList := List.map_fst_zip (by simp [hcs])
  have hget : ∀ k (hk : k < L.length), (L[k]).2 = corr.getD k 0 := by
    intro k hk
    have hk' : k < corr.size := by omega
    simp [hL, Array.getD_eq_getD_getElem?, hk']
  rcases scan_spec s.thr2 L 0 s.delay with ⟨k, hk, h1, h2, h3⟩ | ⟨h1, h3⟩
  · refine ⟨_, _, detProcess_some fftc ifft s sig hfl _ _ _ h3, rfl, rfl, rfl, ?_⟩
    have hpush : ((L.take (k + 1)).map Prod.fst) = sig.toList.take (k + 1) := by rw [List.map_take, hfst]
    have hinv' := dinv_foldl czero nh (sig.toList.take (k + 1)) s.delay S hinv
    obtain ⟨e1, e2⟩ := extract_spec czero _ nh _ hinv'
    simp only [Nat.zero_add, hpush]
    refine ⟨by omega, ?_, ?_, ?_, e1, e2, hinv'⟩
    · rw [hit_real, hget k hk] at h1; simpa using h1
    · intro j hj
      have := h2 j hj
      rw [hit_real, hget j (by omega)] at this; simpa using this
    · rw [hget k hk]
  · refine ⟨_, _, detProcess_none fftc ifft s sig hfl _ h3, rfl, rfl, rfl, ?_⟩
    refine ⟨?_, ?_⟩
    · intro i hi
      have := h1 i (by omega)
      rw [hit_real, hget i (by omega)] at this; simpa using this
    · rw [hfst]; exact dinv_foldl czero nh sig.toList s.delay S hinv


/-- `process` rejects a call whose length is not a multiple of `frame_len()` -/
theorem detProcess_bad_length (fftc ifft : Array (Cx ℝ) → Array (Cx ℝ)) (s : DetState ℝ) (sig : Array (Cx ℝ))
    (h : sig.size % s.frameLen ≠ 0) : ∃ e, detProcess fftc ifft s sig = .error e := by
  unfold detProcess
  rw [if_pos h]
  exact ⟨_, rfl⟩

/-- **T18.4 ⇒ the property's detector clause, under its hypothesis.**  If, in this call, the normalised correlation exceeds
`threshold²` at the index `e` ONLY (`e` = position of the preamble's last sample: "single-sample correlation peak"), then `process`
reports, with `offset = e`, the last `nh` samples of the stream ending at `e` (the aligned preamble samples when the delay line
has followed the stream, `DInv`), and `score = √corr[e]`. -/
theorem detector_reports_alignment (fftc ifft : Array (Cx ℝ) → Array (Cx ℝ)) (s : DetState ℝ) (sig : Array (Cx ℝ)) (nh : ℕ)
    (S : List (Cx ℝ)) (hfl : sig.size % s.frameLen = 0) (hinv : DInv czero s.delay nh S)
    (hsz : (fftProcessC fftc ifft s.corr sig).2.size = sig.size) (e : ℕ) (he : e < sig.size)
    (honly : ∀ i, i < sig.size → (s.thr2 < (callCorr fftc ifft s sig).getD i 0 ↔ i = e)) :
    ∃ s' res, detProcess fftc ifft s sig = .ok (s', some res) ∧ res.offset = e ∧
      res.score = Real.sqrt ((callCorr fftc ifft s sig).getD e 0) ∧ res.preamble.size = nh ∧
      ∀ j, j < nh → res.preamble.getD j czero = hist czero (S ++ sig.toList.take (e + 1)) (nh - 1 - j) := by
  obtain ⟨s', r, h0, _, _, _, h4⟩ := detProcess_spec fftc ifft s sig nh S hfl hinv hsz
  cases r with
  | none =>
    exact absurd ((honly e he).2 rfl) (h4.1 e he)
  | some res =>
    obtain ⟨h5, h6, _, h8, h9, h10, _⟩ := h4
    have hoff : res.offset = e := (honly res.offset h5).1 h6
    refine ⟨s', res, h0, hoff, ?_, h9, ?_⟩
    · rw [← hoff]; exact h8
    · rw [← hoff]; exact h10

/-- **T18.4 ⇒ "a stream without it reports nothing"**, under its hypothesis: if the normalised correlation of the call never
exceeds `threshold²`, nothing is reported and the delay line has taken in the whole call. -/
theorem detector_silent (fftc ifft : Array (Cx ℝ) → Array (Cx ℝ)) (s : DetState ℝ) (sig : Array (Cx ℝ)) (nh : ℕ)
    (S : List (Cx ℝ)) (hfl : sig.size % s.frameLen = 0) (hinv : DInv czero s.delay nh S)
    (hsz : (fftProcessC fftc ifft s.corr sig).2.size = sig.size)
    (hnone : ∀ i, i < sig.size → ¬ s.thr2 < (callCorr fftc ifft s sig).getD i 0) :
    ∃ s', detProcess fftc ifft s sig = .ok (s', none) ∧ DInv czero s'.delay nh (S ++ sig.toList) := by
  obtain ⟨s', r, h0, _, _, _, h4⟩ := detProcess_spec fftc ifft s sig nh S hfl hinv hsz
  cases r with
  | none => exact ⟨s', h0, h4.2⟩
  | some res => exact absurd h4.2.1 (hnone _ h4.1)

/-- the constructor leaves the delay line in the state the invariant starts from (`nh = h.size ≥ 1`) -/
theorem detInit_inv (fftc : Array (Cx ℝ) → Array (Cx ℝ)) (h : Array (Cx ℝ)) (thr : ℝ) (hm : 1 ≤ h.size) :
    DInv czero (detInit fftc h thr).delay h.size [] ∧ (detInit fftc h thr).thr2 = thr * thr :=
  ⟨dinv_init czero h.size hm, rfl⟩

theorem czero_eq : (czero : Cx ℝ) = 0 := by apply Cx.ext' <;> simp [czero]

theorem convertImpulse_size (h : Array (Cx ℝ)) : (convertImpulse h).size = h.size := by
  simp [convertImpulse, MathFns.flip]

/-- **T18.4 (what is correlated, from rest).**  For the first call after construction (any length that is a multiple of
`frame_len()`), for every preamble `h` with `nh ≥ 1` taps and every transform pair satisfying the circular convolution theorem
at `fft_len` (C07's hypothesis, discharged there for the exact DFT pair): the correlation filter emits as many samples as
the call has, and the normalised correlation at index `i` is
`|FirFilter(flip(h) / (rms(h)·nh))(sig)[i]|² / (FirFilter(nh taps 1/nh)(|sig|²)[i] + eps)` — C07's direct FIR filter
(`C07.fir_eq_cmplx`: `Σ_k conj(c[k])·x[i-k]`) of the flipped normalised preamble over C07's moving average of the power. -/
theorem callCorr_from_rest (fftc ifft : Array (Cx ℝ) → Array (Cx ℝ)) (h : Array (Cx ℝ)) (thr : ℝ) (hm : 1 ≤ h.size)
    (H : C07.CircConv fftc ifft (2 ^ nextpow2 (2 * h.size))) (sig : Array (Cx ℝ))
    (hfl : sig.size % (detInit fftc h thr).frameLen = 0) :
    (fftProcessC fftc ifft (detInit fftc h thr).corr sig).2.size = sig.size ∧
    ∀ i, i < sig.size → (callCorr fftc ifft (detInit fftc h thr) sig).getD i 0 =
      Cx.abs2 ((firProcessC (firInitC (convertImpulse h)) sig).2.getD i 0) /
        ((firProcessR (firInitR (Array.replicate h.size (1 / (h.size : ℝ)))) (sig.map Cx.abs2)).2.getD i 0 + eps) := by
  have hcs := convertImpulse_size h
  have H' : C07.CircConv fftc ifft (2 ^ nextpow2 (2 * (convertImpulse h).size)) := by rw [hcs]; exact H
  obtain ⟨f1, f2⟩ := C07.fftfilter_eq_fir_cmplx fftc ifft (convertImpulse h) (by rw [hcs]; exact hm) H' sig
  have hn : (detInit fftc h thr).frameLen = (fftInitC fftc (convertImpulse h)).n := rfl
  have hcorr : (detInit fftc h thr).corr = fftInitC fftc (convertImpulse h) := rfl
  have hsz : (fftProcessC fftc ifft (detInit fftc h thr).corr sig).2.size = sig.size := by
    rw [hcorr, f1, ← hn]
    exact Nat.div_mul_cancel (Nat.dvd_of_mod_eq_zero hfl)
  refine ⟨hsz, fun i hi => ?_⟩
  have hma := C07.ma_eq_fir_real h.size hm (sig.map Cx.abs2)
  have hpow : (detInit fftc h thr).pow = maInitR h.size := rfl
  unfold callCorr normCorr
  rw [C07.getD_ofFn, dif_pos (by rw [hsz]; exact hi), hpow, hma]
  show Cx.abs2 ((fftProcessC fftc ifft (fftInitC fftc (convertImpulse h)) sig).2.getD i czero) /
      ((firProcessR (firInitR (Array.replicate h.size (1 / (h.size : ℝ)))) (sig.map Cx.abs2)).2.getD i (Fn.ofNat 0) + eps) = _
  rw [czero_eq, f2 i (by rw [← hcorr, hsz]; exact hi)]
  simp

/-! ## non-vacuity: the hypotheses of the theorems hold at concrete inputs -/

/-- T18.1 at a concrete array (delay, advance, `|d| ≥ N`) -/
example : delayseq 0 #[1, 2, 3, 4, 5] 2 = #[0, 0, 1, 2, 3] ∧ delayseq 0 #[1, 2, 3, 4, 5] (-2) = #[3, 4, 5, 0, 0] ∧
    delayseq 0 #[1, 2, 3, 4, 5] 5 = #[0, 0, 0, 0, 0] ∧ delayseq 0 #[1, 2, 3, 4, 5] (-7) = #[0, 0, 0, 0, 0] := by decide

/-- T18.2: the samples `1, 3, 2` around `idx = 1` lie on `-(3/2)t² + 5t - 1/2`... (vertex `7/6`) -/
example : peaklocR (#[1, 3, 2] : Array ℝ) 1 true = 7 / 6 := by
  have h := peakloc_vertex (#[1, 3, 2] : Array ℝ) 1 true (Or.inl rfl) (-3 / 2) (7 / 2) 1 (by norm_num)
    (by norm_num [Array.getD_eq_getD_getElem?]) (by norm_num [Array.getD_eq_getD_getElem?])
    (by norm_num [Array.getD_eq_getD_getElem?])
  rw [h]; norm_num

/-- the complex overload on the same (real-valued) samples lands on the OTHER side of `idx`: `1 - 2·(7/6 - 1) = 2/3` -/
example : peaklocC ((#[1, 3, 2] : Array ℝ).map fun v => (⟨v, 0⟩ : Cx ℝ)) 1 true = 2 / 3 := by
  have h := peaklocC_real_data (#[1, 3, 2] : Array ℝ) 1 true (Or.inl rfl) (by norm_num [Array.getD_eq_getD_getElem?])
  have h2 : peaklocR (#[1, 3, 2] : Array ℝ) 1 true = 7 / 6 := by
    have h := peakloc_vertex (#[1, 3, 2] : Array ℝ) 1 true (Or.inl rfl) (-3 / 2) (7 / 2) 1 (by norm_num)
      (by norm_num [Array.getD_eq_getD_getElem?]) (by norm_num [Array.getD_eq_getD_getElem?])
      (by norm_num [Array.getD_eq_getD_getElem?])
    rw [h]; norm_num
  rw [h2] at h
  push_cast at h
  linarith

/-- T18.3: the unwrapping on `nfft = 8`: every admissible shift `-4 ≤ d < 4` is recovered from its lag index -/
example : unwrapLag 8 0 = 0 ∧ unwrapLag 8 7 = 1 ∧ unwrapLag 8 5 = 3 ∧ unwrapLag 8 1 = -1 ∧ unwrapLag 8 3 = -3 ∧ unwrapLag 8 4 = -4 := by
  decide

/-- T18.4: `CDelay` of size 3 after 5 pushes holds the last three samples, oldest first -/
example : (([1, 2, 3, 4, 5] : List Nat).foldl CDelay.push (CDelay.init 0 3)).extract 0 = #[3, 4, 5] := by decide

/-- T18.4: the sample loop stops at the first hit (index 2 of the values `0.1, 0.2, 0.9, 0.95` against `thr² = 0.25`) -/
example : (scan (1 / 4 : ℝ) [(⟨1, 0⟩, 1 / 10), (⟨2, 0⟩, 1 / 5), (⟨3, 0⟩, 9 / 10), (⟨4, 0⟩, 19 / 20)] 0 (CDelay.init ⟨0, 0⟩ 2)).2 =
    some (2, 9 / 10) := by
  norm_num [scan, isValid_real]

end Dsp.C18
