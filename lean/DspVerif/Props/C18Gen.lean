import DspVerif.Props.C18
import DspVerif.Props.C18Total
import DspVerif.Props.C07Gen
import DspVerif.Gen.StepsDetector
import DspVerif.Lib.RealFn
import DspVerif.Lib.GenBridge
/-!
# C18 — bridge: the hand-written preamble-detector model IS the regenerated code of `lib/detector.cpp`

`Gen/StepsDetector.lean` is written by `tools/cxx2lean.py` on every check run from `lib/detector.cpp` (and what it calls):
* `_is_valid` (`Gen.detIsValid`, over the documented primitives `stdIsinf` / `stdIsnan`);
* `CDelay<cmplx_t>`: constructor, `push`, `extract` (`Gen.cdelayCtor`, `cdelayPush`, `cdelayExtract` with its copy loop);
* `MAFilter<real_t>::process(const base_array<T>&)` (`Gen.maFilterProcess`, a fold of the scalar `Gen.maFilterStep` of unit StepsDyn);
* `FftFilter::block_size` (`Gen.fftFilterBlockSize`), `abs2(const arr_cmplx&)`, `rms(const arr_cmplx&)` of lib/math.cpp;
* `PreambleDetectorImpl`: `_convert_impulse`, the constructor (`Gen.detectorCtor`: the sub-objects built by the GENERATED constructors
  `fftFilterCtor`, `maFilterCtor`, `cdelayCtor`), `frame_len`, and the WHOLE `process` (`Gen.detectorProcess`): the frame-length guard,
  both filters through their generated `process` functions (`fftFilterProcess`, `maFilterProcess`), the normalised correlation
  `abs2(cx) / (pwx + eps())`, and the sample loop with its early `return` as a first-hit search (`Gen.firstHit` over
  `Gen.detectorProcess_loop1`); `reset()` (`Gen.detectorReset`, with `CDelay::reset` as `Gen.cdelayReset`).
Pinned by AST digest (not translated): `flip(const arr_cmplx&)`, `operator+(scalar)`, `operator/(array)`, `base_array(std::vector<T>&&)`.
The transforms (`fft(x)`, `ifft(x)`, `fft(x, n)`) and `nextpow2` are parameters, as in unit StepsFftFilter.

Proved here, over ℝ: `cdelayCtor_eq`, `cdelayPush_eq`, `cdelayExtract_eq`; `maFilterProcess_eq`; `detConvertImpulse_eq`;
`detectorCtor_eq` (generated constructor = `Detect.detInit`, every preamble and threshold); `det_loop_eq` (generated first-hit loop =
`Detect.scan`); `detectorProcess_eq` (generated `process` = `Detect.detProcess` for EVERY state with the structural invariant and every
frame, rejected lengths included; the pinned quotient `abs2(cx) / (pwx + eps())` does not throw there: `normCorr_eq`); transported
headline theorems `detector_gen_first_call_total`, `detector_gen_first_call_silent_total` (C18 / T18.4 from the GENERATED constructor
through the GENERATED `process`, with the library's FFT model — no transform hypothesis), `detector_gen_process_spec` (T18.4 for EVERY
state of the bridged domain and every accepted call; `detProcess_inv`: calls stay inside the domain), `detector_gen_bad_length`;
`detectorReset_eq` (generated `reset()` = `Detect.detReset`).
-/
namespace Dsp.C18Gen
open Dsp Dsp.Fir Dsp.Detect Dsp.MathFns Dsp.GenBridge Dsp.C07Gen

set_option linter.unusedSectionVars false
set_option linter.unusedSimpArgs false
set_option linter.unusedVariables false

noncomputable section

/-! ## `CDelay<cmplx_t>` -/

/-- the generated object of a model delay line (`_size = _buf.size()`) -/
def toGenD (d : CDelay (Cx ℝ)) : Gen.CDelayState ℝ := ⟨(d.idx : Int), (d.buf.size : Int), d.buf⟩

theorem gzeroC : (Gen.zeroC : Cx ℝ) = czero := by apply Cx.ext' <;> simp [Gen.zeroC, czero]

/-- **bridge, `CDelay<cmplx_t>::CDelay(int size)`** for `size ≥ 0` -/
theorem cdelayCtor_eq (n : ℕ) : (Gen.cdelayCtor (n : Int) : Gen.CDelayState ℝ) = toGenD (CDelay.init czero n) := by
  simp [Gen.cdelayCtor, toGenD, CDelay.init, Gen.vecNewC, gzeroC]

/-- **bridge, `CDelay<cmplx_t>::push`**, every state and sample -/
theorem cdelayPush_eq (d : CDelay (Cx ℝ)) (v : Cx ℝ) : Gen.cdelayPush (toGenD d) v = toGenD (d.push v) := by
  simp only [Gen.cdelayPush, toGenD, CDelay.push, ptrSet_natCast, Array.size_setIfInBounds]
  have hc : ((d.idx : Int) + 1 = (d.buf.size : Int)) ↔ (d.idx + 1 = d.buf.size) := by constructor <;> intro h <;> omega
  simp only [hc]
  split_ifs <;> simp

/-- **bridge, `CDelay<cmplx_t>::extract`**, every state with `_idx < _size` (the invariant `push` keeps) -/
theorem cdelayExtract_eq (d : CDelay (Cx ℝ)) (hi : d.idx < d.buf.size) : Gen.cdelayExtract (toGenD d) = d.extract czero := by
  unfold Gen.cdelayExtract CDelay.extract
  simp only [toGenD, Int.toNat_natCast, Gen.vecNewC]
  have key := foldl_range_rel
    (fun (k : ℕ) (G : Array (Cx ℝ) × Int) (a : Array (Cx ℝ)) => G.1 = a ∧ G.2 = (((d.idx + k) % d.buf.size : ℕ) : Int))
    (Gen.cdelayExtract_loop1 (toGenD d))
    (fun (a : Array (Cx ℝ)) i => a.setIfInBounds i ((fun (_ : Cx ℝ) i => d.buf.getD ((d.idx + i) % d.buf.size) czero) (a.getD i czero) i))
    d.buf.size
    (by
      rintro k ⟨r, p⟩ a hk ⟨h1, h2⟩
      simp only at h1 h2
      subst h1
      simp only [Gen.cdelayExtract_loop1, toGenD, Int.ofNat_eq_natCast, ptrSet_natCast, h2, ptrGet_natCast, gzeroC]
      refine ⟨by first | trivial | rfl, ?_⟩
      have hpos : 0 < d.buf.size := by omega
      rw [show (((d.idx + k) % d.buf.size : ℕ) : Int) + 1 = (((d.idx + k) % d.buf.size + 1 : ℕ) : Int) by push_cast; rfl,
        Int.tmod_eq_emod_of_nonneg (by omega), ← Int.natCast_mod]
      congr 1
      rw [show d.idx + (k + 1) = (d.idx + k) + 1 by ring, Nat.add_mod ((d.idx + k)) 1, Nat.add_mod (((d.idx + k) % d.buf.size)) 1]
      simp)
    (Array.replicate d.buf.size Gen.zeroC, (d.idx : Int)) (Array.replicate d.buf.size Gen.zeroC)
    ⟨rfl, by simp [Nat.mod_eq_of_lt hi]⟩
  rw [show (toGenD d) = (⟨(d.idx : Int), (d.buf.size : Int), d.buf⟩ : Gen.CDelayState ℝ) from rfl] at key
  rw [key.1]
  exact foldl_set_eq_ofFn czero (fun (_ : Cx ℝ) i => d.buf.getD ((d.idx + i) % d.buf.size) czero) d.buf.size _ (by simp)

/-! ## `MAFilter<real_t>::process(const base_array<T>&)` -/

/-- the generated object of a model moving-average state -/
def toGenM (s : MaState ℝ) : Gen.MAFilterState ℝ := ⟨s.buf, (s.n : Int), (s.pos : Int), s.accum⟩

theorem sumR_eq_sumv (a : Array ℝ) : Gen.sumR a = sumv (0 : ℝ) a := by
  unfold Gen.sumR sumv
  rw [acc_eq_foldl, array_foldl_eq_range (0 : ℝ)]
  simp

/-- the scalar overload (`Gen.maFilterStep`, unit StepsDyn) is `Fir.maStep` -/
theorem maFilterStep_eqF (s : MaState ℝ) (x : ℝ) :
    Gen.maFilterStep (toGenM s) x = (toGenM (maStep (zeroR : ℝ) divnR s x).1, (maStep (zeroR : ℝ) divnR s x).2) := by
  have hc : ((s.pos : Int) + 1 = (s.n : Int)) ↔ (s.pos + 1 = s.n) := by constructor <;> intro h <;> omega
  simp only [Gen.maFilterStep, maStep, toGenM, Gen.zeroR, arrGet_natCast, arrSet_natCast, sumR_eq_sumv, fn_ofNat, fn_ofInt,
    hc, Nat.cast_zero, Int.cast_zero, zeroR, divnR]
  split_ifs <;> simp

/-- **bridge, `MAFilter<real_t>::process(const base_array<T>&)`:** every state, every frame -/
theorem maFilterProcess_eq (s : MaState ℝ) (x : Array ℝ) :
    Gen.maFilterProcess (toGenM s) x = (toGenM (maProcessR s x).1, (maProcessR s x).2) := by
  unfold Gen.maFilterProcess maProcessR maProcess
  rw [array_foldl_eq_range (0 : ℝ) _ x (s, #[])]
  simp only [Gen.arrSize, Int.ofNat_eq_natCast, Int.toNat_natCast, Gen.arrNew]
  have key := foldl_range_rel
    (fun (k : ℕ) (G : Gen.MAFilterState ℝ × Array ℝ) (M : MaState ℝ × Array ℝ) =>
      G.1 = toGenM M.1 ∧ G.2.size = x.size ∧ M.2.size = k ∧ ∀ j, j < k → G.2.getD j 0 = M.2.getD j 0)
    (Gen.maFilterProcess_loop1 x)
    (fun (so : MaState ℝ × Array ℝ) k => ((maStep (zeroR : ℝ) divnR so.1 (x.getD k 0)).1, so.2.push (maStep (zeroR : ℝ) divnR so.1 (x.getD k 0)).2))
    x.size
    (by
      rintro k ⟨G, y⟩ ⟨ms, out⟩ hk ⟨h1, h2, h3, h4⟩
      simp only at h1 h2 h3 h4
      subst h1
      simp only [Gen.maFilterProcess_loop1, Int.ofNat_eq_natCast, arrGet_natCast, arrSet_natCast, maFilterStep_eqF, Gen.zeroR, fn_ofInt,
        Int.cast_zero]
      refine ⟨by first | trivial | rfl, by simpa using h2, by simp [h3], ?_⟩
      intro j hj
      rw [getD_setIfInBounds, h2]
      by_cases hjk : k = j
      · subst hjk
        simp [hk, h3, Array.getD_eq_getD_getElem?]
        try (subst h3; simp)
      · have hj' : j < k := by omega
        rw [if_neg (by tauto), h4 j hj']
        simp [Array.getD_eq_getD_getElem?, Array.getElem?_push, h3, hj', show ¬ (j = k) by omega]
        try (intro h; omega))
    (toGenM s, Array.replicate x.size Gen.zeroR) (s, #[])
    ⟨rfl, by simp, rfl, by intro j hj; omega⟩
  obtain ⟨k1, k2, k3, k4⟩ := key
  generalize (List.range x.size).foldl (Gen.maFilterProcess_loop1 x) (toGenM s, Array.replicate x.size Gen.zeroR) = G at k1 k2 k4 ⊢
  generalize (List.range x.size).foldl
    (fun (so : MaState ℝ × Array ℝ) k => ((maStep (zeroR : ℝ) divnR so.1 (x.getD k 0)).1, so.2.push (maStep (zeroR : ℝ) divnR so.1 (x.getD k 0)).2))
    (s, #[]) = M at k1 k3 k4 ⊢
  obtain ⟨G1, Gy⟩ := G
  obtain ⟨M1, Mo⟩ := M
  simp only at k1 k2 k3 k4 ⊢
  rw [k1]
  congr 1
  apply ext_getD (0 : ℝ)
  · rw [k2, k3]
  · intro j hj
    rw [k2] at hj
    exact k4 j hj

/-- `abs2(const arr_cmplx&)` of lib/math.cpp (generated) is the element-wise `|·|²` -/
theorem abs2Arr_eq (x : Array (Cx ℝ)) : Gen.abs2Arr x = x.map Cx.abs2 := by
  unfold Gen.abs2Arr
  simp only [Gen.arrNew, Gen.arrSize, Int.ofNat_eq_natCast, Int.toNat_natCast]
  have key := foldl_set_eq_ofFn (0 : ℝ) (fun (_ : ℝ) (k : Nat) => Cx.abs2 (x.getD k Gen.zeroC)) x.size
    (Array.replicate x.size Gen.zeroR) (by simp)
  have hf : (Gen.abs2Arr_loop1 x : Array ℝ → Nat → Array ℝ) = fun a i => a.setIfInBounds i (Cx.abs2 (x.getD i Gen.zeroC)) := by
    funext a i
    simp only [Gen.abs2Arr_loop1, Int.ofNat_eq_natCast, arrSet_natCast, arrGet_natCast, Cx.abs2]
  rw [hf]
  refine key.trans ?_
  apply Array.ext
  · simp
  · intro i h1 h2
    simp only [Array.size_ofFn] at h1
    simp [getD_of_lt _ _ _ h1]

/-! ## `_convert_impulse`, the constructor -/

/-- `rms(const arr_cmplx&)` of lib/math.cpp (generated) is the model's `crms` -/
theorem rmsC_eq (x : Array (Cx ℝ)) : Gen.rmsC x = crms x := by
  unfold Gen.rmsC crms
  simp only [Gen.arrSize, Int.ofNat_eq_natCast, Int.toNat_natCast, fn_ofInt, fn_ofNat, Int.cast_zero, Nat.cast_zero, Int.cast_natCast]
  rw [array_foldl_eq_range (Gen.zeroC : Cx ℝ)]
  congr 2
  all_goals
    apply foldl_range_congr
    intro v k hk
    simp only [Gen.rmsC_loop1, Int.ofNat_eq_natCast, arrGet_natCast]

theorem flip_eq_reverse {β : Type} (x : Array β) : MathFns.flip x = x.reverse := by
  apply Array.ext
  · simp [MathFns.flip]
  · intro i h1 h2
    simp [MathFns.flip]

/-- **bridge, `PreambleDetectorImpl::_convert_impulse`**, every preamble -/
theorem detConvertImpulse_eq (h : Array (Cx ℝ)) : Gen.detConvertImpulse h = convertImpulse h := by
  unfold Gen.detConvertImpulse convertImpulse
  simp only [Gen.arrDivCR, Gen.arrFlipC, rmsC_eq, flip_eq_reverse, Gen.arrSize, Int.ofNat_eq_natCast, fn_ofInt, fn_ofNat, Int.cast_natCast]
  congr 1
  all_goals
    funext v
    simp [Cx.divrAssign, Cx.divr]

/-- the generated object of a model detector state -/
def toGenDet (s : DetState ℝ) : Gen.DetectorState ℝ := ⟨toGenF s.corr, toGenM s.pow, s.thr2, toGenD s.delay⟩

/-- **bridge, `PreambleDetectorImpl::PreambleDetectorImpl(const arr_cmplx& h, real_t threshold)`:** with `nextpow2` and `fft(x, n)`
instantiated as in `C07Gen.fftFilterCtor_eq`, the generated constructor — `_corr_flt{_convert_impulse(h)}` through the generated
`FftFilter` constructor, `_pow_flt{h.size()}` through the generated `MAFilter` constructor, `_threshold{threshold * threshold}`,
`_delay{h.size()}` through the generated `CDelay` constructor — leaves the model's `detInit`, for EVERY preamble and threshold -/
theorem detectorCtor_eq (np : Int → Int) (fftN : Array (Cx ℝ) → Int → Array (Cx ℝ)) (fft : Array (Cx ℝ) → Array (Cx ℝ))
    (hnp : ∀ k : ℕ, np (k : Int) = (nextpow2 k : Int))
    (hfft : ∀ (x : Array (Cx ℝ)) (n : ℕ), x.size ≤ n → fftN x (n : Int) = fft (zeropad (0 : Cx ℝ) x n))
    (h : Array (Cx ℝ)) (thr : ℝ) :
    Gen.detectorCtor np fftN h thr = toGenDet (detInit fft h thr) := by
  unfold Gen.detectorCtor detInit toGenDet
  simp only [Gen.arrSize, Int.ofNat_eq_natCast, detConvertImpulse_eq, fftFilterCtor_eq np fftN fft hnp hfft, cdelayCtor_eq]
  congr 1
  all_goals
    first
      | rfl
      | simp only [fftInitC, Cx.zeroC_eq]
      | simp [Gen.maFilterCtor, toGenM, maInitR, maInit, Gen.arrNew, Gen.zeroR, zeroR]

/-! ## the sample loop with its early `return` -/

/-- the generated test `corr[i] > _threshold && _is_valid(corr[i])` is the model's (over ℝ `_is_valid` always holds) -/
theorem hit_iff (thr c : ℝ) : (c > thr ∧ Gen.detIsValid c) ↔ (decide (thr < c) && isValid c) = true := by
  simp [Gen.detIsValid, Gen.stdIsinf, Gen.stdIsnan, isValid]

theorem dok_push (d : CDelay (Cx ℝ)) (v : Cx ℝ) (h : d.idx < d.buf.size) : (d.push v).idx < (d.push v).buf.size := by
  simp only [CDelay.push, Array.size_setIfInBounds]; split_ifs <;> omega

/-- the model's result of a reporting scan -/
def mkRes (r : CDelay (Cx ℝ) × Option (ℕ × ℝ)) : Option (Gen.DetResult ℝ) :=
  r.2.map fun p => ⟨(p.1 : Int), r.1.extract czero, Real.sqrt p.2⟩

theorem scan_dok (thr : ℝ) : ∀ (L : List (Cx ℝ × ℝ)) (i : ℕ) (d : CDelay (Cx ℝ)), d.idx < d.buf.size →
    (scan thr L i d).1.idx < (scan thr L i d).1.buf.size := by
  intro L
  induction L with
  | nil => intro i d h; simpa [scan] using h
  | cons p L ih =>
    intro i d h
    obtain ⟨v, c⟩ := p
    simp only [scan]
    split_ifs
    · exact dok_push d v h
    · exact ih (i + 1) (d.push v) (dok_push d v h)

/-- **bridge, the sample loop of `process`** (`for (i < corr.size()) { _delay.push(sig[i]); if (corr[i] > _threshold && _is_valid(corr[i]))
{ …; return res; } }`): the generated first-hit search over the generated loop body, started at any index `i` with any delay line, is
the model's `scan` on the remaining (sample, correlation) pairs — the same delay line afterwards (the samples behind a hit are NOT
pushed), the same report (offset, `extract()` of the delay line at the hit, `sqrt` of the value) -/
theorem det_loop_eq (sig : Array (Cx ℝ)) (corr : Array ℝ) (hsz : corr.size = sig.size) (F : Gen.FftFilterState ℝ) (M : Gen.MAFilterState ℝ)
    (thr : ℝ) : ∀ (m i : ℕ) (d : CDelay (Cx ℝ)), i + m = sig.size → d.idx < d.buf.size →
      Gen.firstHit (Gen.detectorProcess_loop1 sig corr) m i ⟨F, M, thr, toGenD d⟩ =
        (⟨F, M, thr, toGenD (scan thr ((sig.toList.zip corr.toList).drop i) i d).1⟩,
          mkRes (scan thr ((sig.toList.zip corr.toList).drop i) i d)) := by
  intro m
  induction m with
  | zero =>
    intro i d hi hd
    have : (sig.toList.zip corr.toList).drop i = [] := by
      apply List.drop_eq_nil_of_le
      simp [hsz]; omega
    simp [Gen.firstHit, this, scan, mkRes]
  | succ m ih =>
    intro i d hi hd
    have hlt : i < sig.size := by omega
    have hlen : i < (sig.toList.zip corr.toList).length := by simp [hsz]; omega
    rw [List.drop_eq_getElem_cons hlen]
    have hel : (sig.toList.zip corr.toList)[i] = (sig.getD i czero, corr.getD i 0) := by
      simp [getD_of_lt _ _ _ hlt, getD_of_lt _ _ _ (show i < corr.size by omega)]
    rw [hel]
    simp only [Gen.firstHit, Gen.detectorProcess_loop1, Int.ofNat_eq_natCast, arrGet_natCast, cdelayPush_eq, gzeroC, Gen.zeroR, fn_ofInt,
      Int.cast_zero, scan]
    by_cases hh : (decide (thr < corr.getD i 0) && isValid (corr.getD i 0)) = true
    · rw [if_pos ((hit_iff thr _).2 hh), if_pos hh]
      simp only [mkRes, Option.map_some, Gen.arrOfVec, fn_sqrt]
      rw [cdelayExtract_eq _ (dok_push d _ hd)]
    · rw [if_neg (fun h => hh ((hit_iff thr _).1 h)), if_neg hh]
      exact ih (i + 1) (d.push (sig.getD i czero)) (by omega) (dok_push d _ hd)

/-! ## the whole `process` -/

theorem maProcess_size (s : MaState ℝ) (x : Array ℝ) : (maProcessR s x).2.size = x.size := by
  unfold maProcessR maProcess
  rw [← Array.foldl_toList]
  have : ∀ (l : List ℝ) (so : MaState ℝ × Array ℝ),
      (l.foldl (fun (so : MaState ℝ × Array ℝ) v => ((maStep (zeroR : ℝ) divnR so.1 v).1, so.2.push (maStep (zeroR : ℝ) divnR so.1 v).2)) so).2.size =
        so.2.size + l.length := by
    intro l
    induction l with
    | nil => intro so; simp
    | cons a l ih => intro so; simp only [List.foldl_cons, ih, Array.size_push, List.length_cons]; omega
  simpa using this x.toList (s, #[])

/-- the overlap-add filter emits `⌊(_nx + len)/_n⌋·_n` samples and is left with `_nx = (_nx + len) mod _n` (any state with `_nx < _n`) -/
theorem fftFold_size (fft ifft : Array (Cx ℝ) → Array (Cx ℝ)) : ∀ (l : List (Cx ℝ)) (so : FftState (Cx ℝ) × Array (Cx ℝ)),
    0 < so.1.n → so.1.nx < so.1.n →
      (l.foldl (fftStep (0 : Cx ℝ) fft ifft) so).2.size = so.2.size + (so.1.nx + l.length) / so.1.n * so.1.n ∧
      (l.foldl (fftStep (0 : Cx ℝ) fft ifft) so).1.nx = (so.1.nx + l.length) % so.1.n ∧
      (l.foldl (fftStep (0 : Cx ℝ) fft ifft) so).1.n = so.1.n := by
  intro l
  induction l with
  | nil =>
    intro so hn hx
    simp [Nat.div_eq_of_lt hx, Nat.mod_eq_of_lt hx]
  | cons a l ih =>
    intro so hn hx
    obtain ⟨st, out⟩ := so
    simp only at hn hx
    simp only [List.foldl_cons, List.length_cons]
    by_cases hw : st.nx + 1 = st.n
    · have hstep : fftStep (0 : Cx ℝ) fft ifft (st, out) a =
          ({ st with x := st.x.setIfInBounds st.nx a, nx := 0,
                     olap := fftTail (0 : Cx ℝ) st.n st.m (ifft (mulv (0 : Cx ℝ) (fft (st.x.setIfInBounds st.nx a)) st.H)) },
            out ++ fftBlock (0 : Cx ℝ) st.n st.m (ifft (mulv (0 : Cx ℝ) (fft (st.x.setIfInBounds st.nx a)) st.H)) st.olap) := by
        simp [fftStep, hw]
      have key := ih (fftStep (0 : Cx ℝ) fft ifft (st, out) a) (by rw [hstep]; exact hn) (by rw [hstep]; exact hn)
      rw [hstep] at key ⊢
      obtain ⟨i1, i2, i3⟩ := key
      simp only at i1 i2 i3
      refine ⟨?_, ?_, i3⟩
      · rw [i1]
        simp only [Array.size_append, fftBlock, Array.size_ofFn, Nat.zero_add]
        rw [show st.nx + (l.length + 1) = st.n + l.length by omega, Nat.add_div_left _ hn]
        rw [Nat.succ_mul]; omega
      · rw [i2]
        simp only [Nat.zero_add]
        rw [show st.nx + (l.length + 1) = st.n + l.length by omega, Nat.add_mod_left]
    · have hstep : fftStep (0 : Cx ℝ) fft ifft (st, out) a = ({ st with x := st.x.setIfInBounds st.nx a, nx := st.nx + 1 }, out) := by
        simp [fftStep, hw]
      have key := ih (fftStep (0 : Cx ℝ) fft ifft (st, out) a) (by rw [hstep]; exact hn)
        (by rw [hstep]; show st.nx + 1 < st.n; omega)
      rw [hstep] at key ⊢
      obtain ⟨i1, i2, i3⟩ := key
      simp only at i1 i2 i3
      refine ⟨?_, ?_, i3⟩
      · rw [i1, show st.nx + 1 + l.length = st.nx + (l.length + 1) by omega]
      · rw [i2, show st.nx + 1 + l.length = st.nx + (l.length + 1) by omega]

/-- a call of a multiple of `_n` samples on a filter with `_nx < _n` emits exactly as many samples as it got (so the quotient of
`process` does not throw) -/
theorem fftProcess_size_frame (fft ifft : Array (Cx ℝ) → Array (Cx ℝ)) (s : FftState (Cx ℝ)) (hs : SInv s) (xs : Array (Cx ℝ))
    (hfl : xs.size % s.n = 0) : (fftProcess (0 : Cx ℝ) fft ifft s xs).2.size = xs.size := by
  unfold fftProcess
  rw [← Array.foldl_toList]
  obtain ⟨h1, _, _⟩ := fftFold_size fft ifft xs.toList (s, #[]) hs.1 hs.2.1
  rw [h1]
  simp only [Array.size_empty, Nat.zero_add, Array.length_toList]
  obtain ⟨q, hq⟩ : ∃ q, xs.size = s.n * q := ⟨xs.size / s.n, by have := Nat.div_add_mod xs.size s.n; omega⟩
  rw [hq, Nat.add_mul_div_left _ _ hs.1, Nat.div_eq_of_lt hs.2.1, Nat.zero_add, Nat.mul_comm]

/-- `abs2(cx) / (pwx + eps())` (pinned array operators) is the model's `normCorr` when the quotient does not throw -/
theorem normCorr_eq (cx : Array (Cx ℝ)) (pwx : Array ℝ) (h : cx.size ≤ pwx.size) :
    Gen.arrDivRA (cx.map Cx.abs2) (Gen.arrAddRS pwx Detect.eps) = normCorr cx pwx := by
  unfold Gen.arrDivRA Gen.arrAddRS normCorr
  apply Array.ext
  · simp
  · intro i h1 h2
    simp only [Array.size_ofFn, Array.size_map] at h1
    have hp : i < pwx.size := by omega
    simp [getD_of_lt _ _ _ h1, Array.getD_eq_getD_getElem?, hp]

/-- the generated value of a model report -/
def toGenRes (q : Result ℝ) : Gen.DetResult ℝ := ⟨(q.offset : Int), q.preamble, q.score⟩

/-- the generated outcome of a model call -/
def toGenOut : Except String (DetState ℝ × Option (Result ℝ)) → Except String (Gen.DetectorState ℝ × Option (Gen.DetResult ℝ))
  | .error e => .error e
  | .ok r => .ok (toGenDet r.1, r.2.map toGenRes)

/-- **bridge, `PreambleDetectorImpl::process(const arr_cmplx& sig)`, one call.**  For every pair of transforms (parameters), every state
whose correlation filter has the structural invariant of `C07Gen` (`SInv`: the constructor establishes it, `process` keeps it) and
whose delay line has `_idx < _size`, and every frame — lengths that are not a multiple of `frame_len()` included (both throw the same
message): the GENERATED `process` (guard, both generated filter functions, the pinned array quotient, the first-hit loop) returns
the model's `detProcess` — same members afterwards, same optional report.  In particular the size check of the pinned quotient
`abs2(cx) / (pwx + eps())` (`Gen.arrDivRAThrows`, an explicit `.error` branch of the generated code) never fires: an accepted call
makes the correlation filter emit exactly as many samples as the call has (`fftProcess_size_frame`). -/
theorem detectorProcess_eq (fft ifft : Array (Cx ℝ) → Array (Cx ℝ)) (s : DetState ℝ) (hs : SInv s.corr)
    (hd : s.delay.idx < s.delay.buf.size) (sig : Array (Cx ℝ)) :
    Gen.detectorProcess Detect.eps fft ifft (toGenDet s) sig = toGenOut (detProcess fft ifft s sig) := by
  unfold Gen.detectorProcess detProcess
  have hfl : Gen.detectorFrameLen (toGenDet s) = (s.frameLen : Int) := by
    simp [Gen.detectorFrameLen, Gen.fftFilterBlockSize, toGenDet, toGenF, DetState.frameLen]
  have hmod : Int.tmod (Gen.arrSize sig) (Gen.detectorFrameLen (toGenDet s)) = ((sig.size % s.frameLen : ℕ) : Int) := by
    rw [hfl]; simp only [Gen.arrSize, Int.ofNat_eq_natCast]
    rw [Int.tmod_eq_emod_of_nonneg (by omega), Int.natCast_mod]
  rw [hmod]
  by_cases hg : sig.size % s.frameLen = 0
  · have hg' : ¬ (((sig.size % s.frameLen : ℕ) : Int) ≠ 0) := by simp [hg]
    rw [if_neg hg', if_neg (show ¬ (sig.size % s.frameLen ≠ 0) by simpa using hg)]
    simp only [toGenDet, fftFilterProcess_eq fft ifft s.corr hs sig, abs2Arr_eq, maFilterProcess_eq]
    have hcx : (fftProcess (0 : Cx ℝ) fft ifft s.corr sig).2.size = sig.size := fftProcess_size_frame fft ifft s.corr hs sig hg
    have hpw := maProcess_size s.pow (sig.map Cx.abs2)
    have hnt : ¬ Gen.arrDivRAThrows (Array.map Cx.abs2 (fftProcess (0 : Cx ℝ) fft ifft s.corr sig).2)
        (Gen.arrAddRS (maProcessR s.pow (sig.map Cx.abs2)).2 Detect.eps) := by
      simp [Gen.arrDivRAThrows, Gen.arrAddRS, hcx, hpw]
    rw [if_neg hnt, normCorr_eq _ _ (by rw [hcx, hpw]; simp)]
    have hcs : (normCorr (fftProcess (0 : Cx ℝ) fft ifft s.corr sig).2 (maProcessR s.pow (sig.map Cx.abs2)).2).size = sig.size := by
      simp [normCorr, hcx]
    have hloop := det_loop_eq sig _ hcs (toGenF (fftProcess (0 : Cx ℝ) fft ifft s.corr sig).1) (toGenM (maProcessR s.pow (sig.map Cx.abs2)).1)
      s.thr2 sig.size 0 s.delay (by omega) hd
    simp only [List.drop_zero] at hloop
    simp only [Gen.arrSize, hcs, Int.ofNat_eq_natCast, Int.toNat_natCast, hloop, fftProcessC, Cx.zeroC_eq]
    rcases hscan : scan s.thr2 (sig.toList.zip (normCorr (fftProcess (0 : Cx ℝ) fft ifft s.corr sig).2
      (maProcessR s.pow (sig.map Cx.abs2)).2).toList) 0 s.delay with ⟨d', _ | ⟨k, c⟩⟩
    · simp [mkRes, toGenOut, toGenDet]
    · simp [mkRes, toGenOut, toGenDet, toGenRes]
  · have hg' : (((sig.size % s.frameLen : ℕ) : Int) ≠ 0) := by exact_mod_cast hg
    rw [if_pos hg', if_pos (show sig.size % s.frameLen ≠ 0 from hg)]
    rfl

/-! ## headline theorems of C18 on the generated code -/

theorem detInit_gen_inv (fft : Array (Cx ℝ) → Array (Cx ℝ)) (h : Array (Cx ℝ)) (thr : ℝ) (hm : 1 ≤ h.size) :
    SInv (detInit fft h thr).corr ∧ (detInit fft h thr).delay.idx < (detInit fft h thr).delay.buf.size := by
  refine ⟨?_, ?_⟩
  · have := fftInit_SInv fft (convertImpulse h) (by rw [C18.convertImpulse_size]; exact hm)
    simpa [detInit, fftInitC, Cx.zeroC_eq] using this
  · simp [detInit, CDelay.init]; omega

/-- **C18 / T18.4, first call, from the GENERATED constructor through the GENERATED `process`, library FFT** (`C18.detector_first_call_total`
transported): construct the detector by `Gen.detectorCtor` (with `nextpow2` / `fft(x, n)` instantiated by the models' `nextpow2` and
"zero-pad, then the library transform"), call `Gen.detectorProcess` on a first call of a multiple of `frame_len()` samples.  If the DIRECT
normalised correlation `firCorr` exceeds `threshold²` at the index `e` only, the generated code reports `offset = e`, `score = √firCorr[e]`
and the last `nh` samples of the stream up to and including `e`, oldest first. -/
theorem detector_gen_first_call_total (lit : Fft.Lits ℝ) (hl : C01.LitsOK lit) (np : Int → Int) (fftN : Array (Cx ℝ) → Int → Array (Cx ℝ))
    (hnp : ∀ k : ℕ, np (k : Int) = (nextpow2 k : Int))
    (hfft : ∀ (x : Array (Cx ℝ)) (n : ℕ), x.size ≤ n → fftN x (n : Int) = C18.fftcL lit (zeropad (0 : Cx ℝ) x n))
    (h : Array (Cx ℝ)) (thr : ℝ) (hm : 1 ≤ h.size) (hb : 2 ^ nextpow2 (2 * h.size) < 2 ^ 31) (sig : Array (Cx ℝ))
    (hfl : sig.size % (2 ^ nextpow2 (2 * h.size) + 1 - h.size) = 0) (e : ℕ) (he : e < sig.size)
    (honly : ∀ i, i < sig.size → (thr * thr < C18.firCorr h sig i ↔ i = e)) :
    ∃ g' res, Gen.detectorProcess Detect.eps (C18.fftcL lit) (C18.ifftL lit) (Gen.detectorCtor np fftN h thr) sig = .ok (g', some res) ∧
      res.offset = (e : Int) ∧ res.score = Real.sqrt (C18.firCorr h sig e) ∧ res.preamble.size = h.size ∧
      ∀ j, j < h.size → res.preamble.getD j czero = C18.hist czero (sig.toList.take (e + 1)) (h.size - 1 - j) := by
  obtain ⟨s', r, h1, h2, h3, h4, h5⟩ := C18.detector_first_call_total lit hl h thr hm hb sig hfl e he honly
  obtain ⟨hs, hd⟩ := detInit_gen_inv (C18.fftcL lit) h thr hm
  refine ⟨toGenDet s', toGenRes r, ?_, by simp [toGenRes, h2], by simp [toGenRes, h3], by simpa [toGenRes] using h4,
    by simpa [toGenRes] using h5⟩
  rw [detectorCtor_eq np fftN _ hnp hfft, detectorProcess_eq _ _ _ hs hd sig, h1]
  rfl

/-- **… and nothing is reported when the direct correlation never exceeds** (`C18.detector_first_call_silent_total` transported): the generated
`process` returns `std::nullopt` and the generated delay line is the model's, holding the call's samples -/
theorem detector_gen_first_call_silent_total (lit : Fft.Lits ℝ) (hl : C01.LitsOK lit) (np : Int → Int) (fftN : Array (Cx ℝ) → Int → Array (Cx ℝ))
    (hnp : ∀ k : ℕ, np (k : Int) = (nextpow2 k : Int))
    (hfft : ∀ (x : Array (Cx ℝ)) (n : ℕ), x.size ≤ n → fftN x (n : Int) = C18.fftcL lit (zeropad (0 : Cx ℝ) x n))
    (h : Array (Cx ℝ)) (thr : ℝ) (hm : 1 ≤ h.size) (hb : 2 ^ nextpow2 (2 * h.size) < 2 ^ 31) (sig : Array (Cx ℝ))
    (hfl : sig.size % (2 ^ nextpow2 (2 * h.size) + 1 - h.size) = 0)
    (hnone : ∀ i, i < sig.size → ¬ thr * thr < C18.firCorr h sig i) :
    ∃ s', Gen.detectorProcess Detect.eps (C18.fftcL lit) (C18.ifftL lit) (Gen.detectorCtor np fftN h thr) sig = .ok (toGenDet s', none) ∧
      C18.DInv czero s'.delay h.size sig.toList := by
  obtain ⟨s', h1, h2⟩ := C18.detector_first_call_silent_total lit hl h thr hm hb sig hfl hnone
  obtain ⟨hs, hd⟩ := detInit_gen_inv (C18.fftcL lit) h thr hm
  refine ⟨s', ?_, h2⟩
  rw [detectorCtor_eq np fftN _ hnp hfft, detectorProcess_eq _ _ _ hs hd sig, h1]
  rfl

/-! ### every state, every call -/

theorem sinv_step (fft ifft : Array (Cx ℝ) → Array (Cx ℝ)) (so : FftState (Cx ℝ) × Array (Cx ℝ)) (v : Cx ℝ) (h : SInv so.1) :
    SInv (fftStep (0 : Cx ℝ) fft ifft so v).1 := by
  obtain ⟨h1, h2, h3, h4⟩ := h
  unfold fftStep
  by_cases hw : so.1.nx + 1 = so.1.n
  · simp only [hw, if_true]
    exact ⟨h1, by show 0 < so.1.n; omega, by simp [fftTail], h4⟩
  · simp only [hw, if_false]
    exact ⟨h1, by show so.1.nx + 1 < so.1.n; omega, h3, h4⟩

/-- `FftFilter::process` keeps the structural invariant -/
theorem fftProcess_SInv (fft ifft : Array (Cx ℝ) → Array (Cx ℝ)) (s : FftState (Cx ℝ)) (hs : SInv s) (xs : Array (Cx ℝ)) :
    SInv (fftProcess (0 : Cx ℝ) fft ifft s xs).1 := by
  unfold fftProcess
  rw [← Array.foldl_toList]
  have : ∀ (l : List (Cx ℝ)) (so : FftState (Cx ℝ) × Array (Cx ℝ)), SInv so.1 → SInv (l.foldl (fftStep (0 : Cx ℝ) fft ifft) so).1 := by
    intro l
    induction l with
    | nil => intro so h; simpa using h
    | cons a l ih => intro so h; simp only [List.foldl_cons]; exact ih _ (sinv_step fft ifft so a h)
  exact this _ _ hs

/-- an accepted call leaves a state inside the domain of the bridge (so the bridge applies to every state a sequence of calls
reaches from the constructor: `detInit_gen_inv`) -/
theorem detProcess_inv (fft ifft : Array (Cx ℝ) → Array (Cx ℝ)) (s : DetState ℝ) (hs : SInv s.corr)
    (hd : s.delay.idx < s.delay.buf.size) (sig : Array (Cx ℝ)) (s' : DetState ℝ) (r : Option (Result ℝ))
    (h : detProcess fft ifft s sig = .ok (s', r)) : SInv s'.corr ∧ s'.delay.idx < s'.delay.buf.size := by
  unfold detProcess at h
  split_ifs at h with hg
  simp only at h
  have h1 : SInv (fftProcessC fft ifft s.corr sig).1 := by
    have := fftProcess_SInv fft ifft s.corr hs sig
    simpa [fftProcessC, Cx.zeroC_eq] using this
  have h2 := scan_dok s.thr2 (sig.toList.zip (normCorr (fftProcessC fft ifft s.corr sig).2 (maProcessR s.pow (sig.map Cx.abs2)).2).toList) 0
    s.delay hd
  split at h <;>
  · injection h with h
    injection h with e1 e2
    subst e1
    exact ⟨h1, h2⟩

/-- **C18 / T18.4 on the generated code: every state, every call** (`C18.detProcess_spec` transported).  For every pair of transforms,
every state of the bridged domain whose delay line holds the last `nh` samples of the stream `S` so far, and every call of a multiple
of `frame_len()` samples: the GENERATED `process` does not throw, and it reports exactly the FIRST index of the call whose normalised
correlation `abs2(cx) / (pwx + eps())` exceeds `threshold²`, with `score = √` of that value and the last `nh` samples of the stream up
to and including that index, oldest first; it reports nothing iff no index exceeds.  The state it leaves is again in the domain. -/
theorem detector_gen_process_spec (fft ifft : Array (Cx ℝ) → Array (Cx ℝ)) (s : DetState ℝ) (sig : Array (Cx ℝ)) (nh : ℕ) (S : List (Cx ℝ))
    (hs : SInv s.corr) (hfl : sig.size % s.frameLen = 0) (hinv : C18.DInv czero s.delay nh S) :
    ∃ s' r, Gen.detectorProcess Detect.eps fft ifft (toGenDet s) sig = .ok (toGenDet s', Option.map toGenRes r) ∧
      SInv s'.corr ∧ s'.thr2 = s.thr2 ∧
      match r with
      | none => (∀ i, i < sig.size → ¬ s.thr2 < (C18.callCorr fft ifft s sig).getD i 0) ∧ C18.DInv czero s'.delay nh (S ++ sig.toList)
      | some res =>
        res.offset < sig.size ∧ s.thr2 < (C18.callCorr fft ifft s sig).getD res.offset 0 ∧
        (∀ j, j < res.offset → ¬ s.thr2 < (C18.callCorr fft ifft s sig).getD j 0) ∧
        res.score = Real.sqrt ((C18.callCorr fft ifft s sig).getD res.offset 0) ∧
        res.preamble.size = nh ∧
        (∀ j, j < nh → res.preamble.getD j czero = C18.hist czero (S ++ sig.toList.take (res.offset + 1)) (nh - 1 - j)) ∧
        C18.DInv czero s'.delay nh (S ++ sig.toList.take (res.offset + 1)) := by
  have hd : s.delay.idx < s.delay.buf.size := by rw [hinv.1]; exact hinv.2.1
  have hsz : (fftProcessC fft ifft s.corr sig).2.size = sig.size := by
    have := fftProcess_size_frame fft ifft s.corr hs sig hfl
    simpa [fftProcessC, Cx.zeroC_eq] using this
  obtain ⟨s', r, h1, _, _, h4, h5⟩ := C18.detProcess_spec fft ifft s sig nh S hfl hinv hsz
  refine ⟨s', r, ?_, (detProcess_inv fft ifft s hs hd sig s' r h1).1, h4, h5⟩
  rw [detectorProcess_eq fft ifft s hs hd sig, h1]
  rfl

/-! ### `reset()` -/

theorem cdelayReset_eq (d : CDelay (Cx ℝ)) : Gen.cdelayReset (toGenD d) = toGenD (CDelay.init czero d.buf.size) := by
  simp [Gen.cdelayReset, toGenD, CDelay.init, Gen.arrFill, gzeroC]

/-- **bridge, `PreambleDetectorImpl::reset()`**, every state of the bridged domain: one frame of zeros through the generated moving
average and (as `process(const arr_real&)`) through the generated correlation filter, the delay line cleared by the generated
`CDelay::reset` — the model's `detReset` -/
theorem detectorReset_eq (fft ifft : Array (Cx ℝ) → Array (Cx ℝ)) (s : DetState ℝ) (hs : SInv s.corr) :
    Gen.detectorReset fft ifft (toGenDet s) = toGenDet (detReset fft ifft s) := by
  have hz : Gen.arrNew (Gen.zeroR : ℝ) ((s.corr.n : ℕ) : Int) = Array.replicate s.corr.n (0 : ℝ) := by
    simp [Gen.arrNew, Gen.zeroR]
  have hc : Gen.arrComplex (Array.replicate s.corr.n (0 : ℝ)) = Array.replicate s.corr.n (czero : Cx ℝ) := by
    rw [arrComplex_eq]; simp [ofRealV, czero]
  simp only [Gen.detectorReset, detReset, toGenDet, Gen.detectorFrameLen, Gen.fftFilterBlockSize, toGenF, DetState.frameLen, hz,
    maFilterProcess_eq, Gen.fftFilterProcessR, hc]
  have := fftFilterProcess_eq fft ifft s.corr hs (Array.replicate s.corr.n (czero : Cx ℝ))
  simp only [toGenF] at this
  rw [this, cdelayReset_eq]
  simp [fftProcessC, Cx.zeroC_eq, zeroR, toGenF]

/-- **a call whose length is not a multiple of `frame_len()` throws** (`C18.detProcess_bad_length` transported), every state -/
theorem detector_gen_bad_length (fft ifft : Array (Cx ℝ) → Array (Cx ℝ)) (s : DetState ℝ) (hs : SInv s.corr)
    (hd : s.delay.idx < s.delay.buf.size) (sig : Array (Cx ℝ)) (h : sig.size % s.frameLen ≠ 0) :
    ∃ e, Gen.detectorProcess Detect.eps fft ifft (toGenDet s) sig = .error e := by
  obtain ⟨e, he⟩ := C18.detProcess_bad_length fft ifft s sig h
  exact ⟨e, by rw [detectorProcess_eq fft ifft s hs hd sig, he]; rfl⟩

/-- non-vacuity: the hypotheses on the constructor's two parameters are satisfiable (the models' own `nextpow2` and "zero-pad, then the
library transform"), and the loop bridge applies to a concrete frame -/
example (lit : Fft.Lits ℝ) :
    (∀ k : ℕ, (fun z : Int => (nextpow2 z.toNat : Int)) (k : Int) = (nextpow2 k : Int)) ∧
    (∀ (x : Array (Cx ℝ)) (n : ℕ), x.size ≤ n →
      (fun x (z : Int) => C18.fftcL lit (zeropad (0 : Cx ℝ) x z.toNat)) x (n : Int) = C18.fftcL lit (zeropad (0 : Cx ℝ) x n)) :=
  ⟨fun k => by simp, fun x n _ => by simp⟩

end
end Dsp.C18Gen
