import DspVerif.Props.C08
import DspVerif.Gen.StepsResample
import DspVerif.Lib.RealFn
import DspVerif.Lib.GenBridge
/-!
# C08 — bridge: the hand-written polyphase converter models ARE the regenerated `process` functions

`Gen/StepsResample.lean` is written by `tools/cxx2lean.py` on every check run from `lib/resample/fir-decimator.cpp`,
`fir-interpolator.cpp`, `fir-rate-converter.cpp` (members from include/dsplib/resample.h, C++ types checked:
`std::vector<arr_real> h_`, `arr_real d_`, `int decim_ / interp_ / sublen_`, `std::vector<int> xidxs_`): the whole
frame-level `process` of the three classes —
* the throwing guard `DSPLIB_ASSERT(nx % decim_ == 0, …)` (decimator, rate converter; the generated functions are `Except`-valued),
* the history concatenation `x = d_ | in` and hand-over by three `std::memcpy`s (`arrCopy` of `Gen/StepsArray.lean`, index
  arithmetic explicit),
* the three nested loops, with the raw pointers as (array, `Int` offset) pairs: `px += decim_`, `++py`, `*py += …`,
  `const auto* px = x.data() + i * decim_ + xidxs_[k]`, the second loop variable `idx += decim_`, `h_[k][j]`.

Proved here over ℝ, for EVERY state (any coefficient table, any history, any rates) and every frame:
`firInterpProcess_eq`, `firDecimProcess_eq`, `firRateProcess_eq` — generated `process` of a frame = model `process` of the
frame (`Model/Resample.lean`), including the rejection of frames whose length is not a multiple of `decim_`; and the
headline theorems of `Props/C08.lean` transported to the generated code: `gen_interp_eq` (T08.2), `gen_decim_eq` (T08.3),
`gen_rateconv_eq` (T08.5), `gen_decim_len`, `gen_interp_len`.
-/
namespace Dsp.C08Gen
open Dsp Dsp.Resample Dsp.GenBridge

set_option linter.unusedSectionVars false
set_option linter.unusedSimpArgs false
set_option linter.unusedVariables false

theorem loopN_eq_foldl {σ : Type} (step : Nat → σ → σ) (n : Nat) (s : σ) :
    loopN step n s = (List.range n).foldl (fun s k => step k s) s := by
  induction n with
  | zero => rfl
  | succ n ih => simp [loopN, ih, List.range_succ]

noncomputable section

theorem getD_append' (d inp : Array ℝ) (j : ℕ) :
    (d ++ inp).getD j 0 = if j < d.size then d.getD j 0 else inp.getD (j - d.size) 0 := by
  simp only [Array.getD_eq_getD_getElem?, Array.getElem?_append]
  split <;> rfl

/-- the history buffer built by the first two `memcpy`s: `x = d_ | in` -/
theorem concat_copy (d inp : Array ℝ) (x0 x1 x2 : Array ℝ)
    (h0 : x0 = Gen.arrNew (Gen.zeroR : ℝ) ((d.size : Int) + (inp.size : Int)))
    (h1 : x1 = if (d.size : Int) > 0 then Gen.arrCopy x0 0 d 0 (d.size : Int) else x0)
    (h2 : x2 = if (inp.size : Int) > 0 then Gen.arrCopy x1 (d.size : Int) inp 0 (inp.size : Int) else x1) :
    x2 = d ++ inp := by
  have e0 : x0 = Array.replicate (d.size + inp.size) 0 := by
    rw [h0, arrNew_nat _ (d.size + inp.size) _ (by push_cast; rfl)]; simp [Gen.zeroR]
  have s0 : x0.size = d.size + inp.size := by rw [e0]; simp
  have s1 : x1.size = d.size + inp.size := by rw [h1]; split <;> simp [s0]
  have s2 : x2.size = d.size + inp.size := by rw [h2]; split <;> simp [s1]
  have g0 : ∀ j, x0.getD j 0 = 0 := by
    intro j; rw [e0, getD_replicate]; split <;> rfl
  have g1 : ∀ j, j < d.size + inp.size → x1.getD j 0 = if j < d.size then d.getD j 0 else 0 := by
    intro j hj
    rw [h1]
    split
    · rw [arrCopy_getD_eq x0 d 0 0 0 0 _ j 0 (by omega) rfl rfl, g0]
      by_cases hjd : j < d.size
      · rw [if_pos ⟨by omega, by omega⟩, if_pos hjd]; simp [getD_of_lt d j _ hjd]
      · rw [if_neg (by omega), if_neg hjd]
    · rw [g0, if_neg (by omega)]
  apply ext_getD (0 : ℝ)
  · rw [s2]; simp
  · intro j hj
    rw [s2] at hj
    rw [getD_append', h2]
    split
    · rw [arrCopy_getD_eq x1 inp _ 0 d.size 0 _ j 0 (by omega) rfl rfl, g1 j hj]
      by_cases hjd : j < d.size
      · rw [if_neg (by omega), if_pos hjd, if_pos hjd]
      · rw [if_pos ⟨by omega, by omega⟩, if_neg hjd, if_neg hjd]
        have hlt : j - d.size < inp.size := by omega
        simp [getD_of_lt inp _ _ hlt]
    · rw [g1 j hj]
      by_cases hjd : j < d.size
      · rw [if_pos hjd, if_pos hjd]
      · omega

/-- the third `memcpy`: the new history is the tail of the buffer -/
theorem tail_copy (d x : Array ℝ) (nx : ℕ) (hx : x.size = d.size + nx) :
    (if (d.size : Int) > 0 then Gen.arrCopy d 0 x (nx : Int) (d.size : Int) else d) = x.extract nx (nx + d.size) := by
  apply ext_getD (0 : ℝ)
  · split <;> simp [hx] <;> omega
  · intro j hj
    have hj' : j < d.size := by revert hj; split <;> simp
    have hR : (x.extract nx (nx + d.size)).getD j 0 = x.getD (nx + j) 0 := by
      simp only [Array.getD_eq_getD_getElem?, Array.getElem?_extract]
      rw [if_pos (by omega)]
    rw [hR]
    split
    · rw [arrCopy_getD_eq d x 0 _ 0 nx _ j 0 hj' rfl rfl, if_pos ⟨by omega, by omega⟩]
      have : j - 0 + nx = nx + j := by omega
      rw [this]
      simp [getD_of_lt x (nx + j) _ (by omega)]
    · omega

/-! ## `FIRInterpolator::process` -/

/-- the generated state of a model state -/
def toGenI (s : Interp ℝ) : Gen.FIRInterpolatorState ℝ := ⟨s.h, s.d, (s.L : Int), (s.sub : Int)⟩

/-- the three nested loops of `FIRInterpolator::process` on the zero-filled output: `y[i L + k] = Σ_j px[i + j] * h_[k][j]` -/
theorem interp_loops (s : Interp ℝ) (px : Array ℝ) (nx : ℕ) :
    ((List.range nx).foldl (Gen.firInterpProcess_loop3 (toGenI s) (s.sub : Int) px)
        (Array.replicate (nx * s.L) (0 : ℝ), (0 : Int))).1 =
      tab (nx * s.L) fun o => accN (fun j => elem px (o / s.L + j) * elem (row s.h (o % s.L)) j) s.sub zero := by
  -- innermost loop: one output cell accumulates
  have hj : ∀ (o i k : ℕ) (y : Array ℝ),
      (List.range s.sub).foldl (Gen.firInterpProcess_loop1 (o : Int) px (i : Int) (toGenI s) (k : Int)) y =
        y.setIfInBounds o ((List.range s.sub).foldl (fun v j => v + px.getD (i + j) 0 * (s.h.getD k #[]).getD j 0) (y.getD o 0)) := by
    intro o i k y
    have h1 : (fun (y : Array ℝ) (j : ℕ) => Gen.firInterpProcess_loop1 (o : Int) px (i : Int) (toGenI s) (k : Int) y j) =
        fun y j => y.setIfInBounds o ((fun v j => v + px.getD (i + j) 0 * (s.h.getD k #[]).getD j 0) (y.getD o 0) j) := by
      funext y j
      simp only [Gen.firInterpProcess_loop1, Gen.zeroR, fn_ofInt, Int.cast_zero, Int.ofNat_eq_natCast, toGenI]
      rw [ptrGet_eq 0 y _ o rfl, ptrSet_eq y _ o _ rfl, arrGet_eq 0 px _ (i + j) (by push_cast; rfl), ptrGet_eq #[] s.h _ k rfl,
        arrGet_eq 0 _ _ j rfl]
    rw [show Gen.firInterpProcess_loop1 (o : Int) px (i : Int) (toGenI s) (k : Int) =
      fun y j => Gen.firInterpProcess_loop1 (o : Int) px (i : Int) (toGenI s) (k : Int) y j from rfl, h1]
    exact foldl_acc_cell (0 : ℝ) (fun v j => v + px.getD (i + j) 0 * (s.h.getD k #[]).getD j 0) o _ y
  -- middle loop: the position advances by one per branch
  have hk : ∀ (i : ℕ) (y : Array ℝ) (b : ℕ),
      (List.range s.L).foldl (Gen.firInterpProcess_loop2 (s.sub : Int) px (i : Int) (toGenI s)) (y, (b : Int)) =
        ((List.range s.L).foldl (fun y k => y.setIfInBounds (b + k)
            ((List.range s.sub).foldl (fun v j => v + px.getD (i + j) 0 * (s.h.getD k #[]).getD j 0) (y.getD (b + k) 0))) y,
          ((b + s.L : ℕ) : Int)) := by
    intro i y b
    have h2 : Gen.firInterpProcess_loop2 (s.sub : Int) px (i : Int) (toGenI s) =
        fun (acc : Array ℝ × Int) k => ((fun y (o : Int) (k : ℕ) =>
          (List.range s.sub).foldl (Gen.firInterpProcess_loop1 o px (i : Int) (toGenI s) (k : Int)) y) acc.1 acc.2 k, acc.2 + 1) := by
      funext acc k
      simp only [Gen.firInterpProcess_loop2, Int.ofNat_eq_natCast, Int.toNat_natCast]
    have key := foldl_pair_counter (fun (y : Array ℝ) (o : Int) (k : ℕ) =>
          (List.range s.sub).foldl (Gen.firInterpProcess_loop1 o px (i : Int) (toGenI s) (k : Int)) y) 1 s.L y (b : Int)
    rw [h2]
    refine key.trans (Prod.ext ?_ (by push_cast; ring))
    simp only
    apply foldl_range_congr
    intro y k _
    have : ((b : Int) + (k : Int) * 1) = ((b + k : ℕ) : Int) := by push_cast; ring
    rw [this, hj]
  -- outer loop: the position advances by `interp_` per input sample
  have hi : Gen.firInterpProcess_loop3 (toGenI s) (s.sub : Int) px =
      fun (acc : Array ℝ × Int) i => ((fun y (b : Int) (i : ℕ) =>
        ((List.range s.L).foldl (Gen.firInterpProcess_loop2 (s.sub : Int) px (i : Int) (toGenI s)) (y, b)).1) acc.1 acc.2 i,
        ((List.range s.L).foldl (Gen.firInterpProcess_loop2 (s.sub : Int) px (i : Int) (toGenI s)) (acc.1, acc.2)).2) := by
    funext acc i
    simp only [Gen.firInterpProcess_loop3, Int.ofNat_eq_natCast, toGenI, Int.toNat_natCast]
  -- general form of the outer loop with the position as a natural number
  have hout : ∀ (m : ℕ) (y : Array ℝ),
      (List.range m).foldl (Gen.firInterpProcess_loop3 (toGenI s) (s.sub : Int) px) (y, (0 : Int)) =
        ((List.range m).foldl (fun y i => (List.range s.L).foldl (fun y k => y.setIfInBounds (i * s.L + k)
            ((fun i k v => (List.range s.sub).foldl (fun v j => v + px.getD (i + j) 0 * (s.h.getD k #[]).getD j 0) v) i k
              (y.getD (i * s.L + k) 0))) y) y, ((m * s.L : ℕ) : Int)) := by
    intro m
    induction m with
    | zero => intro y; simp
    | succ m ih =>
      intro y
      rw [List.range_succ, List.foldl_append, List.foldl_append, ih]
      simp only [List.foldl_cons, List.foldl_nil]
      rw [hi]
      simp only
      rw [hk m _ (m * s.L)]
      refine Prod.ext rfl ?_
      simp only
      congr 1
      rw [Nat.succ_mul]
  rw [hout]
  simp only
  obtain ⟨g1, g2⟩ := foldl_cell_grid (0 : ℝ)
    (fun i k v => (List.range s.sub).foldl (fun v j => v + px.getD (i + j) 0 * (s.h.getD k #[]).getD j 0) v) s.L
    (Array.replicate (nx * s.L) (0 : ℝ)) nx
  apply ext_getD (0 : ℝ)
  · rw [g1]; simp [tab]
  · intro o ho
    rw [g1] at ho
    simp only [Array.size_replicate] at ho
    rw [g2 o, if_pos ⟨ho, by simpa using ho⟩, getD_replicate, if_pos ho]
    simp only [tab, getD_ofFn, dif_pos ho, accN, loopN_eq_foldl, elem, row, C08.zero_real]

/-- **bridge, `FIRInterpolator::process`, one frame.**  For every state (any table `h_`, any history, any `interp_`, `sublen_`)
and every frame: the generated `process` — the three `memcpy`s that build `px = d_ | in` and hand the history over, the
three nested loops with the moving output pointer `py` — returns the model's `Interp.process`. -/
theorem firInterpProcess_eq (s : Interp ℝ) (x : Array ℝ) :
    Gen.firInterpProcess (toGenI s) x = .ok (toGenI (s.process x).1, (s.process x).2) := by
  unfold Gen.firInterpProcess
  extract_lets -merge nx nh nd p0 p1a p1 p2a p2 sd self' y0 py0 acc
  have hnx : nx = (x.size : Int) := rfl
  have hnd : nd = (s.d.size : Int) := rfl
  have hp2 : p2 = s.d ++ x := by
    apply concat_copy s.d x p0 p1 p2
    · simp only [p0, hnx, hnd]
    · simp only [p1, p1a, hnd]; rfl
    · simp only [p2, p2a, hnx, hnd]
  have hself : self' = ⟨s.h, (s.d ++ x).extract x.size (x.size + s.d.size), (s.L : Int), (s.sub : Int)⟩ := by
    have ht := tail_copy s.d (s.d ++ x) x.size (by simp)
    simp only [self', sd, hnd, hnx, hp2, toGenI]
    by_cases hd : (s.d.size : Int) > 0
    · rw [if_pos hd] at ht ⊢
      rw [← ht]
    · rw [if_neg hd] at ht ⊢
      rw [← ht]
  have hy0 : y0 = Array.replicate (x.size * s.L) (0 : ℝ) := by
    simp only [y0, hself, hnx]
    rw [arrNew_nat _ (x.size * s.L) _ (by push_cast; rfl)]
    simp only [Gen.zeroR, fn_ofInt, Int.cast_zero]
  have hacc : acc.1 = tab (x.size * s.L) fun o =>
      accN (fun j => elem (s.d ++ x) (o / s.L + j) * elem (row s.h (o % s.L)) j) s.sub zero := by
    have := interp_loops ⟨s.L, s.sub, s.h, (s.d ++ x).extract x.size (x.size + s.d.size)⟩ (s.d ++ x) x.size
    simp only [acc, hy0, py0, hnx, hp2, nh, hself, Int.toNat_natCast]
    simp only [toGenI] at this
    exact this
  show Except.ok (self', acc.1) = _
  rw [hacc, hself]
  simp only [Interp.process, toGenI]

/-! ## `FIRRateConverter::process` -/

/-- the generated state of a model state (`xidxs_` holds `int`s) -/
def toGenRC (s : RateConv ℝ) : Gen.FIRRateConverterState ℝ :=
  ⟨s.h, s.d, (s.L : Int), (s.M : Int), (s.sub : Int), s.xi.map Int.ofNat⟩

theorem xidx_get (xi : Array ℕ) (k : ℕ) : Gen.ptrGet (0 : Int) (xi.map Int.ofNat) (k : Int) = ((xi.getD k 0 : ℕ) : Int) := by
  rw [ptrGet_natCast]
  simp only [Array.getD_eq_getD_getElem?, Array.getElem?_map]
  cases xi[k]? <;> simp

/-- the three nested loops of `FIRRateConverter::process` on the zero-filled output:
`y[i L + k] = Σ_j x[i M + xidxs_[k] + j] * h_[k][j]` -/
theorem rate_loops (s : RateConv ℝ) (xb : Array ℝ) (np : ℕ) :
    ((List.range np).foldl (Gen.firRateProcess_loop3 (toGenRC s) (s.sub : Int) xb)
        (Array.replicate (np * s.L) (0 : ℝ), (0 : Int))).1 =
      tab (np * s.L) fun o =>
        accN (fun j => elem xb (o / s.L * s.M + s.xi.getD (o % s.L) 0 + j) * elem (row s.h (o % s.L)) j) s.sub zero := by
  have hj : ∀ (o i k : ℕ) (y : Array ℝ),
      (List.range s.sub).foldl (Gen.firRateProcess_loop1 (o : Int) xb
          (((i : Int) * (s.M : Int)) + Gen.ptrGet (0 : Int) (s.xi.map Int.ofNat) (k : Int)) (Gen.ptrGet #[] s.h (k : Int))) y =
        y.setIfInBounds o ((List.range s.sub).foldl
          (fun v j => v + xb.getD (i * s.M + s.xi.getD k 0 + j) 0 * (s.h.getD k #[]).getD j 0) (y.getD o 0)) := by
    intro o i k y
    have h1 : (fun (y : Array ℝ) (j : ℕ) => Gen.firRateProcess_loop1 (o : Int) xb
          (((i : Int) * (s.M : Int)) + Gen.ptrGet (0 : Int) (s.xi.map Int.ofNat) (k : Int)) (Gen.ptrGet #[] s.h (k : Int)) y j) =
        fun y j => y.setIfInBounds o ((fun v j => v + xb.getD (i * s.M + s.xi.getD k 0 + j) 0 * (s.h.getD k #[]).getD j 0) (y.getD o 0) j) := by
      funext y j
      simp only [Gen.firRateProcess_loop1, Gen.zeroR, fn_ofInt, Int.cast_zero, Int.ofNat_eq_natCast, xidx_get]
      rw [ptrGet_eq 0 y _ o rfl, ptrSet_eq y _ o _ rfl, ptrGet_eq 0 xb _ (i * s.M + s.xi.getD k 0 + j) (by push_cast; ring),
        ptrGet_eq #[] s.h _ k rfl, arrGet_eq 0 _ _ j rfl]
    rw [show Gen.firRateProcess_loop1 (o : Int) xb
          (((i : Int) * (s.M : Int)) + Gen.ptrGet (0 : Int) (s.xi.map Int.ofNat) (k : Int)) (Gen.ptrGet #[] s.h (k : Int)) =
      fun y j => Gen.firRateProcess_loop1 (o : Int) xb
          (((i : Int) * (s.M : Int)) + Gen.ptrGet (0 : Int) (s.xi.map Int.ofNat) (k : Int)) (Gen.ptrGet #[] s.h (k : Int)) y j from rfl, h1]
    exact foldl_acc_cell (0 : ℝ) (fun v j => v + xb.getD (i * s.M + s.xi.getD k 0 + j) 0 * (s.h.getD k #[]).getD j 0) o _ y
  have hk : ∀ (i : ℕ) (y : Array ℝ) (b : ℕ),
      (List.range s.L).foldl (Gen.firRateProcess_loop2 (toGenRC s) (i : Int) (s.sub : Int) xb) (y, (b : Int)) =
        ((List.range s.L).foldl (fun y k => y.setIfInBounds (b + k)
            ((List.range s.sub).foldl (fun v j => v + xb.getD (i * s.M + s.xi.getD k 0 + j) 0 * (s.h.getD k #[]).getD j 0)
              (y.getD (b + k) 0))) y,
          ((b + s.L : ℕ) : Int)) := by
    intro i y b
    have h2 : Gen.firRateProcess_loop2 (toGenRC s) (i : Int) (s.sub : Int) xb =
        fun (acc : Array ℝ × Int) k => ((fun y (o : Int) (k : ℕ) =>
          (List.range s.sub).foldl (Gen.firRateProcess_loop1 o xb
            (((i : Int) * (s.M : Int)) + Gen.ptrGet (0 : Int) (s.xi.map Int.ofNat) (k : Int)) (Gen.ptrGet #[] s.h (k : Int))) y)
          acc.1 acc.2 k, acc.2 + 1) := by
      funext acc k
      simp only [Gen.firRateProcess_loop2, Int.ofNat_eq_natCast, Int.toNat_natCast, toGenRC]
    have key := foldl_pair_counter (fun (y : Array ℝ) (o : Int) (k : ℕ) =>
          (List.range s.sub).foldl (Gen.firRateProcess_loop1 o xb
            (((i : Int) * (s.M : Int)) + Gen.ptrGet (0 : Int) (s.xi.map Int.ofNat) (k : Int)) (Gen.ptrGet #[] s.h (k : Int))) y) 1 s.L y (b : Int)
    rw [h2]
    refine key.trans (Prod.ext ?_ (by push_cast; ring))
    simp only
    apply foldl_range_congr
    intro y k _
    have : ((b : Int) + (k : Int) * 1) = ((b + k : ℕ) : Int) := by push_cast; ring
    rw [this, hj]
  have hi : Gen.firRateProcess_loop3 (toGenRC s) (s.sub : Int) xb =
      fun (acc : Array ℝ × Int) (i : ℕ) =>
        (((List.range s.L).foldl (Gen.firRateProcess_loop2 (toGenRC s) (i : Int) (s.sub : Int) xb) (acc.1, acc.2)).1,
         ((List.range s.L).foldl (Gen.firRateProcess_loop2 (toGenRC s) (i : Int) (s.sub : Int) xb) (acc.1, acc.2)).2) := by
    funext acc i
    simp only [Gen.firRateProcess_loop3, Int.ofNat_eq_natCast, toGenRC, Int.toNat_natCast]
  have hout : ∀ (m : ℕ) (y : Array ℝ),
      (List.range m).foldl (Gen.firRateProcess_loop3 (toGenRC s) (s.sub : Int) xb) (y, (0 : Int)) =
        ((List.range m).foldl (fun y i => (List.range s.L).foldl (fun y k => y.setIfInBounds (i * s.L + k)
            ((fun i k v => (List.range s.sub).foldl
              (fun v j => v + xb.getD (i * s.M + s.xi.getD k 0 + j) 0 * (s.h.getD k #[]).getD j 0) v) i k
              (y.getD (i * s.L + k) 0))) y) y, ((m * s.L : ℕ) : Int)) := by
    intro m
    induction m with
    | zero => intro y; simp
    | succ m ih =>
      intro y
      rw [List.range_succ, List.foldl_append, List.foldl_append, ih]
      simp only [List.foldl_cons, List.foldl_nil]
      rw [hi]
      simp only
      rw [hk m _ (m * s.L)]
      refine Prod.ext rfl ?_
      simp only
      congr 1
      rw [Nat.succ_mul]
  rw [hout]
  simp only
  obtain ⟨g1, g2⟩ := foldl_cell_grid (0 : ℝ)
    (fun i k v => (List.range s.sub).foldl
      (fun v j => v + xb.getD (i * s.M + s.xi.getD k 0 + j) 0 * (s.h.getD k #[]).getD j 0) v) s.L
    (Array.replicate (np * s.L) (0 : ℝ)) np
  apply ext_getD (0 : ℝ)
  · rw [g1]; simp [tab]
  · intro o ho
    rw [g1] at ho
    simp only [Array.size_replicate] at ho
    rw [g2 o, if_pos ⟨ho, by simpa using ho⟩, getD_replicate, if_pos ho]
    simp only [tab, getD_ofFn, dif_pos ho, accN, loopN_eq_foldl, elem, row, C08.zero_real]

theorem tmod_nat (a b : ℕ) : Int.tmod (a : Int) (b : Int) = ((a % b : ℕ) : Int) := by
  rw [Int.tmod_eq_emod_of_nonneg (by omega)]; simp

theorem tdiv_nat (a b : ℕ) : Int.tdiv (a : Int) (b : Int) = ((a / b : ℕ) : Int) := by
  rw [Int.tdiv_eq_ediv_of_nonneg (by omega)]; simp

/-- **bridge, `FIRRateConverter::process`, one frame.**  For every state and every frame: the generated `process` — the frame
length guard, the history `memcpy`s, the three nested loops with the per-branch input pointer `px = x + i·decim + xidxs_[k]`
and the moving output pointer `py` — is the model's `RateConv.process`: the same exception for a frame whose length is not a
multiple of `decim_`, else the same state and output. -/
theorem firRateProcess_eq (s : RateConv ℝ) (x : Array ℝ) :
    Gen.firRateProcess (toGenRC s) x = (s.process x).map (fun r => (toGenRC r.1, r.2)) := by
  unfold Gen.firRateProcess RateConv.process
  extract_lets -merge nx nh nd p0 p1a p1 p2a p2 sd self' np y0 py0 acc yv pyv buf ym
  have hnx : nx = (x.size : Int) := rfl
  have hnd : nd = (s.d.size : Int) := rfl
  have hdec : (toGenRC s).decim = (s.M : Int) := rfl
  by_cases hm : x.size % s.M = 0
  · have hg : ¬ ¬ (Int.tmod nx (toGenRC s).decim = (0 : Int)) := by
      rw [hnx, hdec, tmod_nat, hm]; simp
    rw [if_neg hg, if_neg (by simpa using hm)]
    have hp2 : p2 = s.d ++ x := by
      apply concat_copy s.d x p0 p1 p2
      · simp only [p0, hnx, hnd]
      · simp only [p1, p1a, hnd]; rfl
      · simp only [p2, p2a, hnx, hnd]
    have hself : self' = ⟨s.h, (s.d ++ x).extract x.size (x.size + s.d.size), (s.L : Int), (s.M : Int), (s.sub : Int),
        s.xi.map Int.ofNat⟩ := by
      have ht := tail_copy s.d (s.d ++ x) x.size (by simp)
      simp only [self', sd, hnd, hnx, hp2, toGenRC]
      by_cases hd : (s.d.size : Int) > 0
      · rw [if_pos hd] at ht ⊢
        rw [← ht]
      · rw [if_neg hd] at ht ⊢
        rw [← ht]
    have hnp : np = ((x.size / s.M : ℕ) : Int) := by
      simp only [np, hself, hnx]; exact tdiv_nat _ _
    have hy0 : y0 = Array.replicate (x.size / s.M * s.L) (0 : ℝ) := by
      simp only [y0, hnp, hself]
      rw [arrNew_nat _ (x.size / s.M * s.L) _ (by push_cast; rfl)]
      simp only [Gen.zeroR, fn_ofInt, Int.cast_zero]
    have hacc : acc.1 = tab (x.size / s.M * s.L) fun o =>
        accN (fun j => elem (s.d ++ x) (o / s.L * s.M + s.xi.getD (o % s.L) 0 + j) * elem (row s.h (o % s.L)) j) s.sub zero := by
      have := rate_loops ⟨s.L, s.M, s.sub, s.h, s.xi, (s.d ++ x).extract x.size (x.size + s.d.size)⟩ (s.d ++ x) (x.size / s.M)
      simp only [acc, hy0, py0, hnp, hp2, nh, hself, Int.toNat_natCast]
      simp only [toGenRC] at this
      exact this
    show Except.ok (self', acc.1) = _
    rw [hacc, hself]
    simp only [Except.map, toGenRC, ym, buf]
  · have hg : ¬ (Int.tmod nx (toGenRC s).decim = (0 : Int)) := by
      rw [hnx, hdec, tmod_nat]; omega
    rw [if_pos hg, if_pos (by simpa using hm)]
    rfl

/-! ## `FIRDecimator::process` -/

def toGenD (s : Decim ℝ) : Gen.FIRDecimatorState ℝ := ⟨s.h, s.d, (s.M : Int), (s.sub : Int)⟩

/-- the three nested loops of `FIRDecimator::process` on the zero-filled output of length `ny`:
`y[i] = Σ_k Σ_j x[i M + k + j M] * h_[k][j]` (k outer, j inner; `px` advances by `decim_` per output, `idx` by `decim_` per tap) -/
theorem decim_loops (s : Decim ℝ) (xb : Array ℝ) (ny : ℕ) :
    ((List.range ny).foldl (Gen.firDecimProcess_loop3 (toGenD s) xb) (Array.replicate ny (0 : ℝ), (0 : Int))).1 =
      tab ny fun i =>
        loopN (fun k a => accN (fun j => elem xb (i * s.M + k + j * s.M) * elem (row s.h k) j) s.sub a) s.M zero := by
  -- innermost loop: cell `i` accumulates, `idx` is an arithmetic progression
  have hj : ∀ (i k p : ℕ) (y : Array ℝ),
      ((List.range s.sub).foldl (Gen.firDecimProcess_loop1 (i : Int) xb (p : Int) (Gen.ptrGet #[] s.h (k : Int)) (toGenD s))
          (y, (k : Int))).1 =
        y.setIfInBounds i ((List.range s.sub).foldl
          (fun v j => v + xb.getD (p + k + j * s.M) 0 * (s.h.getD k #[]).getD j 0) (y.getD i 0)) := by
    intro i k p y
    have h1 : Gen.firDecimProcess_loop1 (i : Int) xb (p : Int) (Gen.ptrGet #[] s.h (k : Int)) (toGenD s) =
        fun (acc : Array ℝ × Int) (j : ℕ) => ((fun (y : Array ℝ) (idx : Int) (j : ℕ) =>
          Gen.arrSet y (i : Int) (Gen.arrGet (0 : ℝ) y (i : Int) + Gen.ptrGet (0 : ℝ) xb ((p : Int) + idx) *
            Gen.arrGet (0 : ℝ) (Gen.ptrGet #[] s.h (k : Int)) (j : Int))) acc.1 acc.2 j, acc.2 + (s.M : Int)) := by
      funext acc j
      simp only [Gen.firDecimProcess_loop1, Gen.zeroR, fn_ofInt, Int.cast_zero, Int.ofNat_eq_natCast, toGenD]
    have key := foldl_pair_counter (fun (y : Array ℝ) (idx : Int) (j : ℕ) =>
          Gen.arrSet y (i : Int) (Gen.arrGet (0 : ℝ) y (i : Int) + Gen.ptrGet (0 : ℝ) xb ((p : Int) + idx) *
            Gen.arrGet (0 : ℝ) (Gen.ptrGet #[] s.h (k : Int)) (j : Int))) (s.M : Int) s.sub y (k : Int)
    rw [h1, key]
    simp only
    have h2 : (fun (y : Array ℝ) (j : ℕ) => Gen.arrSet y (i : Int) (Gen.arrGet (0 : ℝ) y (i : Int) +
          Gen.ptrGet (0 : ℝ) xb ((p : Int) + ((k : Int) + (j : Int) * (s.M : Int))) *
            Gen.arrGet (0 : ℝ) (Gen.ptrGet #[] s.h (k : Int)) (j : Int))) =
        fun y j => y.setIfInBounds i ((fun v j => v + xb.getD (p + k + j * s.M) 0 * (s.h.getD k #[]).getD j 0) (y.getD i 0) j) := by
      funext y j
      rw [arrGet_eq 0 y _ i rfl, arrSet_eq y _ i _ rfl, ptrGet_eq 0 xb _ (p + k + j * s.M) (by push_cast; ring),
        ptrGet_eq #[] s.h _ k rfl, arrGet_eq 0 _ _ j rfl]
    rw [h2]
    exact foldl_acc_cell (0 : ℝ) (fun v j => v + xb.getD (p + k + j * s.M) 0 * (s.h.getD k #[]).getD j 0) i _ y
  -- middle loop: cell `i` keeps accumulating over the branches
  have hk : ∀ (i p : ℕ) (y : Array ℝ),
      (List.range s.M).foldl (Gen.firDecimProcess_loop2 (toGenD s) (i : Int) xb (p : Int)) y =
        y.setIfInBounds i ((List.range s.M).foldl (fun v k => (List.range s.sub).foldl
          (fun v j => v + xb.getD (p + k + j * s.M) 0 * (s.h.getD k #[]).getD j 0) v) (y.getD i 0)) := by
    intro i p y
    have h3 : (fun (y : Array ℝ) (k : ℕ) => Gen.firDecimProcess_loop2 (toGenD s) (i : Int) xb (p : Int) y k) =
        fun y k => y.setIfInBounds i ((fun v k => (List.range s.sub).foldl
          (fun v j => v + xb.getD (p + k + j * s.M) 0 * (s.h.getD k #[]).getD j 0) v) (y.getD i 0) k) := by
      funext y k
      have := hj i k p y
      simp only [Gen.firDecimProcess_loop2, Int.ofNat_eq_natCast, toGenD, Int.toNat_natCast]
      simp only [toGenD] at this
      exact this
    rw [show Gen.firDecimProcess_loop2 (toGenD s) (i : Int) xb (p : Int) =
      fun y k => Gen.firDecimProcess_loop2 (toGenD s) (i : Int) xb (p : Int) y k from rfl, h3]
    exact foldl_acc_cell (0 : ℝ) (fun v k => (List.range s.sub).foldl
          (fun v j => v + xb.getD (p + k + j * s.M) 0 * (s.h.getD k #[]).getD j 0) v) i _ y
  -- outer loop: `px` advances by `decim_` per output sample
  have hi : Gen.firDecimProcess_loop3 (toGenD s) xb =
      fun (acc : Array ℝ × Int) (i : ℕ) => ((fun (y : Array ℝ) (p : Int) (i : ℕ) =>
        (List.range s.M).foldl (Gen.firDecimProcess_loop2 (toGenD s) (i : Int) xb p) y) acc.1 acc.2 i, acc.2 + (s.M : Int)) := by
    funext acc i
    simp only [Gen.firDecimProcess_loop3, Int.ofNat_eq_natCast, toGenD, Int.toNat_natCast]
  have key := foldl_pair_counter (fun (y : Array ℝ) (p : Int) (i : ℕ) =>
        (List.range s.M).foldl (Gen.firDecimProcess_loop2 (toGenD s) (i : Int) xb p) y) (s.M : Int) ny
        (Array.replicate ny (0 : ℝ)) (0 : Int)
  rw [hi, key]
  simp only
  have h4 : (fun (y : Array ℝ) (i : ℕ) =>
        (List.range s.M).foldl (Gen.firDecimProcess_loop2 (toGenD s) (i : Int) xb ((0 : Int) + (i : Int) * (s.M : Int))) y) =
      fun y i => y.setIfInBounds i ((fun v i => (List.range s.M).foldl (fun v k => (List.range s.sub).foldl
          (fun v j => v + xb.getD (i * s.M + k + j * s.M) 0 * (s.h.getD k #[]).getD j 0) v) v) (y.getD i 0) i) := by
    funext y i
    have : ((0 : Int) + (i : Int) * (s.M : Int)) = ((i * s.M : ℕ) : Int) := by push_cast; ring
    rw [this, hk]
  rw [h4, foldl_set_eq_ofFn (0 : ℝ) (fun v i => (List.range s.M).foldl (fun v k => (List.range s.sub).foldl
          (fun v j => v + xb.getD (i * s.M + k + j * s.M) 0 * (s.h.getD k #[]).getD j 0) v) v) ny _ (by simp)]
  apply ext_getD (0 : ℝ)
  · simp [tab]
  · intro i hi'
    simp only [Array.size_ofFn] at hi'
    simp only [tab, getD_ofFn, dif_pos hi', getD_replicate, if_pos hi', accN, loopN_eq_foldl, elem, row, C08.zero_real]

/-- **bridge, `FIRDecimator::process`, one frame** (as `firRateProcess_eq`): same exception for a frame whose length is not a
multiple of `decim_`, else the model's state and output -/
theorem firDecimProcess_eq (s : Decim ℝ) (x : Array ℝ) :
    Gen.firDecimProcess (toGenD s) x = (s.process x).map (fun r => (toGenD r.1, r.2)) := by
  unfold Gen.firDecimProcess Decim.process
  extract_lets -merge nx nd p0 p1a p1 p2a p2 sd self' y0 px0 acc yv pxv buf ym
  have hnx : nx = (x.size : Int) := rfl
  have hnd : nd = (s.d.size : Int) := rfl
  have hdec : (toGenD s).decim = (s.M : Int) := rfl
  by_cases hm : x.size % s.M = 0
  · have hg : ¬ ¬ (Int.tmod nx (toGenD s).decim = (0 : Int)) := by
      rw [hnx, hdec, tmod_nat, hm]; simp
    rw [if_neg hg, if_neg (by simpa using hm)]
    have hp2 : p2 = s.d ++ x := by
      apply concat_copy s.d x p0 p1 p2
      · simp only [p0, hnx, hnd]
      · simp only [p1, p1a, hnd]; rfl
      · simp only [p2, p2a, hnx, hnd]
    have hself : self' = ⟨s.h, (s.d ++ x).extract x.size (x.size + s.d.size), (s.M : Int), (s.sub : Int)⟩ := by
      have ht := tail_copy s.d (s.d ++ x) x.size (by simp)
      simp only [self', sd, hnd, hnx, hp2, toGenD]
      by_cases hd : (s.d.size : Int) > 0
      · rw [if_pos hd] at ht ⊢
        rw [← ht]
      · rw [if_neg hd] at ht ⊢
        rw [← ht]
    have hy0 : y0 = Array.replicate (x.size / s.M) (0 : ℝ) := by
      simp only [y0, hself, hnx]
      rw [arrNew_nat _ (x.size / s.M) _ (tdiv_nat _ _)]
      simp only [Gen.zeroR, fn_ofInt, Int.cast_zero]
    have hacc : acc.1 = tab (x.size / s.M) fun i =>
        loopN (fun k a => accN (fun j => elem (s.d ++ x) (i * s.M + k + j * s.M) * elem (row s.h k) j) s.sub a) s.M zero := by
      have := decim_loops ⟨s.M, s.sub, s.h, (s.d ++ x).extract x.size (x.size + s.d.size)⟩ (s.d ++ x) (x.size / s.M)
      simp only [acc, hy0, px0, hp2, hself, Gen.arrSize, Array.size_replicate, Int.ofNat_eq_natCast, Int.toNat_natCast]
      simp only [toGenD] at this
      exact this
    show Except.ok (self', acc.1) = _
    rw [hacc, hself]
    simp only [Except.map, toGenD, ym, buf]
  · have hg : ¬ (Int.tmod nx (toGenD s).decim = (0 : Int)) := by
      rw [hnx, hdec, tmod_nat]; omega
    rw [if_pos hg, if_pos (by simpa using hm)]
    rfl

/-! ## what the existing theorems of C08 say about the generated code -/

/-- **T08 (decimator) transported:** the generated `FIRDecimator::process` rejects exactly the frames whose length is not a
multiple of the decimation factor, and otherwise returns `len / M` samples -/
theorem gen_decim_len (s : Decim ℝ) (x : Array ℝ) :
    (x.size % s.M ≠ 0 → ∃ e, Gen.firDecimProcess (toGenD s) x = .error e) ∧
    (x.size % s.M = 0 → ∃ st y, Gen.firDecimProcess (toGenD s) x = .ok (st, y) ∧ y.size = x.size / s.M) := by
  rw [firDecimProcess_eq]
  constructor
  · intro h
    obtain ⟨e, he⟩ := C08.decim_reject s x h
    exact ⟨e, by rw [he]; rfl⟩
  · intro h
    unfold Decim.process
    rw [if_neg (by simpa using h)]
    exact ⟨_, _, rfl, by simp [tab]⟩

/-- **T08 (interpolator) transported:** the generated `FIRInterpolator::process` never throws and returns `len · L` samples -/
theorem gen_interp_len (s : Interp ℝ) (x : Array ℝ) :
    ∃ st y, Gen.firInterpProcess (toGenI s) x = .ok (st, y) ∧ y.size = x.size * s.L :=
  ⟨_, _, firInterpProcess_eq s x, C08.interp_len s x⟩

/-- **T08.2 transported to the regenerated code:** every call of the GENERATED `FIRInterpolator::process`, after any
history `past`, returns exactly the next `|x|·L` samples of the textbook chain (zero-stuff by `L`, filter with `h` normalised to
DC gain `L`) and leaves the object in the state "has consumed `past ++ x`" -/
theorem gen_interp_eq (L : ℕ) (hL : 0 < L) (h : Array ℝ) (hh : 0 < h.size) (hs : C08.hsum h ≠ 0) (past x : Array ℝ) :
    Gen.firInterpProcess (toGenI (C08.interpAt L h past)) x =
      .ok (toGenI (C08.interpAt L h (past ++ x)),
        tab (x.size * L) fun o => C08.upfir L h (past ++ x) (past.size * L + o)) := by
  rw [firInterpProcess_eq, C08.interp_eq L hL h hh hs past x]

/-- **T08.3 transported:** the GENERATED `FIRDecimator::process` on a frame whose length is a multiple of `M`, after any
history: the next `|x|/M` samples of "filter with the (padded, flipped) taps, keep every `M`-th" -/
theorem gen_decim_eq (M : ℕ) (hM : 0 < M) (h : Array ℝ) (hh : 0 < h.size) (hs : C08.hsum h ≠ 0)
    (past x : Array ℝ) (hx : x.size % M = 0) :
    Gen.firDecimProcess (toGenD (C08.decimAt M h past)) x =
      .ok (toGenD (C08.decimAt M h (past ++ x)),
        tab (x.size / M) fun i =>
          C08.fir (paddedLen h.size M) (C08.hflip h M) (elem (past ++ x)) (past.size + i * M + (M - 1))) := by
  rw [firDecimProcess_eq, C08.decim_eq M hM h hh hs past x hx]
  rfl

/-- **T08.5 transported:** the GENERATED `FIRRateConverter::process` (frames and history multiples of `M`): the next
`|x|/M·L` samples of zero-stuff by `L`, filter, keep every `M`-th -/
theorem gen_rateconv_eq (L M : ℕ) (hL : 0 < L) (hM : 0 < M) (h : Array ℝ) (hh : 0 < h.size) (hs : C08.hsum h ≠ 0)
    (past x : Array ℝ) (hP : past.size % M = 0) (hx : x.size % M = 0) :
    Gen.firRateProcess (toGenRC (C08.rateAt L M h past)) x =
      .ok (toGenRC (C08.rateAt L M h (past ++ x)),
        tab (x.size / M * L) fun o => C08.upfir L h (past ++ x) ((past.size / M * L + o + 1) * M - 1)) := by
  rw [firRateProcess_eq, C08.rateconv_eq L M hL hM h hh hs past x hP hx]
  rfl

end
end Dsp.C08Gen
