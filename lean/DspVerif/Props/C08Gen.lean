import DspVerif.Props.C08
import DspVerif.Gen.StepsResample
import DspVerif.Gen.CtorResample
import DspVerif.Lib.RealFn
import DspVerif.Lib.GenBridge
/-!
# C08 — bridge: the hand-written polyphase converter models ARE the regenerated `process` functions

`Gen/StepsResample.lean` is written by `tools/cxx2lean.py` on every check run from `lib/resample/fir-decimator.cpp`,
`fir-interpolator.cpp`, `fir-rate-converter.cpp` (members from include/dsplib/resample.h, C++ types checked:
`std::vector<arr_real> h_`, `arr_real d_`, `int decim_ / interp_ / sublen_`, `std::vector<int> xidxs_`): the whole
frame-level `process` of the three classes —
* the throwing guard `DSPLIB_ASSERT(nx % decim_ == 0, …)` (decimator, rate converter; the generated functions are `Except`-valued),
* the history concatenation `x = d_ | in` and hand-over by three `std::memcpy`s (`arrCopy` of `Gen/StepsArray.lean`, index
  arithmetic explicit),
* the three nested loops, with the raw pointers as (array, `Int` offset) pairs: `px += decim_`, `++py`, `*py += …`,
  `const auto* px = x.data() + i * decim_ + xidxs_[k]`, the second loop variable `idx += decim_`, `h_[k][j]`.

Proved here over ℝ, for EVERY state (any coefficient table, any history, any rates) and every frame:
`firInterpProcess_eq`, `firDecimProcess_eq`, `firRateProcess_eq` — generated `process` of a frame = model `process` of the
frame (`Model/Resample.lean`), including the rejection of frames whose length is not a multiple of `decim_`; and the
headline theorems of `Props/C08.lean` transported to the generated code: `gen_interp_eq` (T08.2), `gen_decim_eq` (T08.3),
`gen_rateconv_eq` (T08.5), `gen_decim_len`, `gen_interp_len`.
-/
namespace Dsp.C08Gen
open Dsp Dsp.Resample Dsp.GenBridge

set_option linter.unusedSectionVars false
set_option linter.unusedSimpArgs false
set_option linter.unusedVariables false

theorem loopN_eq_foldl {σ : Type} (step : Nat → σ → σ) (n : Nat) (s : σ) :
    loopN step n s = (List.range n).foldl (fun s k => step k s) s := by
  induction n with
  | zero => rfl
  | succ n ih => simp [loopN, ih, List.range_succ]

noncomputable section

theorem getD_append' (d inp : Array ℝ) (j : ℕ) :
    (d ++ inp).getD j 0 = if j < d.size then d.getD j 0 else inp.getD (j - d.size) 0 := by
  simp only [Array.getD_eq_getD_getElem?, Array.getElem?_append]
  split <;> rfl

/-- the history buffer built by the first two `memcpy`s: `x = d_ | in` -/
theorem concat_copy (d inp : Array ℝ) (x0 x1 x2 : Array ℝ)
    (h0 : x0 = Gen.arrNew (Gen.zeroR : ℝ) ((d.size : Int) + (inp.size : Int)))
    (h1 : x1 = if (d.size : Int) > 0 then Gen.arrCopy x0 0 d 0 (d.size : Int) else x0)
    (h2 : x2 = if (inp.size : Int) > 0 then Gen.arrCopy x1 (d.size : Int) inp 0 (inp.size : Int) else x1) :
    x2 = d ++ inp := by
  have e0 : x0 = Array.replicate (d.size + inp.size) 0 := by
    rw [h0, arrNew_nat _ (d.size + inp.size) _ (by push_cast; rfl)]; simp [Gen.zeroR]
  have s0 : x0.size = d.size + inp.size := by rw [e0]; simp
  have s1 : x1.size = d.size + inp.size := by rw [h1]; split <;> simp [s0]
  have s2 : x2.size = d.size + inp.size := by rw [h2]; split <;> simp [s1]
  have g0 : ∀ j, x0.getD j 0 = 0 := by
    intro j; rw [e0, getD_replicate]; split <;> rfl
  have g1 : ∀ j, j < d.size + inp.size → x1.getD j 0 = if j < d.size then d.getD j 0 else 0 := by
    intro j hj
    rw [h1]
    split
    · rw [arrCopy_getD_eq x0 d 0 0 0 0 _ j 0 (by omega) rfl rfl, g0]
      by_cases hjd : j < d.size
      · rw [if_pos ⟨by omega, by omega⟩, if_pos hjd]; simp [getD_of_lt d j _ hjd]
      · rw [if_neg (by omega), if_neg hjd]
    · rw [g0, if_neg (by omega)]
  apply ext_getD (0 : ℝ)
  · rw [s2]; simp
  · intro j hj
    rw [s2] at hj
    rw [getD_append', h2]
    split
    · rw [arrCopy_getD_eq x1 inp _ 0 d.size 0 _ j 0 (by omega) rfl rfl, g1 j hj]
      by_cases hjd : j < d.size
      · rw [if_neg (by omega), if_pos hjd, if_pos hjd]
      · rw [if_pos ⟨by omega, by omega⟩, if_neg hjd, if_neg hjd]
        have hlt : j - d.size < inp.size := by omega
        simp [getD_of_lt inp _ _ hlt]
    · rw [g1 j hj]
      by_cases hjd : j < d.size
      · rw [if_pos hjd, if_pos hjd]
      · omega

/-- the third `memcpy`: the new history is the tail of the buffer -/
theorem tail_copy (d x : Array ℝ) (nx : ℕ) (hx : x.size = d.size + nx) :
    (if (d.size : Int) > 0 then Gen.arrCopy d 0 x (nx : Int) (d.size : Int) else d) = x.extract nx (nx + d.size) := by
  apply ext_getD (0 : ℝ)
  · split <;> simp [hx] <;> omega
  · intro j hj
    have hj' : j < d.size := by revert hj; split <;> simp
    have hR : (x.extract nx (nx + d.size)).getD j 0 = x.getD (nx + j) 0 := by
      simp only [Array.getD_eq_getD_getElem?, Array.getElem?_extract]
      rw [if_pos (by omega)]
    rw [hR]
    split
    · rw [arrCopy_getD_eq d x 0 _ 0 nx _ j 0 hj' rfl rfl, if_pos ⟨by omega, by omega⟩]
      have : j - 0 + nx = nx + j := by omega
      rw [this]
      simp [getD_of_lt x (nx + j) _ (by omega)]
    · omega

/-! ## `FIRInterpolator::process` -/

/-- the generated state of a model state -/
def toGenI (s : Interp ℝ) : Gen.FIRInterpolatorState ℝ := ⟨s.h, s.d, (s.L : Int), (s.sub : Int)⟩

/-- the three nested loops of `FIRInterpolator::process` on the zero-filled output: `y[i L + k] = Σ_j px[i + j] * h_[k][j]` -/
theorem interp_loops (s : Interp ℝ) (px : Array ℝ) (nx : ℕ) :
    ((List.range nx).foldl (Gen.firInterpProcess_loop3 (toGenI s) (s.sub : Int) px)
        (Array.replicate (nx * s.L) (0 : ℝ), (0 : Int))).1 =
      tab (nx * s.L) fun o => accN (fun j => elem px (o / s.L + j) * elem (row s.h (o % s.L)) j) s.sub zero := by
  -- innermost loop: one output cell accumulates
  have hj : ∀ (o i k : ℕ) (y : Array ℝ),
      (List.range s.sub).foldl (Gen.firInterpProcess_loop1 (o : Int) px (i : Int) (toGenI s) (k : Int)) y =
        y.setIfInBounds o ((List.range s.sub).foldl (fun v j => v + px.getD (i + j) 0 * (s.h.getD k #[]).getD j 0) (y.getD o 0)) := by
    intro o i k y
    have h1 : (fun (y : Array ℝ) (j : ℕ) => Gen.firInterpProcess_loop1 (o : Int) px (i : Int) (toGenI s) (k : Int) y j) =
        fun y j => y.setIfInBounds o ((fun v j => v + px.getD (i + j) 0 * (s.h.getD k #[]).getD j 0) (y.getD o 0) j) := by
      funext y j
      simp only [Gen.firInterpProcess_loop1, Gen.zeroR, fn_ofInt, Int.cast_zero, Int.ofNat_eq_natCast, toGenI]
      rw [ptrGet_eq 0 y _ o rfl, ptrSet_eq y _ o _ rfl, arrGet_eq 0 px _ (i + j) (by push_cast; rfl), ptrGet_eq #[] s.h _ k rfl,
        arrGet_eq 0 _ _ j rfl]
    rw [show Gen.firInterpProcess_loop1 (o : Int) px (i : Int) (toGenI s) (k : Int) =
      fun y j => Gen.firInterpProcess_loop1 (o : Int) px (i : Int) (toGenI s) (k : Int) y j from rfl, h1]
    exact foldl_acc_cell (0 : ℝ) (fun v j => v + px.getD (i + j) 0 * (s.h.getD k #[]).getD j 0) o _ y
  -- middle loop: the position advances by one per branch
  have hk : ∀ (i : ℕ) (y : Array ℝ) (b : ℕ),
      (List.range s.L).foldl (Gen.firInterpProcess_loop2 (s.sub : Int) px (i : Int) (toGenI s)) (y, (b : Int)) =
        ((List.range s.L).foldl (fun y k => y.setIfInBounds (b + k)
            ((List.range s.sub).foldl (fun v j => v + px.getD (i + j) 0 * (s.h.getD k #[]).getD j 0) (y.getD (b + k) 0))) y,
          ((b + s.L : ℕ) : Int)) := by
    intro i y b
    have h2 : Gen.firInterpProcess_loop2 (s.sub : Int) px (i : Int) (toGenI s) =
        fun (acc : Array ℝ × Int) k => ((fun y (o : Int) (k : ℕ) =>
          (List.range s.sub).foldl (Gen.firInterpProcess_loop1 o px (i : Int) (toGenI s) (k : Int)) y) acc.1 acc.2 k, acc.2 + 1) := by
      funext acc k
      simp only [Gen.firInterpProcess_loop2, Int.ofNat_eq_natCast, Int.toNat_natCast]
    have key := foldl_pair_counter (fun (y : Array ℝ) (o : Int) (k : ℕ) =>
          (List.range s.sub).foldl (Gen.firInterpProcess_loop1 o px (i : Int) (toGenI s) (k : Int)) y) 1 s.L y (b : Int)
    rw [h2]
    refine key.trans (Prod.ext ?_ (by push_cast; ring))
    simp only
    apply foldl_range_congr
    intro y k _
    have : ((b : Int) + (k : Int) * 1) = ((b + k : ℕ) : Int) := by push_cast; ring
    rw [this, hj]
  -- outer loop: the position advances by `interp_` per input sample
  have hi : Gen.firInterpProcess_loop3 (toGenI s) (s.sub : Int) px =
      fun (acc : Array ℝ × Int) i => ((fun y (b : Int) (i : ℕ) =>
        ((List.range s.L).foldl (Gen.firInterpProcess_loop2 (s.sub : Int) px (i : Int) (toGenI s)) (y, b)).1) acc.1 acc.2 i,
        ((List.range s.L).foldl (Gen.firInterpProcess_loop2 (s.sub : Int) px (i : Int) (toGenI s)) (acc.1, acc.2)).2) := by
    funext acc i
    simp only [Gen.firInterpProcess_loop3, Int.ofNat_eq_natCast, toGenI, Int.toNat_natCast]
  -- general form of the outer loop with the position as a natural number
  have hout : ∀ (m : ℕ) (y : Array ℝ),
      (List.range m).foldl (Gen.firInterpProcess_loop3 (toGenI s) (s.sub : Int) px) (y, (0 : Int)) =
        ((List.range m).foldl (fun y i => (List.range s.L).foldl (fun y k => y.setIfInBounds (i * s.L + k)
            ((fun i k v => (List.range s.sub).foldl (fun v j => v + px.getD (i + j) 0 * (s.h.getD k #[]).getD j 0) v) i k
              (y.getD (i * s.L + k) 0))) y) y, ((m * s.L : ℕ) : Int)) := by
    intro m
    induction m with
    | zero => intro y; simp
    | succ m ih =>
      intro y
      rw [List.range_succ, List.foldl_append, List.foldl_append, ih]
      simp only [List.foldl_cons, List.foldl_nil]
      rw [hi]
      simp only
      rw [hk m _ (m * s.L)]
      refine Prod.ext rfl ?_
      simp only
      congr 1
      rw [Nat.succ_mul]
  rw [hout]
  simp only
  obtain ⟨g1, g2⟩ := foldl_cell_grid (0 : ℝ)
    (fun i k v => (List.range s.sub).foldl (fun v j => v + px.getD (i + j) 0 * (s.h.getD k #[]).getD j 0) v) s.L
    (Array.replicate (nx * s.L) (0 : ℝ)) nx
  apply ext_getD (0 : ℝ)
  · rw [g1]; simp [tab]
  · intro o ho
    rw [g1] at ho
    simp only [Array.size_replicate] at ho
    rw [g2 o, if_pos ⟨ho, by simpa using ho⟩, getD_replicate, if_pos ho]
    simp only [tab, getD_ofFn, dif_pos ho, accN, loopN_eq_foldl, elem, row, C08.zero_real]

/-- **bridge, `FIRInterpolator::process`, one frame.**  For every state (any table `h_`, any history, any `interp_`, `sublen_`)
and every frame: the generated `process` — the three `memcpy`s that build `px = d_ | in` and hand the history over, the
three nested loops with the moving output pointer `py` — returns the model's `Interp.process`. -/
theorem firInterpProcess_eq (s : Interp ℝ) (x : Array ℝ) :
    Gen.firInterpProcess (toGenI s) x = .ok (toGenI (s.process x).1, (s.process x).2) := by
  unfold Gen.firInterpProcess
  extract_lets -merge nx nh nd p0 p1a p1 p2a p2 sd self' y0 py0 acc
  have hnx : nx = (x.size : Int) := rfl
  have hnd : nd = (s.d.size : Int) := rfl
  have hp2 : p2 = s.d ++ x := by
    apply concat_copy s.d x p0 p1 p2
    · simp only [p0, hnx, hnd]
    · simp only [p1, p1a, hnd]; rfl
    · simp only [p2, p2a, hnx, hnd]
  have hself : self' = ⟨s.h, (s.d ++ x).extract x.size (x.size + s.d.size), (s.L : Int), (s.sub : Int)⟩ := by
    have ht := tail_copy s.d (s.d ++ x) x.size (by simp)
    simp only [self', sd, hnd, hnx, hp2, toGenI]
    by_cases hd : (s.d.size : Int) > 0
    · rw [if_pos hd] at ht ⊢
      rw [← ht]
    · rw [if_neg hd] at ht ⊢
      rw [← ht]
  have hy0 : y0 = Array.replicate (x.size * s.L) (0 : ℝ) := by
    simp only [y0, hself, hnx]
    rw [arrNew_nat _ (x.size * s.L) _ (by push_cast; rfl)]
    simp only [Gen.zeroR, fn_ofInt, Int.cast_zero]
  have hacc : acc.1 = tab (x.size * s.L) fun o =>
      accN (fun j => elem (s.d ++ x) (o / s.L + j) * elem (row s.h (o % s.L)) j) s.sub zero := by
    have := interp_loops ⟨s.L, s.sub, s.h, (s.d ++ x).extract x.size (x.size + s.d.size)⟩ (s.d ++ x) x.size
    simp only [acc, hy0, py0, hnx, hp2, nh, hself, Int.toNat_natCast]
    simp only [toGenI] at this
    exact this
  show Except.ok (self', acc.1) = _
  rw [hacc, hself]
  simp only [Interp.process, toGenI]

/-! ## `FIRRateConverter::process` -/

/-- the generated state of a model state (`xidxs_` holds `int`s) -/
def toGenRC (s : RateConv ℝ) : Gen.FIRRateConverterState ℝ :=
  ⟨s.h, s.d, (s.L : Int), (s.M : Int), (s.sub : Int), s.xi.map Int.ofNat⟩

theorem xidx_get (xi : Array ℕ) (k : ℕ) : Gen.ptrGet (0 : Int) (xi.map Int.ofNat) (k : Int) = ((xi.getD k 0 : ℕ) : Int) := by
  rw [ptrGet_natCast]
  simp only [Array.getD_eq_getD_getElem?, Array.getElem?_map]
  cases xi[k]? <;> simp

/-- the three nested loops of `FIRRateConverter::process` on the zero-filled output:
`y[i L + k] = Σ_j x[i M + xidxs_[k] + j] * h_[k][j]` -/
theorem rate_loops (s : RateConv ℝ) (xb : Array ℝ) (np : ℕ) :
    ((List.range np).foldl (Gen.firRateProcess_loop3 (toGenRC s) (s.sub : Int) xb)
        (Array.replicate (np * s.L) (0 : ℝ), (0 : Int))).1 =
      tab (np * s.L) fun o =>
        accN (fun j => elem xb (o / s.L * s.M + s.xi.getD (o % s.L) 0 + j) * elem (row s.h (o % s.L)) j) s.sub zero := by
  have hj : ∀ (o i k : ℕ) (y : Array ℝ),
      (List.range s.sub).foldl (Gen.firRateProcess_loop1 (o : Int) xb
          (((i : Int) * (s.M : Int)) + Gen.ptrGet (0 : Int) (s.xi.map Int.ofNat) (k : Int)) (Gen.ptrGet #[] s.h (k : Int))) y =
        y.setIfInBounds o ((List.range s.sub).foldl
          (fun v j => v + xb.getD (i * s.M + s.xi.getD k 0 + j) 0 * (s.h.getD k #[]).getD j 0) (y.getD o 0)) := by
    intro o i k y
    have h1 : (fun (y : Array ℝ) (j : ℕ) => Gen.firRateProcess_loop1 (o : Int) xb
          (((i : Int) * (s.M : Int)) + Gen.ptrGet (0 : Int) (s.xi.map Int.ofNat) (k : Int)) (Gen.ptrGet #[] s.h (k : Int)) y j) =
        fun y j => y.setIfInBounds o ((fun v j => v + xb.getD (i * s.M + s.xi.getD k 0 + j) 0 * (s.h.getD k #[]).getD j 0) (y.getD o 0) j) := by
      funext y j
      simp only [Gen.firRateProcess_loop1, Gen.zeroR, fn_ofInt, Int.cast_zero, Int.ofNat_eq_natCast, xidx_get]
      rw [ptrGet_eq 0 y _ o rfl, ptrSet_eq y _ o _ rfl, ptrGet_eq 0 xb _ (i * s.M + s.xi.getD k 0 + j) (by push_cast; ring),
        ptrGet_eq #[] s.h _ k rfl, arrGet_eq 0 _ _ j rfl]
    rw [show Gen.firRateProcess_loop1 (o : Int) xb
          (((i : Int) * (s.M : Int)) + Gen.ptrGet (0 : Int) (s.xi.map Int.ofNat) (k : Int)) (Gen.ptrGet #[] s.h (k : Int)) =
      fun y j => Gen.firRateProcess_loop1 (o : Int) xb
          (((i : Int) * (s.M : Int)) + Gen.ptrGet (0 : Int) (s.xi.map Int.ofNat) (k : Int)) (Gen.ptrGet #[] s.h (k : Int)) y j from rfl, h1]
    exact foldl_acc_cell (0 : ℝ) (fun v j => v + xb.getD (i * s.M + s.xi.getD k 0 + j) 0 * (s.h.getD k #[]).getD j 0) o _ y
  have hk : ∀ (i : ℕ) (y : Array ℝ) (b : ℕ),
      (List.range s.L).foldl (Gen.firRateProcess_loop2 (toGenRC s) (i : Int) (s.sub : Int) xb) (y, (b : Int)) =
        ((List.range s.L).foldl (fun y k => y.setIfInBounds (b + k)
            ((List.range s.sub).foldl (fun v j => v + xb.getD (i * s.M + s.xi.getD k 0 + j) 0 * (s.h.getD k #[]).getD j 0)
              (y.getD (b + k) 0))) y,
          ((b + s.L : ℕ) : Int)) := by
    intro i y b
    have h2 : Gen.firRateProcess_loop2 (toGenRC s) (i : Int) (s.sub : Int) xb =
        fun (acc : Array ℝ × Int) k => ((fun y (o : Int) (k : ℕ) =>
          (List.range s.sub).foldl (Gen.firRateProcess_loop1 o xb
            (((i : Int) * (s.M : Int)) + Gen.ptrGet (0 : Int) (s.xi.map Int.ofNat) (k : Int)) (Gen.ptrGet #[] s.h (k : Int))) y)
          acc.1 acc.2 k, acc.2 + 1) := by
      funext acc k
      simp only [Gen.firRateProcess_loop2, Int.ofNat_eq_natCast, Int.toNat_natCast, toGenRC]
    have key := foldl_pair_counter (fun (y : Array ℝ) (o : Int) (k : ℕ) =>
          (List.range s.sub).foldl (Gen.firRateProcess_loop1 o xb
            (((i : Int) * (s.M : Int)) + Gen.ptrGet (0 : Int) (s.xi.map Int.ofNat) (k : Int)) (Gen.ptrGet #[] s.h (k : Int))) y) 1 s.L y (b : Int)
    rw [h2]
    refine key.trans (Prod.ext ?_ (by push_cast; ring))
    simp only
    apply foldl_range_congr
    intro y k _
    have : ((b : Int) + (k : Int) * 1) = ((b + k : ℕ) : Int) := by push_cast; ring
    rw [this, hj]
  have hi : Gen.firRateProcess_loop3 (toGenRC s) (s.sub : Int) xb =
      fun (acc : Array ℝ × Int) (i : ℕ) =>
        (((List.range s.L).foldl (Gen.firRateProcess_loop2 (toGenRC s) (i : Int) (s.sub : Int) xb) (acc.1, acc.2)).1,
         ((List.range s.L).foldl (Gen.firRateProcess_loop2 (toGenRC s) (i : Int) (s.sub : Int) xb) (acc.1, acc.2)).2) := by
    funext acc i
    simp only [Gen.firRateProcess_loop3, Int.ofNat_eq_natCast, toGenRC, Int.toNat_natCast]
  have hout : ∀ (m : ℕ) (y : Array ℝ),
      (List.range m).foldl (Gen.firRateProcess_loop3 (toGenRC s) (s.sub : Int) xb) (y, (0 : Int)) =
        ((List.range m).foldl (fun y i => (List.range s.L).foldl (fun y k => y.setIfInBounds (i * s.L + k)
            ((fun i k v => (List.range s.sub).foldl
              (fun v j => v + xb.getD (i * s.M + s.xi.getD k 0 + j) 0 * (s.h.getD k #[]).getD j 0) v) i k
              (y.getD (i * s.L + k) 0))) y) y, ((m * s.L : ℕ) : Int)) := by
    intro m
    induction m with
    | zero => intro y; simp
    | succ m ih =>
      intro y
      rw [List.range_succ, List.foldl_append, List.foldl_append, ih]
      simp only [List.foldl_cons, List.foldl_nil]
      rw [hi]
      simp only
      rw [hk m _ (m * s.L)]
      refine Prod.ext rfl ?_
      simp only
      congr 1
      rw [Nat.succ_mul]
  rw [hout]
  simp only
  obtain ⟨g1, g2⟩ := foldl_cell_grid (0 : ℝ)
    (fun i k v => (List.range s.sub).foldl
      (fun v j => v + xb.getD (i * s.M + s.xi.getD k 0 + j) 0 * (s.h.getD k #[]).getD j 0) v) s.L
    (Array.replicate (np * s.L) (0 : ℝ)) np
  apply ext_getD (0 : ℝ)
  · rw [g1]; simp [tab]
  · intro o ho
    rw [g1] at ho
    simp only [Array.size_replicate] at ho
    rw [g2 o, if_pos ⟨ho, by simpa using ho⟩, getD_replicate, if_pos ho]
    simp only [tab, getD_ofFn, dif_pos ho, accN, loopN_eq_foldl, elem, row, C08.zero_real]

theorem tmod_nat (a b : ℕ) : Int.tmod (a : Int) (b : Int) = ((a % b : ℕ) : Int) := by
  rw [Int.tmod_eq_emod_of_nonneg (by omega)]; simp

theorem tdiv_nat (a b : ℕ) : Int.tdiv (a : Int) (b : Int) = ((a / b : ℕ) : Int) := by
  rw [Int.tdiv_eq_ediv_of_nonneg (by omega)]; simp

/-- **bridge, `FIRRateConverter::process`, one frame.**  For every state and every frame: the generated `process` — the frame
length guard, the history `memcpy`s, the three nested loops with the per-branch input pointer `px = x + i·decim + xidxs_[k]`
and the moving output pointer `py` — is the model's `RateConv.process`: the same exception for a frame whose length is not a
multiple of `decim_`, else the same state and output. -/
theorem firRateProcess_eq (s : RateConv ℝ) (x : Array ℝ) :
    Gen.firRateProcess (toGenRC s) x = (s.process x).map (fun r => (toGenRC r.1, r.2)) := by
  unfold Gen.firRateProcess RateConv.process
  extract_lets -merge nx nh nd p0 p1a p1 p2a p2 sd self' np y0 py0 acc yv pyv buf ym
  have hnx : nx = (x.size : Int) := rfl
  have hnd : nd = (s.d.size : Int) := rfl
  have hdec : (toGenRC s).decim = (s.M : Int) := rfl
  by_cases hm : x.size % s.M = 0
  · have hg : ¬ ¬ (Int.tmod nx (toGenRC s).decim = (0 : Int)) := by
      rw [hnx, hdec, tmod_nat, hm]; simp
    rw [if_neg hg, if_neg (by simpa using hm)]
    have hp2 : p2 = s.d ++ x := by
      apply concat_copy s.d x p0 p1 p2
      · simp only [p0, hnx, hnd]
      · simp only [p1, p1a, hnd]; rfl
      · simp only [p2, p2a, hnx, hnd]
    have hself : self' = ⟨s.h, (s.d ++ x).extract x.size (x.size + s.d.size), (s.L : Int), (s.M : Int), (s.sub : Int),
        s.xi.map Int.ofNat⟩ := by
      have ht := tail_copy s.d (s.d ++ x) x.size (by simp)
      simp only [self', sd, hnd, hnx, hp2, toGenRC]
      by_cases hd : (s.d.size : Int) > 0
      · rw [if_pos hd] at ht ⊢
        rw [← ht]
      · rw [if_neg hd] at ht ⊢
        rw [← ht]
    have hnp : np = ((x.size / s.M : ℕ) : Int) := by
      simp only [np, hself, hnx]; exact tdiv_nat _ _
    have hy0 : y0 = Array.replicate (x.size / s.M * s.L) (0 : ℝ) := by
      simp only [y0, hnp, hself]
      rw [arrNew_nat _ (x.size / s.M * s.L) _ (by push_cast; rfl)]
      simp only [Gen.zeroR, fn_ofInt, Int.cast_zero]
    have hacc : acc.1 = tab (x.size / s.M * s.L) fun o =>
        accN (fun j => elem (s.d ++ x) (o / s.L * s.M + s.xi.getD (o % s.L) 0 + j) * elem (row s.h (o % s.L)) j) s.sub zero := by
      have := rate_loops ⟨s.L, s.M, s.sub, s.h, s.xi, (s.d ++ x).extract x.size (x.size + s.d.size)⟩ (s.d ++ x) (x.size / s.M)
      simp only [acc, hy0, py0, hnp, hp2, nh, hself, Int.toNat_natCast]
      simp only [toGenRC] at this
      exact this
    show Except.ok (self', acc.1) = _
    rw [hacc, hself]
    simp only [Except.map, toGenRC, ym, buf]
  · have hg : ¬ (Int.tmod nx (toGenRC s).decim = (0 : Int)) := by
      rw [hnx, hdec, tmod_nat]; omega
    rw [if_pos hg, if_pos (by simpa using hm)]
    rfl

/-! ## `FIRDecimator::process` -/

def toGenD (s : Decim ℝ) : Gen.FIRDecimatorState ℝ := ⟨s.h, s.d, (s.M : Int), (s.sub : Int)⟩

/-- the three nested loops of `FIRDecimator::process` on the zero-filled output of length `ny`:
`y[i] = Σ_k Σ_j x[i M + k + j M] * h_[k][j]` (k outer, j inner; `px` advances by `decim_` per output, `idx` by `decim_` per tap) -/
theorem decim_loops (s : Decim ℝ) (xb : Array ℝ) (ny : ℕ) :
    ((List.range ny).foldl (Gen.firDecimProcess_loop3 (toGenD s) xb) (Array.replicate ny (0 : ℝ), (0 : Int))).1 =
      tab ny fun i =>
        loopN (fun k a => accN (fun j => elem xb (i * s.M + k + j * s.M) * elem (row s.h k) j) s.sub a) s.M zero := by
  -- innermost loop: cell `i` accumulates, `idx` is an arithmetic progression
  have hj : ∀ (i k p : ℕ) (y : Array ℝ),
      ((List.range s.sub).foldl (Gen.firDecimProcess_loop1 (i : Int) xb (p : Int) (Gen.ptrGet #[] s.h (k : Int)) (toGenD s))
          (y, (k : Int))).1 =
        y.setIfInBounds i ((List.range s.sub).foldl
          (fun v j => v + xb.getD (p + k + j * s.M) 0 * (s.h.getD k #[]).getD j 0) (y.getD i 0)) := by
    intro i k p y
    have h1 : Gen.firDecimProcess_loop1 (i : Int) xb (p : Int) (Gen.ptrGet #[] s.h (k : Int)) (toGenD s) =
        fun (acc : Array ℝ × Int) (j : ℕ) => ((fun (y : Array ℝ) (idx : Int) (j : ℕ) =>
          Gen.arrSet y (i : Int) (Gen.arrGet (0 : ℝ) y (i : Int) + Gen.ptrGet (0 : ℝ) xb ((p : Int) + idx) *
            Gen.arrGet (0 : ℝ) (Gen.ptrGet #[] s.h (k : Int)) (j : Int))) acc.1 acc.2 j, acc.2 + (s.M : Int)) := by
      funext acc j
      simp only [Gen.firDecimProcess_loop1, Gen.zeroR, fn_ofInt, Int.cast_zero, Int.ofNat_eq_natCast, toGenD]
    have key := foldl_pair_counter (fun (y : Array ℝ) (idx : Int) (j : ℕ) =>
          Gen.arrSet y (i : Int) (Gen.arrGet (0 : ℝ) y (i : Int) + Gen.ptrGet (0 : ℝ) xb ((p : Int) + idx) *
            Gen.arrGet (0 : ℝ) (Gen.ptrGet #[] s.h (k : Int)) (j : Int))) (s.M : Int) s.sub y (k : Int)
    rw [h1, key]
    simp only
    have h2 : (fun (y : Array ℝ) (j : ℕ) => Gen.arrSet y (i : Int) (Gen.arrGet (0 : ℝ) y (i : Int) +
          Gen.ptrGet (0 : ℝ) xb ((p : Int) + ((k : Int) + (j : Int) * (s.M : Int))) *
            Gen.arrGet (0 : ℝ) (Gen.ptrGet #[] s.h (k : Int)) (j : Int))) =
        fun y j => y.setIfInBounds i ((fun v j => v + xb.getD (p + k + j * s.M) 0 * (s.h.getD k #[]).getD j 0) (y.getD i 0) j) := by
      funext y j
      rw [arrGet_eq 0 y _ i rfl, arrSet_eq y _ i _ rfl, ptrGet_eq 0 xb _ (p + k + j * s.M) (by push_cast; ring),
        ptrGet_eq #[] s.h _ k rfl, arrGet_eq 0 _ _ j rfl]
    rw [h2]
    exact foldl_acc_cell (0 : ℝ) (fun v j => v + xb.getD (p + k + j * s.M) 0 * (s.h.getD k #[]).getD j 0) i _ y
  -- middle loop: cell `i` keeps accumulating over the branches
  have hk : ∀ (i p : ℕ) (y : Array ℝ),
      (List.range s.M).foldl (Gen.firDecimProcess_loop2 (toGenD s) (i : Int) xb (p : Int)) y =
        y.setIfInBounds i ((List.range s.M).foldl (fun v k => (List.range s.sub).foldl
          (fun v j => v + xb.getD (p + k + j * s.M) 0 * (s.h.getD k #[]).getD j 0) v) (y.getD i 0)) := by
    intro i p y
    have h3 : (fun (y : Array ℝ) (k : ℕ) => Gen.firDecimProcess_loop2 (toGenD s) (i : Int) xb (p : Int) y k) =
        fun y k => y.setIfInBounds i ((fun v k => (List.range s.sub).foldl
          (fun v j => v + xb.getD (p + k + j * s.M) 0 * (s.h.getD k #[]).getD j 0) v) (y.getD i 0) k) := by
      funext y k
      have := hj i k p y
      simp only [Gen.firDecimProcess_loop2, Int.ofNat_eq_natCast, toGenD, Int.toNat_natCast]
      simp only [toGenD] at this
      exact this
    rw [show Gen.firDecimProcess_loop2 (toGenD s) (i : Int) xb (p : Int) =
      fun y k => Gen.firDecimProcess_loop2 (toGenD s) (i : Int) xb (p : Int) y k from rfl, h3]
    exact foldl_acc_cell (0 : ℝ) (fun v k => (List.range s.sub).foldl
          (fun v j => v + xb.getD (p + k + j * s.M) 0 * (s.h.getD k #[]).getD j 0) v) i _ y
  -- outer loop: `px` advances by `decim_` per output sample
  have hi : Gen.firDecimProcess_loop3 (toGenD s) xb =
      fun (acc : Array ℝ × Int) (i : ℕ) => ((fun (y : Array ℝ) (p : Int) (i : ℕ) =>
        (List.range s.M).foldl (Gen.firDecimProcess_loop2 (toGenD s) (i : Int) xb p) y) acc.1 acc.2 i, acc.2 + (s.M : Int)) := by
    funext acc i
    simp only [Gen.firDecimProcess_loop3, Int.ofNat_eq_natCast, toGenD, Int.toNat_natCast]
  have key := foldl_pair_counter (fun (y : Array ℝ) (p : Int) (i : ℕ) =>
        (List.range s.M).foldl (Gen.firDecimProcess_loop2 (toGenD s) (i : Int) xb p) y) (s.M : Int) ny
        (Array.replicate ny (0 : ℝ)) (0 : Int)
  rw [hi, key]
  simp only
  have h4 : (fun (y : Array ℝ) (i : ℕ) =>
        (List.range s.M).foldl (Gen.firDecimProcess_loop2 (toGenD s) (i : Int) xb ((0 : Int) + (i : Int) * (s.M : Int))) y) =
      fun y i => y.setIfInBounds i ((fun v i => (List.range s.M).foldl (fun v k => (List.range s.sub).foldl
          (fun v j => v + xb.getD (i * s.M + k + j * s.M) 0 * (s.h.getD k #[]).getD j 0) v) v) (y.getD i 0) i) := by
    funext y i
    have : ((0 : Int) + (i : Int) * (s.M : Int)) = ((i * s.M : ℕ) : Int) := by push_cast; ring
    rw [this, hk]
  rw [h4, foldl_set_eq_ofFn (0 : ℝ) (fun v i => (List.range s.M).foldl (fun v k => (List.range s.sub).foldl
          (fun v j => v + xb.getD (i * s.M + k + j * s.M) 0 * (s.h.getD k #[]).getD j 0) v) v) ny _ (by simp)]
  apply ext_getD (0 : ℝ)
  · simp [tab]
  · intro i hi'
    simp only [Array.size_ofFn] at hi'
    simp only [tab, getD_ofFn, dif_pos hi', getD_replicate, if_pos hi', accN, loopN_eq_foldl, elem, row, C08.zero_real]

/-- **bridge, `FIRDecimator::process`, one frame** (as `firRateProcess_eq`): same exception for a frame whose length is not a
multiple of `decim_`, else the model's state and output -/
theorem firDecimProcess_eq (s : Decim ℝ) (x : Array ℝ) :
    Gen.firDecimProcess (toGenD s) x = (s.process x).map (fun r => (toGenD r.1, r.2)) := by
  unfold Gen.firDecimProcess Decim.process
  extract_lets -merge nx nd p0 p1a p1 p2a p2 sd self' y0 px0 acc yv pxv buf ym
  have hnx : nx = (x.size : Int) := rfl
  have hnd : nd = (s.d.size : Int) := rfl
  have hdec : (toGenD s).decim = (s.M : Int) := rfl
  by_cases hm : x.size % s.M = 0
  · have hg : ¬ ¬ (Int.tmod nx (toGenD s).decim = (0 : Int)) := by
      rw [hnx, hdec, tmod_nat, hm]; simp
    rw [if_neg hg, if_neg (by simpa using hm)]
    have hp2 : p2 = s.d ++ x := by
      apply concat_copy s.d x p0 p1 p2
      · simp only [p0, hnx, hnd]
      · simp only [p1, p1a, hnd]; rfl
      · simp only [p2, p2a, hnx, hnd]
    have hself : self' = ⟨s.h, (s.d ++ x).extract x.size (x.size + s.d.size), (s.M : Int), (s.sub : Int)⟩ := by
      have ht := tail_copy s.d (s.d ++ x) x.size (by simp)
      simp only [self', sd, hnd, hnx, hp2, toGenD]
      by_cases hd : (s.d.size : Int) > 0
      · rw [if_pos hd] at ht ⊢
        rw [← ht]
      · rw [if_neg hd] at ht ⊢
        rw [← ht]
    have hy0 : y0 = Array.replicate (x.size / s.M) (0 : ℝ) := by
      simp only [y0, hself, hnx]
      rw [arrNew_nat _ (x.size / s.M) _ (tdiv_nat _ _)]
      simp only [Gen.zeroR, fn_ofInt, Int.cast_zero]
    have hacc : acc.1 = tab (x.size / s.M) fun i =>
        loopN (fun k a => accN (fun j => elem (s.d ++ x) (i * s.M + k + j * s.M) * elem (row s.h k) j) s.sub a) s.M zero := by
      have := decim_loops ⟨s.M, s.sub, s.h, (s.d ++ x).extract x.size (x.size + s.d.size)⟩ (s.d ++ x) (x.size / s.M)
      simp only [acc, hy0, px0, hp2, hself, Gen.arrSize, Array.size_replicate, Int.ofNat_eq_natCast, Int.toNat_natCast]
      simp only [toGenD] at this
      exact this
    show Except.ok (self', acc.1) = _
    rw [hacc, hself]
    simp only [Except.map, toGenD, ym, buf]
  · have hg : ¬ (Int.tmod nx (toGenD s).decim = (0 : Int)) := by
      rw [hnx, hdec, tmod_nat]; omega
    rw [if_pos hg, if_pos (by simpa using hm)]
    rfl

/-! ## what the existing theorems of C08 say about the generated code -/

/-- **T08 (decimator) transported:** the generated `FIRDecimator::process` rejects exactly the frames whose length is not a
multiple of the decimation factor, and otherwise returns `len / M` samples -/
theorem gen_decim_len (s : Decim ℝ) (x : Array ℝ) :
    (x.size % s.M ≠ 0 → ∃ e, Gen.firDecimProcess (toGenD s) x = .error e) ∧
    (x.size % s.M = 0 → ∃ st y, Gen.firDecimProcess (toGenD s) x = .ok (st, y) ∧ y.size = x.size / s.M) := by
  rw [firDecimProcess_eq]
  constructor
  · intro h
    obtain ⟨e, he⟩ := C08.decim_reject s x h
    exact ⟨e, by rw [he]; rfl⟩
  · intro h
    unfold Decim.process
    rw [if_neg (by simpa using h)]
    exact ⟨_, _, rfl, by simp [tab]⟩

/-- **T08 (interpolator) transported:** the generated `FIRInterpolator::process` never throws and returns `len · L` samples -/
theorem gen_interp_len (s : Interp ℝ) (x : Array ℝ) :
    ∃ st y, Gen.firInterpProcess (toGenI s) x = .ok (st, y) ∧ y.size = x.size * s.L :=
  ⟨_, _, firInterpProcess_eq s x, C08.interp_len s x⟩

/-- **T08.2 transported to the regenerated code:** every call of the GENERATED `FIRInterpolator::process`, after any
history `past`, returns exactly the next `|x|·L` samples of the textbook chain (zero-stuff by `L`, filter with `h` normalised to
DC gain `L`) and leaves the object in the state "has consumed `past ++ x`" -/
theorem gen_interp_eq (L : ℕ) (hL : 0 < L) (h : Array ℝ) (hh : 0 < h.size) (hs : C08.hsum h ≠ 0) (past x : Array ℝ) :
    Gen.firInterpProcess (toGenI (C08.interpAt L h past)) x =
      .ok (toGenI (C08.interpAt L h (past ++ x)),
        tab (x.size * L) fun o => C08.upfir L h (past ++ x) (past.size * L + o)) := by
  rw [firInterpProcess_eq, C08.interp_eq L hL h hh hs past x]

/-- **T08.3 transported:** the GENERATED `FIRDecimator::process` on a frame whose length is a multiple of `M`, after any
history: the next `|x|/M` samples of "filter with the (padded, flipped) taps, keep every `M`-th" -/
theorem gen_decim_eq (M : ℕ) (hM : 0 < M) (h : Array ℝ) (hh : 0 < h.size) (hs : C08.hsum h ≠ 0)
    (past x : Array ℝ) (hx : x.size % M = 0) :
    Gen.firDecimProcess (toGenD (C08.decimAt M h past)) x =
      .ok (toGenD (C08.decimAt M h (past ++ x)),
        tab (x.size / M) fun i =>
          C08.fir (paddedLen h.size M) (C08.hflip h M) (elem (past ++ x)) (past.size + i * M + (M - 1))) := by
  rw [firDecimProcess_eq, C08.decim_eq M hM h hh hs past x hx]
  rfl

/-- **T08.5 transported:** the GENERATED `FIRRateConverter::process` (frames and history multiples of `M`): the next
`|x|/M·L` samples of zero-stuff by `L`, filter, keep every `M`-th -/
theorem gen_rateconv_eq (L M : ℕ) (hL : 0 < L) (hM : 0 < M) (h : Array ℝ) (hh : 0 < h.size) (hs : C08.hsum h ≠ 0)
    (past x : Array ℝ) (hP : past.size % M = 0) (hx : x.size % M = 0) :
    Gen.firRateProcess (toGenRC (C08.rateAt L M h past)) x =
      .ok (toGenRC (C08.rateAt L M h (past ++ x)),
        tab (x.size / M * L) fun o => C08.upfir L h (past ++ x) ((past.size / M * L + o + 1) * M - 1)) := by
  rw [firRateProcess_eq, C08.rateconv_eq L M hL hM h hh hs past x hP hx]
  rfl

end
/-! BEGIN steps3 constructors -/
/-! ## Constructors of `FIRDecimator`, `FIRInterpolator`, `FIRRateConverter` and `IResampler::polyphase` (regenerated: `Gen/CtorResample.lean`) -/

noncomputable section

/-- `sum(const arr_real&)` (generated: a left fold) is the sum of the cells -/
theorem sumR_eq_sum (a : Array ℝ) : Gen.sumR a = ∑ j ∈ Finset.range a.size, a.getD j 0 := by
  unfold Gen.sumR
  rw [← Array.foldl_toList]
  have : ∀ (l : List ℝ) (z : ℝ), l.foldl (fun acc v => acc + v) z = z + ∑ j ∈ Finset.range l.length, l.getD j 0 := by
    intro l
    induction l with
    | nil => intro z; simp
    | cons x t ih =>
      intro z
      rw [List.foldl_cons, ih, List.length_cons, Finset.sum_range_succ']
      simp only [List.getD_cons_succ, List.getD_cons_zero]
      ring
  rw [this]
  simp only [fn_ofInt, Int.cast_zero, zero_add, Array.length_toList]
  apply Finset.sum_congr rfl
  intro j _
  exact GenBridge.getD_toList a j 0

/-- the zero-padded copy `zeropad(h, nh)` makes -/
def padTo (h : Array ℝ) (nh : ℕ) : Array ℝ := h ++ Array.replicate (nh - h.size) 0

theorem padTo_getD (h : Array ℝ) (nh j : ℕ) : (padTo h nh).getD j 0 = elem h j := by
  unfold padTo elem
  rw [getD_append', C08.zero_real]
  by_cases hj : j < h.size
  · rw [if_pos hj]
  · rw [if_neg hj, getD_replicate, getD_of_ge h j 0 (by omega)]
    split <;> rfl

/-- `zeropad<real_t>(h, nh)` (generated) for `nh ≥ |h|`: no throw, the padded copy -/
theorem zeropadR_eq (h : Array ℝ) (nh : ℕ) (hle : h.size ≤ nh) : Gen.zeropadR h (nh : Int) = .ok (padTo h nh) := by
  unfold Gen.zeropadR padTo
  have h1 : ¬ (Gen.arrSize h > (nh : Int)) := by simp only [Gen.arrSize, Int.ofNat_eq_natCast]; omega
  rw [if_neg h1]
  by_cases he : h.size = nh
  · have h2 : Gen.arrSize h = (nh : Int) := by simp only [Gen.arrSize, Int.ofNat_eq_natCast]; exact_mod_cast he
    rw [if_pos h2]
    simp [he]
  · have h2 : ¬ Gen.arrSize h = (nh : Int) := by
      simp only [Gen.arrSize, Int.ofNat_eq_natCast]; intro e; exact he (by exact_mod_cast e)
    rw [if_neg h2]
    simp only [Gen.arrConcat, Gen.arrNew, Gen.zeroR, fn_ofInt, Int.cast_zero, Gen.arrSize, Int.ofNat_eq_natCast]
    have : ((nh : Int) - (h.size : Int)).toNat = nh - h.size := by omega
    rw [this]

theorem paddedLen_cast (n m : ℕ) (hm : 0 < m) :
    (if Int.tmod (n : Int) (m : Int) = 0 then (n : Int) else (Int.tdiv (n : Int) (m : Int) + 1) * (m : Int)) = ((paddedLen n m : ℕ) : Int) := by
  rw [tmod_nat, tdiv_nat]
  unfold paddedLen
  by_cases h : n % m = 0
  · rw [if_pos (by exact_mod_cast h), if_pos h]
  · rw [if_neg (by intro e; exact h (by exact_mod_cast e)), if_neg h]
    push_cast; ring

theorem nh_eq (h : Array ℝ) (m : ℕ) (hm : 0 < m) :
    (if Int.tmod (Gen.arrSize h) (m : Int) = 0 then Gen.arrSize h else (Int.tdiv (Gen.arrSize h) (m : Int) + 1) * (m : Int)) =
      ((paddedLen h.size m : ℕ) : Int) := by
  have e : Gen.arrSize h = (h.size : Int) := rfl
  rw [e]
  exact paddedLen_cast h.size m hm

/-- the rows the two nested loops of `polyphase` build, before the optional flip -/
theorem polyphase_loops (hq : Array ℝ) (m n : ℕ) (hm : 0 < m) (gain : ℝ) :
    (List.range m).foldl (Gen.polyphase_loop2 hq (m : Int) gain (n : Int)) (Array.replicate m (Array.replicate n (0 : ℝ))) =
      Array.ofFn (n := m) fun i => Array.ofFn (n := n) fun k => hq.getD (i.val + k.val * m) 0 * gain := by
  -- one row: the inner loop rewrites row `i`
  have hstep : (Gen.polyphase_loop2 hq (m : Int) gain (n : Int) : Array (Array ℝ) → Nat → Array (Array ℝ)) =
      fun r i => r.setIfInBounds i ((fun (old : Array ℝ) (i : Nat) =>
        (List.range n).foldl (fun (row : Array ℝ) (k : Nat) =>
          row.setIfInBounds k (Gen.arrGet Gen.zeroR hq (Int.tmod ((m : Int) + (i : Int)) (m : Int) + (k : Int) * (m : Int)) * gain)) old)
        (r.getD i #[]) i) := by
    funext r i
    simp only [Gen.polyphase_loop2, Int.ofNat_eq_natCast, Int.toNat_natCast]
    have hf : (Gen.polyphase_loop1 hq (m : Int) gain (i : Int) : Array (Array ℝ) × Int → Nat → Array (Array ℝ) × Int) =
        fun acc k => ((fun (r : Array (Array ℝ)) (ih : Int) (k : Nat) =>
          r.setIfInBounds i ((r.getD i #[]).setIfInBounds k (Gen.arrGet Gen.zeroR hq ih * gain))) acc.1 acc.2 k, acc.2 + (m : Int)) := by
      funext acc k
      simp only [Gen.polyphase_loop1, Int.ofNat_eq_natCast, ptrSet_natCast, ptrGet_natCast, arrSet_natCast, mul_comm gain]
    rw [hf, foldl_pair_counter (fun (r : Array (Array ℝ)) (ih : Int) (k : Nat) =>
          r.setIfInBounds i ((r.getD i #[]).setIfInBounds k (Gen.arrGet Gen.zeroR hq ih * gain))) (m : Int) n r]
    simp only
    exact foldl_acc_cell (#[] : Array ℝ)
      (fun (row : Array ℝ) (k : Nat) =>
        row.setIfInBounds k (Gen.arrGet Gen.zeroR hq (Int.tmod ((m : Int) + (i : Int)) (m : Int) + (k : Int) * (m : Int)) * gain)) i (List.range n) r
  have key := foldl_set_eq_ofFn (#[] : Array ℝ) (fun (old : Array ℝ) (i : Nat) =>
        (List.range n).foldl (fun (row : Array ℝ) (k : Nat) =>
          row.setIfInBounds k (Gen.arrGet Gen.zeroR hq (Int.tmod ((m : Int) + (i : Int)) (m : Int) + (k : Int) * (m : Int)) * gain)) old)
    m (Array.replicate m (Array.replicate n (0 : ℝ))) (by simp)
  rw [hstep]
  refine key.trans ?_
  apply Array.ext
  · simp
  · intro i h1 h2
    simp only [Array.size_ofFn] at h1
    simp only [Array.getElem_ofFn]
    rw [getD_replicate, if_pos h1]
    have := foldl_set_eq_ofFn (0 : ℝ)
      (fun (_ : ℝ) (k : Nat) => Gen.arrGet Gen.zeroR hq (Int.tmod ((m : Int) + (i : Int)) (m : Int) + (k : Int) * (m : Int)) * gain)
      n (Array.replicate n (0 : ℝ)) (by simp)
    rw [this]
    apply Array.ext
    · simp
    · intro k k1 k2
      simp only [Array.size_ofFn] at k1
      simp only [Array.getElem_ofFn]
      have hi : Int.tmod ((m : Int) + (i : Int)) (m : Int) = (i : Int) := by
        rw [show ((m : Int) + (i : Int)) = (((m + i : ℕ)) : Int) by push_cast; ring, tmod_nat]
        congr 1
        rw [Nat.add_mod_left, Nat.mod_eq_of_lt h1]
      rw [hi, arrGet_eq Gen.zeroR hq _ (i + k * m) (by push_cast; ring)]
      simp [Gen.zeroR]

/-- the flip loop: every row reversed -/
theorem polyphase_flip (r : Array (Array ℝ)) :
    (List.range r.size).foldl Gen.polyphase_loop3 r = Array.ofFn (n := r.size) fun i => (r.getD i.val #[]).reverse := by
  have hstep : (Gen.polyphase_loop3 : Array (Array ℝ) → Nat → Array (Array ℝ)) =
      fun r i => r.setIfInBounds i ((fun (old : Array ℝ) (_ : Nat) => old.reverse) (r.getD i #[]) i) := by
    funext r i
    simp only [Gen.polyphase_loop3, Int.ofNat_eq_natCast, ptrSet_natCast, ptrGet_natCast, Gen.arrFlip]
  rw [hstep]
  exact foldl_set_eq_ofFn (#[] : Array ℝ) (fun (old : Array ℝ) (_ : Nat) => old.reverse) r.size r rfl

/-- **bridge, `IResampler::polyphase`:** for every coefficient vector, every branch count `m ≥ 1`, gain and flip flag, the GENERATED
`polyphase` (zero-pad to a multiple of `m` through the generated `zeropad`, divide by the generated `sum`, the two nested loops with
the running index `ih`, the optional `flip` of every branch) does not throw and returns the model's table
`r[i][k] = h[i + k' m] / Σh · gain`, `k' = k` or `n - 1 - k`. -/
theorem polyphase_eq (h : Array ℝ) (m : ℕ) (hm : 0 < m) (gain : ℝ) (flip : Bool) :
    Gen.polyphase h (m : Int) gain flip = .ok (Resample.polyphase h m gain flip) := by
  obtain ⟨hle, _, hmod⟩ := C08.paddedLen_spec h.size m hm
  unfold Gen.polyphase
  simp only [nh_eq h m hm]
  simp only [zeropadR_eq h _ hle, tdiv_nat, Gen.vecNew, Gen.arrNew, Int.toNat_natCast, Gen.zeroR, fn_ofInt, Int.cast_zero]
  set nh := paddedLen h.size m with hnh
  set n := nh / m with hn
  have hS : Gen.sumR (padTo h nh) = accN (fun i => elem h i) nh (Resample.zero : ℝ) := by
    rw [sumR_eq_sum, C08.accN_eq, C08.zero_real, zero_add]
    have hsz : (padTo h nh).size = nh := by simp [padTo]; omega
    rw [hsz]
    exact Finset.sum_congr rfl (fun j _ => padTo_getD h nh j)
  rw [polyphase_loops _ m n hm gain]
  have hnm : n * m = nh := Nat.div_mul_cancel (Nat.dvd_of_mod_eq_zero hmod)
  have hcell : ∀ i k, i < m → k < n →
      (Gen.arrDivRR (padTo h nh) (Gen.sumR (padTo h nh))).getD (i + k * m) 0 * gain =
        elem h (i + k * m) / accN (fun i => elem h i) nh (Resample.zero : ℝ) * gain := by
    intro i k hi hk
    have hlt : i + k * m < nh := by
      rw [← hnm]
      calc i + k * m < m + k * m := by omega
        _ = (k + 1) * m := by ring
        _ ≤ n * m := Nat.mul_le_mul_right m (by omega)
    have hsz : (padTo h nh).size = nh := by simp [padTo]; omega
    unfold Gen.arrDivRR
    rw [Array.getD_eq_getD_getElem?, Array.getElem?_map, ← hS]
    have : (padTo h nh)[i + k * m]? = some ((padTo h nh).getD (i + k * m) 0) := by
      simp [Array.getD_eq_getD_getElem?, hsz, hlt]
    rw [this, padTo_getD]
    rfl
  unfold Resample.polyphase
  simp only [← hnh, ← hn]
  cases flip with
  | false =>
    simp only [Bool.false_eq_true, if_false]
    congr 1
    unfold tab
    apply Array.ext
    · simp
    · intro i h1 h2
      simp only [Array.size_ofFn] at h1
      simp only [Array.getElem_ofFn]
      apply Array.ext
      · simp
      · intro k k1 k2
        simp only [Array.size_ofFn] at k1
        simp only [Array.getElem_ofFn]
        exact hcell i k h1 k1
  | true =>
    simp only [if_true]
    have hsz : (Array.ofFn (n := m) fun i => Array.ofFn (n := n) fun k =>
        (Gen.arrDivRR (padTo h nh) (Gen.sumR (padTo h nh))).getD (i.val + k.val * m) 0 * gain).size = m := by simp
    have := polyphase_flip (Array.ofFn (n := m) fun i => Array.ofFn (n := n) fun k =>
        (Gen.arrDivRR (padTo h nh) (Gen.sumR (padTo h nh))).getD (i.val + k.val * m) 0 * gain)
    rw [hsz] at this
    rw [this]
    congr 1
    unfold tab
    apply Array.ext
    · simp
    · intro i h1 h2
      simp only [Array.size_ofFn] at h1
      simp only [Array.getElem_ofFn]
      rw [getD_ofFn, dif_pos h1]
      apply Array.ext
      · simp
      · intro k k1 k2
        simp only [Array.size_reverse, Array.size_ofFn] at k1
        simp only [Array.getElem_reverse, Array.getElem_ofFn, Array.size_ofFn]
        exact hcell i (n - 1 - k) h1 (by omega)

/-! ### the three constructors -/

theorem zeros_eq (n : ℕ) : (Resample.zeros n : Array ℝ) = Array.replicate n 0 := by
  unfold Resample.zeros tab
  apply Array.ext
  · simp
  · intro i h1 h2; simp [C08.zero_real]

theorem ptrGet_row (th : Array (Array ℝ)) (k : ℕ) : Gen.ptrGet (#[] : Array ℝ) th (k : Int) = row th k := by
  rw [ptrGet_natCast]; rfl

/-- **bridge, `FIRInterpolator(int interp, const arr_real& h)`:** for every `interp ≥ 1` and every coefficient vector the generated
constructor (generated `polyphase` with gain `real_t(interp_)` and flipped branches, `sublen_ = h_[0].size()`,
`d_ = zeros(sublen_ - 1)`) does not throw and leaves the model's `Interp.init` -/
theorem firInterpCtor_eq (L : ℕ) (hL : 0 < L) (h : Array ℝ) :
    Gen.firInterpCtor (L : Int) h = .ok (toGenI (Interp.init L h)) := by
  unfold Gen.firInterpCtor
  simp only [fn_ofInt, Int.cast_natCast, polyphase_eq h L hL]
  unfold Interp.init toGenI
  simp only [fn_ofNat, zeros_eq, Gen.arrSize, Int.ofNat_eq_natCast, Gen.arrNew, Gen.zeroR, fn_ofInt, Int.cast_zero]
  rw [show ((0 : Int)) = ((0 : ℕ) : Int) from rfl, ptrGet_row]
  congr 3
  omega

theorem toNat_mul_pred (M sub : ℕ) (z : Int) (hz : z = (M : Int) * ((sub : Int) - 1)) : z.toNat = M * (sub - 1) := by
  subst hz
  rcases Nat.eq_zero_or_pos sub with h0 | h0
  · subst h0
    have : (M : Int) * (((0 : ℕ) : Int) - 1) = -(M : Int) := by push_cast; ring
    rw [this]; simp
  · have : ((M : Int) * ((sub : Int) - 1)) = ((M * (sub - 1) : ℕ) : Int) := by
      push_cast
      rw [Nat.cast_sub h0]; simp
    rw [this, Int.toNat_natCast]

/-- **bridge, `FIRDecimator(int decim, const arr_real& h)`** (`polyphase(h, decim_, 1.0, false)`, `d_ = zeros(decim_ * (sublen_ - 1))`) -/
theorem firDecimCtor_eq (M : ℕ) (hM : 0 < M) (h : Array ℝ) :
    Gen.firDecimCtor (M : Int) h = .ok (toGenD (Decim.init M h)) := by
  unfold Gen.firDecimCtor
  simp only [fn_ofInt, Int.cast_one, polyphase_eq h M hM]
  unfold Decim.init toGenD
  simp only [fn_ofNat, Nat.cast_one, zeros_eq, Gen.arrSize, Int.ofNat_eq_natCast, Gen.arrNew, Gen.zeroR, fn_ofInt, Int.cast_zero]
  rw [show ((0 : Int)) = ((0 : ℕ) : Int) from rfl, ptrGet_row]
  congr 3
  exact toNat_mul_pred M _ _ (by push_cast; ring)

/-- generated triple `(st, h_, xidxs_)` of the schedule loops against the model's `(st, [(branch, offset)])` -/
def SchedRel (th : Array (Array ℝ)) (g : Int × Array (Array ℝ) × Array Int) (s : Nat × List (Nat × Nat)) : Prop :=
  g.1 = (s.1 : Int) ∧ g.2.1 = (s.2.map fun p => row th p.1).toArray ∧ g.2.2 = (s.2.map fun p => Int.ofNat p.2).toArray

theorem foldl_rel {A B ι : Type} (R : A → B → Prop) (f : A → ι → A) (g : B → ι → B)
    (h : ∀ a b i, R a b → R (f a i) (g b i)) : ∀ (l : List ι) (a : A) (b : B), R a b → R (l.foldl f a) (l.foldl g b) := by
  intro l
  induction l with
  | nil => intro a b hab; exact hab
  | cons x l ih => intro a b hab; exact ih _ _ (h a b x hab)

theorem sched_step (th : Array (Array ℝ)) (M i k : ℕ) (g : Int × Array (Array ℝ) × Array Int) (s : Nat × List (Nat × Nat))
    (hr : SchedRel th g s) : SchedRel th (Gen.firRateCtor_loop1 (M : Int) th (i : Int) g k) (schedStep M k i s) := by
  obtain ⟨h1, h2, h3⟩ := hr
  unfold Gen.firRateCtor_loop1 schedStep SchedRel
  simp only [Int.ofNat_eq_natCast, ptrGet_row, Gen.vecPush, h1, h2, h3]
  by_cases hc : s.1 + 1 = M
  · have hc' : ((s.1 : Int) + 1 = (M : Int)) := by exact_mod_cast hc
    simp [hc, hc']
  · have hc' : ¬ ((s.1 : Int) + 1 = (M : Int)) := by intro e; exact hc (by exact_mod_cast e)
    simp [hc, hc']

theorem sched_loops (th : Array (Array ℝ)) (L M : ℕ) :
    SchedRel th ((List.range M).foldl (Gen.firRateCtor_loop2 (L : Int) (M : Int) th) ((0 : Int), #[], #[]))
      (loopN (fun i s => loopN (fun k s => schedStep M k i s) L s) M (0, [])) := by
  rw [loopN_eq_foldl]
  apply foldl_rel (SchedRel th)
  · intro g s i hr
    have : Gen.firRateCtor_loop2 (L : Int) (M : Int) th g i =
        (List.range L).foldl (Gen.firRateCtor_loop1 (M : Int) th (i : Int)) g := by
      simp only [Gen.firRateCtor_loop2, Int.ofNat_eq_natCast, Int.toNat_natCast]
    rw [this, loopN_eq_foldl]
    exact foldl_rel (SchedRel th) _ _ (fun a b k hab => sched_step th M i k a b hab) _ _ _ hr
  · exact ⟨rfl, rfl, rfl⟩

/-- **bridge, `FIRRateConverter(int interp, int decim, const arr_real& h)`:** the generated constructor — generated `polyphase`,
`sublen_`, `d_`, and the branch / offset schedule loops `st = st + 1; if (st == decim_) { h_.emplace_back(th[k]); xidxs_.push_back(i); st = 0; }`
— does not throw and leaves the model's `RateConv.init`, for every `interp ≥ 1`, every `decim ≥ 0` -/
theorem firRateCtor_eq (L M : ℕ) (hL : 0 < L) (h : Array ℝ) :
    Gen.firRateCtor (L : Int) (M : Int) h = .ok (toGenRC (RateConv.init L M h)) := by
  unfold Gen.firRateCtor
  simp only [fn_ofInt, Int.cast_natCast, polyphase_eq h L hL]
  obtain ⟨h1, h2, h3⟩ := sched_loops (polyphase h L (L : ℝ) true) L M
  unfold RateConv.init toGenRC schedule
  simp only [fn_ofNat, zeros_eq, Gen.arrSize, Int.ofNat_eq_natCast, Gen.arrNew, Gen.zeroR, fn_ofInt, Int.cast_zero, Int.toNat_natCast]
  rw [show ((0 : Int)) = ((0 : ℕ) : Int) from rfl, ptrGet_row]
  simp only [Nat.cast_zero] at h2 h3 ⊢
  rw [h2, h3]
  have hx : ∀ l : List (Nat × Nat), Array.map Int.ofNat (List.map (fun p => p.2) l).toArray = (List.map (fun p => Int.ofNat p.2) l).toArray := by
    intro l; rw [List.map_toArray, List.map_map]; rfl
  have hd : (((row (polyphase h L (L : ℝ) true) 0).size : Int) - 1).toNat = (row (polyphase h L (L : ℝ) true) 0).size - 1 := by omega
  rw [hx, hd]

/-! ### the transported theorems, from the GENERATED constructors -/

/-- **T08.2 from the GENERATED constructor:** `FIRInterpolator(L, h)` constructed by the regenerated constructor, first call of the
regenerated `process`: the first `|x|·L` samples of the textbook chain (zero-stuff by `L`, filter with `h` normalised to DC gain `L`) -/
theorem gen_interp_from_ctor (L : ℕ) (hL : 0 < L) (h : Array ℝ) (hh : 0 < h.size) (hs : C08.hsum h ≠ 0) (x : Array ℝ) :
    (Gen.firInterpCtor (L : Int) h).bind (fun o => Gen.firInterpProcess o x) =
      .ok (toGenI (C08.interpAt L h x), tab (x.size * L) fun o => C08.upfir L h x o) := by
  rw [firInterpCtor_eq L hL h, C08.interp_init L hL h]
  have := gen_interp_eq L hL h hh hs #[] x
  simpa [Except.bind, bind] using this

/-- **T08.3 from the GENERATED constructor** -/
theorem gen_decim_from_ctor (M : ℕ) (hM : 0 < M) (h : Array ℝ) (hh : 0 < h.size) (hs : C08.hsum h ≠ 0) (x : Array ℝ)
    (hx : x.size % M = 0) :
    (Gen.firDecimCtor (M : Int) h).bind (fun o => Gen.firDecimProcess o x) =
      .ok (toGenD (C08.decimAt M h x),
        tab (x.size / M) fun i => C08.fir (paddedLen h.size M) (C08.hflip h M) (elem x) (i * M + (M - 1))) := by
  rw [firDecimCtor_eq M hM h, C08.decim_init M hM h]
  have := gen_decim_eq M hM h hh hs #[] x hx
  simpa [Except.bind, bind] using this

/-- **T08.5 from the GENERATED constructor** -/
theorem gen_rateconv_from_ctor (L M : ℕ) (hL : 0 < L) (hM : 0 < M) (h : Array ℝ) (hh : 0 < h.size) (hs : C08.hsum h ≠ 0)
    (x : Array ℝ) (hx : x.size % M = 0) :
    (Gen.firRateCtor (L : Int) (M : Int) h).bind (fun o => Gen.firRateProcess o x) =
      .ok (toGenRC (C08.rateAt L M h x), tab (x.size / M * L) fun o => C08.upfir L h x ((o + 1) * M - 1)) := by
  rw [firRateCtor_eq L M hL h, C08.rateconv_init L M hL h]
  have := gen_rateconv_eq L M hL hM h hh hs #[] x (by simp) hx
  simpa [Except.bind, bind] using this

/-- the default arguments of `IResampler::polyphase(h, m, gain = 1.0, flip_coeffs = false)` -/
theorem polyphase_defaults : ((Gen.polyphaseDefault_gain : ℝ), Gen.polyphaseDefault_flip_coeffs) = (1, false) := by
  simp [Gen.polyphaseDefault_gain, Gen.polyphaseDefault_flip_coeffs]

end
/-! END steps3 constructors -/

end Dsp.C08Gen
