import DspVerif.Props.C07
import DspVerif.Props.C01Total
import DspVerif.Props.C02
/-!
# C07 — T07.2 / T07.3 UNCONDITIONALLY for the library's own transform pair

`Props/C07.lean` proves `fftfilter_eq_sum` / `fftfilter_eq_fir` / `xcorr_eq` for every transform pair satisfying the
circular convolution / correlation theorem (`CircConv`, `CircCorr`) and discharges these hypotheses only for the exact DFT
pair on `ℂ` (`circConv_dft`, `circCorr_dft`).  This file discharges them for the LIBRARY's transforms on `Cx ℝ` arrays, the
pair `lib/fir.cpp` (`ifft(fft(_x) * _h)`, `fft(conj(h), fft_len)`) and `lib/xcorr.cpp` (`conj(fft(y1))`, `fft(y2)`,
`conj(ifft(z1 * z2))`) call through the free functions `fft(const arr_cmplx&)` / `ifft(const arr_cmplx&)`:

* `libFft lit x  = Fft.fftC lit x.size x`                          — `FftPlan(x.size())(x)`, plan selection of `create_fft_plan`
* `libIfft lit X = Fft.ifftWith (Fft.fftC lit X.size) X.size X`    — `IfftPlan(X.size())(X)`: scale, conj, forward plan, conj
  (`libIfft_eq_ifft`: this IS C02's `Ifft.ifft lit X` for every non-empty `X`)

using C01's unconditional `fftC_eq_le` (`Props/C01Total.lean`) and `C01.ifftWith_eq`.  The only hypotheses left are
`LitsOK lit` (the three literals of the small kernels are `√½, √½, √¾`; `litsOK_exact`) and a length bound: the padded FFT
length is at most `2^31` (`2·len h ≤ 2^31`, resp. `len a + len b − 1 ≤ 2^31`).

* `fftC_size`                 the forward plan of size `n` returns `n` cells (`0 < n ≤ 2^31`)
* `circConv_lib`, `circCorr_lib`            `CircConv` / `CircCorr` for the library pair at every length `0 < L ≤ 2^31`
* `fftfilter_eq_fir_total_cmplx/_real`      T07.2: `FftFilter` emits `⌊len/_n⌋·_n` samples, each the sample of `FirFilter`
                                            and the defining sum `Σ_{k≤i} conj(h[k])·x[i−k]`
* `fftfilter_two_calls_total`               T07.2 across calls: the state handed over loses nothing
* `xcorr_eq_total_cmplx/_real`              T07.3: every lag of `xcorr` is `Σ_n a[n+lag]·conj(b[n])`

Note on the driver: `Driver/H07.lean` (and `H06.lean`) run the FFT based models with exactly this instantiation at `Float`
(`fftF x := Fft.fftC lits x.size x`, `ifftF X := Fft.ifftWith (Fft.fftC lits X.size) X.size X`), compared bit for bit with the library.
-/
open Finset Dsp Dsp.Fir Dsp.Fft

namespace Dsp.C07

/-! ## the library's transform pair as `Array → Array` functions -/

/-- `fft(const arr_cmplx& x)`: the plan `FftPlan(x.size())` applied to `x` -/
noncomputable def libFft (lit : Lits ℝ) (x : Vec ℝ) : Vec ℝ := fftC lit x.size x

/-- `ifft(const arr_cmplx& X)`: `IfftPlan(X.size())`, whose forward plan is `FftPlan(X.size())` -/
noncomputable def libIfft (lit : Lits ℝ) (X : Vec ℝ) : Vec ℝ := ifftWith (fftC lit X.size) X.size X

/-- `libIfft` is C02's model of `ifft` (`Model/Ifft.lean`) on every non-empty input (the empty one is rejected there) -/
theorem libIfft_eq_ifft (lit : Lits ℝ) (X : Vec ℝ) (h : X.size ≠ 0) : Ifft.ifft lit X = .ok (libIfft lit X) := by
  unfold Ifft.ifft Ifft.ifftWith
  rw [if_neg h]
  rfl

/-! ## sizes of the forward plans -/

theorem stages_size (n : ℕ) (cf : Vec ℝ) (s : ℕ) (y : Vec ℝ) (hy : y.size = n) : (stages n cf s y).size = n := by
  cases s with
  | zero => exact hy
  | succ s => simp [stages]

theorem pow2fft_size (n : ℕ) (x : Vec ℝ) : (pow2fft n x).size = n := by
  unfold pow2fft
  exact stages_size _ _ _ _ (by simp)

theorem smallC_size (lit : Lits ℝ) (n : ℕ) (hs : isSmall n = true) (x : Vec ℝ) : (smallC lit n x).size = n := by
  rcases (C01.isSmall_iff n).mp hs with h | h | h | h <;> subst h <;> simp [smallC]

theorem fftPrime_size (lit : Lits ℝ) (n : ℕ) (x : Vec ℝ) : (fftPrime lit n x).size = n := by
  unfold fftPrime
  split
  · rename_i h; subst h; simp
  · split
    · simp [dftSlow]
    · simp [czt]

theorem fftLeaf_size (lit : Lits ℝ) (n : ℕ) (x : Vec ℝ) : (fftLeaf lit n x).size = n := by
  unfold fftLeaf
  by_cases hs : isSmall n = true
  · rw [if_pos hs]; exact smallC_size lit n hs x
  · rw [if_neg hs]
    split
    · exact fftPrime_size lit n x
    · exact pow2fft_size n x

theorem facfft_size (leaf : ℕ → Vec ℝ → Vec ℝ) (hleaf : ∀ n x, (leaf n x).size = n) (tw : Vec ℝ) (N : ℕ)
    (pl : Plan) (x : Vec ℝ) : (facfft leaf tw N pl x).size = pl.size := by
  cases pl with
  | leaf n => simp [facfft, Plan.size, hleaf]
  | node P Q p q => simp [facfft, Plan.size]

/-- the forward plan of size `n` returns an array of `n` cells, every `0 < n ≤ 2^31` -/
theorem fftC_size (lit : Lits ℝ) (n : ℕ) (hn : 0 < n) (hle : n ≤ 2 ^ 31) (x : Vec ℝ) : (fftC lit n x).size = n := by
  unfold fftC
  by_cases hs : isSmall n = true
  · rw [if_pos hs]; exact smallC_size lit n hs x
  · rw [if_neg hs]
    split
    · exact fftPrime_size lit n x
    · split
      · exact pow2fft_size n x
      · rename_i _ h2
        have hlt : n < 2 ^ 31 := by
          rcases Nat.lt_or_ge n (2 ^ 31) with h | h
          · exact h
          · have e : n = 2 ^ 31 := by omega
            subst e
            exact absurd (C01.ispow2_two_pow 31 (by norm_num)) h2
        have hs' : isSmall n = false := by simpa using hs
        obtain ⟨_, hsz, _⟩ := C01.mkPlan_wf n (C01.two_le_of_not_small n hn hs') hlt
        unfold fftFactor
        rw [facfft_size _ (fun m y => fftLeaf_size lit m y), hsz]

/-! ## bridging: arrays of `Cx ℝ` read with `getD _ 0` vs. `rd` / `seq` -/

theorem fft_zero_eq : (Fft.zero : Cx ℝ) = 0 := by apply Cx.ext' <;> simp [Fft.zero]

theorem rd_eq_getD (x : Vec ℝ) (i : ℕ) : rd x i = x.getD i 0 := by unfold rd; rw [fft_zero_eq]

theorem seq_eq (x : Vec ℝ) (i : ℕ) : seq x i = Cx.toC (x.getD i 0) := by unfold seq; rw [rd_eq_getD]

theorem getD_mulv (A B : Vec ℝ) (k : ℕ) (hk : k < A.size) : (mulv 0 A B).getD k 0 = A.getD k 0 * B.getD k 0 := by
  unfold mulv
  rw [getD_ofFn, dif_pos hk]

/-! ## the hypotheses of T07.2 / T07.3 for the library pair -/

/-- `CircConv` for the library pair at length `L`, from "the forward plan of size `L` is the DFT and returns `L` cells" -/
theorem circConv_of_isDft (lit : Lits ℝ) (L : ℕ) (hL : 0 < L) (hs : ∀ x, (fftC lit L x).size = L)
    (hd : C01.IsDft L (fftC lit L)) : CircConv (libFft lit) (libIfft lit) L := by
  intro a b ha hb
  have hfa : libFft lit a = fftC lit L a := by unfold libFft; rw [ha]
  have hfb : libFft lit b = fftC lit L b := by unfold libFft; rw [hb]
  rw [hfa, hfb]
  have hms : (mulv 0 (fftC lit L a) (fftC lit L b)).size = L := by simp [mulv, hs]
  have hif : libIfft lit (mulv 0 (fftC lit L a) (fftC lit L b)) =
      ifftWith (fftC lit L) L (mulv 0 (fftC lit L a) (fftC lit L b)) := by unfold libIfft; rw [hms]
  rw [hif]
  refine ⟨by simp [ifftWith], fun t ht => ?_⟩
  apply Cx.toC_injective
  rw [← rd_eq_getD, C01.ifftWith_eq _ L hd _ t ht,
    Dsp.C07.idft_congr L _ (fun k => dft L (seq a) k * dft L (seq b) k) t ?_, circ_conv_dft L hL _ _ t ht,
    ← Cx.toCHom_apply, map_sum]
  · apply Finset.sum_congr rfl
    intro n _
    rw [Cx.toCHom_apply, Cx.toC_mul, seq_eq, seq_eq]
  · intro k hk
    rw [seq_eq, getD_mulv _ _ _ (by rw [hs]; exact hk), Cx.toC_mul, ← rd_eq_getD, ← rd_eq_getD, hd a k hk, hd b k hk]

/-- `CircCorr` for the library pair at length `M`, from the same two facts -/
theorem circCorr_of_isDft (lit : Lits ℝ) (M : ℕ) (hM : 0 < M) (hs : ∀ x, (fftC lit M x).size = M)
    (hd : C01.IsDft M (fftC lit M)) : CircCorr Cx.conj (libFft lit) (libIfft lit) M := by
  intro a b ha hb
  have hfa : libFft lit a = fftC lit M a := by unfold libFft; rw [ha]
  have hfb : libFft lit b = fftC lit M b := by unfold libFft; rw [hb]
  rw [hfa, hfb]
  have hms : (mulv 0 ((fftC lit M a).map Cx.conj) (fftC lit M b)).size = M := by simp [mulv, hs]
  have hif : libIfft lit (mulv 0 ((fftC lit M a).map Cx.conj) (fftC lit M b)) =
      ifftWith (fftC lit M) M (mulv 0 ((fftC lit M a).map Cx.conj) (fftC lit M b)) := by unfold libIfft; rw [hms]
  rw [hif]
  refine ⟨by simp [ifftWith], fun t ht => ?_⟩
  apply Cx.toC_injective
  rw [getD_map _ _ _ _ conj_zero, Cx.toC_conj, ← rd_eq_getD, C01.ifftWith_eq _ M hd _ t ht,
    Dsp.C07.idft_congr M _ (fun k => (starRingEnd ℂ) (dft M (seq a) k) * dft M (seq b) k) t ?_,
    circ_corr_dft M hM _ _ t ht, ← Cx.toCHom_apply, map_sum]
  · apply Finset.sum_congr rfl
    intro n _
    rw [Cx.toCHom_apply, Cx.toC_mul, Cx.toC_conj, seq_eq, seq_eq]
  · intro k hk
    rw [seq_eq, getD_mulv _ _ _ (by rw [Array.size_map, hs]; exact hk), Cx.toC_mul, getD_map _ _ _ _ conj_zero,
      Cx.toC_conj, ← rd_eq_getD, ← rd_eq_getD, hd a k hk, hd b k hk]

/-- **the circular convolution theorem holds for the library's `fft` / `ifft`** at every length `0 < L ≤ 2^31`
(any plan: small kernels, Bluestein, radix-2 network, factor tree) -/
theorem circConv_lib (lit : Lits ℝ) (hl : C01.LitsOK lit) (L : ℕ) (hL : 0 < L) (hle : L ≤ 2 ^ 31) :
    CircConv (libFft lit) (libIfft lit) L :=
  circConv_of_isDft lit L hL (fftC_size lit L hL hle) (C01.fftC_eq_le lit hl L hL hle)

/-- **the circular cross-correlation theorem holds for the library's `fft` / `ifft`** at every length `0 < M ≤ 2^31` -/
theorem circCorr_lib (lit : Lits ℝ) (hl : C01.LitsOK lit) (M : ℕ) (hM : 0 < M) (hle : M ≤ 2 ^ 31) :
    CircCorr Cx.conj (libFft lit) (libIfft lit) M :=
  circCorr_of_isDft lit M hM (fftC_size lit M hM hle) (C01.fftC_eq_le lit hl M hM hle)

/-! ## the padded lengths `2^nextpow2(·)` stay below the bound -/

/-- `nextpow2` is the LEAST exponent: `m ≤ 2^k → 2^nextpow2 m ≤ 2^k` -/
theorem two_pow_nextpow2_le (m k : ℕ) (h : m ≤ 2 ^ k) : 2 ^ nextpow2 m ≤ 2 ^ k := by
  apply Nat.pow_le_pow_right (by norm_num)
  unfold nextpow2
  by_cases h1 : m ≤ 1
  · simp [h1]
  · simp only [h1, if_false]
    have hlog : 2 ^ m.log2 ≤ m := Nat.log2_self_le (by omega)
    by_cases h2 : 2 ^ m.log2 = m
    · simp only [h2, if_true]
      exact (Nat.pow_le_pow_iff_right (by norm_num)).mp (le_trans hlog h)
    · simp only [h2, if_false]
      have : 2 ^ m.log2 < 2 ^ k := by omega
      exact (Nat.pow_lt_pow_iff_right (by norm_num)).mp this

/-! ## T07.2 unconditional -/

/-- **T07.2, `FftFilter(arr_cmplx)`, UNCONDITIONAL for the library FFT.**  For every tap vector with `1 ≤ m` and
`2m ≤ 2^31`, every input: `FftFilter::process` (from rest, with the library's `fft`/`ifft`) emits `⌊len/_n⌋·_n` samples,
`_n = 2^nextpow2(2m) − m + 1`, and emitted sample `i` is exactly the sample `FirFilter<cmplx_t>` produces at position `i`
of the same input, which is the defining sum `Σ_{k<m, k≤i} conj(h[k])·x[i−k]`. -/
theorem fftfilter_eq_fir_total_cmplx (lit : Lits ℝ) (hl : C01.LitsOK lit) (h : Array (Cx ℝ)) (hm : 1 ≤ h.size)
    (hb : 2 * h.size ≤ 2 ^ 31) (xs : Array (Cx ℝ)) :
    (fftProcessC (libFft lit) (libIfft lit) (fftInitC (libFft lit) h) xs).2.size =
      xs.size / (2 ^ nextpow2 (2 * h.size) + 1 - h.size) * (2 ^ nextpow2 (2 * h.size) + 1 - h.size) ∧
    ∀ i, i < (fftProcessC (libFft lit) (libIfft lit) (fftInitC (libFft lit) h) xs).2.size →
      i < xs.size ∧
      (fftProcessC (libFft lit) (libIfft lit) (fftInitC (libFft lit) h) xs).2.getD i 0 =
        (firProcessC (firInitC h) xs).2.getD i 0 ∧
      Cx.toC ((fftProcessC (libFft lit) (libIfft lit) (fftInitC (libFft lit) h) xs).2.getD i 0) =
        ∑ k ∈ range h.size,
          if k ≤ i then (starRingEnd ℂ) (Cx.toC (h.getD k 0)) * Cx.toC (xs.getD (i - k) 0) else 0 := by
  have H := circConv_lib lit hl _ (Nat.two_pow_pos (nextpow2 (2 * h.size))) (two_pow_nextpow2_le _ 31 hb)
  obtain ⟨h1, h2⟩ := fftfilter_eq_fir_cmplx (libFft lit) (libIfft lit) h hm H xs
  obtain ⟨_, f2⟩ := fir_eq_cmplx h xs hm
  refine ⟨h1, fun i hi => ?_⟩
  have hle : i < xs.size := by
    have h1' : (fftProcessC (libFft lit) (libIfft lit) (fftInitC (libFft lit) h) xs).2.size =
        xs.size / (2 ^ nextpow2 (2 * h.size) + 1 - h.size) * (2 ^ nextpow2 (2 * h.size) + 1 - h.size) := h1
    have := Nat.div_mul_le_self xs.size (2 ^ nextpow2 (2 * h.size) + 1 - h.size)
    omega
  exact ⟨hle, h2 i hi, by rw [h2 i hi, f2 i hle]⟩

/-- **T07.2, `FftFilter(arr_real)` / `process(arr_real)`, UNCONDITIONAL for the library FFT.**  The real entry points
(`FftFilter(complex(h))`, `real(process(complex(x)))`): `⌊len/_n⌋·_n` samples, each equal to the sample of
`FirFilter<real_t>` at the same position, i.e. to `Σ_{k<m, k≤i} h[k]·x[i−k]`. -/
theorem fftfilter_eq_fir_total_real (lit : Lits ℝ) (hl : C01.LitsOK lit) (h : Array ℝ) (hm : 1 ≤ h.size)
    (hb : 2 * h.size ≤ 2 ^ 31) (xs : Array ℝ) :
    (fftProcessR (libFft lit) (libIfft lit) (fftInitR (libFft lit) h) xs).2.size =
      xs.size / (2 ^ nextpow2 (2 * h.size) + 1 - h.size) * (2 ^ nextpow2 (2 * h.size) + 1 - h.size) ∧
    ∀ i, i < (fftProcessR (libFft lit) (libIfft lit) (fftInitR (libFft lit) h) xs).2.size →
      i < xs.size ∧
      (fftProcessR (libFft lit) (libIfft lit) (fftInitR (libFft lit) h) xs).2.getD i 0 =
        (firProcessR (firInitR h) xs).2.getD i 0 ∧
      (fftProcessR (libFft lit) (libIfft lit) (fftInitR (libFft lit) h) xs).2.getD i 0 =
        ∑ k ∈ range h.size, if k ≤ i then h.getD k 0 * xs.getD (i - k) 0 else 0 := by
  have H := circConv_lib lit hl _ (Nat.two_pow_pos (nextpow2 (2 * h.size))) (two_pow_nextpow2_le _ 31 hb)
  obtain ⟨h1, h2⟩ := fftfilter_eq_fir_real (libFft lit) (libIfft lit) h hm H xs
  obtain ⟨_, f2⟩ := fir_eq_real h xs hm
  have hn : (fftInitR (libFft lit) h).n = 2 ^ nextpow2 (2 * h.size) + 1 - h.size := by
    simp [fftInitR, fftInitC, fftInit, ofRealV]
  rw [hn] at h1
  refine ⟨h1, fun i hi => ?_⟩
  have hle : i < xs.size := by
    have := Nat.div_mul_le_self xs.size (2 ^ nextpow2 (2 * h.size) + 1 - h.size)
    omega
  exact ⟨hle, h2 i hi, by rw [h2 i hi, f2 i hle]⟩

/-! ## T07.3 unconditional -/

/-- **T07.3, `xcorr(arr_cmplx, arr_cmplx)`, UNCONDITIONAL for the library FFT.**  For all non-empty `a`, `b` with
`len a + len b − 1 ≤ 2^31`: the result has `len a + len b − 1` entries and entry `j` (lag `j − (len b − 1)`, EVERY lag
`−(len b − 1) … len a − 1`) is `Σ_n a[n+lag]·conj(b[n])` over the `n` for which both indices are in range. -/
theorem xcorr_eq_total_cmplx (lit : Lits ℝ) (hl : C01.LitsOK lit) (a b : Array (Cx ℝ)) (ha : 1 ≤ a.size) (hb : 1 ≤ b.size)
    (hle : a.size + b.size - 1 ≤ 2 ^ 31) :
    (xcorrC (libFft lit) (libIfft lit) a b).size = a.size + b.size - 1 ∧
    ∀ j, j < a.size + b.size - 1 → Cx.toC ((xcorrC (libFft lit) (libIfft lit) a b).getD j 0) =
      ∑ n ∈ range b.size,
        if b.size - 1 ≤ j + n ∧ j + n - (b.size - 1) < a.size then
          Cx.toC (a.getD (j + n - (b.size - 1)) 0) * (starRingEnd ℂ) (Cx.toC (b.getD n 0)) else 0 :=
  xcorr_eq_cmplx (libFft lit) (libIfft lit) a b ha hb
    (circCorr_lib lit hl _ (Nat.two_pow_pos _) (two_pow_nextpow2_le _ 31 hle))

/-- **T07.3, `xcorr(arr_real, arr_real)`, UNCONDITIONAL for the library FFT**: entry `j` is `Σ_n a[n+lag]·b[n]`,
`lag = j − (len b − 1)`, every lag. -/
theorem xcorr_eq_total_real (lit : Lits ℝ) (hl : C01.LitsOK lit) (a b : Array ℝ) (ha : 1 ≤ a.size) (hb : 1 ≤ b.size)
    (hle : a.size + b.size - 1 ≤ 2 ^ 31) :
    (xcorrR (libFft lit) (libIfft lit) a b).size = a.size + b.size - 1 ∧
    ∀ j, j < a.size + b.size - 1 → (xcorrR (libFft lit) (libIfft lit) a b).getD j 0 =
      ∑ n ∈ range b.size,
        if b.size - 1 ≤ j + n ∧ j + n - (b.size - 1) < a.size then a.getD (j + n - (b.size - 1)) 0 * b.getD n 0 else 0 :=
  xcorr_eq_real (libFft lit) (libIfft lit) a b ha hb
    (circCorr_lib lit hl _ (Nat.two_pow_pos _) (two_pow_nextpow2_le _ 31 hle))

/-! ## T07.2 across calls -/

/-- **T07.2 (state hand-over), UNCONDITIONAL for the library FFT.**  Two consecutive `process` calls on one `FftFilter`
(from rest; frames `xs` then `ys` of ANY lengths, so blocks straddle the call boundary): together they emit
`⌊(len xs + len ys)/_n⌋·_n` samples, and sample `i` of the SECOND call is the sample `FirFilter<cmplx_t>` produces at
position `(number emitted by the first call) + i` of the concatenated input — `_x`, `_nx`, `_olap` lose nothing. -/
theorem fftfilter_two_calls_total (lit : Lits ℝ) (hl : C01.LitsOK lit) (h : Array (Cx ℝ)) (hm : 1 ≤ h.size)
    (hb : 2 * h.size ≤ 2 ^ 31) (xs ys : Array (Cx ℝ)) :
    (fftProcessC (libFft lit) (libIfft lit) (fftInitC (libFft lit) h) xs).2.size +
      (fftProcessC (libFft lit) (libIfft lit) (fftProcessC (libFft lit) (libIfft lit) (fftInitC (libFft lit) h) xs).1 ys).2.size =
      (xs.size + ys.size) / (2 ^ nextpow2 (2 * h.size) + 1 - h.size) * (2 ^ nextpow2 (2 * h.size) + 1 - h.size) ∧
    ∀ i, i < (fftProcessC (libFft lit) (libIfft lit)
        (fftProcessC (libFft lit) (libIfft lit) (fftInitC (libFft lit) h) xs).1 ys).2.size →
      (fftProcessC (libFft lit) (libIfft lit) (fftProcessC (libFft lit) (libIfft lit) (fftInitC (libFft lit) h) xs).1 ys).2.getD i 0 =
        (firProcessC (firInitC h) (xs ++ ys)).2.getD
          ((fftProcessC (libFft lit) (libIfft lit) (fftInitC (libFft lit) h) xs).2.size + i) 0 := by
  have H := circConv_lib lit hl _ (Nat.two_pow_pos (nextpow2 (2 * h.size))) (two_pow_nextpow2_le _ 31 hb)
  have hL := le_two_pow_nextpow2 (2 * h.size)
  unfold fftProcessC fftInitC firProcessC firInitC
  rw [Cx.zeroC_eq]
  have h0 := fft_init_inv Cx.conj (libFft lit) h hm (fun i => (xs ++ ys).getD i 0)
  have h1 := fft_process_inv Cx.conj conj_zero (libFft lit) (libIfft lit) h _ _ (by omega) hm (by omega) H
    (fun i => (xs ++ ys).getD i 0) 0 0 _ xs
    (by intro i hi; show _ = (xs ++ ys).getD (0 + i) 0; rw [getD_append, Nat.zero_add, if_pos hi]) h0
  have h1' := fft_inv_next_call _ _ _ _ _ _ _ _ _ _ h1
  have h2 := fft_process_inv Cx.conj conj_zero (libFft lit) (libIfft lit) h _ _ (by omega) hm (by omega) H
    (fun i => (xs ++ ys).getD i 0) _ _ _ ys
    (by intro i hi; show _ = (xs ++ ys).getD (0 + xs.size + i) 0
        rw [getD_append, Nat.zero_add, if_neg (by omega), Nat.add_sub_cancel_left]) h1'
  obtain ⟨e1, e2⟩ := fft_inv_out _ _ _ _ _ _ _ _ _ _ h2
  simp only [Nat.zero_add] at e1 e2
  refine ⟨e1, fun i hi => ?_⟩
  have hle : (fftProcess 0 (libFft lit) (libIfft lit) (fftInit 0 Cx.conj (libFft lit) h) xs).2.size + i <
      (xs ++ ys).size := by
    have := Nat.div_mul_le_self (xs.size + ys.size) (2 ^ nextpow2 (2 * h.size) + 1 - h.size)
    rw [Array.size_append]
    omega
  rw [e2 i hi, (fir_eq Cx.conj h (xs ++ ys) hm).2 _ hle]
  rfl

/-! ## Non-vacuity: the hypotheses are satisfiable and the conclusions say something at concrete inputs -/
section examples

/-- the two hypotheses of T07.2 / T07.3 hold for the library pair at the exact literals, e.g. at the lengths `8` and `4096` -/
example : CircConv (libFft ⟨√2 / 2, √2 / 2, √3 / 2⟩) (libIfft ⟨√2 / 2, √2 / 2, √3 / 2⟩) 8 ∧
    CircCorr Cx.conj (libFft ⟨√2 / 2, √2 / 2, √3 / 2⟩) (libIfft ⟨√2 / 2, √2 / 2, √3 / 2⟩) 4096 :=
  ⟨circConv_lib _ C01.litsOK_exact 8 (by norm_num) (by norm_num), circCorr_lib _ C01.litsOK_exact 4096 (by norm_num) (by norm_num)⟩

/-- … and at a length that is NOT a power of two (factor tree): the discharge does not depend on the plan -/
example : CircConv (libFft ⟨√2 / 2, √2 / 2, √3 / 2⟩) (libIfft ⟨√2 / 2, √2 / 2, √3 / 2⟩) 1000 :=
  circConv_lib _ C01.litsOK_exact 1000 (by norm_num) (by norm_num)

/-- 3 real taps: `fft_len = 8`, `_n = 6`; any input: `⌊len/6⌋·6` samples come out -/
example (xs : Array ℝ) :
    (fftProcessR (libFft ⟨√2 / 2, √2 / 2, √3 / 2⟩) (libIfft ⟨√2 / 2, √2 / 2, √3 / 2⟩)
      (fftInitR (libFft ⟨√2 / 2, √2 / 2, √3 / 2⟩) #[1, 2, 3]) xs).2.size = xs.size / 6 * 6 := by
  have e : 2 ^ nextpow2 (2 * 3) + 1 - 3 = 6 := by decide
  have := (fftfilter_eq_fir_total_real _ C01.litsOK_exact #[1, 2, 3] (by simp) (by simp) xs).1
  simpa [e] using this

/-- a concrete value: taps `[1, 2]` (`fft_len = 4`, `_n = 3`), input `[3, 4, 5]`: the overlap-add filter running the
library's size-4 plan and `IfftPlan(4)` emits 3 samples and the last one is `1·5 + 2·4 = 13` -/
example :
    (fftProcessR (libFft ⟨√2 / 2, √2 / 2, √3 / 2⟩) (libIfft ⟨√2 / 2, √2 / 2, √3 / 2⟩)
      (fftInitR (libFft ⟨√2 / 2, √2 / 2, √3 / 2⟩) #[1, 2]) #[3, 4, 5]).2.size = 3 ∧
    (fftProcessR (libFft ⟨√2 / 2, √2 / 2, √3 / 2⟩) (libIfft ⟨√2 / 2, √2 / 2, √3 / 2⟩)
      (fftInitR (libFft ⟨√2 / 2, √2 / 2, √3 / 2⟩) #[1, 2]) #[3, 4, 5]).2.getD 2 0 = 13 := by
  have e : 2 ^ nextpow2 (2 * 2) + 1 - 2 = 3 := by decide
  obtain ⟨h1, h2⟩ := fftfilter_eq_fir_total_real _ C01.litsOK_exact #[1, 2] (by simp) (by simp) #[3, 4, 5]
  have hs : (fftProcessR (libFft ⟨√2 / 2, √2 / 2, √3 / 2⟩) (libIfft ⟨√2 / 2, √2 / 2, √3 / 2⟩)
      (fftInitR (libFft ⟨√2 / 2, √2 / 2, √3 / 2⟩) #[1, 2]) #[3, 4, 5]).2.size = 3 := by
    rw [h1]
    simp [e]
  refine ⟨hs, ?_⟩
  rw [(h2 2 (by rw [hs]; norm_num)).2.2]
  simp [Finset.sum_range_succ]
  norm_num

/-- complex taps, any input, through the complex entry point -/
example (xs : Array (Cx ℝ)) (i : ℕ)
    (hi : i < (fftProcessC (libFft ⟨√2 / 2, √2 / 2, √3 / 2⟩) (libIfft ⟨√2 / 2, √2 / 2, √3 / 2⟩)
      (fftInitC (libFft ⟨√2 / 2, √2 / 2, √3 / 2⟩) #[⟨0, 1⟩, ⟨2, -1⟩, ⟨1, 1⟩]) xs).2.size) :
    (fftProcessC (libFft ⟨√2 / 2, √2 / 2, √3 / 2⟩) (libIfft ⟨√2 / 2, √2 / 2, √3 / 2⟩)
      (fftInitC (libFft ⟨√2 / 2, √2 / 2, √3 / 2⟩) #[⟨0, 1⟩, ⟨2, -1⟩, ⟨1, 1⟩]) xs).2.getD i 0 =
    (firProcessC (firInitC #[⟨0, 1⟩, ⟨2, -1⟩, ⟨1, 1⟩]) xs).2.getD i 0 :=
  ((fftfilter_eq_fir_total_cmplx _ C01.litsOK_exact #[⟨0, 1⟩, ⟨2, -1⟩, ⟨1, 1⟩] (by simp) (by simp) xs).2 i hi).2.1

/-- `xcorr([1,2,3], [4,5])` with the library's size-4 transforms: 4 lags; lag 0 (entry 1) is `1·4 + 2·5 = 14`,
lag −1 (entry 0) is `1·5 = 5`, lag 2 (entry 3) is `3·4 = 12` -/
example :
    (xcorrR (libFft ⟨√2 / 2, √2 / 2, √3 / 2⟩) (libIfft ⟨√2 / 2, √2 / 2, √3 / 2⟩) #[1, 2, 3] #[4, 5]).size = 4 ∧
    (xcorrR (libFft ⟨√2 / 2, √2 / 2, √3 / 2⟩) (libIfft ⟨√2 / 2, √2 / 2, √3 / 2⟩) #[1, 2, 3] #[4, 5]).getD 1 0 = 14 ∧
    (xcorrR (libFft ⟨√2 / 2, √2 / 2, √3 / 2⟩) (libIfft ⟨√2 / 2, √2 / 2, √3 / 2⟩) #[1, 2, 3] #[4, 5]).getD 0 0 = 5 ∧
    (xcorrR (libFft ⟨√2 / 2, √2 / 2, √3 / 2⟩) (libIfft ⟨√2 / 2, √2 / 2, √3 / 2⟩) #[1, 2, 3] #[4, 5]).getD 3 0 = 12 := by
  obtain ⟨h1, h2⟩ := xcorr_eq_total_real _ C01.litsOK_exact #[1, 2, 3] #[4, 5] (by simp) (by simp) (by simp)
  refine ⟨by simpa using h1, ?_, ?_, ?_⟩
  · rw [h2 1 (by simp)]; simp [Finset.sum_range_succ]; norm_num
  · rw [h2 0 (by simp)]; simp [Finset.sum_range_succ]
  · rw [h2 3 (by simp)]; simp [Finset.sum_range_succ]; norm_num

/-- complex `xcorr`, any inputs of sizes 5 and 3 (FFT length 8), any lag -/
example (a b : Array (Cx ℝ)) (ha : a.size = 5) (hb : b.size = 3) :
    (xcorrC (libFft ⟨√2 / 2, √2 / 2, √3 / 2⟩) (libIfft ⟨√2 / 2, √2 / 2, √3 / 2⟩) a b).size = 7 := by
  have := (xcorr_eq_total_cmplx _ C01.litsOK_exact a b (by omega) (by omega) (by rw [ha, hb]; norm_num)).1
  rw [this, ha, hb]

/-- two calls with frames of 4 and 5 samples through a 2-tap filter (`_n = 3`): 9 samples in, 9 out in total -/
example (xs ys : Array (Cx ℝ)) (hx : xs.size = 4) (hy : ys.size = 5) :
    (fftProcessC (libFft ⟨√2 / 2, √2 / 2, √3 / 2⟩) (libIfft ⟨√2 / 2, √2 / 2, √3 / 2⟩)
        (fftInitC (libFft ⟨√2 / 2, √2 / 2, √3 / 2⟩) #[⟨1, 0⟩, ⟨0, 1⟩]) xs).2.size +
      (fftProcessC (libFft ⟨√2 / 2, √2 / 2, √3 / 2⟩) (libIfft ⟨√2 / 2, √2 / 2, √3 / 2⟩)
        (fftProcessC (libFft ⟨√2 / 2, √2 / 2, √3 / 2⟩) (libIfft ⟨√2 / 2, √2 / 2, √3 / 2⟩)
          (fftInitC (libFft ⟨√2 / 2, √2 / 2, √3 / 2⟩) #[⟨1, 0⟩, ⟨0, 1⟩]) xs).1 ys).2.size = 9 := by
  have e : 2 ^ nextpow2 (2 * 2) + 1 - 2 = 3 := by decide
  have := (fftfilter_two_calls_total _ C01.litsOK_exact #[⟨1, 0⟩, ⟨0, 1⟩] (by simp) (by simp) xs ys).1
  rw [this, hx, hy]
  simp [e]

end examples

end Dsp.C07
