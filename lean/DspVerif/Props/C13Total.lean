import DspVerif.Props.C13
import DspVerif.Props.C01Total
/-!
# C13 — the theorems of `Props/C13.lean` WITHOUT a transform hypothesis

`Props/C13.lean` has the transform as a parameter `fft` and "`fft n` is the `n`-point DFT of the zero-padded / truncated segment"
(`IsDftR` / `IsDftC`) as a hypothesis.  The driver (`Driver/H13.lean`: `fftR13 n x = fftRN lits13 n x`, `fftC13 n x = fftCN lits13 n x`)
runs `welchR` / `welchC` / `mscohere` on top of C01's model of the library's own `fft(seg, nfft)`: `Fft.fftRN lit` / `Fft.fftCN lit`.
`Props/C01Total.lean` proves `fftRN_eq_total` / `fftCN_eq_total` (every target length `0 < n' < 2^31`), so for that instantiation the
hypothesis is a theorem (`isDftR_fftRN`, `isDftC_fftCN`).  This file restates every clause of C13 for `fft := fftRN lit` /
`fft := fftCN lit` at `ℝ`.  What is left as hypothesis:

* `LitsOK lit` — the three literals of the small kernels denote `√½`, `√½`, `√¾` (`C01.litsOK_exact`);
* `nfft < 2^31` — every value of the `int` argument (`0 < nfft` and "power of two" follow from the call being accepted);
* the size / divisor hypotheses the originals carry (`winlen ≤ nfft`, `winlen ≤ len`, the divisors `dot(w,w)`, `sum(w)`, the
  auto-spectra `≠ 0`).  The parity hypothesis `2 ∣ nfft` of the originals is DERIVED here from `2 ≤ nfft` (an accepted size is a
  power of two: `accepted_pow2`).

* bridges   `isDftR_fftRN`, `isDftC_fftCN`, `welchR_accepted`, `welchC_accepted`, `mscohere_accepted`
* T13.1     `welchR_size_total`, `welchC_size_total`, `welchR_nonneg_total`, `welchC_nonneg_total` (re-exports: no transform
            hypothesis was needed), `welchR_power_total`, `welchC_power_total`
* T13.2     `welchC_tone_value_total`, `welchC_tone_peak_total`, `welchC_tone_max_total`, `welchR_tone_bound_total`,
            `welchR_cos_tone_total`
* T13.3     `welchR_labels_total`, `welchC_labels_partial_total`, `welchC_axis_offset_total`, `welchC_axis_witness_total`
* T13.4     `mscohere_range_total` (re-export), `mscohere_scaled_copy_total`
-/
open Finset Complex

namespace Dsp.C13
open Dsp.C07 Dsp.Fft Dsp.Spectrum Dsp.Primes Dsp.C01

/-! ## the hypothesis `IsDftR` / `IsDftC` is a theorem for the library's transform -/

/-- `fft(arr_real, n)` / `rfft(x, n)` of the library (model `Fft.fftRN`) satisfies `IsDftR n`, every `0 < n < 2^31` -/
theorem isDftR_fftRN (lit : Lits ℝ) (hl : LitsOK lit) (n : ℕ) (hn : 0 < n) (hlt : n < 2 ^ 31) :
    IsDftR n (fftRN lit n) :=
  isDftR_of_pad n _ (fun y k hk => fftRN_eq_total lit hl n hn hlt y k hk)

/-- `fft(arr_cmplx, n)` of the library (model `Fft.fftCN`) satisfies `IsDftC n`, every `0 < n < 2^31` -/
theorem isDftC_fftCN (lit : Lits ℝ) (hl : LitsOK lit) (n : ℕ) (hn : 0 < n) (hlt : n < 2 ^ 31) :
    IsDftC n (fftCN lit n) :=
  isDftC_of_pad n _ (fun y k hk => fftCN_eq_total lit hl n hn hlt y k hk)

/-- an accepted size inside the `int` range: `0 < nfft.toNat < 2^31` -/
theorem toNat_bounds {nfft : ℤ} (h0 : 0 < nfft) (hb : nfft < 2 ^ 31) : 0 < nfft.toNat ∧ nfft.toNat < 2 ^ 31 := by
  constructor <;> omega

/-- an accepted `welch` call (any transform): `nfft` is positive, and `nfft ≥ 2` gives the parity (accepted sizes are powers of two) -/
theorem welchR_accepted {fft : ℕ → Array ℝ → Vec ℝ} {x win : Array ℝ} {nov nfft : ℤ} {psd : Bool} {pxx f : Array ℝ}
    (h : welchR fft x win nov nfft psd = .ok (pxx, f)) : 0 < nfft ∧ (2 ≤ nfft → 2 ∣ nfft.toNat) := by
  obtain ⟨pl, hp, _, _⟩ := welchR_ok h
  exact ⟨(plan_ok hp).1, (accepted_pow2 hp).2⟩

theorem welchC_accepted {fft : ℕ → Vec ℝ → Vec ℝ} {x : Vec ℝ} {win : Array ℝ} {nov nfft : ℤ} {psd : Bool} {pxx f : Array ℝ}
    (h : welchC fft x win nov nfft psd = .ok (pxx, f)) : 0 < nfft ∧ (2 ≤ nfft → 2 ∣ nfft.toNat) := by
  obtain ⟨pl, hp, _, _⟩ := welchC_ok h
  exact ⟨(plan_ok hp).1, (accepted_pow2 hp).2⟩

theorem mscohere_accepted {fft : ℕ → Array ℝ → Vec ℝ} {x y win : Array ℝ} {nov nfft : ℤ} {c : Array ℝ}
    (h : mscohere fft x y win nov nfft = .ok c) : 0 < nfft := by
  obtain ⟨_, pl, hp, _⟩ := mscohere_ok h
  exact (plan_ok hp).1

/-- the hypothesis `hfft` of the real-input theorems, for an accepted call on the library's transform -/
theorem welchR_isDft {lit : Lits ℝ} (hl : LitsOK lit) {x win : Array ℝ} {nov nfft : ℤ} {psd : Bool} {pxx f : Array ℝ}
    (h : welchR (fftRN lit) x win nov nfft psd = .ok (pxx, f)) (hb : nfft < 2 ^ 31) :
    IsDftR nfft.toNat (fftRN lit nfft.toNat) := by
  obtain ⟨h0, h1⟩ := toNat_bounds (welchR_accepted h).1 hb
  exact isDftR_fftRN lit hl _ h0 h1

/-- the hypothesis `hfft` of the complex-input theorems, for an accepted call on the library's transform -/
theorem welchC_isDft {lit : Lits ℝ} (hl : LitsOK lit) {x : Vec ℝ} {win : Array ℝ} {nov nfft : ℤ} {psd : Bool} {pxx f : Array ℝ}
    (h : welchC (fftCN lit) x win nov nfft psd = .ok (pxx, f)) (hb : nfft < 2 ^ 31) :
    IsDftC nfft.toNat (fftCN lit nfft.toNat) := by
  obtain ⟨h0, h1⟩ := toNat_bounds (welchC_accepted h).1 hb
  exact isDftC_fftCN lit hl _ h0 h1

/-- the guards accept exactly when `plan` does, real input (non-vacuity: accepted calls exist) -/
theorem welchR_accepts (fft : ℕ → Array ℝ → Vec ℝ) (x win : Array ℝ) (nov nfft : ℤ) (psd : Bool) (pl : Spectrum.Plan)
    (hp : plan x.size win.size nov nfft = .ok pl) : ∃ pxx f, welchR fft x win nov nfft psd = .ok (pxx, f) := by
  unfold welchR
  rw [hp]
  exact ⟨_, _, rfl⟩

/-- … and `mscohere`, for signals of equal length -/
theorem mscohere_accepts (fft : ℕ → Array ℝ → Vec ℝ) (x y win : Array ℝ) (nov nfft : ℤ) (pl : Spectrum.Plan)
    (hs : x.size = y.size) (hp : plan x.size win.size nov nfft = .ok pl) : ∃ c, mscohere fft x y win nov nfft = .ok c := by
  unfold mscohere
  rw [if_neg (not_not.mpr hs), hp]
  exact ⟨_, rfl⟩

/-! ## T13.1 sizes, signs (re-exports), conservation of power -/

section T1
variable {lit : Lits ℝ} {win : Array ℝ} {nov nfft : ℤ} {pxx f : Array ℝ}

/-- T13.1 sizes, real input, on the library's transform (`welchR_size` holds for every transform) -/
theorem welchR_size_total {x : Array ℝ} {psd : Bool} (h : welchR (fftRN lit) x win nov nfft psd = .ok (pxx, f)) :
    pxx.size = nfft.toNat / 2 + 1 ∧ f.size = nfft.toNat / 2 + 1 := welchR_size h

/-- T13.1 sizes, complex input: `pxx` has `nfft` entries and so has `f` for every accepted `nfft ≥ 2` (the parity is derived) -/
theorem welchC_size_total {x : Vec ℝ} {psd : Bool} (h : welchC (fftCN lit) x win nov nfft psd = .ok (pxx, f)) (h2 : 2 ≤ nfft) :
    pxx.size = nfft.toNat ∧ f.size = nfft.toNat :=
  ⟨(welchC_size h).1, (welchC_size h).2 ((welchC_accepted h).2 h2)⟩

/-- T13.1 non-negative values, real input (`welchR_nonneg` holds for every transform) -/
theorem welchR_nonneg_total {x : Array ℝ} {psd : Bool} (h : welchR (fftRN lit) x win nov nfft psd = .ok (pxx, f))
    (hNL : win.size ≤ x.size) (hw : winpow psd win ≠ 0) (hn : 2 ≤ nfft.toNat) (k : ℕ) (hk : k < nfft.toNat / 2 + 1) :
    0 ≤ rdR pxx k := welchR_nonneg h hNL hw hn k hk

/-- T13.1 non-negative values, complex input -/
theorem welchC_nonneg_total {x : Vec ℝ} {psd : Bool} (h : welchC (fftCN lit) x win nov nfft psd = .ok (pxx, f))
    (hNL : win.size ≤ x.size) (hw : winpow psd win ≠ 0) (j : ℕ) (hj : j < nfft.toNat) : 0 ≤ rdR pxx j :=
  welchC_nonneg h hNL hw j hj

/-- **T13.1 `welch_power`, real input, unconditional**: for the library's own `fft(seg, nfft)`, every accepted `2 ≤ nfft < 2^31`
(a power of two), `winlen ≤ nfft`, `winlen ≤ len`, `dot(w,w) ≠ 0`:
`∑_k pxx[k] = nfft · mean_i(∑_t (x[i·hop+t]·w[t])²) / (w·w)` -/
theorem welchR_power_total (hl : LitsOK lit) {x : Array ℝ} (h : welchR (fftRN lit) x win nov nfft true = .ok (pxx, f))
    (h2 : 2 ≤ nfft) (hb : nfft < 2 ^ 31) (hL : win.size ≤ nfft.toNat) (hNL : win.size ≤ x.size) (hw : dotWW win ≠ 0) :
    ∑ k ∈ range (nfft.toNat / 2 + 1), rdR pxx k =
      (nfft.toNat : ℝ) * ((∑ i ∈ range (nsegs x.size win.size nov), segPowR x win (i * hop win.size nov)) /
        (nsegs x.size win.size nov : ℝ)) / dotWW win :=
  welchR_power h (welchR_isDft hl h hb) ((welchR_accepted h).2 h2) hL hNL hw

/-- **T13.1 `welch_power`, complex input, unconditional**: every accepted `nfft < 2^31` -/
theorem welchC_power_total (hl : LitsOK lit) {x : Vec ℝ} (h : welchC (fftCN lit) x win nov nfft true = .ok (pxx, f))
    (hb : nfft < 2 ^ 31) (hL : win.size ≤ nfft.toNat) (hNL : win.size ≤ x.size) (hw : dotWW win ≠ 0) :
    ∑ j ∈ range nfft.toNat, rdR pxx j =
      (nfft.toNat : ℝ) * ((∑ i ∈ range (nsegs x.size win.size nov), segPowC x win (i * hop win.size nov)) /
        (nsegs x.size win.size nov : ℝ)) / dotWW win :=
  welchC_power h (welchC_isDft hl h hb) hL hNL hw

end T1

/-! ## T13.2 bin-centred tones in `Power` scaling -/

section T2
variable {lit : Lits ℝ} {win : Array ℝ} {nov nfft : ℤ} {pxx f : Array ℝ}

/-- T13.2, every bin, unconditional: `|a|²·|W(j - k0)|² / (∑w)²` at every position `j` -/
theorem welchC_tone_value_total (hl : LitsOK lit) {x : Vec ℝ} (h : welchC (fftCN lit) x win nov nfft false = .ok (pxx, f))
    (hb : nfft < 2 ^ 31) (hL : win.size ≤ nfft.toNat) (hNL : win.size ≤ x.size) (hsw : sumW win ≠ 0)
    (a : ℂ) (k0 : ℕ) (htone : ∀ u < x.size, Cx.toC (rd x u) = a * (ω nfft.toNat (k0 * u))⁻¹)
    (j : ℕ) (hj : j < nfft.toNat) :
    rdR pxx j = normSq a * normSq (winShift nfft.toNat win k0 j) / (sumW win * sumW win) :=
  welchC_tone_value h (welchC_isDft hl h hb) hL hNL hsw a k0 htone j hj

/-- **T13.2, unconditional**: at the tone's own bin the `Power`-scaled estimate of the library's `welch` is exactly `|a|²` -/
theorem welchC_tone_peak_total (hl : LitsOK lit) {x : Vec ℝ} (h : welchC (fftCN lit) x win nov nfft false = .ok (pxx, f))
    (hb : nfft < 2 ^ 31) (hL : win.size ≤ nfft.toNat) (hNL : win.size ≤ x.size) (hsw : sumW win ≠ 0)
    (a : ℂ) (k0 : ℕ) (hk0 : k0 < nfft.toNat) (htone : ∀ u < x.size, Cx.toC (rd x u) = a * (ω nfft.toNat (k0 * u))⁻¹) :
    rdR pxx k0 = normSq a :=
  welchC_tone_peak h (welchC_isDft hl h hb) hL hNL hsw a k0 hk0 htone

/-- **T13.2, unconditional**: for a non-negative window no entry exceeds the one at the tone's bin -/
theorem welchC_tone_max_total (hl : LitsOK lit) {x : Vec ℝ} (h : welchC (fftCN lit) x win nov nfft false = .ok (pxx, f))
    (hb : nfft < 2 ^ 31) (hL : win.size ≤ nfft.toNat) (hNL : win.size ≤ x.size) (hsw : sumW win ≠ 0)
    (hwpos : ∀ t < win.size, 0 ≤ rdR win t)
    (a : ℂ) (k0 : ℕ) (hk0 : k0 < nfft.toNat) (htone : ∀ u < x.size, Cx.toC (rd x u) = a * (ω nfft.toNat (k0 * u))⁻¹)
    (j : ℕ) (hj : j < nfft.toNat) : rdR pxx j ≤ rdR pxx k0 :=
  welchC_tone_max h (welchC_isDft hl h hb) hL hNL hsw hwpos a k0 hk0 htone j hj

/-- T13.2, real sinusoid in exponential form, unconditional: `2|a|²` up to the relative error `2r + r²`, `r = |S(2k0)| / |∑w|` -/
theorem welchR_tone_bound_total (hl : LitsOK lit) {x : Array ℝ} (h : welchR (fftRN lit) x win nov nfft false = .ok (pxx, f))
    (hb : nfft < 2 ^ 31) (hL : win.size ≤ nfft.toNat) (hNL : win.size ≤ x.size) (hsw : sumW win ≠ 0)
    (a : ℂ) (k0 : ℕ) (hk0 : 0 < k0) (hk0' : k0 < nfft.toNat / 2)
    (htone : ∀ u < x.size, ((rdR x u : ℝ) : ℂ) =
      a * (ω nfft.toNat (k0 * u))⁻¹ + (starRingEnd ℂ) a * ω nfft.toNat (k0 * u)) :
    |rdR pxx k0 - 2 * normSq a| ≤ 2 * normSq a *
      (2 * (‖winImage nfft.toNat win k0‖ / |sumW win|) + (‖winImage nfft.toNat win k0‖ / |sumW win|) ^ 2) :=
  welchR_tone_bound h (welchR_isDft hl h hb) hL hNL hsw a k0 hk0 hk0' htone

/-- **T13.2, real sinusoid `A·cos(2π k0 u/nfft + φ)`, unconditional**: the entry at bin `k0` is `A²/2` up to `(A²/2)·(2r + r²)` -/
theorem welchR_cos_tone_total (hl : LitsOK lit) {x : Array ℝ} (h : welchR (fftRN lit) x win nov nfft false = .ok (pxx, f))
    (hb : nfft < 2 ^ 31) (hL : win.size ≤ nfft.toNat) (hNL : win.size ≤ x.size) (hsw : sumW win ≠ 0)
    (A φ : ℝ) (k0 : ℕ) (hk0 : 0 < k0) (hk0' : k0 < nfft.toNat / 2)
    (htone : ∀ u < x.size, rdR x u = A * Real.cos (2 * Real.pi * ((k0 * u : ℕ) : ℝ) / (nfft.toNat : ℝ) + φ)) :
    |rdR pxx k0 - A ^ 2 / 2| ≤ A ^ 2 / 2 *
      (2 * (‖winImage nfft.toNat win k0‖ / |sumW win|) + (‖winImage nfft.toNat win k0‖ / |sumW win|) ^ 2) :=
  welchR_cos_tone h (welchR_isDft hl h hb) hL hNL hsw A φ k0 hk0 hk0' htone

end T2

/-! ## T13.3 frequency labels -/

section T3
variable {lit : Lits ℝ} {win : Array ℝ} {nov nfft : ℤ} {psd : Bool} {pxx f : Array ℝ}

/-- **T13.3 `freq_labels`, real input, unconditional**: entry `k` of `f` is `k / nfft`, and entry `k` of `pxx` is the (one-sided)
mean power of DFT bin `k` of the windowed segments — for the library's own transform, every accepted `2 ≤ nfft < 2^31` -/
theorem welchR_labels_total (hl : LitsOK lit) {x : Array ℝ} (h : welchR (fftRN lit) x win nov nfft psd = .ok (pxx, f))
    (hb : nfft < 2 ^ 31) (hNL : win.size ≤ x.size) (hn : 2 ≤ nfft.toNat) (k : ℕ) (hk : k < nfft.toNat / 2 + 1) :
    rdR f k = (k : ℝ) / (nfft.toNat : ℝ) ∧
    rdR pxx k = (if k = 0 ∨ k = nfft.toNat / 2 then (1 : ℝ) else 2) *
      ((∑ i ∈ range (nsegs x.size win.size nov),
        normSq (dft nfft.toNat (seqR (segR x win (i * hop win.size nov))) k) / winpow psd win) / (nsegs x.size win.size nov : ℝ)) :=
  welchR_labels h (welchR_isDft hl h hb) hNL hn k hk

/-- T13.3, complex input, what the code does, unconditional in the transform (`…_partial`: the FULL clause — "entry `j` of `f` is
the frequency of entry `j` of `pxx`" — is false on the current tree, `welchC_axis_offset_total`): entry `j` of `pxx` is the mean
power of DFT bin `j` (transform order), entry `j` of `f` is the centred-axis value `(j - nfft/2 + 1)/nfft` -/
theorem welchC_labels_partial_total (hl : LitsOK lit) {x : Vec ℝ} (h : welchC (fftCN lit) x win nov nfft psd = .ok (pxx, f))
    (h2 : 2 ≤ nfft) (hb : nfft < 2 ^ 31) (hNL : win.size ≤ x.size) (j : ℕ) (hj : j < nfft.toNat) :
    rdR f j = ((j : ℝ) - (nfft.toNat : ℝ) / 2 + 1) / (nfft.toNat : ℝ) ∧
    rdR pxx j = (∑ i ∈ range (nsegs x.size win.size nov),
        normSq (dft nfft.toNat (seq (segC x win (i * hop win.size nov))) j) / winpow psd win) / (nsegs x.size win.size nov : ℝ) :=
  welchC_labels_partial h (welchC_isDft hl h hb) hNL ((welchC_accepted h).2 h2) j hj

/-- T13.3, complex input, the recorded finding `C13:complex-welch-axis` for the library's transform: every accepted `nfft ≥ 4`
(parity derived), every position `j`: label minus true frequency is `1/nfft - 1/2 ∈ (-1/2, 0)` -/
theorem welchC_axis_offset_total {x : Vec ℝ} (h : welchC (fftCN lit) x win nov nfft psd = .ok (pxx, f))
    (h4 : 4 ≤ nfft) (j : ℕ) (hj : j < nfft.toNat) :
    rdR f j - (j : ℝ) / (nfft.toNat : ℝ) = 1 / (nfft.toNat : ℝ) - 1 / 2 ∧
    -(1 / 2 : ℝ) < 1 / (nfft.toNat : ℝ) - 1 / 2 ∧ 1 / (nfft.toNat : ℝ) - 1 / 2 < 0 :=
  welchC_axis_offset h ((welchC_accepted h).2 (by omega)) (by omega) j hj

end T3

/-- T13.3, complex input, the witness replayed by the oracle, on the library's OWN transform (no hypothesis but the literals):
`nfft = 8`, rectangular window, the tone at `+0.25`: accepted, maximum `1` at position 2, listed frequency `-1/8 ≠ 1/4` -/
theorem welchC_axis_witness_total (lit : Lits ℝ) (hl : LitsOK lit) :
    ∃ pxx f, welchC (fftCN lit) tone8 ones8 0 8 false = .ok (pxx, f) ∧ rdR pxx 2 = 1 ∧ (∀ j < 8, rdR pxx j ≤ rdR pxx 2) ∧
      rdR f 2 = -(1 / 8 : ℝ) ∧ rdR f 2 ≠ (2 : ℝ) / 8 :=
  welchC_axis_witness (fftCN lit) (isDftC_fftCN lit hl 8 (by norm_num) (by norm_num))

/-! ## T13.4 magnitude-squared coherence -/

section T4
variable {lit : Lits ℝ} {x y win : Array ℝ} {nov nfft : ℤ} {c : Array ℝ}

/-- **T13.4** `mscohere ∈ [0, 1]` on the library's transform (`mscohere_range` holds for every transform: Cauchy–Schwarz) -/
theorem mscohere_range_total (h : mscohere (fftRN lit) x y win nov nfft = .ok c) (hNL : win.size ≤ x.size)
    (k : ℕ) (hk : k < nfft.toNat / 2 + 1)
    (hx : autoSpec (fftRN lit) x win nov nfft k ≠ 0) (hy : autoSpec (fftRN lit) y win nov nfft k ≠ 0) :
    0 ≤ rdR c k ∧ rdR c k ≤ 1 := mscohere_range h hNL k hk hx hy

/-- **T13.4, unconditional** (`mscohere_scaled_copy` uses the linearity of the transform, i.e. `IsDftR`): `y = s·x`, `s ≠ 0`
gives coherence `1` at every bin where the spectrum of `x` is not zero — for the library's transform, every accepted `nfft < 2^31` -/
theorem mscohere_scaled_copy_total (hl : LitsOK lit) (h : mscohere (fftRN lit) x y win nov nfft = .ok c) (hb : nfft < 2 ^ 31)
    (hNL : win.size ≤ x.size) (s : ℝ) (hs : s ≠ 0) (hy : ∀ t, rdR y t = s * rdR x t)
    (k : ℕ) (hk : k < nfft.toNat / 2 + 1) (hx : autoSpec (fftRN lit) x win nov nfft k ≠ 0) : rdR c k = 1 := by
  obtain ⟨h0, h1⟩ := toNat_bounds (mscohere_accepted h) hb
  exact mscohere_scaled_copy h (isDftR_fftRN lit hl _ h0 h1) hNL s hs hy k hk hx

end T4

/-! ## non-vacuity: exact literals, concrete sizes, accepted calls -/

/-- the exact literals (`litsOK_exact`) -/
noncomputable abbrev litX : Lits ℝ := ⟨√2 / 2, √2 / 2, √3 / 2⟩

/-- the bridged hypotheses at concrete sizes inside the property's range 8..4096 -/
example : IsDftR 8 (fftRN litX 8) ∧ IsDftR 4096 (fftRN litX 4096) ∧ IsDftC 8 (fftCN litX 8) ∧ IsDftC 4096 (fftCN litX 4096) :=
  ⟨isDftR_fftRN _ litsOK_exact 8 (by norm_num) (by norm_num), isDftR_fftRN _ litsOK_exact 4096 (by norm_num) (by norm_num),
   isDftC_fftCN _ litsOK_exact 8 (by norm_num) (by norm_num), isDftC_fftCN _ litsOK_exact 4096 (by norm_num) (by norm_num)⟩

theorem size_ones8 : ones8.size = 8 := by simp [ones8]

theorem dotWW_ones8 : dotWW ones8 = 8 := by
  rw [dotWW_eq, size_ones8]
  simp [Finset.sum_range_succ, rdR_ones8]
  norm_num

/-- a real signal of 20 samples (any values: here `u ↦ u`) -/
noncomputable def ramp20 : Array ℝ := Array.ofFn (n := 20) (fun i => (i.val : ℝ))

theorem size_ramp20 : ramp20.size = 20 := by simp [ramp20]

theorem plan_ramp20 : plan ramp20.size ones8.size 4 8 = .ok ⟨8, 4, 4⟩ := by rw [size_ramp20, size_ones8]; rfl

/-- `welchR_power_total` / `welchR_labels_total` / `welchR_nonneg_total` / `welchR_size_total` at a concrete accepted call:
20 samples, rectangular 8-window, overlap 4, `nfft = 8`, exact literals — every hypothesis holds -/
example : ∃ pxx f, welchR (fftRN litX) ramp20 ones8 4 8 true = .ok (pxx, f) ∧
    (∑ k ∈ range 5, rdR pxx k = (8 : ℝ) * ((∑ i ∈ range (nsegs 20 8 4), segPowR ramp20 ones8 (i * hop 8 4)) /
        (nsegs 20 8 4 : ℝ)) / 8) ∧
    (∀ k < 5, rdR f k = (k : ℝ) / 8 ∧ 0 ≤ rdR pxx k) ∧ pxx.size = 5 := by
  obtain ⟨pxx, f, h⟩ := welchR_accepts (fftRN litX) ramp20 ones8 4 8 true _ plan_ramp20
  have hL : ones8.size ≤ (8 : ℤ).toNat := by rw [size_ones8]; decide
  have hNL : ones8.size ≤ ramp20.size := by rw [size_ones8, size_ramp20]; decide
  have hw : dotWW ones8 ≠ 0 := by rw [dotWW_ones8]; norm_num
  refine ⟨pxx, f, h, ?_, ?_, ?_⟩
  · have := welchR_power_total litsOK_exact h (by norm_num) (by norm_num) hL hNL hw
    rw [size_ramp20, size_ones8, dotWW_ones8] at this
    exact_mod_cast this
  · intro k hk
    have hk' : k < (8 : ℤ).toNat / 2 + 1 := by change k < 5; exact hk
    have h1 := (welchR_labels_total litsOK_exact h (by norm_num) hNL (by decide) k hk').1
    have h2 := welchR_nonneg_total h hNL (by simpa [winpow] using hw) (by decide) k hk'
    refine ⟨?_, h2⟩
    have hn : (8 : ℤ).toNat = 8 := rfl
    rw [h1, hn]; norm_num
  · exact (welchR_size_total h).1

/-- a complex signal of 20 samples -/
noncomputable def cramp20 : Vec ℝ := mk 20 (fun u => ⟨(u : ℝ), 1⟩)

theorem size_cramp20 : cramp20.size = 20 := by simp [cramp20]

/-- `welchC_power_total` / `welchC_labels_partial_total` / `welchC_size_total` at a concrete accepted call -/
example : ∃ pxx f, welchC (fftCN litX) cramp20 ones8 4 8 true = .ok (pxx, f) ∧
    (∑ j ∈ range 8, rdR pxx j = (8 : ℝ) * ((∑ i ∈ range (nsegs 20 8 4), segPowC cramp20 ones8 (i * hop 8 4)) /
        (nsegs 20 8 4 : ℝ)) / 8) ∧
    (∀ j < 8, rdR f j = ((j : ℝ) - 8 / 2 + 1) / 8) ∧ pxx.size = 8 ∧ f.size = 8 := by
  have hplan : plan cramp20.size ones8.size 4 8 = .ok ⟨8, 4, 4⟩ := by rw [size_cramp20, size_ones8]; rfl
  obtain ⟨pxx, f, h⟩ := welchC_accepts (fftCN litX) cramp20 ones8 4 8 true _ hplan
  have hL : ones8.size ≤ (8 : ℤ).toNat := by rw [size_ones8]; decide
  have hNL : ones8.size ≤ cramp20.size := by rw [size_ones8, size_cramp20]; decide
  have hw : dotWW ones8 ≠ 0 := by rw [dotWW_ones8]; norm_num
  refine ⟨pxx, f, h, ?_, ?_, ?_⟩
  · have := welchC_power_total litsOK_exact h (by norm_num) hL hNL hw
    rw [size_cramp20, size_ones8, dotWW_ones8] at this
    exact_mod_cast this
  · intro j hj
    have h1 := (welchC_labels_partial_total litsOK_exact h (by norm_num) (by norm_num) hNL j hj).1
    have hn : (8 : ℤ).toNat = 8 := rfl
    rw [h1, hn]; norm_num
  · exact welchC_size_total h (by norm_num)

/-- `welchC_tone_peak_total` / `welchC_tone_max_total` / `welchC_axis_offset_total`: the witness, on the library's transform with
the exact literals -/
example : ∃ pxx f, welchC (fftCN litX) tone8 ones8 0 8 false = .ok (pxx, f) ∧ rdR pxx 2 = 1 ∧ (∀ j < 8, rdR pxx j ≤ rdR pxx 2) ∧
    rdR f 2 = -(1 / 8 : ℝ) := by
  obtain ⟨pxx, f, h, h1, h2, h3, _⟩ := welchC_axis_witness_total litX litsOK_exact
  exact ⟨pxx, f, h, h1, h2, h3⟩

/-- `welchR_cos_tone_total` / `welchR_tone_bound_total`: `x[u] = 3·cos(2π·2u/8 + 1)`, 8 samples, rectangular window, `nfft = 8`,
bin 2: the hypotheses hold together and the entry is within the image bound of `A²/2 = 9/2` -/
noncomputable def cos8 : Array ℝ :=
  Array.ofFn (n := 8) (fun u => 3 * Real.cos (2 * Real.pi * ((2 * u.val : ℕ) : ℝ) / (((8 : ℤ).toNat : ℕ) : ℝ) + 1))

example : ∃ pxx f, welchR (fftRN litX) cos8 ones8 0 8 false = .ok (pxx, f) ∧
    |rdR pxx 2 - 3 ^ 2 / 2| ≤ 3 ^ 2 / 2 *
      (2 * (‖winImage (8 : ℤ).toNat ones8 2‖ / |sumW ones8|) + (‖winImage (8 : ℤ).toNat ones8 2‖ / |sumW ones8|) ^ 2) := by
  have hs : cos8.size = 8 := by simp [cos8]
  have hplan : plan cos8.size ones8.size 0 8 = .ok ⟨8, 8, 1⟩ := by rw [hs, size_ones8]; rfl
  obtain ⟨pxx, f, h⟩ := welchR_accepts (fftRN litX) cos8 ones8 0 8 false _ hplan
  refine ⟨pxx, f, h, ?_⟩
  refine welchR_cos_tone_total litsOK_exact h (by norm_num) (by rw [size_ones8]; decide) (by rw [size_ones8, hs])
    (by rw [sumW_ones8]; norm_num) 3 1 2 (by norm_num) (by decide) ?_
  intro u hu
  rw [hs] at hu
  unfold cos8 rdR
  simp [Array.getD, hu]

/-- `mscohere_scaled_copy_total` / `mscohere_range_total`: an accepted call with `y = 2·x` exists (the spectrum condition `hx` is
the divisor of the code, kept as hypothesis) -/
noncomputable def ramp20x2 : Array ℝ := Array.ofFn (n := 20) (fun i => 2 * (i.val : ℝ))

example : ∃ c, mscohere (fftRN litX) ramp20 ramp20x2 ones8 4 8 = .ok c ∧ c.size = 5 ∧
    ∀ k < 5, autoSpec (fftRN litX) ramp20 ones8 4 8 k ≠ 0 → rdR c k = 1 := by
  have hs2 : ramp20x2.size = 20 := by simp [ramp20x2]
  obtain ⟨c, h⟩ := mscohere_accepts (fftRN litX) ramp20 ramp20x2 ones8 4 8 _ (by rw [size_ramp20, hs2]) plan_ramp20
  have hNL : ones8.size ≤ ramp20.size := by rw [size_ones8, size_ramp20]; decide
  refine ⟨c, h, (mscohere_cell h hNL 0 (by decide)).1, ?_⟩
  intro k hk hx
  refine mscohere_scaled_copy_total litsOK_exact h (by norm_num) hNL 2 (by norm_num) ?_ k (by change k < 5; exact hk) hx
  intro t
  unfold ramp20 ramp20x2 rdR
  by_cases ht : t < 20
  · simp [Array.getD, ht]
  · simp [Array.getD, ht]

end Dsp.C13
