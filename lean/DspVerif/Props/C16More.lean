import DspVerif.Props.C16
/-!
# C16, remaining clauses: Pearson and Spearman equal ±1 for strictly monotone relations

`Props/C16.lean` proves "corr equals +1 / −1 for strictly increasing / decreasing relations" for Kendall's τ only.
This file settles the clause for the other two coefficients, exactly over `ℝ`, for the moment formula the
code evaluates (`pearson_eq`):

* Pearson: `y = a·x + b`, `x` not constant ⇒ `r = +1` for `a > 0`, `r = −1` for `a < 0`
  (`pearson_affine_pos`, `pearson_affine_neg`).  The positivity of `n·Σx² − (Σx)²` is PROVED from
  "`x` is not constant" (`varN_pos`), it is not a hypothesis.
* Spearman: tie-free samples of length ≥ 2 in a strictly increasing relation ⇒ `ρ = +1`
  (`spearman_increasing`), strictly decreasing ⇒ `ρ = −1` (`spearman_decreasing`).
* `|ρ| ≤ 1` for all tie-free samples of length ≥ 2 (`spearman_abs_le_one_tiefree`): the explicit positivity
  hypothesis of `spearman_abs_le_one` is discharged.  Likewise `pearson_abs_le_one_nonconst`.

The excluded points (constant `x`; `n < 2`) are the 0/0 of the C++ code (NaN there, `0` in Lean's `ℝ`).
-/
namespace Dsp.C16
open Dsp Dsp.Order List

/-! ## The scaled variance `n·Σx² − (Σx)²` -/

/-- `x` takes at least two different values -/
def NonConst (x : List ℝ) : Prop := ∃ u ∈ x, ∃ v ∈ x, u ≠ v

/-- `n·Σx² − (Σx)²` (= `n²` × the population variance) -/
def varN (x : List ℝ) : ℝ := (x.length : ℝ) * (x.map (fun t => t * t)).sum - x.sum ^ 2

/-- adding one sample `a` adds `Σ_u (a − u)²`: hence `varN x = Σ_{i<j} (x_i − x_j)²` -/
theorem varN_cons (a : ℝ) (t : List ℝ) :
    varN (a :: t) = varN t + (t.map (fun u => (a - u) * (a - u))).sum := by
  have key : (t.map (fun u => (a - u) * (a - u))).sum =
      (t.length : ℝ) * (a * a) - 2 * a * t.sum + (t.map (fun u => u * u)).sum := by
    induction t with
    | nil => simp
    | cons u t ih => simp only [List.map_cons, List.sum_cons, ih, List.length_cons, Nat.cast_add, Nat.cast_one]; ring
  rw [key]
  simp only [varN, List.map_cons, List.sum_cons, List.length_cons, Nat.cast_add, Nat.cast_one]
  ring

theorem sum_sq_diff_nonneg (a : ℝ) (t : List ℝ) : 0 ≤ (t.map (fun u => (a - u) * (a - u))).sum := by
  apply List.sum_nonneg
  intro r hr
  obtain ⟨u, _, rfl⟩ := List.mem_map.1 hr
  exact mul_self_nonneg _

theorem varN_nonneg (x : List ℝ) : 0 ≤ varN x := by
  induction x with
  | nil => simp [varN]
  | cons a t ih => rw [varN_cons]; exact add_nonneg ih (sum_sq_diff_nonneg a t)

theorem sum_sq_diff_pos {a : ℝ} {t : List ℝ} (h : ∃ u ∈ t, u ≠ a) :
    0 < (t.map (fun u => (a - u) * (a - u))).sum := by
  induction t with
  | nil => obtain ⟨u, hu, _⟩ := h; simp at hu
  | cons w t ih =>
    simp only [List.map_cons, List.sum_cons]
    by_cases hw : w = a
    · have : ∃ u ∈ t, u ≠ a := by
        obtain ⟨u, hu, hne⟩ := h
        rcases List.mem_cons.1 hu with rfl | hu
        · exact absurd hw hne
        · exact ⟨u, hu, hne⟩
      have := ih this
      have := mul_self_nonneg (a - w)
      linarith
    · have h1 : 0 < (a - w) * (a - w) := mul_self_pos.2 (sub_ne_zero.2 (Ne.symm hw))
      have := sum_sq_diff_nonneg a t
      linarith

/-- **the variance of a non-constant sample is positive** (strictness of Cauchy–Schwarz) -/
theorem varN_pos {x : List ℝ} (h : NonConst x) : 0 < varN x := by
  cases x with
  | nil => obtain ⟨u, hu, _⟩ := h; simp at hu
  | cons a t =>
    rw [varN_cons]
    have hex : ∃ u ∈ t, u ≠ a := by
      by_contra hall
      push Not at hall
      have hall' : ∀ u ∈ a :: t, u = a := by
        intro u hu
        rcases List.mem_cons.1 hu with rfl | hu
        · rfl
        · exact hall u hu
      obtain ⟨u, hu, v, hv, hne⟩ := h
      exact hne ((hall' u hu).trans (hall' v hv).symm)
    have := sum_sq_diff_pos hex
    have := varN_nonneg t
    linarith

/-- conversely a positive variance needs two different values: `NonConst` is exactly the domain -/
theorem nonConst_of_varN_pos {x : List ℝ} (h : 0 < varN x) : NonConst x := by
  by_contra hc
  have hall : ∀ u ∈ x, ∀ v ∈ x, u = v := by
    intro u hu v hv
    by_contra hne
    exact hc ⟨u, hu, v, hv, hne⟩
  have h0 : varN x = 0 := by
    clear h hc
    induction x with
    | nil => simp [varN]
    | cons a t ih =>
      rw [varN_cons, ih (fun u hu v hv => hall u (List.mem_cons_of_mem _ hu) v (List.mem_cons_of_mem _ hv))]
      have : t.map (fun u => (a - u) * (a - u)) = t.map (fun _ => (0 : ℝ)) := by
        apply List.map_congr_left
        intro u hu
        rw [hall a List.mem_cons_self u (List.mem_cons_of_mem _ hu)]; ring
      rw [this]; simp
  linarith

/-! ## The moment sums of `zip x y` in terms of `x` and `y` -/

theorem lsum_zip_fst (x y : List ℝ) (h : x.length ≤ y.length) (f : ℝ → ℝ) :
    lsum (zip x y) (fun p => f p.1) = (x.map f).sum := by
  unfold lsum
  have : (zip x y).map (fun p => f p.1) = ((zip x y).map Prod.fst).map f := by simp [Function.comp_def]
  rw [this, List.map_fst_zip h]

theorem lsum_zip_snd (x y : List ℝ) (h : y.length ≤ x.length) (f : ℝ → ℝ) :
    lsum (zip x y) (fun p => f p.2) = (y.map f).sum := by
  unfold lsum
  have : (zip x y).map (fun p => f p.2) = ((zip x y).map Prod.snd).map f := by simp [Function.comp_def]
  rw [this, List.map_snd_zip h]

/-- the `x`-factor under the square root of `pearson x y` is `varN x` -/
theorem pearson_den_fst (x y : List ℝ) (h : x.length = y.length) :
    (x.length : ℝ) * lsum (zip x y) (fun p => p.1 * p.1) - lsum (zip x y) (·.1) ^ 2 = varN x := by
  rw [lsum_zip_fst x y (le_of_eq h) (fun t => t * t)]
  have := lsum_zip_fst x y (le_of_eq h) (fun t => t)
  simp only [List.map_id'] at this
  rw [this, varN]

/-- the `y`-factor under the square root of `pearson x y` is `varN y` -/
theorem pearson_den_snd (x y : List ℝ) (h : x.length = y.length) :
    (x.length : ℝ) * lsum (zip x y) (fun p => p.2 * p.2) - lsum (zip x y) (·.2) ^ 2 = varN y := by
  rw [lsum_zip_snd x y (le_of_eq h.symm) (fun t => t * t)]
  have := lsum_zip_snd x y (le_of_eq h.symm) (fun t => t)
  simp only [List.map_id'] at this
  rw [this, varN, h]

/-- **|r| ≤ 1 for all non-constant samples**: `pearson_abs_le_one` with its positivity hypothesis discharged -/
theorem pearson_abs_le_one_nonconst (x y : List ℝ) (h : x.length = y.length) (hx : NonConst x) (hy : NonConst y) :
    |pearson x y| ≤ 1 := by
  apply pearson_abs_le_one x y h
  rw [pearson_den_fst x y h, pearson_den_snd x y h]
  exact mul_pos (varN_pos hx) (varN_pos hy)

/-! ## Pearson of an affine relation -/

theorem lsum_map_pair (x : List ℝ) (g : ℝ → ℝ) (f : ℝ × ℝ → ℝ) :
    lsum (zip x (x.map g)) f = (x.map (fun t => f (t, g t))).sum := by
  unfold lsum
  have : zip x (x.map g) = x.map (fun t => (t, g t)) := by
    rw [show zip x (x.map g) = zip (x.map id) (x.map g) by simp, List.zip_map']; rfl
  rw [this, List.map_map]; rfl

theorem sum_affine (x : List ℝ) (a b : ℝ) :
    (x.map (fun t => a * t + b)).sum = a * x.sum + (x.length : ℝ) * b ∧
    (x.map (fun t => t * (a * t + b))).sum = a * (x.map (fun t => t * t)).sum + b * x.sum ∧
    (x.map (fun t => (a * t + b) * (a * t + b))).sum =
      a * a * (x.map (fun t => t * t)).sum + 2 * a * b * x.sum + (x.length : ℝ) * (b * b) := by
  induction x with
  | nil => simp
  | cons u t ih =>
    obtain ⟨h1, h2, h3⟩ := ih
    simp only [List.map_cons, List.sum_cons, List.length_cons, Nat.cast_add, Nat.cast_one, h1, h2, h3]
    refine ⟨by ring, by ring, by ring⟩

/-- Pearson of `x` against `a·x + b`, before the sign of `a` is fixed: `a·V / sqrt(V · a²V)` -/
theorem pearson_affine (x : List ℝ) (a b : ℝ) :
    pearson x (x.map (fun t => a * t + b)) = a * varN x / Real.sqrt (varN x * (a * a * varN x)) := by
  obtain ⟨h1, h2, h3⟩ := sum_affine x a b
  rw [pearson_eq _ _ (by simp)]
  simp only [lsum_map_pair]
  rw [h1, h2, h3]
  have hid : (x.map (fun t => t)).sum = x.sum := by simp
  rw [hid]
  unfold varN
  congr 1
  · ring
  · congr 1; ring

/-- **T16.4 Pearson = +1 for an increasing affine relation** `y = a·x + b`, `a > 0`, `x` not constant -/
theorem pearson_affine_pos (x : List ℝ) (a b : ℝ) (ha : 0 < a) (hx : NonConst x) :
    pearson x (x.map (fun t => a * t + b)) = 1 := by
  have hV := varN_pos hx
  have hpos : 0 < a * varN x := mul_pos ha hV
  rw [pearson_affine, show varN x * (a * a * varN x) = (a * varN x) * (a * varN x) by ring,
    Real.sqrt_mul_self (le_of_lt hpos), div_self (ne_of_gt hpos)]

/-- **T16.4 Pearson = −1 for a decreasing affine relation** `y = a·x + b`, `a < 0`, `x` not constant -/
theorem pearson_affine_neg (x : List ℝ) (a b : ℝ) (ha : a < 0) (hx : NonConst x) :
    pearson x (x.map (fun t => a * t + b)) = -1 := by
  have hV := varN_pos hx
  have hpos : 0 < (-a) * varN x := mul_pos (neg_pos.2 ha) hV
  rw [pearson_affine, show varN x * (a * a * varN x) = ((-a) * varN x) * ((-a) * varN x) by ring,
    Real.sqrt_mul_self (le_of_lt hpos), show a * varN x = -((-a) * varN x) by ring, neg_div,
    div_self (ne_of_gt hpos)]

/-- the same two statements for samples given position by position -/
theorem pearson_affine_pos' (x y : List ℝ) (a b : ℝ) (h : x.length = y.length)
    (hy : ∀ (i : Nat) (h1 : i < x.length) (h2 : i < y.length), y[i] = a * x[i] + b)
    (ha : 0 < a) (hx : NonConst x) : pearson x y = 1 := by
  have : y = x.map (fun t => a * t + b) := by
    apply List.ext_getElem (by simp [h])
    intro i h1 h2; simp [hy i (by simpa using h2) h1]
  rw [this]; exact pearson_affine_pos x a b ha hx

theorem pearson_affine_neg' (x y : List ℝ) (a b : ℝ) (h : x.length = y.length)
    (hy : ∀ (i : Nat) (h1 : i < x.length) (h2 : i < y.length), y[i] = a * x[i] + b)
    (ha : a < 0) (hx : NonConst x) : pearson x y = -1 := by
  have : y = x.map (fun t => a * t + b) := by
    apply List.ext_getElem (by simp [h])
    intro i h1 h2; simp [hy i (by simpa using h2) h1]
  rw [this]; exact pearson_affine_neg x a b ha hx

/-- non-vacuity: `x = [1, 3, 2]`, `y = 2x + 5` resp. `y = −3x + 1` -/
example : pearson [(1 : ℝ), 3, 2] [7, 11, 9] = 1 := by
  have := pearson_affine_pos [1, 3, 2] 2 5 (by norm_num) ⟨1, by simp, 3, by simp, by norm_num⟩
  norm_num at this
  exact this
example : pearson [(1 : ℝ), 3, 2] [-2, -8, -5] = -1 := by
  have := pearson_affine_neg [1, 3, 2] (-3) 1 (by norm_num) ⟨1, by simp, 3, by simp, by norm_num⟩
  norm_num at this
  exact this
example : varN [1, 3, 2] = 6 := by norm_num [varN]
example : NonConst [1, 3, 2] := ⟨1, by simp, 3, by simp, by norm_num⟩

/-! ## Spearman -/

/-- Pearson of a non-constant sample with itself is 1 (`pearson_self` with the variance hypothesis discharged) -/
theorem pearson_self_nonconst (x : List ℝ) (hx : NonConst x) : pearson x x = 1 := by
  apply pearson_self
  rw [pearson_den_fst x x rfl]
  exact varN_pos hx

theorem countP_lt_of_imp {β : Type} {p q : β → Bool} {l : List β} (himp : ∀ a ∈ l, p a = true → q a = true)
    (hex : ∃ a ∈ l, p a = false ∧ q a = true) : l.countP p < l.countP q := by
  induction l with
  | nil => obtain ⟨a, ha, _⟩ := hex; simp at ha
  | cons b t ih =>
    obtain ⟨a, ha, hpa, hqa⟩ := hex
    have hmono : t.countP p ≤ t.countP q :=
      List.countP_mono_left (fun a ha => himp a (List.mem_cons_of_mem _ ha))
    rcases List.mem_cons.1 ha with rfl | hat
    · rw [List.countP_cons_of_neg (by simp [hpa]), List.countP_cons_of_pos hqa]; omega
    · have hlt := ih (fun a ha => himp a (List.mem_cons_of_mem _ ha)) ⟨a, hat, hpa, hqa⟩
      have hb := himp b List.mem_cons_self
      simp only [List.countP_cons]
      by_cases hpb : p b = true
      · rw [if_pos hpb, if_pos (hb hpb)]; omega
      · rw [if_neg hpb]; split <;> omega

/-- the rank (number of smaller samples) is strictly increasing in the sample value -/
theorem rank_lt {l : List ℝ} {u v : ℝ} (hu : u ∈ l) (huv : u < v) :
    l.countP (fun w => decide (w < u)) < l.countP (fun w => decide (w < v)) :=
  countP_lt_of_imp (fun a _ h => by simp only [decide_eq_true_eq] at h ⊢; exact lt_trans h huv)
    ⟨u, hu, by simp, by simpa using huv⟩

/-- **the ranks of ≥ 2 tie-free samples are not constant**, so their variance is positive -/
theorem realRanks_nonConst (x : Array ℝ) (hx : x.toList.Nodup) (hn : 2 ≤ x.size) : NonConst (realRanks x) := by
  have h0 : 0 < x.size := by omega
  have h1 : 1 < x.size := by omega
  have hne : x[0] ≠ x[1] := by
    intro he
    have := (List.Nodup.getElem_inj_iff hx (hi := by simpa using h0) (hj := by simpa using h1)).1 (by simpa using he)
    omega
  have m0 : x[0] ∈ x.toList := by simp
  have m1 : x[1] ∈ x.toList := by simp
  refine ⟨_, List.mem_map.2 ⟨x[0], m0, rfl⟩, _, List.mem_map.2 ⟨x[1], m1, rfl⟩, ?_⟩
  rcases lt_or_gt_of_ne hne with hlt | hgt
  · exact ne_of_lt (by exact_mod_cast rank_lt m0 hlt)
  · exact ne_of_gt (by exact_mod_cast rank_lt m1 hgt)

theorem realRanks_varN_pos (x : Array ℝ) (hx : x.toList.Nodup) (hn : 2 ≤ x.size) : 0 < varN (realRanks x) :=
  varN_pos (realRanks_nonConst x hx hn)

/-- **T16.4 |ρ| ≤ 1 for all tie-free samples of length ≥ 2** — the positivity hypothesis of `spearman_abs_le_one`
(rank variance > 0) is discharged -/
theorem spearman_abs_le_one_tiefree (x y : Array ℝ) (h : x.size = y.size) (hx : x.toList.Nodup) (hy : y.toList.Nodup)
    (hn : 2 ≤ x.size) : |spearman x y| ≤ 1 := by
  rw [spearman_eq x y hx hy]
  exact pearson_abs_le_one_nonconst _ _ (by simp [realRanks, h]) (realRanks_nonConst x hx hn)
    (realRanks_nonConst y hy (h ▸ hn))

/-- the hypothesis of `spearman_abs_le_one`, literally -/
theorem spearman_den_pos (x y : Array ℝ) (h : x.size = y.size) (hx : x.toList.Nodup) (hy : y.toList.Nodup)
    (hn : 2 ≤ x.size) :
    0 < (((realRanks x).length : ℝ) * lsum (zip (realRanks x) (realRanks y)) (fun p => p.1 * p.1) -
                  lsum (zip (realRanks x) (realRanks y)) (·.1) ^ 2) *
                (((realRanks x).length : ℝ) * lsum (zip (realRanks x) (realRanks y)) (fun p => p.2 * p.2) -
                  lsum (zip (realRanks x) (realRanks y)) (·.2) ^ 2) := by
  have hl : (realRanks x).length = (realRanks y).length := by simp [realRanks, h]
  rw [pearson_den_fst _ _ hl, pearson_den_snd _ _ hl]
  exact mul_pos (realRanks_varN_pos x hx hn) (realRanks_varN_pos y hy (h ▸ hn))

theorem countP_toList (x : Array ℝ) (p : ℝ → Bool) :
    x.toList.countP p = (List.finRange x.size).countP (fun i => p x[i]) := by
  rw [← gather_finRange x]; simp [gather, List.countP_map, Function.comp_def]

theorem countP_toList' (x y : Array ℝ) (h : x.size = y.size) (p : ℝ → Bool) :
    y.toList.countP p = (List.finRange x.size).countP (fun i => p (y[i.val]'(h ▸ i.isLt))) := by
  have : y.toList = (List.finRange x.size).map (fun i => y[i.val]'(h ▸ i.isLt)) := by
    apply List.ext_getElem
    · simp [h]
    · intro i h1 h2; simp
  rw [this]; simp [List.countP_map, Function.comp_def]

theorem array_inj {x : Array ℝ} (hx : x.toList.Nodup) {i j : Fin x.size} (he : x[i] = x[j]) : i = j := by
  have := (List.Nodup.getElem_inj_iff hx (hi := by simp) (hj := by simp)).1
    (show x.toList[i.val] = x.toList[j.val] by simpa using he)
  exact Fin.ext this

/-- a strictly increasing relation between tie-free samples: the rank vectors coincide -/
theorem realRanks_eq_of_increasing (x y : Array ℝ) (h : x.size = y.size) (hx : x.toList.Nodup)
    (hmono : ∀ i j : Fin x.size, x[i] < x[j] → y[i.val]'(h ▸ i.isLt) < y[j.val]'(h ▸ j.isLt)) :
    realRanks y = realRanks x := by
  have hiff : ∀ i j : Fin x.size, y[i.val]'(h ▸ i.isLt) < y[j.val]'(h ▸ j.isLt) ↔ x[i] < x[j] := by
    intro i j
    refine ⟨fun hy' => ?_, hmono i j⟩
    rcases lt_trichotomy x[i] x[j] with hlt | heq | hgt
    · exact hlt
    · have := array_inj hx heq; subst this; exact absurd hy' (lt_irrefl _)
    · exact absurd (hmono j i hgt) (lt_asymm hy')
  apply List.ext_getElem
  · simp [realRanks, h]
  · intro j h1 h2
    have hj : j < x.size := by simpa [realRanks] using h2
    simp only [realRanks, List.getElem_map, Array.getElem_toList, Nat.cast_inj]
    rw [countP_toList' x y h, countP_toList x]
    apply List.countP_congr
    intro i _
    simp only [decide_eq_true_eq]
    exact hiff i ⟨j, hj⟩

/-- **T16.4 Spearman's ρ = +1 for a strictly increasing relation** (tie-free samples, `n ≥ 2`) -/
theorem spearman_increasing (x y : Array ℝ) (h : x.size = y.size) (hx : x.toList.Nodup) (hy : y.toList.Nodup)
    (hn : 2 ≤ x.size)
    (hmono : ∀ i j : Fin x.size, x[i] < x[j] → y[i.val]'(h ▸ i.isLt) < y[j.val]'(h ▸ j.isLt)) :
    spearman x y = 1 := by
  rw [spearman_eq x y hx hy, realRanks_eq_of_increasing x y h hx hmono]
  exact pearson_self_nonconst _ (realRanks_nonConst x hx hn)

/-- in a tie-free list every member has `#smaller + #larger + 1 = n` -/
theorem countP_gt_add_lt_of_not_mem {l : List ℝ} {v : ℝ} (hv : v ∉ l) :
    l.countP (fun u => decide (v < u)) + l.countP (fun u => decide (u < v)) = l.length := by
  induction l with
  | nil => rfl
  | cons a t ih =>
    have hav : a ≠ v := fun he => hv (he ▸ List.mem_cons_self)
    have := ih (fun hm => hv (List.mem_cons_of_mem _ hm))
    simp only [List.countP_cons, List.length_cons, decide_eq_true_eq]
    rcases lt_or_gt_of_ne hav with hlt | hgt
    · rw [if_neg (lt_asymm hlt), if_pos hlt]; omega
    · rw [if_pos hgt, if_neg (lt_asymm hgt)]; omega

theorem countP_gt_add_lt_of_mem {l : List ℝ} (hl : l.Nodup) {v : ℝ} (hv : v ∈ l) :
    l.countP (fun u => decide (v < u)) + l.countP (fun u => decide (u < v)) + 1 = l.length := by
  induction l with
  | nil => simp at hv
  | cons a t ih =>
    obtain ⟨hat, hnd⟩ := List.nodup_cons.1 hl
    simp only [List.countP_cons, List.length_cons, decide_eq_true_eq]
    by_cases hav : a = v
    · subst hav
      have := countP_gt_add_lt_of_not_mem hat
      simp only [lt_self_iff_false, if_false]; omega
    · have hvt : v ∈ t := by
        rcases List.mem_cons.1 hv with he | hm
        · exact absurd he.symm hav
        · exact hm
      have := ih hnd hvt
      rcases lt_or_gt_of_ne hav with hlt | hgt
      · rw [if_neg (lt_asymm hlt), if_pos hlt]; omega
      · rw [if_pos hgt, if_neg (lt_asymm hgt)]; omega

/-- a strictly decreasing relation between tie-free samples: the ranks are reversed, `rank_y[j] = n − 1 − rank_x[j]` -/
theorem realRanks_of_decreasing (x y : Array ℝ) (h : x.size = y.size) (hx : x.toList.Nodup)
    (hmono : ∀ i j : Fin x.size, x[i] < x[j] → y[j.val]'(h ▸ j.isLt) < y[i.val]'(h ▸ i.isLt)) :
    realRanks y = (realRanks x).map (fun t => (-1) * t + ((x.size : ℝ) - 1)) := by
  have hiff : ∀ i j : Fin x.size, y[i.val]'(h ▸ i.isLt) < y[j.val]'(h ▸ j.isLt) ↔ x[j] < x[i] := by
    intro i j
    refine ⟨fun hy' => ?_, hmono j i⟩
    rcases lt_trichotomy x[j] x[i] with hlt | heq | hgt
    · exact hlt
    · have := array_inj hx heq; subst this; exact absurd hy' (lt_irrefl _)
    · exact absurd (hmono i j hgt) (lt_asymm hy')
  apply List.ext_getElem
  · simp [realRanks, h]
  · intro j h1 h2
    have hj : j < x.size := by simpa [realRanks] using h2
    simp only [realRanks, List.getElem_map, Array.getElem_toList]
    have e1 : y.toList.countP (fun u => decide (u < y[j]'(h ▸ hj))) =
        x.toList.countP (fun u => decide (x[j] < u)) := by
      rw [countP_toList' x y h, countP_toList x]
      apply List.countP_congr
      intro i _
      simp only [decide_eq_true_eq]
      exact hiff i ⟨j, hj⟩
    have e2 := countP_gt_add_lt_of_mem hx (show x[j] ∈ x.toList by simp)
    rw [e1]
    have e3 : ((x.toList.countP (fun u => decide (x[j] < u)) : ℕ) : ℝ) +
        ((x.toList.countP (fun u => decide (u < x[j])) : ℕ) : ℝ) + 1 = (x.size : ℝ) := by
      have : x.toList.length = x.size := by simp
      rw [← this]
      exact_mod_cast e2
    linarith

/-- **T16.4 Spearman's ρ = −1 for a strictly decreasing relation** (tie-free samples, `n ≥ 2`) -/
theorem spearman_decreasing (x y : Array ℝ) (h : x.size = y.size) (hx : x.toList.Nodup) (hy : y.toList.Nodup)
    (hn : 2 ≤ x.size)
    (hmono : ∀ i j : Fin x.size, x[i] < x[j] → y[j.val]'(h ▸ j.isLt) < y[i.val]'(h ▸ i.isLt)) :
    spearman x y = -1 := by
  rw [spearman_eq x y hx hy, realRanks_of_decreasing x y h hx hmono]
  exact pearson_affine_neg _ (-1) _ (by norm_num) (realRanks_nonConst x hx hn)

/-- non-vacuity: `x = [1, 3, 2]` against the NON-affine increasing `y = x³` and the decreasing `y = 1/x`-like `[6, 2, 3]`:
the hypotheses of `spearman_increasing` / `spearman_decreasing` / `spearman_abs_le_one_tiefree` hold -/
example : spearman #[(1 : ℝ), 3, 2] #[1, 27, 8] = 1 := by
  apply spearman_increasing #[(1 : ℝ), 3, 2] #[1, 27, 8] (by simp) (by norm_num) (by norm_num) (by simp)
  intro i j
  fin_cases i <;> fin_cases j <;> norm_num
example : spearman #[(1 : ℝ), 3, 2] #[6, 2, 3] = -1 := by
  apply spearman_decreasing #[(1 : ℝ), 3, 2] #[6, 2, 3] (by simp) (by norm_num) (by norm_num) (by simp)
  intro i j
  fin_cases i <;> fin_cases j <;> norm_num
example : |spearman #[(1 : ℝ), 3, 2] #[6, 7, 3]| ≤ 1 :=
  spearman_abs_le_one_tiefree #[(1 : ℝ), 3, 2] #[6, 7, 3] (by simp) (by norm_num) (by norm_num) (by simp)
example : NonConst (realRanks #[(1 : ℝ), 3, 2]) := realRanks_nonConst _ (by norm_num) (by simp)

end Dsp.C16
