import DspVerif.Props.C07
import DspVerif.Gen.StepsFir
import DspVerif.Gen.CtorFir
import DspVerif.Lib.RealFn
import DspVerif.Lib.GenBridge
/-!
# C07 — bridge: the hand-written `FirFilter` model IS the regenerated code of `lib/fir.cpp` / `include/dsplib/fir.h`

`Gen/StepsFir.lean` is written by `tools/cxx2lean.py` on every check run (both instantiations, `T = real_t`, `cmplx_t`):
* `_conv<T>(const T* x, const T* h, T* r, int nh, int nx)` as `Gen.fir?ConvKernel` with its two nested loops
  (`r[i] = 0; r[i] += x[i + k] * conj(h[nh - k - 1])`: `fir?ConvKernel_loop1/2`), the raw pointers as the arrays they point into;
* `FirFilter<T>::conv(x, h)` as `Gen.fir?Conv` (`arr r(x.size() - h.size() + 1)`, the kernel call on `r.data()`);
* `FirFilter<T>::process(s)` as `Gen.fir?Process`: `x = _d | s` (`arrConcat`, pinned `operator|`), `r = conv(x, _h)`,
  `nd = _h.size() - 1`, `nx = x.size()`, and the history hand-over `_d = x.slice(nx - nd, nx)` as `arrSlice`
  (`Gen/StepsSlice.lean`), whose acceptance test is the REGENERATED slice constructor `Gen.BaseSlice.ctor` of unit `Slice` —
  so the generated `process` is `Except`-valued.
`FftFilter::process` is NOT regenerated (range-based `for`, results emitted through a moving raw pointer `pr += _n` into the
result array, a local array declared inside a branch): its overlap-add model stays tied by the correspondence run.

Proved here, over ℝ / `Cx ℝ`: `firRConv_eq`, `firCConv_eq` (generated `conv` = `Fir.conv`, for every pair of arrays);
`firRProcess_eq`, `firCProcess_eq` (for EVERY tap vector, every history of `nh - 1` samples and every frame: the generated
`process` does not throw and equals `Fir.process`); `firRProcess_one_tap` (a one-tap filter keeps no history and works — before
the fix `if (nd > 0)` around the hand-over its slice `x.slice(nx, nx)` was rejected on every call); T07.1 transported:
`gen_fir_eq_real`, `gen_fir_eq_cmplx` (`y[i] = Σ_{k ≤ i} conj(h[k])·x[i-k]` for the arrays the generated code returns).
-/
namespace Dsp.C07Gen
open Dsp Dsp.Fir Dsp.GenBridge

set_option linter.unusedSectionVars false
set_option linter.unusedSimpArgs false

theorem acc_eq_foldl {β : Type} [Add β] (z : β) (n : Nat) (f : Nat → β) :
    Fir.acc z n f = (List.range n).foldl (fun a i => a + f i) z := by
  induction n with
  | zero => rfl
  | succ n ih => simp [Fir.acc, ih, List.range_succ]

noncomputable section

/-- row `i` of `_conv<real_t>`: `r[i] = 0; for (k < nh) r[i] += x[i + k] * conj(h[nh - k - 1]);` -/
theorem convR_row (x h r : Array ℝ) (i : ℕ) :
    Gen.firRConvKernel_loop2 (h.size : Int) x h r i =
      r.setIfInBounds i (Fir.acc (0 : ℝ) h.size fun k => x.getD (i + k) 0 * h.getD (h.size - k - 1) 0) := by
  unfold Gen.firRConvKernel_loop2
  simp only [Int.ofNat_eq_natCast, Int.toNat_natCast, ptrSet_natCast, fn_ofInt, Int.cast_zero]
  have hstep : ∀ (a : Array ℝ) (k : ℕ), k < h.size →
      Gen.firRConvKernel_loop1 (i : Int) x h (h.size : Int) a k =
        a.setIfInBounds i (a.getD i 0 + x.getD (i + k) 0 * h.getD (h.size - k - 1) 0) := by
    intro a k hk
    simp only [Gen.firRConvKernel_loop1, Gen.zeroR, Gen.conjr, Int.ofNat_eq_natCast, fn_ofInt, Int.cast_zero]
    -- whatever way the C++ spells the three index expressions: they denote `i`, `i + k`, `nh - k - 1`
    rw [ptrGet_eq 0 x _ (i + k) (by omega), ptrGet_eq 0 h _ (h.size - k - 1) (by omega), ptrGet_eq 0 a _ i (by omega),
      ptrSet_eq a _ i _ (by omega)]
    try first | rfl | (congr 2; ring)
  rw [foldl_range_congr _ (fun (a : Array ℝ) k => a.setIfInBounds i (a.getD i 0 + x.getD (i + k) 0 * h.getD (h.size - k - 1) 0))
    h.size hstep]
  rw [foldl_acc_cell (0 : ℝ) (fun v k => v + x.getD (i + k) 0 * h.getD (h.size - k - 1) 0) i, Array.setIfInBounds_setIfInBounds,
    acc_eq_foldl]
  by_cases hi : i < r.size
  · rw [getD_setIfInBounds]; simp [hi]
  · rw [Array.setIfInBounds_eq_of_size_le (Nat.le_of_not_lt hi), Array.setIfInBounds_eq_of_size_le (Nat.le_of_not_lt hi)]

/-- **`FirFilter<real_t>::conv`, generated = model** for every pair of arrays (the empty result included) -/
theorem firRConv_eq (x h : Array ℝ) : Gen.firRConv x h = Fir.conv (0 : ℝ) id x h := by
  unfold Gen.firRConv Gen.firRConvKernel Fir.conv
  simp only [Gen.arrSize, Int.ofNat_eq_natCast, Gen.arrNew, Gen.zeroR, fn_ofInt, Int.cast_zero]
  have hn : (((x.size : Int) - (h.size : Int)) + (1 : Int)).toNat = x.size + 1 - h.size := by omega
  rw [hn]
  have hrow : (fun (r : Array ℝ) (i : ℕ) => Gen.firRConvKernel_loop2 (h.size : Int) x h r i) =
      fun r i => r.setIfInBounds i ((fun (_ : ℝ) i => Fir.acc (0 : ℝ) h.size fun k => x.getD (i + k) 0 * h.getD (h.size - k - 1) 0) (r.getD i 0) i) := by
    funext r i; exact convR_row x h r i
  have key := foldl_set_eq_ofFn (0 : ℝ)
    (fun (_ : ℝ) i => Fir.acc (0 : ℝ) h.size fun k => x.getD (i + k) 0 * h.getD (h.size - k - 1) 0)
    (x.size + 1 - h.size) (Array.replicate (x.size + 1 - h.size) 0) (by simp)
  rw [show Gen.firRConvKernel_loop2 (h.size : Int) x h = fun r i => Gen.firRConvKernel_loop2 (h.size : Int) x h r i from rfl, hrow]
  exact key

theorem natAbs_cast_sub (a b : ℕ) (h : b ≤ a) : (Int.ofNat (Int.natAbs ((a : Int) - ((a : Int) - (b : Int))))) = (b : Int) := by
  have : ((a : Int) - ((a : Int) - (b : Int))) = (b : Int) := by ring
  rw [this]; simp

/-- the history hand-over `x.slice(nx - nd, nx)` with `1 ≤ nd ≤ nx`: accepted by the regenerated slice constructor, and it
denotes the last `nd` elements -/
theorem arrSlice_tail {β : Type} (a : Array β) (nd : ℕ) (hnd : 1 ≤ nd) (hle : nd ≤ a.size) :
    Gen.arrSlice a ((a.size : Int) - (nd : Int)) (a.size : Int) = .ok (a.extract (a.size - nd) a.size) := by
  unfold Gen.arrSlice Gen.BaseSlice.ctor
  simp only [Gen.arrSize, Int.ofNat_eq_natCast]
  have h0 : ¬ ¬ ((a.size : Int) ≠ (0 : Int)) := by omega
  have h1 : ¬ ¬ ((1 : Int) ≠ (0 : Int)) := by omega
  have h2 : ¬ (((a.size : Int) - (nd : Int)) < (0 : Int)) := by omega
  have h3 : ¬ ((a.size : Int) < (0 : Int)) := by omega
  simp only [h0, h1, h2, h3, if_false, if_true]
  have e1 : ((a.size : Int) - (nd : Int)).toNat = a.size - nd := by omega
  have e2 : ((a.size : Int) - (nd : Int) + (nd : Int)).toNat = a.size := by omega
  have c1 : ¬ ((a.size : Int) - (nd : Int) ≥ (a.size : Int)) := by omega
  have c2 : ¬ ((a.size : Int) > (a.size : Int)) := by omega
  have c3 : ¬ ((1 : Int) < 0 ∧ (a.size : Int) - (nd : Int) < (a.size : Int)) := by omega
  have c4 : ¬ ((1 : Int) > 0 ∧ (a.size : Int) - (nd : Int) > (a.size : Int)) := by omega
  have c5 : ¬ ((nd : Int) > (a.size : Int)) := by omega
  have hA : ((a.size : Int) - ((a.size : Int) - (nd : Int))).natAbs = nd := by
    have : ((a.size : Int) - ((a.size : Int) - (nd : Int))) = (nd : Int) := by ring
    rw [this]; simp
  have hB : Int.natAbs (1 : Int) = 1 := rfl
  simp only [hA, hB, Nat.cast_one, Int.tmod_one, Int.tdiv_one, ne_eq, not_true_eq_false, if_false]
  simp only [false_or, c1, c2, c3, c4, c5, if_false]
  rw [e1, e2]

/-- the generated state of a model state -/
def toGenR (s : Fir.State ℝ) : Gen.FirFilterRState ℝ := ⟨s.h, s.d⟩

/-- **bridge, `FirFilter<real_t>::process`, one call.**  For EVERY tap vector, every history buffer of `nh - 1` samples and
every frame (the empty one included): the generated `process` — `_d | s`, the generated `conv`, and, when there is a history
to keep (`nd > 0`), the hand-over `_d = x.slice(nx - nd, nx)`, whose acceptance is decided by the REGENERATED slice
constructor — does not throw and returns exactly the model's `Fir.process`. -/
theorem firRProcess_eq (s : Fir.State ℝ) (x : Array ℝ) (hd : s.d.size = s.h.size - 1) :
    Gen.firRProcess (toGenR s) x = .ok (toGenR (Fir.process (0 : ℝ) id s x).1, (Fir.process (0 : ℝ) id s x).2) := by
  unfold Gen.firRProcess toGenR Fir.process
  simp only [Gen.arrConcat, Gen.arrSize, Int.ofNat_eq_natCast, firRConv_eq]
  by_cases hh : 2 ≤ s.h.size
  · have hnd : (((s.h.size : Int) - (1 : Int))) = ((s.h.size - 1 : ℕ) : Int) := by omega
    have hsl := arrSlice_tail (s.d ++ x) (s.h.size - 1) (by omega) (by simp [hd])
    have harg : ((s.d ++ x).size : Int) - ((s.h.size : Int) - (1 : Int)) = ((s.d ++ x).size : Int) - ((s.h.size - 1 : ℕ) : Int) := by
      rw [hnd]
    rw [if_pos (by omega), harg, hsl]
  · -- at most one tap: no history is kept, `_d` (empty) is left alone
    have hd0 : s.d = #[] := Array.eq_empty_of_size_eq_zero (by omega)
    rw [if_neg (by omega)]
    have : s.h.size - 1 = 0 := by omega
    simp [hd0, this]

/-- a ONE-tap `FirFilter` works (since the fix `if (nd > 0)` around the hand-over): no history, `y[i] = h0 · x[i]` through the
generated `conv`; before that fix the slice `x.slice(nx, nx)` was rejected on every call -/
theorem firRProcess_one_tap (h0 : ℝ) (x : Array ℝ) :
    Gen.firRProcess ⟨#[h0], #[]⟩ x = .ok (⟨#[h0], #[]⟩, Fir.conv (0 : ℝ) id x #[h0]) ∧
    (Fir.conv (0 : ℝ) id x #[h0]).size = x.size := by
  constructor
  · have := firRProcess_eq ⟨#[h0], #[]⟩ x (by simp)
    simpa [toGenR, Fir.process] using this
  · simp [Fir.conv]

/-- **T07.1 transported to the regenerated code, `FirFilter<real_t>`:** started from rest (`_d` zero-filled), for every tap
vector with at least one tap, the GENERATED `process` returns `y[i] = Σ_{k ≤ i} h[k]·x[i-k]` (and as many outputs as inputs). -/
theorem gen_fir_eq_real (h x : Array ℝ) (hh : 1 ≤ h.size) :
    ∃ st y, Gen.firRProcess ⟨h, Array.replicate (h.size - 1) 0⟩ x = .ok (st, y) ∧ y.size = x.size ∧
      ∀ i, i < x.size → y.getD i 0 = ∑ k ∈ Finset.range h.size, if k ≤ i then h.getD k 0 * x.getD (i - k) 0 else 0 := by
  have e := firRProcess_eq (Fir.init (0 : ℝ) h) x (by simp [Fir.init])
  obtain ⟨h1, h2⟩ := C07.fir_eq_real h x hh
  refine ⟨_, _, e, ?_, ?_⟩
  · simpa [firProcessR, firInitR, Cx.zeroR_eq] using h1
  · intro i hi
    have := h2 i hi
    simpa [firProcessR, firInitR, Cx.zeroR_eq] using this

/-! ## `T = cmplx_t` -/

theorem gzeroC_eq : (Gen.zeroC : Cx ℝ) = 0 := by apply Cx.ext' <;> simp [Gen.zeroC]
theorem fill0C_eq : (Cx.mk (Fn.ofInt (0 : Int)) (Fn.ofInt (0 : Int)) : Cx ℝ) = 0 := by apply Cx.ext' <;> simp

/-- row `i` of `_conv<cmplx_t>` -/
theorem convC_row (x h r : Array (Cx ℝ)) (i : ℕ) :
    Gen.firCConvKernel_loop2 (h.size : Int) x h r i =
      r.setIfInBounds i (Fir.acc (0 : Cx ℝ) h.size fun k => x.getD (i + k) 0 * Cx.conj (h.getD (h.size - k - 1) 0)) := by
  unfold Gen.firCConvKernel_loop2
  simp only [Int.ofNat_eq_natCast, Int.toNat_natCast, ptrSet_natCast, fill0C_eq]
  have hstep : ∀ (a : Array (Cx ℝ)) (k : ℕ), k < h.size →
      Gen.firCConvKernel_loop1 (i : Int) x h (h.size : Int) a k =
        a.setIfInBounds i (a.getD i 0 + x.getD (i + k) 0 * Cx.conj (h.getD (h.size - k - 1) 0)) := by
    intro a k hk
    simp only [Gen.firCConvKernel_loop1, gzeroC_eq, Gen.conjc, Cx.addAssign, Int.ofNat_eq_natCast]
    rw [ptrGet_eq 0 x _ (i + k) (by omega), ptrGet_eq 0 h _ (h.size - k - 1) (by omega), ptrGet_eq 0 a _ i (by omega),
      ptrSet_eq a _ i _ (by omega)]
    try first | rfl | (congr 2; ring)
  rw [foldl_range_congr _ (fun (a : Array (Cx ℝ)) k =>
    a.setIfInBounds i (a.getD i 0 + x.getD (i + k) 0 * Cx.conj (h.getD (h.size - k - 1) 0))) h.size hstep]
  rw [foldl_acc_cell (0 : Cx ℝ) (fun v k => v + x.getD (i + k) 0 * Cx.conj (h.getD (h.size - k - 1) 0)) i,
    Array.setIfInBounds_setIfInBounds, acc_eq_foldl]
  by_cases hi : i < r.size
  · rw [getD_setIfInBounds]; simp [hi]
  · rw [Array.setIfInBounds_eq_of_size_le (Nat.le_of_not_lt hi), Array.setIfInBounds_eq_of_size_le (Nat.le_of_not_lt hi)]

/-- **`FirFilter<cmplx_t>::conv`, generated = model** (taps enter conjugated: `Cx.conj`, the regenerated `cmplx_t::conj`) -/
theorem firCConv_eq (x h : Array (Cx ℝ)) : Gen.firCConv x h = Fir.conv (0 : Cx ℝ) Cx.conj x h := by
  unfold Gen.firCConv Gen.firCConvKernel Fir.conv
  simp only [Gen.arrSize, Int.ofNat_eq_natCast, Gen.arrNew, gzeroC_eq]
  have hn : (((x.size : Int) - (h.size : Int)) + (1 : Int)).toNat = x.size + 1 - h.size := by omega
  rw [hn]
  have hrow : (fun (r : Array (Cx ℝ)) (i : ℕ) => Gen.firCConvKernel_loop2 (h.size : Int) x h r i) =
      fun r i => r.setIfInBounds i ((fun (_ : Cx ℝ) i =>
        Fir.acc (0 : Cx ℝ) h.size fun k => x.getD (i + k) 0 * Cx.conj (h.getD (h.size - k - 1) 0)) (r.getD i 0) i) := by
    funext r i; exact convC_row x h r i
  have key := foldl_set_eq_ofFn (0 : Cx ℝ)
    (fun (_ : Cx ℝ) i => Fir.acc (0 : Cx ℝ) h.size fun k => x.getD (i + k) 0 * Cx.conj (h.getD (h.size - k - 1) 0))
    (x.size + 1 - h.size) (Array.replicate (x.size + 1 - h.size) 0) (by simp)
  rw [show Gen.firCConvKernel_loop2 (h.size : Int) x h = fun r i => Gen.firCConvKernel_loop2 (h.size : Int) x h r i from rfl, hrow]
  exact key

def toGenC (s : Fir.State (Cx ℝ)) : Gen.FirFilterCState ℝ := ⟨s.h, s.d⟩

/-- **bridge, `FirFilter<cmplx_t>::process`, one call** (as `firRProcess_eq`) -/
theorem firCProcess_eq (s : Fir.State (Cx ℝ)) (x : Array (Cx ℝ)) (hd : s.d.size = s.h.size - 1) :
    Gen.firCProcess (toGenC s) x =
      .ok (toGenC (Fir.process (0 : Cx ℝ) Cx.conj s x).1, (Fir.process (0 : Cx ℝ) Cx.conj s x).2) := by
  unfold Gen.firCProcess toGenC Fir.process
  simp only [Gen.arrConcat, Gen.arrSize, Int.ofNat_eq_natCast, firCConv_eq]
  by_cases hh : 2 ≤ s.h.size
  · have hnd : (((s.h.size : Int) - (1 : Int))) = ((s.h.size - 1 : ℕ) : Int) := by omega
    have hsl := arrSlice_tail (s.d ++ x) (s.h.size - 1) (by omega) (by simp [hd])
    have harg : ((s.d ++ x).size : Int) - ((s.h.size : Int) - (1 : Int)) = ((s.d ++ x).size : Int) - ((s.h.size - 1 : ℕ) : Int) := by
      rw [hnd]
    rw [if_pos (by omega), harg, hsl]
  · have hd0 : s.d = #[] := Array.eq_empty_of_size_eq_zero (by omega)
    rw [if_neg (by omega)]
    have : s.h.size - 1 = 0 := by omega
    simp [hd0, this]

/-- **T07.1 transported, `FirFilter<cmplx_t>`:** from rest, at least one tap: the GENERATED `process` returns
`y[i] = Σ_{k ≤ i} conj(h[k])·x[i-k]` (read in `ℂ` through `toC`) -/
theorem gen_fir_eq_cmplx (h x : Array (Cx ℝ)) (hh : 1 ≤ h.size) :
    ∃ st y, Gen.firCProcess ⟨h, Array.replicate (h.size - 1) 0⟩ x = .ok (st, y) ∧ y.size = x.size ∧
      ∀ i, i < x.size → Cx.toC (y.getD i 0) =
        ∑ k ∈ Finset.range h.size, if k ≤ i then (starRingEnd ℂ) (Cx.toC (h.getD k 0)) * Cx.toC (x.getD (i - k) 0) else 0 := by
  have e := firCProcess_eq (Fir.init (0 : Cx ℝ) h) x (by simp [Fir.init])
  obtain ⟨h1, h2⟩ := C07.fir_eq_cmplx h x hh
  refine ⟨_, _, e, ?_, ?_⟩
  · simpa [firProcessC, firInitC, Cx.zeroC_eq] using h1
  · intro i hi
    have := h2 i hi
    simpa [firProcessC, firInitC, Cx.zeroC_eq] using this

/-- framing, real: two successive generated calls = the model's two calls (the hand-over through `_d` is the model's) -/
theorem firRProcess_two (s : Fir.State ℝ) (a b : Array ℝ) (hd : s.d.size = s.h.size - 1) (hh : 1 ≤ s.h.size) :
    (Gen.firRProcess (toGenR s) a).bind (fun r => Gen.firRProcess r.1 b) =
      .ok (toGenR (Fir.process (0 : ℝ) id (Fir.process (0 : ℝ) id s a).1 b).1,
           (Fir.process (0 : ℝ) id (Fir.process (0 : ℝ) id s a).1 b).2) := by
  rw [firRProcess_eq s a hd]
  have hd' : (Fir.process (0 : ℝ) id s a).1.d.size = (Fir.process (0 : ℝ) id s a).1.h.size - 1 := by
    simp only [Fir.process, Array.size_extract, Array.size_append, hd]; omega
  exact firRProcess_eq _ b hd'

end
/-! BEGIN steps3 constructors -/
/-! ## Constructor `FirFilter<T>::FirFilter(const base_array<T>& h)` (regenerated: `Gen/CtorFir.lean`)

`_h(h)` (a copy of the taps), `_d(h.size() - 1)` (zero-filled history of `nh - 1` samples). -/

noncomputable section

/-- **bridge, `FirFilter<real_t>` constructor:** for EVERY tap vector (the empty one included: `arrNew` of `-1` cells is empty, where
C++ throws `std::length_error`) the generated constructor leaves the model's `Fir.init`: "started from rest" -/
theorem firRCtor_eq (h : Array ℝ) : Gen.firRCtor h = toGenR (Fir.init (0 : ℝ) h) := by
  have h1 : ((h.size : Int) - 1).toNat = h.size - 1 := by omega
  simp [Gen.firRCtor, toGenR, Fir.init, Gen.arrNew, Gen.arrSize, Gen.zeroR, h1]

theorem firCCtor_eq (h : Array (Cx ℝ)) : Gen.firCCtor h = toGenC (Fir.init (0 : Cx ℝ) h) := by
  have h1 : ((h.size : Int) - 1).toNat = h.size - 1 := by omega
  simp [Gen.firCCtor, toGenC, Fir.init, Gen.arrNew, Gen.arrSize, gzeroC_eq, h1]

/-- **T07.1 from the GENERATED constructor through the GENERATED `process`, `FirFilter<real_t>`:** for every tap vector with at
least one tap, constructing by the regenerated constructor and calling the regenerated `process` returns
`y[i] = Σ_{k ≤ i} h[k]·x[i-k]` (and as many outputs as inputs). -/
theorem gen_fir_from_ctor_real (h x : Array ℝ) (hh : 1 ≤ h.size) :
    ∃ st y, Gen.firRProcess (Gen.firRCtor h) x = .ok (st, y) ∧ y.size = x.size ∧
      ∀ i, i < x.size → y.getD i 0 = ∑ k ∈ Finset.range h.size, if k ≤ i then h.getD k 0 * x.getD (i - k) 0 else 0 := by
  rw [firRCtor_eq]
  exact gen_fir_eq_real h x hh

/-- … and `FirFilter<cmplx_t>` -/
theorem gen_fir_from_ctor_cmplx (h x : Array (Cx ℝ)) (hh : 1 ≤ h.size) :
    ∃ st y, Gen.firCProcess (Gen.firCCtor h) x = .ok (st, y) ∧ y.size = x.size ∧
      ∀ i, i < x.size → Cx.toC (y.getD i 0) =
        ∑ k ∈ Finset.range h.size, if k ≤ i then (starRingEnd ℂ) (Cx.toC (h.getD k 0)) * Cx.toC (x.getD (i - k) 0) else 0 := by
  rw [firCCtor_eq]
  exact gen_fir_eq_cmplx h x hh

end
/-! END steps3 constructors -/

end Dsp.C07Gen
