import DspVerif.Props.C07
import DspVerif.Gen.StepsFir
import DspVerif.Gen.CtorFir
import DspVerif.Gen.StepsFftFilter
import DspVerif.Lib.RealFn
import DspVerif.Lib.GenBridge
/-!
# C07 — bridge: the hand-written `FirFilter` model IS the regenerated code of `lib/fir.cpp` / `include/dsplib/fir.h`

`Gen/StepsFir.lean` is written by `tools/cxx2lean.py` on every check run (both instantiations, `T = real_t`, `cmplx_t`):
* `_conv<T>(const T* x, const T* h, T* r, int nh, int nx)` as `Gen.fir?ConvKernel` with its two nested loops
  (`r[i] = 0; r[i] += x[i + k] * conj(h[nh - k - 1])`: `fir?ConvKernel_loop1/2`), the raw pointers as the arrays they point into.
  The row lemmas `convR_row` / `convC_row` accept BOTH ways of writing the inner sum — accumulate into the cell `r[i]`, or
  accumulate into a local (`T acc = 0; … acc += px[k] * …; r[i] = acc;`, also through a shifted pointer `px = x + i`, which the
  translator turns into (array, offset)) — so that behaviour-preserving rewrite (false-alarm control `benign-conv-acc`) keeps
  PROOF green, while another tap index, sample index, start value, loop bound or a dropped `conj` breaks it in either style;
* `FirFilter<T>::conv(x, h)` as `Gen.fir?Conv` (`arr r(x.size() - h.size() + 1)`, the kernel call on `r.data()`);
* `FirFilter<T>::process(s)` as `Gen.fir?Process`: `x = _d | s` (`arrConcat`, pinned `operator|`), `r = conv(x, _h)`,
  `nd = _h.size() - 1`, `nx = x.size()`, and the history hand-over `_d = x.slice(nx - nd, nx)` as `arrSlice`
  (`Gen/StepsSlice.lean`), whose acceptance test is the REGENERATED slice constructor `Gen.BaseSlice.ctor` of unit `Slice` —
  so the generated `process` is `Except`-valued.
`FftFilter::process` is NOT regenerated (range-based `for`, results emitted through a moving raw pointer `pr += _n` into the
result array, a local array declared inside a branch): its overlap-add model stays tied by the correspondence run.

Proved here, over ℝ / `Cx ℝ`: `firRConv_eq`, `firCConv_eq` (generated `conv` = `Fir.conv`, for every pair of arrays);
`firRProcess_eq`, `firCProcess_eq` (for EVERY tap vector, every history of `nh - 1` samples and every frame: the generated
`process` does not throw and equals `Fir.process`); `firRProcess_one_tap` (a one-tap filter keeps no history and works — before
the fix `if (nd > 0)` around the hand-over its slice `x.slice(nx, nx)` was rejected on every call); T07.1 transported:
`gen_fir_eq_real`, `gen_fir_eq_cmplx` (`y[i] = Σ_{k ≤ i} conj(h[k])·x[i-k]` for the arrays the generated code returns).
-/
namespace Dsp.C07Gen
open Dsp Dsp.Fir Dsp.GenBridge

set_option linter.unusedSectionVars false
set_option linter.unusedSimpArgs false

theorem acc_eq_foldl {β : Type} [Add β] (z : β) (n : Nat) (f : Nat → β) :
    Fir.acc z n f = (List.range n).foldl (fun a i => a + f i) z := by
  induction n with
  | zero => rfl
  | succ n ih => simp [Fir.acc, ih, List.range_succ]

/-- `for (k < n) a[i] = g(a[i], k);` for ANY loop body `f` that does this on the counter values `k < n`: the cell ends up holding the
value accumulated from its old content (the accumulate-into-the-cell way of writing a sum) -/
theorem foldl_range_acc_cell {β : Type} (d : β) (g : β → Nat → β) (i n : Nat) (f : Array β → Nat → Array β)
    (h : ∀ a k, k < n → f a k = a.setIfInBounds i (g (a.getD i d) k)) (a : Array β) :
    (List.range n).foldl f a = a.setIfInBounds i ((List.range n).foldl g (a.getD i d)) := by
  rw [foldl_range_congr f _ n h, foldl_acc_cell d g i]

/-- `a[i] = z; for (k ∈ l) a[i] = g(a[i], k);` leaves the array that `acc = z; for (k ∈ l) acc = g(acc, k); a[i] = acc;` leaves
(accumulate-into-the-cell = accumulate-into-a-local-then-store), also when `i` is outside the array (both leave it alone) -/
theorem set_foldl_acc_init {β : Type} (d z : β) (r : Array β) (i : Nat) (g : β → Nat → β) (l : List Nat) :
    (r.setIfInBounds i z).setIfInBounds i (l.foldl g ((r.setIfInBounds i z).getD i d)) = r.setIfInBounds i (l.foldl g z) := by
  rw [Array.setIfInBounds_setIfInBounds]
  by_cases hi : i < r.size
  · rw [getD_setIfInBounds]; simp [hi]
  · rw [Array.setIfInBounds_eq_of_size_le (Nat.le_of_not_lt hi), Array.setIfInBounds_eq_of_size_le (Nat.le_of_not_lt hi)]

noncomputable section

/-- row `i` of `_conv<real_t>`: `r[i] = Σ_{k < nh} x[i + k] * conj(h[nh - k - 1])`, summed in the order `k = 0, 1, …` from `0`.
The proof does not depend on HOW the C++ writes the sum — it accepts both
* accumulate into the cell: `r[i] = 0; for (k < nh) r[i] += x[i + k] * conj(h[nh - k - 1]);` (`foldl_range_acc_cell`), and
* accumulate into a local, store afterwards: `T acc = 0; for (k < nh) acc += …; r[i] = acc;`, `x[i + k]` possibly read through a
  shifted pointer `px = x + i` as `px[k]` (`foldl_range_congr`),
nor on the order / names of the generated loop function's arguments (it is found by unification), nor on the spelling of the
three index expressions (they only have to DENOTE `i`, `i + k`, `nh - k - 1` for `k < nh`: `omega`).  What it does depend on:
the operands, their order, the zero start value, the bounds of both loops. -/
theorem convR_row (x h r : Array ℝ) (i : ℕ) :
    Gen.firRConvKernel_loop2 (h.size : Int) x h r i =
      r.setIfInBounds i (Fir.acc (0 : ℝ) h.size fun k => x.getD (i + k) 0 * h.getD (h.size - k - 1) 0) := by
  unfold Gen.firRConvKernel_loop2
  simp only [Int.ofNat_eq_natCast, Int.toNat_natCast, ptrSet_natCast, fn_ofInt, Int.cast_zero]
  rw [acc_eq_foldl]
  first
  | -- accumulate into the cell `r[i]`
    (refine Eq.trans (foldl_range_acc_cell (0 : ℝ) (fun v k => v + x.getD (i + k) 0 * h.getD (h.size - k - 1) 0) i h.size _ ?_ _)
       (set_foldl_acc_init (0 : ℝ) 0 r i _ _)
     intro a k hk
     simp only [Gen.firRConvKernel_loop1, Gen.zeroR, Gen.conjr, Int.ofNat_eq_natCast, fn_ofInt, Int.cast_zero]
     -- whatever way the C++ spells the three index expressions: they denote `i`, `i + k`, `nh - k - 1`
     rw [ptrGet_eq 0 x _ (i + k) (by omega), ptrGet_eq 0 h _ (h.size - k - 1) (by omega), ptrGet_eq 0 a _ i (by omega),
       ptrSet_eq a _ i _ (by omega)]
     first | done | rfl | (congr 2; ring))
  | -- accumulate into a local scalar, store it into `r[i]` after the loop
    (refine congrArg (r.setIfInBounds i) (foldl_range_congr _ (fun v k => v + x.getD (i + k) 0 * h.getD (h.size - k - 1) 0) h.size ?_ 0)
     intro v k hk
     simp only [Gen.firRConvKernel_loop1, Gen.zeroR, Gen.conjr, Int.ofNat_eq_natCast, fn_ofInt, Int.cast_zero]
     rw [ptrGet_eq 0 x _ (i + k) (by omega), ptrGet_eq 0 h _ (h.size - k - 1) (by omega)]
     first | done | rfl | ring)

/-- **`FirFilter<real_t>::conv`, generated = model** for every pair of arrays (the empty result included) -/
theorem firRConv_eq (x h : Array ℝ) : Gen.firRConv x h = Fir.conv (0 : ℝ) id x h := by
  unfold Gen.firRConv Gen.firRConvKernel Fir.conv
  simp only [Gen.arrSize, Int.ofNat_eq_natCast, Gen.arrNew, Gen.zeroR, fn_ofInt, Int.cast_zero]
  have hn : (((x.size : Int) - (h.size : Int)) + (1 : Int)).toNat = x.size + 1 - h.size := by omega
  rw [hn]
  have hrow : (fun (r : Array ℝ) (i : ℕ) => Gen.firRConvKernel_loop2 (h.size : Int) x h r i) =
      fun r i => r.setIfInBounds i ((fun (_ : ℝ) i => Fir.acc (0 : ℝ) h.size fun k => x.getD (i + k) 0 * h.getD (h.size - k - 1) 0) (r.getD i 0) i) := by
    funext r i; exact convR_row x h r i
  have key := foldl_set_eq_ofFn (0 : ℝ)
    (fun (_ : ℝ) i => Fir.acc (0 : ℝ) h.size fun k => x.getD (i + k) 0 * h.getD (h.size - k - 1) 0)
    (x.size + 1 - h.size) (Array.replicate (x.size + 1 - h.size) 0) (by simp)
  rw [show Gen.firRConvKernel_loop2 (h.size : Int) x h = fun r i => Gen.firRConvKernel_loop2 (h.size : Int) x h r i from rfl, hrow]
  exact key

theorem natAbs_cast_sub (a b : ℕ) (h : b ≤ a) : (Int.ofNat (Int.natAbs ((a : Int) - ((a : Int) - (b : Int))))) = (b : Int) := by
  have : ((a : Int) - ((a : Int) - (b : Int))) = (b : Int) := by ring
  rw [this]; simp

/-- the history hand-over `x.slice(nx - nd, nx)` with `1 ≤ nd ≤ nx`: accepted by the regenerated slice constructor, and it
denotes the last `nd` elements -/
theorem arrSlice_tail {β : Type} (a : Array β) (nd : ℕ) (hnd : 1 ≤ nd) (hle : nd ≤ a.size) :
    Gen.arrSlice a ((a.size : Int) - (nd : Int)) (a.size : Int) = .ok (a.extract (a.size - nd) a.size) := by
  unfold Gen.arrSlice Gen.BaseSlice.ctor
  simp only [Gen.arrSize, Int.ofNat_eq_natCast]
  have h0 : ¬ ¬ ((a.size : Int) ≠ (0 : Int)) := by omega
  have h1 : ¬ ¬ ((1 : Int) ≠ (0 : Int)) := by omega
  have h2 : ¬ (((a.size : Int) - (nd : Int)) < (0 : Int)) := by omega
  have h3 : ¬ ((a.size : Int) < (0 : Int)) := by omega
  simp only [h0, h1, h2, h3, if_false, if_true]
  have e1 : ((a.size : Int) - (nd : Int)).toNat = a.size - nd := by omega
  have e2 : ((a.size : Int) - (nd : Int) + (nd : Int)).toNat = a.size := by omega
  have c1 : ¬ ((a.size : Int) - (nd : Int) ≥ (a.size : Int)) := by omega
  have c2 : ¬ ((a.size : Int) > (a.size : Int)) := by omega
  have c3 : ¬ ((1 : Int) < 0 ∧ (a.size : Int) - (nd : Int) < (a.size : Int)) := by omega
  have c4 : ¬ ((1 : Int) > 0 ∧ (a.size : Int) - (nd : Int) > (a.size : Int)) := by omega
  have c5 : ¬ ((nd : Int) > (a.size : Int)) := by omega
  have hA : ((a.size : Int) - ((a.size : Int) - (nd : Int))).natAbs = nd := by
    have : ((a.size : Int) - ((a.size : Int) - (nd : Int))) = (nd : Int) := by ring
    rw [this]; simp
  have hB : Int.natAbs (1 : Int) = 1 := rfl
  simp only [hA, hB, Nat.cast_one, Int.tmod_one, Int.tdiv_one, ne_eq, not_true_eq_false, if_false]
  simp only [false_or, c1, c2, c3, c4, c5, if_false]
  rw [e1, e2]

/-- the generated state of a model state -/
def toGenR (s : Fir.State ℝ) : Gen.FirFilterRState ℝ := ⟨s.h, s.d⟩

/-- **bridge, `FirFilter<real_t>::process`, one call.**  For EVERY tap vector, every history buffer of `nh - 1` samples and
every frame (the empty one included): the generated `process` — `_d | s`, the generated `conv`, and, when there is a history
to keep (`nd > 0`), the hand-over `_d = x.slice(nx - nd, nx)`, whose acceptance is decided by the REGENERATED slice
constructor — does not throw and returns exactly the model's `Fir.process`. -/
theorem firRProcess_eq (s : Fir.State ℝ) (x : Array ℝ) (hd : s.d.size = s.h.size - 1) :
    Gen.firRProcess (toGenR s) x = .ok (toGenR (Fir.process (0 : ℝ) id s x).1, (Fir.process (0 : ℝ) id s x).2) := by
  unfold Gen.firRProcess toGenR Fir.process
  simp only [Gen.arrConcat, Gen.arrSize, Int.ofNat_eq_natCast, firRConv_eq]
  by_cases hh : 2 ≤ s.h.size
  · have hnd : (((s.h.size : Int) - (1 : Int))) = ((s.h.size - 1 : ℕ) : Int) := by omega
    have hsl := arrSlice_tail (s.d ++ x) (s.h.size - 1) (by omega) (by simp [hd])
    have harg : ((s.d ++ x).size : Int) - ((s.h.size : Int) - (1 : Int)) = ((s.d ++ x).size : Int) - ((s.h.size - 1 : ℕ) : Int) := by
      rw [hnd]
    rw [if_pos (by omega), harg, hsl]
  · -- at most one tap: no history is kept, `_d` (empty) is left alone
    have hd0 : s.d = #[] := Array.eq_empty_of_size_eq_zero (by omega)
    rw [if_neg (by omega)]
    have : s.h.size - 1 = 0 := by omega
    simp [hd0, this]

/-- a ONE-tap `FirFilter` works (since the fix `if (nd > 0)` around the hand-over): no history, `y[i] = h0 · x[i]` through the
generated `conv`; before that fix the slice `x.slice(nx, nx)` was rejected on every call -/
theorem firRProcess_one_tap (h0 : ℝ) (x : Array ℝ) :
    Gen.firRProcess ⟨#[h0], #[]⟩ x = .ok (⟨#[h0], #[]⟩, Fir.conv (0 : ℝ) id x #[h0]) ∧
    (Fir.conv (0 : ℝ) id x #[h0]).size = x.size := by
  constructor
  · have := firRProcess_eq ⟨#[h0], #[]⟩ x (by simp)
    simpa [toGenR, Fir.process] using this
  · simp [Fir.conv]

/-- **T07.1 transported to the regenerated code, `FirFilter<real_t>`:** started from rest (`_d` zero-filled), for every tap
vector with at least one tap, the GENERATED `process` returns `y[i] = Σ_{k ≤ i} h[k]·x[i-k]` (and as many outputs as inputs). -/
theorem gen_fir_eq_real (h x : Array ℝ) (hh : 1 ≤ h.size) :
    ∃ st y, Gen.firRProcess ⟨h, Array.replicate (h.size - 1) 0⟩ x = .ok (st, y) ∧ y.size = x.size ∧
      ∀ i, i < x.size → y.getD i 0 = ∑ k ∈ Finset.range h.size, if k ≤ i then h.getD k 0 * x.getD (i - k) 0 else 0 := by
  have e := firRProcess_eq (Fir.init (0 : ℝ) h) x (by simp [Fir.init])
  obtain ⟨h1, h2⟩ := C07.fir_eq_real h x hh
  refine ⟨_, _, e, ?_, ?_⟩
  · simpa [firProcessR, firInitR, Cx.zeroR_eq] using h1
  · intro i hi
    have := h2 i hi
    simpa [firProcessR, firInitR, Cx.zeroR_eq] using this

/-! ## `T = cmplx_t` -/

theorem gzeroC_eq : (Gen.zeroC : Cx ℝ) = 0 := by apply Cx.ext' <;> simp [Gen.zeroC]
theorem fill0C_eq : (Cx.mk (Fn.ofInt (0 : Int)) (Fn.ofInt (0 : Int)) : Cx ℝ) = 0 := by apply Cx.ext' <;> simp

/-- row `i` of `_conv<cmplx_t>` (as `convR_row`: both ways of writing the sum are accepted; the taps enter conjugated) -/
theorem convC_row (x h r : Array (Cx ℝ)) (i : ℕ) :
    Gen.firCConvKernel_loop2 (h.size : Int) x h r i =
      r.setIfInBounds i (Fir.acc (0 : Cx ℝ) h.size fun k => x.getD (i + k) 0 * Cx.conj (h.getD (h.size - k - 1) 0)) := by
  unfold Gen.firCConvKernel_loop2
  simp only [Int.ofNat_eq_natCast, Int.toNat_natCast, ptrSet_natCast, fill0C_eq]
  rw [acc_eq_foldl]
  first
  | -- accumulate into the cell `r[i]`
    (refine Eq.trans (foldl_range_acc_cell (0 : Cx ℝ)
         (fun v k => v + x.getD (i + k) 0 * Cx.conj (h.getD (h.size - k - 1) 0)) i h.size _ ?_ _)
       (set_foldl_acc_init (0 : Cx ℝ) 0 r i _ _)
     intro a k hk
     simp only [Gen.firCConvKernel_loop1, gzeroC_eq, Gen.conjc, Cx.addAssign, Int.ofNat_eq_natCast]
     rw [ptrGet_eq 0 x _ (i + k) (by omega), ptrGet_eq 0 h _ (h.size - k - 1) (by omega), ptrGet_eq 0 a _ i (by omega),
       ptrSet_eq a _ i _ (by omega)]
     first | done | rfl)
  | -- accumulate into a local scalar, store it into `r[i]` after the loop
    (refine congrArg (r.setIfInBounds i)
       (foldl_range_congr _ (fun v k => v + x.getD (i + k) 0 * Cx.conj (h.getD (h.size - k - 1) 0)) h.size ?_ 0)
     intro v k hk
     simp only [Gen.firCConvKernel_loop1, gzeroC_eq, Gen.conjc, Cx.addAssign, Int.ofNat_eq_natCast]
     rw [ptrGet_eq 0 x _ (i + k) (by omega), ptrGet_eq 0 h _ (h.size - k - 1) (by omega)]
     first | done | rfl)

/-- **`FirFilter<cmplx_t>::conv`, generated = model** (taps enter conjugated: `Cx.conj`, the regenerated `cmplx_t::conj`) -/
theorem firCConv_eq (x h : Array (Cx ℝ)) : Gen.firCConv x h = Fir.conv (0 : Cx ℝ) Cx.conj x h := by
  unfold Gen.firCConv Gen.firCConvKernel Fir.conv
  simp only [Gen.arrSize, Int.ofNat_eq_natCast, Gen.arrNew, gzeroC_eq]
  have hn : (((x.size : Int) - (h.size : Int)) + (1 : Int)).toNat = x.size + 1 - h.size := by omega
  rw [hn]
  have hrow : (fun (r : Array (Cx ℝ)) (i : ℕ) => Gen.firCConvKernel_loop2 (h.size : Int) x h r i) =
      fun r i => r.setIfInBounds i ((fun (_ : Cx ℝ) i =>
        Fir.acc (0 : Cx ℝ) h.size fun k => x.getD (i + k) 0 * Cx.conj (h.getD (h.size - k - 1) 0)) (r.getD i 0) i) := by
    funext r i; exact convC_row x h r i
  have key := foldl_set_eq_ofFn (0 : Cx ℝ)
    (fun (_ : Cx ℝ) i => Fir.acc (0 : Cx ℝ) h.size fun k => x.getD (i + k) 0 * Cx.conj (h.getD (h.size - k - 1) 0))
    (x.size + 1 - h.size) (Array.replicate (x.size + 1 - h.size) 0) (by simp)
  rw [show Gen.firCConvKernel_loop2 (h.size : Int) x h = fun r i => Gen.firCConvKernel_loop2 (h.size : Int) x h r i from rfl, hrow]
  exact key

def toGenC (s : Fir.State (Cx ℝ)) : Gen.FirFilterCState ℝ := ⟨s.h, s.d⟩

/-- **bridge, `FirFilter<cmplx_t>::process`, one call** (as `firRProcess_eq`) -/
theorem firCProcess_eq (s : Fir.State (Cx ℝ)) (x : Array (Cx ℝ)) (hd : s.d.size = s.h.size - 1) :
    Gen.firCProcess (toGenC s) x =
      .ok (toGenC (Fir.process (0 : Cx ℝ) Cx.conj s x).1, (Fir.process (0 : Cx ℝ) Cx.conj s x).2) := by
  unfold Gen.firCProcess toGenC Fir.process
  simp only [Gen.arrConcat, Gen.arrSize, Int.ofNat_eq_natCast, firCConv_eq]
  by_cases hh : 2 ≤ s.h.size
  · have hnd : (((s.h.size : Int) - (1 : Int))) = ((s.h.size - 1 : ℕ) : Int) := by omega
    have hsl := arrSlice_tail (s.d ++ x) (s.h.size - 1) (by omega) (by simp [hd])
    have harg : ((s.d ++ x).size : Int) - ((s.h.size : Int) - (1 : Int)) = ((s.d ++ x).size : Int) - ((s.h.size - 1 : ℕ) : Int) := by
      rw [hnd]
    rw [if_pos (by omega), harg, hsl]
  · have hd0 : s.d = #[] := Array.eq_empty_of_size_eq_zero (by omega)
    rw [if_neg (by omega)]
    have : s.h.size - 1 = 0 := by omega
    simp [hd0, this]

/-- **T07.1 transported, `FirFilter<cmplx_t>`:** from rest, at least one tap: the GENERATED `process` returns
`y[i] = Σ_{k ≤ i} conj(h[k])·x[i-k]` (read in `ℂ` through `toC`) -/
theorem gen_fir_eq_cmplx (h x : Array (Cx ℝ)) (hh : 1 ≤ h.size) :
    ∃ st y, Gen.firCProcess ⟨h, Array.replicate (h.size - 1) 0⟩ x = .ok (st, y) ∧ y.size = x.size ∧
      ∀ i, i < x.size → Cx.toC (y.getD i 0) =
        ∑ k ∈ Finset.range h.size, if k ≤ i then (starRingEnd ℂ) (Cx.toC (h.getD k 0)) * Cx.toC (x.getD (i - k) 0) else 0 := by
  have e := firCProcess_eq (Fir.init (0 : Cx ℝ) h) x (by simp [Fir.init])
  obtain ⟨h1, h2⟩ := C07.fir_eq_cmplx h x hh
  refine ⟨_, _, e, ?_, ?_⟩
  · simpa [firProcessC, firInitC, Cx.zeroC_eq] using h1
  · intro i hi
    have := h2 i hi
    simpa [firProcessC, firInitC, Cx.zeroC_eq] using this

/-- framing, real: two successive generated calls = the model's two calls (the hand-over through `_d` is the model's) -/
theorem firRProcess_two (s : Fir.State ℝ) (a b : Array ℝ) (hd : s.d.size = s.h.size - 1) (hh : 1 ≤ s.h.size) :
    (Gen.firRProcess (toGenR s) a).bind (fun r => Gen.firRProcess r.1 b) =
      .ok (toGenR (Fir.process (0 : ℝ) id (Fir.process (0 : ℝ) id s a).1 b).1,
           (Fir.process (0 : ℝ) id (Fir.process (0 : ℝ) id s a).1 b).2) := by
  rw [firRProcess_eq s a hd]
  have hd' : (Fir.process (0 : ℝ) id s a).1.d.size = (Fir.process (0 : ℝ) id s a).1.h.size - 1 := by
    simp only [Fir.process, Array.size_extract, Array.size_append, hd]; omega
  exact firRProcess_eq _ b hd'

end
/-! BEGIN steps3 constructors -/
/-! ## Constructor `FirFilter<T>::FirFilter(const base_array<T>& h)` (regenerated: `Gen/CtorFir.lean`)

`_h(h)` (a copy of the taps), `_d(h.size() - 1)` (zero-filled history of `nh - 1` samples). -/

noncomputable section

/-- **bridge, `FirFilter<real_t>` constructor:** for EVERY tap vector (the empty one included: `arrNew` of `-1` cells is empty, where
C++ throws `std::length_error`) the generated constructor leaves the model's `Fir.init`: "started from rest" -/
theorem firRCtor_eq (h : Array ℝ) : Gen.firRCtor h = toGenR (Fir.init (0 : ℝ) h) := by
  have h1 : ((h.size : Int) - 1).toNat = h.size - 1 := by omega
  simp [Gen.firRCtor, toGenR, Fir.init, Gen.arrNew, Gen.arrSize, Gen.zeroR, h1]

theorem firCCtor_eq (h : Array (Cx ℝ)) : Gen.firCCtor h = toGenC (Fir.init (0 : Cx ℝ) h) := by
  have h1 : ((h.size : Int) - 1).toNat = h.size - 1 := by omega
  simp [Gen.firCCtor, toGenC, Fir.init, Gen.arrNew, Gen.arrSize, gzeroC_eq, h1]

/-- **T07.1 from the GENERATED constructor through the GENERATED `process`, `FirFilter<real_t>`:** for every tap vector with at
least one tap, constructing by the regenerated constructor and calling the regenerated `process` returns
`y[i] = Σ_{k ≤ i} h[k]·x[i-k]` (and as many outputs as inputs). -/
theorem gen_fir_from_ctor_real (h x : Array ℝ) (hh : 1 ≤ h.size) :
    ∃ st y, Gen.firRProcess (Gen.firRCtor h) x = .ok (st, y) ∧ y.size = x.size ∧
      ∀ i, i < x.size → y.getD i 0 = ∑ k ∈ Finset.range h.size, if k ≤ i then h.getD k 0 * x.getD (i - k) 0 else 0 := by
  rw [firRCtor_eq]
  exact gen_fir_eq_real h x hh

/-- … and `FirFilter<cmplx_t>` -/
theorem gen_fir_from_ctor_cmplx (h x : Array (Cx ℝ)) (hh : 1 ≤ h.size) :
    ∃ st y, Gen.firCProcess (Gen.firCCtor h) x = .ok (st, y) ∧ y.size = x.size ∧
      ∀ i, i < x.size → Cx.toC (y.getD i 0) =
        ∑ k ∈ Finset.range h.size, if k ≤ i then (starRingEnd ℂ) (Cx.toC (h.getD k 0)) * Cx.toC (x.getD (i - k) 0) else 0 := by
  rw [firCCtor_eq]
  exact gen_fir_eq_cmplx h x hh

end
/-! END steps3 constructors -/

/-! BEGIN steps3 fftfilter -/
/-! ## Constructors and `process` of `FftFilter` (regenerated: `Gen/StepsFftFilter.lean`) -/

noncomputable section

/-! ### helpers -/

theorem foldl_range_rel {A B : Type} (R : Nat → A → B → Prop) (f : A → Nat → A) (g : B → Nat → B) (n : Nat)
    (h : ∀ k a b, k < n → R k a b → R (k + 1) (f a k) (g b k)) (a : A) (b : B) (h0 : R 0 a b) :
    R n ((List.range n).foldl f a) ((List.range n).foldl g b) := by
  induction n with
  | zero => exact h0
  | succ n ih =>
    rw [List.range_succ, List.foldl_append, List.foldl_append]
    simp only [List.foldl_cons, List.foldl_nil]
    exact h n _ _ (Nat.lt_succ_self n) (ih (fun k a b hk => h k a b (Nat.lt_succ_of_lt hk)))

theorem array_foldl_eq_range {β σ : Type} (d : β) (f : σ → β → σ) (xs : Array β) (s : σ) :
    xs.foldl f s = (List.range xs.size).foldl (fun acc k => f acc (xs.getD k d)) s := by
  rw [← Array.foldl_toList]
  have : ∀ (l : List β) (s : σ), l.foldl f s = (List.range l.length).foldl (fun acc k => f acc (l.getD k d)) s := by
    intro l
    induction l using List.reverseRecOn with
    | nil => intro s; rfl
    | append_singleton l x ih =>
      intro s
      rw [List.foldl_append, List.length_append, List.length_singleton, List.range_succ, List.foldl_append]
      simp only [List.foldl_cons, List.foldl_nil]
      rw [ih]
      congr 1
      · apply foldl_range_congr
        intro v k hk
        simp only [List.getD_eq_getElem?_getD, List.getElem?_append_left hk]
      · simp [List.getD_eq_getElem?_getD]
  rw [this xs.toList s, Array.length_toList]
  apply foldl_range_congr
  intro v k _
  rw [getD_toList]

theorem succ_div_mod (t n : ℕ) (hn : 0 < n) :
    (t % n + 1 = n → (t + 1) / n = t / n + 1 ∧ (t + 1) % n = 0) ∧
    (t % n + 1 ≠ n → (t + 1) / n = t / n ∧ (t + 1) % n = t % n + 1) := by
  have h1 := Nat.div_add_mod t n
  have h2 := Nat.mod_lt t hn
  constructor
  · intro h
    have e : t + 1 = n * (t / n + 1) := by rw [Nat.mul_add, Nat.mul_one]; omega
    rw [e]
    exact ⟨Nat.mul_div_cancel_left _ hn, Nat.mul_mod_right _ _⟩
  · intro h
    have hlt : t % n + 1 < n := by omega
    have e : t + 1 = n * (t / n) + (t % n + 1) := by omega
    rw [e]
    constructor
    · rw [Nat.mul_add_div hn, Nat.div_eq_of_lt hlt]; simp
    · rw [Nat.mul_add_mod, Nat.mod_eq_of_lt hlt]

/-! ### `FftFilter::process` -/

/-- the generated state of a model state -/
def toGenF (s : FftState (Cx ℝ)) : Gen.FftFilterState ℝ := ⟨s.x, s.H, s.olap, (s.nx : Int), (s.m : Int), (s.n : Int)⟩

/-- sizes and counters that the constructor establishes and the sample loop keeps: `_n ≥ 1`, `_nx < _n`, `_olap` has `_m - 1` cells,
`_m - 1 ≤ _n` (the overlap fits into one block) -/
def SInv (s : FftState (Cx ℝ)) : Prop := 1 ≤ s.n ∧ s.nx < s.n ∧ s.olap.size = s.m - 1 ∧ s.m ≤ s.n + 1

/-- `arr_cmplx * arr_cmplx` (generated value) is the model's element-wise product -/
theorem arrMulCC_eq (a b : Array (Cx ℝ)) : Gen.arrMulCC a b = mulv (0 : Cx ℝ) a b := by
  unfold Gen.arrMulCC mulv
  apply Array.ext
  · simp
  · intro i h1 h2
    simp only [Array.size_ofFn] at h1
    simp [Cx.mulAssign, gzeroC_eq, Array.getD_eq_getD_getElem?]

/-- first inner loop of a completed block: `pr[i] = ry[i]`, `i < _n` -/
theorem fft_loop1 (r ry : Array (Cx ℝ)) (p n : ℕ) :
    ((List.range n).foldl (Gen.fftFilterProcess_loop1 (p : Int) ry) r).size = r.size ∧
    ∀ j, ((List.range n).foldl (Gen.fftFilterProcess_loop1 (p : Int) ry) r).getD j 0 =
      if p ≤ j ∧ j < p + n ∧ j < r.size then ry.getD (j - p) 0 else r.getD j 0 := by
  have hf : (Gen.fftFilterProcess_loop1 (p : Int) ry : Array (Cx ℝ) → Nat → Array (Cx ℝ)) =
      fun a k => a.setIfInBounds (p + k) ((fun (k : Nat) (_ : Cx ℝ) => ry.getD k 0) k (a.getD (p + k) 0)) := by
    funext a k
    simp only [Gen.fftFilterProcess_loop1, Int.ofNat_eq_natCast, arrGet_natCast, gzeroC_eq]
    exact ptrSet_eq _ _ (p + k) _ (by push_cast; ring)
  rw [hf]
  exact foldl_cell_row (0 : Cx ℝ) (fun (k : Nat) (_ : Cx ℝ) => ry.getD k 0) p r n

/-- second inner loop of a completed block: `pr[i] += _olap[i]; _olap[i] = ry[i + _n]`, `i < _m - 1` — the two updates touch different
objects and iteration `i` reads `_olap[i]` before any iteration writes it: the loop is the two loops run one after the other -/
theorem fft_loop2 (r ry : Array (Cx ℝ)) (g : Gen.FftFilterState ℝ) (p n : ℕ) (hn : g.n = (n : Int)) :
    ∀ c, c ≤ g.olap.size →
      ((List.range c).foldl (Gen.fftFilterProcess_loop2 (p : Int) ry) (r, g)).2 =
        { g with olap := (List.range c).foldl (fun (o : Array (Cx ℝ)) i => o.setIfInBounds i ((fun (_ : Cx ℝ) (i : Nat) => ry.getD (i + n) 0) (o.getD i 0) i)) g.olap } ∧
      ((List.range c).foldl (Gen.fftFilterProcess_loop2 (p : Int) ry) (r, g)).1 =
        (List.range c).foldl (fun (a : Array (Cx ℝ)) k =>
          a.setIfInBounds (p + k) ((fun (k : Nat) (old : Cx ℝ) => old + g.olap.getD k 0) k (a.getD (p + k) 0))) r := by
  intro c
  induction c with
  | zero => intro _; exact ⟨rfl, rfl⟩
  | succ c ih =>
    intro hc
    obtain ⟨h1, h2⟩ := ih (by omega)
    rw [List.range_succ, List.foldl_append, List.foldl_append, List.foldl_append]
    simp only [List.foldl_cons, List.foldl_nil]
    generalize hG : (List.range c).foldl (Gen.fftFilterProcess_loop2 (p : Int) ry) (r, g) = G at h1 h2 ⊢
    obtain ⟨Gr, Gs⟩ := G
    simp only at h1 h2
    subst h1 h2
    have hold := (foldl_set_inv (0 : Cx ℝ) (fun (_ : Cx ℝ) (i : Nat) => ry.getD (i + n) 0) g.olap.size g.olap rfl c (by omega)).2 c
    rw [if_neg (by omega)] at hold
    simp only [Gen.fftFilterProcess_loop2, Int.ofNat_eq_natCast, arrGet_natCast, arrSet_natCast, gzeroC_eq, Cx.addAssign, hn]
    refine ⟨?_, ?_⟩
    · first
        | (congr 1; done)
        | (congr 1; rw [arrGet_eq _ _ _ (c + n) (by push_cast; ring)])
    · rw [ptrSet_eq _ _ (p + c) _ (by push_cast; ring), ptrGet_eq _ _ _ (p + c) (by push_cast; ring), hold]

/-- the cells a completed block writes: `fftBlock` at `[p, p + n)`, everything else untouched; the new `_olap` is `fftTail` -/
theorem fft_block (r ry : Array (Cx ℝ)) (g : Gen.FftFilterState ℝ) (p n m : ℕ) (hn : g.n = (n : Int)) (hm : g.m = (m : Int))
    (hol : g.olap.size = m - 1) (hmn : m ≤ n + 1) (hfit : p + n ≤ r.size) :
    let R := (List.range (m - 1)).foldl (Gen.fftFilterProcess_loop2 (p : Int) ry)
      ((List.range n).foldl (Gen.fftFilterProcess_loop1 (p : Int) ry) r, g)
    R.2 = { g with olap := fftTail (0 : Cx ℝ) n m ry } ∧ R.1.size = r.size ∧
      ∀ j, R.1.getD j 0 = if p ≤ j ∧ j < p + n then (fftBlock (0 : Cx ℝ) n m ry g.olap).getD (j - p) 0 else r.getD j 0 := by
  intro R
  obtain ⟨a1, a2⟩ := fft_loop1 r ry p n
  obtain ⟨b1, b2⟩ := fft_loop2 ((List.range n).foldl (Gen.fftFilterProcess_loop1 (p : Int) ry) r) ry g p n hn (m - 1) (by omega)
  obtain ⟨c1, c2⟩ := foldl_cell_row (0 : Cx ℝ) (fun (k : Nat) (old : Cx ℝ) => old + g.olap.getD k 0) p
    ((List.range n).foldl (Gen.fftFilterProcess_loop1 (p : Int) ry) r) (m - 1)
  refine ⟨?_, ?_, ?_⟩
  · show R.2 = _
    rw [b1]
    congr 1
    have := foldl_set_eq_ofFn (0 : Cx ℝ) (fun (_ : Cx ℝ) (i : Nat) => ry.getD (i + n) 0) g.olap.size g.olap rfl
    rw [hol] at this
    rw [this]
    rfl
  · show R.1.size = _
    rw [b2, c1, a1]
  · intro j
    show R.1.getD j 0 = _
    rw [b2, c2 j, a1, a2 j]
    unfold fftBlock
    by_cases hj : p ≤ j ∧ j < p + n
    · have hjr : j < r.size := by omega
      rw [if_pos hj, getD_ofFn, dif_pos (by omega)]
      by_cases hk : j - p < m - 1
      · rw [if_pos ⟨hj.1, by omega, hjr⟩, if_pos ⟨hj.1, hj.2, hjr⟩]
        simp only [hk, if_true]
      · rw [if_neg (by omega), if_pos ⟨hj.1, hj.2, hjr⟩]
        simp only [hk, if_false]
    · rw [if_neg hj]
      have h1 : ¬ (p ≤ j ∧ j < p + (m - 1) ∧ j < r.size) := by omega
      have h2 : ¬ (p ≤ j ∧ j < p + n ∧ j < r.size) := by tauto
      rw [if_neg h1, if_neg h2]

/-- the relation the sample loop keeps between the generated accumulator `(members, r, pr - r.data())` and the model's `(state, out)`
after `k` samples: same members, the output pointer is at `|out|`, `r` (allocated with its final length `N`) agrees with `out` on
`[0, |out|)`, and the block / position counters are `(k + nx₀) div n`, `(k + nx₀) mod n` -/
def FRel (N n m nx0 : ℕ) (k : ℕ) (G : Gen.FftFilterState ℝ × Array (Cx ℝ) × Int) (so : FftState (Cx ℝ) × Array (Cx ℝ)) : Prop :=
  G.1 = toGenF so.1 ∧ G.2.2 = (so.2.size : Int) ∧ G.2.1.size = N ∧ (∀ j, j < so.2.size → G.2.1.getD j 0 = so.2.getD j 0) ∧
    SInv so.1 ∧ so.1.n = n ∧ so.1.m = m ∧ so.2.size = (k + nx0) / n * n ∧ so.1.nx = (k + nx0) % n

theorem fft_step_rel (fft ifft : Array (Cx ℝ) → Array (Cx ℝ)) (xs : Array (Cx ℝ)) (n m nx0 : ℕ) (k : ℕ) (hk : k < xs.size)
    (G : Gen.FftFilterState ℝ × Array (Cx ℝ) × Int) (so : FftState (Cx ℝ) × Array (Cx ℝ))
    (h : FRel ((xs.size + nx0) / n * n) n m nx0 k G so) :
    FRel ((xs.size + nx0) / n * n) n m nx0 (k + 1) (Gen.fftFilterProcess_loop3 xs fft ifft G k)
      (fftStep (0 : Cx ℝ) fft ifft so (xs.getD k 0)) := by
  obtain ⟨G1, Gr, Gp⟩ := G
  obtain ⟨s, out⟩ := so
  obtain ⟨e1, e2, e3, e4, hinv, en, em, esz, enx⟩ := h
  simp only at e1 e2 e3 e4 en em esz enx
  obtain ⟨i1, i2, i3, i4⟩ := hinv
  simp only at i1 i2 i3 i4
  subst e1
  have hn0 : 0 < n := by omega
  obtain ⟨dA, dB⟩ := succ_div_mod (k + nx0) n hn0
  have hval : Gen.ptrGet (Gen.zeroC : Cx ℝ) xs (Int.ofNat k) = xs.getD k 0 := by
    rw [Int.ofNat_eq_natCast, ptrGet_natCast, gzeroC_eq]
  unfold Gen.fftFilterProcess_loop3 fftStep
  simp only [hval, toGenF, arrSet_natCast]
  by_cases hw : s.nx + 1 = s.n
  · -- a block is complete
    have hw' : ((s.nx : Int) + 1 = (s.n : Int)) := by exact_mod_cast hw
    obtain ⟨d1, d2⟩ := dA (by omega)
    rw [if_pos hw', if_pos hw]
    simp only [arrMulCC_eq, Int.toNat_natCast]
    have hm1 : ((s.m : Int) - 1).toNat = s.m - 1 := by omega
    rw [hm1]
    set ry := ifft (mulv (0 : Cx ℝ) (fft (s.x.setIfInBounds s.nx (xs.getD k 0))) s.H) with hry
    have hfit : out.size + s.n ≤ Gr.size := by
      rw [e3, esz, en]
      have : (k + nx0) / n + 1 ≤ (xs.size + nx0) / n := by
        rw [← d1]; exact Nat.div_le_div_right (by omega)
      calc (k + nx0) / n * n + n = ((k + nx0) / n + 1) * n := by ring
        _ ≤ (xs.size + nx0) / n * n := Nat.mul_le_mul_right n this
    obtain ⟨b1, b2, b3⟩ := fft_block Gr ry
      ⟨s.x.setIfInBounds s.nx (xs.getD k 0), s.H, s.olap, (s.nx : Int) + 1, (s.m : Int), (s.n : Int)⟩ out.size s.n s.m rfl rfl i3 i4 hfit
    rw [e2]
    simp only at b1 b2 b3
    refine ⟨?_, ?_, ?_, ?_, ?_, en, em, ?_, ?_⟩
    · simp only [b1]; rfl
    · simp only [b1, Array.size_append]
      have : (fftBlock (0 : Cx ℝ) s.n s.m ry s.olap).size = s.n := by simp [fftBlock]
      rw [this]; push_cast; ring
    · simp only [b2, e3]
    · intro j hj
      simp only [Array.size_append] at hj
      have hbs : (fftBlock (0 : Cx ℝ) s.n s.m ry s.olap).size = s.n := by simp [fftBlock]
      rw [hbs] at hj
      simp only
      rw [b3 j]
      by_cases hjo : j < out.size
      · rw [if_neg (by omega), e4 j hjo]
        simp [Array.getD_eq_getD_getElem?, Array.getElem?_append, hjo]
      · rw [if_pos (by omega)]
        simp only [Array.getD_eq_getD_getElem?, Array.getElem?_append, hjo, if_false]
    · exact ⟨i1, by show 0 < s.n; omega, by simp [fftTail], i4⟩
    · simp only [Array.size_append]
      have : (fftBlock (0 : Cx ℝ) s.n s.m ry s.olap).size = s.n := by simp [fftBlock]
      rw [this, esz, show k + 1 + nx0 = k + nx0 + 1 by ring, d1, en]; ring
    · show 0 = (k + 1 + nx0) % n
      rw [show k + 1 + nx0 = k + nx0 + 1 by ring, d2]
  · have hw' : ¬ ((s.nx : Int) + 1 = (s.n : Int)) := by intro e; exact hw (by exact_mod_cast e)
    obtain ⟨d1, d2⟩ := dB (by omega)
    rw [if_neg hw', if_neg hw]
    refine ⟨?_, e2, e3, e4, ⟨i1, by show s.nx + 1 < s.n; omega, i3, i4⟩, en, em, ?_, ?_⟩
    · simp only [toGenF]; push_cast; rfl
    · show out.size = (k + 1 + nx0) / n * n
      rw [show k + 1 + nx0 = k + nx0 + 1 by ring, d1]; exact esz
    · show s.nx + 1 = (k + 1 + nx0) % n
      rw [show k + 1 + nx0 = k + nx0 + 1 by ring, d2, enx]

/-- **bridge, `FftFilter::process(const arr_cmplx&)`, one call.**  For every pair of transforms (parameters), every state with the
structural invariant `SInv` (which the constructor establishes: `fftInit_SInv`) and every frame: the GENERATED `process` — the output
array allocated at its final length, the range-based sample loop, the block buffer `_x[_nx]`, and for every completed block the
transforms, the two copy loops through the moving output pointer `pr` and the overlap hand-over — returns the model's `fftProcess`
(same members, same output). -/
theorem fftFilterProcess_eq (fft ifft : Array (Cx ℝ) → Array (Cx ℝ)) (s : FftState (Cx ℝ)) (hs : SInv s) (xs : Array (Cx ℝ)) :
    Gen.fftFilterProcess fft ifft (toGenF s) xs =
      (toGenF (fftProcess (0 : Cx ℝ) fft ifft s xs).1, (fftProcess (0 : Cx ℝ) fft ifft s xs).2) := by
  unfold Gen.fftFilterProcess fftProcess
  rw [array_foldl_eq_range (0 : Cx ℝ) (fftStep (0 : Cx ℝ) fft ifft) xs (s, #[])]
  simp only [Gen.arrSize, Int.ofNat_eq_natCast, Int.toNat_natCast, toGenF, Gen.arrNew]
  have hn0 : 0 < s.n := hs.1
  have hN : (Int.tdiv ((xs.size : Int) + (s.nx : Int)) (s.n : Int) * (s.n : Int)).toNat = (xs.size + s.nx) / s.n * s.n := by
    rw [show ((xs.size : Int) + (s.nx : Int)) = ((xs.size + s.nx : ℕ) : Int) by push_cast; ring, Int.tdiv_eq_ediv_of_nonneg (by omega)]
    rw [show (((xs.size + s.nx : ℕ) : Int) / (s.n : Int)) * (s.n : Int) = (((xs.size + s.nx) / s.n * s.n : ℕ) : Int) by push_cast; rfl]
    exact Int.toNat_natCast _
  have hN' : (Int.tdiv ((s.nx : Int) + (xs.size : Int)) (s.n : Int) * (s.n : Int)).toNat = (xs.size + s.nx) / s.n * s.n := by
    rw [add_comm]; exact hN
  first
    | rw [hN]
    | rw [hN']
  have key := foldl_range_rel (FRel ((xs.size + s.nx) / s.n * s.n) s.n s.m s.nx)
    (Gen.fftFilterProcess_loop3 xs fft ifft) (fun acc k => fftStep (0 : Cx ℝ) fft ifft acc (xs.getD k 0)) xs.size
    (fun k a b hk hab => fft_step_rel fft ifft xs s.n s.m s.nx k hk a b hab)
    (toGenF s, Array.replicate ((xs.size + s.nx) / s.n * s.n) Gen.zeroC, (0 : Int)) (s, #[])
    ⟨rfl, by simp, by simp, by intro j hj; simp at hj, hs, rfl, rfl, by
      simp only [Array.size_empty, Nat.zero_add]
      rw [Nat.div_eq_of_lt hs.2.1]; simp, by
      simp only [Nat.zero_add]; exact (Nat.mod_eq_of_lt hs.2.1).symm⟩
  obtain ⟨k1, k2, k3, k4, _, _, _, k8, _⟩ := key
  simp only [toGenF] at k1 k2 k3 k4 k8 ⊢
  generalize (List.range xs.size).foldl (Gen.fftFilterProcess_loop3 xs fft ifft)
    (toGenF s, Array.replicate ((xs.size + s.nx) / s.n * s.n) Gen.zeroC, (0 : Int)) = G at k1 k2 k3 k4 ⊢
  generalize (List.range xs.size).foldl (fun acc k => fftStep (0 : Cx ℝ) fft ifft acc (xs.getD k 0)) (s, #[]) = M at k1 k2 k3 k4 k8 ⊢
  obtain ⟨G1, Gr, Gp⟩ := G
  obtain ⟨Ms, Mo⟩ := M
  simp only at k1 k2 k3 k4 k8 ⊢
  rw [k1]
  congr 1
  apply ext_getD (0 : Cx ℝ)
  · rw [k3, k8]
  · intro j hj
    rw [k3, ← k8] at hj
    exact k4 j hj

/-! ### the constructors -/

/-- `conj(const arr_cmplx&)` of lib/math.cpp (generated) is the element-wise conjugate -/
theorem conjArr_eq (x : Array (Cx ℝ)) : Gen.conjArr x = x.map Cx.conj := by
  unfold Gen.conjArr
  simp only [Gen.arrSize, Int.ofNat_eq_natCast, Int.toNat_natCast]
  have key := foldl_set_eq_ofFn (0 : Cx ℝ) (fun (old : Cx ℝ) (_ : Nat) => ({ old with im := -old.im } : Cx ℝ)) x.size x rfl
  have hf : (Gen.conjArr_loop1 : Array (Cx ℝ) → Nat → Array (Cx ℝ)) =
      fun a i => a.setIfInBounds i ({ a.getD i 0 with im := -(a.getD i 0).im } : Cx ℝ) := by
    funext a i
    simp only [Gen.conjArr_loop1, Int.ofNat_eq_natCast, arrSet_natCast, arrGet_natCast, gzeroC_eq]
  rw [hf]
  refine key.trans ?_
  apply Array.ext
  · simp
  · intro i h1 h2
    simp only [Array.size_ofFn] at h1
    simp [getD_of_lt _ _ _ h1, Cx.conj]

/-- `real(const arr_cmplx&)` of lib/math.cpp (generated) is the element-wise real part -/
theorem realArr_eq (x : Array (Cx ℝ)) : Gen.realArr x = reV x := by
  unfold Gen.realArr reV
  simp only [Gen.arrNew, Gen.arrSize, Int.ofNat_eq_natCast, Int.toNat_natCast]
  have key := foldl_set_eq_ofFn (0 : ℝ) (fun (_ : ℝ) (k : Nat) => (x.getD k Gen.zeroC).re) x.size
    (Array.replicate x.size Gen.zeroR) (by simp)
  have hf : (Gen.realArr_loop1 x : Array ℝ → Nat → Array ℝ) = fun a i => a.setIfInBounds i (x.getD i Gen.zeroC).re := by
    funext a i
    simp only [Gen.realArr_loop1, Int.ofNat_eq_natCast, arrSet_natCast, arrGet_natCast]
  rw [hf]
  refine key.trans ?_
  apply Array.ext
  · simp
  · intro i h1 h2
    simp only [Array.size_ofFn] at h1
    simp [getD_of_lt _ _ _ h1]

/-- `complex(const arr_real&)` (pinned primitive) is the model's `ofRealV` -/
theorem arrComplex_eq (x : Array ℝ) : Gen.arrComplex x = ofRealV x := by
  unfold Gen.arrComplex ofRealV
  simp

/-- **bridge, `FftFilter::FftFilter(const arr_cmplx& h)`:** with `nextpow2` and `fft(x, n)` instantiated by anything that agrees with
the model's `nextpow2` on naturals and with "zero-pad to `n`, then transform" on `|x| ≤ n`, the generated constructor
(`_m{h.size()}`, `fft_len = 1L << nextpow2(2 m)`, `_n = fft_len - m + 1`, `_olap`, `_h = fft(conj(h), fft_len)`, `_x`) leaves the
model's `fftInit`, for EVERY tap vector -/
theorem fftFilterCtor_eq (np : Int → Int) (fftN : Array (Cx ℝ) → Int → Array (Cx ℝ)) (fft : Array (Cx ℝ) → Array (Cx ℝ))
    (hnp : ∀ k : ℕ, np (k : Int) = (nextpow2 k : Int))
    (hfft : ∀ (x : Array (Cx ℝ)) (n : ℕ), x.size ≤ n → fftN x (n : Int) = fft (zeropad (0 : Cx ℝ) x n))
    (h : Array (Cx ℝ)) :
    Gen.fftFilterCtor np fftN h = toGenF (fftInit (0 : Cx ℝ) Cx.conj fft h) := by
  have hL := C07.le_two_pow_nextpow2 (2 * h.size)
  unfold Gen.fftFilterCtor fftInit toGenF
  simp only [Gen.arrSize, Int.ofNat_eq_natCast]
  have h2 : ((2 : Int) * (h.size : Int)) = ((2 * h.size : ℕ) : Int) := by push_cast; ring
  have hshl : Gen.shl1 (np ((2 : Int) * (h.size : Int))) = ((2 ^ nextpow2 (2 * h.size) : ℕ) : Int) := by
    rw [h2, hnp]; simp [Gen.shl1]
  rw [hshl]
  have hconj : (Gen.conjArr h).size ≤ 2 ^ nextpow2 (2 * h.size) := by rw [conjArr_eq]; simp; omega
  rw [hfft _ _ hconj, conjArr_eq]
  have e1 : Gen.arrComplex (Gen.arrNew (Gen.zeroR : ℝ) ((2 ^ nextpow2 (2 * h.size) : ℕ) : Int)) =
      Array.replicate (2 ^ nextpow2 (2 * h.size)) (0 : Cx ℝ) := by
    unfold Gen.arrComplex Gen.arrNew
    rw [Int.toNat_natCast, Array.map_replicate]
    simp only [Gen.zeroR, fill0C_eq]
  have e2 : Gen.arrComplex (Gen.arrNew (Gen.zeroR : ℝ) ((h.size : Int) - 1)) = Array.replicate (h.size - 1) (0 : Cx ℝ) := by
    have : ((h.size : Int) - 1).toNat = h.size - 1 := by omega
    unfold Gen.arrComplex Gen.arrNew
    rw [this, Array.map_replicate]
    simp only [Gen.zeroR, fill0C_eq]
  rw [e1, e2]
  congr 1
  omega

/-- the constructed state has the structural invariant of the sample loop (at least one tap) -/
theorem fftInit_SInv (fft : Array (Cx ℝ) → Array (Cx ℝ)) (h : Array (Cx ℝ)) (hm : 1 ≤ h.size) :
    SInv (fftInit (0 : Cx ℝ) Cx.conj fft h) := by
  have hL := C07.le_two_pow_nextpow2 (2 * h.size)
  refine ⟨?_, ?_, ?_, ?_⟩ <;> simp only [fftInit, Array.size_replicate] <;> omega

/-- **T07.2 from the GENERATED constructor through the GENERATED `process`, `FftFilter(arr_cmplx)`.**  For every tap vector with at
least one tap and every transform pair satisfying the circular-convolution theorem at the one length used (C01 / C02): construct by the
regenerated constructor, call the regenerated `process`: it emits `⌊len/_n⌋·_n` samples, each equal to the sample of
`FirFilter<cmplx_t>` at the same position. -/
theorem gen_fftfilter_from_ctor_cmplx (np : Int → Int) (fftN : Array (Cx ℝ) → Int → Array (Cx ℝ)) (fft ifft : Array (Cx ℝ) → Array (Cx ℝ))
    (hnp : ∀ k : ℕ, np (k : Int) = (nextpow2 k : Int))
    (hfft : ∀ (x : Array (Cx ℝ)) (n : ℕ), x.size ≤ n → fftN x (n : Int) = fft (zeropad (0 : Cx ℝ) x n))
    (h : Array (Cx ℝ)) (hm : 1 ≤ h.size) (H : C07.CircConv fft ifft (2 ^ nextpow2 (2 * h.size))) (xs : Array (Cx ℝ)) :
    let y := (Gen.fftFilterProcess fft ifft (Gen.fftFilterCtor np fftN h) xs).2
    y.size = xs.size / (fftInitC fft h).n * (fftInitC fft h).n ∧
    ∀ i, i < y.size → y.getD i 0 = (firProcessC (firInitC h) xs).2.getD i 0 := by
  intro y
  have hy : y = (fftProcessC fft ifft (fftInitC fft h) xs).2 := by
    show (Gen.fftFilterProcess fft ifft (Gen.fftFilterCtor np fftN h) xs).2 = _
    rw [fftFilterCtor_eq np fftN fft hnp hfft h, fftFilterProcess_eq fft ifft _ (fftInit_SInv fft h hm) xs]
    simp only [fftProcessC, fftInitC, Cx.zeroC_eq]
  rw [hy]
  exact C07.fftfilter_eq_fir_cmplx fft ifft h hm H xs

/-- **T07.2 from the GENERATED constructor / `process`, real entry points** (`FftFilter(const arr_real& h) : FftFilter(complex(h))`,
`process(const arr_real& x) = real(process(complex(x)))`) -/
theorem gen_fftfilter_from_ctor_real (np : Int → Int) (fftN : Array (Cx ℝ) → Int → Array (Cx ℝ)) (fft ifft : Array (Cx ℝ) → Array (Cx ℝ))
    (hnp : ∀ k : ℕ, np (k : Int) = (nextpow2 k : Int))
    (hfft : ∀ (x : Array (Cx ℝ)) (n : ℕ), x.size ≤ n → fftN x (n : Int) = fft (zeropad (0 : Cx ℝ) x n))
    (h : Array ℝ) (hm : 1 ≤ h.size) (H : C07.CircConv fft ifft (2 ^ nextpow2 (2 * h.size))) (xs : Array ℝ) :
    let y := (Gen.fftFilterProcessR fft ifft (Gen.fftFilterCtorR np fftN h) xs).2
    y.size = xs.size / (fftInitR fft h).n * (fftInitR fft h).n ∧
    ∀ i, i < y.size → y.getD i 0 = (firProcessR (firInitR h) xs).2.getD i 0 := by
  intro y
  have hsz : (ofRealV h).size = h.size := by simp [ofRealV]
  have hy : y = (fftProcessR fft ifft (fftInitR fft h) xs).2 := by
    show (Gen.fftFilterProcessR fft ifft (Gen.fftFilterCtorR np fftN h) xs).2 = _
    unfold Gen.fftFilterProcessR Gen.fftFilterCtorR
    simp only [arrComplex_eq, realArr_eq]
    rw [fftFilterCtor_eq np fftN fft hnp hfft (ofRealV h),
      fftFilterProcess_eq fft ifft _ (fftInit_SInv fft (ofRealV h) (by rw [hsz]; exact hm)) (ofRealV xs)]
    simp only [fftProcessR, fftInitR, fftProcessC, fftInitC, Cx.zeroC_eq]
  rw [hy]
  exact C07.fftfilter_eq_fir_real fft ifft h hm H xs

/-- the hypotheses on the two parameters of the constructor are satisfiable: the model's own `nextpow2` and "zero-pad, then transform" -/
example (fft : Array (Cx ℝ) → Array (Cx ℝ)) :
    (∀ k : ℕ, (fun z : Int => (nextpow2 z.toNat : Int)) (k : Int) = (nextpow2 k : Int)) ∧
    (∀ (x : Array (Cx ℝ)) (n : ℕ), x.size ≤ n → (fun x (z : Int) => fft (zeropad (0 : Cx ℝ) x z.toNat)) x (n : Int) = fft (zeropad (0 : Cx ℝ) x n)) :=
  ⟨fun k => by simp, fun x n _ => by simp⟩

end
/-! END steps3 fftfilter -/

end Dsp.C07Gen
