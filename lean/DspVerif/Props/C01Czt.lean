import DspVerif.Props.C01
import DspVerif.Lib.C07Dft
/-!
# C01 / T01.6 — Bluestein's chirp-z transform (`lib/fft/czt.cpp`) equals the DFT

Exact theorems (over `ℂ`) about `czt`, `ifftWith`, `powNeg`, `angle` of `Model/Fft.lean` at `ℝ` and about `cztPrime`
(`Props/C01.lean`), the CZT instance `PrimesFftC` builds for prime lengths `> 41`.

* `le_two_pow_nextpow2`, `ispow2_two_pow`   the internal size `n2 = 2^nextpow2(m+n−1)` is a power of two `≥ m+n−1`
                                            (on the range of the 32-bit loop: `m+n−1 ≤ 2^32`)
* `ifftWith_eq`      `IfftPlan::solve` (conj ∘ fft ∘ conj, scaled) is the inverse DFT when its forward solver is the DFT
* `chirp_identity`   `c(k)·c(j)/c(k−j) = exp(iθ·jk)` for the chirp `c(t) = exp(iθ·t²/2)` (real exponent arithmetic)
* `toC_powNeg`       `power(a, -arange(n))[j]` denotes `a^(−j)`;  `exp_angle`: `expj(angle w) = w` for `|w| = 1`
* `conv_nowrap`      the linear convolution sits inside the circular one of size `N ≥ m+n−1` without wrap-around
* `czt_sum`, `czt_eq`  (T01.6 (2)) bin `k < m` of `CztPlan(n,m,w,a)(x)` is `Σ_j x[j]·a^(−j)·w^(jk)`, every `m`, `n ≥ 1`
* `cztPrime_eq_of_fwd`, `cztPrime_eq_partial`, `cztPrime_eq_of_five_le`, `cztPrime_hczt`  (T01.6 (1)) `cztPrime lit n` is the DFT
  for every `1 ≤ n ≤ 2^31`, given only the power-of-two plan (`hpow2`); `cztPrime_eq_le4` unconditional instances.
-/
open Finset Complex
namespace Dsp.C01
open Dsp Dsp.Fft Dsp.Primes Dsp.C07

/-! ## `nextpow2` on the 32-bit range -/

theorem shiftLoop_spec (m : ℕ) : ∀ (fuel p : ℕ), m < 2 ^ (p + fuel) →
    p ≤ shiftLoop m fuel p ∧ shiftLoop m fuel p ≤ p + fuel ∧ m < 2 ^ shiftLoop m fuel p ∧
      (shiftLoop m fuel p = p ∨ 2 ^ (shiftLoop m fuel p - 1) ≤ m)
  | 0, p, h => by simpa [shiftLoop] using h
  | fuel + 1, p, h => by
    simp only [shiftLoop, Nat.shiftRight_eq_div_pow]
    by_cases hp : 2 ^ p ≤ m
    · have h3 : m / 2 ^ p ≠ 0 := by
        have := Nat.div_pos hp (Nat.two_pow_pos p)
        omega
      simp only [bne_iff_ne, ne_eq, h3, not_false_eq_true, if_true]
      obtain ⟨a, b, c, d⟩ := shiftLoop_spec m fuel (p + 1) (by rw [show p + 1 + fuel = p + (fuel + 1) by omega]; exact h)
      refine ⟨by omega, by omega, c, Or.inr ?_⟩
      rcases d with d | d
      · rw [d]; simpa using hp
      · exact d
    · have : m / 2 ^ p = 0 := Nat.div_eq_of_lt (by omega)
      simp only [this, bne_self_eq_false, Bool.false_eq_true, if_false]
      exact ⟨le_refl _, by omega, by omega, by simp⟩

/-- `nextpow2` (32-bit `int` loop) is large enough on its whole range -/
theorem le_two_pow_nextpow2 (m : ℕ) (hm : m ≤ 2 ^ 32) : m ≤ 2 ^ nextpow2 m ∧ nextpow2 m ≤ 32 := by
  rcases Nat.lt_or_ge m (2 ^ 32) with hlt | hge
  · by_cases h01 : m = 0 ∨ m = 1
    · rcases h01 with h | h <;> subst h <;> decide
    · obtain ⟨_, b, c, d⟩ := shiftLoop_spec m 32 0 (by simpa using hlt)
      have hm0 : (m == 0 || m == 1) = false := by simp; omega
      unfold nextpow2
      simp only [hm0, Bool.false_eq_true, if_false, Nat.one_shiftLeft, beq_iff_eq]
      generalize shiftLoop m 32 0 = r at b c d
      have hr : 2 ≤ r := by
        by_contra hc
        have : r = 0 ∨ r = 1 := by omega
        rcases this with h | h <;> subst h <;> simp at c <;> omega
      split_ifs with he
      · exact ⟨by omega, by omega⟩
      · have : r - 1 + 1 = r := by omega
        rw [this]
        exact ⟨by omega, by omega⟩
  · have : m = 2 ^ 32 := by omega
    subst this
    decide

theorem ispow2_two_pow : ∀ k < 33, ispow2 (2 ^ k) = true := by decide

theorem isSmall_two_pow_lits (lit : Lits ℝ) (n : ℕ) (hs : isSmall n = true) (h8 : n ≠ 8) : IsDft n (smallC lit n) := by
  intro x k hk
  rcases (isSmall_iff n).mp hs with h | h | h | h <;> subst h
  · have : k = 0 := by omega
    subst this
    simp only [smallC, if_true]
    rw [rd_mk_lt _ _ _ (by norm_num)]
    unfold dft; simp [ω_zero, seq]
  · simp only [smallC]; norm_num
    rw [rd_mk_lt _ _ _ hk]; exact C01K.fft2_eq (rd x) k hk
  · simp only [smallC]; norm_num
    rw [rd_mk_lt _ _ _ hk]; exact C01K.fft4_eq (rd x) k hk
  · exact absurd rfl h8

/-! ## `IfftPlan::solve` is the inverse DFT -/

theorem idft_congr (N : ℕ) (A B : ℕ → ℂ) (h : ∀ i < N, A i = B i) (t : ℕ) : idft N A t = idft N B t := by
  unfold idft
  congr 1
  apply Finset.sum_congr rfl
  intro k hk
  rw [h k (Finset.mem_range.mp hk)]

/-- `IfftPlan::solve` (conjugate, scale by `1/N`, forward transform, conjugate) on top of a forward solver
    that is the DFT of size `N` is the inverse DFT `(1/N) Σ_k X[k] ω^{-kt}` -/
theorem ifftWith_eq (fwd : Vec ℝ → Vec ℝ) (N : ℕ) (h : IsDft N fwd) (X : Vec ℝ) (t : ℕ) (ht : t < N) :
    Cx.toC (rd (ifftWith fwd N X) t) = idft N (seq X) t := by
  unfold ifftWith
  simp only []
  rw [rd_mk_lt _ _ _ ht, Cx.toC_conj, h _ t ht]
  unfold dft idft
  rw [map_sum, Finset.mul_sum]
  apply Finset.sum_congr rfl
  intro k hk
  have hk' := Finset.mem_range.mp hk
  simp only [seq]
  rw [rd_mk_lt _ _ _ hk', Cx.toC_conj, toC_mulr, map_mul, Complex.conj_conj, ω_conj]
  simp only [fn_ofNat]
  push_cast
  ring

/-! ## the chirp `exp(i θ v²/2)` and the arithmetic of the model's complex operators -/

/-- `exp(i θ v²/2)`: the real angle `θ` times the real number `v²/2` (a half-integer for odd `v`) -/
noncomputable def chirpC (θ : ℝ) (v : ℤ) : ℂ := exp (((θ * ((v : ℝ) * (v : ℝ) / 2) : ℝ) : ℂ) * I)

/-- Bluestein's identity `j·k = (k² + j² − (k−j)²)/2` on the chirp -/
theorem chirp_identity (θ : ℝ) (j k : ℤ) :
    chirpC θ k * (chirpC θ j * (chirpC θ (k - j))⁻¹) = exp (((θ * ((j : ℝ) * (k : ℝ)) : ℝ) : ℂ) * I) := by
  unfold chirpC
  rw [← Complex.exp_neg, ← Complex.exp_add, ← Complex.exp_add]
  congr 1
  push_cast
  ring

/-- cell `i` of the chirp table `expj(angle(w) · t²/2)`, `t = i − (n−1)` -/
theorem toC_chirp_rd (n L : ℕ) (θ : ℝ) (i : ℕ) (hi : i < L) :
    Cx.toC (rd (mk L (fun i => expj (θ * (Fn.ofInt ((i : Int) + 1 - (n : Int)) * Fn.ofInt ((i : Int) + 1 - (n : Int)) / Fn.ofNat 2)))) i)
      = chirpC θ ((i : ℤ) + 1 - n) := by
  rw [rd_mk_lt _ _ _ hi, toC_expj]
  unfold chirpC
  simp only [fn_ofInt, fn_ofNat]
  push_cast
  ring_nf

/-- `cmplx_t(1) / z` (the generated `operator/`) denotes `1/z` (both sides are 0 at `z = 0`; the chirp is never 0) -/
theorem toC_one_div (z : Cx ℝ) : Cx.toC ((⟨Fn.ofNat 1, Fn.ofNat 0⟩ : Cx ℝ) / z) = (Cx.toC z)⁻¹ := by
  have e : ((⟨Fn.ofNat 1, Fn.ofNat 0⟩ : Cx ℝ) / z) = ⟨(1 * z.re + 0 * z.im) / (z.re * z.re + z.im * z.im),
      (z.re * 0 - 1 * z.im) / (z.re * z.re + z.im * z.im)⟩ := by
    show Cx.div _ _ = _
    simp [Cx.div, Cx.abs2]
  rw [e]
  apply Complex.ext
  · simp [Complex.inv_re, Complex.normSq_apply]
  · simp [Complex.inv_im, Complex.normSq_apply, neg_div]

theorem toC_rmul (r : ℝ) (z : Cx ℝ) : Cx.toC (Cx.rmul r z) = (r : ℂ) * Cx.toC z := by
  rw [Cx.rmul, toC_mulr, mul_comm]

theorem angle_eq (z : Cx ℝ) : angle z = Complex.arg (Cx.toC z) := rfl

theorem cabs_eq (z : Cx ℝ) : cabs z = ‖Cx.toC z‖ := by
  unfold cabs
  rw [Complex.norm_def, Complex.normSq_apply]
  rfl

/-- entry `j` of `power(a, -arange(n))`: `|a|^(−j) · expj(−j · angle a)` denotes `a^(−j)` -/
theorem toC_powNeg (a : Cx ℝ) (j : ℕ) : Cx.toC (powNeg a j) = ((Cx.toC a) ^ j)⁻¹ := by
  unfold powNeg
  simp only []
  rw [toC_rmul, toC_expj, fn_pow, fn_ofNat, cabs_eq, angle_eq, Real.rpow_neg (norm_nonneg _), Real.rpow_natCast]
  have h1 : ((Complex.arg (Cx.toC a) * -(j : ℝ) : ℝ) : ℂ) * I = -((j : ℂ) * ((Complex.arg (Cx.toC a) : ℂ) * I)) := by
    push_cast; ring
  rw [h1, Complex.exp_neg, Complex.exp_nat_mul]
  conv_rhs => rw [← Complex.norm_mul_exp_arg_mul_I (Cx.toC a), mul_pow, mul_inv]
  push_cast
  rfl

/-- `expj(angle w) = w` on the unit circle -/
theorem exp_angle (w : Cx ℝ) (hw : ‖Cx.toC w‖ = 1) : exp (((angle w : ℝ) : ℂ) * I) = Cx.toC w := by
  have := Complex.norm_mul_exp_arg_mul_I (Cx.toC w)
  rw [hw] at this
  rw [angle_eq]
  simpa using this

/-! ## linear convolution inside a circular one -/

/-- no wrap-around: a circular convolution of size `N ≥ m+n−1` of a sequence supported on `[0,n)` read at the
    positions `n−1 … n−1+m−1` is the linear convolution -/
theorem conv_nowrap (N n m : ℕ) (hn : 1 ≤ n) (hN : m + n - 1 ≤ N) (a b : ℕ → ℂ) (ha : ∀ j, n ≤ j → a j = 0)
    (k : ℕ) (hk : k < m) :
    idft N (fun q => dft N a q * dft N b q) (n - 1 + k) = ∑ j ∈ range n, a j * b (n - 1 + k - j) := by
  have hNpos : 0 < N := by omega
  rw [circ_conv_dft N hNpos a b _ (by omega)]
  have hsub : range n ⊆ range N := Finset.range_subset_range.2 (by omega)
  rw [← Finset.sum_subset hsub]
  · apply Finset.sum_congr rfl
    intro j hj
    have hj' := Finset.mem_range.mp hj
    have e : n - 1 + k + N - j = (n - 1 + k - j) + N := by omega
    rw [e, Nat.add_mod_right, Nat.mod_eq_of_lt (by omega)]
  · intro j _ hj
    rw [ha j (by simpa using hj), zero_mul]

/-! ## T01.6 the chirp-z transform -/

/-- Bluestein, as `CztPlanImpl` computes it, for ANY forward solver that is the DFT at the internal size
    `n2 = 2^nextpow2(m+n−1)` and any `n2` that is large enough: output bin `k < m` is
    `Σ_j x[j] · a^(−j) · exp(i·angle(w)·j·k)` (`a^(−j)` dropped when the constructor found `a = 1`). -/
theorem czt_sum (fwd : ℕ → Vec ℝ → Vec ℝ) (n m : ℕ) (hn : 1 ≤ n) (w a : Cx ℝ) (skipA : Bool)
    (hN : m + n - 1 ≤ 2 ^ nextpow2 (m + n - 1))
    (hfwd : IsDft (2 ^ nextpow2 (m + n - 1)) (fwd (2 ^ nextpow2 (m + n - 1))))
    (x : Vec ℝ) (k : ℕ) (hk : k < m) :
    Cx.toC (rd (czt fwd n m w a skipA x) k) =
      ∑ j ∈ range n, seq x j * (if skipA = true then 1 else ((Cx.toC a) ^ j)⁻¹) *
        exp (((angle w * ((j : ℝ) * (k : ℝ)) : ℝ) : ℂ) * I) := by
  unfold czt
  simp only []
  generalize 2 ^ nextpow2 (m + n - 1) = N at hN hfwd
  generalize angle w = θ
  have hL : ∀ i, i < m + n - 1 → i < n - 1 + max m n := by
    intro i hi
    have := Nat.le_max_left m n
    omega
  have hL' : ∀ i, i < n → n - 1 + i < n - 1 + max m n := by
    intro i hi
    have := Nat.le_max_right m n
    omega
  rw [rd_mk_lt _ _ _ hk, Cx.toC_mul, ifftWith_eq _ _ hfwd _ _ (by omega),
    toC_chirp_rd n _ θ _ (hL _ (by omega))]
  let A : ℕ → ℂ := fun j => if j < n then seq x j * (chirpC θ j * (if skipA = true then 1 else ((Cx.toC a) ^ j)⁻¹)) else 0
  let B : ℕ → ℂ := fun i => if i < m + n - 1 then (chirpC θ ((i : ℤ) + 1 - n))⁻¹ else 0
  rw [idft_congr N _ (fun q => dft N A q * dft N B q) ?_]
  · rw [conv_nowrap N n m hn hN A B (by intro j hj; simp only [A, if_neg (not_lt.2 hj)]) k hk, Finset.sum_mul]
    apply Finset.sum_congr rfl
    intro j hj
    have hj' := Finset.mem_range.mp hj
    simp only [A, B]
    have h2 : n - 1 + k - j < m + n - 1 := by omega
    rw [if_pos hj', if_pos h2]
    have e1 : (((n - 1 + k - j : ℕ) : ℤ) + 1 - n) = (k : ℤ) - j := by omega
    have e2 : (((n - 1 + k : ℕ) : ℤ) + 1 - n) = (k : ℤ) := by omega
    rw [e1, e2]
    have := chirp_identity θ (j : ℤ) (k : ℤ)
    simp only [Int.cast_natCast] at this
    rw [← this]
    ring
  · intro q hq
    simp only [seq]
    rw [rd_mk_lt _ _ _ hq, Cx.toC_mul, hfwd _ q hq, hfwd _ q hq]
    congr 1
    · apply dft_congr
      intro i hi
      simp only [seq, A]
      rw [rd_mk_lt _ _ _ hi]
      by_cases hin : i < n
      · rw [if_pos hin, if_pos hin, Cx.toC_mul, rd_mk_lt _ _ _ hin]
        congr 1
        cases skipA
        · simp only [Bool.false_eq_true, if_false]
          rw [Cx.toC_mul, toC_powNeg, toC_chirp_rd n _ θ _ (hL' _ hin)]
          have e : (((n - 1 + i : ℕ) : ℤ) + 1 - n) = (i : ℤ) := by omega
          rw [e]
        · simp only [if_true]
          rw [toC_chirp_rd n _ θ _ (hL' _ hin), mul_one]
          have e : (((n - 1 + i : ℕ) : ℤ) + 1 - n) = (i : ℤ) := by omega
          rw [e]
      · rw [if_neg hin, if_neg hin, toC_zero]
    · apply dft_congr
      intro i hi
      simp only [seq, B]
      rw [rd_mk_lt _ _ _ hi]
      by_cases hin : i < m + n - 1
      · rw [if_pos hin, if_pos hin, toC_one_div, toC_chirp_rd n _ θ _ (hL _ hin)]
      · rw [if_neg hin, if_neg hin, toC_zero]

theorem exp_mul_nat (θ : ℝ) (j k : ℕ) :
    exp (((θ * ((j : ℝ) * (k : ℝ)) : ℝ) : ℂ) * I) = (exp ((θ : ℂ) * I)) ^ (j * k) := by
  rw [← Complex.exp_nat_mul]
  congr 1
  push_cast
  ring

/-- T01.6 (2), the property of the CZT itself: for `|w| = 1`, `a ≠ 0`, every `m`, `n ≥ 1`, bin `k < m` of
    `CztPlan(n, m, w, a)(x)` is `Σ_j x[j] · a^(−j) · w^(j·k)`.  `skipA` is the constructor's decision to drop the
    factors `a^(−j)`; exact reading: it may be taken only when `a = 1`.  `hN`/`hfwd`: the internal size
    `n2 = 2^nextpow2(m+n−1)` is large enough (`le_two_pow_nextpow2`: always, for `m+n−1 ≤ 2^32`) and the plan of
    size `n2` is the DFT (`fftPow2_isDft`). -/
theorem czt_eq (fwd : ℕ → Vec ℝ → Vec ℝ) (n m : ℕ) (hn : 1 ≤ n) (w a : Cx ℝ) (skipA : Bool)
    (hw : ‖Cx.toC w‖ = 1) (_ha : Cx.toC a ≠ 0) (hskip : skipA = true → Cx.toC a = 1)
    (hN : m + n - 1 ≤ 2 ^ nextpow2 (m + n - 1))
    (hfwd : IsDft (2 ^ nextpow2 (m + n - 1)) (fwd (2 ^ nextpow2 (m + n - 1))))
    (x : Vec ℝ) (k : ℕ) (hk : k < m) :
    Cx.toC (rd (czt fwd n m w a skipA x) k) =
      ∑ j ∈ range n, seq x j * ((Cx.toC a) ^ j)⁻¹ * (Cx.toC w) ^ (j * k) := by
  rw [czt_sum fwd n m hn w a skipA hN hfwd x k hk]
  apply Finset.sum_congr rfl
  intro j _
  rw [exp_mul_nat, exp_angle w hw]
  congr 2
  cases skipA
  · simp
  · rw [hskip rfl]; simp

/-- the plan `FftPlan(2^k)` the CZT requests (`create_fft_plan`: small kernel or `Pow2FftPlan`) is the DFT, given the
    power-of-two butterfly network (`hpow2`, T01.3) -/
theorem fftPow2_isDft (lit : Lits ℝ) (hl : LitsOK lit) (e : ℕ) (he : e ≤ 32)
    (hpow2 : ∀ N, ispow2 N = true → isSmall N = false → IsDft N (pow2fft N)) :
    IsDft (2 ^ e) (fftPow2 lit (2 ^ e)) := by
  unfold fftPow2
  cases hs : isSmall (2 ^ e)
  · simpa using hpow2 _ (ispow2_two_pow e (by omega)) hs
  · simpa using smallC_eq lit hl _ hs

/-- the same without any assumption on the literals when the size is at least 16 -/
theorem fftPow2_isDft_large (lit : Lits ℝ) (e : ℕ) (he : e ≤ 32) (h16 : 16 ≤ 2 ^ e)
    (hpow2 : ∀ N, ispow2 N = true → isSmall N = false → IsDft N (pow2fft N)) :
    IsDft (2 ^ e) (fftPow2 lit (2 ^ e)) := by
  unfold fftPow2
  have hs : isSmall (2 ^ e) = false := by
    cases h : isSmall (2 ^ e)
    · rfl
    · rcases (isSmall_iff _).mp h with h | h | h | h <;> omega
  simpa [hs] using hpow2 _ (ispow2_two_pow e (by omega)) hs

/-- the constructor arguments of `PrimesFftC`: `w = expj(−2π/n)` has `exp(i·angle w) = ω n 1` -/
theorem exp_angle_primeW (n : ℕ) :
    exp (((angle (expj (Fn.ofInt (-2) * Fn.pi / Fn.ofNat n : ℝ)) : ℝ) : ℂ) * I) = ω n 1 := by
  rw [exp_angle]
  · rw [toC_expj]
    unfold ω
    congr 2
    simp only [fn_ofInt, fn_ofNat, fn_pi]
    push_cast
    ring
  · rw [toC_expj]
    exact Complex.norm_exp_ofReal_mul_I _

/-- T01.6 (1), core: the CZT instance of `PrimesFftC` (`m = n`, `w = expj(−2π/n)`, `a = 1` skipped) is the DFT of
    size `n` whenever its internal plan is the DFT of size `n2 = 2^nextpow2(2n−1) ≥ 2n−1`. -/
theorem cztPrime_eq_of_fwd (lit : Lits ℝ) (n : ℕ) (hn : 1 ≤ n)
    (hN : n + n - 1 ≤ 2 ^ nextpow2 (n + n - 1))
    (hfwd : IsDft (2 ^ nextpow2 (n + n - 1)) (fftPow2 lit (2 ^ nextpow2 (n + n - 1)))) :
    IsDft n (cztPrime lit n) := by
  intro x k hk
  unfold cztPrime
  rw [czt_sum (fftPow2 lit) n n hn _ _ true hN hfwd x k hk]
  unfold dft
  apply Finset.sum_congr rfl
  intro j _
  rw [if_pos rfl, mul_one, exp_mul_nat, exp_angle_primeW, ← ω_eq_pow]

/-
FULL statement asked for (T01.6 (1)):

  theorem cztPrime_eq (lit : Lits ℝ) (n : ℕ) (hn : 1 ≤ n)
      (hpow2 : ∀ N, ispow2 N = true → isSmall N = false → IsDft N (pow2fft N)) : IsDft n (cztPrime lit n)

It is not provable in this form, for two reasons that lie in the model / the code, not in the proof:
* `n ∈ {3, 4}` gives `n2 = 8`, so the inner plan is the small kernel `fft8`, which is the DFT only for a correct
  literal `lit.c8` (`LitsOK lit`; available at every use site: `fftC_eq_partial`, `fftPrime_eq` carry it).
  For `n ≥ 5` (`n2 ≥ 16`) no assumption on the literals is needed: `cztPrime_eq_of_five_le`.
* `nextpow2` is the 32-bit `int` loop of `lib/math.cpp` (`shiftLoop … 32`): it saturates at 32, so for `2n−1 > 2^32`
  the model has `n2 = 2^32 < 2n−1` and the circular convolution wraps around.  (In the C++ code `2n−1` must fit an `int`
  anyway.)  Hence the bound `n ≤ 2^31`, i.e. `2n−1 ≤ 2^32`.
-/

/-- T01.6 (1): the CZT instance used for prime lengths `> 41` is the DFT, for EVERY `1 ≤ n ≤ 2^31`
    (`hpow2`: correctness of `Pow2FftPlan`, T01.3, proved elsewhere as `pow2fft_eq`). -/
theorem cztPrime_eq_partial (lit : Lits ℝ) (hl : LitsOK lit) (n : ℕ) (hn : 1 ≤ n) (hb : n ≤ 2 ^ 31)
    (hpow2 : ∀ N, ispow2 N = true → isSmall N = false → IsDft N (pow2fft N)) : IsDft n (cztPrime lit n) := by
  obtain ⟨h1, h2⟩ := le_two_pow_nextpow2 (n + n - 1) (by omega)
  exact cztPrime_eq_of_fwd lit n hn h1 (fftPow2_isDft lit hl _ h2 hpow2)

/-- the same for `5 ≤ n ≤ 2^31` with NO assumption on the literals (the inner size is `≥ 16`) -/
theorem cztPrime_eq_of_five_le (lit : Lits ℝ) (n : ℕ) (hn : 5 ≤ n) (hb : n ≤ 2 ^ 31)
    (hpow2 : ∀ N, ispow2 N = true → isSmall N = false → IsDft N (pow2fft N)) : IsDft n (cztPrime lit n) := by
  obtain ⟨h1, h2⟩ := le_two_pow_nextpow2 (n + n - 1) (by omega)
  have h16 : 16 ≤ 2 ^ nextpow2 (n + n - 1) := by
    by_contra hc
    have he : nextpow2 (n + n - 1) ≤ 3 := by
      by_contra he
      exact hc (by simpa using Nat.pow_le_pow_right (n := 2) (by norm_num) (show 4 ≤ nextpow2 (n + n - 1) by omega))
    have := Nat.pow_le_pow_right (n := 2) (by norm_num) he
    omega
  exact cztPrime_eq_of_fwd lit n (by omega) h1 (fftPow2_isDft_large lit _ h2 h16 hpow2)

/-- in the shape of the hypothesis `hczt` of `fftPrime_eq` / `fftLeaf_eq` / `fftC_eq_partial` -/
theorem cztPrime_hczt (lit : Lits ℝ) (n : ℕ) (hb : n ≤ 2 ^ 31)
    (hpow2 : ∀ N, ispow2 N = true → isSmall N = false → IsDft N (pow2fft N)) :
    Gen.maxDftSize < n → IsDft n (cztPrime lit n) := by
  intro h
  have : 41 < n := h
  exact cztPrime_eq_of_five_le lit n (by omega) hb hpow2

/-! ## unconditional instances (non-vacuity) -/

/-- Bluestein for `n = 1 … 4` on top of the small kernels (`n2 = 1, 4, 8, 8`): NO hypothesis on other components -/
theorem cztPrime_eq_le4 (lit : Lits ℝ) (hl : LitsOK lit) (n : ℕ) (hn : 1 ≤ n) (h4 : n ≤ 4) : IsDft n (cztPrime lit n) := by
  obtain ⟨h1, _⟩ := le_two_pow_nextpow2 (n + n - 1) (by omega)
  apply cztPrime_eq_of_fwd lit n hn h1
  have hs : isSmall (2 ^ nextpow2 (n + n - 1)) = true := by interval_cases n <;> decide
  unfold fftPow2
  rw [hs]
  simpa using smallC_eq lit hl _ hs

/-- the hypotheses of `czt_eq` / `czt_sum` at a concrete non-trivial state: `n = 3`, `m = 5` (`n2 = 8`, small kernel),
    `w = expj(1)`, `a = 2i` (not skipped): bin `k` is `Σ_{j<3} x[j] (2i)^(−j) e^{ijk}` -/
example (lit : Lits ℝ) (hl : LitsOK lit) (x : Vec ℝ) (k : ℕ) (hk : k < 5) :
    Cx.toC (rd (czt (fftPow2 lit) 3 5 (expj 1) ⟨0, 2⟩ false x) k) =
      ∑ j ∈ range 3, seq x j * ((Cx.toC ⟨0, 2⟩) ^ j)⁻¹ * (Cx.toC (expj 1)) ^ (j * k) := by
  have e : nextpow2 (5 + 3 - 1) = 3 := by decide
  apply czt_eq (fftPow2 lit) 3 5 (by norm_num) _ _ false
  · rw [toC_expj]; exact Complex.norm_exp_ofReal_mul_I _
  · intro h
    have := congrArg Complex.im h
    simp at this
  · intro h; cases h
  · rw [e]; norm_num
  · rw [e]
    have hs : isSmall (2 ^ 3) = true := by decide
    unfold fftPow2
    rw [hs]
    simpa using smallC_eq lit hl _ hs
  · exact hk

end Dsp.C01
