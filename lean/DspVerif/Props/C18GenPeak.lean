import DspVerif.Props.C18
import DspVerif.Gen.StepsPeakloc
import DspVerif.Lib.RealFn
import DspVerif.Lib.GenBridge
/-!
# C18 — bridge: the hand-written `peakloc` models ARE the regenerated code of `lib/utils.cpp`

`Gen/StepsPeakloc.lean` is written by `tools/cxx2lean.py` on every check run from `lib/utils.cpp` (both overloads of
`peakloc`, with their `int` index arithmetic `(idx - 1 + n) % n`, `(idx + 1) % n` as C++ writes it: truncated remainder on
`Int`) and `lib/math.cpp` (`real(cmplx_t)`); `2 * x[mk]` is the left-oriented `T * cmplx_t` template of `types.h`
(`Gen.Cx.rmul`, regenerated in `Gen/Cmplx.lean`).

Proved here over ℝ, for every array and every index inside it (`0 ≤ idx < x.size()`, the domain of the C++ `assert`) and both
`cyclic` settings: `peaklocR_gen_eq`, `peaklocC_gen_eq` — the generated functions equal `Detect.peaklocR` / `Detect.peaklocC`,
the functions the driver runs and `Props/C18.lean` reasons about.  Hence `peakloc_vertex_gen`: T18.2 (the result is the vertex
`-b/(2a)` of the parabola through the three samples) holds of the regenerated code.
-/
namespace Dsp.C18GenPeak
open Dsp Dsp.Detect Dsp.GenBridge

set_option linter.unusedSimpArgs false
set_option linter.unusedVariables false

theorem idx_left (idx n : ℕ) (h : idx < n) : Int.tmod (((idx : Int) - 1) + (n : Int)) (n : Int) = (((idx + n - 1) % n : ℕ) : Int) := by
  have h1 : (((idx : Int) - 1) + (n : Int)) = ((idx + n - 1 : ℕ) : Int) := by omega
  rw [h1, Int.tmod_eq_emod_of_nonneg (by omega)]
  exact (Int.natCast_mod _ _).symm

theorem idx_right (idx n : ℕ) : Int.tmod ((idx : Int) + 1) (n : Int) = (((idx + 1) % n : ℕ) : Int) := by
  have h1 : ((idx : Int) + 1) = ((idx + 1 : ℕ) : Int) := by omega
  rw [h1, Int.tmod_eq_emod_of_nonneg (by omega)]
  exact (Int.natCast_mod _ _).symm

/-- the same neighbour written in the other orders a maintainer might choose (`(idx + n - 1) % n`, `(n + idx - 1) % n`,
`(1 + idx) % n`): the bridge below must not depend on which one the source uses -/
theorem idx_left' (idx n : ℕ) (h : idx < n) : Int.tmod (((idx : Int) + (n : Int)) - 1) (n : Int) = (((idx + n - 1) % n : ℕ) : Int) := by
  rw [← idx_left idx n h]; congr 1; omega

theorem idx_left'' (idx n : ℕ) (h : idx < n) : Int.tmod (((n : Int) + (idx : Int)) - 1) (n : Int) = (((idx + n - 1) % n : ℕ) : Int) := by
  rw [← idx_left idx n h]; congr 1; omega

theorem idx_right' (idx n : ℕ) : Int.tmod (1 + (idx : Int)) (n : Int) = (((idx + 1) % n : ℕ) : Int) := by
  rw [← idx_right idx n]; congr 1; omega

theorem cond_eq {β : Type} (x : Array β) (idx : ℕ) (cyclic : Bool) :
    ((¬ (cyclic = true)) ∧ (((idx : Int) = (0 : Int)) ∨ ((idx : Int) = (Gen.arrSize x - (1 : Int))))) ↔
      ((!cyclic && (idx == 0 || idx + 1 == x.size)) = true) := by
  simp only [Gen.arrSize, Int.ofNat_eq_natCast]
  cases cyclic
  · simp; omega
  · simp

/-- the regenerated real overload = the model the driver runs and T18.2 is about -/
theorem peaklocR_gen_eq (x : Array ℝ) (idx : ℕ) (cyclic : Bool) (h : idx < x.size) :
    Gen.peaklocR x (idx : Int) cyclic = Detect.peaklocR x idx cyclic := by
  unfold Gen.peaklocR Detect.peaklocR
  by_cases hc : ((!cyclic && (idx == 0 || idx + 1 == x.size)) = true)
  · rw [if_pos ((cond_eq x idx cyclic).mpr hc), if_pos hc]
    simp
  · rw [if_neg (fun hh => hc ((cond_eq x idx cyclic).mp hh)), if_neg hc]
    simp only [Gen.arrSize, Int.ofNat_eq_natCast, idx_left idx x.size h, idx_left' idx x.size h, idx_left'' idx x.size h, idx_right idx x.size, idx_right' idx x.size, arrGet_natCast, Gen.zeroR, fn_ofInt, fn_ofNat]
    first | (simp; done) | (simp; ring) | (simp; ring_nf)

/-- the regenerated complex overload = the model the driver runs -/
theorem peaklocC_gen_eq (x : Array (Cx ℝ)) (idx : ℕ) (cyclic : Bool) (h : idx < x.size) :
    Gen.peaklocC x (idx : Int) cyclic = Detect.peaklocC x idx cyclic := by
  unfold Gen.peaklocC Detect.peaklocC
  by_cases hc : ((!cyclic && (idx == 0 || idx + 1 == x.size)) = true)
  · rw [if_pos ((cond_eq x idx cyclic).mpr hc), if_pos hc]
    simp
  · rw [if_neg (fun hh => hc ((cond_eq x idx cyclic).mp hh)), if_neg hc]
    simp only [Gen.arrSize, Int.ofNat_eq_natCast, idx_left idx x.size h, idx_left' idx x.size h, idx_left'' idx x.size h, idx_right idx x.size, idx_right' idx x.size, arrGet_natCast, Gen.zeroC, Gen.realOfCx, fn_ofInt, fn_ofNat]
    first | (simp [MathFns.czero]; done) | (simp [MathFns.czero]; ring) | (simp [MathFns.czero]; ring_nf)

/-- T18.2 for the REGENERATED real overload: if the three samples around `idx` (cyclic neighbours) lie on
`a t² + b t + c` with `a ≠ 0`, `peakloc` returns the vertex `-b / (2a)` -/
theorem peakloc_vertex_gen (x : Array ℝ) (idx : ℕ) (cyclic : Bool) (h : idx < x.size)
    (hc : cyclic = true ∨ (idx ≠ 0 ∧ idx + 1 ≠ x.size))
    (a b c : ℝ) (ha : a ≠ 0)
    (hl : a * ((idx : ℝ) - 1) ^ 2 + b * ((idx : ℝ) - 1) + c = x.getD ((idx + x.size - 1) % x.size) 0)
    (hk : a * (idx : ℝ) ^ 2 + b * (idx : ℝ) + c = x.getD idx 0)
    (hr : a * ((idx : ℝ) + 1) ^ 2 + b * ((idx : ℝ) + 1) + c = x.getD ((idx + 1) % x.size) 0) :
    Gen.peaklocR x (idx : Int) cyclic = -b / (2 * a) := by
  rw [peaklocR_gen_eq x idx cyclic h]
  exact Dsp.C18.peakloc_vertex x idx cyclic hc a b c ha hl hk hr

/-- the regenerated code at a non-cyclic edge returns the index itself -/
theorem peakloc_noncyclic_edge_gen (x : Array ℝ) (idx : ℕ) (h : idx < x.size) (he : idx = 0 ∨ idx + 1 = x.size) :
    Gen.peaklocR x (idx : Int) false = idx := by
  rw [peaklocR_gen_eq x idx false h]
  exact Dsp.C18.peakloc_noncyclic_edge x idx he

/-- non-vacuity: the samples 1, 4, 3 at 0, 1, 2 lie on `-2 t² + 5 t + 1`; the regenerated code returns the vertex 5/4 -/
example : Gen.peaklocR (#[1, 4, 3] : Array ℝ) (1 : ℕ) false = 5 / 4 := by
  have := peakloc_vertex_gen (#[1, 4, 3] : Array ℝ) 1 false (by simp) (Or.inr (by simp)) (-2) 5 1 (by norm_num)
    (by simp) (by simp; norm_num) (by simp; norm_num)
  rw [this]; norm_num

end Dsp.C18GenPeak
