import DspVerif.Lib.C01Fft
import DspVerif.Props.C01Kernels
import Mathlib.Tactic.IntervalCases
/-!
# C01 — forward transforms equal the DFT for every length and input

Exact theorems (over `ℂ`, no rounding) about the functions of `Model/Fft.lean` instantiated at `ℝ` — the
very definitions the driver runs at `Float` against `lib/fft/*` in the correspondence run.
`seq x i = toC (rd x i)` is the complex sequence a vector denotes, `dft n x k = ∑_{m<n} x m · ω n (m·k)`.

* `facfft_eq`      (T01.4) the general Cooley–Tukey recursion of `_facfft`, for EVERY well-formed factor tree
* `dftSlow_eq`     (T01.5) `_dft_slow` with its running index `iw` (reduced by conditional subtraction)
* `rfftPacked_eq`  (T01.7) the packed real transform of `RealFftPlan::solve`, every even length
* `dft_real_conj_symm`, `fftR_real_eq_cmplx` (T01.8)
* `fftCN_eq`, `fftRN_eq` (T01.9) pad / truncate
* `coeffs_eq`      (T01.2) the quarter-wave coefficient table of `Pow2FftPlan` holds `ω n k` in every cell
* `fftPrime_eq`, `fftLeaf_eq`, `fftC_eq_partial`, `fftR_eq_partial` (T01.10) plan selection glued to the kernels
  (`Props/C01Kernels.lean`, T01.1, regenerated kernels) — with the three components that are NOT proved here
  (power-of-two bit-reversal + butterflies T01.3, Bluestein T01.6, well-formedness of `mkPlan`) as explicit hypotheses;
  unconditional for the lengths that do not need them (`fftC_eq_small`, `fftC_eq_prime41`, `fftC_eq_60`).
-/
open Finset Complex
namespace Dsp.C01
open Dsp Dsp.Fft Dsp.Primes

/-! ## T01.4 general Cooley–Tukey over a factor tree -/

/-- well-formed factor tree: positive leaf sizes, every node's children have the sizes it records -/
def Plan.WF : Plan → Prop
  | .leaf n => 0 < n
  | .node P Q p q => p.size = P ∧ q.size = Q ∧ Plan.WF p ∧ Plan.WF q

def Plan.leaves : Plan → List Nat
  | .leaf n => [n]
  | .node _ _ p q => Plan.leaves p ++ Plan.leaves q

theorem Plan.size_pos : ∀ (pl : Plan), Plan.WF pl → 0 < pl.size
  | .leaf n, h => h
  | .node P Q p q, ⟨hp, hq, wp, wq⟩ => by
    have h1 := Plan.size_pos p wp
    have h2 := Plan.size_pos q wq
    simp only [Plan.size]
    rw [hp] at h1; rw [hq] at h2
    exact Nat.mul_pos h1 h2

/-- T01.4 (clause "return the length-n discrete Fourier transform", composite lengths): for EVERY well-formed
    factor tree whose size divides the head length, every twiddle table holding `ω headN i`, and every leaf
    solver that is a DFT on the leaf sizes, `_facfft` computes the DFT of its input. -/
theorem facfft_eq (leaf : Nat → Vec ℝ → Vec ℝ) (tw : Vec ℝ) (headN : ℕ) (hN : 0 < headN)
    (htw : ∀ i < headN, Cx.toC (rd tw i) = ω headN i) :
    ∀ (plan : Plan), Plan.WF plan → plan.size ∣ headN →
    (∀ n ∈ Plan.leaves plan, ∀ (x : Vec ℝ) (k : ℕ), k < n → Cx.toC (rd (leaf n x) k) = dft n (seq x) k) →
    ∀ (x : Vec ℝ) (k : ℕ), k < plan.size →
      Cx.toC (rd (facfft leaf tw headN plan x) k) = dft plan.size (seq x) k
  | .leaf n, _, _, hleaf, x, k, hk => by
    simp only [facfft, Plan.size] at *
    exact hleaf n (by simp [Plan.leaves]) x k hk
  | .node P Q p q, ⟨hp, hq, wp, wq⟩, hdiv, hleaf, x, k, hk => by
    simp only [Plan.size] at hk hdiv ⊢
    have hPpos : 0 < P := by rw [← hp]; exact Plan.size_pos p wp
    have hQpos : 0 < Q := by rw [← hq]; exact Plan.size_pos q wq
    have hkP : k % P < P := Nat.mod_lt _ hPpos
    have hkQ : k / P < Q := by
      rw [Nat.div_lt_iff_lt_mul hPpos]; rw [Nat.mul_comm]; exact hk
    have ihp := facfft_eq leaf tw headN hN htw p wp (by rw [hp]; exact Dvd.dvd.trans (Dvd.intro _ rfl) hdiv)
      (fun n hn => hleaf n (by simp [Plan.leaves, hn]))
    have ihq := facfft_eq leaf tw headN hN htw q wq (by rw [hq]; exact Dvd.dvd.trans (Dvd.intro_left _ rfl) hdiv)
      (fun n hn => hleaf n (by simp [Plan.leaves, hn]))
    rw [hp] at ihp; rw [hq] at ihq
    obtain ⟨decim, hdec⟩ := hdiv
    have hdpos : 0 < decim := by
      rcases Nat.eq_zero_or_pos decim with h | h
      · subst h; simp at hdec; omega
      · exact h
    have hdecim : headN / (P * Q) = decim := by
      rw [hdec]; exact Nat.mul_div_cancel_left _ (Nat.mul_pos hPpos hQpos)
    simp only [facfft]
    rw [rd_mk_lt _ _ _ hk, rd2_mkRows _ _ _ _ hkP, ihq _ _ hkQ]
    have hk' : k = (k / P) * P + k % P := by rw [Nat.mul_comm]; exact (Nat.div_add_mod k P).symm
    conv_rhs => rw [hk', cooley_tukey P Q hPpos hQpos]
    unfold dft
    apply Finset.sum_congr rfl
    intro j hj
    have hjQ : j < Q := Finset.mem_range.mp hj
    congr 1
    simp only [seq]
    rw [rd_mk_lt _ _ _ hjQ, rd2_mkRows _ _ _ _ hjQ]
    have hin : Cx.toC (rd (facfft leaf tw headN p (mk P fun i => rd x (i * Q + j))) (k % P))
        = ∑ i ∈ range P, Cx.toC (rd x (i * Q + j)) * ω P (i * (k % P)) := by
      rw [ihp _ _ hkP]
      unfold dft
      apply Finset.sum_congr rfl
      intro i hi
      simp only [seq]
      rw [rd_mk_lt _ _ _ (Finset.mem_range.mp hi)]
    unfold twMul
    by_cases hc : 1 ≤ k % P ∧ 1 ≤ j
    · rw [if_pos hc, Cx.toC_mul, hin, hdecim]
      have hlt : j * (k % P) * decim < headN := by
        rw [hdec]
        have : j * (k % P) < P * Q := by
          rw [Nat.mul_comm P Q]; exact Nat.mul_lt_mul'' hjQ hkP
        exact Nat.mul_lt_mul_of_pos_right this hdpos
      rw [htw _ hlt, hdec, ω_scale (P * Q) decim _ hdpos]
      ring
    · rw [if_neg hc, hin]
      have hz : j * (k % P) = 0 := by
        rcases Nat.eq_zero_or_pos (k % P) with h | h
        · rw [h]; simp
        · rcases Nat.eq_zero_or_pos j with h' | h'
          · rw [h']; simp
          · exact absurd ⟨h, h'⟩ hc
      rw [hz, ω_zero]; ring


/-! ## T01.5 direct DFT for small primes -/

theorem sumLoop_eq (x : Vec ℝ) : ∀ i, Cx.toC (sumLoop x i) = ∑ m ∈ range i, seq x m
  | 0 => by simp [sumLoop]
  | i + 1 => by
    rw [sumLoop, Cx.toC_add, sumLoop_eq x i, Finset.sum_range_succ]; rfl

theorem dftSlowLoop_inv (n k : ℕ) (hn : 0 < n) (hk : k < n) (tw x : Vec ℝ)
    (htw : ∀ i < n, Cx.toC (rd tw i) = ω n i) :
    ∀ i, (dftSlowLoop n k x tw i).2 = (i * k) % n ∧
      Cx.toC (dftSlowLoop n k x tw i).1 = ∑ m ∈ range i, seq x m * ω n (m * k)
  | 0 => by simp [dftSlowLoop, Nat.zero_mod]
  | i + 1 => by
    obtain ⟨h2, h1⟩ := dftSlowLoop_inv n k hn hk tw x htw i
    have hlt : (i * k) % n < n := Nat.mod_lt _ hn
    constructor
    · simp only [dftSlowLoop]
      rw [h2]
      have e : (i + 1) * k % n = ((i * k) % n + k) % n := by
        rw [Nat.add_mul, Nat.one_mul, Nat.add_mod, Nat.mod_eq_of_lt hk]
      rw [e]
      generalize (i * k) % n = r at hlt ⊢
      split
      · rename_i h; exact (Nat.mod_eq_of_lt h).symm
      · rename_i h
        have h' : n ≤ r + k := Nat.le_of_not_lt h
        rw [Nat.mod_eq_sub_mod h', Nat.mod_eq_of_lt (by omega)]
    · simp only [dftSlowLoop]
      rw [Cx.toC_add, Cx.toC_mul, h1, h2, htw _ hlt, ω_mod _ _ hn, Finset.sum_range_succ]
      rfl

/-- T01.5 (clause "return the length-n DFT", prime lengths ≤ 41): `_dft_slow`, whose twiddle index is the running
    `iw += k; iw = iw < n ? iw : iw - n`, computes the DFT for every `n ≥ 1` (no primality needed). -/
theorem dftSlow_eq (n : ℕ) (hn : 0 < n) (tw x : Vec ℝ) (htw : ∀ i < n, Cx.toC (rd tw i) = ω n i)
    (k : ℕ) (hk : k < n) : Cx.toC (rd (dftSlow n tw x) k) = dft n (seq x) k := by
  unfold dftSlow
  rw [rd_mk_lt _ _ _ hk]
  by_cases h0 : k = 0
  · subst h0
    rw [if_pos rfl, sumLoop_eq]
    unfold dft
    apply Finset.sum_congr rfl
    intro m _
    rw [Nat.mul_zero, ω_zero, mul_one]
  · rw [if_neg h0, (dftSlowLoop_inv n k hn hk tw x htw n).2]
    rfl


/-! ## T01.7 packed real transform -/

section packed
variable (h : ℕ) (x : Array ℝ)

/-- DFT of the even / odd samples -/
noncomputable def Ev (k : ℕ) : ℂ := ∑ i ∈ range h, ((rdR x (2 * i) : ℝ) : ℂ) * ω h (i * k)
noncomputable def Od (k : ℕ) : ℂ := ∑ i ∈ range h, ((rdR x (2 * i + 1) : ℝ) : ℂ) * ω h (i * k)

/-- the packed half-length input `z[i] = (x[2i] + i x[2i+1]) / 2` -/
noncomputable def zvec : Vec ℝ := mk h (fun i => Cx.mulr ⟨rdR x (2 * i), rdR x (2 * i + 1)⟩ (Fn.ofNat 1 / Fn.ofNat 2))

theorem seq_zvec (i : ℕ) (hi : i < h) :
    seq (zvec h x) i = (((rdR x (2 * i) : ℝ) : ℂ) + I * ((rdR x (2 * i + 1) : ℝ) : ℂ)) / 2 := by
  unfold seq zvec
  rw [rd_mk_lt _ _ _ hi, toC_mulr]
  apply Complex.ext <;> simp <;> ring

theorem Z_val (k : ℕ) : dft h (seq (zvec h x)) k = (Ev h x k + I * Od h x k) / 2 := by
  unfold dft Ev Od
  rw [Finset.mul_sum, ← Finset.sum_add_distrib, div_eq_mul_inv, Finset.sum_mul]
  apply Finset.sum_congr rfl
  intro i hi
  rw [seq_zvec h x i (Finset.mem_range.mp hi)]
  ring

theorem Z_conj (hh : 0 < h) (j k : ℕ) (hd : h ∣ j + k) :
    (starRingEnd ℂ) (dft h (seq (zvec h x)) j) = (Ev h x k - I * Od h x k) / 2 := by
  unfold dft Ev Od
  rw [map_sum, Finset.mul_sum, ← Finset.sum_sub_distrib, div_eq_mul_inv, Finset.sum_mul]
  apply Finset.sum_congr rfl
  intro i hi
  rw [seq_zvec h x i (Finset.mem_range.mp hi), map_mul, ω_conj_of_dvd h (i * j) (i * k) hh
    (by rw [← Nat.mul_add]; exact Dvd.dvd.mul_left hd i)]
  simp only [map_div₀, map_add, map_mul, Complex.conj_ofReal, Complex.conj_I]
  have : (starRingEnd ℂ) (2 : ℂ) = 2 := by
    have := Complex.conj_ofReal 2
    simpa using this
  rw [this]
  ring

/-- radix-2 decimation in time of the length-`2h` transform of the real signal -/
theorem split2 (hh : 0 < h) (k : ℕ) :
    dft (h * 2) (seqR x) k = Ev h x k + ω (h * 2) k * Od h x k := by
  unfold dft
  rw [sum_range_mul h 2, Finset.sum_range_succ, Finset.sum_range_one]
  unfold Ev Od
  rw [Finset.mul_sum]
  congr 1
  · apply Finset.sum_congr rfl
    intro i _
    simp only [seqR, Nat.add_zero]
    rw [Nat.mul_comm i 2, Nat.mul_comm 2 i, Nat.mul_assoc, Nat.mul_comm 2 k, ← Nat.mul_assoc, ω_scale h 2 _ (by norm_num)]
  · apply Finset.sum_congr rfl
    intro i _
    simp only [seqR]
    rw [Nat.mul_comm i 2, Nat.add_mul, Nat.one_mul, ω_add]
    rw [Nat.mul_comm 2 i, Nat.mul_assoc, Nat.mul_comm 2 k, ← Nat.mul_assoc, ω_scale h 2 _ (by norm_num)]
    ring

end packed

theorem Ev_zero_real (h : ℕ) (x : Array ℝ) : Ev h x 0 = ((∑ i ∈ range h, rdR x (2 * i) : ℝ) : ℂ) := by
  unfold Ev; push_cast
  apply Finset.sum_congr rfl; intro i _; rw [Nat.mul_zero, ω_zero, mul_one]

theorem Od_zero_real (h : ℕ) (x : Array ℝ) : Od h x 0 = ((∑ i ∈ range h, rdR x (2 * i + 1) : ℝ) : ℂ) := by
  unfold Od; push_cast
  apply Finset.sum_congr rfl; intro i _; rw [Nat.mul_zero, ω_zero, mul_one]

theorem Ev_period (h : ℕ) (hh : 0 < h) (x : Array ℝ) : Ev h x h = Ev h x 0 := by
  unfold Ev; apply Finset.sum_congr rfl; intro i _
  rw [Nat.mul_comm i h, ω_self_mul _ _ hh, Nat.mul_zero, ω_zero]

theorem Od_period (h : ℕ) (hh : 0 < h) (x : Array ℝ) : Od h x h = Od h x 0 := by
  unfold Od; apply Finset.sum_congr rfl; intro i _
  rw [Nat.mul_comm i h, ω_self_mul _ _ hh, Nat.mul_zero, ω_zero]

/-- T01.7: the packed real transform (`RealFftPlan::solve`) of an even length `n = 2h` is the DFT of the real input -/
theorem rfftPacked_eq (fwd : Vec ℝ → Vec ℝ) (h : ℕ) (hh : 0 < h) (w : Vec ℝ) (x : Array ℝ)
    (hfwd : ∀ (z : Vec ℝ) (k : ℕ), k < h → Cx.toC (rd (fwd z) k) = dft h (seq z) k)
    (hw : ∀ i < h, Cx.toC (rd w i) = ω (h * 2) i)
    (k : ℕ) (hk : k < h * 2) :
    Cx.toC (rd (rfftPacked fwd (h * 2) w x) k) = dft (h * 2) (seqR x) k := by
  have hI : I * I = -1 := Complex.I_mul_I
  have hZ : ∀ j < h, Cx.toC (rd (fwd (zvec h x)) j) = (Ev h x j + I * Od h x j) / 2 := by
    intro j hj; rw [hfwd _ _ hj, Z_val]
  have hZc : ∀ j < h, ∀ i, h ∣ j + i → (starRingEnd ℂ) (Cx.toC (rd (fwd (zvec h x)) j)) = (Ev h x i - I * Od h x i) / 2 := by
    intro j hj i hd; rw [hfwd _ _ hj, Z_conj h x hh j i hd]
  -- the lower half
  have hlow : ∀ i < h, Cx.toC (rd (mk h (fun i =>
      let Zc := Cx.conj (rd (fwd (zvec h x)) (if i = 0 then 0 else h - i))
      let Xe := rd (fwd (zvec h x)) i + Zc
      let Xo := (Zc - rd (fwd (zvec h x)) i) * rd w i
      (⟨Xe.re - Xo.im, Xe.im + Xo.re⟩ : Cx ℝ))) i) = Ev h x i + ω (h * 2) i * Od h x i := by
    intro i hi
    rw [rd_mk_lt _ _ _ hi]
    simp only []
    rw [toC_untangle, Cx.toC_add, Cx.toC_mul, Cx.toC_sub, Cx.toC_conj, hZ i hi, hw i hi]
    have hidx : (if i = 0 then 0 else h - i) < h := by split <;> omega
    have hdv : h ∣ (if i = 0 then 0 else h - i) + i := by
      split
      · rename_i h0; subst h0; simp
      · have : h - i + i = h := Nat.sub_add_cancel hi.le
        rw [this]
    rw [hZc _ hidx i hdv]
    linear_combination (-(Od h x i * ω (h * 2) i)) * hI
  have hdiv : h * 2 / 2 = h := Nat.mul_div_cancel h (by norm_num)
  unfold rfftPacked
  simp only [hdiv]
  rw [rd_mk_lt _ _ _ hk]
  change Cx.toC (if k < h then _ else if k = h then _ else _) = _
  by_cases h1 : k < h
  · rw [if_pos h1]
    rw [split2 h x hh k]
    exact hlow k h1
  · rw [if_neg h1]
    by_cases h2 : k = h
    · rw [if_pos h2]
      subst h2
      rw [toC_ofReal, split2 k x hh k, Ev_period k hh, Od_period k hh, ω_half k hh]
      have e1 : Cx.toC (rd (fwd (zvec k x)) 0 + Cx.conj (rd (fwd (zvec k x)) 0)) = Ev k x 0 := by
        rw [Cx.toC_add, Cx.toC_conj, hZc 0 hh 0 (by simp), hZ 0 hh]; ring
      have e2 : Cx.toC (Cx.conj (rd (fwd (zvec k x)) 0) - rd (fwd (zvec k x)) 0) = -(I * Od k x 0) := by
        rw [Cx.toC_sub, Cx.toC_conj, hZc 0 hh 0 (by simp), hZ 0 hh]; ring
      have r1 := congrArg Complex.re e1
      have r2 := congrArg Complex.im e2
      rw [Ev_zero_real] at r1
      rw [Od_zero_real] at r2
      simp only [Cx.toC_re, Cx.toC_im, Complex.ofReal_re, Complex.neg_im, Complex.mul_im, Complex.I_re, Complex.I_im,
        Complex.ofReal_im, zero_mul, one_mul, zero_add] at r1 r2
      change ((((rd (fwd (zvec k x)) 0 + Cx.conj (rd (fwd (zvec k x)) 0)).re
        + (Cx.conj (rd (fwd (zvec k x)) 0) - rd (fwd (zvec k x)) 0).im : ℝ)) : ℂ) = _
      rw [r1, r2, Ev_zero_real, Od_zero_real]
      push_cast; ring
    · rw [if_neg h2]
      have hk2 : h * 2 - k < h := by omega
      have hsym := dft_conj_symm (h * 2) (by omega) (fun m => rdR x m) k hk.le
      have hl := hlow (h * 2 - k) hk2
      rw [← split2 h x hh] at hl
      change (starRingEnd ℂ) (dft (h * 2) (seqR x) (h * 2 - k)) = dft (h * 2) (seqR x) k at hsym
      rw [← hsym, ← hl]
      apply Complex.ext
      · simp only [Cx.toC_re, Complex.conj_re]; rfl
      · simp only [Cx.toC_im, Complex.conj_im]; rfl


/-! ## T01.8 real input -/

/-- T01.8 (clause "the transform of a real input … is conjugate-symmetric"): `X[k] = conj X[n-k]`. -/
theorem dft_real_conj_symm (n : ℕ) (hn : 0 < n) (x : Array ℝ) (k : ℕ) (hk : k ≤ n) :
    dft n (seqR x) k = (starRingEnd ℂ) (dft n (seqR x) (n - k)) :=
  (dft_conj_symm n hn (fun m => rdR x m) k hk).symm

/-- `complex(x)` denotes the same sequence as the real array `x` -/
theorem seq_complexify (x : Array ℝ) (i : ℕ) : seq (complexify x) i = seqR x i := by
  unfold seq seqR complexify
  rw [rd_mk]
  split
  · rw [toC_ofReal]
  · rename_i h
    have h' : x.size ≤ i := Nat.le_of_not_lt h
    have : rdR x i = 0 := by
      unfold rdR
      simp [Array.getD, h]
    rw [this, toC_zero]; simp

/-- T01.8 (clause "the transform of a real input equals the transform of the same values given as complex
    numbers"): the two input forms denote the same sequence, hence have the same DFT. -/
theorem dft_real_eq_cmplx (n : ℕ) (x : Array ℝ) (k : ℕ) : dft n (seq (complexify x)) k = dft n (seqR x) k :=
  dft_congr n _ _ (fun i _ => seq_complexify x i) k

/-! ## T01.10 plan selection -/

/-- the literals of the source denote `√½` and `√¾` (Props/C01Kernels.lean shows the written digits do, to 2⁻⁴⁸) -/
structure LitsOK (lit : Lits ℝ) : Prop where
  c8 : 2 * lit.c8 ^ 2 = 1
  c8pos : 0 < lit.c8
  c8r : 2 * lit.c8r ^ 2 = 1
  c8rpos : 0 < lit.c8r
  d3 : 4 * lit.d3 ^ 2 = 3
  d3pos : 0 < lit.d3

/-- "solver `f` of size `n` is the DFT" -/
def IsDft (n : ℕ) (f : Vec ℝ → Vec ℝ) : Prop :=
  ∀ (x : Vec ℝ) (k : ℕ), k < n → Cx.toC (rd (f x) k) = dft n (seq x) k

theorem isSmall_iff (n : ℕ) : isSmall n = true ↔ n = 1 ∨ n = 2 ∨ n = 4 ∨ n = 8 := by
  simp [isSmall, Bool.or_eq_true, beq_iff_eq, or_assoc]

/-- T01.1 → plans: `SmallFftPow2C::solve` is the DFT for n = 1, 2, 4, 8 -/
theorem smallC_eq (lit : Lits ℝ) (hl : LitsOK lit) (n : ℕ) (hs : isSmall n = true) : IsDft n (smallC lit n) := by
  intro x k hk
  rcases (isSmall_iff n).mp hs with h | h | h | h <;> subst h
  · have : k = 0 := by omega
    subst this
    simp only [smallC, if_true]
    rw [rd_mk_lt _ _ _ (by norm_num)]
    unfold dft; simp [ω_zero, seq]
  · simp only [smallC]; norm_num
    rw [rd_mk_lt _ _ _ hk]; exact C01K.fft2_eq (rd x) k hk
  · simp only [smallC]; norm_num
    rw [rd_mk_lt _ _ _ hk]; exact C01K.fft4_eq (rd x) k hk
  · simp only [smallC]; norm_num
    rw [rd_mk_lt _ _ _ hk]; exact C01K.fft8_eq lit.c8 hl.c8 hl.c8pos (rd x) k hk

/-- `SmallFftPow2R::solve` is the DFT of the real input for n = 1, 2, 4, 8 -/
theorem smallR_eq (lit : Lits ℝ) (hl : LitsOK lit) (n : ℕ) (hs : isSmall n = true) (x : Array ℝ) (k : ℕ) (hk : k < n) :
    Cx.toC (rd (smallR lit n x) k) = dft n (seqR x) k := by
  rcases (isSmall_iff n).mp hs with h | h | h | h <;> subst h
  · have : k = 0 := by omega
    subst this
    simp only [smallR, if_true]
    rw [rd_mk_lt _ _ _ (by norm_num), toC_ofReal]
    unfold dft; simp [ω_zero, seqR]
  · simp only [smallR]; norm_num
    rw [rd_mk_lt _ _ _ hk]; exact C01K.rfft2_eq (rdR x) k hk
  · simp only [smallR]; norm_num
    rw [rd_mk_lt _ _ _ hk]; exact C01K.rfft4_eq (rdR x) k hk
  · simp only [smallR]; norm_num
    rw [rd_mk_lt _ _ _ hk]; exact C01K.rfft8_eq lit.c8r hl.c8r hl.c8rpos (rdR x) k hk

/-- the CZT instance `PrimesFftC` builds for a prime `n > 41` (T01.6, Bluestein, is NOT proved here) -/
noncomputable def cztPrime (lit : Lits ℝ) (n : ℕ) : Vec ℝ → Vec ℝ :=
  czt (fftPow2 lit) n n (expj (Fn.ofInt (-2) * Fn.pi / Fn.ofNat n)) ⟨Fn.ofNat 1, Fn.ofNat 0⟩ true

/-- `PrimesFftC::solve`: `_dft_n3`, `_dft_slow` (n ≤ 41) are DFTs outright; above 41 iff the CZT instance is -/
theorem fftPrime_eq (lit : Lits ℝ) (hl : LitsOK lit) (n : ℕ) (hn : 0 < n)
    (hczt : Gen.maxDftSize < n → IsDft n (cztPrime lit n)) : IsDft n (fftPrime lit n) := by
  intro x k hk
  unfold fftPrime
  by_cases h3 : n = 3
  · subst h3
    rw [if_pos rfl, rd_mk_lt _ _ _ hk]
    exact C01K.dft3_eq lit.d3 hl.d3 hl.d3pos (rd x) k hk
  · rw [if_neg h3]
    by_cases h41 : n ≤ Gen.maxDftSize
    · rw [if_pos h41]
      exact dftSlow_eq n hn _ x (fun i hi => by rw [rd_mk_lt _ _ _ hi, toC_twiddle]) k hk
    · rw [if_neg h41]
      exact hczt (Nat.lt_of_not_le h41) x k hk

/-- the solver of a `PlanTree` leaf (`create_fft_plan`): small kernel, prime solver, else `Pow2FftPlan` -/
theorem fftLeaf_eq (lit : Lits ℝ) (hl : LitsOK lit) (n : ℕ) (hn : 0 < n)
    (hczt : isSmall n = false → isprime n = true → Gen.maxDftSize < n → IsDft n (cztPrime lit n))
    (hpow2 : isSmall n = false → isprime n = false → IsDft n (pow2fft n)) : IsDft n (fftLeaf lit n) := by
  unfold fftLeaf
  cases hs : isSmall n
  · cases hp : isprime n
    · simpa using hpow2 hs hp
    · simpa using fftPrime_eq lit hl n hn (hczt hs hp)
  · simpa using smallC_eq lit hl n hs

/-- `FactorFFTPlan::solve` given a well-formed plan with correct leaves -/
theorem fftFactor_eq (lit : Lits ℝ) (n : ℕ) (hn : 0 < n)
    (hwf : Plan.WF (mkPlan 32 n)) (hsize : (mkPlan 32 n).size = n)
    (hleaf : ∀ m ∈ Plan.leaves (mkPlan 32 n), IsDft m (fftLeaf lit m)) : IsDft n (fftFactor lit n) := by
  intro x k hk
  unfold fftFactor
  have := facfft_eq (fftLeaf lit) (mk n (twiddle n)) n hn
    (fun i hi => by rw [rd_mk_lt _ _ _ hi, toC_twiddle]) (mkPlan 32 n) hwf (by rw [hsize]) hleaf x k (by rw [hsize]; exact hk)
  rw [hsize] at this
  exact this

/-- T01.10 (partial): `fft(arr_cmplx)` / `FftPlan(n)` is the DFT for every `n ≥ 1`, GIVEN the components not proved here,
    each needed only on the branch that uses it:
    `hczt` Bluestein for a prime `n > 41` (T01.6), `hpow2` the butterfly network for a power of two ≥ 16 (T01.3/T01.2),
    `hfac` for composite non-powers of two: `mkPlan` well-formed of size `n` with DFT leaves (`fftLeaf_eq` reduces the
    leaves to the same two components).  FULL statement intended: no hypotheses beyond `LitsOK` and `0 < n`. -/
theorem fftC_eq_partial (lit : Lits ℝ) (hl : LitsOK lit) (n : ℕ) (hn : 0 < n)
    (hczt : isSmall n = false → isprime n = true → Gen.maxDftSize < n → IsDft n (cztPrime lit n))
    (hpow2 : isSmall n = false → isprime n = false → ispow2 n = true → IsDft n (pow2fft n))
    (hfac : isSmall n = false → isprime n = false → ispow2 n = false →
      Plan.WF (mkPlan 32 n) ∧ (mkPlan 32 n).size = n ∧ ∀ m ∈ Plan.leaves (mkPlan 32 n), IsDft m (fftLeaf lit m)) :
    IsDft n (fftC lit n) := by
  unfold fftC
  cases hs : isSmall n
  · cases hp : isprime n
    · cases h2 : ispow2 n
      · obtain ⟨a, b, c⟩ := hfac hs hp h2
        simpa using fftFactor_eq lit n hn a b c
      · simpa using hpow2 hs hp h2
    · simpa using fftPrime_eq lit hl n hn (hczt hs hp)
  · simpa using smallC_eq lit hl n hs

/-- unconditional: n = 1, 2, 4, 8 -/
theorem fftC_eq_small (lit : Lits ℝ) (hl : LitsOK lit) (n : ℕ) (hs : isSmall n = true) : IsDft n (fftC lit n) := by
  have hn : 0 < n := by rcases (isSmall_iff n).mp hs with h | h | h | h <;> omega
  exact fftC_eq_partial lit hl n hn (by simp [hs]) (by simp [hs]) (by simp [hs])

/-- unconditional: every length the code treats as prime up to 41 (3, 5, 7, …, 41) -/
theorem fftC_eq_prime41 (lit : Lits ℝ) (hl : LitsOK lit) (n : ℕ) (hn : 0 < n) (hp : isprime n = true)
    (h41 : n ≤ Gen.maxDftSize) : IsDft n (fftC lit n) := by
  apply fftC_eq_partial lit hl n hn
  · intro _ _ h; omega
  · intro _ h; rw [hp] at h; cases h
  · intro _ h; rw [hp] at h; cases h

/-- T01.10 (partial), real input: `fft(arr_real)` / `rfft` / `FftPlanR(n)`; `hhalf`: the complex plan of size n/2 used by
    the packed transform, `hcx`: the complex plan of size n used for primes and odd composites. -/
theorem fftR_eq_partial (lit : Lits ℝ) (hl : LitsOK lit) (n : ℕ) (hn : 0 < n)
    (hprime : isSmall n = false → isprime n = true → IsDft n (fftPrime lit n))
    (hhalf : isSmall n = false → isprime n = false → n % 2 = 0 → IsDft (n / 2) (fftC lit (n / 2)))
    (hodd : isSmall n = false → isprime n = false → n % 2 ≠ 0 → IsDft n (fftFactor lit n))
    (x : Array ℝ) (k : ℕ) (hk : k < n) : Cx.toC (rd (fftR lit n x) k) = dft n (seqR x) k := by
  unfold fftR
  cases hs : isSmall n
  · cases hp : isprime n
    · by_cases he : n % 2 = 0
      · simp only [Bool.false_eq_true, if_false, if_pos he]
        have hn2 : n = n / 2 * 2 := by omega
        have h2pos : 0 < n / 2 := by omega
        have key := rfftPacked_eq (fftC lit (n / 2)) (n / 2) h2pos (mk (n / 2) (twiddle n)) x (hhalf hs hp he)
          (fun i hi => by rw [rd_mk_lt _ _ _ hi, toC_twiddle, ← hn2]) k (by omega)
        rw [← hn2] at key
        exact key
      · simp only [Bool.false_eq_true, if_false, if_neg he]
        rw [hodd hs hp he _ k hk]; exact dft_real_eq_cmplx n x k
    · simp only [Bool.false_eq_true, if_false, if_true]
      rw [hprime hs hp _ k hk]; exact dft_real_eq_cmplx n x k
  · simp only [if_true]
    exact smallR_eq lit hl n hs x k hk

/-! ## T01.9 pad / truncate -/

/-- the sequence `x` zero-padded or truncated to `n'` samples -/
noncomputable def padSeq (n' : ℕ) (x : Vec ℝ) : ℕ → ℂ := fun i => if i < x.size ∧ i < n' then seq x i else 0

/-- T01.9 (clause "fft(x, n) equals the transform of x zero-padded or truncated to n samples"): whenever the plan of
    size `n'` is a DFT, `fft(x, n')` is the DFT of the padded / truncated input — all three branches of the code. -/
theorem fftCN_eq (lit : Lits ℝ) (n' : ℕ) (hfft : IsDft n' (fftC lit n')) (x : Vec ℝ) (k : ℕ) (hk : k < n') :
    Cx.toC (rd (fftCN lit n' x) k) = dft n' (padSeq n' x) k := by
  unfold fftCN
  by_cases h : n' = x.size
  · rw [if_pos h, ← h, hfft x k hk]
    apply dft_congr
    intro i hi
    simp [padSeq, hi, ← h]
  · rw [if_neg h, hfft _ k hk]
    apply dft_congr
    intro i hi
    unfold seq padTrunc padSeq
    rw [rd_mk_lt _ _ _ hi]
    by_cases hx : i < x.size
    · simp [hx, hi]; rfl
    · simp [hx]

/-- real counterpart: the padded / truncated real sequence -/
noncomputable def padSeqR (n' : ℕ) (x : Array ℝ) : ℕ → ℂ := fun i => if i < x.size ∧ i < n' then seqR x i else 0

/-- T01.9 for `fft(arr_real, n')` / `rfft(x, n')` -/
theorem fftRN_eq (lit : Lits ℝ) (n' : ℕ)
    (hfft : ∀ (y : Array ℝ) (k : ℕ), k < n' → Cx.toC (rd (fftR lit n' y) k) = dft n' (seqR y) k)
    (x : Array ℝ) (k : ℕ) (hk : k < n') : Cx.toC (rd (fftRN lit n' x) k) = dft n' (padSeqR n' x) k := by
  unfold fftRN
  by_cases h : n' = x.size
  · rw [if_pos h, ← h, hfft x k hk]
    apply dft_congr
    intro i hi
    simp [padSeqR, hi, ← h]
  · rw [if_neg h, hfft _ k hk]
    apply dft_congr
    intro i hi
    unfold seqR padTruncR padSeqR
    have : rdR (Array.ofFn (n := n') fun j => if j.val < x.size then rdR x j.val else (Fn.ofNat 0 : ℝ)) i
        = if i < x.size then rdR x i else 0 := by
      unfold rdR; simp [Array.getD, hi]
    rw [this]
    by_cases hx : i < x.size
    · simp [hx, hi]; rfl
    · simp [hx]

/-! ## T01.2 coefficient table of the power-of-two plan -/

theorem cosTab_eq (n i : ℕ) : cosTab (α := ℝ) n i = Real.cos (2 * Real.pi * i / n) := by
  unfold cosTab; simp

/-- angle of table entry `a ± k` relative to the quarter points, `n = 4q` -/
theorem ang (q : ℕ) (hq : 0 < q) (j : ℕ) : 2 * Real.pi * (j : ℝ) / ((4 * q : ℕ) : ℝ) = (Real.pi / 2) * ((j : ℝ) / q) := by
  have : (q : ℝ) ≠ 0 := by exact_mod_cast hq.ne'
  push_cast; field_simp; ring

/-- T01.2: every cell of `_gen_coeffs_table(n)` (`4 ∣ n`) holds `exp(-2πi k/n)` — each cell gets its real part from
    one loop iteration and its imaginary part from another, through the quarter-wave symmetries of the cosine -/
theorem coeffs_eq (n : ℕ) (h4 : 4 ∣ n) (hn : 0 < n) (k : ℕ) (hk : k < n) :
    Cx.toC (coeffs (α := ℝ) n k) = ω n k := by
  obtain ⟨q, rfl⟩ := h4
  have hq : 0 < q := by omega
  have hqr : (q : ℝ) ≠ 0 := by exact_mod_cast hq.ne'
  have e4 : 4 * q / 4 = q := by omega
  have e2 : 4 * q / 2 = 2 * q := by omega
  have e3 : 3 * (4 * q) / 4 = 3 * q := by omega
  apply Complex.ext
  all_goals
    first | rw [C01K.ω_re] | rw [C01K.ω_im]
    unfold coeffs
    simp only [e4, e2, e3]
    rw [ang q hq k]
  · -- real part
    split_ifs with h0 hq1 hq2 hq3 l1 l2 l3
    · subst h0; simp
    · subst hq1; simp [div_self hqr]
    · subst hq2; simp only [Cx.toC_re, fn_ofInt]; push_cast
      rw [show (Real.pi / 2) * ((2 * (q : ℝ)) / q) = Real.pi by field_simp]; simp
    · subst hq3; simp only [Cx.toC_re, fn_ofInt]; push_cast
      rw [show (Real.pi / 2) * ((3 * (q : ℝ)) / q) = Real.pi / 2 + Real.pi by field_simp; ring]
      rw [Real.cos_add_pi, Real.cos_pi_div_two]; simp
    · simp only [Cx.toC_re, cosTab_eq]; rw [ang q hq k]
    · simp only [Cx.toC_re, cosTab_eq]; rw [ang q hq]
      rw [Nat.cast_sub (by omega)]; push_cast
      rw [show (Real.pi / 2) * ((2 * (q : ℝ) - k) / q) = Real.pi - (Real.pi / 2) * ((k : ℝ) / q) by field_simp]
      rw [Real.cos_pi_sub]; ring
    · simp only [Cx.toC_re, cosTab_eq]; rw [ang q hq]
      rw [Nat.cast_sub (by omega)]; push_cast
      rw [show (Real.pi / 2) * (((k : ℝ) - 2 * q) / q) = (Real.pi / 2) * ((k : ℝ) / q) - Real.pi by field_simp]
      rw [Real.cos_sub_pi]; ring
    · simp only [Cx.toC_re, cosTab_eq]; rw [ang q hq]
      rw [Nat.cast_sub (by omega)]; push_cast
      rw [show (Real.pi / 2) * ((4 * (q : ℝ) - k) / q) = 2 * Real.pi - (Real.pi / 2) * ((k : ℝ) / q) by field_simp; ring]
      rw [Real.cos_two_pi_sub]
  · -- imaginary part
    split_ifs with h0 hq1 hq2 hq3 l1 l2 l3
    · subst h0; simp
    · subst hq1; simp [div_self hqr]
    · subst hq2; simp only [Cx.toC_im, fn_ofInt]; push_cast
      rw [show (Real.pi / 2) * ((2 * (q : ℝ)) / q) = Real.pi by field_simp]; simp
    · subst hq3; simp only [Cx.toC_im, fn_ofInt]; push_cast
      rw [show (Real.pi / 2) * ((3 * (q : ℝ)) / q) = Real.pi / 2 + Real.pi by field_simp; ring]
      rw [Real.sin_add_pi, Real.sin_pi_div_two]; simp
    · simp only [Cx.toC_im, cosTab_eq]; rw [ang q hq]
      rw [Nat.cast_sub (by omega)]
      rw [show (Real.pi / 2) * (((q : ℝ) - k) / q) = Real.pi / 2 - (Real.pi / 2) * ((k : ℝ) / q) by field_simp]
      rw [Real.cos_pi_div_two_sub]
    · simp only [Cx.toC_im, cosTab_eq]; rw [ang q hq]
      rw [Nat.cast_sub (by omega)]
      rw [show (Real.pi / 2) * (((k : ℝ) - q) / q) = (Real.pi / 2) * ((k : ℝ) / q) - Real.pi / 2 by field_simp]
      rw [Real.cos_sub_pi_div_two]
    · simp only [Cx.toC_im, cosTab_eq]; rw [ang q hq]
      rw [Nat.cast_sub (by omega)]; push_cast
      rw [show (Real.pi / 2) * ((3 * (q : ℝ) - k) / q) = Real.pi / 2 - ((Real.pi / 2) * ((k : ℝ) / q) - Real.pi) by field_simp; ring]
      rw [Real.cos_pi_div_two_sub, Real.sin_sub_pi]
    · simp only [Cx.toC_im, cosTab_eq]; rw [ang q hq]
      rw [Nat.cast_sub (by omega)]; push_cast
      rw [show (Real.pi / 2) * (((k : ℝ) - 3 * q) / q) = ((Real.pi / 2) * ((k : ℝ) / q) - Real.pi) - Real.pi / 2 by field_simp; ring]
      rw [Real.cos_sub_pi_div_two, Real.sin_sub_pi]

/-! ## unconditional instances (non-vacuity of every hypothesis used above) -/

set_option maxRecDepth 8000 in
theorem plan60 : mkPlan 32 60 = .node 3 20 (.leaf 3) (.node 4 5 (.leaf 4) (.leaf 5)) := by decide

/-- the hypotheses `LitsOK` are satisfiable: the exact values the literals approximate -/
theorem litsOK_exact : LitsOK ⟨√2 / 2, √2 / 2, √3 / 2⟩ := by
  have h2 : (√2 : ℝ) ^ 2 = 2 := Real.sq_sqrt (by norm_num)
  have h3 : (√3 : ℝ) ^ 2 = 3 := Real.sq_sqrt (by norm_num)
  constructor <;> first | positivity | (simp only []; nlinarith)

/-- unconditional instance with a genuine two-level tree: n = 60 = 3 · (4 · 5), leaves `_dft_n3`, `_fft_n4`, `_dft_slow(5)` -/
theorem fftC_eq_60 (lit : Lits ℝ) (hl : LitsOK lit) : IsDft 60 (fftC lit 60) := by
  apply fftC_eq_partial lit hl 60 (by norm_num)
  · intro _ h _; exact absurd h (by decide)
  · intro _ _ h; exact absurd h (by decide)
  · intro _ _ _
    rw [plan60]
    refine ⟨by simp [Plan.WF, Plan.size], by simp [Plan.size], ?_⟩
    intro m hm
    simp only [Plan.leaves, List.cons_append, List.nil_append, List.mem_cons, List.not_mem_nil, or_false] at hm
    rcases hm with h | h | h <;> subst h
    · exact fftLeaf_eq lit hl 3 (by norm_num) (by intro _ _ h; exact absurd h (by decide)) (by intro _ h; exact absurd h (by decide))
    · exact fftLeaf_eq lit hl 4 (by norm_num) (by intro h; exact absurd h (by decide)) (by intro h; exact absurd h (by decide))
    · exact fftLeaf_eq lit hl 5 (by norm_num) (by intro _ _ h; exact absurd h (by decide)) (by intro _ h; exact absurd h (by decide))

/-- the plan of `n = 60` is well formed (instance of the hypotheses of `facfft_eq`) -/
example : Plan.WF (mkPlan 32 60) ∧ (mkPlan 32 60).size = 60 := by rw [plan60]; simp [Plan.WF, Plan.size]

/-- unconditional: real input of length 120 — packed transform on top of the complex plan of size 60 -/
theorem fftR_eq_120 (lit : Lits ℝ) (hl : LitsOK lit) (x : Array ℝ) (k : ℕ) (hk : k < 120) :
    Cx.toC (rd (fftR lit 120 x) k) = dft 120 (seqR x) k := by
  apply fftR_eq_partial lit hl 120 (by norm_num) _ _ _ x k hk
  · intro _ h; exact absurd h (by decide)
  · intro _ _ _; exact fftC_eq_60 lit hl
  · intro _ _ h; exact absurd rfl h

/-- unconditional: `fft(x, 60)` of an input of ANY length is the DFT of its padded / truncated version -/
theorem fftCN_eq_60 (lit : Lits ℝ) (hl : LitsOK lit) (x : Vec ℝ) (k : ℕ) (hk : k < 60) :
    Cx.toC (rd (fftCN lit 60 x) k) = dft 60 (padSeq 60 x) k :=
  fftCN_eq lit 60 (fftC_eq_60 lit hl) x k hk

end Dsp.C01
