import DspVerif.Props.C01
import DspVerif.Props.C01Kernels
import DspVerif.Props.C01Pow2
import DspVerif.Props.C01Plan
import DspVerif.Props.C01Czt
import DspVerif.Props.C15
/-!
# C01 — the UNCONDITIONAL end-to-end theorems: `fft` equals the DFT for every length of the 32-bit `int` range

`Props/C01.lean` proves the plan selection glued to the kernels with three components as hypotheses
(`fftC_eq_partial`, `fftR_eq_partial`, `fftLeaf_eq`, `fftFactor_eq`).  The components are proved in
`Props/C01Pow2.lean` (`pow2fft_eq`: radix-2 network, no bound on `n`), `Props/C01Czt.lean` (`cztPrime_hczt`: Bluestein for
`n ≤ 2^31`) and `Props/C01Plan.lean` (`mkPlan_wf` / `hfac_of_leaves`: the factor tree, `2 ≤ n < 2^31`).  This file
discharges the hypotheses.  The only assumptions left are `LitsOK lit` (the three literals of the source denote `√½`, `√½`,
`√¾`; satisfiable: `litsOK_exact`) and the length range `0 < n < 2^31` (every positive value of the `int` argument).

* `pow2_all`, `hczt_all`   the two components in the shape the glue lemmas take them
* `fftLeaf_total`          every leaf solver of a factor tree (`ispow2 m ∨ isprime m`, `m ≤ 2^31`) is the DFT
* `fftFactor_total`        `FactorFFTPlan::solve`, every `2 ≤ n < 2^31`
* `fftC_eq`                MAIN (T01.10): `fft(arr_cmplx)` / `FftPlan(n)` is the DFT, every `0 < n < 2^31`
  `fftC_eq_le`             the same for `0 < n ≤ 2^31` (the one extra length `2^31` is a power of two)
* `fftR_eq`                MAIN (T01.10): `fft(arr_real)` / `rfft` / `FftPlanR(n)` is the DFT of the real input, `0 < n < 2^31`
* `fftCN_eq_total`, `fftRN_eq_total`  (T01.9) `fft(x, n')` is the DFT of `x` zero-padded / truncated to `n'`, `0 < n' < 2^31`
* `fftR_conj_symm_total`, `fftR_dc_real_total`, `fftR_eq_fftC_total`  (T01.8)

Where the bound comes from: `n < 2^31` is needed ONLY on the composite branch — `mkPlan_wf` (`treeFactors_spec`: the 32-step
halving loop of `PlanTree::_factor` and the `int` range of `factor`); the prime branch needs `n ≤ 2^31` (`cztPrime_hczt`:
`nextpow2` is the 32-bit loop, the internal size `2^nextpow2(2n−1)` must reach `2n−1 ≤ 2^32`); the power-of-two and small
branches need no bound.  No statement about `isprime` / `ispow2` being the mathematical predicates is used: the theorems
follow the library's own tests, so they hold whatever those tests answer.
-/
open Finset Complex
namespace Dsp.C01
open Dsp Dsp.Fft Dsp.Primes

/-! ## the components, in the shape the glue lemmas take them -/

/-- T01.3 for every size at once (argument `hpow2` of `cztPrime_hczt` / `cztPrime_eq_partial`) -/
theorem pow2_all : ∀ N, ispow2 N = true → isSmall N = false → IsDft N (pow2fft N) :=
  fun N h2 hs => pow2fft_eq N hs h2

/-- T01.6 for every `n ≤ 2^31` (hypothesis `hczt` of `fftPrime_eq`) -/
theorem hczt_all (lit : Lits ℝ) (n : ℕ) (hb : n ≤ 2 ^ 31) : Gen.maxDftSize < n → IsDft n (cztPrime lit n) :=
  cztPrime_hczt lit n hb pow2_all

/-- `PrimesFftC::solve` is the DFT for every `0 < n ≤ 2^31` (whether or not `n` is prime) -/
theorem fftPrime_total (lit : Lits ℝ) (hl : LitsOK lit) (n : ℕ) (hn : 0 < n) (hb : n ≤ 2 ^ 31) :
    IsDft n (fftPrime lit n) :=
  fftPrime_eq lit hl n hn (hczt_all lit n hb)

/-- the solver of a leaf of the factor tree: a length the library treats as a power of two or as a prime -/
theorem fftLeaf_total (lit : Lits ℝ) (hl : LitsOK lit) (m : ℕ) (hm : 0 < m) (hb : m ≤ 2 ^ 31)
    (hor : ispow2 m = true ∨ isprime m = true) : IsDft m (fftLeaf lit m) := by
  apply fftLeaf_eq lit hl m hm
  · intro _ _; exact hczt_all lit m hb
  · intro hs hp
    rcases hor with h2 | hp'
    · exact pow2fft_eq m hs h2
    · rw [hp] at hp'; cases hp'

theorem two_le_of_not_small (n : ℕ) (hn : 0 < n) (hs : isSmall n = false) : 2 ≤ n := by
  by_contra hc
  have h1 : n = 1 := by omega
  subst h1
  simp [isSmall] at hs

/-- hypothesis `hfac` of `fftC_eq_partial`, unconditionally, every `2 ≤ n < 2^31` -/
theorem hfac_total (lit : Lits ℝ) (hl : LitsOK lit) (n : ℕ) (hn : 2 ≤ n) (hlt : n < 2 ^ 31) :
    Plan.WF (mkPlan 32 n) ∧ (mkPlan 32 n).size = n ∧ ∀ m ∈ Plan.leaves (mkPlan 32 n), IsDft m (fftLeaf lit m) :=
  hfac_of_leaves lit n hn hlt (fun m h2 hmn hor => fftLeaf_total lit hl m (by omega) (by omega) hor)

/-- `FactorFFTPlan::solve` is the DFT for every `2 ≤ n < 2^31` -/
theorem fftFactor_total (lit : Lits ℝ) (hl : LitsOK lit) (n : ℕ) (hn : 2 ≤ n) (hlt : n < 2 ^ 31) :
    IsDft n (fftFactor lit n) := by
  obtain ⟨a, b, c⟩ := hfac_total lit hl n hn hlt
  exact fftFactor_eq lit n (by omega) a b c

/-! ## T01.10 complex and real input, every length -/

/-- **C01 / T01.10** (clause "fft(x) returns the length-n discrete Fourier transform of x, for every length"):
    `fft(arr_cmplx)` / `FftPlan(n)` equals the DFT for EVERY length `0 < n < 2^31` and every input — small kernels,
    `_dft_n3`, `_dft_slow`, Bluestein, the radix-2 network and the mixed-radix factor tree, as selected by
    `create_fft_plan`.  No hypothesis besides the value of the three literals. -/
theorem fftC_eq (lit : Lits ℝ) (hl : LitsOK lit) (n : ℕ) (hn : 0 < n) (hlt : n < 2 ^ 31) : IsDft n (fftC lit n) := by
  apply fftC_eq_partial lit hl n hn
  · intro _ _; exact hczt_all lit n (by omega)
  · intro hs _ h2; exact pow2fft_eq n hs h2
  · intro hs _ _; exact hfac_total lit hl n (two_le_of_not_small n hn hs) hlt

/-- the same including the length `2^31` (a power of two: served by `Pow2FftPlan`, outside the `int` range) -/
theorem fftC_eq_le (lit : Lits ℝ) (hl : LitsOK lit) (n : ℕ) (hn : 0 < n) (hle : n ≤ 2 ^ 31) : IsDft n (fftC lit n) := by
  rcases Nat.lt_or_ge n (2 ^ 31) with h | h
  · exact fftC_eq lit hl n hn h
  · have e : n = 2 ^ 31 := by omega
    subst e
    exact fftC_eq_pow2 lit hl _ (by norm_num) (ispow2_two_pow 31 (by norm_num))

/-- **C01 / T01.10**, real input: `fft(arr_real)` / `rfft` / `FftPlanR(n)` equals the DFT of the real sequence for EVERY
    length `0 < n < 2^31` — small real kernels, the prime solver and the factor tree on the complexified input, the packed
    half-length transform for even `n`. -/
theorem fftR_eq (lit : Lits ℝ) (hl : LitsOK lit) (n : ℕ) (hn : 0 < n) (hlt : n < 2 ^ 31)
    (x : Array ℝ) (k : ℕ) (hk : k < n) : Cx.toC (rd (fftR lit n x) k) = dft n (seqR x) k := by
  apply fftR_eq_partial lit hl n hn _ _ _ x k hk
  · intro _ _; exact fftPrime_total lit hl n hn (by omega)
  · intro _ _ he; exact fftC_eq lit hl (n / 2) (by omega) (by omega)
  · intro hs _ _; exact fftFactor_total lit hl n (two_le_of_not_small n hn hs) hlt

/-! ## T01.9 pad / truncate, every target length -/

/-- **T01.9** (clause "fft(x, n) equals the transform of x zero-padded or truncated to n samples"), complex input,
    every `0 < n' < 2^31` and every input length (including the empty input) -/
theorem fftCN_eq_total (lit : Lits ℝ) (hl : LitsOK lit) (n' : ℕ) (hn : 0 < n') (hlt : n' < 2 ^ 31)
    (x : Vec ℝ) (k : ℕ) (hk : k < n') : Cx.toC (rd (fftCN lit n' x) k) = dft n' (padSeq n' x) k :=
  fftCN_eq lit n' (fftC_eq lit hl n' hn hlt) x k hk

/-- **T01.9**, real input (`fft(arr_real, n')` / `rfft(x, n')`), every `0 < n' < 2^31` -/
theorem fftRN_eq_total (lit : Lits ℝ) (hl : LitsOK lit) (n' : ℕ) (hn : 0 < n') (hlt : n' < 2 ^ 31)
    (x : Array ℝ) (k : ℕ) (hk : k < n') : Cx.toC (rd (fftRN lit n' x) k) = dft n' (padSeqR n' x) k :=
  fftRN_eq lit n' (fun y j hj => fftR_eq lit hl n' hn hlt y j hj) x k hk

/-! ## T01.8 real input: symmetry, agreement with the complex transform -/

/-- **T01.8** (clause "the transform of a real input is conjugate-symmetric"): `X[k] = conj X[n−k]` for `0 < k < n`
    (both bins inside the output), every `n < 2^31` -/
theorem fftR_conj_symm_total (lit : Lits ℝ) (hl : LitsOK lit) (n : ℕ) (hlt : n < 2 ^ 31)
    (x : Array ℝ) (k : ℕ) (hk0 : 0 < k) (hk : k < n) :
    Cx.toC (rd (fftR lit n x) k) = (starRingEnd ℂ) (Cx.toC (rd (fftR lit n x) (n - k))) := by
  have hn : 0 < n := by omega
  rw [fftR_eq lit hl n hn hlt x k hk, fftR_eq lit hl n hn hlt x (n - k) (by omega)]
  exact dft_real_conj_symm n hn x k hk.le

/-- … and the bin `k = 0` (its partner `X[n]` is `X[0]` by periodicity) is real -/
theorem fftR_dc_real_total (lit : Lits ℝ) (hl : LitsOK lit) (n : ℕ) (hn : 0 < n) (hlt : n < 2 ^ 31) (x : Array ℝ) :
    (Cx.toC (rd (fftR lit n x) 0)).im = 0 := by
  rw [fftR_eq lit hl n hn hlt x 0 hn]
  have h := dft_real_conj_symm n hn x n le_rfl
  have hper : dft n (seqR x) n = dft n (seqR x) 0 := by
    unfold dft
    apply Finset.sum_congr rfl
    intro m _
    rw [Nat.mul_comm m n, ω_self_mul _ _ hn, Nat.mul_zero, ω_zero]
  rw [Nat.sub_self, hper] at h
  exact Complex.conj_eq_iff_im.mp h.symm

/-- **T01.8** (clause "the transform of a real input equals the transform of the same values given as complex numbers"):
    `fft(x) = fft(complex(x))` bin by bin, every `0 < n < 2^31` -/
theorem fftR_eq_fftC_total (lit : Lits ℝ) (hl : LitsOK lit) (n : ℕ) (hn : 0 < n) (hlt : n < 2 ^ 31)
    (x : Array ℝ) (k : ℕ) (hk : k < n) :
    Cx.toC (rd (fftR lit n x) k) = Cx.toC (rd (fftC lit n (complexify x)) k) := by
  rw [fftR_eq lit hl n hn hlt x k hk, fftC_eq lit hl n hn hlt (complexify x) k hk]
  exact (dft_real_eq_cmplx n x k).symm

/-- the complex transform of a complexified real input is conjugate-symmetric as well -/
theorem fftC_real_conj_symm_total (lit : Lits ℝ) (hl : LitsOK lit) (n : ℕ) (hlt : n < 2 ^ 31)
    (x : Array ℝ) (k : ℕ) (hk0 : 0 < k) (hk : k < n) :
    Cx.toC (rd (fftC lit n (complexify x)) k) = (starRingEnd ℂ) (Cx.toC (rd (fftC lit n (complexify x)) (n - k))) := by
  have hn : 0 < n := by omega
  rw [← fftR_eq_fftC_total lit hl n hn hlt x k hk, ← fftR_eq_fftC_total lit hl n hn hlt x (n - k) (by omega)]
  exact fftR_conj_symm_total lit hl n hlt x k hk0 hk

/-! ## non-vacuity: the hypotheses are satisfiable, the theorems apply to concrete lengths of every branch -/

/-- `LitsOK` holds for the exact values (`litsOK_exact`): a composite non-power-of-two length (factor tree) … -/
example : IsDft 1000 (fftC ⟨√2 / 2, √2 / 2, √3 / 2⟩ 1000) :=
  fftC_eq _ litsOK_exact 1000 (by norm_num) (by norm_num)

/-- … a prime above 41 (Bluestein on top of the radix-2 network of size 2048) … -/
example : IsDft 1009 (fftC ⟨√2 / 2, √2 / 2, √3 / 2⟩ 1009) :=
  fftC_eq _ litsOK_exact 1009 (by norm_num) (by norm_num)

/-- … a power of two (radix-2 network), and the largest `int` (`2^31 − 1`, a Mersenne prime: Bluestein of size `2^32`) -/
example : IsDft 4096 (fftC ⟨√2 / 2, √2 / 2, √3 / 2⟩ 4096) ∧ IsDft 2147483647 (fftC ⟨√2 / 2, √2 / 2, √3 / 2⟩ 2147483647) :=
  ⟨fftC_eq _ litsOK_exact 4096 (by norm_num) (by norm_num), fftC_eq _ litsOK_exact 2147483647 (by norm_num) (by norm_num)⟩

/-- real input: even length (packed transform over the complex plan of size 500), odd composite, prime -/
example (x : Array ℝ) (k : ℕ) (hk : k < 1000) :
    Cx.toC (rd (fftR ⟨√2 / 2, √2 / 2, √3 / 2⟩ 1000 x) k) = dft 1000 (seqR x) k :=
  fftR_eq _ litsOK_exact 1000 (by norm_num) (by norm_num) x k hk

example (x : Array ℝ) (k : ℕ) (hk : k < 1001) :
    Cx.toC (rd (fftR ⟨√2 / 2, √2 / 2, √3 / 2⟩ 1001 x) k) = dft 1001 (seqR x) k :=
  fftR_eq _ litsOK_exact 1001 (by norm_num) (by norm_num) x k hk

/-- pad / truncate: `fft(x, 1009)` of an input of ANY length; symmetry at a concrete bin -/
example (x : Vec ℝ) (k : ℕ) (hk : k < 1009) :
    Cx.toC (rd (fftCN ⟨√2 / 2, √2 / 2, √3 / 2⟩ 1009 x) k) = dft 1009 (padSeq 1009 x) k :=
  fftCN_eq_total _ litsOK_exact 1009 (by norm_num) (by norm_num) x k hk

example (x : Array ℝ) :
    Cx.toC (rd (fftR ⟨√2 / 2, √2 / 2, √3 / 2⟩ 1000 x) 3) =
      (starRingEnd ℂ) (Cx.toC (rd (fftR ⟨√2 / 2, √2 / 2, √3 / 2⟩ 1000 x) 997)) :=
  fftR_conj_symm_total _ litsOK_exact 1000 (by norm_num) x 3 (by norm_num) (by norm_num)

/-- the statement is not vacuous in its conclusion either: for the length-2 input `(1, 0)` zero-padded to 1000 samples,
    every bin of `fft(x, 1000)` is `1` -/
example (k : ℕ) (hk : k < 1000) :
    Cx.toC (rd (fftCN ⟨√2 / 2, √2 / 2, √3 / 2⟩ 1000 #[⟨1, 0⟩, ⟨0, 0⟩] ) k) = 1 := by
  rw [fftCN_eq_total _ litsOK_exact 1000 (by norm_num) (by norm_num) _ k hk]
  unfold dft
  rw [Finset.sum_eq_single 0]
  · simp [padSeq, seq, rd, ω_zero, Cx.toC]
    apply Complex.ext <;> simp
  · intro m _ hm
    have : padSeq 1000 (#[⟨1, 0⟩, ⟨0, 0⟩] : Vec ℝ) m = 0 := by
      unfold padSeq
      split
      · rename_i h
        have h1 : m = 1 := by
          have : m < 2 := h.1
          omega
        subst h1
        simp [seq, rd, Cx.toC]
        apply Complex.ext <;> simp
      · rfl
    rw [this, zero_mul]
  · intro h; exact absurd (Finset.mem_range.mpr (by norm_num)) h

end Dsp.C01
